import TakVerif.Proofs.Flood
import TakVerif.Impl.Position

/-! Kernighan popcount (`x &= x - 1`) counts the set bits; lowest-set-bit algebra used by `FloodGroups`;
`countFlats` agrees with the list-level `Spec.flatCount`. -/
namespace Roads
open Tak

theorem and_pred_bit (x : W) (i : Nat) :
    (x &&& (x - 1#64)).getLsbD i = (x.getLsbD i && decide (∃ j, j < i ∧ x.getLsbD j = true)) := by
  by_cases hi : i < 64
  · rw [← BitVec.not_neg, BitVec.getLsbD_and, BitVec.getLsbD_not, BitVec.getLsbD_neg]
    simp only [hi, decide_true, Bool.true_and]
    cases x.getLsbD i <;> cases decide (∃ j, j < i ∧ x.getLsbD j = true) <;> rfl
  · rw [BitVec.getLsbD_of_ge _ _ (by omega), BitVec.getLsbD_of_ge x _ (by omega)]
    rfl

theorem low_bit (x : W) (i : Nat) :
    (x &&& ~~~(x &&& (x - 1#64))).getLsbD i =
      (x.getLsbD i && !decide (∃ j, j < i ∧ x.getLsbD j = true)) := by
  by_cases hi : i < 64
  · rw [BitVec.getLsbD_and, BitVec.getLsbD_not, and_pred_bit]
    simp only [hi, decide_true, Bool.true_and]
    cases x.getLsbD i <;> cases decide (∃ j, j < i ∧ x.getLsbD j = true) <;> rfl
  · rw [BitVec.getLsbD_of_ge _ _ (by omega), BitVec.getLsbD_of_ge x _ (by omega)]
    rfl

/-- a least element of a nonempty decidable-free predicate on `Nat` -/
theorem exists_least (P : Nat → Prop) : ∀ n, P n → ∃ k, P k ∧ ∀ j, j < k → ¬ P j := by
  intro n
  induction n using Nat.strongRecOn with
  | _ n ih =>
    intro hn
    by_cases h : ∃ m, m < n ∧ P m
    · obtain ⟨m, hm, hp⟩ := h
      exact ih m hm hp
    · exact ⟨n, hn, fun j hj hp => h ⟨j, hj, hp⟩⟩

theorem exists_bit_of_ne_zero (x : W) (hx : x ≠ 0#64) : ∃ i, x.getLsbD i = true := by
  apply Classical.byContradiction
  intro hno
  apply hx
  apply BitVec.eq_of_getLsbD_eq
  intro i _
  rw [BitVec.getLsbD_zero]
  cases h : x.getLsbD i with
  | false => rfl
  | true => exact absurd ⟨i, h⟩ hno

theorem exists_lowest (x : W) (hx : x ≠ 0#64) :
    ∃ k, k < 64 ∧ x.getLsbD k = true ∧ (∀ j, j < k → x.getLsbD j = false) ∧
      (∀ i, (x &&& (x - 1#64)).getLsbD i = (x.getLsbD i && decide (i ≠ k))) ∧
      (∀ i, (x &&& ~~~(x &&& (x - 1#64))).getLsbD i = decide (i = k)) := by
  obtain ⟨n, hn⟩ := exists_bit_of_ne_zero x hx
  obtain ⟨k, hk, hmin⟩ := exists_least (fun i => x.getLsbD i = true) n hn
  have hmin' : ∀ j, j < k → x.getLsbD j = false := fun j hj => by
    cases h : x.getLsbD j with
    | false => rfl
    | true => exact absurd h (hmin j hj)
  have hk64 : k < 64 := by
    apply Classical.byContradiction; intro hge
    rw [BitVec.getLsbD_of_ge _ _ (by omega)] at hk; cases hk
  -- the "some lower bit is set" flag, on set bits, says `i ≠ k`
  have key : ∀ i, x.getLsbD i = true → (decide (∃ j, j < i ∧ x.getLsbD j = true) = decide (i ≠ k)) := by
    intro i hi
    apply decide_eq_decide.mpr
    constructor
    · rintro ⟨j, hj, hxj⟩ rfl
      rw [hmin' j hj] at hxj; cases hxj
    · intro hne
      have : k < i := by
        rcases Nat.lt_trichotomy i k with h | h | h
        · rw [hmin' i h] at hi; cases hi
        · exact absurd h hne
        · exact h
      exact ⟨k, this, hk⟩
  refine ⟨k, hk64, hk, hmin', ?_, ?_⟩
  · intro i
    rw [and_pred_bit]
    cases hi : x.getLsbD i with
    | false => rfl
    | true => rw [key i hi]
  · intro i
    rw [low_bit]
    cases hi : x.getLsbD i with
    | false =>
      have : i ≠ k := by rintro rfl; rw [hk] at hi; cases hi
      simp only [Bool.false_and, this, decide_false]
    | true =>
      rw [key i hi]
      by_cases h : i = k <;> simp [h]


/-- removing one point `k` from a predicate lowers its count over `range m` by one iff `k < m` -/
theorem countP_range_remove (p q : Nat → Bool) (k : Nat) (hk : q k = true)
    (hp : ∀ i, p i = (q i && decide (i ≠ k))) :
    ∀ m, (List.range m).countP q = (List.range m).countP p + (if k < m then 1 else 0) := by
  intro m
  induction m with
  | zero => simp
  | succ m ih =>
    rw [List.range_succ, List.countP_append, List.countP_append, ih]
    simp only [List.countP_cons, List.countP_nil, Nat.zero_add]
    by_cases hmk : m = k
    · subst hmk
      simp [hp, hk]
    · have hpm : p m = q m := by simp [hp, hmk]
      rw [hpm]
      by_cases h1 : k < m
      · have h2 : k < m + 1 := by omega
        simp only [h1, h2, if_true]; omega
      · have h2 : ¬ k < m + 1 := by omega
        simp only [h1, h2, if_false]; omega

theorem cnt_and_pred (x : W) (hx : x ≠ 0#64) : cnt x = cnt (x &&& (x - 1#64)) + 1 := by
  obtain ⟨k, hk64, hk, _, hpred, _⟩ := exists_lowest x hx
  have := countP_range_remove (fun i => (x &&& (x - 1#64)).getLsbD i) (fun i => x.getLsbD i) k hk hpred 64
  simp only [hk64, if_true] at this
  exact this

theorem cnt_eq_zero {x : W} (h : cnt x = 0) : x = 0#64 := by
  apply Classical.byContradiction
  intro hx
  have := cnt_and_pred x hx
  omega

theorem cnt_zero : cnt 0#64 = 0 := by
  unfold cnt
  simp only [BitVec.getLsbD_zero, List.countP_false, Function.const]

theorem popcountFuel_eq_cnt : ∀ (fuel : Nat) (x : W), cnt x ≤ fuel → popcountFuel fuel x = cnt x := by
  intro fuel
  induction fuel with
  | zero =>
    intro x h
    unfold popcountFuel; omega
  | succ n ih =>
    intro x h
    unfold popcountFuel
    by_cases hx : x = 0#64
    · subst hx
      simp only [beq_self_eq_true, if_true, cnt_zero]
    · have hne : (x == 0#64) = false := by simpa using hx
      have hc := cnt_and_pred x hx
      simp only [hne]
      rw [ih _ (by omega), hc]
      simp only [Bool.false_eq_true, if_false]; omega

theorem popcount_eq_cnt (x : W) : Tak.popcount x = cnt x :=
  popcountFuel_eq_cnt 64 x (cnt_le x)

/-! ### `countFlats` against the list-level rule book -/

theorem countP_range_beyond (q : Nat → Bool) (k : Nat) (hq : ∀ i, k ≤ i → q i = false) :
    ∀ d, (List.range (k + d)).countP q = (List.range k).countP q := by
  intro d
  induction d with
  | zero => rfl
  | succ d ih =>
    rw [← Nat.add_assoc, List.range_succ, List.countP_append, ih]
    simp [hq (k + d) (by omega)]

/-- a word inside the board mask: its count over 64 positions is the count over the board squares -/
theorem cnt_eq_board {n : Nat} (hn : SizeOK n) {w : W} (hw : Sub w (Gen.precompute n).Mask) :
    cnt w = (List.range (n * n)).countP (fun i => w.getLsbD i) := by
  have hle := sq_le n hn
  have h := countP_range_beyond (fun i => w.getLsbD i) (n * n) (fun i hi => by
    cases h : w.getLsbD i with
    | false => rfl
    | true => have := lt_of_mask hn hw h; omega) (64 - n * n)
  have e : n * n + (64 - n * n) = 64 := by omega
  rw [e] at h
  exact h

/-- the rule-book test "top piece is a flat of colour `c`" -/
def flatTop (c : Color) (sq : List Piece) : Bool :=
  match sq with | [] => false | t :: _ => t.color == c && t.kind == .flat

theorem flatCount_abs (p : Pos) (c : Color) :
    Spec.flatCount (Spec.abs p) c =
      (List.range (p.cfg.size * p.cfg.size)).countP (fun i => flatTop c (p.squareAt i)) := by
  unfold Spec.flatCount Spec.abs
  simp only [← List.countP_eq_length_filter, List.countP_map]
  rfl

theorem flatTop_white (p : Pos) (i : Nat) (hi : i < 64) :
    flatTop .white (p.squareAt i) = (p.white &&& ~~~(p.standing ||| p.caps)).getLsbD i := by
  simp only [BitVec.getLsbD_and, BitVec.getLsbD_not, BitVec.getLsbD_or, hi, decide_true, Bool.true_and]
  unfold Pos.squareAt Pos.topAt flatTop
  cases p.white.getLsbD i <;> cases p.black.getLsbD i <;> cases p.standing.getLsbD i <;>
    cases p.caps.getLsbD i <;> rfl

theorem flatTop_black (p : Pos) (hd : p.white &&& p.black = 0#64) (i : Nat) (hi : i < 64) :
    flatTop .black (p.squareAt i) = (p.black &&& ~~~(p.standing ||| p.caps)).getLsbD i := by
  have hdis : (p.white.getLsbD i && p.black.getLsbD i) = false := by
    rw [← BitVec.getLsbD_and, hd, BitVec.getLsbD_zero]
  simp only [BitVec.getLsbD_and, BitVec.getLsbD_not, BitVec.getLsbD_or, hi, decide_true, Bool.true_and]
  unfold Pos.squareAt Pos.topAt flatTop
  revert hdis
  cases p.white.getLsbD i <;> cases p.black.getLsbD i <;> cases p.standing.getLsbD i <;>
    cases p.caps.getLsbD i <;> intro hdis <;> first | rfl | cases hdis

theorem Sub.and_left {x y : W} (z : W) (h : Sub x y) : Sub (x &&& z) y := by
  intro i hi
  rw [BitVec.getLsbD_and, Bool.and_eq_true] at hi
  exact h i hi.1

theorem countFlats_refines (p : Pos) (hn : SizeOK p.cfg.size) (hc : p.c = Gen.precompute p.cfg.size)
    (hw : Sub p.white p.c.Mask) (hb : Sub p.black p.c.Mask) (hd : p.white &&& p.black = 0#64) :
    p.countFlats = (Spec.flatCount (Spec.abs p) .white, Spec.flatCount (Spec.abs p) .black) := by
  rw [hc] at hw hb
  have hle := sq_le _ hn
  unfold Pos.countFlats
  rw [popcount_eq_cnt, popcount_eq_cnt, flatCount_abs, flatCount_abs,
    cnt_eq_board hn (Sub.and_left _ hw), cnt_eq_board hn (Sub.and_left _ hb)]
  congr 1
  · apply List.countP_congr
    intro i hi
    rw [flatTop_white p i (by have := List.mem_range.mp hi; omega)]
  · apply List.countP_congr
    intro i hi
    rw [flatTop_black p hd i (by have := List.mem_range.mp hi; omega)]

end Roads
