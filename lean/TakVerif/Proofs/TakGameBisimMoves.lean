import TakVerif.Proofs.TakGameBisimTak
import TakVerif.Proofs.TakGameTransferMoves

/-! Among the positions of one game, positions that `Position.Equal` identifies accept the same (non-pass) moves and
the results are `Equal` again (`C06.equal_apply`: `C06.equal_step` for the SAME move, generated or not); hence "equal
hashes ⇒ `Equal`" gives the hypothesis `HashMovesOKOn` of the move theorems (`Search.hashMovesOKOn_of_noCollision`). -/
namespace C06
open Tak Tak.PN Spec.Game Tak.Proofs
open Spec (abs decode)

/-- a non-pass move accepted in `s` is accepted in a position `t` of the same game that `Equal` identifies with `s`, and
leads to positions that `Equal` identifies again -/
theorem equal_apply {basis : Array W} {root s t s' : Pos} {m : Move} (hs : TInv basis root s) (ht : TInv basis root t)
    (he : s.equal t = true) (hnp : m.type ≠ Facts.mtPass) (hap : s.apply basis m = .ok s') :
    ∃ t', t.apply basis m = .ok t' ∧ s'.equal t' = true ∧ TInv basis root s' ∧ TInv basis root t' := by
  obtain ⟨m0, hm0, he0⟩ := C03.allMoves_complete_wf basis s hs.invB.1 m s' hnp hap
  have hsucc : Succ (takGame basis) s s' :=
    ⟨m0, hm0, takGame_apply_some.mpr (by rw [apply_of_equal' basis s m0 m he0]; exact hap)⟩
  have hs' := hs.succ hsucc
  obtain ⟨_, hst⟩ := invB_step hs.invB hnp hap
  obtain ⟨b', hb', hsim⟩ := step_plySim (plySim_of_equal hs ht he) (decode m) hst
  have href := move_refines_core (basis := basis) (p := t) analyzeTotalInst ht.invB.1 m hnp
    (stackLimit_of_budget m ht.invB.2)
  cases hta : t.apply basis m with
  | error e => rw [hta] at href; simp only at href; rw [href] at hb'; cases hb'
  | ok t' =>
    rw [hta] at href
    simp only at href
    obtain ⟨hstep, _⟩ := href
    have hbt : b' = abs t' := by rw [hb'] at hstep; exact Option.some.inj hstep
    subst hbt
    obtain ⟨m', hm', hme⟩ := C03.allMoves_complete_wf basis t ht.invB.1 m t' hnp hta
    have hta' : t.apply basis m' = .ok t' := by rw [apply_of_equal' basis t m' m hme]; exact hta
    have hsucc' : Succ (takGame basis) t t' := ⟨m', hm', takGame_apply_some.mpr hta'⟩
    have ht' := ht.succ hsucc'
    refine ⟨t', rfl, ?_, hs', ht'⟩
    rw [equal_iff_core hs'.invB.1 ht'.invB.1]
    obtain ⟨hb, htm, _⟩ := hsim
    refine ⟨?_, ?_, htm⟩
    · rw [hs'.cfg, ht'.cfg]
    · rw [hb]

end C06

namespace Search
open Tak Tak.Proofs

variable (basis : Array W) (ev : Pos → Int) (sym : Pos → List H)

/-- **no collision among the positions of one game ⇒ `HashMovesOKOn` there**: if positions of the game from `root` with
equal hashes are `Equal`, a non-pass move that keeps a win in one of them keeps it in the other -/
theorem hashMovesOKOn_of_noCollision (hev : EvVerdictCongr ev) (root : Pos) (hroot : GoodPos basis root)
    (hcol : ∀ p q, InGame basis root p → InGame basis root q → p.hashOf = q.hashOf → p.equal q = true) :
    HashMovesOKOn (takGame basis ev sym) (fun q => InvB basis q ∧ TakD q ∧ InGame basis root q) IMt := by
  intro p q hp hq hh m c him hap hl
  have h0 := C06.TInv.root hroot.1 hroot.2.2
  have hap' : p.apply basis m = .ok c := hap
  obtain ⟨c', hap2, hec, _, _⟩ := C06.equal_apply (h0.reach hp.2.2) (h0.reach hq.2.2)
    (hcol p q hp.2.2 hq.2.2 hh) him hap'
  have hgc : InGame basis root c :=
    (domClosed_inGame basis root p c m hp.1.1 ⟨hp.2.1, hp.2.2⟩ him hap').2
  have hgc' : InGame basis root c' :=
    (domClosed_inGame basis root q c' m hq.1.1 ⟨hq.2.1, hq.2.2⟩ him hap2).2
  refine ⟨c', hap2, ?_⟩
  obtain ⟨d, hd⟩ := hl
  exact ⟨d, ((negamax_cls_congr (takSearchBisim basis ev sym hev root hroot.1 hroot.2.2) d c c'
    ⟨hgc, hgc', hec⟩).2).mp hd⟩

end Search
