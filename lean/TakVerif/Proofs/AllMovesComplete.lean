import TakVerif.Proofs.AbsLite

/-! # Completeness of `AllMoves` against the rule book (C03, part 4c)

Whatever `Spec.step` accepts on `abs p` (other than a pass) has the shape of a generated move:
a placement on a square with `Height == 0`, or a slide from a stack of the mover whose drop list is a
composition of at most `min(height, size)` that fits between the origin and the edge. -/
namespace Tak.Proofs
open Tak Spec

def dirCode : Dir → Nat
  | .left => Facts.mtSlideLeft | .right => Facts.mtSlideRight | .up => Facts.mtSlideUp | .down => Facts.mtSlideDown

def distOf (sz x y : Nat) : Dir → Nat
  | .left => x | .right => sz - x - 1 | .up => sz - y - 1 | .down => y

theorem dir_mem_dirList (sz x y : Nat) (d : Dir) : (dirCode d, distOf sz x y d) ∈ dirList sz x y := by
  cases d <;> simp [dirList, dirCode, distOf]

theorem sqMoves_of_empty (p : Pos) (x y : Nat) (h0 : p.height.getD (y * p.cfg.size + x) 0 = 0#8) :
    sqMoves p x y = placeMoves p x y := by
  have e0 : (p.height.getD (y * p.cfg.size + x) 0 == 0#8) = true := by simpa using h0
  unfold sqMoves
  simp only [e0, if_true]

theorem sqMoves_of_stack (p : Pos) (x y : Nat) (h0 : p.height.getD (y * p.cfg.size + x) 0 ≠ 0#8)
    (h1 : ¬ p.move < 2)
    (h2 : p.toMove = .white → p.white.getLsbD (y * p.cfg.size + x) = true)
    (h3 : p.toMove = .black → p.black.getLsbD (y * p.cfg.size + x) = true) :
    sqMoves p x y = slideMoves p x y := by
  unfold sqMoves
  simp only []
  have e0 : (p.height.getD (y * p.cfg.size + x) 0 == 0#8) = false := by simpa using h0
  rw [e0]
  simp only [Bool.false_eq_true, if_false, h1]
  have n2 : ¬((p.toMove == Color.white) = true ∧ (!BitVec.getLsbD p.white (y * p.cfg.size + x)) = true) := by
    rintro ⟨a, b⟩
    have := h2 (by simpa using a)
    simp [this] at b
  have n3 : ¬((p.toMove == Color.black) = true ∧ (!BitVec.getLsbD p.black (y * p.cfg.size + x)) = true) := by
    rintro ⟨a, b⟩
    have := h3 (by simpa using a)
    simp [this] at b
  rw [if_neg n2, if_neg n3]

theorem complete_place (p : Pos) (wf : WFlite p) (m : Move) (k : Kind)
    (hkt : (k = .flat ∧ m.type = Facts.mtPlaceFlat) ∨ (k = .standing ∧ m.type = Facts.mtPlaceStanding) ∨
           (k = .capstone ∧ m.type = Facts.mtPlaceCapstone))
    (hl : step (abs p) (.place m.x m.y k) ≠ none) : ∃ m' ∈ p.allMoves, m'.equal m = true := by
  obtain ⟨hob, hopen, hempty, hres⟩ := step_place_some _ _ _ _ hl
  obtain ⟨hx, hy, ex, ey, hat⟩ := abs_at p m.x m.y hob
  rw [hat, List.isEmpty_iff, squareAt_nil_iff] at hempty
  have h0 := (wf.height_zero _ (idx_lt _ _ _ hx hy)).2 hempty
  refine ⟨⟨m.x.toNat, m.y.toNat, m.type, 0⟩, ?_, ?_⟩
  · rw [mem_allMoves]
    refine ⟨_, hx, _, hy, ?_⟩
    rw [sqMoves_of_empty p _ _ h0, mem_placeMoves]
    have hply : (abs p).ply = p.move := rfl
    rw [hply] at hopen hres
    rcases hkt with ⟨rfl, ht⟩ | ⟨rfl, ht⟩ | ⟨rfl, ht⟩
    · left; rw [ht]
    · right; left
      have : p.move ≥ 2 := by
        false_or_by_contra
        exact hopen ⟨by omega, by simp⟩
      exact ⟨this, by rw [ht]⟩
    · right; right
      have h2 : p.move ≥ 2 := by
        false_or_by_contra
        exact hopen ⟨by omega, by simp⟩
      refine ⟨h2, ?_, by rw [ht]⟩
      have h2' : ¬ p.move < 2 := by omega
      simp only [h2', if_false, toMove_abs] at hres
      unfold capFlag
      rcases toMove_cases p with hw | hb
      · rw [hw] at hres ⊢
        simp only [State.reserve, abs] at hres
        simp
        intro h; apply hres; rw [h]; rfl
      · rw [hb] at hres ⊢
        simp only [State.reserve, abs] at hres
        simp
        intro h; apply hres; rw [h]; rfl
  · have tc := types_cases
    rcases hkt with ⟨_, ht⟩ | ⟨_, ht⟩ | ⟨_, ht⟩ <;> simp [Move.equal, ex, ey, Move.isSlide, ht, tc]

theorem complete_slide (p : Pos) (wf : WFlite p) (m : Move) (d : Dir) (ht : m.type = dirCode d)
    (hl : step (abs p) (.slide m.x m.y d (Slides.elems m.slides)) ≠ none) :
    ∃ m' ∈ p.allMoves, m'.equal m = true := by
  obtain ⟨hply, hob, hne, hnz, hsz, hlen, ⟨t, rest, hsq, hcol⟩, s', carried, hs', hdl⟩ := step_slide_some _ _ _ _ _ hl
  obtain ⟨hx, hy, ex, ey, hat⟩ := abs_at p m.x m.y hob
  have hsize : (abs p).size = p.cfg.size := rfl
  have hply' : (abs p).ply = p.move := rfl
  rw [hat] at hsq hlen
  rw [hsize] at hsz hs'
  rw [hply'] at hply
  rw [toMove_abs] at hcol
  obtain ⟨hw, hb, hlen'⟩ := squareAt_cons p _ t rest hsq
  rw [hsq, hlen', foldl_add_eq_sum] at hlen
  rw [foldl_add_eq_sum] at hsz
  have h0 : p.height.getD (m.y.toNat * p.cfg.size + m.x.toNat) 0 ≠ 0#8 := by
    intro h0
    have := (wf.height_zero _ (idx_lt _ _ _ hx hy)).1 h0
    rw [← squareAt_nil_iff, hsq] at this
    cases this
  have hsq' := sqMoves_of_stack p _ _ h0 hply
    (fun e => hw.1 (by rw [hcol, e])) (fun e => hb (by rw [hcol, e]))
  have hcarry := carryAt_le p (m.y.toNat * p.cfg.size + m.x.toNat)
  have hs8 := wf.size_hi
  -- the slide word is in the table row used by the generator
  have htab : m.slides ∈ slidesTable.getD (carryAt p (m.y.toNat * p.cfg.size + m.x.toNat)) [] := by
    rw [slides_table _ (by omega)]
    refine ⟨hne, ?_, ?_, (encode_elems _).symm⟩
    · intro e he
      have := le_sum_of_mem _ e he
      have := hnz e he
      exact ⟨by omega, by omega⟩
    · have hne0 : (p.height.getD (m.y.toNat * p.cfg.size + m.x.toNat) 0).toNat ≠ 0 := by
        intro e; apply h0; apply BitVec.eq_of_toNat_eq; simpa using e
      unfold carryAt; split <;> omega
  -- and it passes the edge mask
  have hend := dropLoop_end_onboard d _ s' m.x m.y carried hne hdl
  rw [hs'] at hend
  have hdist : (Slides.elems m.slides).length ≤ distOf p.cfg.size m.x.toNat m.y.toNat d := by
    cases d <;> simp only [Dir.dx, Dir.dy, distOf] at hend ⊢ <;> omega
  have hd8 : distOf p.cfg.size m.x.toNat m.y.toNat d ≤ 8 := by
    cases d <;> simp only [distOf] <;> omega
  have hmask := (mask_test _ (by omega) m.slides htab _ hd8).2 hdist
  refine ⟨⟨m.x.toNat, m.y.toNat, m.type, m.slides⟩, ?_, ?_⟩
  · rw [mem_allMoves]
    refine ⟨_, hx, _, hy, ?_⟩
    rw [hsq', mem_slideMoves]
    exact ⟨_, dir_mem_dirList _ _ _ d, m.slides, htab, hmask, by rw [ht]⟩
  · simp [Move.equal, ex, ey]

set_option linter.unusedSimpArgs false in
/-- **completeness**: every non-pass move the rule book accepts is (`Equal` to) a generated move -/
theorem allMoves_complete' (p : Pos) (wf : WFlite p) (m : Move) (_hnp : m.type ≠ Facts.mtPass)
    (hl : step (abs p) (decode m) ≠ none) : ∃ m' ∈ p.allMoves, m'.equal m = true := by
  have tc := types_cases
  unfold decode at hl
  by_cases t2 : m.type = Facts.mtPlaceFlat
  · simp only [t2, beq_self_eq_true, if_true] at hl
    exact complete_place p wf m .flat (Or.inl ⟨rfl, t2⟩) hl
  have e2 : (m.type == Facts.mtPlaceFlat) = false := by simpa using t2
  by_cases t3 : m.type = Facts.mtPlaceStanding
  · simp only [e2, t3, beq_self_eq_true, if_true, Bool.false_eq_true, if_false] at hl
    exact complete_place p wf m .standing (Or.inr (Or.inl ⟨rfl, t3⟩)) hl
  have e3 : (m.type == Facts.mtPlaceStanding) = false := by simpa using t3
  by_cases t4 : m.type = Facts.mtPlaceCapstone
  · simp only [e2, e3, t4, beq_self_eq_true, if_true, Bool.false_eq_true, if_false] at hl
    exact complete_place p wf m .capstone (Or.inr (Or.inr ⟨rfl, t4⟩)) hl
  have e4 : (m.type == Facts.mtPlaceCapstone) = false := by simpa using t4
  by_cases t5 : m.type = Facts.mtSlideLeft
  · simp only [e2, e3, e4, t5, beq_self_eq_true, if_true, Bool.false_eq_true, if_false] at hl
    exact complete_slide p wf m .left t5 hl
  have e5 : (m.type == Facts.mtSlideLeft) = false := by simpa using t5
  by_cases t6 : m.type = Facts.mtSlideRight
  · simp only [e2, e3, e4, e5, t6, beq_self_eq_true, if_true, Bool.false_eq_true, if_false] at hl
    exact complete_slide p wf m .right t6 hl
  have e6 : (m.type == Facts.mtSlideRight) = false := by simpa using t6
  by_cases t7 : m.type = Facts.mtSlideUp
  · simp only [e2, e3, e4, e5, e6, t7, beq_self_eq_true, if_true, Bool.false_eq_true, if_false] at hl
    exact complete_slide p wf m .up t7 hl
  have e7 : (m.type == Facts.mtSlideUp) = false := by simpa using t7
  by_cases t8 : m.type = Facts.mtSlideDown
  · simp only [e2, e3, e4, e5, e6, e7, t8, beq_self_eq_true, if_true, Bool.false_eq_true, if_false] at hl
    exact complete_slide p wf m .down t8 hl
  have e8 : (m.type == Facts.mtSlideDown) = false := by simpa using t8
  simp only [e2, e3, e4, e5, e6, e7, e8, Bool.false_eq_true, if_false] at hl
  exact absurd rfl hl

end Tak.Proofs
