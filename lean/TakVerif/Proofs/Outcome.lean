import TakVerif.Proofs.Road
import TakVerif.Impl.Result

/-! Readable restatements: adjacency in coordinates, the rule-book outcome in terms of `RoadPath`,
and the part of the invariant that `analyze`/`New` establish. -/
namespace Roads
open Tak Spec

/-- adjacency in coordinates: `k` is a neighbour of the on-board square `j` iff it is on the board and
differs from `j` by one step in exactly one coordinate (x = index % n, y = index / n) -/
theorem mem_neighbours_coords {n j k : Nat} (hj : j < n * n) :
    k ∈ Spec.neighbours n j ↔ k < n * n ∧
      ((k / n = j / n ∧ (k % n + 1 = j % n ∨ k % n = j % n + 1)) ∨
       (k % n = j % n ∧ (k / n + 1 = j / n ∨ k / n = j / n + 1))) := by
  constructor
  · intro h; exact ⟨(neighbours_cases hj h).1, (neighbours_cases hj h).2.1⟩
  · rintro ⟨hk, hc⟩
    have hn : 0 < n := by
      rcases Nat.eq_zero_or_pos n with h0 | h0
      · subst h0; simp at hj
      · exact h0
    have hq : j / n < n := Nat.div_lt_of_lt_mul hj
    have hr : j % n < n := Nat.mod_lt _ hn
    have hq' : k / n < n := Nat.div_lt_of_lt_mul hk
    have hr' : k % n < n := Nat.mod_lt _ hn
    have hdm : n * (j / n) + j % n = j := Nat.div_add_mod j n
    have hdm' : n * (k / n) + k % n = k := Nat.div_add_mod k n
    rw [mem_neighbours]
    generalize j / n = q at *
    generalize j % n = r at *
    generalize k / n = q' at *
    generalize k % n = r' at *
    rcases hc with ⟨e, h1 | h1⟩ | ⟨e, h1 | h1⟩
    · left; subst e; exact ⟨by omega, by omega⟩
    · right; left; subst e; exact ⟨by omega, by omega⟩
    · right; right; left
      have hs1 : n * (q' + 1) = n * q' + n := Nat.mul_succ n _
      subst h1; exact ⟨by omega, by omega⟩
    · right; right; right
      have hs1 : n * (q + 1) = n * q + n := Nat.mul_succ n _
      subst h1; exact ⟨by omega, by omega⟩

/-- the winner on flats, as the rule book states it -/
def flatsWinnerOf (s : State) : Color :=
  if flatCount s .white > flatCount s .black then .white
  else if flatCount s .black > flatCount s .white then .black
  else if s.blackWinsTies then .black else .none

/-- The list-level `Spec.outcome` says what the property says, with roads as propositions (`RoadPath`):
when the game is over, who wins, why, and the flat counts. -/
theorem outcome_rules (s : State) :
    ((outcome s).over = true ↔
        RoadPath s .white ∨ RoadPath s .black ∨ (∀ sq ∈ s.squares, sq ≠ []) ∨
        s.whiteStones + s.whiteCaps = 0 ∨ s.blackStones + s.blackCaps = 0) ∧
    ((outcome s).road = true ↔ RoadPath s .white ∨ RoadPath s .black) ∧
    (RoadPath s .white → RoadPath s .black → (outcome s).winner = s.toMove.flip) ∧
    (RoadPath s .white → ¬ RoadPath s .black → (outcome s).winner = .white) ∧
    (¬ RoadPath s .white → RoadPath s .black → (outcome s).winner = .black) ∧
    (¬ RoadPath s .white → ¬ RoadPath s .black → (outcome s).over = true →
        (outcome s).winner = flatsWinnerOf s) ∧
    ((outcome s).over = false → (outcome s).winner = .none) ∧
    (outcome s).whiteFlats = flatCount s .white ∧ (outcome s).blackFlats = flatCount s .black := by
  have hfull : (s.squares.all (fun sq => !sq.isEmpty)) = true ↔ ∀ sq ∈ s.squares, sq ≠ [] := by
    simp only [List.all_eq_true, Bool.not_eq_true', List.isEmpty_eq_false_iff]
  have hwo : s.whiteStones + s.whiteCaps = 0 ↔ (s.whiteStones + s.whiteCaps == 0) = true := beq_iff_eq.symm
  have hbo : s.blackStones + s.blackCaps = 0 ↔ (s.blackStones + s.blackCaps == 0) = true := beq_iff_eq.symm
  rw [← spec_hasRoad_iff s .white, ← spec_hasRoad_iff s .black, ← hfull, hwo, hbo]
  unfold outcome flatsWinnerOf
  generalize hasRoad s .white = wr
  generalize hasRoad s .black = br
  generalize (s.squares.all fun sq => !sq.isEmpty) = full
  generalize (s.whiteStones + s.whiteCaps == 0) = wo
  generalize (s.blackStones + s.blackCaps == 0) = bo
  cases wr <;> cases br <;> cases full <;> cases wo <;> cases bo <;> simp


/-! ### `analyze` never runs out of fuel, and establishes its part of the invariant -/

theorem analyze_isSome (p : Pos) (hn : SizeOK p.cfg.size) (hc : p.c = Gen.precompute p.cfg.size)
    (hw : Sub p.white p.c.Mask) (hb : Sub p.black p.c.Mask) : p.analyze.isSome = true := by
  rw [hc] at hw hb
  obtain ⟨wg, hwg, _⟩ := groups_spec _ hn (p.white &&& ~~~p.standing) (Sub.and_left _ hw)
  obtain ⟨bg, hbg, _⟩ := groups_spec _ hn (p.black &&& ~~~p.standing) (Sub.and_left _ hb)
  unfold Pos.analyze
  simp only [hc, hwg, hbg]
  rfl

theorem analyze_idem (p q : Pos) (h : p.analyze = some q) : q.analyze = some q := by
  unfold Pos.analyze at h
  simp only at h
  split at h
  · rename_i wg bg hw hb
    injection h with h
    subst h
    unfold Pos.analyze
    simp only [hw, hb]
  · cases h

/-- the start position satisfies the invariant -/
theorem new_wf (cfg : Cfg) (p : Pos) (h : Pos.new cfg = .ok p) : WFBoard p := by
  unfold Pos.new at h
  split at h
  · cases h
  · simp only at h
    split at h
    · cases h
    · rename_i h1 h2
      injection h with h
      subst h
      have hn : SizeOK cfg.size := by unfold SizeOK; omega
      refine ⟨⟨hn, rfl, ?_, ?_, ?_, ?_⟩, ?_, ?_⟩
      · intro i hi; simp at hi
      · intro i hi; simp at hi
      · simp
      · have h0 : ∀ c : Consts, floodGroups c 0#64 = some [] := by
          intro c; unfold floodGroups floodGroupsFuel; simp
        unfold Pos.analyze
        simp [h0]
      · intro i hi; simp at hi
      · simp

/-! ### `ptn.ResultFromGame` -/
theorem result_refines (p : Pos) (wf : RoadWF p) :
    p.resultFromGame = match Spec.result (Spec.abs p) with
      | some r => .ok r
      | none => .error (.panic "ResultFromGame: game is not over") := by
  have h := winDetails_refines p wf
  unfold Pos.resultFromGame Spec.result
  rw [← h]
  simp only [toOutcome]
  generalize p.winDetails = d
  rcases d with ⟨over, reason, winner, wfl, bfl⟩
  cases over <;> cases reason <;> cases winner <;> simp <;> rfl

/-! ### size of a group -/

/-- `Big g` (two distinct squares) is "popcount at least 2" -/
theorem big_iff_cnt (g : W) : Big g ↔ 2 ≤ cnt g := by
  constructor
  · rintro ⟨i, j, hij, hi, hj⟩
    have hg : g ≠ 0#64 := fun e => by rw [e] at hi; simp at hi
    obtain ⟨k, _, hk, _, hnext, _⟩ := exists_lowest g hg
    have h1 := cnt_and_pred g hg
    have hg' : g &&& (g - 1#64) ≠ 0#64 := by
      intro e
      have e1 := congrArg (fun v => BitVec.getLsbD v i) e
      have e2 := congrArg (fun v => BitVec.getLsbD v j) e
      simp only [hnext, hi, hj, Bool.true_and, BitVec.getLsbD_zero, decide_eq_false_iff_not,
        Decidable.not_not] at e1 e2
      omega
    have h2 := cnt_and_pred _ hg'
    omega
  · intro h
    have hg : g ≠ 0#64 := fun e => by rw [e, cnt_zero] at h; omega
    obtain ⟨k, _, hk, _, hnext, _⟩ := exists_lowest g hg
    have h1 := cnt_and_pred g hg
    have hg' : g &&& (g - 1#64) ≠ 0#64 := fun e => by rw [e, cnt_zero] at h1; omega
    obtain ⟨j, hj⟩ := exists_bit_of_ne_zero _ hg'
    rw [hnext] at hj
    simp only [Bool.and_eq_true, decide_eq_true_eq] at hj
    exact ⟨j, k, hj.2, hj.1, hk⟩

end Roads
