import TakVerif.Proofs.LegalShape

/-! # Every legal shape is legal somewhere (the converse of `step_legalShape'`)

For a move value of legal shape on a `size` board there is a position in which the rule book accepts it:
a placement on the empty board at ply 2 (one stone and one capstone in reserve), a slide from a stack of
exactly as many of the mover's flats as it carries on an otherwise empty board.  So `Notation.LegalShape size`
is not larger than "normal forms of moves that are legal in some position". -/
namespace Tak.Proofs
open Tak Spec Notation

set_option linter.unusedSimpArgs false

/-- every piece on the board is a flat -/
def AllFlat (s : State) : Prop := ∀ sq ∈ s.squares, ∀ pc ∈ sq, pc.kind = Kind.flat

theorem at_allFlat {s : State} (h : AllFlat s) (x y : Int) : ∀ pc ∈ s.at x y, pc.kind = Kind.flat := by
  intro pc hpc
  unfold State.at at hpc
  by_cases hi : s.idx x y < s.squares.length
  · have : s.squares.getD (s.idx x y) [] = s.squares[s.idx x y] := by simp [List.getD, hi]
    rw [this] at hpc
    exact h _ (List.getElem_mem hi) pc hpc
  · have hn : s.squares[s.idx x y]? = none := List.getElem?_eq_none (Nat.le_of_not_lt hi)
    have : s.squares.getD (s.idx x y) [] = [] := by simp [List.getD, hn]
    rw [this] at hpc
    cases hpc

theorem setAt_allFlat {s : State} (h : AllFlat s) (x y : Int) (sq : Square) (hsq : ∀ pc ∈ sq, pc.kind = Kind.flat) :
    AllFlat (s.setAt x y sq) := by
  intro q hq
  have hq' : q ∈ s.squares.set (s.idx x y) sq := hq
  rcases List.mem_or_eq_of_mem_set hq' with h1 | h1
  · exact h q h1
  · rw [h1]; exact hsq

/-- one round of the drop loop on a board of flats -/
theorem dropLoop_cons_flat (s : State) (x y : Int) (d : Dir) (carried : List Piece) (c : Nat) (cs : List Nat)
    (hob : s.onBoard (x + d.dx) (y + d.dy) = true) (hc1 : 1 ≤ c) (hc2 : c ≤ carried.length)
    (hflat : ∀ pc ∈ s.at (x + d.dx) (y + d.dy), pc.kind = Kind.flat) :
    dropLoop s x y d carried (c :: cs) =
      dropLoop (s.setAt (x + d.dx) (y + d.dy) (carried.drop (carried.length - c) ++ s.at (x + d.dx) (y + d.dy)))
        (x + d.dx) (y + d.dy) d (carried.take (carried.length - c)) cs := by
  have hcc : ¬ (c < 1 ∨ c > carried.length) := by omega
  conv => lhs; unfold dropLoop
  simp only [hob, Bool.not_true, Bool.false_eq_true, if_false, hcc]
  cases htar : s.at (x + d.dx) (y + d.dy) with
  | nil => rfl
  | cons t rest =>
    have ht : t.kind = Kind.flat := hflat t (by rw [htar]; simp)
    simp only [ht]

theorem dropLoop_allFlat (d : Dir) : ∀ (drops : List Nat) (s : State) (x y : Int) (carried : List Piece),
    AllFlat s → (∀ pc ∈ carried, pc.kind = Kind.flat) → carried.length = drops.foldl (· + ·) 0 →
    (∀ c ∈ drops, 1 ≤ c) →
    (∀ k : Nat, 1 ≤ k → k ≤ drops.length → s.onBoard (x + k * d.dx) (y + k * d.dy) = true) →
    (dropLoop s x y d carried drops).isSome = true
  | [], s, x, y, carried, _, _, hlen, _, _ => by
    have : carried = [] := List.eq_nil_of_length_eq_zero (by simpa using hlen)
    subst this
    simp [dropLoop]
  | c :: cs, s, x, y, carried, hs, hcar, hlen, hpos, hpath => by
    have hsum : carried.length = c + cs.foldl (· + ·) 0 := by
      rw [hlen]; simp only [List.foldl_cons]; rw [PTN.foldl_add]; omega
    have hob := hpath 1 (by omega) (by simp)
    simp only [Int.natCast_one, Int.one_mul] at hob
    have hob' : s.onBoard (x + d.dx) (y + d.dy) = true := by simpa using hob
    have hc1 := hpos c (by simp)
    rw [dropLoop_cons_flat s x y d carried c cs hob' hc1 (by omega) (at_allFlat hs _ _)]
    apply dropLoop_allFlat d cs
    · apply setAt_allFlat hs
      intro pc hpc
      simp only [List.mem_append] at hpc
      rcases hpc with hpc | hpc
      · exact hcar pc (List.mem_of_mem_drop hpc)
      · exact at_allFlat hs _ _ pc hpc
    · intro pc hpc; exact hcar pc (List.mem_of_mem_take hpc)
    · rw [List.length_take]; omega
    · intro c' hc'; exact hpos c' (by simp [hc'])
    · intro k hk1 hk2
      have := hpath (k + 1) (by omega) (by simp; omega)
      have e1 : x + ((k + 1 : Nat) : Int) * d.dx = x + d.dx + k * d.dx := by
        rw [Int.natCast_add, Int.add_mul]; omega
      have e2 : y + ((k + 1 : Nat) : Int) * d.dy = y + d.dy + k * d.dy := by
        rw [Int.natCast_add, Int.add_mul]; omega
      rw [e1, e2] at this
      exact this

/-- the empty board at ply 2 (White to move) with one stone and one capstone in each reserve -/
def emptyAt2 (size : Nat) : State :=
  { size := size, blackWinsTies := false, squares := List.replicate (size * size) [], ply := 2,
    whiteStones := 1, whiteCaps := 1, blackStones := 1, blackCaps := 1 }

theorem replicate_getD_nil (n i : Nat) : (List.replicate n ([] : Square)).getD i [] = [] := by
  simp only [List.getD, List.getElem?_replicate]
  split <;> rfl

theorem emptyAt2_at (size : Nat) (x y : Int) : (emptyAt2 size).at x y = [] := by
  unfold State.at emptyAt2
  exact replicate_getD_nil _ _

theorem emptyAt2_allFlat (size : Nat) : AllFlat (emptyAt2 size) := by
  intro sq hsq
  have : sq = [] := (List.mem_replicate.1 hsq).2
  intro pc hpc; rw [this] at hpc; cases hpc

theorem place_legal_somewhere (size : Nat) (x y : Int) (k : Kind)
    (hx0 : 0 ≤ x) (hx1 : x < size) (hy0 : 0 ≤ y) (hy1 : y < size) :
    (step (emptyAt2 size) (.place x y k)).isSome = true := by
  have hob : (emptyAt2 size).onBoard x y = true := by
    simp [State.onBoard, emptyAt2, hx0, hx1, hy0, hy1]
  have hply : ¬ ((emptyAt2 size).ply < 2 ∧ k ≠ Kind.flat) := by simp [emptyAt2]
  have hply2 : ¬ (emptyAt2 size).ply < 2 := by simp [emptyAt2]
  unfold step
  simp only [hob, Bool.not_true, Bool.false_eq_true, if_false, hply, hply2, emptyAt2_at, List.isEmpty_nil]
  have htm : (emptyAt2 size).toMove = Color.white := by simp [State.toMove, emptyAt2]
  rw [htm]
  cases k <;> simp [State.reserve, emptyAt2] <;> decide

theorem idx_int_lt (size : Nat) (x y : Int) (hx0 : 0 ≤ x) (hx1 : x < size) (hy0 : 0 ≤ y) (hy1 : y < size) :
    (x + y * (size : Int)).toNat < size * size := by
  have h := idx_lt size x.toNat y.toNat (by omega) (by omega)
  have e : (x + y * (size : Int)).toNat = y.toNat * size + x.toNat := by
    have hx : (x.toNat : Int) = x := by omega
    have hy : (y.toNat : Int) = y := by omega
    have : x + y * (size : Int) = ((y.toNat * size + x.toNat : Nat) : Int) := by
      rw [Int.natCast_add, Int.natCast_mul, hx, hy]; omega
    rw [this]; exact Int.toNat_natCast _
  rw [e]; exact h

theorem slide_legal_somewhere (size : Nat) (x y : Int) (d : Dir) (drops : List Nat) (total : Nat)
    (htot : drops.foldl (· + ·) 0 = total)
    (hx0 : 0 ≤ x) (hx1 : x < size) (hy0 : 0 ≤ y) (hy1 : y < size)
    (hne : drops ≠ []) (hpos : ∀ c ∈ drops, 1 ≤ c) (hsum : total ≤ size)
    (hpath : ∀ k : Nat, 1 ≤ k → k ≤ drops.length →
      0 ≤ x + k * d.dx ∧ x + k * d.dx < size ∧ 0 ≤ y + k * d.dy ∧ y + k * d.dy < size) :
    (step ((emptyAt2 size).setAt x y (List.replicate total ⟨Color.white, Kind.flat⟩))
      (.slide x y d drops)).isSome = true := by
  generalize hs : (emptyAt2 size).setAt x y (List.replicate total ⟨Color.white, Kind.flat⟩) = s
  have hsz : s.size = size := by rw [← hs]; rfl
  have hob : s.onBoard x y = true := by simp [State.onBoard, hsz, hx0, hx1, hy0, hy1]
  have hply : ¬ s.ply < 2 := by rw [← hs]; show ¬ ((2 : Int) < 2); omega
  have htot1 : 1 ≤ total := by
    rw [← htot]
    cases drops with
    | nil => exact absurd rfl hne
    | cons c cs =>
      have := hpos c (by simp)
      simp only [List.foldl_cons]; rw [PTN.foldl_add]; omega
  have hat : s.at x y = List.replicate total ⟨Color.white, Kind.flat⟩ := by
    rw [← hs]
    show ((emptyAt2 size).squares.set ((emptyAt2 size).idx x y) _).getD ((emptyAt2 size).idx x y) [] = _
    have hi : (emptyAt2 size).idx x y < (emptyAt2 size).squares.length := by
      simp only [State.idx, emptyAt2, List.length_replicate]
      exact idx_int_lt size x y hx0 hx1 hy0 hy1
    simp [List.getD, hi]
  have hd0 : ¬ (drops.isEmpty = true ∨ (drops.any (· == 0)) = true) := by
    rintro (h | h)
    · exact hne (List.isEmpty_iff.1 h)
    · simp only [List.any_eq_true, beq_iff_eq] at h
      obtain ⟨c, hc, rfl⟩ := h
      have := hpos 0 hc; omega
  have htotle : ¬ (total > s.size ∨ total > (List.replicate total (⟨Color.white, Kind.flat⟩ : Piece)).length) := by
    rw [List.length_replicate, hsz]; omega
  have htm : s.toMove = Color.white := by rw [← hs]; simp [State.toMove, State.setAt, emptyAt2]
  have hflatS : AllFlat s := by
    rw [← hs]
    apply setAt_allFlat (emptyAt2_allFlat size)
    intro pc hpc; rw [(List.mem_replicate.1 hpc).2]
  have hloop : (dropLoop (s.setAt x y ((List.replicate total (⟨Color.white, Kind.flat⟩ : Piece)).drop total)) x y d
      ((List.replicate total (⟨Color.white, Kind.flat⟩ : Piece)).take total) drops).isSome = true := by
    apply dropLoop_allFlat d drops
    · apply setAt_allFlat hflatS
      intro pc hpc
      rw [(List.mem_replicate.1 (List.mem_of_mem_drop hpc)).2]
    · intro pc hpc
      rw [(List.mem_replicate.1 (List.mem_of_mem_take hpc)).2]
    · simp only [List.length_take, List.length_replicate, Nat.min_self]; exact htot.symm
    · exact hpos
    · intro k hk1 hk2
      obtain ⟨a, b, c, e⟩ := hpath k hk1 hk2
      have : (s.setAt x y ((List.replicate total (⟨Color.white, Kind.flat⟩ : Piece)).drop total)).size = size := hsz
      simp only [State.onBoard, this, Bool.and_eq_true, decide_eq_true_eq]
      exact ⟨⟨⟨a, b⟩, c⟩, e⟩
  unfold step
  simp only [htot, hply, if_false, hob, Bool.not_true, Bool.false_eq_true, hd0, hat, htotle]
  obtain ⟨t, ht⟩ : ∃ t, total = t + 1 := ⟨total - 1, by omega⟩
  have hrep : List.replicate total (⟨Color.white, Kind.flat⟩ : Piece) = ⟨Color.white, Kind.flat⟩ :: List.replicate t ⟨Color.white, Kind.flat⟩ := by
    rw [ht]; rfl
  generalize hL : List.replicate total (⟨Color.white, Kind.flat⟩ : Piece) = L at hloop hrep ⊢
  cases L with
  | nil => cases hrep
  | cons t0 rest =>
    injection hrep with ht0 _
    simp only [ht0, htm, ne_eq, not_true_eq_false, if_false]
    rw [ht0] at hloop
    cases hdl : dropLoop (s.setAt x y (List.drop total (⟨Color.white, Kind.flat⟩ :: rest))) x y d
        (List.take total (⟨Color.white, Kind.flat⟩ :: rest)) drops with
    | none => rw [hdl] at hloop; cases hloop
    | some s2 => rfl

/-- **every legal shape is legal somewhere**: for a move value of legal shape on a `size` board there is a
position of that size (ply 2, square list of the right length) in which the rule book accepts it -/
theorem legalShape_legal_somewhere' (size : Nat) (m : Move) (h : LegalShape size m) :
    ∃ s : State, s.size = size ∧ s.squares.length = size * size ∧ (step s (decode m)).isSome = true := by
  have tc := types_cases
  obtain ⟨hx0, _, hy0, _, h3, h8⟩ := PTN.legalShape_bounds h
  have hb : m.x < size ∧ m.y < size := by
    unfold LegalShape legalShape at h
    simp only [Bool.and_eq_true, decide_eq_true_eq] at h
    exact ⟨h.1.1.1.2, h.1.2⟩
  rcases PTN.legalShape_kind h with ⟨hp, _⟩ | ⟨_, hs, hne, hds, hsum, hedge⟩
  · refine ⟨emptyAt2 size, rfl, by simp [emptyAt2], ?_⟩
    rcases PTN.placeType_cases _ hp with e | e | e
    · have : decode m = .place m.x m.y .flat := by simp [decode, e]
      rw [this]; exact place_legal_somewhere size m.x m.y _ hx0 hb.1 hy0 hb.2
    · have : decode m = .place m.x m.y .standing := by simp [decode, e, tc]
      rw [this]; exact place_legal_somewhere size m.x m.y _ hx0 hb.1 hy0 hb.2
    · have : decode m = .place m.x m.y .capstone := by simp [decode, e, tc]
      rw [this]; exact place_legal_somewhere size m.x m.y _ hx0 hb.1 hy0 hb.2
  · have key : ∀ d : Dir, m.type = dirCode d →
        (step ((emptyAt2 size).setAt m.x m.y (List.replicate ((Slides.elems m.slides).foldl (· + ·) 0) ⟨Color.white, Kind.flat⟩))
          (.slide m.x m.y d (Slides.elems m.slides))).isSome = true := by
      intro d hd
      apply slide_legal_somewhere size m.x m.y d _ _ rfl hx0 hb.1 hy0 hb.2 hne (fun c hc => (hds c hc).1) hsum
      intro k hk1 hk2
      rw [edgeDist_dirCode size m d hd] at hedge
      have hk : (k : Int) ≤ ((Slides.elems m.slides).length : Int) := by exact_mod_cast hk2
      have hk0 : (1 : Int) ≤ (k : Int) := by exact_mod_cast hk1
      cases d <;> simp only [Dir.dx, Dir.dy] at hedge ⊢ <;> omega
    refine ⟨(emptyAt2 size).setAt m.x m.y (List.replicate ((Slides.elems m.slides).foldl (· + ·) 0) ⟨Color.white, Kind.flat⟩),
      rfl, by simp [State.setAt, emptyAt2], ?_⟩
    rcases PTN.slideType_cases _ hs with e | e | e | e
    · have : decode m = .slide m.x m.y .left (Slides.elems m.slides) := by simp [decode, e, tc]
      rw [this]; exact key .left e
    · have : decode m = .slide m.x m.y .right (Slides.elems m.slides) := by simp [decode, e, tc]
      rw [this]; exact key .right e
    · have : decode m = .slide m.x m.y .up (Slides.elems m.slides) := by simp [decode, e, tc]
      rw [this]; exact key .up e
    · have : decode m = .slide m.x m.y .down (Slides.elems m.slides) := by simp [decode, e, tc]
      rw [this]; exact key .down e

end Tak.Proofs
