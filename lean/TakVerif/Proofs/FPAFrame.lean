import TakVerif.Proofs.FPAFast

/-! The frame property of the cairn variant, board level.

From ply 2 on the cairn rule looks at, and the moves it scripts or accepts touch, only the centre squares
and their neighbours (`nearS`: the squares `isCenterAdjacent` or `isCentered` accept).  Two sparse boards
that agree on these squares and carry at most one piece on every other square (`BR`) therefore answer
every such move alike: both reject it, or both accept it and the results are related again
(`place_rel`, `slide_rel`). -/
set_option linter.unusedSimpArgs false
set_option linter.unusedVariables false
namespace Proofs.FPAFrame
open Tak Tak.FPA Spec Spec.FPA Proofs.FPA Proofs.FPAMini Proofs.FPAFast

/-- a view of a board of this size on which nothing else matters -/
def coreView (n : Nat) : View := ⟨n, 0, fun _ _ => true⟩

/-- the centre squares and their neighbours on a board of size `n` -/
def nearS (n : Nat) (x y : Int) : Bool := isCenterAdjacent (coreView n) x y || isCentered (coreView n) x y

def onB (n : Nat) (x y : Int) : Bool := 0 ≤ x && x < n && 0 ≤ y && y < n

theorem onBoard_eq (b : MB) (x y : Int) : b.onBoard x y = onB b.size x y := rfl

/-! ### indices -/

theorem idx_lt {a c n : Nat} (ha : a < n) (hc : c < n) : a + c * n < n * n := by
  have h1 : (c + 1) * n ≤ n * n := Nat.mul_le_mul_right n (by omega)
  have h2 : (c + 1) * n = c * n + n := Nat.succ_mul c n
  omega

theorem idx_inj {a c a' c' n : Nat} (ha : a < n) (ha' : a' < n) (h : a + c * n = a' + c' * n) : a = a' ∧ c = c' := by
  have h1 : (a + c * n) % n = a := by rw [Nat.add_mul_mod_self_right]; exact Nat.mod_eq_of_lt ha
  have h2 : (a' + c' * n) % n = a' := by rw [Nat.add_mul_mod_self_right]; exact Nat.mod_eq_of_lt ha'
  have hpos : 0 < n := by omega
  have h3 : (a + c * n) / n = c := by rw [Nat.add_mul_div_right _ _ hpos, Nat.div_eq_of_lt ha]; omega
  have h4 : (a' + c' * n) / n = c' := by rw [Nat.add_mul_div_right _ _ hpos, Nat.div_eq_of_lt ha']; omega
  rw [h] at h1 h3
  exact ⟨by omega, by omega⟩

theorem onB_nat {n : Nat} {x y : Int} (h : onB n x y = true) :
    ∃ a c : Nat, x = a ∧ y = c ∧ a < n ∧ c < n := by
  unfold onB at h
  simp only [Bool.and_eq_true, decide_eq_true_eq] at h
  exact ⟨x.toNat, y.toNat, by omega, by omega, by omega, by omega⟩

theorem onB_of_nat {n a c : Nat} (ha : a < n) (hc : c < n) : onB n (a : Int) (c : Int) = true := by
  unfold onB
  simp only [Bool.and_eq_true, decide_eq_true_eq]
  omega

theorem idx_nat (b : MB) (a c : Nat) : b.idx (a : Int) (c : Int) = a + c * b.size := by
  unfold MB.idx
  have : ((a : Int) + (c : Int) * (b.size : Int)) = ((a + c * b.size : Nat) : Int) := by
    simp [Int.natCast_add, Int.natCast_mul]
  rw [this, Int.toNat_natCast]

theorem at_nat (b : MB) (a c : Nat) : b.at (a : Int) (c : Int) = b.get (a + c * b.size) := by
  unfold MB.at; rw [idx_nat]

theorem setAt_nat (b : MB) (a c : Nat) (v : Square) : b.setAt (a : Int) (c : Int) v = b.set (a + c * b.size) v := by
  unfold MB.setAt; rw [idx_nat]

theorem get_set (b : MB) (i j : Nat) (v : Square) :
    (b.set i v).get j = if i = j ∧ j < b.size * b.size then v else b.get j := by
  unfold MB.get MB.set
  simp only [lookup]
  by_cases h : j < b.size * b.size <;> by_cases hij : i = j <;> simp [h, hij]

/-! ### the relation -/

/-- the boards agree on the centre squares and their neighbours and are low everywhere else -/
structure BR (b b' : MB) : Prop where
  size : b.size = b'.size
  ply : b.ply = b'.ply
  ws : b.ws = b'.ws
  wc : b.wc = b'.wc
  bs : b.bs = b'.bs
  bc : b.bc = b'.bc
  near : ∀ a c : Nat, a < b.size → c < b.size → nearS b.size a c = true →
    b.get (a + c * b.size) = b'.get (a + c * b.size)
  far : ∀ a c : Nat, a < b.size → c < b.size → nearS b.size a c = false →
    (b.get (a + c * b.size)).length ≤ 1 ∧ (b'.get (a + c * b.size)).length ≤ 1

/-- both reject, or both accept with related results -/
def OptRel (o o' : Option MB) : Prop :=
  (o = none ∧ o' = none) ∨ ∃ q q', o = some q ∧ o' = some q' ∧ BR q q'

theorem BR.set_near {b b' : MB} (h : BR b b') (a c : Nat) (ha : a < b.size) (hc : c < b.size)
    (hn : nearS b.size a c = true) (v : Square) :
    BR (b.set (a + c * b.size) v) (b'.set (a + c * b'.size) v) := by
  have hs := h.size
  refine ⟨h.size, h.ply, h.ws, h.wc, h.bs, h.bc, ?_, ?_⟩
  · intro a2 c2 ha2 hc2 hn2
    have ha2' : a2 < b.size := ha2
    have hc2' : c2 < b.size := hc2
    show (b.set (a + c * b.size) v).get (a2 + c2 * b.size) = (b'.set (a + c * b'.size) v).get (a2 + c2 * b.size)
    have hn2' : nearS b.size a2 c2 = true := hn2
    rw [get_set, get_set, ← hs, h.near a2 c2 ha2' hc2' hn2']
  · intro a2 c2 ha2 hc2 hn2
    have ha2' : a2 < b.size := ha2
    have hc2' : c2 < b.size := hc2
    show ((b.set (a + c * b.size) v).get (a2 + c2 * b.size)).length ≤ 1 ∧
      ((b'.set (a + c * b'.size) v).get (a2 + c2 * b.size)).length ≤ 1
    have hn2' : nearS b.size a2 c2 = false := hn2
    have hne : ¬ (a + c * b.size = a2 + c2 * b.size) := by
      intro he
      obtain ⟨rfl, rfl⟩ := idx_inj ha ha2' he
      rw [hn] at hn2'
      exact absurd hn2' (by decide)
    rw [get_set, get_set, ← hs]
    simp only [hne, false_and, if_false]
    exact h.far a2 c2 ha2' hc2' hn2'

theorem BR.setAt_near {b b' : MB} (h : BR b b') (x y : Int) (hb : onB b.size x y = true)
    (hn : nearS b.size x y = true) (v : Square) : BR (b.setAt x y v) (b'.setAt x y v) := by
  obtain ⟨a, c, rfl, rfl, ha, hc⟩ := onB_nat hb
  rw [setAt_nat, setAt_nat]
  exact h.set_near a c ha hc hn v

theorem BR.at_near {b b' : MB} (h : BR b b') (x y : Int) (hb : onB b.size x y = true)
    (hn : nearS b.size x y = true) : b.at x y = b'.at x y := by
  obtain ⟨a, c, rfl, rfl, ha, hc⟩ := onB_nat hb
  rw [at_nat, at_nat, ← h.size]
  exact h.near a c ha hc hn

theorem BR.at_far {b b' : MB} (h : BR b b') (x y : Int) (hb : onB b.size x y = true)
    (hn : nearS b.size x y = false) : (b.at x y).length ≤ 1 ∧ (b'.at x y).length ≤ 1 := by
  obtain ⟨a, c, rfl, rfl, ha, hc⟩ := onB_nat hb
  rw [at_nat, at_nat, ← h.size]
  exact h.far a c ha hc hn

theorem BR.toMove {b b' : MB} (h : BR b b') : b.toMove = b'.toMove := by
  unfold MB.toMove; rw [h.ply]

theorem BR.reserve {b b' : MB} (h : BR b b') (col : Color) (cap : Bool) : b.reserve col cap = b'.reserve col cap := by
  cases col <;> cases cap <;> simp [MB.reserve, h.ws, h.wc, h.bs, h.bc]

theorem BR.decReserve {b b' : MB} (h : BR b b') (col : Color) (cap : Bool) :
    BR (b.decReserve col cap) (b'.decReserve col cap) := by
  cases col <;> cases cap <;>
    exact ⟨h.size, h.ply, by simp [MB.decReserve, h.ws], by simp [MB.decReserve, h.wc],
      by simp [MB.decReserve, h.bs], by simp [MB.decReserve, h.bc], h.near, h.far⟩

theorem BR.incPly {b b' : MB} (h : BR b b') : BR { b with ply := b.ply + 1 } { b' with ply := b'.ply + 1 } :=
  ⟨h.size, by show b.ply + 1 = b'.ply + 1; rw [h.ply], h.ws, h.wc, h.bs, h.bc, h.near, h.far⟩

/-! ### placements -/

theorem decReserve_size (b : MB) (col : Color) (cap : Bool) : (b.decReserve col cap).size = b.size := by
  cases col <;> cases cap <;> rfl

theorem mstep_place (s : MB) (x y : Int) (k : Kind) : mstep s (.place x y k) =
    if (!s.onBoard x y) = true then none else
    if s.ply < 2 ∧ k ≠ .flat then none else
    if (!(s.at x y).isEmpty) = true then none else
    if (s.reserve (if s.ply < 2 then s.toMove.flip else s.toMove) (k == .capstone) == 0) = true then none else
    some { ((s.decReserve (if s.ply < 2 then s.toMove.flip else s.toMove) (k == .capstone)).setAt x y
              [⟨if s.ply < 2 then s.toMove.flip else s.toMove, k⟩]) with
           ply := ((s.decReserve (if s.ply < 2 then s.toMove.flip else s.toMove) (k == .capstone)).setAt x y
              [⟨if s.ply < 2 then s.toMove.flip else s.toMove, k⟩]).ply + 1 } := rfl

theorem place_rel {b b' : MB} (h : BR b b') (x y : Int) (k : Kind) (hn : nearS b.size x y = true) :
    OptRel (mstep b (.place x y k)) (mstep b' (.place x y k)) := by
  rw [mstep_place, mstep_place, ← h.ply, ← h.toMove, ← h.reserve]
  have hbb : b'.onBoard x y = b.onBoard x y := by rw [onBoard_eq, onBoard_eq, h.size]
  rw [hbb]
  by_cases c1 : (!b.onBoard x y) = true
  · left; rw [if_pos c1, if_pos c1]; exact ⟨rfl, rfl⟩
  rw [if_neg c1, if_neg c1]
  have hb : onB b.size x y = true := by
    rw [← onBoard_eq]; cases hq : b.onBoard x y with
    | true => rfl
    | false => rw [hq] at c1; exact absurd rfl c1
  have hat : b'.at x y = b.at x y := (h.at_near x y hb hn).symm
  rw [hat]
  by_cases c2 : b.ply < 2 ∧ k ≠ Kind.flat
  · left; rw [if_pos c2, if_pos c2]; exact ⟨rfl, rfl⟩
  rw [if_neg c2, if_neg c2]
  by_cases c3 : (!(b.at x y).isEmpty) = true
  · left; rw [if_pos c3, if_pos c3]; exact ⟨rfl, rfl⟩
  rw [if_neg c3, if_neg c3]
  by_cases c4 : (b.reserve (if b.ply < 2 then b.toMove.flip else b.toMove) (k == Kind.capstone) == 0) = true
  · left; rw [if_pos c4, if_pos c4]; exact ⟨rfl, rfl⟩
  rw [if_neg c4, if_neg c4]
  right
  refine ⟨_, _, rfl, rfl, ?_⟩
  exact ((h.decReserve _ _).setAt_near x y (by rw [decReserve_size]; exact hb) (by rw [decReserve_size]; exact hn) _).incPly

/-! ### slides -/

/-- the `n` squares after `(x, y)` in direction `d`, as far as they are on the board, are near -/
def pathNear (size : Nat) (d : Dir) : Int → Int → Nat → Prop
  | _, _, 0 => True
  | x, y, n+1 =>
    (onB size (x + d.dx) (y + d.dy) = true → nearS size (x + d.dx) (y + d.dy) = true) ∧
    pathNear size d (x + d.dx) (y + d.dy) n

/-- what becomes of the square a carried stack enters (`none`: blocked) -/
def enterSq (target : Square) (carried : List Piece) : Option Square :=
  match target with
  | [] => some []
  | t :: rest =>
    match t.kind with
    | .capstone => none
    | .standing =>
      (match carried with
       | [cp] => if cp.kind == .capstone then some (⟨t.color, .flat⟩ :: rest) else none
       | _ => none)
    | .flat => some target

theorem mdropLoop_cons (s : MB) (x y : Int) (d : Dir) (carried : List Piece) (c : Nat) (cs : List Nat) :
    mdropLoop s x y d carried (c :: cs) =
      if (!s.onBoard (x + d.dx) (y + d.dy)) = true then none else
      if c < 1 ∨ c > carried.length then none else
      match enterSq (s.at (x + d.dx) (y + d.dy)) carried with
      | none => none
      | some target =>
        mdropLoop (s.setAt (x + d.dx) (y + d.dy) (carried.drop (carried.length - c) ++ target)) (x + d.dx) (y + d.dy) d
          (carried.take (carried.length - c)) cs := by
  simp only [mdropLoop, enterSq]
  rfl

theorem dropLoop_rel (d : Dir) (drops : List Nat) : ∀ (b b' : MB) (x y : Int) (carried : List Piece),
    BR b b' → pathNear b.size d x y drops.length →
    OptRel (mdropLoop b x y d carried drops) (mdropLoop b' x y d carried drops) := by
  induction drops with
  | nil =>
    intro b b' x y carried h _
    simp only [mdropLoop]
    by_cases hc : carried.isEmpty = true
    · right; simp only [hc, if_true]; exact ⟨_, _, rfl, rfl, h⟩
    · left; simp [hc]
  | cons c cs ih =>
    intro b b' x y carried h hp
    obtain ⟨hp1, hp2⟩ := hp
    rw [mdropLoop_cons, mdropLoop_cons]
    have hbb : b'.onBoard (x + d.dx) (y + d.dy) = b.onBoard (x + d.dx) (y + d.dy) := by
      rw [onBoard_eq, onBoard_eq, h.size]
    rw [hbb]
    by_cases c1 : (!b.onBoard (x + d.dx) (y + d.dy)) = true
    · left; rw [if_pos c1, if_pos c1]; exact ⟨rfl, rfl⟩
    rw [if_neg c1, if_neg c1]
    have hb : onB b.size (x + d.dx) (y + d.dy) = true := by
      rw [← onBoard_eq]; cases hq : b.onBoard (x + d.dx) (y + d.dy) with
      | true => rfl
      | false => rw [hq] at c1; exact absurd rfl c1
    have hn := hp1 hb
    have hat : b'.at (x + d.dx) (y + d.dy) = b.at (x + d.dx) (y + d.dy) := (h.at_near _ _ hb hn).symm
    rw [hat]
    by_cases c2 : c < 1 ∨ c > carried.length
    · left; rw [if_pos c2, if_pos c2]; exact ⟨rfl, rfl⟩
    rw [if_neg c2, if_neg c2]
    cases enterSq (b.at (x + d.dx) (y + d.dy)) carried with
    | none => left; exact ⟨rfl, rfl⟩
    | some tgt => exact ih _ _ _ _ _ (h.setAt_near _ _ hb hn _) hp2

theorem mstep_slide (s : MB) (x y : Int) (d : Dir) (drops : List Nat) : mstep s (.slide x y d drops) =
    if s.ply < 2 then none else
    if (!s.onBoard x y) = true then none else
    if drops.isEmpty = true ∨ (drops.any (· == 0)) = true then none else
    if drops.foldl (· + ·) 0 > s.size ∨ drops.foldl (· + ·) 0 > (s.at x y).length then none else
    match s.at x y with
    | [] => none
    | t :: rest =>
      if t.color ≠ s.toMove then none else
      match mdropLoop (s.setAt x y ((s.at x y).drop (drops.foldl (· + ·) 0))) x y d
          ((s.at x y).take (drops.foldl (· + ·) 0)) drops with
      | none => none
      | some s => some { s with ply := s.ply + 1 } := by
  simp only [mstep]
  split <;> rfl

theorem slide_rel {b b' : MB} (h : BR b b') (x y : Int) (d : Dir) (drops : List Nat)
    (hsrc : onB b.size x y = true → nearS b.size x y = true)
    (hp : onB b.size x y = true → pathNear b.size d x y drops.length) :
    OptRel (mstep b (.slide x y d drops)) (mstep b' (.slide x y d drops)) := by
  rw [mstep_slide, mstep_slide, ← h.ply, ← h.toMove, ← h.size]
  have hbb : b'.onBoard x y = b.onBoard x y := by rw [onBoard_eq, onBoard_eq, h.size]
  rw [hbb]
  by_cases c1 : b.ply < 2
  · left; rw [if_pos c1, if_pos c1]; exact ⟨rfl, rfl⟩
  rw [if_neg c1, if_neg c1]
  by_cases c2 : (!b.onBoard x y) = true
  · left; rw [if_pos c2, if_pos c2]; exact ⟨rfl, rfl⟩
  rw [if_neg c2, if_neg c2]
  have hb : onB b.size x y = true := by
    rw [← onBoard_eq]; cases hq : b.onBoard x y with
    | true => rfl
    | false => rw [hq] at c2; exact absurd rfl c2
  have hn := hsrc hb
  have hat : b'.at x y = b.at x y := (h.at_near x y hb hn).symm
  rw [hat]
  by_cases c3 : drops.isEmpty = true ∨ (drops.any (· == 0)) = true
  · left; rw [if_pos c3, if_pos c3]; exact ⟨rfl, rfl⟩
  rw [if_neg c3, if_neg c3]
  by_cases c4 : drops.foldl (· + ·) 0 > b.size ∨ drops.foldl (· + ·) 0 > (b.at x y).length
  · left; rw [if_pos c4, if_pos c4]; exact ⟨rfl, rfl⟩
  rw [if_neg c4, if_neg c4]
  cases hsq : b.at x y with
  | nil => left; exact ⟨rfl, rfl⟩
  | cons t rest =>
    simp only []
    by_cases c5 : t.color ≠ b.toMove
    · left; rw [if_pos c5, if_pos c5]; exact ⟨rfl, rfl⟩
    rw [if_neg c5, if_neg c5]
    have hrel := dropLoop_rel d drops _ _ x y (List.take (drops.foldl (· + ·) 0) (t :: rest))
      (h.setAt_near x y hb hn (List.drop (drops.foldl (· + ·) 0) (t :: rest))) (hp hb)
    rcases hrel with ⟨h1, h2⟩ | ⟨q, q', h1, h2, hq⟩
    · left; rw [h1, h2]; exact ⟨rfl, rfl⟩
    · right; rw [h1, h2]; exact ⟨_, _, rfl, rfl, hq.incPly⟩

end Proofs.FPAFrame
