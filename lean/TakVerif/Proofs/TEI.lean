import TakVerif.Spec.TEI

/-! Helper lemmas for `Props/C17.lean` and `Props/C13_tei.lean`. -/
set_option linter.unusedSimpArgs false
set_option linter.unusedVariables false
namespace Proofs.TEI
open Tak Tak.TEI Spec.TEI

theorem wrap64_id (v : Int) (h1 : -two63 ≤ v) (h2 : v < two63) : wrap64 v = v := by
  unfold wrap64 two63 two64 at *
  omega

def Agrees (env : Env) (hist : List (List String)) (st : Engine) : Prop :=
  st.size = sizeTold hist ∧ st.pos = posTold env hist

theorem replay_spec (env : Env) (p : Pos) (ws : List String) :
    toOpt (replay env p ws) = (parseAll env ws).bind (applyAll env.basis p) := by
  induction ws generalizing p with
  | nil => simp [replay, parseAll, applyAll, toOpt]
  | cons w ws ih =>
    simp only [replay, parseAll]
    cases hm : env.parseMove w with
    | error e => simp [toOpt]
    | ok m =>
      simp only
      cases ha : p.apply env.basis m with
      | error e =>
        cases hp : parseAll env ws <;> simp [toOpt, applyAll, ha]
      | ok q =>
        simp only
        rw [ih q]
        cases hp : parseAll env ws <;> simp [applyAll, ha]

theorem parsePosition_spec (env : Env) (size : Int) (words : List String) :
    toOpt (parsePosition env size words) = declared env size words := by
  unfold parsePosition declared
  by_cases hs : size = 0
  · simp [hs, toOpt]
  · simp only [hs, if_false]
    cases hw : words.drop 1 with
    | nil => simp [declaredStart, toOpt]
    | cons w0 rest =>
      simp only [declaredStart]
      by_cases h1 : w0 = "startpos"
      · simp only [h1, if_true]
        cases hn : Pos.new { size := size.toNat, pieces := 0, capstones := 0, blackWinsTies := false } with
        | error e => simp [toOpt]
        | ok p0 =>
          simp only [toOpt, Option.map, Option.bind]
          cases rest with
          | nil => simp [listedMoves, applyAll, toOpt]
          | cons w ms =>
            simp only [listedMoves]
            by_cases hm : w = "moves"
            · simp only [hm, ne_eq, not_true_eq_false, if_false, if_true]
              exact replay_spec env p0 ms
            · simp [hm, toOpt]
      · simp only [h1, if_false]
        by_cases h2 : w0 = "tps"
        · simp only [h2, if_true]
          match rest with
          | [] => simp [toOpt]
          | [a] => simp [toOpt]
          | [a, b] => simp [toOpt]
          | a :: b :: c :: rest' =>
            have hl : ¬ (("tps" :: a :: b :: c :: rest').length < 4) := by simp
            simp only [hl, if_false, List.take, List.drop]
            cases ht : env.parseTPS (" ".intercalate [a, b, c]) with
            | error e => simp [toOpt]
            | ok p =>
              simp only [toOpt, Option.bind]
              by_cases hsz : (p.cfg.size : Int) = size
              · simp only [hsz, ne_eq, not_true_eq_false, if_false, if_true]
                cases rest' with
                | nil => simp [listedMoves, applyAll, toOpt]
                | cons w ms =>
                  simp only [listedMoves]
                  by_cases hm : w = "moves"
                  · simp only [hm, ne_eq, not_true_eq_false, if_false, if_true]
                    exact replay_spec env p ms
                  · simp [hm, toOpt]
              · simp [hsz, toOpt]
        · simp [h2, toOpt]

theorem analyze_keeps (env : Env) (k : Nat) (st : Engine) (words : List String) (r : GoResult)
    (h : analyze env k st words = .ok r) : r.st.pos = st.pos ∧ r.st.size = st.size := by
  unfold analyze at h
  simp only at h
  repeat' split at h
  all_goals (cases h; try exact ⟨rfl, rfl⟩)

theorem step_agrees (env : Env) (k : Nat) (hist : List (List String)) (st : Engine) (w : List String) (r : Rec)
    (hI : Agrees env hist st) (h : step env k st w = .cont r) : Agrees env (w :: hist) r.st := by
  obtain ⟨hsz, hps⟩ := hI
  unfold step at h
  match w, h with
  | [], h =>
    injection h with h; subst h
    simp [Agrees, sizeTold, posTold, isNewgame, isPosition, hsz, hps]
  | w0 :: rest, h =>
    simp only at h
    by_cases c1 : w0 = "tei"
    · simp only [c1, if_true] at h
      injection h with h; subst h
      simp [Agrees, sizeTold, posTold, isNewgame, isPosition, hsz, hps, c1]
    · simp only [c1, if_false] at h
      by_cases c2 : w0 = "quit"
      · simp [c2] at h
      · simp only [c2, if_false] at h
        by_cases c3 : w0 = "teinewgame"
        · simp only [c3, if_true, List.drop] at h
          match rest, h with
          | [], h =>
            injection h with h; subst h
            simp [Agrees, sizeTold, posTold, isNewgame, c3, sizeArg]
          | w1 :: _, h =>
            simp only at h
            split at h
            · cases h
            · injection h with h; subst h
              simp [Agrees, sizeTold, posTold, isNewgame, c3, sizeArg]
        · simp only [c3, if_false] at h
          by_cases c4 : w0 = "position"
          · simp only [c4, if_true] at h
            have hspec := parsePosition_spec env st.size ("position" :: rest)
            split at h
            · rename_i p hp
              injection h with h; subst h
              rw [hp] at hspec
              simp only [Agrees, sizeTold, posTold, isNewgame, isPosition, c4, List.head?]
              simp [hsz, ← hspec, toOpt]
              rw [← hsz]; exact hspec.symm ▸ rfl
            all_goals cases h
          · simp only [c4, if_false] at h
            by_cases c5 : w0 = "go"
            · simp only [c5, if_true] at h
              split at h
              · rename_i gr hg
                injection h with h; subst h
                have := analyze_keeps env k st _ gr hg
                simp [Agrees, sizeTold, posTold, isNewgame, isPosition, c5, this.1, this.2, hsz, hps]
              · cases h
              · cases h
              · injection h with h; subst h
                simp [Agrees, sizeTold, posTold, isNewgame, isPosition, c5, hsz, hps]
            · simp only [c5, if_false] at h
              by_cases c6 : w0 = "stop"
              · simp only [c6, if_true] at h
                injection h with h; subst h
                simp [Agrees, sizeTold, posTold, isNewgame, isPosition, c6, hsz, hps]
              · simp only [c6, if_false] at h
                by_cases c7 : w0 = "isready"
                · simp only [c7, if_true] at h
                  injection h with h; subst h
                  simp [Agrees, sizeTold, posTold, isNewgame, isPosition, c7, hsz, hps]
                · simp [c7] at h

theorem step_stop_ne_eof (env : Env) (k : Nat) (st : Engine) (w : List String) (x : Exit) (r : Rec)
    (h : step env k st w = .stop x r) : x ≠ .eof := by
  unfold step at h
  simp only at h
  repeat' split at h
  all_goals (cases h; try (intro hc; cases hc))

theorem runFrom_nonempty (env : Env) (cmds : List (List String)) (k : Nat) (st : Engine) (recs : List Rec) (x : Exit)
    (h : runFrom env k st cmds = (recs, x)) (hx : x ≠ .eof) : recs ≠ [] := by
  cases cmds with
  | nil => simp [runFrom] at h; exact absurd h.2.symm hx
  | cons w ws =>
    simp only [runFrom] at h
    cases hs : step env k st w with
    | stop x' r => simp [hs] at h; intro hc; rw [hc] at h; simp at h
    | cont r =>
      simp only [hs] at h
      intro hc; rw [hc] at h
      cases hr : runFrom env (k+1) r.st ws with
      | mk rs x' => simp [hr] at h

/-- the number of commands that were carried out completely (`continue`d) -/
def continued (recs : List Rec) (x : Exit) : Nat := if x = .eof then recs.length else recs.length - 1

theorem runFrom_told (env : Env) (cmds : List (List String)) :
    ∀ (k : Nat) (hist : List (List String)) (st : Engine) (recs : List Rec) (x : Exit),
      Agrees env hist st → runFrom env k st cmds = (recs, x) →
      (recs.map (fun r => (r.st.size, r.st.pos))).take (continued recs x)
        = (toldAlong env hist cmds).take (continued recs x) := by
  induction cmds with
  | nil => intro k hist st recs x _ h; simp [runFrom] at h; simp [h.1.symm, toldAlong]
  | cons w ws ih =>
    intro k hist st recs x hI h
    simp only [runFrom] at h
    cases hs : step env k st w with
    | stop x' r =>
      simp [hs] at h
      have hne := step_stop_ne_eof env k st w x' r hs
      obtain ⟨h1, h2⟩ := h
      subst h1; subst h2
      simp [continued, hne]
    | cont r =>
      simp only [hs] at h
      have hA := step_agrees env k hist st w r hI hs
      cases hr : runFrom env (k+1) r.st ws with
      | mk rs x' =>
        simp only [hr] at h
        injection h with h1 h2
        subst h1; subst h2
        have ih' := ih (k+1) (w :: hist) r.st rs x' hA hr
        have hc : continued (r :: rs) x' = continued rs x' + 1 := by
          unfold continued
          by_cases hx : x' = .eof
          · simp [hx]
          · have := runFrom_nonempty env ws (k+1) r.st rs x' hr hx
            simp only [hx, if_false, List.length_cons]
            cases rs with
            | nil => exact absurd rfl this
            | cons a b => simp
        rw [hc]
        simp only [List.map, toldAlong, List.take_succ_cons]
        rw [ih', hA.1, hA.2]

/-- what holds of every engine state a command stream can produce -/
structure Inv (env : Env) (st : Engine) : Prop where
  size : st.size = 0 ∨ (3 ≤ st.size ∧ st.size ≤ 8)
  pos : ∀ p, st.pos = some p → Reach env p ∧ (p.cfg.size : Int) = st.size ∧ 3 ≤ st.size ∧ st.size ≤ 8
  mm : ∀ s, st.mm = some s → s = st.size

theorem inv_init (env : Env) : Inv env {} :=
  ⟨Or.inl rfl, (by intro p h; cases h), (by intro s h; cases h)⟩

theorem new_ok (n : Int) (h3 : 3 ≤ n) (h8 : n ≤ 8) :
    ∃ p, Pos.new { size := n.toNat, pieces := 0, capstones := 0, blackWinsTies := false } = .ok p ∧ (p.cfg.size : Int) = n := by
  have hn : n.toNat = 3 ∨ n.toNat = 4 ∨ n.toNat = 5 ∨ n.toNat = 6 ∨ n.toNat = 7 ∨ n.toNat = 8 := by omega
  have hcast : (n.toNat : Int) = n := by omega
  rcases hn with h | h | h | h | h | h <;> rw [h] at hcast <;> rw [h] <;> exact ⟨_, rfl, hcast⟩

inductive NoCrash {α} : R α → Prop
  | ok (a : α) : NoCrash (.ok a)
  | illegal (s : String) : NoCrash (.error (.illegal s))

theorem replay_total (env : Env) (hC : Collaborators env) (ws : List String) :
    ∀ p, Reach env p → NoCrash (replay env p ws) ∧
      ∀ q, replay env p ws = .ok q → Reach env q ∧ q.cfg.size = p.cfg.size := by
  induction ws with
  | nil => intro p hp; simp only [replay]; exact ⟨.ok p, by intro q h; injection h with h; subst h; exact ⟨hp, rfl⟩⟩
  | cons w ws ih =>
    intro p hp
    simp only [replay]
    cases hm : env.parseMove w with
    | error e =>
      obtain ⟨s, hs⟩ := hC.parseMoveTotal w e hm
      subst hs
      exact ⟨.illegal s, by intro q h; cases h⟩
    | ok m =>
      simp only
      cases ha : p.apply env.basis m with
      | error e =>
        obtain ⟨s, hs⟩ := hC.applyTotal p m e hp ha
        subst hs
        exact ⟨.illegal s, by intro q h; cases h⟩
      | ok q =>
        simp only
        have hq := Reach.move p q m hp ha
        have hsz := hC.applyKeepsSize p m q hp ha
        obtain ⟨h1, h2⟩ := ih q hq
        exact ⟨h1, by intro q' h; obtain ⟨a, b⟩ := h2 q' h; exact ⟨a, by rw [b, hsz]⟩⟩

theorem parsePosition_total (env : Env) (hC : Collaborators env) (size : Int) (words : List String)
    (hs : size = 0 ∨ (3 ≤ size ∧ size ≤ 8)) :
    NoCrash (parsePosition env size words) ∧
      ∀ p, parsePosition env size words = .ok p → Reach env p ∧ (p.cfg.size : Int) = size ∧ 3 ≤ size ∧ size ≤ 8 := by
  unfold parsePosition
  by_cases h0 : size = 0
  · simp only [h0, if_true]; exact ⟨.illegal _, by intro p h; cases h⟩
  · have h38 : 3 ≤ size ∧ size ≤ 8 := by rcases hs with h | h; exact absurd h h0; exact h
    simp only [h0, if_false]
    cases hw : words.drop 1 with
    | nil => exact ⟨.illegal _, by intro p h; cases h⟩
    | cons w0 rest =>
      simp only
      by_cases h1 : w0 = "startpos"
      · simp only [h1, if_true]
        obtain ⟨p0, hn, hc⟩ := new_ok size h38.1 h38.2
        rw [hn]
        simp only
        have hr0 : Reach env p0 := Reach.new _ p0 hn
        cases rest with
        | nil => exact ⟨.ok p0, by intro p h; injection h with h; subst h; exact ⟨hr0, hc, h38⟩⟩
        | cons w ms =>
          simp only
          by_cases hm : w = "moves"
          · simp only [hm, ne_eq, not_true_eq_false, if_false]
            obtain ⟨a, b⟩ := replay_total env hC ms p0 hr0
            exact ⟨a, by intro p h; obtain ⟨c, d⟩ := b p h; exact ⟨c, by rw [d]; exact hc, h38⟩⟩
          · simp only [hm, ne_eq, not_false_eq_true, if_true]
            exact ⟨.illegal _, by intro p h; cases h⟩
      · simp only [h1, if_false]
        by_cases h2 : w0 = "tps"
        · simp only [h2, if_true]
          by_cases hl : ("tps" :: rest).length < 4
          · simp only [hl, if_true]; exact ⟨.illegal _, by intro p h; cases h⟩
          · simp only [hl, if_false]
            cases ht : env.parseTPS (" ".intercalate (rest.take 3)) with
            | error e =>
              obtain ⟨s, hs'⟩ := hC.parseTPSTotal _ e ht
              subst hs'
              exact ⟨.illegal s, by intro p h; cases h⟩
            | ok p0 =>
              simp only
              have hr0 : Reach env p0 := Reach.tps _ p0 ht
              by_cases hsz : (p0.cfg.size : Int) = size
              · simp only [hsz, ne_eq, not_true_eq_false, if_false]
                cases hrest : rest.drop 3 with
                | nil => exact ⟨.ok p0, by intro p h; injection h with h; subst h; exact ⟨hr0, hsz, h38⟩⟩
                | cons w ms =>
                  simp only
                  by_cases hm : w = "moves"
                  · simp only [hm, ne_eq, not_true_eq_false, if_false]
                    obtain ⟨a, b⟩ := replay_total env hC ms p0 hr0
                    exact ⟨a, by intro p h; obtain ⟨c, d⟩ := b p h; exact ⟨c, by rw [d]; exact hsz, h38⟩⟩
                  · simp only [hm, ne_eq, not_false_eq_true, if_true]
                    exact ⟨.illegal _, by intro p h; cases h⟩
              · simp only [hsz, ne_eq, not_false_eq_true, if_true]
                exact ⟨.illegal _, by intro p h; cases h⟩
        · simp only [h2, if_false]; exact ⟨.illegal _, by intro p h; cases h⟩

theorem analyze_total (env : Env) (k : Nat) (st : Engine) (words : List String) (hI : Inv env st) :
    ∃ r, analyze env k st words = .ok r ∧ Inv env r.st := by
  unfold analyze
  cases hp : st.pos with
  | none => exact ⟨_, rfl, hI⟩
  | some p =>
    simp only
    obtain ⟨hr, hsz, h3, h8⟩ := hI.pos p hp
    have hI' : Inv env { mm := some st.size, pos := some p, size := st.size } :=
      ⟨hI.size, (by intro q hq; injection hq with hq; subst hq; exact ⟨hr, hsz, h3, h8⟩),
        (by intro s hs; injection hs with hs; exact hs.symm)⟩
    have hmmAll : ∀ s, st.mm = some s → s = st.size := hI.mm
    have h38 : ¬ (st.size < 3 ∨ st.size > 8) := by omega
    have hne : ¬ (st.size ≠ (p.cfg.size : Int)) := by omega
    rcases hm : st.mm with _ | s
    all_goals (try (have hs := hmmAll _ hm; subst hs))
    all_goals (
      simp only [h38, if_false]
      cases hg : parseGoArgs (words.drop 1) {} with
      | none => exact ⟨_, rfl, hI'⟩
      | some a =>
        simp only [hne, if_false]
        cases hpv : (env.search k p (goBudget p a)).pv with
        | nil => exact ⟨_, rfl, hI'⟩
        | cons m rest => exact ⟨_, rfl, hI'⟩)

theorem step_total (env : Env) (hC : Collaborators env) (k : Nat) (st : Engine) (w : List String)
    (hI : Inv env st) :
    (∀ s r, step env k st w ≠ .stop (.panic s) r) ∧ (∀ r, step env k st w = .cont r → Inv env r.st) := by
  unfold step
  match w with
  | [] => exact ⟨(by intro s r h; cases h), (by intro r h; injection h with h; subst h; exact hI)⟩
  | w0 :: rest =>
    simp only
    by_cases c1 : w0 = "tei"
    · simp only [c1, if_true]
      exact ⟨(by intro s r h; cases h), (by intro r h; injection h with h; subst h; exact hI)⟩
    simp only [c1, if_false]
    by_cases c2 : w0 = "quit"
    · simp only [c2, if_true]
      exact ⟨(by intro s r h; cases h), (by intro r h; cases h)⟩
    simp only [c2, if_false]
    by_cases c3 : w0 = "teinewgame"
    · simp only [c3, if_true, List.drop]
      match rest with
      | [] =>
        simp only
        refine ⟨(by intro s r h; cases h), ?_⟩
        intro r h; injection h with h; subst h
        exact ⟨Or.inr ⟨by decide, by decide⟩, (by intro p hp; cases hp), (by intro s hs; cases hs)⟩
      | w1 :: _ =>
        simp only
        split
        · exact ⟨(by intro s r h; cases h), (by intro r h; cases h)⟩
        · rename_i hok
          refine ⟨(by intro s r h; cases h), ?_⟩
          intro r h; injection h with h; subst h
          have h38 : 3 ≤ (atoi w1).1 ∧ (atoi w1).1 ≤ 8 := by
            simp only [not_or, Bool.not_eq_true, Int.not_lt, Bool.not_eq_eq_eq_not, Bool.not_true] at hok
            omega
          exact ⟨Or.inr h38, (by intro p hp; cases hp), (by intro s hs; cases hs)⟩
    simp only [c3, if_false]
    by_cases c4 : w0 = "position"
    · simp only [c4, if_true]
      obtain ⟨hnc, hok⟩ := parsePosition_total env hC st.size ("position" :: rest) hI.size
      cases hp : parsePosition env st.size ("position" :: rest) with
      | ok p =>
        simp only
        refine ⟨(by intro s r h; cases h), ?_⟩
        intro r h; injection h with h; subst h
        obtain ⟨a, b, c, d⟩ := hok p hp
        refine ⟨Or.inr ⟨c, d⟩, ?_, hI.mm⟩
        intro q hq; injection hq with hq; subst hq; exact ⟨a, b, c, d⟩
      | error e =>
        rw [hp] at hnc
        cases hnc with
        | illegal s => simp only; exact ⟨(by intro s r h; cases h), (by intro r h; cases h)⟩
    simp only [c4, if_false]
    by_cases c5 : w0 = "go"
    · simp only [c5, if_true]
      obtain ⟨gr, hg, hI'⟩ := analyze_total env k st ("go" :: rest) hI
      rw [hg]
      simp only
      exact ⟨(by intro s r h; cases h), (by intro r h; injection h with h; subst h; exact hI')⟩
    simp only [c5, if_false]
    by_cases c6 : w0 = "stop"
    · simp only [c6, if_true]
      exact ⟨(by intro s r h; cases h), (by intro r h; injection h with h; subst h; exact hI)⟩
    simp only [c6, if_false]
    by_cases c7 : w0 = "isready"
    · simp only [c7, if_true]
      exact ⟨(by intro s r h; cases h), (by intro r h; injection h with h; subst h; exact hI)⟩
    simp only [c7, if_false]
    exact ⟨(by intro s r h; cases h), (by intro r h; cases h)⟩

theorem runFrom_total (env : Env) (hC : Collaborators env) (cmds : List (List String)) :
    ∀ (k : Nat) (st : Engine), Inv env st → ∀ s, (runFrom env k st cmds).2 ≠ .panic s := by
  induction cmds with
  | nil => intro k st _ s h; simp [runFrom] at h
  | cons w ws ih =>
    intro k st hI s
    simp only [runFrom]
    obtain ⟨h1, h2⟩ := step_total env hC k st w hI
    cases hs : step env k st w with
    | stop x r =>
      simp only
      intro hx; subst hx
      exact h1 s r hs
    | cont r =>
      simp only
      exact ih (k+1) r.st (h2 r hs) s


/-! ### the state after a fully carried out prefix -/

/-- the engine after `cmds` when every one of them was carried out (`none`: `Run` ended earlier) -/
def stateAfter (env : Env) : Nat → Engine → List (List String) → Option Engine
  | _, st, [] => some st
  | k, st, w :: ws => match step env k st w with
    | .cont r => stateAfter env (k+1) r.st ws
    | .stop _ _ => none

def recOf : Step → Rec
  | .cont r => r
  | .stop _ r => r

theorem stateAfter_agrees (env : Env) (cmds : List (List String)) :
    ∀ k hist st st', Agrees env hist st → stateAfter env k st cmds = some st' →
      Agrees env (cmds.reverse ++ hist) st' := by
  induction cmds with
  | nil => intro k hist st st' hA h; simp [stateAfter] at h; subst h; simpa using hA
  | cons w ws ih =>
    intro k hist st st' hA h
    simp only [stateAfter] at h
    cases hs : step env k st w with
    | stop x r => simp [hs] at h
    | cont r =>
      simp only [hs] at h
      have := ih (k+1) (w :: hist) r.st st' (step_agrees env k hist st w r hA hs) h
      simpa using this

theorem stateAfter_inv (env : Env) (hC : Collaborators env) (cmds : List (List String)) :
    ∀ k st st', Inv env st → stateAfter env k st cmds = some st' → Inv env st' := by
  induction cmds with
  | nil => intro k st st' hI h; simp [stateAfter] at h; subst h; exact hI
  | cons w ws ih =>
    intro k st st' hI h
    simp only [stateAfter] at h
    cases hs : step env k st w with
    | stop x r => simp [hs] at h
    | cont r =>
      simp only [hs] at h
      exact ih (k+1) r.st st' ((step_total env hC k st w hI).2 r hs) h

/-- the record `Run` produces for the command after a carried-out prefix is the one `step` computes
from the state after that prefix -/
theorem runFrom_record_at (env : Env) (pre : List (List String)) (w : List String) (post : List (List String)) :
    ∀ k st st', stateAfter env k st pre = some st' →
      (runFrom env k st (pre ++ w :: post)).1[pre.length]? = some (recOf (step env (k + pre.length) st' w)) := by
  induction pre with
  | nil =>
    intro k st st' h
    simp [stateAfter] at h; subst h
    simp only [List.nil_append, runFrom, List.length_nil, Nat.add_zero]
    cases hs : step env k st w with
    | stop x r => simp [recOf]
    | cont r => simp [recOf]
  | cons c cs ih =>
    intro k st st' h
    simp only [stateAfter] at h
    cases hs : step env k st c with
    | stop x r => simp [hs] at h
    | cont r =>
      simp only [hs] at h
      have := ih (k+1) r.st st' h
      simp only [List.cons_append, runFrom, hs, List.length_cons]
      have e : k + (cs.length + 1) = k + 1 + cs.length := by omega
      rw [e]
      simpa using this

end Proofs.TEI

namespace Proofs.TEI
open Tak Tak.TEI Spec.TEI

theorem analyze_live (env : Env) (k : Nat) (st : Engine) (args : List String) (p : Pos) (a : GoArgs)
    (m : Move) (rest : List Move) (hI : Inv env st) (hp : st.pos = some p)
    (hargs : parseGoArgs args {} = some a)
    (hpv : (env.search k p (goBudget p a)).pv = m :: rest) :
    analyze env k st ("go" :: args) = .ok
      { st := { mm := some st.size, pos := some p, size := st.size }
        out := [infoLine env (env.search k p (goBudget p a)), "bestmove " ++ env.fmtMove m]
        err := false
        deadline := goBudget p a } := by
  unfold analyze
  simp only [hp]
  obtain ⟨hr, hsz, h3, h8⟩ := hI.pos p hp
  have hmmAll : ∀ s, st.mm = some s → s = st.size := hI.mm
  have h38 : ¬ (st.size < 3 ∨ st.size > 8) := by omega
  have hne : ¬ (st.size ≠ (p.cfg.size : Int)) := by omega
  rcases hm : st.mm with _ | s
  all_goals (try (have hs := hmmAll _ hm; subst hs))
  all_goals (
    simp only [h38, if_false, List.drop, hargs, hne, hpv])

theorem step_go (env : Env) (k : Nat) (st : Engine) (args : List String) (r : GoResult)
    (h : analyze env k st ("go" :: args) = .ok r) :
    step env k st ("go" :: args) = .cont { out := r.out, st := r.st, deadline := r.deadline } := by
  simp [step, h]

/-- whatever the searcher answers: on a remembered position with well-formed clock arguments `analyze`
succeeds and the deadline it installs is `goBudget` of that position and those arguments -/
theorem analyze_installs (env : Env) (k : Nat) (st : Engine) (args : List String) (p : Pos) (a : GoArgs)
    (hI : Inv env st) (hp : st.pos = some p) (hargs : parseGoArgs args {} = some a) :
    ∃ r, analyze env k st ("go" :: args) = .ok r ∧ r.deadline = goBudget p a := by
  unfold analyze
  simp only [hp]
  obtain ⟨hr, hsz, h3, h8⟩ := hI.pos p hp
  have hmmAll : ∀ s, st.mm = some s → s = st.size := hI.mm
  have h38 : ¬ (st.size < 3 ∨ st.size > 8) := by omega
  have hne : ¬ (st.size ≠ (p.cfg.size : Int)) := by omega
  rcases hm : st.mm with _ | s
  all_goals (try (have hs := hmmAll _ hm; subst hs))
  all_goals (
    simp only [h38, if_false, List.drop, hargs, hne]
    cases hpv : (env.search k p (goBudget p a)).pv with
    | nil => exact ⟨_, rfl, rfl⟩
    | cons m rest => exact ⟨_, rfl, rfl⟩)

theorem step_newgame_indep (env : Env) (k : Nat) (st st' : Engine) (args : List String) :
    step env k st ("teinewgame" :: args) = step env k st' ("teinewgame" :: args) := by
  simp [step]

end Proofs.TEI
