import TakVerif.Proofs.TPSText

/-! Bit-level lemmas for C10: `FormatTPS` as a function of the board squares, and `FromSquares` as a pure fold. -/
namespace Tak.TPS
open Go

theorem mapM_ok {α β : Type} (l : List α) (f : α → R β) (g : α → β) (h : ∀ x ∈ l, f x = .ok (g x)) :
    l.mapM f = .ok (l.map g) := by
  induction l with
  | nil => rfl
  | cons a l ih =>
    rw [List.mapM_cons, h a (by simp), ih (fun x hx => h x (by simp [hx]))]
    rfl

/-- the squares of row `y`, left to right, as `At` returns them -/
def rowOf (p : Pos) (y : Nat) : List (List Piece) := (List.range p.size).map (fun x => p.squareAt (x + y * p.size))

/-- the board as `FormatTPS` walks it: top row first -/
def boardRows (p : Pos) : List (List (List Piece)) := (List.range p.size).reverse.map (rowOf p)

/-- `At` never fails: an occupied square has a non-zero height -/
def HeightsOK (p : Pos) : Prop :=
  ∀ i, i < p.size * p.size → (p.topAt i).isSome = true → (p.height.getD i 0).toNat ≠ 0

theorem atGo_eq (p : Pos) (i : Nat) (h : (p.topAt i).isSome = true → (p.height.getD i 0).toNat ≠ 0) :
    atGo p i = .ok (p.squareAt i) := by
  unfold atGo
  cases ht : p.topAt i with
  | none => simp [Pos.squareAt, ht]
  | some t =>
    have e : ((p.height.getD i 0).toNat == 0) = false := beq_false_of_ne (h (by simp [ht]))
    simp only [e, Bool.false_eq_true, if_false]

theorem formatTPS_eq (p : Pos) (h : HeightsOK p) :
    formatTPS p = .ok (tpsText ((boardRows p).map rowText) p.move) := by
  unfold formatTPS boardRows
  have hrow : ∀ y ∈ (List.range p.size).reverse, tpsRow p y = .ok (rowText (rowOf p y)) := by
    intro y hy
    have hy' : y < p.size := by simpa using hy
    unfold tpsRow rowSquares
    rw [mapM_ok _ _ (fun x => p.squareAt (x + y * p.size))]
    · simp only [tpsRowText_eq]; rfl
    · intro x hx
      have hx' : x < p.size := by simpa using hx
      apply atGo_eq
      apply h
      calc x + y * p.size < p.size + y * p.size := by omega
        _ = (y + 1) * p.size := by rw [Nat.add_mul]; omega
        _ ≤ p.size * p.size := Nat.mul_le_mul_right _ (by omega)
  rw [mapM_ok _ _ (fun y => rowText (rowOf p y)) hrow]
  simp [List.map_map]
  rfl

def decReserve (p : Pos) (pc : Piece) : Pos :=
  match pc.color, pc.kind with
  | .white, .capstone => { p with whiteCaps := p.whiteCaps - 1 }
  | .black, .capstone => { p with blackCaps := p.blackCaps - 1 }
  | .white, _ => { p with whiteStones := p.whiteStones - 1 }
  | .black, _ => { p with blackStones := p.blackStones - 1 }
  | .none, _ => p

/-- the inner loop of `FromSquares` over the pieces of one square, as a pure function -/
def piecesPure (i : Nat) : Nat → List Piece → Pos → Pos
  | _, [], p => p
  | j, pc :: l, p =>
    let p := decReserve p pc
    let p := if j ≠ 0 ∧ pc.color = .black
             then { p with stacks := p.stacks.setIfInBounds i (p.stacks.getD i 0 ||| bit (j - 1)) } else p
    piecesPure i (j + 1) l p

theorem pieces_eq (i j : Nat) (l : List Piece) (p : Pos) (hc : ∀ pc ∈ l, pc.color ≠ .none) :
    Pos.fromSquares.go.pieces i j (codes l) p = .ok (piecesPure i j l p) := by
  induction l generalizing j p with
  | nil => unfold Pos.fromSquares.go.pieces; rfl
  | cons pc l ih =>
    have hcol := hc pc (by simp)
    have ih' := fun j p => ih j p (fun q hq => hc q (by simp [hq]))
    simp only [codes, List.map_cons] at ih' ⊢
    unfold Pos.fromSquares.go.pieces
    obtain ⟨c, k⟩ := pc
    cases c <;> cases k <;> first
      | exact absurd rfl hcol
      | (simp only [Piece.code, Color.code, Kind.code, Facts.colorWhite, Facts.colorBlack, Facts.kindFlat,
          Facts.kindStanding, Facts.kindCapstone, Facts.colorMask, piecesPure, decReserve]
         by_cases hj : j = 0
         · subst hj; simp [ih']
         · simp [hj, ih'])

/-- the colour and kind bits `FromSquares` sets for the top piece of square `i` -/
def markTop (i : Nat) (top : Piece) (p : Pos) : Pos :=
  let p := match top.color with
    | .white => { p with white := p.white ||| bit i }
    | .black => { p with black := p.black ||| bit i }
    | .none => p
  match top.kind with
  | .capstone => { p with caps := p.caps ||| bit i }
  | .standing => { p with standing := p.standing ||| bit i }
  | .flat => p

/-- the end of the per-square body: `Height[i] = len(sq)`, `hash ^= hashAt(i)` -/
def finishSq (basis : Array W) (i len : Nat) (p : Pos) : Pos :=
  let p := { p with height := p.height.setIfInBounds i (BitVec.ofNat 8 len) }
  { p with hash := p.hash ^^^ p.hashAt basis i }

/-- what `FromSquares` does for one square, as a pure function -/
def squarePure (basis : Array W) (i : Nat) (sq : List Piece) (p : Pos) : Pos :=
  match sq with
  | [] => p
  | top :: _ => finishSq basis i sq.length (piecesPure i 0 sq (markTop i top p))

def goPure (basis : Array W) : Nat → List (List Piece) → Pos → Pos
  | _, [], p => p
  | i, sq :: rest, p => goPure basis (i + 1) rest (squarePure basis i sq p)

theorem code_white (pc : Piece) : (pc.code &&& Facts.colorMask == Facts.colorWhite) = (pc.color == .white) := by
  obtain ⟨c, k⟩ := pc; cases c <;> cases k <;> rfl
theorem code_black (pc : Piece) : (pc.code &&& Facts.colorMask == Facts.colorBlack) = (pc.color == .black) := by
  obtain ⟨c, k⟩ := pc; cases c <;> cases k <;> rfl
theorem code_cap (pc : Piece) : (pc.code &&& Facts.typeMask == Facts.kindCapstone) = (pc.kind == .capstone) := by
  obtain ⟨c, k⟩ := pc; cases c <;> cases k <;> rfl
theorem code_standing (pc : Piece) : (pc.code &&& Facts.typeMask == Facts.kindStanding) = (pc.kind == .standing) := by
  obtain ⟨c, k⟩ := pc; cases c <;> cases k <;> rfl

theorem go_eq (basis : Array W) (n i : Nat) (board : List (List Piece)) (p : Pos)
    (hn : i + board.length ≤ n) (hc : ∀ sq ∈ board, ∀ pc ∈ sq, pc.color ≠ .none) :
    Pos.fromSquares.go basis n i (board.map codes) p = .ok (goPure basis i board p) := by
  induction board generalizing i p with
  | nil => unfold Pos.fromSquares.go; rfl
  | cons sq rest ih =>
    simp only [List.length_cons] at hn
    have hi : ¬ i ≥ n := by omega
    have ih' := fun p => ih (i + 1) p (by omega) (fun s hs => hc s (by simp [hs]))
    simp only [List.map_cons]
    unfold Pos.fromSquares.go
    simp only [hi, if_false]
    cases sq with
    | nil => simp only [codes, List.map_nil]; exact ih' p
    | cons top tl =>
      have hcs := hc (top :: tl) (by simp)
      have hcol := hcs top (by simp)
      have hp := fun q => pieces_eq i 0 (top :: tl) q hcs
      simp only [codes, List.map_cons] at hp ⊢
      simp only [code_white, code_black, code_cap, code_standing, hp, List.length_cons, List.length_map]
      rw [ih']
      congr 1
      obtain ⟨c, k⟩ := top
      cases c <;> cases k <;> first
        | exact absurd rfl hcol
        | rfl


theorem get?_setIfInBounds_self {α : Type} (a : Array α) (i : Nat) (v d : α) (h : i < a.size) :
    (a.setIfInBounds i v)[i]?.getD d = v := by
  simp [h]

theorem get?_setIfInBounds_ne {α : Type} (a : Array α) (i j : Nat) (v d : α) (h : j ≠ i) :
    (a.setIfInBounds i v)[j]?.getD d = a[j]?.getD d := by
  rw [Array.getElem?_setIfInBounds_ne (Ne.symm h)]

theorem decReserve_frame (p : Pos) (pc : Piece) :
    (decReserve p pc).cfg = p.cfg ∧ (decReserve p pc).c = p.c ∧ (decReserve p pc).move = p.move ∧
    (decReserve p pc).white = p.white ∧ (decReserve p pc).black = p.black ∧
    (decReserve p pc).standing = p.standing ∧ (decReserve p pc).caps = p.caps ∧
    (decReserve p pc).height = p.height ∧ (decReserve p pc).hash = p.hash ∧ (decReserve p pc).stacks = p.stacks := by
  unfold decReserve
  split <;> simp

theorem piecesPure_frame (i j : Nat) (l : List Piece) (p : Pos) :
    (piecesPure i j l p).cfg = p.cfg ∧ (piecesPure i j l p).c = p.c ∧ (piecesPure i j l p).move = p.move ∧
    (piecesPure i j l p).white = p.white ∧ (piecesPure i j l p).black = p.black ∧
    (piecesPure i j l p).standing = p.standing ∧ (piecesPure i j l p).caps = p.caps ∧
    (piecesPure i j l p).height = p.height ∧ (piecesPure i j l p).hash = p.hash ∧
    (piecesPure i j l p).stacks.size = p.stacks.size := by
  induction l generalizing j p with
  | nil => simp [piecesPure]
  | cons pc l ih =>
    unfold piecesPure
    simp only []
    obtain ⟨a1, a2, a3, a4, a5, a6, a7, a8, a9, a10⟩ := decReserve_frame p pc
    split
    · obtain ⟨b1, b2, b3, b4, b5, b6, b7, b8, b9, b10⟩ := ih (j + 1)
        { decReserve p pc with stacks := (decReserve p pc).stacks.setIfInBounds i ((decReserve p pc).stacks.getD i 0 ||| bit (j - 1)) }
      simp only [] at b1 b2 b3 b4 b5 b6 b7 b8 b9 b10
      refine ⟨b1.trans a1, b2.trans a2, b3.trans a3, b4.trans a4, b5.trans a5, b6.trans a6, b7.trans a7,
        b8.trans a8, b9.trans a9, ?_⟩
      rw [b10, Array.size_setIfInBounds, a10]
    · obtain ⟨b1, b2, b3, b4, b5, b6, b7, b8, b9, b10⟩ := ih (j + 1) (decReserve p pc)
      exact ⟨b1.trans a1, b2.trans a2, b3.trans a3, b4.trans a4, b5.trans a5, b6.trans a6, b7.trans a7,
        b8.trans a8, b9.trans a9, by rw [b10, a10]⟩

/-- the buried-colour word `FromSquares` accumulates for pieces `l` at depths `j, j+1, …` -/
def wordFrom : Nat → List Piece → W
  | _, [] => 0#64
  | j, pc :: l => (if j ≠ 0 ∧ pc.color = .black then bit (j - 1) else 0#64) ||| wordFrom (j + 1) l

theorem piecesPure_stacks (i j : Nat) (l : List Piece) (p : Pos) (hi : i < p.stacks.size) (i' : Nat) :
    (piecesPure i j l p).stacks[i']?.getD 0 =
      if i' = i then p.stacks[i]?.getD 0 ||| wordFrom j l else p.stacks[i']?.getD 0 := by
  induction l generalizing j p with
  | nil =>
    simp only [piecesPure, wordFrom, BitVec.or_zero]
    split
    · rename_i h; rw [h]
    · rfl
  | cons pc l ih =>
    unfold piecesPure wordFrom
    simp only [Array.getD_eq_getD_getElem?]
    obtain ⟨_, _, _, _, _, _, _, _, _, a10⟩ := decReserve_frame p pc
    split
    · rename_i hb
      rw [ih _ _ (by simp only [Array.size_setIfInBounds, a10]; exact hi)]
      simp only [a10]
      by_cases he : i' = i
      · subst he
        simp only [if_true]
        rw [get?_setIfInBounds_self _ _ _ _ hi, BitVec.or_assoc]
      · simp only [he, if_false]
        rw [get?_setIfInBounds_ne _ _ _ _ _ he]
    · rename_i hb
      rw [ih _ _ (by rw [a10]; exact hi)]
      simp only [a10, BitVec.zero_or]

/-- does the top piece of a square satisfy `f` (false for an empty square) -/
def headIs (f : Piece → Bool) (sq : List Piece) : Bool :=
  match sq with
  | [] => false
  | top :: _ => f top

theorem squarePure_nil (basis : Array W) (i : Nat) (p : Pos) : squarePure basis i [] p = p := rfl

theorem squarePure_fields (basis : Array W) (i : Nat) (sq : List Piece) (p : Pos) (hi : i < p.stacks.size) :
    let q := squarePure basis i sq p
    q.cfg = p.cfg ∧ q.c = p.c ∧ q.move = p.move ∧
    q.white = (p.white ||| if headIs (fun t => t.color == .white) sq then bit i else 0#64) ∧
    q.black = (p.black ||| if headIs (fun t => t.color == .black) sq then bit i else 0#64) ∧
    q.standing = (p.standing ||| if headIs (fun t => t.kind == .standing) sq then bit i else 0#64) ∧
    q.caps = (p.caps ||| if headIs (fun t => t.kind == .capstone) sq then bit i else 0#64) ∧
    q.height = (if sq = [] then p.height else p.height.setIfInBounds i (BitVec.ofNat 8 sq.length)) ∧
    q.stacks.size = p.stacks.size ∧
    (∀ i', q.stacks[i']?.getD 0 = if i' = i then p.stacks[i]?.getD 0 ||| wordFrom 0 sq else p.stacks[i']?.getD 0) ∧
    q.hash = (if sq = [] then p.hash else p.hash ^^^ hashAtRaw basis q.height q.stacks i) := by
  cases sq with
  | nil =>
    simp only [squarePure_nil, headIs, Bool.false_eq_true, if_false, BitVec.or_zero, if_true, wordFrom, true_and]
    refine ⟨?_, trivial⟩
    intro i'; split
    · rename_i h; rw [h]
    · rfl
  | cons top tl =>
    simp only [squarePure, headIs, List.cons_ne_nil, if_false]
    have hp1f : (markTop i top p).cfg = p.cfg ∧ (markTop i top p).c = p.c ∧ (markTop i top p).move = p.move ∧
        (markTop i top p).white = (p.white ||| if top.color == .white then bit i else 0#64) ∧
        (markTop i top p).black = (p.black ||| if top.color == .black then bit i else 0#64) ∧
        (markTop i top p).standing = (p.standing ||| if top.kind == .standing then bit i else 0#64) ∧
        (markTop i top p).caps = (p.caps ||| if top.kind == .capstone then bit i else 0#64) ∧
        (markTop i top p).height = p.height ∧ (markTop i top p).stacks = p.stacks ∧ (markTop i top p).hash = p.hash := by
      unfold markTop
      cases top.color <;> cases top.kind <;> simp
    obtain ⟨c1, c2, c3, c4, c5, c6, c7, c8, c9, c10⟩ := hp1f
    obtain ⟨b1, b2, b3, b4, b5, b6, b7, b8, b9, b10⟩ := piecesPure_frame i 0 (top :: tl) (markTop i top p)
    have hst := piecesPure_stacks i 0 (top :: tl) (markTop i top p) (by rw [c9]; exact hi)
    simp only [finishSq, Pos.hashAt]
    refine ⟨b1.trans c1, b2.trans c2, b3.trans c3, b4.trans c4, b5.trans c5, b6.trans c6, b7.trans c7,
      by rw [b8, c8], by rw [b10, c9], ?_, by rw [b9, c10]⟩
    intro i'
    rw [hst i', c9]

theorem bit_getLsbD (i j : Nat) : (bit i).getLsbD j = decide (j < 64 ∧ j = i) := by
  unfold bit
  rw [BitVec.getLsbD_shiftLeft]
  by_cases h1 : j < 64
  · by_cases h2 : j < i
    · have : ¬ (j = i) := by omega
      simp [h1, h2, this]
    · by_cases h3 : j = i
      · subst h3; simp [h1]
      · have : j - i ≠ 0 := by omega
        have h4 : (1#64).getLsbD (j - i) = false := by
          rw [BitVec.getLsbD_one]; simp [this]
        simp [h1, h2, h3, h4]
  · simp [h1]

theorem goPure_frame (basis : Array W) (i0 : Nat) (board : List (List Piece)) (p : Pos)
    (hs : i0 + board.length ≤ p.stacks.size) :
    let q := goPure basis i0 board p
    q.cfg = p.cfg ∧ q.c = p.c ∧ q.move = p.move ∧ q.stacks.size = p.stacks.size ∧ q.height.size = p.height.size := by
  induction board generalizing i0 p with
  | nil => simp [goPure]
  | cons sq rest ih =>
    simp only [List.length_cons] at hs
    obtain ⟨a1, a2, a3, _, _, _, _, a8, a9, _, _⟩ := squarePure_fields basis i0 sq p (by omega)
    obtain ⟨b1, b2, b3, b4, b5⟩ := ih (i0 + 1) (squarePure basis i0 sq p) (by rw [a9]; omega)
    simp only [goPure]
    refine ⟨b1.trans a1, b2.trans a2, b3.trans a3, b4.trans a9, ?_⟩
    rw [b5, a8]; split <;> simp

/-- a bitboard that `FromSquares` builds from the top pieces: bit `j` is set iff it was set before or square
`j` of the board has a top piece satisfying `f` -/
theorem goPure_bits (basis : Array W) (fld : Pos → W) (f : Piece → Bool)
    (hstep : ∀ i sq p, i < p.stacks.size →
      fld (squarePure basis i sq p) = (fld p ||| if headIs f sq then bit i else 0#64))
    (i0 : Nat) (board : List (List Piece)) (p : Pos) (hs : i0 + board.length ≤ p.stacks.size) (j : Nat) :
    (fld (goPure basis i0 board p)).getLsbD j =
      ((fld p).getLsbD j || (decide (i0 ≤ j ∧ j < 64) && headIs f (board.getD (j - i0) []))) := by
  induction board generalizing i0 p with
  | nil => simp [goPure, headIs]
  | cons sq rest ih =>
    simp only [List.length_cons] at hs
    obtain ⟨_, _, _, _, _, _, _, _, a9, _, _⟩ := squarePure_fields basis i0 sq p (by omega)
    simp only [goPure]
    rw [ih (i0 + 1) (squarePure basis i0 sq p) (by rw [a9]; omega), hstep i0 sq p (by omega)]
    rw [BitVec.getLsbD_or]
    by_cases hj : j = i0
    · subst hj
      have e1 : ¬ (j + 1 ≤ j ∧ j < 64) := by omega
      simp only [e1, decide_false, Bool.false_and, Bool.or_false, Nat.sub_self, List.getD_cons_zero, Nat.le_refl,
        true_and]
      cases headIs f sq
      · simp
      · simp [bit_getLsbD]
    · have hb : (if headIs f sq = true then bit i0 else 0#64).getLsbD j = false := by
        split
        · rw [bit_getLsbD]; simp [hj]
        · simp
      rw [hb, Bool.or_false]
      by_cases hlt : i0 < j
      · have e1 : (i0 + 1 ≤ j ∧ j < 64) ↔ (i0 ≤ j ∧ j < 64) := by omega
        have e2 : j - i0 = (j - (i0 + 1)) + 1 := by omega
        rw [e2, List.getD_cons_succ]
        simp only [e1]
      · have e1 : ¬ (i0 + 1 ≤ j ∧ j < 64) := by omega
        have e2 : ¬ (i0 ≤ j ∧ j < 64) := by omega
        simp [e1, e2]

theorem goPure_height (basis : Array W) (i0 : Nat) (board : List (List Piece)) (p : Pos)
    (hs : i0 + board.length ≤ p.stacks.size) (hh : p.height.size = p.stacks.size) (j : Nat) :
    (goPure basis i0 board p).height[j]?.getD 0 =
      if i0 ≤ j ∧ board.getD (j - i0) [] ≠ [] then BitVec.ofNat 8 (board.getD (j - i0) []).length
      else p.height[j]?.getD 0 := by
  induction board generalizing i0 p with
  | nil => simp [goPure]
  | cons sq rest ih =>
    simp only [List.length_cons] at hs
    obtain ⟨_, _, _, _, _, _, _, a8, a9, _, _⟩ := squarePure_fields basis i0 sq p (by omega)
    have hh' : (squarePure basis i0 sq p).height.size = (squarePure basis i0 sq p).stacks.size := by
      rw [a8, a9]; split <;> simp [hh]
    simp only [goPure]
    rw [ih (i0 + 1) (squarePure basis i0 sq p) (by rw [a9]; omega) hh', a8]
    by_cases hj : j = i0
    · subst hj
      have e1 : ¬ (j + 1 ≤ j ∧ rest.getD (j - (j + 1)) [] ≠ []) := by omega
      simp only [e1, if_false, Nat.sub_self, List.getD_cons_zero, Nat.le_refl, true_and]
      by_cases hsq : sq = []
      · simp [hsq]
      · simp only [hsq, if_false, ne_eq, not_false_eq_true, if_true]
        rw [get?_setIfInBounds_self _ _ _ _ (by omega)]
    · have hset : (if sq = [] then p.height else p.height.setIfInBounds i0 (BitVec.ofNat 8 sq.length))[j]?.getD 0 =
          p.height[j]?.getD 0 := by
        split
        · rfl
        · rw [get?_setIfInBounds_ne _ _ _ _ _ hj]
      rw [hset]
      by_cases hlt : i0 < j
      · have e2 : j - i0 = (j - (i0 + 1)) + 1 := by omega
        rw [e2, List.getD_cons_succ]
        have e1 : (i0 + 1 ≤ j) ↔ (i0 ≤ j) := by omega
        simp only [e1]
      · have e1 : ¬ (i0 + 1 ≤ j) := by omega
        have e2 : ¬ (i0 ≤ j) := by omega
        simp [e1, e2]

theorem goPure_stacks (basis : Array W) (i0 : Nat) (board : List (List Piece)) (p : Pos)
    (hs : i0 + board.length ≤ p.stacks.size) (j : Nat) :
    (goPure basis i0 board p).stacks[j]?.getD 0 =
      if i0 ≤ j then p.stacks[j]?.getD 0 ||| wordFrom 0 (board.getD (j - i0) []) else p.stacks[j]?.getD 0 := by
  induction board generalizing i0 p with
  | nil => simp [goPure, wordFrom]
  | cons sq rest ih =>
    simp only [List.length_cons] at hs
    obtain ⟨_, _, _, _, _, _, _, _, a9, a10, _⟩ := squarePure_fields basis i0 sq p (by omega)
    simp only [goPure]
    rw [ih (i0 + 1) (squarePure basis i0 sq p) (by rw [a9]; omega), a10 j]
    by_cases hj : j = i0
    · subst hj
      have e1 : ¬ (j + 1 ≤ j) := by omega
      simp [e1]
    · simp only [hj, if_false]
      by_cases hlt : i0 < j
      · have e2 : j - i0 = (j - (i0 + 1)) + 1 := by omega
        rw [e2, List.getD_cons_succ]
        have e1 : (i0 + 1 ≤ j) ↔ (i0 ≤ j) := by omega
        simp only [e1]
      · have e1 : ¬ (i0 + 1 ≤ j) := by omega
        have e2 : ¬ (i0 ≤ j) := by omega
        simp [e1, e2]


end Tak.TPS
