import TakVerif.Proofs.TPSRead
import TakVerif.Spec.Notation

/-! C10: a well-formed position is rebuilt exactly by `FromSquares` from its own squares. -/
set_option linter.unusedSimpArgs false
namespace Tak.TPS
open Go Notation

/-! ### the incremental hash -/

theorem hashAtRaw_congr (basis : Array W) (h1 h2 : Array U8) (s1 s2 : Array W) (i : Nat)
    (hh : h1[i]?.getD 0 = h2[i]?.getD 0) (hs : s1[i]?.getD 0 = s2[i]?.getD 0) :
    hashAtRaw basis h1 s1 i = hashAtRaw basis h2 s2 i := by
  unfold hashAtRaw
  simp only [Array.getD_eq_getD_getElem?, hh, hs]

theorem goPure_hash (basis : Array W) (i0 : Nat) (board : List (List Piece)) (p : Pos)
    (hs : i0 + board.length ≤ p.stacks.size) (hh : p.height.size = p.stacks.size)
    (H : Array U8) (S : Array W)
    (hH : ∀ j, i0 ≤ j → j < i0 + board.length → H[j]?.getD 0 = (goPure basis i0 board p).height[j]?.getD 0)
    (hS : ∀ j, i0 ≤ j → j < i0 + board.length → S[j]?.getD 0 = (goPure basis i0 board p).stacks[j]?.getD 0)
    (hE : ∀ k, k < board.length → board.getD k [] = [] → hashAtRaw basis H S (i0 + k) = 0#64) :
    (goPure basis i0 board p).hash =
      (List.range' i0 board.length).foldl (fun h j => h ^^^ hashAtRaw basis H S j) p.hash := by
  induction board generalizing i0 p with
  | nil => simp [goPure]
  | cons sq rest ih =>
    simp only [List.length_cons] at hs hH hS hE
    obtain ⟨_, _, _, _, _, _, _, a8, a9, a10, a11⟩ := squarePure_fields basis i0 sq p (by omega)
    have hh' : (squarePure basis i0 sq p).height.size = (squarePure basis i0 sq p).stacks.size := by
      rw [a8, a9]; split <;> simp [hh]
    have hs' : i0 + 1 + rest.length ≤ (squarePure basis i0 sq p).stacks.size := by rw [a9]; omega
    simp only [goPure, List.length_cons, List.range'_succ, List.foldl_cons]
    rw [ih (i0 + 1) (squarePure basis i0 sq p) hs' hh'
      (fun j h1 h2 => hH j (by omega) (by omega)) (fun j h1 h2 => hS j (by omega) (by omega))
      (fun k hk he => by
        have := hE (k + 1) (by omega) (by simpa using he)
        rw [← this]; congr 1; omega)]
    congr 1
    rw [a11]
    by_cases hsq : sq = []
    · simp only [hsq, if_true]
      have := hE 0 (by omega) (by simp [hsq])
      simp only [Nat.add_zero] at this
      rw [this, BitVec.xor_zero]
    · simp only [hsq, if_false]
      congr 1
      apply hashAtRaw_congr
      · have := goPure_height basis (i0 + 1) rest (squarePure basis i0 sq p) hs' hh' i0
        have e : ¬ (i0 + 1 ≤ i0 ∧ rest.getD (i0 - (i0 + 1)) [] ≠ []) := by omega
        simp only [e, if_false] at this
        rw [← this]
        exact (hH i0 (by omega) (by omega)).symm
      · have := goPure_stacks basis (i0 + 1) rest (squarePure basis i0 sq p) hs' i0
        have e : ¬ (i0 + 1 ≤ i0) := by omega
        simp only [e, if_false] at this
        rw [← this]
        exact (hS i0 (by omega) (by omega)).symm

/-! ### reserves -/

/-- number of pieces satisfying `f` on a list of squares -/
def countOn (f : Piece → Bool) (board : List (List Piece)) : Nat :=
  (board.map (fun sq => (sq.filter f).length)).foldl (· + ·) 0

theorem foldl_add_nat (l : List Nat) (a : Nat) : l.foldl (· + ·) a = a + l.foldl (· + ·) 0 := by
  induction l generalizing a with
  | nil => simp
  | cons d l ih => simp only [List.foldl_cons]; rw [ih (a + d), ih (0 + d)]; omega

theorem countOn_cons (f : Piece → Bool) (sq : List Piece) (board : List (List Piece)) :
    countOn f (sq :: board) = (sq.filter f).length + countOn f board := by
  unfold countOn
  simp only [List.map_cons, List.foldl_cons]
  rw [foldl_add_nat]
  omega

/-- a reserve counter `fld` that the pieces loop decrements once per piece satisfying `f`:
after `FromSquares`, counter + pieces on the board = counter before -/
theorem goPure_reserve (basis : Array W) (fld : Pos → U8) (f : Piece → Bool)
    (hdec : ∀ p pc, fld (decReserve p pc) + (if f pc then 1#8 else 0#8) = fld p)
    (hst : ∀ (p : Pos) s, fld { p with stacks := s } = fld p)
    (hmark : ∀ i top p, fld (markTop i top p) = fld p)
    (hfin : ∀ i len p, fld (finishSq basis i len p) = fld p)
    (i0 : Nat) (board : List (List Piece)) (p : Pos) :
    fld (goPure basis i0 board p) + BitVec.ofNat 8 (countOn f board) = fld p := by
  have hpieces : ∀ (i j : Nat) (l : List Piece) (p : Pos),
      fld (piecesPure i j l p) + BitVec.ofNat 8 (l.filter f).length = fld p := by
    intro i j l
    induction l generalizing j with
    | nil => intro p; simp [piecesPure]
    | cons pc l ih =>
      intro p
      unfold piecesPure
      simp only []
      have hd := hdec p pc
      have key : ∀ p' : Pos, fld p' = fld (decReserve p pc) →
          fld (piecesPure i (j + 1) l p') + BitVec.ofNat 8 ((pc :: l).filter f).length = fld p := by
        intro p' hp'
        have := ih (j + 1) p'
        rw [hp'] at this
        rw [← hd, ← this]
        by_cases hf : f pc = true
        · simp only [List.filter_cons, hf, if_true, List.length_cons]
          rw [BitVec.ofNat_add, BitVec.add_assoc]
        · simp only [List.filter_cons, hf, if_false, Bool.false_eq_true]
          rw [BitVec.add_zero]
      split
      · exact key _ (hst _ _)
      · exact key _ rfl
  induction board generalizing i0 p with
  | nil => simp [goPure, countOn]
  | cons sq rest ih =>
    simp only [goPure]
    rw [countOn_cons, BitVec.ofNat_add]
    have := ih (i0 + 1) (squarePure basis i0 sq p)
    rw [BitVec.add_comm (BitVec.ofNat 8 _) (BitVec.ofNat 8 _), ← BitVec.add_assoc, this]
    cases sq with
    | nil => simp [squarePure]
    | cons top tl =>
      simp only [squarePure]
      rw [hfin, hpieces, hmark]

/-! ### well-formed positions -/

/-- `Notation.tpsHyp` unpacked -/
structure TPSWF (basis : Array W) (p : Pos) : Prop where
  n3 : 3 ≤ p.cfg.size
  n8 : p.cfg.size ≤ 8
  pieces : p.cfg.pieces = Facts.defaultPieces.getD p.cfg.size 0
  capstones : p.cfg.capstones = Facts.defaultCaps.getD p.cfg.size 0
  hsize : p.height.size = p.cfg.size * p.cfg.size
  ssize : p.stacks.size = p.cfg.size * p.cfg.size
  mv0 : 0 ≤ p.move
  mv1 : p.move ≤ maxInt64
  wb : p.white &&& p.black = 0#64
  sc : p.standing &&& p.caps = 0#64
  sub : (p.standing ||| p.caps) &&& ~~~(p.white ||| p.black) = 0#64
  mask : (p.white ||| p.black) &&& ~~~((1#64 <<< (p.cfg.size * p.cfg.size)) - 1#64) = 0#64
  sq : ∀ i, i < p.cfg.size * p.cfg.size →
    (((p.height.getD i 0).toNat == 0) = !occupied p i) ∧ (p.height.getD i 0).toNat ≤ 64 ∧
    (p.stacks.getD i 0) >>> ((p.height.getD i 0).toNat - 1) = 0#64
  hash : p.hash = (List.range (p.cfg.size * p.cfg.size)).foldl (fun h i => h ^^^ p.hashAt basis i)
    (BitVec.ofNat 64 Facts.fnvBasis)
  rws : p.whiteStones.toNat + countPieces p .white false = p.cfg.pieces
  rbs : p.blackStones.toNat + countPieces p .black false = p.cfg.pieces
  rwc : p.whiteCaps.toNat + countPieces p .white true = p.cfg.capstones
  rbc : p.blackCaps.toNat + countPieces p .black true = p.cfg.capstones

theorem tpsWF_of_hyp (basis : Array W) (p : Pos) (h : tpsHyp basis p = true) : TPSWF basis p := by
  unfold tpsHyp at h
  simp only [Bool.and_eq_true, decide_eq_true_eq, beq_iff_eq, List.all_eq_true, List.mem_range] at h
  obtain ⟨⟨⟨⟨⟨⟨⟨⟨⟨⟨⟨⟨⟨⟨⟨⟨⟨h1, h2⟩, h3⟩, h4⟩, h5⟩, h6⟩, h7⟩, h8⟩, h9⟩, h10⟩, h11⟩, h12⟩, h13⟩, h14⟩, h15⟩, h16⟩, h17⟩, h18⟩ := h
  exact {
    n3 := h1, n8 := h2, pieces := h3, capstones := h4, hsize := h5, ssize := h6, mv0 := h7, mv1 := h8,
    wb := h9, sc := h10, sub := h11, mask := h12,
    sq := fun i hi => by
      obtain ⟨⟨a, b⟩, c⟩ := h13 i hi
      exact ⟨by simpa using a, b, c⟩
    hash := h14, rws := h15, rbs := h16, rwc := h17, rbc := h18 }

theorem and_zero_bits (a b : W) (h : a &&& b = 0#64) (j : Nat) : ¬ (a.getLsbD j = true ∧ b.getLsbD j = true) := by
  intro ⟨ha, hb⟩
  have := congrArg (fun x => x.getLsbD j) h
  simp [ha, hb] at this

/-- a square of a well-formed position, as `At` returns it, against the bits it is read from -/
theorem wf_square (basis : Array W) (p : Pos) (h : TPSWF basis p) (j : Nat) (hj : j < p.cfg.size * p.cfg.size) :
    headIs (fun t => t.color == .white) (p.squareAt j) = p.white.getLsbD j ∧
    headIs (fun t => t.color == .black) (p.squareAt j) = p.black.getLsbD j ∧
    headIs (fun t => t.kind == .standing) (p.squareAt j) = p.standing.getLsbD j ∧
    headIs (fun t => t.kind == .capstone) (p.squareAt j) = p.caps.getLsbD j ∧
    BitVec.ofNat 8 (p.squareAt j).length = p.height.getD j 0 ∧
    wordFrom 0 (p.squareAt j) = p.stacks.getD j 0 ∧
    ValidSq (p.squareAt j) ∧ (p.squareAt j).length ≤ 64 := by
  obtain ⟨hocc, h64, hstk⟩ := h.sq j hj
  have hwb := and_zero_bits _ _ h.wb j
  have hsc := and_zero_bits _ _ h.sc j
  have hsub : (p.standing.getLsbD j = true ∨ p.caps.getLsbD j = true) →
      (p.white.getLsbD j = true ∨ p.black.getLsbD j = true) := by
    intro hs
    have := congrArg (fun x => x.getLsbD j) h.sub
    simp only [BitVec.getLsbD_and, BitVec.getLsbD_or, BitVec.getLsbD_not, BitVec.getLsbD_zero] at this
    have hj64 : j < 64 := by
      have : p.cfg.size * p.cfg.size ≤ 8 * 8 := Nat.mul_le_mul h.n8 h.n8
      omega
    simp only [hj64, decide_true, Bool.true_and] at this
    cases hw : p.white.getLsbD j <;> cases hb : p.black.getLsbD j <;> simp_all
  unfold occupied at hocc
  rw [BitVec.getLsbD_or] at hocc
  generalize hh0 : (p.height.getD j 0).toNat = h0 at hocc h64 hstk
  unfold Pos.squareAt Pos.topAt
  rw [hh0]
  cases hw : p.white.getLsbD j <;> cases hb : p.black.getLsbD j
  · -- empty square
    simp only [hw, hb, Bool.or_self, Bool.not_false, beq_iff_eq] at hocc
    have hs : p.standing.getLsbD j = false := by
      cases hs : p.standing.getLsbD j
      · rfl
      · have := hsub (Or.inl hs); simp [hw, hb] at this
    have hc : p.caps.getLsbD j = false := by
      cases hc : p.caps.getLsbD j
      · rfl
      · have := hsub (Or.inr hc); simp [hw, hb] at this
    subst hocc
    simp only [Nat.zero_sub, BitVec.ushiftRight_zero] at hstk
    refine ⟨by simp [headIs], by simp [headIs], by simp [headIs, hs], by simp [headIs, hc], ?_, ?_,
      ⟨by simp, by simp⟩, by simp⟩
    · simp only [Bool.false_eq_true, if_false, List.length_nil]
      apply BitVec.eq_of_toNat_eq; rw [hh0]; rfl
    · simp only [Bool.false_eq_true, if_false, wordFrom]; exact hstk.symm
  all_goals first | (exfalso; apply hwb; constructor <;> assumption) | skip
  all_goals
    simp only [hw, hb, Bool.or_true, Bool.true_or, Bool.or_self, Bool.not_true, beq_eq_false_iff_ne, ne_eq] at hocc
    have hpos : 1 ≤ h0 := by omega
    have hlen : ((List.range (h0 - 1)).map (fun k => if (p.stacks.getD j 0).getLsbD k then (⟨.black, .flat⟩ : Piece)
        else ⟨.white, .flat⟩)).length = h0 - 1 := by simp
    have hword : ∀ (t : Piece), wordFrom 0 (t :: (List.range (h0 - 1)).map (fun k =>
        if (p.stacks.getD j 0).getLsbD k then (⟨.black, .flat⟩ : Piece) else ⟨.white, .flat⟩)) = p.stacks.getD j 0 := by
      intro t
      apply BitVec.eq_of_getLsbD_eq
      intro k hk
      rw [wordFrom_getLsbD]
      simp only [hk, Nat.zero_le, and_self, decide_true, Bool.true_and, Nat.sub_zero, blackAt, List.getElem?_cons_succ]
      by_cases hkh : k < h0 - 1
      · rw [List.getElem?_eq_getElem (by simpa using hkh)]
        simp only [List.getElem_map, List.getElem_range]
        cases (p.stacks.getD j 0).getLsbD k <;> rfl
      · rw [List.getElem?_eq_none (by simpa using hkh)]
        have := congrArg (fun x => x.getLsbD (k - (h0 - 1))) hstk
        simp only [BitVec.getLsbD_ushiftRight, BitVec.getLsbD_zero] at this
        have e : h0 - 1 + (k - (h0 - 1)) = k := by omega
        rw [e] at this
        exact this.symm
    have hvalid : ∀ (t : Piece), t.color ≠ .none → ValidSq (t :: (List.range (h0 - 1)).map (fun k =>
        if (p.stacks.getD j 0).getLsbD k then (⟨.black, .flat⟩ : Piece) else ⟨.white, .flat⟩)) := by
      intro t ht
      constructor
      · intro pc hpc
        rcases List.mem_cons.mp hpc with rfl | hpc
        · exact ht
        · obtain ⟨k, _, rfl⟩ := List.mem_map.mp hpc
          split <;> simp
      · intro pc hpc
        simp only [List.tail_cons] at hpc
        obtain ⟨k, _, rfl⟩ := List.mem_map.mp hpc
        split <;> rfl
    have hheight : BitVec.ofNat 8 (h0 - 1 + 1) = p.height.getD j 0 := by
      apply BitVec.eq_of_toNat_eq
      rw [BitVec.toNat_ofNat, hh0]
      have : h0 - 1 + 1 = h0 := by omega
      rw [this]; exact Nat.mod_eq_of_lt (by omega)
    simp only [if_true, Bool.false_eq_true, if_false, headIs, List.length_cons, hlen, hword, hheight]
    refine ⟨by simp, by simp, ?_, ?_, trivial, trivial, hvalid _ (by simp), by omega⟩
    · cases hs : p.standing.getLsbD j <;> cases hc : p.caps.getLsbD j <;> simp
    · cases hs : p.standing.getLsbD j <;> cases hc : p.caps.getLsbD j <;> simp
      exact hsc ⟨hs, hc⟩


end Tak.TPS
