import TakVerif.Impl.Move

/-! Bit-level facts about `bit`, `setBit`, `clrBit` and square indices. -/
namespace Tak

theorem getD_setIfInBounds_ne {α} (a : Array α) (i j : Nat) (v d : α) (h : j ≠ i) :
    (a.setIfInBounds i v).getD j d = a.getD j d := by
  simp [Array.getD_eq_getD_getElem?, Ne.symm h]

theorem getD_setIfInBounds_eq {α} (a : Array α) (i : Nat) (v d : α) (h : i < a.size) :
    (a.setIfInBounds i v).getD i d = v := by
  simp [Array.getD_eq_getD_getElem?, h]

theorem getD_oob {α} (a : Array α) (i : Nat) (d : α) (h : a.size ≤ i) : a.getD i d = d := by
  simp [Array.getD_eq_getD_getElem?, h]


theorem bit_getLsbD (i j : Nat) : (bit i).getLsbD j = (decide (j = i) && decide (j < 64)) := by
  unfold bit
  rw [BitVec.getLsbD_shiftLeft]
  by_cases h64 : j < 64 <;> by_cases hji : j = i
  · subst hji; simp [h64]
  · by_cases hlt : j < i
    · simp [hlt, hji]
    · have : j - i ≠ 0 := by omega
      simp [hji, hlt, BitVec.getLsbD_one, this]
  · simp [h64]
  · simp [h64]

theorem setBit_getLsbD (w : W) (i j : Nat) :
    (setBit w i).getLsbD j = (w.getLsbD j || (decide (j = i) && decide (j < 64))) := by
  unfold setBit; rw [BitVec.getLsbD_or, bit_getLsbD]

theorem clrBit_getLsbD (w : W) (i j : Nat) :
    (clrBit w i).getLsbD j = (w.getLsbD j && !decide (j = i)) := by
  unfold clrBit
  rw [BitVec.getLsbD_and, BitVec.getLsbD_not, bit_getLsbD]
  by_cases h64 : j < 64
  · simp [h64]
  · have : w.getLsbD j = false := BitVec.getLsbD_of_ge _ _ (by omega)
    simp [this]

theorem setBit_self (w : W) (i : Nat) (h : i < 64) : (setBit w i).getLsbD i = true := by
  simp [setBit_getLsbD, h]

theorem clrBit_self (w : W) (i : Nat) : (clrBit w i).getLsbD i = false := by
  simp [clrBit_getLsbD]

theorem setBit_ne (w : W) (i j : Nat) (h : j ≠ i) : (setBit w i).getLsbD j = w.getLsbD j := by
  simp [setBit_getLsbD, h]

theorem clrBit_ne (w : W) (i j : Nat) (h : j ≠ i) : (clrBit w i).getLsbD j = w.getLsbD j := by
  simp [clrBit_getLsbD, h]

/-- a square index computed from on-board coordinates is below `size²` -/
theorem idx_lt (x y : Int) (sz : Nat) (hx0 : 0 ≤ x) (hx : x < sz) (hy0 : 0 ≤ y) (hy : y < sz) :
    (x + y * sz).toNat < sz * sz := by
  obtain ⟨a, rfl⟩ := Int.eq_ofNat_of_zero_le hx0
  obtain ⟨b, rfl⟩ := Int.eq_ofNat_of_zero_le hy0
  have ha : a < sz := by omega
  have hb : b < sz := by omega
  have h1 : ((a : Int) + (b : Int) * (sz : Int)).toNat = a + b * sz := by
    rw [← Int.natCast_mul, ← Int.natCast_add, Int.toNat_natCast]
  rw [h1]
  have h2 : (b + 1) * sz ≤ sz * sz := Nat.mul_le_mul_right sz (by omega)
  rw [Nat.add_mul] at h2
  omega

theorem idx_lt_64 (x y : Int) (sz : Nat) (hs : sz ≤ 8) (hx0 : 0 ≤ x) (hx : x < sz) (hy0 : 0 ≤ y) (hy : y < sz) :
    (x + y * sz).toNat < 64 := by
  have h := idx_lt x y sz hx0 hx hy0 hy
  have : sz * sz ≤ 8 * 8 := Nat.mul_le_mul hs hs
  omega

end Tak
