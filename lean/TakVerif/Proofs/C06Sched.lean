import TakVerif.Proofs.C06Search

/-! Soundness for *any* schedule of tree operations, not only the one `search` follows. -/
namespace C06
open Tak Tak.PN Spec.Game

variable {S M : Type} (G : Game S M) (att : Color) (root : S)

/-- the primitive operations of proof-number search, applied anywhere, in any order:
move the cursor to any child or to the parent, expand the unsolved leaf under the cursor, renumber
the node under the cursor (with the solved-node bookkeeping, dropping children or not), cut the
children of the node under the cursor back to leaves and set its value from its numbers (PN²), and
change configuration or statistics (node limits, PN² on/off, preserve-solved …). -/
inductive Step : St S M → St S M → Prop
  | descend {st st' : St S M} {l : List (Node M)} {c : Node M} {r : List (Node M)} :
      st.focus.expanded = true → st.focus.children = l.reverse ++ c :: r →
      descend G st l c r = some st' → Step st st'
  | ascend {st st' : St S M} : ascend st = some st' → Step st st'
  | expand {st st1 : St S M} {cur : S} {hs : List S} (stats' : Stats) (an : Bool) :
      st.stack = cur :: hs → st.focus.expanded = false → st.focus.phi ≠ 0 → st.focus.delta ≠ 0 →
      expandLoop G att st cur (G.moves cur) = some st1 →
      Step st { st1 with stats := stats', anomaly := an, focus := { st1.focus with expanded := true } }
  | update {st st' : St S M} {base : Nat} {b : Bool} :
      updateStep G base st = .ok (b, st') → st'.anomaly = false → Step st st'
  | cutBack {st : St S M} {v : Eval} :
      (v = st.focus.value ∨ (v = .proven ∧ st.focus.proof = 0) ∨ (v = .disproven ∧ st.focus.disproof = 0)) →
      Step st { st with focus := { st.focus with value := v, children := st.focus.children.map collapse } }
  | config {st : St S M} (cfg : PN.Cfg) (stats : Stats) (an : Bool) :
      Step st { st with cfg := cfg, stats := stats, anomaly := an }

inductive Steps : St S M → St S M → Prop
  | refl {st : St S M} : Steps st st
  | tail {a b c : St S M} : Steps a b → Step G att b c → Steps a c

theorem step_ok (halt : Alternating G) (hatt : att = .white ∨ att = .black) (hsb : SmallFrom G root)
    {st st' : St S M} (hz : ZipOK G att root st) (h : Step G att st st') : ZipOK G att root st' := by
  cases h with
  | descend hx hc hd => exact (descend_ok G att root _ _ _ _ _ hz hx hc hd).1
  | ascend ha => exact (ascend_ok G att root _ _ hz ha).1
  | expand stats' an hst hx hp hd hl => exact expand_normal_ok G att root halt hatt hsb _ _ _ _ hz hst hx hp hd hl stats' an
  | update hu han => exact (updateStep_ok G att root hsb _ _ _ _ hz hu han).1
  | cutBack hv => exact pn2_finish_ok G att root _ _ hz hv
  | config cfg stats an => exact (ZipOK_congr G att root rfl rfl rfl rfl).mp hz

theorem steps_ok (halt : Alternating G) (hatt : att = .white ∨ att = .black) (hsb : SmallFrom G root)
    {st st' : St S M} (hz : ZipOK G att root st) (h : Steps G att st st') : ZipOK G att root st' := by
  induction h with
  | refl => exact hz
  | tail _ hs ih => exact step_ok G att root halt hatt hsb ih hs

end C06
