import TakVerif.Proofs.ThreatFill

/-! C19, step 4: assembly.  A counted square yields a legal move after which the mover's road squares
contain two connected squares on opposite edges, hence (`Roads.groups_road_iff`) a road group, hence a
road win in `WinDetails`. -/
namespace C19
open Tak Roads Spec

/-- `WinDetails` of `q` reports a finished game won by `col` by a road -/
def RoadWinFor (q : Pos) (col : Color) : Prop :=
  q.winDetails.over = true ∧ q.winDetails.winner = col ∧ q.winDetails.reason = .road

theorem roadBits_bit (p : Pos) (col : Color) (k : Nat) :
    (roadBits p col).getLsbD k = true ↔ (own p col).getLsbD k = true ∧ p.standing.getLsbD k = false := by
  cases col <;> simp only [roadBits, own, BitVec.getLsbD_and, BitVec.getLsbD_not, Bool.and_eq_true,
    Bool.not_eq_true', decide_eq_true_eq, BitVec.getLsbD_zero] <;> try simp
  all_goals
    intro h
    by_cases hk : k < 64
    · simp [hk]
    · rw [BitVec.getLsbD_of_ge _ _ (by omega)] at h; cases h

theorem own_sub_mask (p : Pos) (wf : WFBoard p) (col : Color) : Sub (own p col) (Gen.precompute p.cfg.size).Mask := by
  rw [← wf.consts]
  cases col
  · exact wf.white_sub
  · exact wf.black_sub
  · intro i h; simp [own] at h

theorem winDetails_of_road (q : Pos) (col : Color) (hc : col = .white ∨ col = .black)
    (h : (groupsOf q col).any (isRoadGroup q.c) = true) (ht : q.toMove = col.flip) : RoadWinFor q col := by
  unfold RoadWinFor Pos.winDetails Pos.gameOver
  rcases hc with e | e <;> subst e <;> simp only [groupsOf, Color.flip] at h ht
  · have hr : q.hasRoad = (Color.white, true) := by
      unfold Pos.hasRoad
      simp only [h, ht, Bool.true_and]
      cases q.bgroups.any (isRoadGroup q.c) <;> simp
    simp [hr]
  · have hr : q.hasRoad = (Color.black, true) := by
      unfold Pos.hasRoad
      simp only [h, ht, Bool.and_true]
      cases q.wgroups.any (isRoadGroup q.c) <;> simp
    simp [hr]

theorem toMove_next (p q : Pos) (h : q.move = p.move + 1) : q.toMove = p.toMove.flip := by
  unfold Pos.toMove
  rw [h]
  by_cases h0 : p.move % 2 = 0
  · have : ¬ ((p.move + 1) % 2 = 0) := by omega
    simp [h0, this, Color.flip]
  · have : (p.move + 1) % 2 = 0 := by omega
    simp [h0, this, Color.flip]

/-- two connected road squares of `col` on opposite edges in an analysed position: `hasRoad` sees a road -/
theorem any_road_of_spans (q : Pos) (n : Nat) (hn : SizeOK n) (hc : q.c = Gen.precompute n) (col : Color)
    (hg : floodGroups q.c (roadBits q col) = some (groupsOf q col))
    (hsub : Sub (roadBits q col) (Gen.precompute n).Mask)
    (hspan : ∃ i k, Conn n (fun x => (roadBits q col).getLsbD x = true) i k ∧ Spans n i k) :
    (groupsOf q col).any (isRoadGroup q.c) = true := by
  rw [hc] at hg ⊢
  exact (groups_road_iff n hn _ hsub _ hg).mpr hspan

/-- the successor satisfies C02's road invariant again -/
theorem roadWF_after (p q : Pos) (wf : WFBoard p) (col : Color) (hcol : p.toMove = col) (j s : Nat)
    (haft : After p q j s (own p col) (own q col) (own p col.flip) (own q col.flip))
    (hs : s < p.cfg.size * p.cfg.size) (hj : 64 ≤ j ∨ j < p.cfg.size * p.cfg.size) : RoadWF q := by
  have hc2 : col = .white ∨ col = .black := by rw [← hcol]; exact toMove_cases p
  have hn := wf.size_ok
  have hmask : ∀ k, k < p.cfg.size * p.cfg.size → q.c.Mask.getLsbD k = true := by
    intro k hk; rw [haft.c_eq, wf.consts, Mask_bitN _ hn]; simpa using hk
  have hlt64 : ∀ (x : W) k, x.getLsbD k = true → k < 64 := by
    intro x k hk
    apply Classical.byContradiction; intro hge
    rw [BitVec.getLsbD_of_ge _ _ (by omega)] at hk; cases hk
  have hown : Sub (own q col) q.c.Mask := by
    intro k hk
    rcases haft.upper k hk with h | h | h
    · exact hmask k (lt_of_mask hn (own_sub_mask p wf col) h)
    · exact hmask k (by omega)
    · rcases hj with hj | hj
      · have := hlt64 _ k hk; omega
      · exact hmask k (by omega)
  have hopp : Sub (own q col.flip) q.c.Mask := by
    intro k hk
    rcases haft.oupper k hk with h | h
    · exact hmask k (lt_of_mask hn (own_sub_mask p wf col.flip) h)
    · rcases hj with hj | hj
      · have := hlt64 _ k hk; omega
      · exact hmask k (by omega)
  have hdisj : own q col &&& own q col.flip = 0#64 := by
    apply BitVec.eq_of_getLsbD_eq
    intro k _
    rw [BitVec.getLsbD_and, BitVec.getLsbD_zero]
    cases h1 : (own q col).getLsbD k with
    | false => rfl
    | true =>
      cases h2 : (own q col.flip).getLsbD k with
      | false => rfl
      | true => exact absurd h2 (fun h => haft.disj k h1 h)
  have han : q.analyze = some q := by
    unfold Pos.analyze
    simp only [haft.wg, haft.bg]
  refine ⟨by rw [haft.cfg_eq]; exact hn, by rw [haft.c_eq, haft.cfg_eq]; exact wf.consts, ?_, ?_, ?_, han⟩
  · rcases hc2 with e | e <;> subst e
    · exact hown
    · exact hopp
  · rcases hc2 with e | e <;> subst e
    · exact hopp
    · exact hown
  · rcases hc2 with e | e <;> subst e
    · exact hdisj
    · rw [BitVec.and_comm]; exact hdisj

/-- **Winning.** -/
theorem win_of_spans (p q : Pos) (wf : WFBoard p) (col : Color) (hcol : p.toMove = col) (j s : Nat)
    (haft : After p q j s (own p col) (own q col) (own p col.flip) (own q col.flip)) (hs : s < p.cfg.size * p.cfg.size)
    (hj : 64 ≤ j ∨ j < p.cfg.size * p.cfg.size)
    (hspan : ∃ i k, Conn p.cfg.size (fun x => (roadBits q col).getLsbD x = true) i k ∧ Spans p.cfg.size i k) :
    RoadWinFor q col ∧ (groupsOf q col).any (isRoadGroup q.c) = true ∧ RoadWF q := by
  have hc2 : col = .white ∨ col = .black := by rw [← hcol]; exact toMove_cases p
  have hqc : q.c = Gen.precompute p.cfg.size := by rw [haft.c_eq, wf.consts]
  have hg : floodGroups q.c (roadBits q col) = some (groupsOf q col) := by
    rcases hc2 with e | e <;> subst e
    · exact haft.wg
    · exact haft.bg
  have hsub : Sub (roadBits q col) (Gen.precompute p.cfg.size).Mask := by
    intro k hk
    have hk' := ((roadBits_bit q col k).mp hk).1
    rw [Mask_bitN _ wf.size_ok]
    simp only [decide_eq_true_eq]
    rcases haft.upper k hk' with h | h | h
    · exact lt_of_mask wf.size_ok (own_sub_mask p wf col) h
    · omega
    · rcases hj with hj | hj
      · have : k < 64 := by
          apply Classical.byContradiction; intro hge
          rw [BitVec.getLsbD_of_ge _ _ (by omega)] at hk'; cases hk'
        omega
      · omega
  have hany := any_road_of_spans q p.cfg.size wf.size_ok hqc col hg hsub hspan
  refine ⟨winDetails_of_road q col hc2 hany ?_, hany, roadWF_after p q wf col hcol j s haft hs hj⟩
  rw [toMove_next p q haft.move_eq, hcol]

/-- a road already on the board ends the game -/
theorem over_of_spans (p : Pos) (wf : WFBoard p) (col : Color) (hc2 : col = .white ∨ col = .black)
    (hspan : ∃ i k, Conn p.cfg.size (fun x => (roadBits p col).getLsbD x = true) i k ∧ Spans p.cfg.size i k) :
    p.gameOver.1 = true := by
  obtain ⟨h1, h2⟩ := analyze_groups p wf.analyzed
  have hg : floodGroups p.c (roadBits p col) = some (groupsOf p col) := by
    rcases hc2 with e | e <;> subst e
    · exact h1
    · exact h2
  have hany := any_road_of_spans p p.cfg.size wf.size_ok wf.consts col hg (roadBits_sub p wf.toRoadWF col) hspan
  unfold Pos.gameOver
  have hr : p.hasRoad.2 = true := by
    unfold Pos.hasRoad
    rcases hc2 with e | e <;> subst e <;> simp only [groupsOf] at hany <;> simp only [hany]
    · cases p.bgroups.any (isRoadGroup p.c) <;> simp <;> split <;> rfl
    · cases p.wgroups.any (isRoadGroup p.c) <;> simp <;> split <;> rfl
  rcases hhr : p.hasRoad with ⟨a, b⟩
  rw [hhr] at hr
  simp only at hr
  subst hr
  rfl

/-! ### filling the counted square -/

/-- The counted square `s` is on the board and carries no wall; and either it already is a flat of the side
outside `used` (then no move is needed), or there is a legal move after which `s` belongs to the side while
every square of `used` is untouched. -/
theorem fill_cases (basis : Array W) (p : Pos) (wf : WFBoard p) (hh : HeightsOK p) (hply : 2 ≤ p.move)
    (col : Color) (hcol : p.toMove = col) (used : W) (s : Nat)
    (hres : stonesOf p col ≠ 0#8 ∨ capsOf p col ≠ 0#8)
    (hfill : (p.c.Mask &&& ~~~(p.white ||| p.black)).getLsbD s = true ∨
      (slideMap p.c p (own p col &&& ~~~(p.standing ||| p.caps)) used).getLsbD s = true) :
    s < p.cfg.size * p.cfg.size ∧ p.standing.getLsbD s = false ∧
    (((own p col).getLsbD s = true ∧ used.getLsbD s = false) ∨
     ∃ m q j, m.type ≠ Facts.mtPass ∧ p.apply basis m = .ok q ∧ After p q j s (own p col) (own q col) (own p col.flip) (own q col.flip) ∧
       (64 ≤ j ∨ (j < p.cfg.size * p.cfg.size ∧ used.getLsbD j = false))) := by
  have hn := wf.size_ok
  rcases hfill with h | h
  · -- empty square: place
    simp only [BitVec.getLsbD_and, BitVec.getLsbD_not, Bool.and_eq_true, Bool.not_eq_true',
      decide_eq_true_eq] at h
    obtain ⟨hm, _, hemp⟩ := h
    rw [wf.consts] at hm
    have hs : s < p.cfg.size * p.cfg.size := lt_of_mask hn (Sub.refl _) hm
    have hst : p.standing.getLsbD s = false := by
      cases hx : p.standing.getLsbD s with
      | false => rfl
      | true =>
        have := wf.kinds_sub s (by rw [BitVec.getLsbD_or, hx]; rfl)
        rw [hemp] at this; cases this
    obtain ⟨m, q, h0, h1, h2⟩ := place_generic basis p wf hply col hcol s hs hemp hres
    exact ⟨hs, hst, Or.inr ⟨m, q, 64, h0, h1, h2, Or.inl (Nat.le_refl _)⟩⟩
  · -- slide map
    unfold slideMap at h
    rw [wf.consts] at h
    have hwm : Sub ((Gen.precompute p.cfg.size).Mask &&& ~~~(p.standing ||| p.caps)) (Gen.precompute p.cfg.size).Mask := by
      intro k hk; simp only [BitVec.getLsbD_and, Bool.and_eq_true] at hk; exact hk.1
    have hseed : Sub (own p col &&& ~~~(p.standing ||| p.caps) &&& ~~~used)
        ((Gen.precompute p.cfg.size).Mask &&& ~~~(p.standing ||| p.caps)) := by
      intro k hk
      simp only [BitVec.getLsbD_and, Bool.and_eq_true] at hk ⊢
      exact ⟨own_sub_mask p wf col k hk.1.1, hk.1.2⟩
    rw [grow_mem _ hn _ _ hwm hseed] at h
    obtain ⟨hw, hsrc⟩ := h
    simp only [BitVec.getLsbD_and, BitVec.getLsbD_not, BitVec.getLsbD_or, Bool.and_eq_true, Bool.not_eq_true',
      decide_eq_true_eq, Bool.or_eq_false_iff] at hw
    obtain ⟨hm, _, hss, hsc⟩ := hw
    have hs : s < p.cfg.size * p.cfg.size := lt_of_mask hn (Sub.refl _) hm
    refine ⟨hs, hss, ?_⟩
    rcases hsrc with h | ⟨j, hj, h⟩
    · simp only [BitVec.getLsbD_and, BitVec.getLsbD_not, Bool.and_eq_true, Bool.not_eq_true',
        decide_eq_true_eq] at h
      exact Or.inl ⟨h.1.1, h.2.2⟩
    · simp only [BitVec.getLsbD_and, BitVec.getLsbD_not, BitVec.getLsbD_or, Bool.and_eq_true, Bool.not_eq_true',
        decide_eq_true_eq, Bool.or_eq_false_iff] at h
      obtain ⟨⟨hown, _, hjs, hjc⟩, _, hju⟩ := h
      obtain ⟨m, q, h0, h1, h2⟩ := slide_generic basis p wf hh hply col hcol j s hs hj hown hjs hjc hss hsc
      exact Or.inr ⟨m, q, j, h0, h1, h2, Or.inr ⟨neighbours_lt hs hj, hju⟩⟩

end C19
