import TakVerif.Proofs.NoPanic
import TakVerif.Proofs.Groups

/-! `Pos.apply` (`MovePreallocated`) returns a position or an error value, for every position and move:
its `panic` site is unreachable (`Tak.apply_err`) and `analyze` never runs out of fuel
(`Roads.analyze_ne_none`). -/
namespace Tak

/-- an error value -/
def Err.ill (e : Err) : Prop := ∃ w, e = .illegal w

theorem finish_ne_error (p : Pos) (e : Err) : finish p ≠ .error e := by
  unfold finish
  cases h : p.analyze with
  | none => exact absurd h (Roads.analyze_ne_none p)
  | some q => intro h'; cases h'

theorem enterSquare_ill {next : Pos} {top : Piece} {ct i : Nat} {e : Err}
    (h : enterSquare next top ct i = .error e) : e.ill := by
  unfold enterSquare at h
  split at h
  · cases h; exact ⟨_, rfl⟩
  · split at h
    · split at h
      · cases h; exact ⟨_, rfl⟩
      · cases h
    · cases h

theorem slideStep_ill {basis : Array W} {p : Pos} {top : Piece} {stack : W} {dx dy : Int} {st : SlideSt} {c : Nat} {e : Err}
    (h : slideStep basis p top stack dx dy st c = .error e) : e.ill := by
  unfold slideStep at h
  dsimp only at h
  split at h
  · cases h; exact ⟨_, rfl⟩
  · split at h
    · cases h; exact ⟨_, rfl⟩
    · split at h
      · rename_i e' he; cases h; exact enterSquare_ill he
      · cases h

theorem slideLoop_ill {basis : Array W} {p : Pos} {top : Piece} {stack : W} {dx dy : Int} (drops : List Nat)
    {st : SlideSt} {e : Err} (h : slideLoop basis p top stack dx dy drops st = .error e) : e.ill := by
  induction drops generalizing st with
  | nil => simp only [slideLoop] at h; cases h
  | cons c cs ih =>
    simp only [slideLoop] at h
    split at h
    · rename_i e' he; cases h; exact slideStep_ill he
    · exact ih h

/-- every error of `MovePreallocated` is an error value: no panic, no exhausted fuel -/
theorem apply_ill {basis : Array W} {p : Pos} {m : Move} {e : Err} (h : Pos.apply basis p m = .error e) : e.ill := by
  have hb := apply_err h
  cases e with
  | illegal w => exact ⟨w, rfl⟩
  | panic s => exact absurd hb (by simp [Err.benign])
  | hang s =>
    -- a `hang` can only come out of `finish`, which never fails
    exfalso
    unfold Pos.apply at h
    dsimp only at h
    split at h
    · exact finish_ne_error _ _ h
    split at h
    · cases h
    split at h
    · rename_i e' he; cases h; have := openingRule_err he
      unfold openingRule at he
      split at he
      · split at he
        · split at he <;> cases he
        · cases he
      · cases he
    split at h
    · cases h
    split at h
    · rw [placeOn_eq] at h
      split at h
      · cases h
      split at h
      · cases h
      · exact finish_ne_error _ _ h
    · unfold slideFrom at h
      dsimp only at h
      split at h
      · cases h
      split at h
      · cases h
      split at h
      · cases h
      split at h
      · cases h
      split at h
      · cases h
      · split at h
        · rename_i e' he; cases h
          obtain ⟨w, hw⟩ := slideLoop_ill _ he
          cases hw
        · exact finish_ne_error _ _ h

theorem apply_noPanic (basis : Array W) (p : Pos) (m : Move) : ∀ s, Pos.apply basis p m ≠ .error (.panic s) := by
  intro s h
  obtain ⟨w, hw⟩ := apply_ill h
  cases hw

/-- `Position.Move` never exhausts the model's fuel -/
theorem apply_noHang (basis : Array W) (p : Pos) (m : Move) (s : String) : Pos.apply basis p m ≠ .error (.hang s) := by
  intro h
  obtain ⟨w, hw⟩ := apply_ill h
  cases hw

end Tak
