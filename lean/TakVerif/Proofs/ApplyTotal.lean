import TakVerif.Impl.Move

/-! `Pos.apply` (`MovePreallocated`) never panics: its one `panic` site is unreachable. -/
namespace Tak

def Err.isPanic : Err → Bool
  | .panic _ => true
  | _ => false

/-- the call returned a value or an error value (it did not panic) -/
def NoPanic {α} (r : R α) : Prop := ∀ s, r ≠ .error (.panic s)

theorem finish_noPanic (p : Pos) : NoPanic (finish p) := by
  intro s; unfold finish; split <;> simp

theorem slideStep_noPanic (basis p top stack dx dy st c) : NoPanic (slideStep basis p top stack dx dy st c) := by
  intro s
  unfold slideStep
  simp only []
  split
  · simp
  split
  · simp
  split
  · rename_i heq
    intro h
    cases h
    split at heq
    · cases heq
    split at heq
    · split at heq <;> cases heq
    · cases heq
  · simp

theorem slideLoop_noPanic (basis p top stack dx dy) : ∀ drops st, NoPanic (slideLoop basis p top stack dx dy drops st) := by
  intro drops
  induction drops with
  | nil => intro st s; simp [slideLoop]
  | cons c cs ih =>
    intro st s
    unfold slideLoop
    cases h : slideStep basis p top stack dx dy st c with
    | error e =>
      have := slideStep_noPanic basis p top stack dx dy st c s
      rw [h] at this
      simpa [bind, Except.bind] using this
    | ok st' => simpa [bind, Except.bind] using ih st' s

theorem toMove_cases (p : Pos) : p.toMove = .white ∨ p.toMove = .black := by
  unfold Pos.toMove; split <;> simp

theorem topAt_ne_none (p : Pos) (i : Nat) (h : p.white.getLsbD i = true ∨ p.black.getLsbD i = true) :
    p.topAt i ≠ none := by
  unfold Pos.topAt
  rcases h with h | h
  · simp [h]
  · by_cases hw : p.white.getLsbD i = true <;> simp [h, hw]

theorem apply_noPanic (basis : Array W) (p : Pos) (m : Move) : NoPanic (Pos.apply basis p m) := by
  intro s
  unfold Pos.apply
  extract_lets next mover disp sz i drops ct h next2
  split
  · exact finish_noPanic _ s
  clear_value disp
  cases disp with
  | none => simp
  | some t =>
    obtain ⟨place, dx, dy⟩ := t
    dsimp (config := { zeta := false }) only
    extract_lets place?
    have hp : ∀ e, place? = .error e → e ≠ .panic s := by
      intro e he
      simp only [place?] at he
      split at he
      · split at he
        · split at he <;> cases he
          simp
        · cases he; simp
      · cases he
    clear_value place?
    cases place? with
    | error e => intro h; cases h; exact hp _ rfl rfl
    | ok place2 =>
      dsimp (config := { zeta := false }) only
      split
      · simp
      cases place2 with
      | some pc =>
        dsimp (config := { zeta := false }) only
        split
        · simp
        extract_lets n1 useCaps blackRes stones
        split
        · simp
        · exact finish_noPanic _ s
      | none =>
        dsimp (config := { zeta := false }) only
        split
        · simp
        split
        · simp
        split
        · simp
        split
        · simp
        rename_i hw hb
        split
        · rename_i htop
          exfalso
          rcases toMove_cases p with ht | ht
          · simp [ht] at hw
            exact topAt_ne_none p _ (Or.inl hw) htop
          · simp [ht] at hb
            exact topAt_ne_none p _ (Or.inr hb) htop
        · extract_lets stack n1 n2 n3 n4
          split
          · rename_i e heq
            intro h
            cases h
            exact slideLoop_noPanic _ _ _ _ _ _ _ _ s heq
          · exact finish_noPanic _ s
