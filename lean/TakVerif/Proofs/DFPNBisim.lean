import TakVerif.Proofs.C06Bridge

/-! Positions that `Equal` identifies have the same plain forced wins, when `Equal` is a bisimulation
on a set of positions closed under play (`EqualIsBisimFrom` of `C06Bridge.lean` is the case "reachable
from one root"; the DFPN table is shared by several roots). -/
namespace C06
open Tak Tak.PN Spec.Game

variable {S M : Type} (G : Game S M) (att : Color)

structure EqualIsBisimOn (Dom : S → Prop) : Prop where
  closed : ∀ s s', Dom s → Succ G s s' → Dom s'
  symm : ∀ s t, Dom s → Dom t → G.equal s t = true → G.equal t s = true
  over : ∀ s t, Dom s → Dom t → G.equal s t = true → G.over s = G.over t
  toMove : ∀ s t, Dom s → Dom t → G.equal s t = true → G.toMove s = G.toMove t
  step : ∀ s t s', Dom s → Dom t → G.equal s t = true → Succ G s s' → ∃ t', Succ G t t' ∧ G.equal s' t' = true

theorem WinN.equal_on {Dom : S → Prop} (hb : EqualIsBisimOn G Dom) : ∀ (n : Nat) (s t : S),
    Dom s → Dom t → G.equal s t = true → WinN G att n s → WinN G att n t := by
  intro n
  induction n with
  | zero =>
    intro s t rs rt he w
    cases w with
    | terminal ho => exact .terminal (by rw [← hb.over s t rs rt he]; exact ho)
  | succ n ih =>
    intro s t rs rt he w
    cases w with
    | terminal ho => exact .terminal (by rw [← hb.over s t rs rt he]; exact ho)
    | attacker ho ht hs hw =>
      obtain ⟨t', hst, het⟩ := hb.step s t _ rs rt he hs
      exact .attacker (by rw [← hb.over s t rs rt he]; exact ho) (by rw [← hb.toMove s t rs rt he]; exact ht) hst
        (ih _ _ (hb.closed _ _ rs hs) (hb.closed _ _ rt hst) het hw)
    | defender ho ht hall =>
      refine .defender (by rw [← hb.over s t rs rt he]; exact ho) (by rw [← hb.toMove s t rs rt he]; exact ht) ?_
      intro t' hst
      obtain ⟨s', hss, hes⟩ := hb.step t s t' rt rs (hb.symm s t rs rt he) hst
      exact ih _ _ (hb.closed _ _ rs hss) (hb.closed _ _ rt hst)
        (hb.symm _ _ (hb.closed _ _ rt hst) (hb.closed _ _ rs hss) hes) (hall s' hss)

theorem WinN.toPlain {n : Nat} {s : S} (w : WinN G att n s) : PlainWin G att s := by
  induction w with
  | terminal ho => exact .terminal ho
  | attacker ho ht hs _ ih => exact .attacker ho ht hs ih
  | defender ho ht _ ih => exact .defender ho ht ih

theorem plainWin_congr_on {Dom : S → Prop} (hb : EqualIsBisimOn G Dom) {s t : S} (hs : Dom s) (ht : Dom t)
    (he : G.equal s t = true) : PlainWin G att s ↔ PlainWin G att t := by
  constructor
  · intro w
    obtain ⟨n, hn⟩ := plainWin_bounded G att w
    exact (WinN.equal_on G att hb n s t hs ht he hn).toPlain
  · intro w
    obtain ⟨n, hn⟩ := plainWin_bounded G att w
    exact (WinN.equal_on G att hb n t s ht hs (hb.symm s t hs ht he) hn).toPlain

end C06
