import TakVerif.Proofs.HeapStep

/-! C09, layer 6: whole sessions.  `run_inv`: after ANY op list the heap state is separated and refines
the pure state.  Plus the pure-side facts the corollaries in `Props/C09.lean` need: values never change once
they exist (unless the handle itself is handed in as a buffer), and every value is analysed. -/
namespace Tak

theorem SessInv.init : SessInv {} #[] :=
  ⟨⟨fun _ => none, SepWith.empty _⟩, ⟨rfl, fun i => by simp [PState.get],
    fun i p hp => by simp [PState.get] at hp⟩⟩

theorem foldl_sessInv (basis : Array W) (ops : List Op) {s : HState} {ps : PState} (I : SessInv s ps) :
    SessInv (ops.foldl (fun s op => (s.step basis op).1) s) (ops.foldl (fun ps op => (ps.step basis op).1) ps) := by
  induction ops generalizing s ps with
  | nil => exact I
  | cons op ops ih => exact ih (step_ok basis I op).1

theorem run_inv (basis : Array W) (ops : List Op) : SessInv (HState.run basis ops) (PState.run basis ops) :=
  foldl_sessInv basis ops SessInv.init

theorem HState.run_append (basis : Array W) (ops ops' : List Op) :
    HState.run basis (ops ++ ops') = ops'.foldl (fun s op => (s.step basis op).1) (HState.run basis ops) := by
  simp [HState.run, List.foldl_append]

theorem PState.run_append (basis : Array W) (ops ops' : List Op) :
    PState.run basis (ops ++ ops') = ops'.foldl (fun s op => (s.step basis op).1) (PState.run basis ops) := by
  simp [PState.run, List.foldl_append]

/-! ### the pure side: values are immutable -/

/-- the only way an op ends the life of handle `j`: it is handed in as the buffer of a `MovePreallocated` -/
def Op.consumes (op : Op) (j : Nat) : Prop :=
  match op with
  | .movepre _ _ b => b = j
  | _ => False

instance (op : Op) (j : Nat) : Decidable (op.consumes j) := by
  unfold Op.consumes; split <;> infer_instance

theorem PState.step_get (basis : Array W) (ps : PState) (op : Op) {j : Nat} {p : Pos}
    (hj : ps.get j = some p) (hc : ¬ op.consumes j) : (ps.step basis op).1.get j = some p := by
  have jlt := PState.get_lt hj
  have hne : j ≠ ps.size := Nat.ne_of_lt jlt
  cases op with
  | new cfg =>
    simp only [PState.step]; split
    · simp only [PState.get_push, if_neg hne, hj]
    · exact hj
  | fromValue v =>
    simp only [PState.step]; split
    · simp only [PState.get_push, if_neg hne, hj]
    · exact hj
  | clone src =>
    simp only [PState.step]; split
    · split
      · simp only [PState.get_push, if_neg hne, hj]
      · exact hj
    · exact hj
  | move src m =>
    simp only [PState.step]; split
    · split <;> simp only [PState.get_push, if_neg hne, hj]
    · exact hj
  | movepre src m b =>
    have hb : ¬ j = b := fun e => hc e.symm
    simp only [PState.step]; split
    · split
      · split <;> simp only [PState.get_set, hb, false_and, if_false, hj]
      · exact hj
    · exact hj

theorem PState.foldl_get (basis : Array W) (ops : List Op) (ps : PState) {j : Nat} {p : Pos}
    (hj : ps.get j = some p) (hc : ∀ op, op ∈ ops → ¬ op.consumes j) :
    (ops.foldl (fun ps op => (ps.step basis op).1) ps).get j = some p := by
  induction ops generalizing ps with
  | nil => exact hj
  | cons op ops ih =>
    exact ih _ (PState.step_get basis ps op hj (hc op (List.mem_cons_self ..)))
      (fun op' h' => hc op' (List.mem_cons_of_mem _ h'))

/-! ### the pure side: every value is analysed -/

def PState.Analysed (ps : PState) : Prop := ∀ i p, ps.get i = some p → p.analyze = some p

theorem Pos.new_analysed {cfg : Cfg} {p : Pos} (h : Pos.new cfg = .ok p) : p.analyze = some p := by
  unfold Pos.new at h
  split at h
  · cases h
  · extract_lets pieces caps at h
    split at h
    · cases h
    · cases h
      simp [Pos.analyze, floodGroups, floodGroupsFuel]

theorem PState.Analysed.push {ps : PState} (A : ps.Analysed) {v : Option Pos} (hv : ∀ p, v = some p → p.analyze = some p) :
    PState.Analysed (ps.push v) := by
  intro i p hp
  rw [PState.get_push] at hp
  split at hp
  · exact hv p hp
  · exact A i p hp

theorem PState.Analysed.set {ps : PState} (A : ps.Analysed) {b : Nat} {v : Option Pos} (hv : ∀ p, v = some p → p.analyze = some p) :
    PState.Analysed (ps.setIfInBounds b v) := by
  intro i p hp
  rw [PState.get_set] at hp
  split at hp
  · exact hv p hp
  · exact A i p hp

theorem PState.Analysed.step (basis : Array W) {ps : PState} (A : ps.Analysed) (op : Op) :
    PState.Analysed (ps.step basis op).1 := by
  cases op with
  | new cfg =>
    simp only [PState.step]; split
    · rename_i p hp; exact A.push (fun q hq => by cases hq; exact Pos.new_analysed hp)
    · exact A
  | fromValue v =>
    simp only [PState.step]; split
    · rename_i q hq; exact A.push (fun q' hq' => by cases hq'; exact Pos.analyze_idem hq)
    · exact A
  | clone src =>
    simp only [PState.step]; split
    · split
      · rename_i q hq; exact A.push (fun q' hq' => by cases hq'; exact Pos.analyze_idem hq)
      · exact A
    · exact A
  | move src m =>
    simp only [PState.step]; split
    · split
      · rename_i q hq; exact A.push (fun q' hq' => by cases hq'; exact Pos.apply_analyzed hq)
      · exact A.push (fun q' hq' => by cases hq')
    · exact A
  | movepre src m b =>
    simp only [PState.step]; split
    · split
      · split
        · rename_i q hq; exact A.set (fun q' hq' => by cases hq'; exact Pos.apply_analyzed hq)
        · exact A.set (fun q' hq' => by cases hq')
      · exact A
    · exact A

theorem PState.run_analysed (basis : Array W) (ops : List Op) : (PState.run basis ops).Analysed := by
  have : ∀ (ps : PState), ps.Analysed → (ops.foldl (fun ps op => (ps.step basis op).1) ps).Analysed := by
    induction ops with
    | nil => intro ps A; exact A
    | cons op ops ih => intro ps A; exact ih _ (A.step basis op)
  exact this #[] (fun i p hp => by simp [PState.get] at hp)

/-! ### the pure side: what a refused move / a clone / a well-formed op does -/

/-- a refused move creates no value -/
theorem PState.step_failed_get (basis : Array W) (ps : PState) (op : Op) (hf : (ps.step basis op).2 = .failed)
    {j : Nat} {p : Pos} (hj : (ps.step basis op).1.get j = some p) : ps.get j = some p := by
  cases op with
  | new cfg => simp only [PState.step] at hf; split at hf <;> cases hf
  | fromValue v => simp only [PState.step] at hf; split at hf <;> cases hf
  | clone src =>
    simp only [PState.step] at hf; split at hf
    · split at hf <;> cases hf
    · cases hf
  | move src m =>
    simp only [PState.step] at hf hj
    cases hs : ps.get src with
    | none => simp [hs] at hf
    | some pv =>
      simp only [hs] at hf hj
      cases he : pv.apply basis m with
      | ok q => simp [he] at hf
      | error e =>
        simp only [he, PState.get_push] at hj
        split at hj
        · cases hj
        · exact hj
  | movepre src m b =>
    simp only [PState.step] at hf hj
    cases hs : ps.get src with
    | none => simp [hs] at hf
    | some pv =>
      simp only [hs] at hf hj
      by_cases hc : b ≠ src ∧ b < ps.size
      · simp only [hc, ne_eq, not_false_eq_true, and_self, if_true] at hf hj
        cases he : pv.apply basis m with
        | ok q => simp [he] at hf
        | error e =>
          simp only [he, PState.get_set] at hj
          split at hj
          · cases hj
          · exact hj
      · simp [hc] at hf

/-- cloning a live handle whose value is analysed: a fresh handle with the same value -/
theorem PState.step_clone (basis : Array W) (ps : PState) {src : Nat} {pv : Pos} (hs : ps.get src = some pv)
    (ha : pv.analyze = some pv) : ps.step basis (.clone src) = (ps.push (some pv), .ok ps.size) := by
  simp only [PState.step, hs, ha]

/-- well-formed ops (live source; buffer an existing object other than the source) are never rejected -/
def Op.WellFormedAt (op : Op) (live : List Nat) (nobjs : Nat) : Prop :=
  match op with
  | .new cfg => 3 ≤ cfg.size ∧ cfg.size ≤ 8
  | .fromValue p => p.analyze.isSome        -- flood fuel suffices (always, cf. Proofs.Flood)
  | .clone src => src ∈ live
  | .move src _ => src ∈ live
  | .movepre src _ b => src ∈ live ∧ b ≠ src ∧ b < nobjs

theorem Pos.new_ok {cfg : Cfg} (h : 3 ≤ cfg.size ∧ cfg.size ≤ 8) : ∃ p, Pos.new cfg = .ok p := by
  unfold Pos.new
  have hlen : Facts.defaultPieces.length = 9 := by decide
  rw [if_neg (by rw [hlen]; omega)]
  extract_lets pieces caps
  rw [if_neg (by omega)]
  exact ⟨_, rfl⟩

theorem PState.step_wellFormed (basis : Array W) (ps : PState) (A : ps.Analysed) (op : Op) (live : List Nat)
    (hlive : ∀ i, i ∈ live ↔ ∃ p, ps.get i = some p) (hw : op.WellFormedAt live ps.size) :
    (ps.step basis op).2 ≠ .rejected := by
  cases op with
  | new cfg =>
    obtain ⟨p, hp⟩ := Pos.new_ok hw
    simp [PState.step, hp]
  | fromValue v =>
    simp only [Op.WellFormedAt] at hw
    cases hv : v.analyze with
    | none => simp [hv] at hw
    | some q => simp [PState.step, hv]
  | clone src =>
    obtain ⟨pv, hpv⟩ := (hlive src).mp hw
    simp [PState.step, hpv, A src pv hpv]
  | move src m =>
    obtain ⟨pv, hpv⟩ := (hlive src).mp hw
    simp only [PState.step, hpv]
    split <;> simp
  | movepre src m b =>
    obtain ⟨hl, hne, hb⟩ := hw
    obtain ⟨pv, hpv⟩ := (hlive src).mp hl
    simp only [PState.step, hpv, hne, hb, ne_eq, not_false_eq_true, and_self, if_true]
    split <;> simp

end Tak
