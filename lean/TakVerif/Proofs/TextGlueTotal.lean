import TakVerif.Impl.TextGlue
import TakVerif.Proofs.PTNTotal

/-! Helper lemmas for the chat-line and weights-JSON glue (`Impl/TextGlue.lean`). -/
namespace PTN
open Tak

theorem idx_ok (gs : List Bytes) (i : Nat) (h : i < gs.length) : ∃ g, TextGlue.idx gs i = .ok g := by
  unfold TextGlue.idx
  rw [List.getElem?_eq_getElem h]
  exact ⟨_, rfl⟩

theorem featureNames_length : TextGlue.featureNames.length = Facts.maxFeature := by
  unfold TextGlue.featureNames
  exact (List.length_map ..).trans List.length_range

theorem lookupFeature_lt (names : List Bytes) (k : Bytes) (f : Nat) (h : TextGlue.lookupFeature names k = some f) :
    f < names.length := by
  unfold TextGlue.lookupFeature at h
  dsimp only at h
  split at h
  · rename_i hlt; injection h with h; omega
  · cases h

theorem assignOne_cases (names : List Bytes) (ws : Array Int) (hws : ws.size = names.length) (k : Bytes) (v : Int) :
    (∃ ws', TextGlue.assignOne names ws k v = .ok ws' ∧ ws'.size = names.length) ∨
    (∃ w, TextGlue.assignOne names ws k v = .error (.illegal w)) := by
  unfold TextGlue.assignOne
  generalize hl : TextGlue.lookupFeature names k = r
  cases r with
  | none => right; exact ⟨_, rfl⟩
  | some f =>
    have hlt : f < ws.size := by rw [hws]; exact lookupFeature_lt names k f hl
    dsimp only
    rw [if_pos hlt]
    left; exact ⟨_, rfl, by simpa using hws⟩

theorem assignLoop_graceful (names : List Bytes) : ∀ (h : List (Bytes × Int)) (ws : Array Int),
    ws.size = names.length → Graceful (TextGlue.assignLoop names h ws) := by
  intro h
  induction h with
  | nil => intro ws _; exact graceful_ok _
  | cons kv h ih =>
    intro ws hws
    obtain ⟨k, v⟩ := kv
    unfold TextGlue.assignLoop
    rcases assignOne_cases names ws hws k v with ⟨ws', h1, h2⟩ | ⟨w, h1⟩
    · rw [h1]; exact ih ws' h2
    · rw [h1]; exact graceful_illegal _

end PTN
