import TakVerif.Proofs.Popcount

/-! `bitboard.FloodGroups` returns exactly the connected components with at least two squares. -/
namespace Roads
open Tak Spec

/-- `g` is a connected component of the set `all` on the `n×n` board -/
def IsComp (n : Nat) (all g : W) : Prop :=
  ∃ i, all.getLsbD i = true ∧ ∀ k, g.getLsbD k = true ↔ Conn n (fun x => all.getLsbD x = true) i k

/-- at least two squares -/
def Big (g : W) : Prop := ∃ i j, i ≠ j ∧ g.getLsbD i = true ∧ g.getLsbD j = true

theorem W_ext {x y : W} (h : ∀ i, x.getLsbD i = true ↔ y.getLsbD i = true) : x = y :=
  Sub.antisymm (fun i hi => (h i).mp hi) (fun i hi => (h i).mpr hi)

theorem IsComp.sub {n : Nat} {all g : W} (h : IsComp n all g) : Sub g all := by
  obtain ⟨i, _, hg⟩ := h
  intro k hk
  exact ((hg k).mp hk).ok_right

/-- a component is determined by any of its squares -/
theorem IsComp.eq_of_mem {n : Nat} {all g : W} (h : IsComp n all g) {j : Nat} (hj : g.getLsbD j = true) :
    ∀ k, g.getLsbD k = true ↔ Conn n (fun x => all.getLsbD x = true) j k := by
  obtain ⟨i, _, hg⟩ := h
  intro k
  have hij := (hg j).mp hj
  rw [hg k]
  exact ⟨fun hik => hij.symm.trans hik, fun hjk => hij.trans hjk⟩

/-- two components that share a square are the same bitboard: components are pairwise disjoint -/
theorem IsComp.eq_of_common {n : Nat} {all g h : W} (hg : IsComp n all g) (hh : IsComp n all h) {j : Nat}
    (hgj : g.getLsbD j = true) (hhj : h.getLsbD j = true) : g = h :=
  W_ext (fun k => by rw [hg.eq_of_mem hgj k, hh.eq_of_mem hhj k])

/-- loop invariant of `FloodGroups`: `bits` = squares not yet visited (all above the visited ones),
`seen` = union of the components of visited squares, `out` = those of them with ≥ 2 squares -/
structure GInv (n : Nat) (all bits seen : W) (out : List W) : Prop where
  sub : Sub bits all
  below : ∀ r b, all.getLsbD r = true → bits.getLsbD r = false → bits.getLsbD b = true → r < b
  removed : ∀ r, all.getLsbD r = true → bits.getLsbD r = false → seen.getLsbD r = true
  seen_sub : Sub seen all
  closed : ∀ i j, seen.getLsbD i = true → Conn n (fun x => all.getLsbD x = true) i j →
    seen.getLsbD j = true
  out_iff : ∀ g, g ∈ out ↔ IsComp n all g ∧ Big g ∧ Sub g seen
  nodup : out.Nodup

theorem floodGroupsFuel_spec (n : Nat) (hn : SizeOK n) (all : W) (hall : Sub all (Gen.precompute n).Mask) :
    ∀ (fuel : Nat) (bits seen : W) (out : List W), GInv n all bits seen out → cnt bits ≤ fuel →
      ∃ gs, floodGroupsFuel (Gen.precompute n) all fuel bits seen out = some gs ∧ gs.Nodup ∧
        ∀ g, g ∈ gs ↔ IsComp n all g ∧ Big g := by
  have hdone : ∀ (seen : W) (out : List W), GInv n all 0#64 seen out →
      out.Nodup ∧ ∀ g, g ∈ out ↔ IsComp n all g ∧ Big g := by
    intro seen out inv
    refine ⟨inv.nodup, fun g => ?_⟩
    rw [inv.out_iff]
    constructor
    · exact fun h => ⟨h.1, h.2.1⟩
    · intro h
      exact ⟨h.1, h.2, fun i hi => inv.removed i (h.1.sub i hi) (by simp)⟩
  intro fuel
  induction fuel with
  | zero =>
    intro bits seen out inv hc
    have hb : bits = 0#64 := cnt_eq_zero (by omega)
    subst hb
    exact ⟨out, by simp [floodGroupsFuel], hdone seen out inv⟩
  | succ f ih =>
    intro bits seen out inv hc
    unfold floodGroupsFuel
    by_cases hb : bits = 0#64
    · subst hb
      exact ⟨out, by simp, hdone seen out inv⟩
    · have hb' : (bits == 0#64) = false := by simpa using hb
      simp only [hb']
      obtain ⟨k, hk64, hkb, hklow, hnext, hbit⟩ := exists_lowest bits hb
      generalize hnx : bits &&& (bits - 1#64) = next at *
      generalize hbt : bits &&& ~~~next = bit at *
      have hnext_sub : Sub next bits := fun i hi => by
        rw [hnext] at hi; simp only [Bool.and_eq_true] at hi; exact hi.1
      have hnk : next.getLsbD k = false := by rw [hnext]; simp
      have hcn : cnt next < cnt bits :=
        cnt_lt hnext_sub (fun e => by rw [e] at hnk; rw [hnk] at hkb; cases hkb)
      -- facts shared by both branches
      have sub' : Sub next all := Sub.trans hnext_sub inv.sub
      have below' : ∀ r b, all.getLsbD r = true → next.getLsbD r = false → next.getLsbD b = true → r < b := by
        intro r b har hnr hnb
        rw [hnext] at hnr hnb
        simp only [Bool.and_eq_true, decide_eq_true_eq] at hnb
        by_cases hrb : bits.getLsbD r = true
        · have hrk : r = k := by
            apply Classical.byContradiction; intro hne
            simp [hrb, hne] at hnr
          subst hrk
          have : ¬ b < r := fun hlt => by rw [hklow b hlt] at hnb; exact absurd hnb.1 (by simp)
          omega
        · exact inv.below r b har (by simpa using hrb) hnb.1
      have hseen_k : (seen &&& bit == 0#64) = !seen.getLsbD k := by
        cases hsk : seen.getLsbD k with
        | true =>
          have : seen &&& bit ≠ 0#64 := fun e => by
            have := congrArg (fun v => BitVec.getLsbD v k) e
            simp [hbit, hsk] at this
          simpa using this
        | false =>
          have : seen &&& bit = 0#64 := by
            apply BitVec.eq_of_getLsbD_eq; intro i _
            simp only [BitVec.getLsbD_and, hbit, BitVec.getLsbD_zero]
            by_cases hik : i = k
            · subst hik; simp [hsk]
            · simp [hik]
          simp [this]
      rw [hseen_k]
      cases hsk : seen.getLsbD k with
      | true =>
        simp only [Bool.not_true, Bool.false_eq_true, if_false]
        apply ih next seen out _ (by omega)
        refine ⟨sub', below', ?_, inv.seen_sub, inv.closed, inv.out_iff, inv.nodup⟩
        intro r har hnr
        by_cases hrb : bits.getLsbD r = true
        · have hrk : r = k := by
            apply Classical.byContradiction; intro hne
            rw [hnext] at hnr; simp [hrb, hne] at hnr
          rw [hrk]; exact hsk
        · exact inv.removed r har (by simpa using hrb)
      | false =>
        simp only [Bool.not_false, if_true]
        have hbit_sub : Sub bit bits := fun i hi => by
          rw [hbit] at hi; simp only [decide_eq_true_eq] at hi; rw [hi]; exact hkb
        obtain ⟨g, hg, hgm⟩ := flood_reach n hn bits bit (Sub.trans inv.sub hall) hbit_sub
        simp only [hg]
        -- the flood inside the remaining bits is the component of `k` in `all`
        have hcomp : ∀ x, g.getLsbD x = true ↔ Conn n (fun y => all.getLsbD y = true) k x := by
          intro x
          rw [hgm x]
          constructor
          · rintro ⟨i, hi, hc⟩
            rw [hbit] at hi; simp only [decide_eq_true_eq] at hi; subst hi
            exact hc.mono (fun y hy => inv.sub y hy)
          · intro hc
            refine ⟨k, by rw [hbit]; simp, ?_⟩
            have hS : ∀ j x, (seen.getLsbD j = false ∧ all.getLsbD j = true) → j < n * n →
                x ∈ neighbours n j → all.getLsbD x = true →
                (seen.getLsbD x = false ∧ all.getLsbD x = true) := by
              intro j x ⟨hj, haj⟩ hjlt hx hax
              refine ⟨?_, hax⟩
              cases hsx : seen.getLsbD x with
              | false => rfl
              | true =>
                have hxlt := neighbours_lt hjlt hx
                have : Conn n (fun y => all.getLsbD y = true) x j :=
                  Conn.step (Conn.refl hxlt hax) (neighbours_symm hjlt hx) haj
                rw [inv.closed x j hsx this] at hj; cases hj
            have hr := Conn.restrict (fun j => seen.getLsbD j = false ∧ all.getLsbD j = true) hS
              ⟨hsk, inv.sub k hkb⟩ hc
            refine hr.mono (fun y hy => ?_)
            cases hby : bits.getLsbD y with
            | true => rfl
            | false => have := inv.removed y hy.1 hby; rw [hy.2.1] at this; cases this
        have hgk : g.getLsbD k = true :=
          (hcomp k).mpr (Conn.refl (lt_of_mask hn hall (inv.sub k hkb)) (inv.sub k hkb))
        have hgcomp : IsComp n all g := ⟨k, inv.sub k hkb, hcomp⟩
        have hg_sub : Sub g all := hgcomp.sub
        have hbig : (g != bit) = true ↔ Big g := by
          constructor
          · intro hne
            have hne' : g ≠ bit := by simpa using hne
            have : ∃ j, j ≠ k ∧ g.getLsbD j = true := by
              apply Classical.byContradiction; intro hno
              apply hne'
              apply W_ext; intro i
              rw [hbit]; simp only [decide_eq_true_eq]
              constructor
              · intro hi
                apply Classical.byContradiction; intro hik
                exact hno ⟨i, hik, hi⟩
              · intro hi; rw [hi]; exact hgk
            obtain ⟨j, hjk, hj⟩ := this
            exact ⟨j, k, hjk, hj, hgk⟩
          · rintro ⟨i, j, hij, hi, hj⟩
            have hne' : g ≠ bit := by
              intro e
              rw [e, hbit] at hi hj
              simp only [decide_eq_true_eq] at hi hj
              omega
            simpa using hne'
        apply ih next (seen ||| g) (if (g != bit) = true then out ++ [g] else out) _ (by omega)
        have hmem_or : ∀ x, (seen ||| g).getLsbD x = true ↔ seen.getLsbD x = true ∨ g.getLsbD x = true := by
          intro x; simp only [BitVec.getLsbD_or, Bool.or_eq_true]
        refine ⟨sub', below', ?_, ?_, ?_, ?_, ?_⟩
        · intro r har hnr
          rw [hmem_or]
          by_cases hrb : bits.getLsbD r = true
          · have hrk : r = k := by
              apply Classical.byContradiction; intro hne
              rw [hnext] at hnr; simp [hrb, hne] at hnr
            rw [hrk]; exact Or.inr hgk
          · exact Or.inl (inv.removed r har (by simpa using hrb))
        · intro x hx
          rcases (hmem_or x).mp hx with h | h
          · exact inv.seen_sub x h
          · exact hg_sub x h
        · intro i j hi hc
          rw [hmem_or] at hi ⊢
          rcases hi with h | h
          · exact Or.inl (inv.closed i j h hc)
          · exact Or.inr ((hcomp j).mpr (((hcomp i).mp h).trans hc))
        · intro h
          have hold : h ∈ out ↔ IsComp n all h ∧ Big h ∧ Sub h seen := inv.out_iff h
          have key : (h ∈ out ∨ (Big g ∧ h = g)) ↔ IsComp n all h ∧ Big h ∧ Sub h (seen ||| g) := by
            constructor
            · rintro (hin | ⟨hbg, rfl⟩)
              · obtain ⟨a, b, c⟩ := hold.mp hin
                exact ⟨a, b, fun x hx => (hmem_or x).mpr (Or.inl (c x hx))⟩
              · exact ⟨hgcomp, hbg, fun x hx => (hmem_or x).mpr (Or.inr hx)⟩
            · rintro ⟨hc, hbg, hsub⟩
              obtain ⟨i, hai, hi⟩ := hc
              have hii : h.getLsbD i = true := (hi i).mpr (Conn.refl (lt_of_mask hn hall hai) hai)
              rcases (hmem_or i).mp (hsub i hii) with hs | hgi
              · left
                exact hold.mpr ⟨⟨i, hai, hi⟩, hbg, fun x hx => inv.closed i x hs ((hi x).mp hx)⟩
              · right
                have : h = g := IsComp.eq_of_common ⟨i, hai, hi⟩ hgcomp hii hgi
                exact ⟨this ▸ hbg, this⟩
          rw [← key]
          by_cases hb2 : (g != bit) = true
          · simp only [hb2, if_true, List.mem_append, List.mem_singleton]
            have := hbig.mp hb2
            constructor
            · rintro (h1 | h1)
              · exact Or.inl h1
              · exact Or.inr ⟨this, h1⟩
            · rintro (h1 | h1)
              · exact Or.inl h1
              · exact Or.inr h1.2
          · simp only [hb2]
            have hnb : ¬ Big g := fun hB => hb2 (hbig.mpr hB)
            constructor
            · exact fun h1 => Or.inl h1
            · rintro (h1 | h1)
              · exact h1
              · exact absurd h1.1 hnb
        · by_cases hb2 : (g != bit) = true
          · simp only [hb2, if_true]
            rw [List.nodup_append]
            refine ⟨inv.nodup, (by simp), ?_⟩
            intro a ha b hb
            rw [List.mem_singleton] at hb; subst hb
            intro e; subst e
            have := ((inv.out_iff a).mp ha).2.2 k hgk
            rw [hsk] at this; cases this
          · simp only [hb2]; exact inv.nodup

/-- **`FloodGroups`** on a board of size 3..8 returns (never running out of fuel) a duplicate-free list
containing exactly the connected components of `bits` that have at least two squares.
Distinct components are disjoint bitboards (`IsComp.eq_of_common`), so "each once" is `Nodup`. -/
theorem groups_spec (n : Nat) (hn : SizeOK n) (bits : W) (hb : Sub bits (Gen.precompute n).Mask) :
    ∃ gs, floodGroups (Gen.precompute n) bits = some gs ∧ gs.Nodup ∧
      ∀ g, g ∈ gs ↔ IsComp n bits g ∧ Big g := by
  unfold floodGroups
  apply floodGroupsFuel_spec n hn bits hb 65 bits 0#64 [] _ (by have := cnt_le bits; omega)
  refine ⟨Sub.refl _, ?_, ?_, ?_, ?_, ?_, List.nodup_nil⟩
  · intro r b h1 h2; rw [h1] at h2; cases h2
  · intro r h1 h2; rw [h1] at h2; cases h2
  · intro i hi; simp at hi
  · intro i j hi; simp at hi
  · intro g
    constructor
    · intro h; cases h
    · rintro ⟨⟨i, hai, hi⟩, _, hsub⟩
      have := hsub i ((hi i).mpr (Conn.refl (lt_of_mask hn hb hai) hai))
      simp at this

/-! ### termination for arbitrary constants -/

/-- `FloodGroups` terminates within the model's fuel for **any** constants and any bits
(each round clears the lowest set bit; each `Flood` call has `seed ⊆ within`). -/
theorem floodGroupsFuel_isSome (c : Consts) (all : W) :
    ∀ (fuel : Nat) (bits seen : W) (out : List W), cnt bits ≤ fuel →
      (floodGroupsFuel c all fuel bits seen out).isSome = true := by
  intro fuel
  induction fuel with
  | zero =>
    intro bits seen out hc
    have hb : bits = 0#64 := cnt_eq_zero (by omega)
    subst hb; simp [floodGroupsFuel]
  | succ f ih =>
    intro bits seen out hc
    unfold floodGroupsFuel
    by_cases hb : bits = 0#64
    · subst hb; simp
    · have hb' : (bits == 0#64) = false := by simpa using hb
      simp only [hb']
      obtain ⟨k, hk64, hkb, hklow, hnext, hbit⟩ := exists_lowest bits hb
      generalize hnx : bits &&& (bits - 1#64) = next at *
      generalize hbt : bits &&& ~~~next = bit at *
      have hnext_sub : Sub next bits := fun i hi => by
        rw [hnext] at hi; simp only [Bool.and_eq_true] at hi; exact hi.1
      have hnk : next.getLsbD k = false := by rw [hnext]; simp
      have hcn : cnt next < cnt bits :=
        cnt_lt hnext_sub (fun e => by rw [e] at hnk; rw [hnk] at hkb; cases hkb)
      have hbit_sub : Sub bit bits := fun i hi => by
        rw [hbit] at hi; simp only [decide_eq_true_eq] at hi; rw [hi]; exact hkb
      by_cases hcond : (seen &&& bit == 0#64) = true
      · simp only [hcond, if_true]
        have hf := flood_isSome c bits bit hbit_sub
        cases hfl : flood c bits bit with
        | none => rw [hfl] at hf; cases hf
        | some g => exact ih next _ _ (by omega)
      · simp only [hcond]
        exact ih next _ _ (by omega)

theorem floodGroups_isSome (c : Consts) (bits : W) : (floodGroups c bits).isSome = true :=
  floodGroupsFuel_isSome c bits 65 bits 0#64 [] (by have := cnt_le bits; omega)

/-- `analyze()` never exhausts the model's fuel — for every position whatsoever -/
theorem analyze_ne_none (p : Pos) : p.analyze ≠ none := by
  unfold Pos.analyze
  have h1 := floodGroups_isSome p.c (p.white &&& ~~~p.standing)
  have h2 := floodGroups_isSome p.c (p.black &&& ~~~p.standing)
  simp only
  cases hw : floodGroups p.c (p.white &&& ~~~p.standing) with
  | none => rw [hw] at h1; cases h1
  | some wg =>
    cases hb : floodGroups p.c (p.black &&& ~~~p.standing) with
    | none => rw [hb] at h2; cases h2
    | some bg => intro h; cases h

end Roads
