import TakVerif.Spec.Shapes

/-! # The `slides` table (C03, part 1)

* `Spec.compositions h` is exactly the set of non-empty lists of positive numbers with sum ≤ h, without repetition.
* `Slides.elems` (the iterator of `tak/slide.go`) and `Spec.encodeDrops` (`MkSlides`) are inverse to each other.
-/
namespace Tak.Proofs
open Tak Spec

/-! ## compositions -/

theorem compositions_zero : compositions 0 = [] := by rw [compositions]

theorem compositions_succ (h : Nat) :
    compositions (h+1) = (List.range (h+1)).flatMap fun i0 =>
      [i0+1] :: (compositions (h - i0)).map (fun l => (i0+1) :: l) := by
  rw [compositions]

theorem sum_pos_of_ne_nil : ∀ (l : List Nat), l ≠ [] → (∀ d ∈ l, 1 ≤ d) → 1 ≤ l.sum
  | [], h, _ => absurd rfl h
  | d :: ds, _, hp => by
    have := hp d (by simp)
    simp only [List.sum_cons]; omega

/-- membership in `compositions h`: non-empty, every part positive, sum at most `h` -/
theorem mem_compositions (h : Nat) : ∀ (l : List Nat),
    l ∈ compositions h ↔ l ≠ [] ∧ (∀ d ∈ l, 1 ≤ d) ∧ l.sum ≤ h := by
  induction h using Nat.strongRecOn with
  | _ h ih =>
    intro l
    cases h with
    | zero =>
      rw [compositions_zero]
      constructor
      · intro hm; cases hm
      · rintro ⟨hne, hp, hs⟩
        have := sum_pos_of_ne_nil l hne hp
        omega
    | succ h =>
      rw [compositions_succ, List.mem_flatMap]
      constructor
      · rintro ⟨i0, hi, hm⟩
        rw [List.mem_range] at hi
        rw [List.mem_cons] at hm
        rcases hm with rfl | hm
        · refine ⟨by simp, ?_, ?_⟩
          · intro d hd; simp at hd; omega
          · simp; omega
        · rw [List.mem_map] at hm
          obtain ⟨l', hl', rfl⟩ := hm
          have := (ih (h - i0) (by omega) l').1 hl'
          obtain ⟨_, hp, hs⟩ := this
          refine ⟨by simp, ?_, ?_⟩
          · intro d hd
            rw [List.mem_cons] at hd
            rcases hd with rfl | hd
            · omega
            · exact hp d hd
          · simp only [List.sum_cons]; omega
      · rintro ⟨hne, hp, hs⟩
        cases l with
        | nil => exact absurd rfl hne
        | cons d l' =>
          have hd := hp d (by simp)
          simp only [List.sum_cons] at hs
          refine ⟨d - 1, by rw [List.mem_range]; omega, ?_⟩
          have hd1 : d - 1 + 1 = d := by omega
          rw [hd1, List.mem_cons]
          by_cases hl' : l' = []
          · left; rw [hl']
          · right
            rw [List.mem_map]
            refine ⟨l', ?_, rfl⟩
            apply (ih (h - (d-1)) (by omega) l').2
            refine ⟨hl', fun e he => hp e (by simp [he]), by omega⟩

theorem nil_not_mem_compositions (h : Nat) : [] ∉ compositions h := by
  intro hm
  exact ((mem_compositions h []).1 hm).1 rfl

/-- `compositions h` lists no drop list twice -/
theorem compositions_nodup (h : Nat) : (compositions h).Nodup := by
  induction h using Nat.strongRecOn with
  | _ h ih =>
    cases h with
    | zero => rw [compositions_zero]; exact List.nodup_nil
    | succ h =>
      rw [compositions_succ, List.Nodup, List.pairwise_flatMap]
      constructor
      · intro i0 hi
        rw [List.mem_range] at hi
        rw [List.pairwise_cons]
        constructor
        · intro l hl
          rw [List.mem_map] at hl
          obtain ⟨l', hl', rfl⟩ := hl
          intro heq
          injection heq with _ h2
          exact nil_not_mem_compositions _ (h2 ▸ hl')
        · have := ih (h - i0) (by omega)
          rw [List.Nodup] at this
          rw [List.pairwise_map]
          exact this.imp (fun hne heq => hne (by injection heq))
      · have := @List.pairwise_lt_range (h+1)
        refine this.imp ?_
        intro a b hab x hx y hy heq
        subst heq
        have hx' : x.head? = some (a+1) := by
          rw [List.mem_cons] at hx
          rcases hx with rfl | hx
          · rfl
          · rw [List.mem_map] at hx; obtain ⟨_, _, rfl⟩ := hx; rfl
        have hy' : x.head? = some (b+1) := by
          rw [List.mem_cons] at hy
          rcases hy with rfl | hy
          · rfl
          · rw [List.mem_map] at hy; obtain ⟨_, _, rfl⟩ := hy; rfl
        rw [hx'] at hy'
        injection hy' with h3
        omega

/-! ## nibble words: `Slides.Prepend`, the iterator, `MkSlides` -/

theorem prepend_toNat (s : BitVec 32) (i : Nat) (hi : i ≤ 15) :
    (Slides.prepend s i).toNat = (s.toNat % 2^28) * 16 + i := by
  unfold Slides.prepend
  rw [BitVec.toNat_or, BitVec.toNat_shiftLeft, BitVec.toNat_ofNat, Nat.shiftLeft_eq]
  have h1 : s.toNat * 2^4 % 2^32 = (s.toNat % 2^28) <<< 4 := by
    rw [Nat.shiftLeft_eq]; omega
  have h2 : i % 2^32 = i := by omega
  rw [h1, h2, ← Nat.shiftLeft_add_eq_or_of_lt (by omega : i < 2^4), Nat.shiftLeft_eq]

theorem prepend_low (s : BitVec 32) (i : Nat) (hi : i ≤ 15) :
    (Slides.prepend s i &&& 0xf#32).toNat = i := by
  rw [BitVec.toNat_and, prepend_toNat s i hi]
  have : (0xf#32).toNat = 2^4 - 1 := by decide
  rw [this, Nat.and_two_pow_sub_one_eq_mod]
  omega

theorem prepend_shift (s : BitVec 32) (i : Nat) (hi : i ≤ 15) (hs : s.toNat < 2^28) :
    Slides.prepend s i >>> 4 = s := by
  apply BitVec.eq_of_toNat_eq
  rw [BitVec.toNat_ushiftRight, prepend_toNat s i hi, Nat.shiftRight_eq_div_pow]
  omega

theorem prepend_ne_zero (s : BitVec 32) (i : Nat) (h1 : 1 ≤ i) (hi : i ≤ 15) :
    Slides.prepend s i ≠ 0#32 := by
  intro h
  have := congrArg BitVec.toNat h
  rw [prepend_toNat s i hi] at this
  simp at this
  omega

theorem low_nibble_toNat (s : BitVec 32) : (s &&& 0xf#32).toNat = s.toNat % 16 := by
  rw [BitVec.toNat_and]
  have : (0xf#32).toNat = 2^4 - 1 := by decide
  rw [this, Nat.and_two_pow_sub_one_eq_mod]

theorem shift4_toNat (s : BitVec 32) : (s >>> 4).toNat = s.toNat / 16 := by
  rw [BitVec.toNat_ushiftRight, Nat.shiftRight_eq_div_pow]

theorem slideElems_zero (n : Nat) : slideElems n 0#32 = [] := by
  cases n <;> simp [slideElems]

theorem slideElems_succ_of_ne (n : Nat) (s : BitVec 32) (h : s ≠ 0#32) :
    slideElems (n+1) s = (s &&& 0xf#32).toNat :: slideElems n (s >>> 4) := by
  simp [slideElems, h]

/-- more fuel than nibbles changes nothing -/
theorem slideElems_fuel (n k : Nat) : ∀ (s : BitVec 32), s.toNat < 2^(4*n) →
    slideElems (n+k) s = slideElems n s := by
  induction n with
  | zero =>
    intro s hs
    have : s = 0#32 := by apply BitVec.eq_of_toNat_eq; simp at hs ⊢; omega
    rw [this, slideElems_zero, slideElems_zero]
  | succ n ih =>
    intro s hs
    by_cases h0 : s = 0#32
    · rw [h0, slideElems_zero, slideElems_zero]
    · rw [Nat.add_right_comm, slideElems_succ_of_ne _ _ h0, slideElems_succ_of_ne _ _ h0, ih]
      rw [shift4_toNat]
      have : 2^(4*(n+1)) = 2^(4*n) * 16 := by rw [Nat.mul_add, Nat.pow_add]
      omega

/-- `Slides.Prepend` puts one more drop in front of what the iterator yields -/
theorem elems_prepend (s : BitVec 32) (i : Nat) (h1 : 1 ≤ i) (hi : i ≤ 15) (hs : s.toNat < 2^28) :
    Slides.elems (Slides.prepend s i) = i :: Slides.elems s := by
  unfold Slides.elems
  rw [slideElems_succ_of_ne 7 _ (prepend_ne_zero s i h1 hi), prepend_low s i hi, prepend_shift s i hi hs]
  rw [show (8:Nat) = 7 + 1 from rfl, slideElems_fuel 7 1 s (by simpa using hs)]

/-- a word is rebuilt from what its iterator yields: `MkSlides(elems s) = s`, for every 32-bit word -/
theorem encode_slideElems (n : Nat) : ∀ (s : BitVec 32), s.toNat < 2^(4*n) →
    encodeDrops (slideElems n s) = s := by
  induction n with
  | zero =>
    intro s hs
    have : s = 0#32 := by apply BitVec.eq_of_toNat_eq; simp at hs ⊢; omega
    rw [this]; rfl
  | succ n ih =>
    intro s hs
    by_cases h0 : s = 0#32
    · rw [h0, slideElems_zero]; rfl
    · rw [slideElems_succ_of_ne _ _ h0]
      show Slides.prepend (encodeDrops (slideElems n (s >>> 4))) (s &&& 0xf#32).toNat = s
      have h2 : 2^(4*(n+1)) = 2^(4*n) * 16 := by rw [Nat.mul_add, Nat.pow_add]
      rw [ih]
      · apply BitVec.eq_of_toNat_eq
        have hl := low_nibble_toNat s
        rw [prepend_toNat _ _ (by omega), hl, shift4_toNat]
        have := s.isLt
        omega
      · rw [shift4_toNat]; omega

theorem encode_elems (s : BitVec 32) : encodeDrops (Slides.elems s) = s :=
  encode_slideElems 8 s (by have := s.isLt; simpa using this)

/-- size of an encoded drop list -/
theorem encode_lt : ∀ (l : List Nat), l.length ≤ 8 → (∀ d ∈ l, d ≤ 15) →
    (encodeDrops l).toNat < 2^(4 * l.length)
  | [], _, _ => by simp [encodeDrops]
  | d :: ds, hl, hd => by
    have ih := encode_lt ds (by simp at hl; omega) (fun e he => hd e (by simp [he]))
    show (Slides.prepend (encodeDrops ds) d).toNat < _
    rw [prepend_toNat _ _ (hd d (by simp))]
    have := hd d (by simp)
    have h2 : 2^(4*((d::ds).length)) = 2^(4*ds.length) * 16 := by
      rw [List.length_cons, Nat.mul_add, Nat.pow_add]
    rw [h2]
    have h3 : (encodeDrops ds).toNat % 2^28 ≤ (encodeDrops ds).toNat := Nat.mod_le _ _
    omega

/-- the iterator reads back what `MkSlides` packed (at most 8 drops, each 1..15) -/
theorem elems_encode : ∀ (l : List Nat), l.length ≤ 8 → (∀ d ∈ l, 1 ≤ d ∧ d ≤ 15) →
    Slides.elems (encodeDrops l) = l
  | [], _, _ => by decide
  | d :: ds, hl, hd => by
    have hds : ds.length ≤ 7 := by simp at hl; omega
    have ih := elems_encode ds (by omega) (fun e he => hd e (by simp [he]))
    have hlt := encode_lt ds (by omega) (fun e he => (hd e (by simp [he])).2)
    have hd0 := hd d (by simp)
    show Slides.elems (Slides.prepend (encodeDrops ds) d) = _
    rw [elems_prepend _ _ hd0.1 hd0.2, ih]
    calc (encodeDrops ds).toNat < 2^(4*ds.length) := hlt
      _ ≤ 2^28 := Nat.pow_le_pow_right (by omega) (by omega)

/-! ## the table built by `init` is the list of compositions, row by row -/

theorem foldl_append_eq {α β : Type} (f : α → List β) (l : List α) (init : List β) :
    l.foldl (fun out a => out ++ f a) init = init ++ l.flatMap f := by
  induction l generalizing init with
  | nil => simp
  | cons a l ih => simp [List.foldl_cons, ih, List.flatMap_cons, List.append_assoc]

theorem flatMap_congr' {α β : Type} {l : List α} {f g : α → List β} (h : ∀ a ∈ l, f a = g a) :
    l.flatMap f = l.flatMap g := by
  induction l with
  | nil => rfl
  | cons a l ih =>
    rw [List.flatMap_cons, List.flatMap_cons, h a (by simp), ih (fun b hb => h b (by simp [hb]))]

theorem calcSlidesRow_eq (tbl : Array (List (BitVec 32))) (n : Nat) :
    calcSlidesRow tbl n = (List.range n).flatMap (fun i0 =>
      Slides.prepend 0#32 (i0+1) :: (tbl.getD (n - (i0+1)) []).map (fun sub => Slides.prepend sub (i0+1))) := by
  unfold calcSlidesRow
  have := foldl_append_eq (fun i0 =>
      Slides.prepend 0#32 (i0+1) :: (tbl.getD (n - (i0+1)) []).map (fun sub => Slides.prepend sub (i0+1))) (List.range n) []
  simp only [List.nil_append] at this
  rw [← this]
  congr 1
  funext out i0
  simp [List.append_assoc]

def tblStep (tbl : Array (List (BitVec 32))) (s0 : Nat) : Array (List (BitVec 32)) :=
  tbl.set! (s0+1) (calcSlidesRow tbl (s0+1))

def tblUpTo (k : Nat) : Array (List (BitVec 32)) := (List.range k).foldl tblStep (Array.replicate 10 [])

theorem slidesTable_eq : slidesTable = tblUpTo 8 := rfl

theorem tblUpTo_succ (k : Nat) : tblUpTo (k+1) = tblStep (tblUpTo k) k := by
  unfold tblUpTo
  rw [List.range_succ, List.foldl_append]; rfl

theorem tblUpTo_inv (k : Nat) (hk : k ≤ 8) :
    (tblUpTo k).size = 10 ∧ ∀ j, j ≤ k → (tblUpTo k).getD j [] = (compositions j).map encodeDrops := by
  induction k with
  | zero =>
    refine ⟨by simp [tblUpTo], ?_⟩
    intro j hj
    have : j = 0 := by omega
    subst this
    simp [tblUpTo, compositions_zero]
  | succ k ih =>
    obtain ⟨hsz, hrows⟩ := ih (by omega)
    rw [tblUpTo_succ]
    refine ⟨by simp [tblStep, hsz], ?_⟩
    intro j hj
    by_cases hjk : j = k+1
    · subst hjk
      have : (tblStep (tblUpTo k) k).getD (k+1) [] = calcSlidesRow (tblUpTo k) (k+1) := by
        simp [tblStep, Array.getD, hsz]; omega
      rw [this, calcSlidesRow_eq, compositions_succ, List.map_flatMap]
      apply flatMap_congr'
      intro i0 hi0
      rw [List.map_cons, List.map_map, Nat.add_sub_add_right, hrows (k - i0) (by omega), List.map_map]
      rfl
    · have : (tblStep (tblUpTo k) k).getD j [] = (tblUpTo k).getD j [] := by
        have hj10 : j < 10 := by omega
        simp [tblStep, Array.getD, hsz, hj10, Array.getElem_setIfInBounds]
        omega
      rw [this]; exact hrows j (by omega)

/-! ## the table characterised -/

theorem slidesTable_row (h : Nat) (hh : h ≤ 8) :
    slidesTable.getD h [] = (compositions h).map encodeDrops := by
  rw [slidesTable_eq]; exact (tblUpTo_inv 8 (by omega)).2 h hh

theorem le_sum_of_mem : ∀ (l : List Nat) (d : Nat), d ∈ l → d ≤ l.sum
  | [], _, h => by cases h
  | e :: es, d, h => by
    rw [List.mem_cons] at h
    simp only [List.sum_cons]
    rcases h with rfl | h
    · omega
    · have := le_sum_of_mem es d h; omega

theorem length_le_sum : ∀ (l : List Nat), (∀ d ∈ l, 1 ≤ d) → l.length ≤ l.sum
  | [], _ => by simp
  | e :: es, h => by
    have := length_le_sum es (fun d hd => h d (by simp [hd]))
    have := h e (by simp)
    simp only [List.sum_cons, List.length_cons]; omega

/-- drop lists of compositions of at most 8 are read back exactly -/
theorem elems_encode_of_mem (h : Nat) (hh : h ≤ 8) (l : List Nat) (hl : l ∈ compositions h) :
    Slides.elems (encodeDrops l) = l := by
  obtain ⟨_, hp, hs⟩ := (mem_compositions h l).1 hl
  have := length_le_sum l hp
  apply elems_encode l (by omega)
  intro d hd
  have := le_sum_of_mem l d hd
  exact ⟨hp d hd, by omega⟩

theorem slides_table (h : Nat) (hh : h ≤ 8) (s : BitVec 32) :
    s ∈ slidesTable.getD h [] ↔
      (Slides.elems s ≠ [] ∧ (∀ d ∈ Slides.elems s, 1 ≤ d ∧ d ≤ 8) ∧ (Slides.elems s).sum ≤ h ∧
        s = encodeDrops (Slides.elems s)) := by
  rw [slidesTable_row h hh, List.mem_map]
  constructor
  · rintro ⟨l, hl, rfl⟩
    rw [elems_encode_of_mem h hh l hl]
    obtain ⟨hne, hp, hs⟩ := (mem_compositions h l).1 hl
    refine ⟨hne, ?_, hs, rfl⟩
    intro d hd
    have := le_sum_of_mem l d hd
    exact ⟨hp d hd, by omega⟩
  · rintro ⟨hne, hp, hs, henc⟩
    refine ⟨Slides.elems s, ?_, henc.symm⟩
    exact (mem_compositions h _).2 ⟨hne, fun d hd => (hp d hd).1, hs⟩

theorem slides_nodup (h : Nat) (hh : h ≤ 8) : (slidesTable.getD h []).Nodup := by
  rw [slidesTable_row h hh, List.Nodup, List.pairwise_map]
  have := compositions_nodup h
  rw [List.Nodup] at this
  refine this.imp_of_mem ?_
  intro a b ha hb hne heq
  apply hne
  rw [← elems_encode_of_mem h hh a ha, ← elems_encode_of_mem h hh b hb, heq]

end Tak.Proofs
