import TakVerif.Generated.FuncsTak

/-! Lemmas about the second-round conventions of the translator (`gen/slices.go`). -/
namespace Gen

/-- `shl` is `<<<` (the case split only keeps the definition executable for huge counts) -/
theorem shl_eq {w : Nat} (x : BitVec w) (n : Nat) : shl x n = x <<< n := by
  unfold shl
  split
  · rfl
  · rename_i h
    apply BitVec.eq_of_getLsbD_eq
    intro i hi
    simp only [BitVec.getLsbD_shiftLeft, BitVec.getLsbD_zero]
    have : i < n := by omega
    simp [this]

/-- `shr` is `>>>` -/
theorem shr_eq {w : Nat} (x : BitVec w) (n : Nat) : shr x n = x >>> n := by
  unfold shr
  split
  · rfl
  · rename_i h
    apply BitVec.eq_of_getLsbD_eq
    intro i hi
    simp only [BitVec.getLsbD_ushiftRight, BitVec.getLsbD_zero]
    have : w ≤ n + i := by omega
    exact (BitVec.getLsbD_of_ge x (n + i) this).symm

/-- Go's bit test `w & (1 << i) != 0` -/
theorem and_bit_ne_zero (w : BitVec 64) (i : Nat) : ((w &&& (1#64 <<< i)) != 0#64) = w.getLsbD i := by
  cases h : w.getLsbD i
  · have : w &&& (1#64 <<< i) = 0#64 := by
      apply BitVec.eq_of_getLsbD_eq; intro k hk
      simp only [BitVec.getLsbD_and, BitVec.getLsbD_shiftLeft, BitVec.getLsbD_one, BitVec.getLsbD_zero]
      by_cases hki : k = i
      · subst hki; simp [h]
      · by_cases hlt : k < i
        · simp [hlt]
        · have : k - i ≠ 0 := by omega
          simp [this]
    simp [this]
  · have hi : i < 64 := by
      by_cases hi : i < 64
      · exact hi
      · rw [BitVec.getLsbD_of_ge w i (by omega)] at h; cases h
    have : (w &&& (1#64 <<< i)).getLsbD i = true := by
      simp [BitVec.getLsbD_and, BitVec.getLsbD_shiftLeft, h, hi]
    have hne : w &&& (1#64 <<< i) ≠ 0#64 := by
      intro e; rw [e] at this; simp at this
    simpa using hne

/-- Go's bit test against the translator's `shl` -/
theorem and_shl_ne_zero (w : BitVec 64) (i : Nat) : ((w &&& (shl 1#64 i)) != 0#64) = w.getLsbD i := by
  rw [shl_eq]; exact and_bit_ne_zero w i

theorem and_shl_eq_zero (w : BitVec 64) (i : Nat) : ((w &&& (shl 1#64 i)) == 0#64) = !w.getLsbD i := by
  rw [← and_shl_ne_zero]; simp [bne]

/-! a run of element assignments `a[j] = v j` for `j = s .. s+n-1` -/
theorem foldl_set_size {α} (v : Nat → α) : ∀ (n s : Nat) (a : Array α),
    ((List.range' s n).foldl (fun a j => a.setIfInBounds j (v j)) a).size = a.size := by
  intro n; induction n with
  | zero => intro s a; simp
  | succ n ih => intro s a; simp [List.range'_succ, ih]

theorem foldl_set_get {α} (v : Nat → α) : ∀ (n s : Nat) (a : Array α) (k : Nat),
    ((List.range' s n).foldl (fun a j => a.setIfInBounds j (v j)) a)[k]? =
      if s ≤ k ∧ k < s + n ∧ k < a.size then some (v k) else a[k]? := by
  intro n; induction n with
  | zero => intro s a k; simp; omega
  | succ n ih =>
    intro s a k
    simp only [List.range'_succ, List.foldl_cons, ih, Array.size_setIfInBounds, Array.getElem?_setIfInBounds]
    by_cases h1 : s = k
    · subst h1
      have e1 : ¬ (s + 1 ≤ s ∧ s < s + 1 + n ∧ s < a.size) := by omega
      rw [if_neg e1]
      by_cases h2 : s < a.size
      · have e2 : (s ≤ s ∧ s < s + (n + 1) ∧ s < a.size) := by omega
        rw [if_pos e2]; simp [h2]
      · have e2 : ¬ (s ≤ s ∧ s < s + (n + 1) ∧ s < a.size) := by omega
        rw [if_neg e2]; simp [h2]
    · by_cases h3 : (s + 1 ≤ k ∧ k < s + 1 + n ∧ k < a.size)
      · have e2 : (s ≤ k ∧ k < s + (n + 1) ∧ k < a.size) := by omega
        rw [if_pos h3, if_pos e2]
      · have e2 : ¬ (s ≤ k ∧ k < s + (n + 1) ∧ k < a.size) := by omega
        rw [if_neg h3, if_neg e2]; simp [h1]

end Gen
