import TakVerif.Generated.FuncsTak

/-! Lemmas about the second-round conventions of the translator (`gen/slices.go`). -/
namespace Gen

/-- `shl` is `<<<` (the case split only keeps the definition executable for huge counts) -/
theorem shl_eq {w : Nat} (x : BitVec w) (n : Nat) : shl x n = x <<< n := by
  unfold shl
  split
  · rfl
  · rename_i h
    apply BitVec.eq_of_getLsbD_eq
    intro i hi
    simp only [BitVec.getLsbD_shiftLeft, BitVec.getLsbD_zero]
    have : i < n := by omega
    simp [this]

/-- `shr` is `>>>` -/
theorem shr_eq {w : Nat} (x : BitVec w) (n : Nat) : shr x n = x >>> n := by
  unfold shr
  split
  · rfl
  · rename_i h
    apply BitVec.eq_of_getLsbD_eq
    intro i hi
    simp only [BitVec.getLsbD_ushiftRight, BitVec.getLsbD_zero]
    have : w ≤ n + i := by omega
    exact (BitVec.getLsbD_of_ge x (n + i) this).symm

end Gen
