import TakVerif.Proofs.MCTSPolicyGeom
import TakVerif.Proofs.ThreatMain
import TakVerif.Proofs.ApplyTotal

/-! Helper lemmas for `Props/C04_policy.lean`: a square reported by `findPlaceWins` for the mover's own road squares
and analysed groups, once taken by a flat or the capstone of the mover, gives the mover a road (`C19.win_of_spans`). -/
set_option linter.unusedVariables false
set_option linter.unusedSimpArgs false
namespace Proofs.MCTSPolicy
open Tak Tak.MCTS Roads Spec C19

/-- what `placeWinMove` feeds to `findPlaceWins`, named by colour -/
theorem placeWinsMask_eq (c : Consts) (p : Pos) (col : Color) (hcol : p.toMove = col) :
    placeWinsMask c p = findPlaceWins c (roadBits p col) (c.Mask &&& ~~~(p.white ||| p.black)) (groupsOf p col) := by
  unfold placeWinsMask
  rcases C19.toMove_cases p with h | h <;> rw [h] at hcol <;> subst hcol <;> simp [h, roadBits, groupsOf]

/-- a flat, and the capstone, of the mover on an empty square of the board: accepted whenever that piece is in reserve -/
theorem place_kind (basis : Array W) (p : Pos) (wf : WFBoard p) (hply : 2 ≤ p.move) (col : Color)
    (hcol : p.toMove = col) (s : Nat) (hs : s < p.cfg.size * p.cfg.size)
    (hemp : (p.white ||| p.black).getLsbD s = false) :
    (stonesOf p col ≠ 0#8 → ∃ q,
      p.apply basis ⟨((s % p.cfg.size : Nat) : Int), ((s / p.cfg.size : Nat) : Int), Facts.mtPlaceFlat, 0⟩ = .ok q ∧
      After p q 64 s (own p col) (own q col) (own p col.flip) (own q col.flip)) ∧
    (capsOf p col ≠ 0#8 → ∃ q,
      p.apply basis ⟨((s % p.cfg.size : Nat) : Int), ((s / p.cfg.size : Nat) : Int), Facts.mtPlaceCapstone, 0⟩ = .ok q ∧
      After p q 64 s (own p col) (own q col) (own p col.flip) (own q col.flip)) := by
  have hn : 0 < p.cfg.size := by have := wf.size_ok.1; omega
  have h64 := sq_le _ wf.size_ok
  have hdis := disjoint_bits p wf
  obtain ⟨hx, hy, e⟩ := coords hn hs
  rw [← e] at hemp
  rcases C19.toMove_cases p with hw | hb
  · rw [hw] at hcol; subst hcol
    constructor
    · intro h
      obtain ⟨q, h1, h2⟩ := apply_place_flat_w basis p _ _ hx hy h64 hply hw hdis hemp h
      rw [e] at h2; exact ⟨q, h1, h2⟩
    · intro h
      obtain ⟨q, h1, h2⟩ := apply_place_cap_w basis p _ _ hx hy h64 hply hw hdis hemp h
      rw [e] at h2; exact ⟨q, h1, h2⟩
  · rw [hb] at hcol; subst hcol
    constructor
    · intro h
      obtain ⟨q, h1, h2⟩ := apply_place_flat_b basis p _ _ hx hy h64 hply hb hdis hemp h
      rw [e] at h2; exact ⟨q, h1, h2⟩
    · intro h
      obtain ⟨q, h1, h2⟩ := apply_place_cap_b basis p _ _ hx hy h64 hply hb hdis hemp h
      rw [e] at h2; exact ⟨q, h1, h2⟩

/-- with no flat in reserve the flat placement is refused (an error value) -/
theorem place_flat_refused (basis : Array W) (p : Pos) (hply : 2 ≤ p.move) (col : Color) (hcol : p.toMove = col)
    (x y : Int) (h0 : stonesOf p col = 0#8) :
    ∃ w, p.apply basis ⟨x, y, Facts.mtPlaceFlat, 0⟩ = .error (.illegal w) := by
  cases ha : p.apply basis ⟨x, y, Facts.mtPlaceFlat, 0⟩ with
  | error e => obtain ⟨w, hw⟩ := apply_ill ha; exact ⟨w, by rw [hw]⟩
  | ok q =>
    exfalso
    have h2 : ¬ (p.move < 2) := by omega
    unfold Pos.apply at ha
    rcases C19.toMove_cases p with hw | hb
    · rw [hw] at hcol; subst hcol
      simp only [stonesOf] at h0
      simp [Facts.mtPlaceFlat, Facts.mtPlaceCapstone, Facts.mtPlaceStanding, Facts.mtPass, hw, h2, dispatch, openingRule,
        placeOn, h0] at ha
      repeat' (split at ha)
      all_goals cases ha
    · rw [hb] at hcol; subst hcol
      simp only [stonesOf] at h0
      simp [Facts.mtPlaceFlat, Facts.mtPlaceCapstone, Facts.mtPlaceStanding, Facts.mtPass, hb, h2, dispatch, openingRule,
        placeOn, h0] at ha
      repeat' (split at ha)
      all_goals cases ha

/-- a reported square is an empty square of the board -/
theorem reported_empty (p : Pos) (wf : WFBoard p) (s : Nat) (hrep : (placeWinsMask p.c p).getLsbD s = true) :
    s < p.cfg.size * p.cfg.size ∧ (p.white ||| p.black).getLsbD s = false := by
  have hn := wf.size_ok
  rw [placeWinsMask_eq p.c p p.toMove rfl, wf.consts] at hrep
  have hem : Sub ((Gen.precompute p.cfg.size).Mask &&& ~~~(p.white ||| p.black)) (Gen.precompute p.cfg.size).Mask := by
    intro k hk; rw [BitVec.getLsbD_and, Bool.and_eq_true] at hk; exact hk.1
  have hse := findPlaceWins_sub_empty _ _ _ _ s hrep
  refine ⟨lt_of_mask hn hem hse, ?_⟩
  simp only [BitVec.getLsbD_and, BitVec.getLsbD_not, Bool.and_eq_true, Bool.not_eq_true', decide_eq_true_eq] at hse
  exact hse.2.2

/-- **A reported square, once taken by the mover, is a road win.** -/
theorem reported_wins (p q : Pos) (wf : WFBoard p) (col : Color) (hcol : p.toMove = col) (s : Nat)
    (hrep : (placeWinsMask p.c p).getLsbD s = true)
    (haft : After p q 64 s (own p col) (own q col) (own p col.flip) (own q col.flip)) :
    RoadWinFor q col ∧ (groupsOf q col).any (isRoadGroup q.c) = true ∧ RoadWF q := by
  have hn := wf.size_ok
  have hc2 : col = .white ∨ col = .black := by rw [← hcol]; exact C19.toMove_cases p
  have hbm := roadBits_sub p wf.toRoadWF col
  rw [placeWinsMask_eq p.c p col hcol, wf.consts] at hrep
  have hem : Sub ((Gen.precompute p.cfg.size).Mask &&& ~~~(p.white ||| p.black)) (Gen.precompute p.cfg.size).Mask := by
    intro k hk; rw [BitVec.getLsbD_and, Bool.and_eq_true] at hk; exact hk.1
  have hse := findPlaceWins_sub_empty _ _ _ _ s hrep
  have hs : s < p.cfg.size * p.cfg.size := lt_of_mask hn hem hse
  have hemp : (p.white ||| p.black).getLsbD s = false := by
    simp only [BitVec.getLsbD_and, BitVec.getLsbD_not, Bool.and_eq_true, Bool.not_eq_true', decide_eq_true_eq] at hse
    exact hse.2.2
  have hst : p.standing.getLsbD s = false := by
    cases hx : p.standing.getLsbD s with
    | false => rfl
    | true =>
      have := wf.kinds_sub s (by rw [BitVec.getLsbD_or, hx]; rfl)
      rw [hemp] at this; cases this
  -- the groups are components of the road squares
  obtain ⟨a1, a2⟩ := analyze_groups p wf.analyzed
  have hg : floodGroups (Gen.precompute p.cfg.size) (roadBits p col) = some (groupsOf p col) := by
    rw [← wf.consts]
    rcases hc2 with e | e <;> subst e
    · exact a1
    · exact a2
  obtain ⟨gs, hgs, _, hmem⟩ := groups_spec p.cfg.size hn (roadBits p col) hbm
  rw [hg] at hgs
  have hgs' : groupsOf p col = gs := Option.some.inj hgs
  have hcomp : ∀ g, g ∈ groupsOf p col → IsComp p.cfg.size (roadBits p col) g := by
    intro g hg'; rw [hgs'] at hg'; exact ((hmem g).mp hg').1
  -- the road squares after the move
  have hbs : (roadBits q col).getLsbD s = true := by
    rw [roadBits_bit]
    refine ⟨haft.at_s, ?_⟩
    cases hx : q.standing.getLsbD s with
    | false => rfl
    | true => have := haft.stand s hx; rw [hst] at this; cases this
  have hkeep : ∀ k, (roadBits p col).getLsbD k = true → (roadBits q col).getLsbD k = true := by
    intro k hb
    obtain ⟨ho, hsk⟩ := (roadBits_bit p col k).mp hb
    rw [roadBits_bit]
    have hk64 : k ≠ 64 := by
      have : k < 64 := by
        apply Classical.byContradiction; intro hge
        rw [BitVec.getLsbD_of_ge _ _ (by omega)] at ho; cases ho
      omega
    refine ⟨haft.keep k hk64 ho, ?_⟩
    cases hx : q.standing.getLsbD k with
    | false => rfl
    | true => have := haft.stand k hx; rw [hsk] at this; cases this
  have hspan := findPlaceWins_spans hn hbm hem hcomp hkeep hbs hrep
  exact win_of_spans p q wf col hcol 64 s haft hs (Or.inl (Nat.le_refl _)) hspan

end Proofs.MCTSPolicy
