import TakVerif.Proofs.C06Step

/-! The invariant of the whole search state (tree + cursor) and its preservation by moving the cursor. -/
namespace C06
open Tak Tak.PN Spec.Game

variable {S M : Type} (G : Game S M) (att : Color) (root : S)

/-- the part of the tree above the focus `f` (standing for `s`, ancestors' positions `hs`) is sound;
the topmost node stands for `root` -/
def CrumbsOK (dl : Bool) : List (Crumb M) → List S → S → Node M → Prop
  | [], hs, s, _ => hs = [] ∧ s = root
  | cr :: ups, hs, s, f =>
    ∃ p hs', hs = p :: hs' ∧
      cr.node.expanded = true ∧
      NumOK G att dl hs' p cr.node ∧
      ChildOf G p cr.node f s ∧
      (∀ c ∈ cr.left ++ cr.right, ∃ s', ChildOf G p cr.node c s' ∧ TreeOK G att dl (p :: hs') s' c) ∧
      Cover G p (cr.left.reverse ++ f :: cr.right) ∧
      CrumbsOK dl ups hs' p cr.node

/-- the search state is sound: the focus subtree, and everything above and beside it -/
def ZipOK (st : St S M) : Prop :=
  ∃ s hs, st.stack = s :: hs ∧
    TreeOK G att st.depthLimited hs s st.focus ∧
    CrumbsOK G att root st.depthLimited st.up hs s st.focus

/-- the position under the cursor is reachable from the root -/
theorem CrumbsOK.reach : ∀ (ups : List (Crumb M)) (dl : Bool) (hs : List S) (s : S) (f : Node M),
    CrumbsOK G att root dl ups hs s f → Reach G root s := by
  intro ups
  induction ups with
  | nil => intro dl hs s f h; rw [h.2]; exact .refl
  | cons cr ups ih =>
    intro dl hs s f h
    obtain ⟨p, hs', _, _, _, hc, _, _, hrest⟩ := h
    exact .step (ih dl hs' p cr.node hrest) ⟨f.move, hc.1, hc.2.1⟩

theorem ZipOK.reach {st : St S M} (hz : ZipOK G att root st) {cur : S} {hs : List S}
    (hst : st.stack = cur :: hs) : Reach G root cur := by
  obtain ⟨s, hs0, hst0, _, hc⟩ := hz
  rw [hst] at hst0
  injection hst0 with e1 e2
  subst e1
  exact CrumbsOK.reach G att root _ _ _ _ _ hc

theorem CrumbsOK.mono (dl' : Bool) : ∀ (ups : List (Crumb M)) (dl : Bool) (hs : List S) (s : S) (f : Node M),
    CrumbsOK G att root dl ups hs s f → CrumbsOK G att root (dl || dl') ups hs s f := by
  intro ups
  induction ups with
  | nil => intro dl hs s f h; exact h
  | cons cr ups ih =>
    intro dl hs s f h
    obtain ⟨p, hs', e, hx, hn, hc, hsib, hcov, hrest⟩ := h
    refine ⟨p, hs', e, hx, hn.mono G att dl', hc, ?_, hcov, ih dl hs' p cr.node hrest⟩
    intro c hc'
    obtain ⟨s', h1, h2⟩ := hsib c hc'
    exact ⟨s', h1, TreeOK.mono G att dl' c dl _ _ h2⟩

/-- replacing the focus by a node with the same move and kind keeps the upper part sound, provided
an "early stop" witness stays one -/
theorem CrumbsOK.replace {dl : Bool} {ups : List (Crumb M)} {hs : List S} {s : S} {f f' : Node M}
    (h : CrumbsOK G att root dl ups hs s f) (hm : f'.move = f.move) (ha : f'.isAnd = f.isAnd)
    (hw : f.expanded = false → f.delta = 0 → f'.expanded = false ∧ f'.delta = 0) :
    CrumbsOK G att root dl ups hs s f' := by
  cases ups with
  | nil => exact h
  | cons cr ups =>
    obtain ⟨p, hs', e, hx, hn, hc, hsib, hcov, hrest⟩ := h
    refine ⟨p, hs', e, hx, hn, ?_, hsib, ?_, hrest⟩
    · unfold ChildOf at hc ⊢; rw [hm, ha]; exact hc
    · rcases hcov with hcov | ⟨c, hc', hce, hcd⟩
      · left
        intro m hmm s' hs'
        obtain ⟨c, hc', hcm⟩ := hcov m hmm s' hs'
        simp only [List.mem_append, List.mem_reverse, List.mem_cons] at hc' ⊢
        rcases hc' with h1 | h1 | h1
        · exact ⟨c, Or.inl h1, hcm⟩
        · subst h1; exact ⟨f', Or.inr (Or.inl rfl), by rw [hm]; exact hcm⟩
        · exact ⟨c, Or.inr (Or.inr h1), hcm⟩
      · right
        simp only [List.mem_append, List.mem_reverse, List.mem_cons] at hc' ⊢
        rcases hc' with h1 | h1 | h1
        · exact ⟨c, Or.inl h1, hce, hcd⟩
        · subst h1
          obtain ⟨h2, h3⟩ := hw hce hcd
          exact ⟨f', Or.inr (Or.inl rfl), h2, h3⟩
        · exact ⟨c, Or.inr (Or.inr h1), hce, hcd⟩

theorem findChild_spec (phi : UInt32) : ∀ (cs left : List (Node M)) (l : List (Node M)) (c : Node M) (r : List (Node M)),
    findChild phi left cs = some (l, c, r) → left.reverse ++ cs = l.reverse ++ c :: r ∧ c.delta = phi := by
  intro cs
  induction cs with
  | nil => intro left l c r h; simp [findChild] at h
  | cons x cs ih =>
    intro left l c r h
    simp only [findChild] at h
    split at h
    · rename_i hx
      injection h with h
      injection h with h1 h2
      injection h2 with h2 h3
      subst h1; subst h2; subst h3
      exact ⟨rfl, by simpa using hx⟩
    · have := ih (x :: left) l c r h
      simpa using this


/-- the fields of the search state the cursor movements leave alone -/
def SameRest (st st' : St S M) : Prop :=
  st'.cfg = st.cfg ∧ st'.stats = st.stats ∧ st'.depthLimited = st.depthLimited ∧ st'.anomaly = st.anomaly

theorem SameRest.rfl' (st : St S M) : SameRest st st := ⟨rfl, rfl, rfl, rfl⟩

theorem SameRest.trans {a b c : St S M} (h1 : SameRest a b) (h2 : SameRest b c) : SameRest a c :=
  ⟨h2.1.trans h1.1, h2.2.1.trans h1.2.1, h2.2.2.1.trans h1.2.2.1, h2.2.2.2.trans h1.2.2.2⟩

theorem descend_ok (st st' : St S M) (left : List (Node M)) (c : Node M) (right : List (Node M))
    (hz : ZipOK G att root st) (hexp : st.focus.expanded = true)
    (hch : st.focus.children = left.reverse ++ c :: right)
    (h : descend G st left c right = some st') :
    ZipOK G att root st' ∧ st'.focus = c ∧ st'.up.length = st.up.length + 1 ∧ SameRest st st' := by
  obtain ⟨s, hs, hst, ht, hc⟩ := hz
  unfold descend at h
  rw [hst] at h
  simp only at h
  split at h
  · exact absurd h (by simp)
  · rename_i nxt happ
    injection h with h
    subst h
    refine ⟨?_, rfl, by simp, ⟨rfl, rfl, rfl, rfl⟩⟩
    rw [TreeOK_iff] at ht
    obtain ⟨hnum, hkids, hcov, _⟩ := ht
    have hcmem : c ∈ st.focus.children := by rw [hch]; simp
    obtain ⟨s', hco, htc⟩ := hkids c hcmem
    have : s' = nxt := by
      have := hco.2.1
      rw [happ] at this
      exact (Option.some.inj this).symm
    subst this
    refine ⟨s', s :: hs, by simp, htc, ?_⟩
    refine ⟨s, hs, rfl, hexp, hnum, hco, ?_, ?_, hc⟩
    · intro c' hc'
      apply hkids
      rw [hch]
      simp only [List.mem_append, List.mem_reverse, List.mem_cons] at hc' ⊢
      rcases hc' with h1 | h1
      · exact Or.inl h1
      · exact Or.inr (Or.inr h1)
    · rcases hcov hexp with h1 | ⟨h1, _⟩
      · rw [← hch]; exact h1
      · rw [hch] at h1; simp at h1

theorem ascend_ok (st st' : St S M) (hz : ZipOK G att root st) (h : ascend st = some st') :
    ZipOK G att root st' ∧ st'.up.length + 1 = st.up.length ∧ SameRest st st' := by
  obtain ⟨s, hs, hst, ht, hc⟩ := hz
  unfold ascend at h
  split at h
  · rename_i cr ups x rest hup hstack
    injection h with h
    subst h
    rw [hup] at hc
    obtain ⟨p, hs', e, hx, hn, hco, hsib, hcov, hrest⟩ := hc
    rw [hst] at hstack
    injection hstack with h1 h2
    subst h1; subst h2; subst e
    refine ⟨?_, by simp [hup], ⟨rfl, rfl, rfl, rfl⟩⟩
    refine ⟨p, hs', rfl, ?_, ?_⟩
    · rw [TreeOK_iff]
      refine ⟨⟨hn.proof, hn.disproof, hn.valueP, hn.valueD, hn.valueU, hn.side, hn.notBoth, hn.live⟩, ?_, ?_, ?_⟩
      · intro c hc'
        simp only [List.mem_append, List.mem_reverse, List.mem_cons] at hc'
        rcases hc' with h1 | h1 | h1
        · exact hsib c (by simp [h1])
        · subst h1; exact ⟨s, hco, ht⟩
        · exact hsib c (by simp [h1])
      · intro _; exact Or.inl hcov
      · intro h0; simp only at h0; rw [hx] at h0; exact absurd h0 (by simp)
    · exact CrumbsOK.replace G att root hrest rfl rfl (by intro h0; rw [hx] at h0; exact absurd h0 (by simp))
  · exact absurd h (by simp)


theorem select_ok : ∀ (fuel : Nat) (st st' : St S M), ZipOK G att root st →
    selectMostProving G fuel st = .ok st' →
    ZipOK G att root st' ∧ st'.focus.expanded = false ∧ st.up.length ≤ st'.up.length ∧ SameRest st st' := by
  intro fuel
  induction fuel with
  | zero => intro st st' _ h; simp [selectMostProving] at h
  | succ fuel ih =>
    intro st st' hz h
    simp only [selectMostProving] at h
    split at h
    · rename_i hexp
      split at h
      · exact absurd h (by simp)
      · rename_i left c right hf
        obtain ⟨hsplit, _⟩ := findChild_spec st.focus.phi st.focus.children [] left c right hf
        simp only [List.reverse_nil, List.nil_append] at hsplit
        split at h
        · exact absurd h (by simp)
        · rename_i st1 hd
          obtain ⟨hz1, _, hlen, hsame⟩ := descend_ok G att root st st1 left c right hz hexp hsplit hd
          obtain ⟨hz2, hx2, hlen2, hsame2⟩ := ih st1 st' hz1 h
          exact ⟨hz2, hx2, by omega, hsame.trans hsame2⟩
    · rename_i hexp
      injection h with h
      subst h
      exact ⟨hz, by simpa using hexp, Nat.le_refl _, SameRest.rfl' st⟩

theorem ascendTo_ok (base : Nat) : ∀ (fuel : Nat) (st st' : St S M), ZipOK G att root st →
    ascendTo base fuel st = some st' →
    ZipOK G att root st' ∧ st'.up.length = base ∧ SameRest st st' := by
  intro fuel
  induction fuel with
  | zero =>
    intro st st' hz h
    simp only [ascendTo] at h
    split at h
    · rename_i hb
      injection h with h; subst h
      exact ⟨hz, by simpa using hb, SameRest.rfl' st⟩
    · exact absurd h (by simp)
  | succ fuel ih =>
    intro st st' hz h
    simp only [ascendTo] at h
    split at h
    · rename_i hb
      injection h with h; subst h
      exact ⟨hz, by simpa using hb, SameRest.rfl' st⟩
    · cases ha : ascend st with
      | none => rw [ha] at h; simp at h
      | some st1 =>
        rw [ha] at h
        simp only [Option.bind_some] at h
        obtain ⟨hz1, _, hs1⟩ := ascend_ok G att root st st1 hz ha
        obtain ⟨hz2, hb2, hs2⟩ := ih st1 st' hz1 h
        exact ⟨hz2, hb2, hs1.trans hs2⟩

end C06
