import TakVerif.Impl.Alloc

/-! C09, value side: facts about `Pos.analyze` / `Pos.apply` that the heap refinement needs.
Every successful `Pos.apply` ends in `finish` (= `analyze`), and `analyze` looks only at the bitboards. -/
namespace Tak

/-- `analyze` is idempotent: analysing an analysed position changes nothing (the group fields are a
function of `c`, `white`, `black`, `standing`, which `analyze` does not touch) -/
theorem Pos.analyze_idem {p q : Pos} (h : p.analyze = some q) : q.analyze = some q := by
  simp only [Pos.analyze] at h ⊢
  split at h
  · cases h; simp_all
  · cases h

/-- `analyze` ignores the previous contents of the group fields -/
theorem Pos.analyze_setGroups (p : Pos) (a b : List W) :
    Pos.analyze { p with wgroups := a, bgroups := b } = p.analyze := by
  simp only [Pos.analyze]

theorem Pos.analyze_eq_some {p r : Pos} (h : p.analyze = some r) :
    ∃ wl bl, floodGroups p.c (p.white &&& ~~~p.standing) = some wl ∧
             floodGroups p.c (p.black &&& ~~~p.standing) = some bl ∧
             r = { p with wgroups := wl, bgroups := bl } := by
  simp only [Pos.analyze] at h
  split at h
  · cases h; exact ⟨_, _, ‹_›, ‹_›, rfl⟩
  · cases h

theorem finish_analyzed {n q : Pos} (h : finish n = .ok q) : q.analyze = some q := by
  unfold finish at h
  split at h
  · cases h; exact Pos.analyze_idem ‹_›
  · cases h

/-- "every successful outcome is an analysed position" -/
def Ana (r : R Pos) : Prop := ∀ q, r = .ok q → q.analyze = some q
theorem Ana.finish (n : Pos) : Ana (finish n) := fun _ h => finish_analyzed h
theorem Ana.error (e : Err) : Ana (.error e) := fun _ h => by cases h
theorem Ana.ite {c : Prop} [Decidable c] {a b : R Pos} (ha : Ana a) (hb : Ana b) : Ana (if c then a else b) := by
  split <;> assumption

/-- every success path of `MovePreallocated` ends in `analyze()` -/
theorem Pos.apply_ana (basis : Array W) (p : Pos) (m : Move) : Ana (p.apply basis m) := by
  unfold Pos.apply
  repeat' first
    | (extract_lets; clear_value *)
    | apply Ana.ite
    | exact Ana.finish _
    | exact Ana.error _
    | split

theorem Pos.apply_analyzed {basis : Array W} {p q : Pos} {m : Move} (h : p.apply basis m = .ok q) :
    q.analyze = some q := Pos.apply_ana basis p m q h

end Tak
