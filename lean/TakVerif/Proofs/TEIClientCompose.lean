import TakVerif.Proofs.TEIClientPos
import TakVerif.Proofs.TEIClientMove
import TakVerif.Proofs.Groups

/-! Lemmas for C17 (client side): the client model composed with the server model, one call of
`TEIGetMove` on a running engine. -/
set_option linter.unusedVariables false
set_option linter.unusedSimpArgs false
namespace Proofs.TEIClient
open Tak Tak.TEI Tak.TEIClient Go Spec.TEIClient Spec.TEI Notation Proofs.TEI

/-- the position line of the client, fed to any engine state configured for the position's size: the
engine stores the position `ParseTPS` rebuilds, which is the original one in the sense of C10 -/
theorem position_step (basis : Array W) (search : Nat → Pos → Option Int → SearchRes) (p : Pos)
    (h : tpsHyp basis p = true) (k : Nat) (st : Engine) (hsize : st.size = p.cfg.size) :
    ∃ tps p', TPS.formatTPS p = .ok tps ∧ TPS.parseTPS basis tps = .ok p' ∧
      step (realEnv basis search) k st (fields ("position tps " ++ str tps).toList)
        = .cont { out := [], st := { st with pos := some p' } } ∧
      p'.equal p = true ∧ p'.hashOf = p.hashOf ∧
      p'.whiteStones = p.whiteStones ∧ p'.whiteCaps = p.whiteCaps ∧
      p'.blackStones = p.blackStones ∧ p'.blackCaps = p.blackCaps ∧
      p'.toMove = p.toMove ∧ p'.move = p.move := by
  obtain ⟨tps, p', hf, hparse, heq, hrest⟩ := TPS.tps_roundtrip_core basis p Roads.analyze_ne_none h
  obtain ⟨tps2, hf2, hcan⟩ := TPS.formatTPS_canonical_core basis p h
  have : tps2 = tps := by rw [hf] at hf2; injection hf2 with e; exact e.symm
  subst this
  obtain ⟨w0, w1, w2, hjoin, hparts⟩ := canonical_parts tps2 hcan
  refine ⟨tps2, p', hf, hparse, ?_, heq, hrest⟩
  have hsz' : (p'.cfg.size : Int) = st.size := by
    unfold Pos.equal at heq
    simp only [Bool.and_eq_true, beq_iff_eq] at heq
    rw [hsize, heq.1.1.1.1.1.1.1]
  have h3 : 3 ≤ p.cfg.size := (TPS.tpsWF_of_hyp basis p h).n3
  have hne : st.size ≠ 0 := by omega
  rw [hjoin, fields_position_line w0 w1 w2 hparts]
  rw [hjoin] at hparse
  have hpp := parsePosition_tps basis search st.size w0 w1 w2 p' hne hparse hsz'
  have e1 : ("position" = "tei") = False := by decide
  have e2 : ("position" = "quit") = False := by decide
  have e3 : ("position" = "teinewgame") = False := by decide
  simp only [step, e1, e2, e3, if_false, if_true, hpp]

theorem C17aux (rem : Option Int) (tc : Option TimeControl) (hr : InRange rem (tc.getD {}))
    (h : ¬ TooShort rem (tc.getD {})) :
    goCmd rem tc = .ok (goWords rem (tc.getD {})) ∧
    fields (goLine (goWords rem (tc.getD {}))).toList = (goWords rem (tc.getD {})).map str ∧
    parseGoArgs (((goWords rem (tc.getD {})).map str).drop 1) {} = some (goArgs rem (tc.getD {})) := by
  have hsome : goCmd rem tc = goCmd rem (some (tc.getD {})) := by
    cases tc with
    | none => exact goCmd_none rem
    | some t => rfl
  rw [hsome]
  exact ⟨goCmd_ok rem _ h, fields_goLine rem _, parseGoArgs_goWords rem _ h hr⟩

/-- `analyze` when the searcher has no move to report (a finished game, or a search cut short): nothing is
written, only the error is logged -/
theorem analyze_silent (env : Env) (k : Nat) (st : Engine) (args : List String) (p : Pos) (a : GoArgs)
    (hI : Inv env st) (hp : st.pos = some p) (hargs : parseGoArgs args {} = some a)
    (hpv : (env.search k p (goBudget p a)).pv = []) :
    analyze env k st ("go" :: args) = .ok
      { st := { mm := some st.size, pos := some p, size := st.size }
        out := [], err := true, deadline := goBudget p a } := by
  unfold analyze
  simp only [hp]
  obtain ⟨hr, hsz, h3, h8⟩ := hI.pos p hp
  have hmmAll : ∀ s, st.mm = some s → s = st.size := hI.mm
  have h38 : ¬ (st.size < 3 ∨ st.size > 8) := by omega
  have hne : ¬ (st.size ≠ (p.cfg.size : Int)) := by omega
  rcases hm : st.mm with _ | s
  all_goals (try (have hs := hmmAll _ hm; subst hs))
  all_goals (
    simp only [h38, if_false, List.drop, hargs, hne, hpv])

/-- the connection after a call that ran to its end: engine state, both lines logged, nothing unread -/
def connAfter (c : Conn EngSt) (p' : Pos) (dl : Option Int) (lines : List String) : Conn EngSt :=
  { eng := { st := { mm := some c.eng.st.size, pos := some p', size := c.eng.st.size }, k := c.eng.k + 2,
             exit := none, deadline := dl }
    alive := true, unread := [], gameid := c.gameid, wrote := c.wrote ++ lines }

theorem readUntil_reply (env : Env) (r : SearchRes) (size : Nat) (m : Move) (h : LegalShape size m) :
    readUntil "bestmove" [infoLine env r, "bestmove " ++ str (PTN.formatMove m false)]
      = (some (.ok ["bestmove", str (PTN.formatMove m false)]), []) := by
  obtain ⟨ws, hws⟩ := fields_infoLine env r
  have e : ("info" = "bestmove") = False := by decide
  simp only [readUntil, hws, e, if_false, fields_bestmove size m h, if_true]

/-- one `TEIGetMove` on a running engine that is configured for the position's size -/
theorem getMove_live (basis : Array W) (search : Nat → Pos → Option Int → SearchRes)
    (c : Conn EngSt) (pl : Player) (p : Pos) (rem : Option Int) (tc : Option TimeControl)
    (hp : tpsHyp basis p = true) (hrange : InRange rem (tc.getD {})) (hlong : ¬ TooShort rem (tc.getD {}))
    (halive : c.alive = true) (hunread : c.unread = []) (hgame : pl.gameid = c.gameid)
    (hsize : c.eng.st.size = p.cfg.size) (hmm : ∀ s, c.eng.st.mm = some s → s = c.eng.st.size) :
    ∃ tps p', TPS.formatTPS p = .ok tps ∧ TPS.parseTPS basis tps = .ok p' ∧
      (p'.equal p = true ∧ p'.hashOf = p.hashOf ∧
        p'.whiteStones = p.whiteStones ∧ p'.whiteCaps = p.whiteCaps ∧
        p'.blackStones = p.blackStones ∧ p'.blackCaps = p.blackCaps ∧
        p'.toMove = p.toMove ∧ p'.move = p.move) ∧
      (∀ m rest, (search (c.eng.k + 1) p' (goBudget p' (goArgs rem (tc.getD {})))).pv = m :: rest →
          LegalShape p'.cfg.size m →
          teiGetMove (serverPeer (realEnv basis search)) c pl p rem tc
            = (connAfter c p' (goBudget p' (goArgs rem (tc.getD {})))
                ["position tps " ++ str tps, goLine (goWords rem (tc.getD {}))], .ok m)) ∧
      ((search (c.eng.k + 1) p' (goBudget p' (goArgs rem (tc.getD {})))).pv = [] →
          teiGetMove (serverPeer (realEnv basis search)) c pl p rem tc
            = (connAfter c p' (goBudget p' (goArgs rem (tc.getD {})))
                ["position tps " ++ str tps, goLine (goWords rem (tc.getD {}))],
               .error (.hang "sendCommand: the engine writes nothing more and waits for input"))) := by
  obtain ⟨tps, p', hf, hparse, hstep, hsame⟩ := position_step basis search p hp c.eng.k c.eng.st hsize
  let env := realEnv basis search
  let a := goArgs rem (tc.getD {})
  have h3 : 3 ≤ p.cfg.size := (TPS.tpsWF_of_hyp basis p hp).n3
  have h8 : p.cfg.size ≤ 8 := (TPS.tpsWF_of_hyp basis p hp).n8
  have hsz' : (p'.cfg.size : Int) = c.eng.st.size := by
    have heq := hsame.1
    unfold Pos.equal at heq
    simp only [Bool.and_eq_true, beq_iff_eq] at heq
    rw [hsize, heq.1.1.1.1.1.1.1]
  -- the engine after the position line
  let stA : Engine := { c.eng.st with pos := some p' }
  have hI : Inv env stA :=
    { size := .inr (by show 3 ≤ c.eng.st.size ∧ c.eng.st.size ≤ 8; omega)
      pos := by
        intro q hq
        have : q = p' := by simpa [stA] using hq.symm
        subst this
        refine ⟨.tps (str tps) _ (by show TPS.parseTPS basis (lit (str tps)) = _; rw [lit_str]; exact hparse), hsz', ?_, ?_⟩ <;>
          (simp only [stA]; omega)
      mm := hmm }
  obtain ⟨hgoOk, hfields, hargs⟩ := (C17aux rem tc hrange hlong)
  have hwords : (goWords rem (tc.getD {})).map str = "go" :: ((goWords rem (tc.getD {})).map str).drop 1 := by
    unfold goWords
    simp only [List.map_cons, List.drop_succ_cons, List.drop_zero]
    rfl
  have e0 : ("bestmove" = "") = False := by decide
  refine ⟨tps, p', hf, hparse, hsame, ?_, ?_⟩
  · intro m rest hpv hshape
    have han := analyze_live env (c.eng.k + 1) stA _ p' a m rest hI rfl hargs hpv
    have hst := step_go env (c.eng.k + 1) stA _ _ han
    rw [← hwords, ← hfields] at hst
    have hread := readUntil_reply env (env.search (c.eng.k + 1) p' (goBudget p' a)) p'.cfg.size m hshape
    have hbm := readBestmove_formatMove p'.cfg.size m hshape
    simp only [teiGetMove, teiGetMoveWith, hgame, ne_eq, not_true_eq_false, if_false, hf, sendCommand, halive,
      Bool.not_true, Bool.false_eq_true, serverPeer, hstep, hunread, List.append_nil, if_true, hgoOk,
      List.nil_append, e0]
    simp only [stA, env, a] at hst
    simp only [hst]
    simp only [env, a, realEnv] at hread
    simp only [realEnv, hread, hbm, connAfter, List.append_assoc, List.cons_append, List.nil_append, Nat.add_assoc]
  · intro hpv
    have han := analyze_silent env (c.eng.k + 1) stA _ p' a hI rfl hargs hpv
    have hst := step_go env (c.eng.k + 1) stA _ _ han
    rw [← hwords, ← hfields] at hst
    simp only [teiGetMove, teiGetMoveWith, hgame, ne_eq, not_true_eq_false, if_false, hf, sendCommand, halive,
      Bool.not_true, Bool.false_eq_true, serverPeer, hstep, hunread, List.append_nil, if_true, hgoOk,
      List.nil_append, e0]
    simp only [stA, env, a] at hst
    simp only [hst]
    simp only [readUntil, connAfter, List.append_assoc, List.cons_append, List.nil_append, Nat.add_assoc, if_true]

/-- a call with a duration that cannot be expressed in milliseconds: the position line is sent, then the
error is returned; no `go` line, the engine keeps waiting with the new position -/
theorem getMove_short (basis : Array W) (search : Nat → Pos → Option Int → SearchRes)
    (c : Conn EngSt) (pl : Player) (p : Pos) (rem : Option Int) (tc : Option TimeControl)
    (hp : tpsHyp basis p = true) (hshort : TooShort rem (tc.getD {}))
    (halive : c.alive = true) (hgame : pl.gameid = c.gameid) (hsize : c.eng.st.size = p.cfg.size) :
    ∃ tps p', TPS.formatTPS p = .ok tps ∧ TPS.parseTPS basis tps = .ok p' ∧
      teiGetMove (serverPeer (realEnv basis search)) c pl p rem tc
        = ({ c with eng := { st := { c.eng.st with pos := some p' }, k := c.eng.k + 1, exit := none, deadline := none }
                    wrote := c.wrote ++ ["position tps " ++ str tps] },
           .error (.illegal "Timeout too short")) := by
  obtain ⟨tps, p', hf, hparse, hstep, _⟩ := position_step basis search p hp c.eng.k c.eng.st hsize
  refine ⟨tps, p', hf, hparse, ?_⟩
  have hsome : goCmd rem tc = goCmd rem (some (tc.getD {})) := by
    cases tc with
    | none => exact goCmd_none rem
    | some t => rfl
  have herr := goCmd_short rem _ hshort
  rw [← hsome] at herr
  simp only [teiGetMove, teiGetMoveWith, hgame, ne_eq, not_true_eq_false, if_false, hf, sendCommand, halive,
    Bool.not_true, Bool.false_eq_true, serverPeer, hstep, List.append_nil, if_true, herr]

end Proofs.TEIClient
