import TakVerif.Proofs.MCTSPolicyLive
import TakVerif.Proofs.MCTSPolicyMove
import TakVerif.Proofs.PosFactsInst
import TakVerif.Proofs.AllMovesOnBoard
import TakVerif.Proofs.ApplyCfg
import TakVerif.Proofs.SpecConserve

/-! Helper lemmas for `Props/C04_policy.lean`: the invariant carried along a rollout (C01's `WF` with the piece
budget, the board size, the opening side condition) is kept by every accepted non-pass move. -/
set_option linter.unusedVariables false
set_option linter.unusedSimpArgs false
namespace Proofs.MCTSPolicy
open Tak Tak.MCTS Roads Spec

/-- **The rollout invariant**: C01's well-formedness, at most 64 pieces in the game (so that no stack can pass
the 64-piece representation limit), board size `n`, and the opening side condition. -/
structure PolicyInv (basis : Array W) (n : Nat) (p : Pos) : Prop where
  wf : WF basis p
  budget : budget (Spec.abs p) ≤ 64
  size : p.cfg.size = n
  opening : OpeningOK p

theorem step_ply0_white {s s' : State} {mv : Spec.Move} (h : step s mv = some s') :
    s'.ply = s.ply + 1 ∧ (s.ply = 0 → s'.whiteStones = s.whiteStones) := by
  refine ⟨(SpecProofs.step_frame s mv s' h).1, fun h0 => ?_⟩
  cases mv with
  | invalid => simp [step] at h
  | place x y k =>
    have htm : s.toMove = .white := by simp [State.toMove, h0]
    simp only [step, h0, htm, Color.flip] at h
    repeat' (split at h)
    all_goals (try (cases h; done))
    all_goals
      cases h
      cases k <;> first | rfl | simp_all
  | slide x y d drops =>
    simp [step, h0] at h

/-- an accepted non-pass move keeps the invariant (C01 `move_refines_core`, `step_budget`, `apply_cfg`) and is
legal by the rule book -/
theorem inv_step {basis : Array W} {n : Nat} {p q : Pos} {m : Tak.Move} (hi : PolicyInv basis n p)
    (hnp : m.type ≠ Facts.mtPass) (ha : p.apply basis m = .ok q) :
    PolicyInv basis n q ∧ Spec.step (Spec.abs p) (Spec.decode m) = some (Spec.abs q) := by
  have h := move_refines_core (basis := basis) (p := p) analyzeTotalInst hi.wf m hnp (stackLimit_of_budget m hi.budget)
  rw [ha] at h
  obtain ⟨h1, h2⟩ := h
  obtain ⟨hply, hws⟩ := step_ply0_white h1
  have hmove : q.move = p.move + 1 := hply
  refine ⟨⟨h2, Nat.le_trans (step_budget h1) hi.budget, by rw [apply_cfg ha]; exact hi.size, ?_⟩, h1⟩
  rcases hi.opening with h | ⟨h, _⟩ | ⟨h, hw, _⟩
  · exact .inl (by omega)
  · exact .inl (by omega)
  · refine .inr (.inl ⟨by omega, ?_⟩)
    have : q.whiteStones.toNat = p.whiteStones.toNat := hws h
    intro e
    apply hw
    apply BitVec.eq_of_toNat_eq
    rw [← this, e]

/-- the generated moves are not the pass -/
theorem allMoves_not_pass {p : Pos} (h8 : p.cfg.size ≤ 8) {m : Tak.Move} (hm : m ∈ p.allMoves) : m.type ≠ Facts.mtPass := by
  obtain ⟨_, _, _, _, ht, _⟩ := Tak.Proofs.allMoves_onboard' p h8 m hm
  have tc := Tak.Proofs.types_cases
  omega

/-- re-running `analyze` (as `Clone` does) changes the two group lists only -/
theorem analyze_inv {basis : Array W} {n : Nat} {t p : Pos} (hi : PolicyInv basis n t) (ha : t.analyze = some p) :
    PolicyInv basis n p ∧ p.toMove = t.toMove ∧ p.c = t.c := by
  unfold Pos.analyze at ha
  dsimp only at ha
  split at ha
  · rename_i wg bg _ _
    injection ha with ha
    subst ha
    refine ⟨⟨⟨⟨hi.wf.size_ge, hi.wf.size_le, hi.wf.consts, hi.wf.height_size, hi.wf.stacks_size⟩, hi.wf.cell,
      hi.wf.hash, hi.wf.move_nonneg⟩, hi.budget, hi.size, hi.opening⟩, rfl, rfl⟩
  · cases ha

end Proofs.MCTSPolicy
