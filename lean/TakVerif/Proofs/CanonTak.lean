import TakVerif.Proofs.CanonAbstract
import TakVerif.Proofs.SymStep
import TakVerif.Proofs.SymOutcome
import TakVerif.Proofs.SymRaw

/-! Instance of the abstract canonicalisation theory for Tak at list level: states are the well-formed
`Spec.State`s of one size, moves are raw `Tak.Move` values, the action is `Sym.state` / `Sym.raw`. -/
namespace Spec

/-! ### the preference order -/

theorem prefer_irrefl (m : Tak.Move) : prefer m m = false := by simp [prefer]

theorem prefer_iff (a b : Tak.Move) : prefer a b = true ↔
    (a.y < b.y ∨ (a.y = b.y ∧ (a.x < b.x ∨ (a.x = b.x ∧ a.type < b.type)))) := by
  unfold prefer
  by_cases e1 : a.y = b.y
  · by_cases e3 : a.x = b.x
    · simp [e1, e3]
    · simp [e1, e3]
  · simp [e1]

theorem prefer_trans (a b c : Tak.Move) (h1 : prefer a b = true) (h2 : prefer b c = true) : prefer a c = true := by
  rw [prefer_iff] at *
  omega

theorem prefer_tie_fields (a b : Tak.Move) (h1 : prefer a b = false) (h2 : prefer b a = false) :
    a.y = b.y ∧ a.x = b.x ∧ a.type = b.type := by
  have n1 : ¬ (prefer a b = true) := by simp [h1]
  have n2 : ¬ (prefer b a = true) := by simp [h2]
  rw [prefer_iff] at n1 n2
  omega

theorem prefer_tie (n : Int) (a b : Sym) (m : Tak.Move) (h1 : prefer (a.raw n m) (b.raw n m) = false)
    (h2 : prefer (b.raw n m) (a.raw n m) = false) : a.raw n m = b.raw n m := by
  obtain ⟨e1, e2, e3⟩ := prefer_tie_fields _ _ h1 h2
  have s1 := (raw_slides a n m).1
  have s2 := (raw_slides b n m).1
  have : (a.raw n m).slides = (b.raw n m).slides := by rw [s1, s2]
  cases ha : a.raw n m; cases hb : b.raw n m
  simp_all

/-! ### the action on states -/

theorem Sym.inv_mul_rev (a b : Sym) : (Sym.mul a b).inv = Sym.mul b.inv a.inv := by
  revert a b; decide

theorem Sym.state_one {s : State} (hs : s.WF) : (0 : Sym).state s = s := by
  apply State.ext_at (Sym.state_WF _ _) hs <;> try rfl
  intro x y hb
  have hb' : onB s.size x y := hb
  rw [Sym.state_at_inv (0 : Sym) s hb']
  rfl

theorem Sym.state_mul (a b : Sym) (s : State) : (Sym.mul a b).state s = a.state (b.state s) := by
  apply State.ext_at (Sym.state_WF _ _) (Sym.state_WF _ _) <;> try rfl
  intro x y hb
  have hb' : onB s.size x y := hb
  rw [Sym.state_at_inv _ s hb', Sym.state_at_inv a (b.state s) (by exact hb')]
  have hb2 : onB s.size (a.inv.app s.size x y).1 (a.inv.app s.size x y).2 := (Sym.onB_app a.inv s.size x y).2 hb'
  rw [Sym.state_size, Sym.state_at_inv b s hb2, Sym.inv_mul_rev, Sym.mul_app]

theorem startState_WF (n : Nat) : (startState n).WF := by simp [State.WF, startState]

theorem startState_sym (k : Sym) (n : Nat) : k.state (startState n) = startState n := by
  apply State.ext_at (Sym.state_WF _ _) (startState_WF n) <;> try rfl
  intro x y hb
  have hb' : onB (startState n).size x y := hb
  rw [Sym.state_at_inv k _ hb']
  have e : ∀ x y, (startState n).at x y = [] := by
    intro x y
    simp only [State.at, startState, List.getD_eq_getElem?_getD, List.getElem?_replicate]
    split <;> rfl
  rw [e, e]

/-! ### the rule book keeps the board well formed -/

theorem dropLoop_WF (d : Dir) (drops : List Nat) : ∀ (s s' : State) (x y : Int) (carried : List Tak.Piece),
    dropLoop s x y d carried drops = some s' → s.WF → s'.WF ∧ s'.size = s.size := by
  induction drops with
  | nil =>
    intro s s' x y carried h hs
    simp only [dropLoop] at h
    split at h
    · cases h; exact ⟨hs, rfl⟩
    · cases h
  | cons c cs ih =>
    intro s s' x y carried h hs
    rw [dropLoop_cons] at h
    split at h
    · cases h
    split at h
    · cases h
    split at h
    · cases h
    · have := ih _ _ _ _ _ h (State.setAt_WF hs _ _ _)
      simpa using this

theorem step_WF {s s' : State} {m : Move} (h : step s m = some s') (hs : s.WF) : s'.WF ∧ s'.size = s.size := by
  cases m with
  | invalid => simp [step] at h
  | place x y kd =>
    rw [step_place] at h
    simp only [Option.ite_none_left_eq_some, Option.some.injEq] at h
    obtain ⟨-, -, -, -, rfl⟩ := h
    exact ⟨State.setAt_WF (State.decReserve_WF hs _ _) _ _ _, by simp [State.incPly]⟩
  | slide x y d drops =>
    rw [step_slide] at h
    split at h
    · cases h
    split at h
    · cases h
    split at h
    · cases h
    split at h
    · cases h
    · unfold slideFrom at h
      split at h
      · cases h
      · split at h
        · cases h
        · split at h
          · cases h
          · rename_i s1 hd
            cases h
            have := dropLoop_WF _ _ _ _ _ _ _ hd (State.setAt_WF hs _ _ _)
            exact ⟨this.1, by simpa [State.incPly] using this.2⟩

/-! ### the instance -/

/-- well-formed states of one board size -/
abbrev WFState (n : Nat) := { s : State // s.WF ∧ s.size = n }

def stepWF (n : Nat) (s : WFState n) (m : Tak.Move) : Option (WFState n) :=
  match h : step s.1 (decode m) with
  | none => none
  | some s' => some ⟨s', (step_WF h s.2.1).1, by rw [(step_WF h s.2.1).2]; exact s.2.2⟩

theorem stepWF_val (n : Nat) (s : WFState n) (m : Tak.Move) :
    (stepWF n s m).map Subtype.val = step s.1 (decode m) := by
  unfold stepWF
  split
  · rename_i h; exact h.symm
  · rename_i s' h; exact h.symm

theorem opt_val_inj {n : Nat} {o1 o2 : Option (WFState n)} (h : o1.map Subtype.val = o2.map Subtype.val) : o1 = o2 := by
  match o1, o2, h with
  | none, none, _ => rfl
  | none, some _, h => simp at h
  | some _, none, h => simp at h
  | some a, some b, h => simp at h; rw [Subtype.ext h]

def actWF (n : Nat) (k : Sym) (s : WFState n) : WFState n :=
  ⟨k.state s.1, Sym.state_WF k s.1, by rw [Sym.state_size]; exact s.2.2⟩

/-- Tak at list level as an instance of the abstract setting -/
@[reducible] def takSys (n : Nat) : Canon.Sys where
  S := WFState n
  M := Tak.Move
  decS := inferInstance
  act := actWF n
  mact := fun k m => k.raw n m
  step := stepWF n
  prefer := prefer
  act_one := fun s => Subtype.ext (Sym.state_one s.2.1)
  act_mul := fun a b s => Subtype.ext (Sym.state_mul a b s.1)
  mact_mul := fun a b m => raw_mul a b n m
  equiv := by
    intro k s m
    apply opt_val_inj
    rw [stepWF_val, Option.map_map]
    show step (k.state s.1) (decode (k.raw n m)) = Option.map (fun x => k.state x.1) (stepWF n s m)
    have : (fun x : WFState n => k.state x.1) = k.state ∘ Subtype.val := rfl
    rw [this, ← Option.map_map, stepWF_val, decode_raw]
    have e := Sym.step_equivariant k s.1 s.2.1 (decode m)
    rw [s.2.2] at e
    exact e
  pref_irrefl := prefer_irrefl
  pref_trans := prefer_trans
  pref_tie := fun a b m h1 h2 => prefer_tie n a b m h1 h2

/-- forgetting the well-formedness proofs -/
def projSt {n : Nat} (st : Canon.St (takSys n)) : CanonSt := ⟨st.b0.1, st.tfn, st.out⟩

theorem scan_proj (n : Nat) (b0 : WFState n) (m : Tak.Move) : ∀ (ks : List Sym) (acc : Tak.Move × Option Sym),
    Canon.scan (takSys n) b0 m ks acc = canonScan b0.1 m ks acc := by
  intro ks
  induction ks with
  | nil => intro acc; rfl
  | cons k ks ih =>
    intro acc
    obtain ⟨best, rot⟩ := acc
    simp only [Canon.scan, canonScan]
    have hsz : ((b0.1.size : Nat) : Int) = (n : Int) := by rw [b0.2.2]
    have hc : ((takSys n).act k b0 = b0) ↔ (k.state b0.1 = b0.1) := by
      constructor
      · intro h; exact congrArg Subtype.val h
      · intro h; exact Subtype.ext h
    by_cases h : k.state b0.1 = b0.1
    · rw [if_pos (hc.2 h), if_pos h, hsz]
      show (if prefer (k.raw n m) best = true then _ else _) = _
      split <;> exact ih _
    · rw [if_neg (fun e => h (hc.1 e)), if_neg h]
      exact ih _

/-- the move played on board 0 in an iteration of the list-level algorithm -/
def cPickM (st : CanonSt) (m0 : Tak.Move) : Tak.Move :=
  Canon.sel (canonScan st.b0 (st.tfn.raw st.b0.size m0) [1, 2, 3, 4, 5, 6, 7] (st.tfn.raw st.b0.size m0, none))
    (st.tfn.raw st.b0.size m0)

def cPickT (st : CanonSt) (m0 : Tak.Move) : Sym :=
  Canon.selT (canonScan st.b0 (st.tfn.raw st.b0.size m0) [1, 2, 3, 4, 5, 6, 7] (st.tfn.raw st.b0.size m0, none)) st.tfn

theorem canonStep_eq (st : CanonSt) (m0 : Tak.Move) :
    canonStep st m0 = match step st.b0 (decode (cPickM st m0)) with
      | none => none
      | some b => some ⟨b, cPickT st m0, st.out ++ [(0 : Sym).raw st.b0.size (cPickM st m0)]⟩ := rfl

theorem pickM_proj (n : Nat) (st : Canon.St (takSys n)) (m0 : Tak.Move) :
    Canon.pickM (takSys n) st m0 = cPickM (projSt st) m0 := by
  have hsz : ((st.b0.1.size : Nat) : Int) = (n : Int) := by rw [st.b0.2.2]
  show Canon.sel (Canon.scan (takSys n) st.b0 (st.tfn.raw n m0) Canon.others (st.tfn.raw n m0, none)) (st.tfn.raw n m0) =
    Canon.sel (canonScan st.b0.1 (st.tfn.raw st.b0.1.size m0) _ (st.tfn.raw st.b0.1.size m0, none)) (st.tfn.raw st.b0.1.size m0)
  rw [scan_proj, hsz]; rfl

theorem pickT_proj (n : Nat) (st : Canon.St (takSys n)) (m0 : Tak.Move) :
    Canon.pickT (takSys n) st m0 = cPickT (projSt st) m0 := by
  have hsz : ((st.b0.1.size : Nat) : Int) = (n : Int) := by rw [st.b0.2.2]
  show Canon.selT (Canon.scan (takSys n) st.b0 (st.tfn.raw n m0) Canon.others (st.tfn.raw n m0, none)) st.tfn =
    Canon.selT (canonScan st.b0.1 (st.tfn.raw st.b0.1.size m0) _ (st.tfn.raw st.b0.1.size m0, none)) st.tfn
  rw [scan_proj, hsz]; rfl

theorem step_proj (n : Nat) (st : Canon.St (takSys n)) (m0 : Tak.Move) :
    (Canon.stepA (takSys n) st m0).map projSt = canonStep (projSt st) m0 := by
  rw [Canon.stepA_eq, canonStep_eq, pickM_proj, pickT_proj]
  have hsz : (((projSt st).b0.size : Nat) : Int) = (n : Int) := by
    show ((st.b0.1.size : Nat) : Int) = n; rw [st.b0.2.2]
  have hv' : step (projSt st).b0 (decode (cPickM (projSt st) m0)) =
      Option.map Subtype.val ((takSys n).step st.b0 (cPickM (projSt st) m0)) :=
    (stepWF_val n st.b0 (cPickM (projSt st) m0)).symm
  rw [hv', hsz]
  cases (takSys n).step st.b0 (cPickM (projSt st) m0) with
  | none => rfl
  | some b => rfl

theorem run_proj (n : Nat) : ∀ (ms : List Tak.Move) (st : Canon.St (takSys n)),
    (Canon.runA (takSys n) st ms).map projSt = canonRun (projSt st) ms := by
  intro ms
  induction ms with
  | nil => intro st; rfl
  | cons m ms ih =>
    intro st
    simp only [Canon.runA, canonRun]
    rw [← step_proj]
    cases Canon.stepA (takSys n) st m with
    | none => rfl
    | some st' => exact ih st'

theorem replay_proj (n : Nat) : ∀ (ms : List Tak.Move) (p : WFState n),
    (Canon.replay (takSys n) p ms).map Subtype.val = replay p.1 ms := by
  intro ms
  induction ms with
  | nil => intro p; rfl
  | cons m ms ih =>
    intro p
    simp only [Canon.replay, replay]
    rw [← stepWF_val n p m]
    cases stepWF n p m with
    | none => rfl
    | some p' => exact ih p'

/-- the start position as a well-formed state -/
def startWF (n : Nat) : WFState n := ⟨startState n, startState_WF n, rfl⟩

theorem canon_eq (n : Nat) (ms : List Tak.Move) : canon n ms = Canon.canonA (takSys n) (startWF n) ms := by
  unfold canon Canon.canonA
  have := run_proj n ms ⟨startWF n, 0, []⟩
  show Option.map (·.out) (canonRun (projSt ⟨startWF n, 0, []⟩) ms) = _
  rw [← this, Option.map_map]
  rfl

theorem replay_lift (n : Nat) (p : WFState n) (ms : List Tak.Move) (pEnd : State) (h : replay p.1 ms = some pEnd) :
    ∃ q : WFState n, Canon.replay (takSys n) p ms = some q ∧ q.1 = pEnd := by
  have := replay_proj n ms p
  rw [h] at this
  cases hq : Canon.replay (takSys n) p ms with
  | none => rw [hq] at this; cases this
  | some q => rw [hq] at this; exact ⟨q, rfl, by simpa using this⟩

end Spec
