import TakVerif.Proofs.TakGamePN3
import TakVerif.Spec.RuleGame

/-! The bit-level Tak game and the rule-book game have the same forced wins: on well-formed analysed
positions `takGame basis` (moves of `AllMoves` that `MovePreallocated` accepts, `GameOver`, `Equal`) and
`Spec.ruleGame` (the rule book's legal moves, `Spec.step`, `Spec.outcome`, same board and mover) are
bisimilar through `Spec.abs` — C01 (moves), C02 (end of the game), C03 (the generator lists exactly the
legal moves), C08 (`Equal`). -/
namespace C06
open Tak Tak.PN Spec.Game Tak.Proofs
open Spec (abs decode ruleGame)

/-- C01's invariant with the piece budget, and analysed groups: kept by every generated accepted move -/
def TakOK (basis : Array W) (p : Pos) : Prop := InvB basis p ∧ p.analyze = some p

/-- `New` returns an analysed position (the same fact as `Pos.new_analysed` of `Proofs/HeapRun.lean`, which
cannot be imported together with `Proofs/PosFactsInst.lean`) -/
theorem new_analysed' {cfg : Tak.Cfg} {p : Pos} (h : Pos.new cfg = .ok p) : p.analyze = some p := by
  unfold Pos.new at h
  split at h
  · cases h
  · extract_lets pieces caps at h
    split at h
    · cases h
    · cases h
      simp [Pos.analyze, floodGroups, floodGroupsFuel]

theorem TakOK.wf {basis : Array W} {p : Pos} (h : TakOK basis p) : WF basis p := h.1.1

theorem TakOK.wflite {basis : Array W} {p : Pos} (h : TakOK basis p) : WFlite p :=
  C03.wflite_of_wf basis p h.wf

theorem mem_legalMoves_iff {basis : Array W} {p : Pos} (h : TakOK basis p) (m : Move) :
    m ∈ Spec.legalMoves (abs p) ↔ m ∈ p.allMoves ∧ (Spec.step (abs p) (decode m)).isSome = true := by
  rw [← (legalMoves_perm' p h.wflite).mem_iff, List.mem_filter]
  rfl

/-- a step of the bit-level game is a step of the rule-book game between the abstractions -/
theorem succ_abs {basis : Array W} {p q : Pos} (h : TakOK basis p) (hs : Succ (takGame basis) p q) :
    TakOK basis q ∧ Succ ruleGame (abs p) (abs q) := by
  obtain ⟨m, hm, ha⟩ := hs
  have hap : p.apply basis m = .ok q := takGame_apply_some.mp ha
  have hnp := gen_not_pass h.wf.size_le (show m ∈ p.allMoves from hm)
  obtain ⟨hi, hst⟩ := invB_step h.1 hnp hap
  refine ⟨⟨hi, Pos.apply_analyzed hap⟩, m, ?_, hst⟩
  show m ∈ Spec.legalMoves (abs p)
  rw [mem_legalMoves_iff h]
  exact ⟨hm, by rw [hst]; rfl⟩

/-- a step of the rule-book game from an abstraction is the abstraction of a step of the bit-level game -/
theorem succ_of_abs {basis : Array W} {p : Pos} {s' : Spec.State} (h : TakOK basis p)
    (hs : Succ ruleGame (abs p) s') : ∃ q, Succ (takGame basis) p q ∧ abs q = s' := by
  obtain ⟨m, hm, ha⟩ := hs
  have hst : Spec.step (abs p) (decode m) = some s' := ha
  obtain ⟨hgen, _⟩ := (mem_legalMoves_iff h m).mp hm
  have hnp := gen_not_pass h.wf.size_le hgen
  have href := move_refines_core (basis := basis) (p := p) analyzeTotalInst h.wf m hnp
    (stackLimit_of_budget m h.1.2)
  cases hpa : p.apply basis m with
  | error e => rw [hpa] at href; simp only at href; rw [href] at hst; cases hst
  | ok q =>
    rw [hpa] at href
    simp only at href
    have : abs q = s' := by
      have := href.1; rw [hst] at this; exact (Option.some.inj this).symm
    exact ⟨q, ⟨m, hgen, takGame_apply_some.mpr hpa⟩, this⟩

theorem over_abs {basis : Array W} {p : Pos} (h : TakOK basis p) :
    (takGame basis).over p = ruleGame.over (abs p) :=
  takGame_over_eq basis p (roadWF_of_inv basis p h.wf h.2)

theorem toMove_abs (basis : Array W) (p : Pos) : (takGame basis).toMove p = ruleGame.toMove (abs p) := rfl

/-- **same plain forced wins** -/
theorem plainWin_abs {basis : Array W} {att : Color} {p : Pos} (h : TakOK basis p)
    (w : PlainWin (takGame basis) att p) : PlainWin ruleGame att (abs p) := by
  induction w with
  | terminal ho => exact .terminal (by rw [← over_abs h]; exact ho)
  | attacker ho ht hs _ ih =>
    obtain ⟨hq, hs'⟩ := succ_abs h hs
    exact .attacker (by rw [← over_abs h]; exact ho) ht hs' (ih hq)
  | defender ho ht _ ih =>
    refine .defender (by rw [← over_abs h]; exact ho) ht ?_
    intro s' hs'
    obtain ⟨q, hq, rfl⟩ := succ_of_abs h hs'
    exact ih q hq (succ_abs h hq).1

theorem plainWin_of_abs {basis : Array W} {att : Color} {s : Spec.State} (w : PlainWin ruleGame att s) :
    ∀ p, TakOK basis p → abs p = s → PlainWin (takGame basis) att p := by
  induction w with
  | terminal ho => intro p h e; subst e; exact .terminal (by rw [over_abs h]; exact ho)
  | attacker ho ht hs _ ih =>
    intro p h e; subst e
    obtain ⟨q, hq, hqe⟩ := succ_of_abs h hs
    exact .attacker (by rw [over_abs h]; exact ho) ht hq (ih q (succ_abs h hq).1 hqe)
  | defender ho ht _ ih =>
    intro p h e; subst e
    refine .defender (by rw [over_abs h]; exact ho) ht ?_
    intro q hq
    obtain ⟨hq', hs'⟩ := succ_abs h hq
    exact ih _ hs' q hq' rfl

/-! ### with the repetition rule -/

/-- `Position.Equal` on well-formed positions is the rule-book game's "same board, same mover" -/
theorem equal_abs {basis : Array W} {t p : Pos} (ht : WF basis t) (hp : WF basis p) :
    (takGame basis).equal t p = ruleGame.equal (abs t) (abs p) := by
  rw [Bool.eq_iff_iff]
  show t.equal p = true ↔ decide ((abs t).size = (abs p).size ∧ (abs t).squares = (abs p).squares ∧
    (abs t).toMove = (abs p).toMove) = true
  rw [equal_iff_core ht hp, decide_eq_true_iff]
  rfl

theorem rep3_abs {basis : Array W} {h : List Pos} {p : Pos} (hh : ∀ t ∈ h, TakOK basis t) (hp : TakOK basis p) :
    Rep3 (takGame basis) h p ↔ Rep3 ruleGame (h.map abs) (abs p) := by
  unfold Rep3
  rw [List.filter_map, List.length_map]
  have : h.filter (fun t => (takGame basis).equal t p) =
      h.filter ((fun t' => ruleGame.equal t' (abs p)) ∘ abs) := by
    apply List.filter_congr
    intro t ht
    exact equal_abs (hh t ht).wf hp.wf
  rw [this]

theorem okCons {basis : Array W} {h : List Pos} {p : Pos} (hh : ∀ t ∈ h, TakOK basis t) (hp : TakOK basis p) :
    ∀ t ∈ p :: h, TakOK basis t := by
  intro t ht
  rcases List.mem_cons.mp ht with e | e
  · subst e; exact hp
  · exact hh t e

/-- **same forced wins under the repetition rule**, along any history of well-formed positions -/
theorem win_abs {basis : Array W} {att : Color} {h : List Pos} {p : Pos}
    (w : Win (takGame basis) att h p) (hh : ∀ t ∈ h, TakOK basis t) (hp : TakOK basis p) :
    Win ruleGame att (h.map abs) (abs p) := by
  induction w with
  | terminal ho => exact .terminal (by rw [← over_abs hp]; exact ho)
  | attacker ho hr ht hs _ ih =>
    obtain ⟨hq, hs'⟩ := succ_abs hp hs
    exact .attacker (by rw [← over_abs hp]; exact ho) (fun r => hr ((rep3_abs hh hp).mpr r)) ht hs'
      (ih (okCons hh hp) hq)
  | defender ho hr ht _ ih =>
    refine .defender (by rw [← over_abs hp]; exact ho) (fun r => hr ((rep3_abs hh hp).mpr r)) ht ?_
    intro s' hs'
    obtain ⟨q, hq, rfl⟩ := succ_of_abs hp hs'
    exact ih q hq (okCons hh hp) (succ_abs hp hq).1

theorem win_of_abs {basis : Array W} {att : Color} {h' : List Spec.State} {s : Spec.State}
    (w : Win ruleGame att h' s) :
    ∀ (h : List Pos) (p : Pos), (∀ t ∈ h, TakOK basis t) → TakOK basis p → h.map abs = h' → abs p = s →
      Win (takGame basis) att h p := by
  induction w with
  | terminal ho => intro h p _ hp _ e; subst e; exact .terminal (by rw [over_abs hp]; exact ho)
  | attacker ho hr ht hs _ ih =>
    intro h p hh hp eh e; subst e; subst eh
    obtain ⟨q, hq, hqe⟩ := succ_of_abs hp hs
    exact .attacker (by rw [over_abs hp]; exact ho) (fun r => hr ((rep3_abs hh hp).mp r)) ht hq
      (ih (p :: h) q (okCons hh hp) (succ_abs hp hq).1 rfl hqe)
  | defender ho hr ht _ ih =>
    intro h p hh hp eh e; subst e; subst eh
    refine .defender (by rw [over_abs hp]; exact ho) (fun r => hr ((rep3_abs hh hp).mp r)) ht ?_
    intro q hq
    obtain ⟨hq', hs'⟩ := succ_abs hp hq
    exact ih _ hs' (p :: h) q (okCons hh hp) hq' rfl rfl

end C06
