import TakVerif.Spec.FPA
import TakVerif.Proofs.Force

/-! A strict, fused evaluator of the opening game (`check`), the proof that a `true` answer means
"every state reachable within the horizon is `good`", and its transport along a board homomorphism. -/
set_option linter.unusedSimpArgs false
set_option linter.unusedVariables false
namespace Proofs.FPA
open Tak Tak.FPA Spec.FPA

def forceRule {α} (r : Rule) (k : Rule → α) : α :=
  Force.int r.blackPlaceX fun a => Force.int r.blackPlaceY fun b => Force.int r.whitePlaceX fun c => Force.int r.whitePlaceY fun d =>
  Force.int r.blackTmpX fun e => Force.int r.blackTmpY fun f => Force.int r.whiteTmpX fun g => Force.int r.whiteTmpY fun h =>
  k ⟨a, b, c, d, e, f, g, h⟩

theorem forceRule_eq {α} (r : Rule) (k : Rule → α) : forceRule r k = k r := by
  simp [forceRule, Force.int_eq]

/-- a way to bring a board into normal form (see `Proofs/Force.lean`) -/
structure Forcer (β : Type) where
  force : β → (β → Bool) → Bool
  force_eq : ∀ b k, force b k = k b

section
variable {β : Type} (B : Board β) (F : Forcer β) (var : Variant) (color : Color)

/-- the successor state, brought into normal form before it is handed on -/
def succ (r : Rule) (cur : β) (m : Move) (q : β) (scripted : Bool) (k : St β → Bool) : Bool :=
  forceRule r fun r => Force.move m fun m => F.force q fun q =>
    k { rule := r, cur := q, prev := some (cur, m), lastScripted := scripted }

theorem succ_eq (r : Rule) (cur : β) (m : Move) (q : β) (scripted : Bool) (k : St β → Bool) :
    succ F r cur m q scripted k = k { rule := r, cur := q, prev := some (cur, m), lastScripted := scripted } := by
  simp [succ, forceRule_eq, Force.move_eq, F.force_eq]

/-- all states within `n` moves of `s` are good (evaluated depth first) -/
def check : Nat → St β → Bool
  | 0, s => good B var color s
  | n+1, s =>
    match turn B var color s with
    | .error _ => false
    | .ok (_, .resign) => !s.lastScripted
    | .ok (r, .scripted m) =>
      match B.step s.cur (Spec.decode m) with
      | none => false
      | some q => succ F r s.cur m q true (check n)
    | .ok (r, _) =>
      (B.cands s.cur).all fun m =>
        !(accepted var r (B.view s.cur) m) ||
        match B.step s.cur (Spec.decode m) with
        | none => true
        | some q => succ F r s.cur m q false (check n)

theorem check_good (n : Nat) (s : St β) (h : check B F var color n s = true) :
    good B var color s = true := by
  cases n with
  | zero => exact h
  | succ n =>
    unfold check at h
    unfold good
    cases ht : turn B var color s with
    | error e => simp [ht] at h
    | ok v =>
      obtain ⟨r, rep⟩ := v
      cases rep with
      | resign => simpa [ht] using h
      | notMyTurn => rfl
      | search => rfl
      | scripted m =>
        simp only [ht] at h ⊢
        cases hs : B.step s.cur (Spec.decode m) with
        | none => simp [hs] at h
        | some q => rfl

theorem check_next (n : Nat) (s t : St β) (h : check B F var color (n+1) s = true)
    (ht : t ∈ next B var color s) : check B F var color n t = true := by
  unfold check at h
  unfold next at ht
  cases htu : turn B var color s with
  | error e => simp [htu] at ht
  | ok v =>
    obtain ⟨r, rep⟩ := v
    cases rep with
    | resign => simp [htu] at ht
    | scripted m =>
      simp only [htu] at h ht
      cases hs : B.step s.cur (Spec.decode m) with
      | none => simp [hs] at ht
      | some q =>
        simp only [hs, List.mem_singleton] at h ht
        subst ht
        simpa [succ_eq] using h
    | notMyTurn =>
      simp only [htu, List.mem_filterMap] at h ht
      obtain ⟨m, hm, hsome⟩ := ht
      rw [List.all_eq_true] at h
      have hm' := h m hm
      by_cases ha : accepted var r (B.view s.cur) m = true
      · simp only [ha, if_true, Option.map_eq_some_iff] at hsome
        obtain ⟨q, hq, hq2⟩ := hsome
        subst hq2
        simpa [ha, hq, succ_eq] using hm'
      · simp [ha] at hsome
    | search =>
      simp only [htu, List.mem_filterMap] at h ht
      obtain ⟨m, hm, hsome⟩ := ht
      rw [List.all_eq_true] at h
      have hm' := h m hm
      by_cases ha : accepted var r (B.view s.cur) m = true
      · simp only [ha, if_true, Option.map_eq_some_iff] at hsome
        obtain ⟨q, hq, hq2⟩ := hsome
        subst hq2
        simpa [ha, hq, succ_eq] using hm'
      · simp [ha] at hsome

/-- **soundness of the evaluator** -/
theorem check_sound (n : Nat) :
    ∀ (s : St β), check B F var color n s = true →
      ∀ (k : Nat) (t : St β), k ≤ n → Reach B var color k s t → good B var color t = true := by
  induction n with
  | zero =>
    intro s h k t hk hr
    cases hr with
    | refl => exact h
    | step n' _ u _ hu hr' => omega
  | succ n ih =>
    intro s h k t hk hr
    cases hr with
    | refl => exact check_good B F var color (n+1) s h
    | step k' _ u _ hu hr' =>
      exact ih u (check_next B F var color n s u h hu) k' t (by omega) hr'

end

/-! ### splitting the evaluation at a free node

The kernel keeps everything it has evaluated for one declaration in memory; one evaluation of a whole
opening tree needs many gigabytes.  `checkAt` is the conjunct of `check (n+1) s` for the `i`-th candidate
of a node where the move is free, so that the tree can be evaluated in independent declarations. -/

section
variable {β : Type} (B : Board β) (F : Forcer β) (var : Variant) (color : Color)

def checkAt (n : Nat) (s : St β) (r : Rule) (i : Nat) : Bool :=
  match (B.cands s.cur)[i]? with
  | none => true
  | some m =>
    !(accepted var r (B.view s.cur) m) ||
    match B.step s.cur (Spec.decode m) with
    | none => true
    | some q => succ F r s.cur m q false (check B F var color n)

theorem check_of_shards (n : Nat) (s : St β) (r : Rule) (rep : Reply)
    (ht : turn B var color s = .ok (r, rep)) (hrep : rep = .notMyTurn ∨ rep = .search)
    (h : ∀ i, i < (B.cands s.cur).length → checkAt B F var color n s r i = true) :
    check B F var color (n+1) s = true := by
  unfold check
  rcases hrep with rfl | rfl
  all_goals (
    simp only [ht]
    rw [List.all_eq_true]
    intro m hm
    obtain ⟨i, hi, rfl⟩ := List.getElem_of_mem hm
    have := h i hi
    unfold checkAt at this
    simpa [List.getElem?_eq_getElem hi] using this)

end

/-! ### transport along a homomorphism of boards -/

/-- `f` maps the board `B` onto (part of) the board `C` compatibly with everything the game uses -/
structure Hom {β γ : Type} (B : Board β) (C : Board γ) (f : β → γ) : Prop where
  view : ∀ b, C.view (f b) = B.view b
  toMove : ∀ b, C.toMove (f b) = B.toMove b
  step : ∀ b m, C.step (f b) m = (B.step b m).map f
  cands : ∀ b, C.cands (f b) = B.cands b

def mapSt {β γ : Type} (f : β → γ) (s : St β) : St γ :=
  { rule := s.rule, cur := f s.cur, prev := s.prev.map (fun (q, m) => (f q, m)), lastScripted := s.lastScripted }

section
variable {β γ : Type} {B : Board β} {C : Board γ} {f : β → γ} (H : Hom B C f)
  (FB : Forcer β) (FC : Forcer γ) (var : Variant) (color : Color)
include H

theorem turn_hom (s : St β) : turn C var color (mapSt f s) = turn B var color s := by
  unfold turn mapSt
  simp only [H.view, H.toMove]
  cases s.prev with
  | none => rfl
  | some qm => obtain ⟨q, m⟩ := qm; simp [H.view]

theorem good_hom (s : St β) : good C var color (mapSt f s) = good B var color s := by
  unfold good
  rw [turn_hom H]
  cases turn B var color s with
  | error e => rfl
  | ok v =>
    obtain ⟨r, rep⟩ := v
    cases rep with
    | resign => rfl
    | notMyTurn => rfl
    | search => rfl
    | scripted m =>
      simp only [mapSt, H.step]
      cases B.step s.cur (Spec.decode m) <;> rfl

theorem check_hom (n : Nat) : ∀ s : St β, check C FC var color n (mapSt f s) = check B FB var color n s := by
  induction n with
  | zero => intro s; exact good_hom H var color s
  | succ n ih =>
    intro s
    unfold check
    rw [turn_hom H]
    cases turn B var color s with
    | error e => rfl
    | ok v =>
      obtain ⟨r, rep⟩ := v
      have key : ∀ (m : Move) (sc : Bool),
          (match C.step (mapSt f s).cur (Spec.decode m) with
            | none => !sc
            | some q => succ FC r (mapSt f s).cur m q sc (check C FC var color n))
          = (match B.step s.cur (Spec.decode m) with
            | none => !sc
            | some q => succ FB r s.cur m q sc (check B FB var color n)) := by
        intro m sc
        simp only [mapSt, H.step]
        cases B.step s.cur (Spec.decode m) with
        | none => rfl
        | some q =>
          simp only [Option.map, succ_eq]
          exact ih { rule := r, cur := q, prev := some (s.cur, m), lastScripted := sc }
      cases rep with
      | resign => rfl
      | scripted m => simpa using key m true
      | notMyTurn =>
        simp only []
        have hc : C.cands (mapSt f s).cur = B.cands s.cur := H.cands s.cur
        have hv : C.view (mapSt f s).cur = B.view s.cur := H.view s.cur
        rw [hc, hv]
        congr 1
        funext m
        have := key m false
        simp only [Bool.not_false] at this
        rw [this]
      | search =>
        simp only []
        have hc : C.cands (mapSt f s).cur = B.cands s.cur := H.cands s.cur
        have hv : C.view (mapSt f s).cur = B.view s.cur := H.view s.cur
        rw [hc, hv]
        congr 1
        funext m
        have := key m false
        simp only [Bool.not_false] at this
        rw [this]

end

end Proofs.FPA
