import TakVerif.Proofs.TakGameBisim
import TakVerif.Proofs.TakGameInst
import TakVerif.Proofs.TakGamePN3

/-! `Position.Equal` is a bisimulation of the search's Tak instance on the positions of one game (from
`C06.takGame_equalIsBisimFrom`); hence, among the positions of one game, "equal hashes ⇒ `Equal`" (the no-collision
hypothesis about hashes) gives the hypothesis `HashOK` of the table theorems — for evaluators whose verdict class is
determined by the game end and the side to move (`EvVerdictCongr`; `EvaluateWinner` is one). -/
namespace Search
open Tak Tak.Proofs

/-- the positions of the game played from `root`: reached by generated, accepted moves -/
def InGame (basis : Array W) (root p : Pos) : Prop := C06.Reach (Tak.PN.takGame basis) root p

/-- the evaluator's verdict class depends only on the game end (over?, winner) and the side to move -/
def EvVerdictCongr (ev : Pos → Int) : Prop :=
  ∀ p q : Pos, p.gameOver = q.gameOver → p.toMove = q.toMove →
    (ev p > Facts.winThreshold → ev q > Facts.winThreshold) ∧
    (ev p < -Facts.winThreshold → ev q < -Facts.winThreshold)

theorem evVerdictCongr_winner : EvVerdictCongr evalWinner := by
  intro p q hgo htm
  have : evalWinner p = evalWinner q := by
    unfold evalWinner
    rw [hgo, htm]
  rw [this]
  exact ⟨id, id⟩

variable (basis : Array W) (ev : Pos → Int) (sym : Pos → List H)

theorem pn_over_gameOver {p q : Pos} (h : (Tak.PN.takGame basis).over p = (Tak.PN.takGame basis).over q)
    (hp : p.gameOver.1 = false → p.gameOver.2 = .none) (hq : q.gameOver.1 = false → q.gameOver.2 = .none) :
    p.gameOver = q.gameOver := by
  simp only [Tak.PN.takGame] at h
  rcases hgp : p.gameOver with ⟨a, b⟩
  rcases hgq : q.gameOver with ⟨c, d⟩
  rw [hgp, hgq] at h
  rw [hgp] at hp
  rw [hgq] at hq
  dsimp only at h hp hq
  cases a <;> cases c
  · rw [hp rfl, hq rfl]
  · simp at h
  · simp at h
  · simp only [if_true, Option.some.injEq] at h
    rw [h]

theorem gameOver_false_none (p : Pos) (h : p.gameOver.1 = false) : p.gameOver.2 = .none := by
  unfold Pos.gameOver at h ⊢
  split at h
  · split at h
    · cases h
    · split at h
      · rename_i h1 h2
        simp only [h1, h2]
        rfl
      · cases h

theorem succ_of_kid {p : Pos} {x : Move × Pos} (hx : x ∈ kids (takGame basis ev sym) p) :
    Spec.Game.Succ (Tak.PN.takGame basis) p x.2 := by
  obtain ⟨hm, hap⟩ := mem_kids.mp (show (x.1, x.2) ∈ kids (takGame basis ev sym) p from hx)
  exact ⟨x.1, hm, C06.takGame_apply_some.mpr hap⟩

theorem kid_of_succ {p q : Pos} (h : Spec.Game.Succ (Tak.PN.takGame basis) p q) :
    ∃ y ∈ kids (takGame basis ev sym) p, y.2 = q := by
  obtain ⟨m, hm, ha⟩ := h
  exact ⟨(m, q), mem_kids.mpr ⟨hm, C06.takGame_apply_some.mp ha⟩, rfl⟩

/-- **`Equal` positions of one game are bisimilar for the search** -/
theorem takSearchBisim (hev : EvVerdictCongr ev) (root : Pos) (hi : InvB basis root) (ha : root.analyze = some root) :
    SearchBisim (takGame basis ev sym)
      (fun p q => InGame basis root p ∧ InGame basis root q ∧ p.equal q = true) := by
  have hb := C06.takGame_equalIsBisimFrom basis root hi ha
  have hgo : ∀ p q, InGame basis root p → InGame basis root q → p.equal q = true → p.gameOver = q.gameOver :=
    fun p q rp rq he => pn_over_gameOver basis (hb.over p q rp rq he) (gameOver_false_none p) (gameOver_false_none q)
  refine ⟨?_, ?_, ?_, ?_, ?_⟩
  · rintro p q ⟨rp, rq, he⟩
    exact ⟨rq, rp, hb.symm p q rp rq he⟩
  · rintro p q ⟨rp, rq, he⟩
    show p.gameOver.1 = q.gameOver.1
    rw [hgo p q rp rq he]
  · rintro p q ⟨rp, rq, he⟩
    exact (hev p q (hgo p q rp rq he) (hb.toMove p q rp rq he)).1
  · rintro p q ⟨rp, rq, he⟩
    exact (hev p q (hgo p q rp rq he) (hb.toMove p q rp rq he)).2
  · rintro p q ⟨rp, rq, he⟩ x hx
    have hs := succ_of_kid basis ev sym hx
    obtain ⟨t', hst, het⟩ := hb.step p q x.2 rp rq he hs
    obtain ⟨y, hy, rfl⟩ := kid_of_succ basis ev sym hst
    exact ⟨y, hy, .step rp hs, .step rq hst, het⟩

/-- the positions of the game from a good root are good -/
theorem goodPos_inGame {root p : Pos} (hroot : GoodPos basis root) (h : InGame basis root p) : GoodPos basis p := by
  induction h with
  | refl => exact hroot
  | step _ hs ih =>
    obtain ⟨m, hm, ha⟩ := hs
    exact goodPos_apply basis ih (gen_not_pass ih.1.1.size_le hm) (C06.takGame_apply_some.mp ha)

/-- being a position of the game from `root` is kept by every applied non-pass move (the generator lists a move
`Equal` to it) -/
theorem domClosed_inGame (root : Pos) : DomClosed basis (fun q => TakD q ∧ InGame basis root q) := by
  intro p q m hwf hd hnp hap
  refine ⟨domClosed_takD basis p q m hwf hd.1 hnp hap, ?_⟩
  obtain ⟨m', hm', he⟩ := C03.allMoves_complete_wf basis p hwf m q hnp hap
  have hap' : p.apply basis m' = .ok q := by rw [apply_of_equal basis p m' m he]; exact hap
  exact .step hd.2 ⟨m', hm', C06.takGame_apply_some.mpr hap'⟩

/-- every position reached from a position of the game by applied non-pass moves (generated or not) is a position of
the game -/
theorem inGame_applyAll {root : Pos} (hroot : GoodPos basis root) : ∀ (ms : List Move) (p q : Pos),
    InGame basis root p → (∀ m ∈ ms, m.type ≠ Facts.mtPass) → p.applyAll basis ms = .ok q → InGame basis root q := by
  intro ms
  induction ms with
  | nil => intro p q hp _ h; simp only [Pos.applyAll] at h; cases h; exact hp
  | cons m ms ih =>
    intro p q hp hnp h
    simp only [Pos.applyAll] at h
    cases hap : p.apply basis m with
    | error e => rw [hap] at h; cases h
    | ok p1 =>
      rw [hap] at h
      have hg := goodPos_inGame basis hroot hp
      have h1 := domClosed_inGame basis root p p1 m hg.1.1 ⟨hg.2, hp⟩ (hnp m (by simp)) hap
      exact ih p1 q h1.2 (fun x hx => hnp x (by simp [hx])) h

/-- **no collision among the positions of one game ⇒ `HashOK` there**: if positions of the game from `root` with
equal hashes are `Equal` (same board, same side to move), they have the same verdict class at every depth -/
theorem hashOKOn_of_noCollision (hev : EvVerdictCongr ev) (root : Pos) (hroot : GoodPos basis root)
    (hcol : ∀ p q, InGame basis root p → InGame basis root q → p.hashOf = q.hashOf → p.equal q = true) :
    HashOKOn (takGame basis ev sym) (fun q => InvB basis q ∧ TakD q ∧ InGame basis root q) := by
  intro p q hp hq hh d
  exact negamax_cls_congr (takSearchBisim basis ev sym hev root hroot.1 hroot.2.2) d p q
    ⟨hp.2.2, hq.2.2, hcol p q hp.2.2 hq.2.2 hh⟩

end Search
