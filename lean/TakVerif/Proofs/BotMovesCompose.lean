import TakVerif.Proofs.BotComposeInv
import TakVerif.Proofs.BotMoves
import TakVerif.Proofs.FPANoPass
import TakVerif.Proofs.FPATotal

/-! `Bot.MInv` (every move of the record is a placement or a slide) through the composed system: the moves the composed
events feed into the loop are the server's (`deliver`), the zero move, the rule's scripted move (`FPA.getMove_not_pass`)
and the searching player's answer. -/
namespace Tak.Compose
open Tak Tak.Bot Tak.Glue Tak.FPA

variable {σ χ : Type}

theorem fpaScript_not_pass {f : Option (Variant × Rule)} {p : Pos} {m : Move} (h : fpaScript f p = .ok (some m)) :
    m.type ≠ Facts.mtPass := by
  cases f with
  | none => cases h
  | some vr => exact getMove_not_pass (var := vr.1) (r := vr.2) h

theorem fpaScriptD_not_pass {f : Option (Variant × Rule)} {p : Pos} {m : Move} (h : fpaScriptD f p = .ok (some m)) :
    m.type ≠ Facts.mtPass := by
  cases f with
  | none => cases h
  | some vr => exact getMoveD_not_pass (var := vr.1) (r := vr.2) h

/-- the tail of `Friendly.GetMove` after the rule check: a `.move` comes from the script -/
theorem tail_move {f' f2 : Option (Variant × Rule)} {g : GameRec} {p : Pos} {o : CheckOracle} {script : R (Option Move)} {m : Move}
    (h : (if p.toMove ≠ g.color then (.ok (f', .noMove) : R (Option (Variant × Rule) × Action)) else
      match script with
      | .error e => .error e
      | .ok (some m) => .ok (f', .move m)
      | .ok none =>
        match waitUndo g o with
        | .error e => .error e
        | .ok w => .ok (f', .think (some Facts.maxThink) (some (if w then .undo else .minThink)))) = .ok (f2, .move m)) :
    script = .ok (some m) := by
  split at h
  · cases h
  · split at h
    · cases h
    · injection h with h
      have := (Prod.mk.inj h).2
      injection this with this
      rw [this]
    · split at h <;> cases h

theorem friendly_move_not_pass {fpa f' : Option (Variant × Rule)} {g : GameRec} {p : Pos} {o : CheckOracle} {m : Move}
    (h : Tak.Glue.friendlyGetMove fpa g p o = .ok (f', .move m)) : m.type ≠ Facts.mtPass := by
  rw [friendly_cases] at h
  cases hc : fpaCheck fpa g p with
  | error e => rw [hc] at h; cases h
  | ok v =>
    obtain ⟨f1, rej⟩ := v
    rw [hc] at h
    cases rej with
    | some msg => cases h
    | none => exact fpaScript_not_pass (tail_move h)

theorem friendlyPinned_move_not_pass {fpa f' : Option (Variant × Rule)} {g : GameRec} {p : Pos} {o : CheckOracle} {m : Move}
    (h : Tak.Glue.friendlyGetMovePinned fpa g p o = .ok (f', .move m)) : m.type ≠ Facts.mtPass := by
  rw [friendly_cases_pinned] at h
  cases hc : fpaCheckPinned fpa g p with
  | error e => rw [hc] at h; cases h
  | ok v =>
    obtain ⟨f1, rej⟩ := v
    rw [hc] at h
    cases rej with
    | some msg => cases h
    | none => exact fpaScript_not_pass (tail_move h)

theorem friendlyD_move_not_pass {fpa f' : Option (Variant × Rule)} {g : GameRec} {p : Pos} {o : CheckOracle} {m : Move}
    (h : Tak.Glue.friendlyGetMoveD fpa g p o = .ok (f', .move m)) : m.type ≠ Facts.mtPass := by
  rw [friendlyD_cases] at h
  cases hc : fpaCheck fpa g p with
  | error e => rw [hc] at h; cases h
  | ok v =>
    obtain ⟨f1, rej⟩ := v
    rw [hc] at h
    cases rej with
    | some msg => cases h
    | none => exact fpaScriptD_not_pass (tail_move h)

/-- a move `GetMove` returns without searching (the rule's script) is never the pass -/
theorem glueOn_move_not_pass {c : Conf} {fpa f' : Option (Variant × Rule)} {ps : List Pos} {ms : List Move} {p : Pos}
    {mine : Int} {chk : CheckOracle} {m : Move} (h : glueOn c fpa ps ms p mine chk = .ok (f', .move m)) :
    m.type ≠ Facts.mtPass := by
  unfold glueOn at h
  split at h
  · split at h
    · unfold friendlyOf at h
      split at h
      · exact friendlyD_move_not_pass h
      · exact friendly_move_not_pass h
    · exact friendlyPinned_move_not_pass h
  · injection h with h
    have := (Prod.mk.inj h).2
    unfold takticianGetMove at this
    split at this
    · cases this
    · split at this <;> cases this

/-- the composed event does not carry the pass (a server line parses to a placement or a slide) -/
def EvNoPass : Ev χ → Prop
  | .deliver _ (some m) => m.type ≠ Facts.mtPass
  | _ => True

instance (e : Ev χ) : Decidable (EvNoPass e) :=
  match e with
  | .deliver _ (some m) => inferInstanceAs (Decidable (m.type ≠ Facts.mtPass))
  | .deliver _ none => isTrue trivial
  | .close => isTrue trivial
  | .timerFires => isTrue trivial
  | .enter _ _ => isTrue trivial
  | .leave _ _ => isTrue trivial

theorem zeroMove_not_pass : Bot.zeroMove.type ≠ Facts.mtPass := by decide

theorem minv_grant (cfg : Bot.Conf) {b : Bot.St} (h : MInv b) (k : Nat) : MInv (Bot.grant b k) :=
  minv_step cfg h (.grant k) trivial

theorem minv_aiReturns (cfg : Bot.Conf) {b : Bot.St} (h : MInv b) (k : Nat) (m : Move) (hm : m.type ≠ Facts.mtPass) :
    MInv (Bot.aiReturns cfg b k m) :=
  minv_step cfg h (.aiReturns k m) hm

/-- one composed step keeps the record's moves placements and slides -/
theorem minv_composed_step {c : Conf} {S : Searcher σ χ} {G : σ → Prop} {s : St σ χ}
    (hSP : ∀ x p e m e', S.run x p e = .ok (m, e') → m.type ≠ Facts.mtPass)
    (h : CInv c S G s) (hM : MInv s.b) (e : Ev χ) (he : EvNoPass e) : MInv (step c S s e).b := by
  unfold step
  split
  · exact hM
  · cases e with
    | deliver bits parsed =>
      refine minv_step c.bot hM (.deliver bits parsed c.acceptUndo) ?_
      cases parsed with
      | none => trivial
      | some m => exact he
    | close => exact minv_step c.bot hM .close trivial
    | timerFires => exact minv_step c.bot hM .timerFires trivial
    | enter k chk =>
      dsimp only
      unfold enter
      split
      · exact hM
      · split
        · exact hM
        · split
          · exact minv_aiReturns c.bot (minv_grant c.bot hM k) k _ zeroMove_not_pass
          · split
            · exact minv_grant c.bot hM k
            · split
              · exact minv_grant c.bot hM k
              · exact minv_grant c.bot hM k
    | leave k x =>
      dsimp only
      unfold leave
      split
      · exact hM
      · rename_i call hin
        have hcall : CallOK c call := h.calls call (h.inside call hin).1
        split
        · exact hM
        · split
          · exact hM
          · split
            · exact hM
            · split
              · split
                · exact minv_aiReturns c.bot hM _ _ zeroMove_not_pass
                · exact hM
              · exact minv_aiReturns c.bot hM _ _ zeroMove_not_pass
              · rename_i m hact
                refine minv_aiReturns c.bot hM _ _ ?_
                unfold CallOK at hcall
                rw [hact] at hcall
                exact glueOn_move_not_pass hcall
              · split
                · exact hM
                · rename_i m eng' hrun
                  exact minv_aiReturns c.bot hM _ _ (hSP _ _ _ _ _ hrun)

end Tak.Compose
