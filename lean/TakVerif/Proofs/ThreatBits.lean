import TakVerif.Impl.Evaluate

/-! Bit-level toolkit for C19: pointwise reading of `grow`, the edge masks of `Precompute` for sizes 3..8
(by kernel evaluation over the 64 positions), non-emptiness of words. Core Lean only. -/
namespace C19
open Tak

/-- pointwise inclusion of bit sets -/
def Sub (a b : W) : Prop := ∀ i, a.getLsbD i = true → b.getLsbD i = true

theorem Sub.refl (a : W) : Sub a a := fun _ h => h
theorem Sub.trans {a b c : W} (h1 : Sub a b) (h2 : Sub b c) : Sub a c := fun i h => h2 i (h1 i h)

theorem ne_zero_of_bit {x : W} {i : Nat} (h : x.getLsbD i = true) : x ≠ 0#64 := by
  intro e; rw [e] at h; simp at h

theorem exists_bit_of_ne_zero {x : W} (h : x ≠ 0#64) : ∃ i, i < 64 ∧ x.getLsbD i = true := by
  apply Classical.byContradiction
  intro hn
  apply h
  apply BitVec.eq_of_getLsbD_eq
  intro i hi
  have : ¬ (x.getLsbD i = true) := fun hx => hn ⟨i, hi, hx⟩
  simp at this ⊢
  exact this

theorem bne_zero_iff (x : W) : (x != 0#64) = true ↔ x ≠ 0#64 := by simp

theorem and_bit {a b : W} {i : Nat} : (a &&& b).getLsbD i = (a.getLsbD i && b.getLsbD i) := BitVec.getLsbD_and ..
theorem or_bit {a b : W} {i : Nat} : (a ||| b).getLsbD i = (a.getLsbD i || b.getLsbD i) := BitVec.getLsbD_or ..

theorem bit_getLsbD (i j : Nat) (hi : i < 64) : (bit i).getLsbD j = decide (j = i) := by
  unfold bit
  rw [BitVec.getLsbD_shiftLeft]
  by_cases h : j = i
  · subst h; simp [hi]
  · by_cases h2 : j < i
    · simp [h2, h]
    · have : j - i ≠ 0 := by omega
      simp [h2, h, BitVec.getLsbD_one, this]

/-- bit-level meaning of `Grow` -/
theorem grow_bit (c : Consts) (w s : W) (i : Nat) (hi : i < 64) :
    (Gen.grow c w s).getLsbD i =
      (( s.getLsbD i
        || (decide (1 ≤ i) && s.getLsbD (i - 1) && !c.R.getLsbD i)
        || (s.getLsbD (i + 1) && !c.L.getLsbD i)
        || s.getLsbD (i + c.Size)
        || (decide (c.Size ≤ i) && s.getLsbD (i - c.Size)) ) && w.getLsbD i) := by
  unfold Gen.grow
  simp only [BitVec.getLsbD_and, BitVec.getLsbD_or, BitVec.getLsbD_shiftLeft,
    BitVec.getLsbD_ushiftRight, BitVec.getLsbD_not, hi, decide_true, Bool.true_and]
  congr 1
  have e1 : (!decide (i < 1)) = decide (1 ≤ i) := by
    by_cases h : i < 1 <;> simp [h] <;> omega
  have e2 : (!decide (i < c.Size)) = decide (c.Size ≤ i) := by
    by_cases h : i < c.Size <;> simp [h] <;> omega
  rw [e1, e2, Nat.add_comm 1 i, Nat.add_comm c.Size i]

/-! ### the masks of `Precompute`, sizes 3..8 -/

def SizeOK (n : Nat) : Prop := n = 3 ∨ n = 4 ∨ n = 5 ∨ n = 6 ∨ n = 7 ∨ n = 8

theorem sizeOK_of_range {n : Nat} (h1 : 3 ≤ n) (h2 : n ≤ 8) : SizeOK n := by unfold SizeOK; omega

theorem size_field (n : Nat) : (Gen.precompute n).Size = n := rfl

theorem mask_bit (n : Nat) (hs : SizeOK n) (i : Fin 64) :
    (Gen.precompute n).Mask.getLsbD i = decide (i.val < n * n) := by
  rcases hs with h | h | h | h | h | h <;> subst h <;> revert i <;> decide

theorem R_bit (n : Nat) (hs : SizeOK n) (i : Fin 64) :
    (Gen.precompute n).R.getLsbD i = (decide (i.val % n = 0) && decide (i.val < n * n)) := by
  rcases hs with h | h | h | h | h | h <;> subst h <;> revert i <;> decide

theorem L_bit (n : Nat) (hs : SizeOK n) (i : Fin 64) :
    (Gen.precompute n).L.getLsbD i = (decide (i.val % n = n - 1) && decide (i.val < n * n)) := by
  rcases hs with h | h | h | h | h | h <;> subst h <;> revert i <;> decide

theorem B_bit (n : Nat) (hs : SizeOK n) (i : Fin 64) :
    (Gen.precompute n).B.getLsbD i = decide (i.val < n) := by
  rcases hs with h | h | h | h | h | h <;> subst h <;> revert i <;> decide

theorem T_bit (n : Nat) (hs : SizeOK n) (i : Fin 64) :
    (Gen.precompute n).T.getLsbD i = (decide (n * (n - 1) ≤ i.val) && decide (i.val < n * n)) := by
  rcases hs with h | h | h | h | h | h <;> subst h <;> revert i <;> decide

end C19
