import TakVerif.Proofs.C06Inv

/-! A plain forced win (least fixed point without any repetition rule) is a forced win under the
rule "a third occurrence on the path counts against the attacker", from an empty history: a winning
strategy that always steps to a position of least rank never repeats a position. -/
namespace C06
open Tak Tak.PN Spec.Game

variable {S M : Type} (G : Game S M) (att : Color)

/-- the attacker wins within `n` plies -/
inductive WinN : Nat → S → Prop
  | terminal {n : Nat} {s : S} : G.over s = some att → WinN n s
  | attacker {n : Nat} {s s' : S} : G.over s = none → G.toMove s = att → Succ G s s' → WinN n s' → WinN (n+1) s
  | defender {n : Nat} {s : S} : G.over s = none → G.toMove s ≠ att → (∀ s', Succ G s s' → WinN n s') → WinN (n+1) s

theorem WinN.succ {n : Nat} {s : S} (w : WinN G att n s) : WinN G att (n+1) s := by
  induction w with
  | terminal ho => exact .terminal ho
  | attacker ho ht hs _ ih => exact .attacker ho ht hs ih
  | defender ho ht _ ih => exact .defender ho ht ih

theorem WinN.mono {n k : Nat} {s : S} (w : WinN G att n s) (h : n ≤ k) : WinN G att k s := by
  induction h with
  | refl => exact w
  | step _ ih => exact WinN.succ G att ih

/-- finitely many moves: one bound serves all successors -/
theorem uniform_bound (s : S) (P : S → Nat → Prop) (hmono : ∀ s' n, P s' n → P s' (n+1))
    (h : ∀ s', Succ G s s' → ∃ n, P s' n) : ∃ n, ∀ s', Succ G s s' → P s' n := by
  have hmono' : ∀ s' n k, n ≤ k → P s' n → P s' k := by
    intro s' n k hk hp
    induction hk with
    | refl => exact hp
    | step _ ih => exact hmono _ _ ih
  have key : ∀ l : List M, (∀ m ∈ l, m ∈ G.moves s) →
      ∃ n, ∀ m ∈ l, ∀ s', G.apply s m = some s' → P s' n := by
    intro l
    induction l with
    | nil => intro _; exact ⟨0, by simp⟩
    | cons m l ih =>
      intro hl
      obtain ⟨n1, h1⟩ := ih (fun x hx => hl x (List.mem_cons_of_mem _ hx))
      cases happ : G.apply s m with
      | none =>
        refine ⟨n1, ?_⟩
        intro x hx s' hs'
        rcases List.mem_cons.mp hx with hx | hx
        · subst hx; rw [happ] at hs'; exact absurd hs' (by simp)
        · exact h1 x hx s' hs'
      | some s1 =>
        obtain ⟨n2, h2⟩ := h s1 ⟨m, hl m List.mem_cons_self, happ⟩
        refine ⟨max n1 n2, ?_⟩
        intro x hx s' hs'
        rcases List.mem_cons.mp hx with hx | hx
        · subst hx
          rw [happ] at hs'
          have := Option.some.inj hs'
          subst this
          exact hmono' _ _ _ (Nat.le_max_right _ _) h2
        · exact hmono' _ _ _ (Nat.le_max_left _ _) (h1 x hx s' hs')
  obtain ⟨n, hn⟩ := key (G.moves s) (fun m hm => hm)
  exact ⟨n, fun s' ⟨m, hm, happ⟩ => hn m hm s' happ⟩

theorem plainWin_bounded {s : S} (w : PlainWin G att s) : ∃ n, WinN G att n s := by
  induction w with
  | terminal ho => exact ⟨0, .terminal ho⟩
  | attacker ho ht hs _ ih =>
    obtain ⟨n, hn⟩ := ih
    exact ⟨n+1, .attacker ho ht hs hn⟩
  | @defender s ho ht _ ih =>
    obtain ⟨n, hn⟩ := uniform_bound G s (fun s' n => WinN G att n s') (fun _ _ h => WinN.succ G att h) ih
    exact ⟨n+1, .defender ho ht hn⟩

/-- `EqualIsBisim` as far as play from `root` can see: every clause is asked only of positions
reachable from `root` by generated, accepted moves -/
structure EqualIsBisimFrom (root : S) : Prop where
  refl : ∀ s, Reach G root s → G.equal s s = true
  symm : ∀ s t, Reach G root s → Reach G root t → G.equal s t = true → G.equal t s = true
  trans : ∀ s t u, Reach G root s → Reach G root t → Reach G root u →
    G.equal s t = true → G.equal t u = true → G.equal s u = true
  over : ∀ s t, Reach G root s → Reach G root t → G.equal s t = true → G.over s = G.over t
  toMove : ∀ s t, Reach G root s → Reach G root t → G.equal s t = true → G.toMove s = G.toMove t
  step : ∀ s t s', Reach G root s → Reach G root t → G.equal s t = true → Succ G s s' →
    ∃ t', Succ G t t' ∧ G.equal s' t' = true

theorem EqualIsBisim.from_root {G : Game S M} (hb : EqualIsBisim G) (root : S) : EqualIsBisimFrom G root where
  refl := fun s _ => hb.refl s
  symm := fun s t _ _ => hb.symm s t
  trans := fun s t u _ _ _ => hb.trans s t u
  over := fun s t _ _ => hb.over s t
  toMove := fun s t _ _ => hb.toMove s t
  step := fun s t s' _ _ => hb.step s t s'

/-- positions the rules cannot tell apart have the same bounded wins -/
theorem WinN.equal {root : S} (hb : EqualIsBisimFrom G root) : ∀ (n : Nat) (s t : S),
    Reach G root s → Reach G root t → G.equal s t = true →
    WinN G att n s → WinN G att n t := by
  intro n
  induction n with
  | zero =>
    intro s t rs rt he w
    cases w with
    | terminal ho => exact .terminal (by rw [← hb.over s t rs rt he]; exact ho)
  | succ n ih =>
    intro s t rs rt he w
    cases w with
    | terminal ho => exact .terminal (by rw [← hb.over s t rs rt he]; exact ho)
    | attacker ho ht hs hw =>
      obtain ⟨t', hst, het⟩ := hb.step s t _ rs rt he hs
      exact .attacker (by rw [← hb.over s t rs rt he]; exact ho) (by rw [← hb.toMove s t rs rt he]; exact ht) hst
        (ih _ _ (.step rs hs) (.step rt hst) het hw)
    | defender ho ht hall =>
      refine .defender (by rw [← hb.over s t rs rt he]; exact ho) (by rw [← hb.toMove s t rs rt he]; exact ht) ?_
      intro t' hst
      obtain ⟨s', hss, hes⟩ := hb.step t s t' rt rs (hb.symm s t rs rt he) hst
      exact ih _ _ (.step rs hss) (.step rt hst) (hb.symm _ _ (.step rt hst) (.step rs hss) hes) (hall s' hss)

/-- least rank -/
theorem exists_least {s : S} : ∀ {n : Nat}, WinN G att n s →
    ∃ k, k ≤ n ∧ WinN G att k s ∧ ∀ j, j < k → ¬ WinN G att j s := by
  intro n
  induction n using Nat.strongRecOn with
  | _ n ih =>
    intro w
    by_cases hex : ∃ j, j < n ∧ WinN G att j s
    · obtain ⟨j, hj, hw⟩ := hex
      obtain ⟨k, hk, hwk, hmin⟩ := ih j hj hw
      exact ⟨k, by omega, hwk, hmin⟩
    · refine ⟨n, Nat.le_refl _, w, ?_⟩
      intro j hj hw
      exact hex ⟨j, hj, hw⟩

theorem win_of_least {root : S} (hb : EqualIsBisimFrom G root) : ∀ (n : Nat) (s : S) (h : List S),
    Reach G root s → (∀ t ∈ h, Reach G root t) →
    WinN G att n s → (∀ j, j < n → ¬ WinN G att j s) → (∀ t ∈ h, ¬ WinN G att n t) → Win G att h s := by
  intro n
  induction n using Nat.strongRecOn with
  | _ n ih =>
    intro s h rs rh w hmin hh
    have hnorep : G.over s = none → ¬ Rep3 G h s := by
      intro _ hr
      unfold Rep3 at hr
      have : ∃ t ∈ h, G.equal t s = true := by
        cases hf : h.filter (fun t => G.equal t s) with
        | nil => rw [hf] at hr; simp at hr
        | cons t _ =>
          have : t ∈ h.filter (fun t => G.equal t s) := by rw [hf]; exact List.mem_cons_self
          exact ⟨t, (List.mem_filter.mp this).1, (List.mem_filter.mp this).2⟩
      obtain ⟨t, ht, he⟩ := this
      exact hh t ht (WinN.equal G att hb n s t rs (rh t ht) (hb.symm t s (rh t ht) rs he) w)
    have rh' : ∀ t ∈ s :: h, Reach G root t := by
      intro t ht
      rcases List.mem_cons.mp ht with e | e
      · subst e; exact rs
      · exact rh t e
    cases w with
    | terminal ho => exact .terminal ho
    | @attacker n0 _ s' ho ht hs hw =>
      obtain ⟨k, hk, hwk, hkmin⟩ := exists_least G att hw
      refine .attacker ho (hnorep ho) ht hs ?_
      refine ih k (by omega) s' (s :: h) (.step rs hs) rh' hwk hkmin ?_
      intro t htm
      rcases List.mem_cons.mp htm with e | e
      · subst e; exact hmin k (by omega)
      · intro wt; exact hh t e (WinN.mono G att wt (by omega))
    | @defender n0 _ ho ht hall =>
      refine .defender ho (hnorep ho) ht ?_
      intro s' hs
      obtain ⟨k, hk, hwk, hkmin⟩ := exists_least G att (hall s' hs)
      refine ih k (by omega) s' (s :: h) (.step rs hs) rh' hwk hkmin ?_
      intro t htm
      rcases List.mem_cons.mp htm with e | e
      · subst e; exact hmin k (by omega)
      · intro wt; exact hh t e (WinN.mono G att wt (by omega))

/-- a plain forced win at `root` is a forced win in the game where a third occurrence counts against
the attacker, when `G.equal` is a bisimulation on the positions reachable from `root` -/
theorem plainWin_win_nil_from {root : S} (hb : EqualIsBisimFrom G root) (w : PlainWin G att root) :
    Win G att [] root := by
  obtain ⟨n, hn⟩ := plainWin_bounded G att w
  obtain ⟨k, _, hwk, hkmin⟩ := exists_least G att hn
  exact win_of_least G att hb k root [] .refl (by simp) hwk hkmin (by simp)

/-- a plain forced win is a forced win in the game where a third occurrence counts against the attacker -/
theorem plainWin_win_nil (hb : EqualIsBisim G) {s : S} (w : PlainWin G att s) : Win G att [] s :=
  plainWin_win_nil_from G att (EqualIsBisim.from_root hb s) w

end C06
