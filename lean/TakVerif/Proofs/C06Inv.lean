import TakVerif.Proofs.C06Arith
import TakVerif.Spec.ForcedWin

/-! The invariant of the proof-number tree (`Impl/PN.lean`): what is stored at every node is sound
for the position the node stands for. -/
namespace C06
open Tak Tak.PN Spec.Game

variable {S M : Type} (G : Game S M) (att : Color)

/-- soundness of what is stored at a node `n` standing for position `s` reached along `h`.
`dl` = "the depth limit has cut the tree somewhere": disproofs are then not claimed. -/
structure NumOK (dl : Bool) (h : List S) (s : S) (n : Node M) : Prop where
  proof : n.proof = 0 → PlainWin G att s
  disproof : dl = false → n.disproof = 0 → ¬ Win G att h s
  valueP : n.value = .proven → PlainWin G att s
  valueD : dl = false → n.value = .disproven → ¬ Win G att h s
  valueU : n.value = .unknown → G.over s = none
  side : n.isAnd = true ↔ G.toMove s ≠ att
  notBoth : ¬ (n.phi = 0 ∧ n.delta = 0)
  live : G.over s = none ∨ (n.expanded = false ∧ (n.phi = 0 ∨ n.delta = 0))

/-- `s` is reached from `root` by generated moves that the rules accept (the positions a search from
`root` can ever hold) -/
inductive Reach (root : S) : S → Prop
  | refl : Reach root root
  | step {s s' : S} : Reach root s → Succ G s s' → Reach root s'

/-- fewer than 2³² generated moves in every position reachable from `root` (`SmallBranching` asks
this of every value of the position type) -/
def SmallFrom (root : S) : Prop := ∀ s, Reach G root s → (G.moves s).length < 2 ^ 32

theorem SmallBranching.smallFrom {G : Game S M} (h : SmallBranching G) (root : S) : SmallFrom G root :=
  fun s _ => h s

/-- `c` is a child node of `n` (position `s`) and stands for position `s'` -/
def ChildOf (s : S) (n c : Node M) (s' : S) : Prop :=
  c.move ∈ G.moves s ∧ G.apply s c.move = some s' ∧ c.isAnd = !n.isAnd

/-- the child chain accounts for every legal move, or `expand` stopped early at a child that
settles the node (an unexpanded child with δ = 0) -/
def Cover (s : S) (cs : List (Node M)) : Prop :=
  (∀ m ∈ G.moves s, ∀ s', G.apply s m = some s' → ∃ c ∈ cs, c.move = m) ∨
  (∃ c ∈ cs, c.expanded = false ∧ c.delta = 0)

/-- every node of the subtree is sound -/
def TreeOK (dl : Bool) (h : List S) (s : S) (n : Node M) : Prop :=
  NumOK G att dl h s n ∧
  (∀ c ∈ n.children, ∃ s', ChildOf G s n c s' ∧ TreeOK dl (s :: h) s' c) ∧
  (n.expanded = true → Cover G s n.children ∨ (n.children = [] ∧ (n.phi = 0 ∨ n.delta = 0))) ∧
  (n.expanded = false → n.children = [])
termination_by sizeOf n
decreasing_by
  have := List.sizeOf_lt_of_mem ‹c ∈ n.children›
  cases n
  simp only [Node.mk.sizeOf_spec] at *
  omega

end C06

namespace C06
open Tak Tak.PN Spec.Game
variable {S M : Type} (G : Game S M) (att : Color)

theorem TreeOK_iff (dl : Bool) (h : List S) (s : S) (n : Node M) :
    TreeOK G att dl h s n ↔
      (NumOK G att dl h s n ∧
       (∀ c ∈ n.children, ∃ s', ChildOf G s n c s' ∧ TreeOK G att dl (s :: h) s' c) ∧
       (n.expanded = true → Cover G s n.children ∨ (n.children = [] ∧ (n.phi = 0 ∨ n.delta = 0))) ∧
       (n.expanded = false → n.children = [])) := by
  rw [TreeOK]

theorem NumOK.mono {dl : Bool} {h : List S} {s : S} {n : Node M} (dl' : Bool)
    (k : NumOK G att dl h s n) : NumOK G att (dl || dl') h s n where
  proof := k.proof
  disproof := by
    intro hd; simp only [Bool.or_eq_false_iff] at hd; exact k.disproof hd.1
  valueP := k.valueP
  valueD := by
    intro hd; simp only [Bool.or_eq_false_iff] at hd; exact k.valueD hd.1
  valueU := k.valueU
  side := k.side
  notBoth := k.notBoth
  live := k.live

/-- once the depth limit has cut the tree, fewer claims are made: the invariant survives -/
theorem TreeOK.mono (dl' : Bool) : ∀ (n : Node M) (dl : Bool) (h : List S) (s : S),
    TreeOK G att dl h s n → TreeOK G att (dl || dl') h s n := by
  intro n
  induction hn : sizeOf n using Nat.strongRecOn generalizing n with
  | _ k ih =>
    intro dl h s t
    rw [TreeOK_iff] at t ⊢
    obtain ⟨t1, t2, t3, t4⟩ := t
    refine ⟨t1.mono G att dl', ?_, t3, t4⟩
    intro c hc
    obtain ⟨s', hco, hct⟩ := t2 c hc
    refine ⟨s', hco, ?_⟩
    have hlt : sizeOf c < k := by
      have := List.sizeOf_lt_of_mem hc
      subst hn
      cases n
      simp only [Node.mk.sizeOf_spec] at *
      omega
    exact ih (sizeOf c) hlt c rfl dl (s :: h) s' hct

end C06
