import TakVerif.Proofs.MoveRefineSlide

/-! C01: slides, assembled; and the combined statement for every non-pass move. -/
namespace Tak
open Spec (abs decode)

/-- **the documented 64-piece representation limit**: if the rule book allows the move, no stack of the
rule-book successor is higher than 64 pieces (`Stacks[i]` is one `uint64` + the top piece).
Vacuous for moves the rule book rejects and for placements. -/
def StackLimit (p : Pos) (m : Move) : Prop :=
  ∀ s', Spec.step (abs p) (decode m) = some s' → ∀ sq ∈ s'.squares, sq.length ≤ 64

theorem sum_pos_of_no_zero (l : List Nat) (hz : l.any (· == 0) = false) (hne : l ≠ []) : 1 ≤ l.foldl (· + ·) 0 := by
  cases l with
  | nil => exact absurd rfl hne
  | cons x xs =>
    simp only [List.any_cons, Bool.or_eq_false_iff] at hz
    have hx : x ≠ 0 := by simpa using hz.1
    simp only [List.foldl_cons]
    rw [foldl_add]
    omega

theorem slide_refines {basis : Array W} {p : Pos} (hA : AnalyzeTotal) (hwf : WF basis p) (m : Move) (d : Spec.Dir)
    (h : m.type = slideCode d) (hlim : StackLimit p m) :
    match Pos.apply basis p m with
    | .error _ => Spec.step (abs p) (decode m) = none
    | .ok q => Spec.step (abs p) (decode m) = some (abs q) ∧ WF basis q := by
  unfold StackLimit at hlim
  rw [apply_slide_eq basis p m d h]
  rw [decode_slide m d h] at hlim ⊢
  by_cases ho : p.move < 2
  · rw [if_pos ho]; exact step_slide_none _ _ _ _ _ (.inl ho)
  rw [if_neg ho]
  by_cases hb : m.x < 0 ∨ m.x ≥ (p.cfg.size : Int) ∨ m.y < 0 ∨ m.y ≥ (p.cfg.size : Int)
  · rw [if_pos hb]
    refine step_slide_none _ _ _ _ _ (.inr (.inl ?_))
    cases hob : (abs p).onBoard m.x m.y
    · rfl
    · exact absurd hb ((abs_onBoard p m.x m.y).1 hob)
  rw [if_neg hb]
  have hob : (abs p).onBoard m.x m.y = true := (abs_onBoard p m.x m.y).2 hb
  have hi : (m.x + m.y * (p.cfg.size : Int)).toNat < p.cfg.size * p.cfg.size :=
    idx_lt _ _ _ (by omega) (by omega) (by omega) (by omega)
  have hat := abs_at p m.x m.y hi
  generalize hidx : (m.x + m.y * (p.cfg.size : Int)).toNat = i at hi hat
  generalize hdr : Slides.elems m.slides = drops at hlim ⊢
  have hcw : (p.cell i).WF := hwf.cell i
  have hlen : ((abs p).at m.x m.y).length = (p.height.getD i 0).toNat := by
    rw [hat, Cell.square_length hcw]; rfl
  unfold slideFrom
  dsimp only
  rw [hdr]
  by_cases hz : drops.any (· == 0) = true
  · rw [if_pos hz]; exact step_slide_none _ _ _ _ _ (.inr (.inr (.inr (.inl hz))))
  rw [if_neg hz]
  have hz' : drops.any (· == 0) = false := by
    cases hh : drops.any (· == 0)
    · rfl
    · exact absurd hh hz
  by_cases hct : drops.foldl (· + ·) 0 > p.cfg.size ∨ drops.foldl (· + ·) 0 < 1 ∨
      drops.foldl (· + ·) 0 > (p.height.getD i 0).toNat
  · rw [if_pos hct]
    rcases hct with h1 | h1 | h1
    · exact step_slide_none _ _ _ _ _ (.inr (.inr (.inr (.inr (.inl h1)))))
    · refine step_slide_none _ _ _ _ _ (.inr (.inr (.inl ?_)))
      cases hd : drops with
      | nil => rfl
      | cons a b =>
        have := sum_pos_of_no_zero drops hz' (by rw [hd]; simp)
        omega
    · exact step_slide_none _ _ _ _ _ (.inr (.inr (.inr (.inr (.inr (.inl (by rw [hlen]; exact h1)))))))
  rw [if_neg hct]
  have hct1 : 1 ≤ drops.foldl (· + ·) 0 := by omega
  have hcts : drops.foldl (· + ·) 0 ≤ p.cfg.size := by omega
  have hcth : drops.foldl (· + ·) 0 ≤ (p.height.getD i 0).toNat := by omega
  generalize hctdef : drops.foldl (· + ·) 0 = ct at *
  have hne : drops.isEmpty = false := by
    cases hd : drops with
    | nil => rw [hd] at hctdef; simp at hctdef; omega
    | cons _ _ => rfl
  -- the origin is occupied
  have hocc : (p.cell i).w = true ∨ (p.cell i).b = true := by
    rcases (p.cell i).occ_cases with h1 | ⟨h1, h2⟩
    · exact h1
    · have := Cell.h_zero_of_empty hcw h1 h2
      have : (p.height.getD i 0).toNat = 0 := this
      omega
  obtain ⟨top, htop⟩ : ∃ t, (p.cell i).top = some t := by
    cases ht : (p.cell i).top with
    | none => have := (Cell.top_none_iff _).1 ht; rcases hocc with h1 | h1 <;> simp [this] at h1
    | some t => exact ⟨t, rfl⟩
  have hsq : (abs p).at m.x m.y = top :: buried (p.cell i).st ((p.cell i).h.toNat - 1) := by
    rw [hat]; exact Cell.square_cons htop
  have hcolor := Cell.top_isSome_color htop
  have hwbit : p.white.getLsbD i = (p.cell i).w := rfl
  have hbbit : p.black.getLsbD i = (p.cell i).b := rfl
  by_cases hw : (p.toMove == .white) = true ∧ (!p.white.getLsbD i) = true
  · rw [if_pos hw]
    refine step_slide_none _ _ _ _ _ (.inr (.inr (.inr (.inr (.inr (.inr ?_))))))
    intro t tl htl
    rw [hsq] at htl
    simp only [List.cons.injEq] at htl
    rw [← htl.1, abs_toMove]
    obtain ⟨h1, h2⟩ := hw
    rw [hwbit] at h2
    have h1' : p.toMove = .white := by simpa using h1
    rcases hcolor with ⟨hc, hcw'⟩ | ⟨hc, _⟩
    · simp [hcw'] at h2
    · rw [hc, h1']; simp
  rw [if_neg hw]
  by_cases hbk : (p.toMove == .black) = true ∧ (!p.black.getLsbD i) = true
  · rw [if_pos hbk]
    refine step_slide_none _ _ _ _ _ (.inr (.inr (.inr (.inr (.inr (.inr ?_))))))
    intro t tl htl
    rw [hsq] at htl
    simp only [List.cons.injEq] at htl
    rw [← htl.1, abs_toMove]
    obtain ⟨h1, h2⟩ := hbk
    rw [hbbit] at h2
    have h1' : p.toMove = .black := by simpa using h1
    rcases hcolor with ⟨hc, _⟩ | ⟨hc, _, hcb⟩
    · rw [hc, h1']; simp
    · simp [hcb] at h2
  rw [if_neg hbk]
  have hmine : top.color = p.toMove := by
    rcases toMove_cases p with hm | hm
    · rw [hm]
      rcases hcolor with ⟨hc, _⟩ | ⟨_, hcw', _⟩
      · exact hc
      · exfalso; apply hw; rw [hwbit, hcw', hm]; simp
    · rw [hm]
      rcases hcolor with ⟨_, hcw'⟩ | ⟨hc, _, _⟩
      · exfalso; apply hbk; rw [hbbit, hm]
        have := hcw.wb
        cases hb' : (p.cell i).b
        · simp
        · exact absurd ⟨hcw', hb'⟩ this
      · exact hc
  rw [show p.topAt i = some top from htop]
  dsimp only
  have hp8 := hwf.size_le
  have hstack : ((p.stacks.getD i 0 <<< 1) ||| (if top.color == Color.black then 1#64 else 0#64)) =
      (p.cell i).stackWord top := rfl
  rw [hstack]
  have hsim0 := Sim.init hwf m.x m.y (by rw [hidx]; exact hi) top (by rw [hidx]; exact htop) ct hct1 (by omega)
    (by rw [hidx]; exact hcth)
  rw [hidx] at hsim0
  have hloop := slideLoop_sim (top := top) (stack := (p.cell i).stackWord top) (d := d) hp8 drops
    (st := { next := liftFrom basis { p with move := p.move + 1 } ((p.cell i).stackWord top)
              (p.height.getD i 0).toNat ct i, x := m.x, y := m.y, ct := ct }) hsim0 hctdef
  have hstep := step_slide_ok (abs p) m.x m.y d drops top _ ho hob hne hz' (by rw [hctdef]; exact hcts)
    (by rw [hctdef, hlen]; exact hcth) hsq (by rw [abs_toMove]; exact hmine)
  rw [hctdef, hat, Cell.square_take hcw htop ct hcth (by omega)] at hstep
  rw [hstep] at hlim ⊢
  dsimp only at hloop
  cases hml : slideLoop basis p top ((p.cell i).stackWord top) d.dx d.dy drops
      { next := liftFrom basis { p with move := p.move + 1 } ((p.cell i).stackWord top)
                  (p.height.getD i 0).toNat ct i, x := m.x, y := m.y, ct := ct } with
  | error e =>
    rw [hml] at hloop
    cases hdl : Spec.dropLoop ((abs p).setAt m.x m.y (List.drop ct (p.cell i).square)) m.x m.y d
        (carriedList top ((p.cell i).stackWord top) ct) drops with
    | none => rfl
    | some s' => rw [hdl] at hloop; cases e <;> exact hloop.elim
  | ok st' =>
    rw [hml] at hloop
    cases hdl : Spec.dropLoop ((abs p).setAt m.x m.y (List.drop ct (p.cell i).square)) m.x m.y d
        (carriedList top ((p.cell i).stackWord top) ct) drops with
    | none => rw [hdl] at hloop; exact hloop.elim
    | some s' =>
      rw [hdl] at hloop hlim
      obtain ⟨q, hq⟩ := finish_total hA st'.next
      dsimp only
      rw [hq]
      have hfin := Sim.final hwf hloop (by
        intro j hj
        apply hlim _ rfl
        rw [List.getD_eq_getElem?_getD, List.getElem?_eq_getElem (by rw [hloop.s_len]; exact hj)]
        exact List.getElem_mem _)
      show _ ∧ _
      refine ⟨?_, hfin.1.finish hq⟩
      rw [abs_finish hq, hfin.2]
      rfl

theorem apply_invalid (basis : Array W) (p : Pos) (m : Move)
    (h : ∀ k, m.type ≠ placeCode k) (h' : ∀ d, m.type ≠ slideCode d) (hp : m.type ≠ Facts.mtPass) :
    Pos.apply basis p m = .error (.illegal "invalid move type") ∧ decode m = .invalid := by
  have h1 := h .flat; have h2 := h .standing; have h3 := h .capstone
  have h4 := h' .left; have h5 := h' .right; have h6 := h' .up; have h7 := h' .down
  simp only [placeCode, slideCode] at h1 h2 h3 h4 h5 h6 h7
  constructor
  · unfold Pos.apply dispatch
    simp [h1, h2, h3, h4, h5, h6, h7, hp]
  · unfold Spec.decode
    simp [h1, h2, h3, h4, h5, h6, h7]

/-- every non-pass move value: the model refines the rule book -/
theorem move_refines_core {basis : Array W} {p : Pos} (hA : AnalyzeTotal) (hwf : WF basis p) (m : Move)
    (hp : m.type ≠ Facts.mtPass) (hlim : StackLimit p m) :
    match Pos.apply basis p m with
    | .error _ => Spec.step (abs p) (decode m) = none
    | .ok q => Spec.step (abs p) (decode m) = some (abs q) ∧ WF basis q := by
  by_cases h : ∃ k, m.type = placeCode k
  · obtain ⟨k, hk⟩ := h
    exact place_refines hA hwf m k hk
  by_cases h' : ∃ d, m.type = slideCode d
  · obtain ⟨d, hd⟩ := h'
    exact slide_refines hA hwf m d hd hlim
  have ⟨e1, e2⟩ := apply_invalid basis p m (fun k hk => h ⟨k, hk⟩) (fun d hd => h' ⟨d, hd⟩) hp
  rw [e1, e2]
  rfl

end Tak
