import TakVerif.Proofs.SearchTotalZw

/-! # Totality of `Analyze`, `GetMove`, `AnalyzeAll` (generic game)

From an `EngT` engine state, on a position of `N`, with `Cfg.Depth ≤ maxDepth`: the three entry points **return**
(`Tot`) — every option combination, every cancel oracle, every random stream, with and without a table — and leave an
`EngT` state behind; the moves they return are `Q`-moves.  The deepening loop's fuel `(Depth - base)` is never the
reason for stopping early in a way that errs: the loop has no error exit of its own. -/
namespace Search
open Tak (Err)

variable {P M : Type}

section
variable {g : Game P M} {o : Oracle M} {Q : M → Prop} {N : P → Prop}

/-- what one iteration of the deepening loop leaves -/
def AOutT (Q : M → Prop) : AOut M → Prop
  | .go a s => EngT Q s ∧ (∀ x ∈ a.ms, Q x) ∧ a.st.depth ≤ Facts.maxDepth
  | .done a s => EngT Q s ∧ (∀ x ∈ a.ms, Q x) ∧ a.st.depth ≤ Facts.maxDepth
  | .cancelled s => EngT Q s

theorem iterDone_t (cfg : Cfg) (base i : Int) (a : ALoop M) (next : List M) (nv : Int) (s : Eng M) (hs : EngT Q s)
    (hn : ∀ x ∈ next, Q x) : AOutT Q (iterDone cfg base i a next nv s) := by
  have hacc : EngT Q s ∧ (∀ x ∈ (iterAcc i a next nv s).ms, Q x) ∧ (iterAcc i a next nv s).st.depth ≤ Facts.maxDepth :=
    ⟨hs, hn, hs.stDepth⟩
  unfold iterDone
  dsimp only
  repeat' split
  all_goals exact hacc

theorem iterEnd_t (cfg : Cfg) (base i : Int) (a : ALoop M) (r : Res M × Eng M) (hr : EngT Q r.2)
    (hl : ∀ l, r.1.1 = some l → ∀ x ∈ l, Q x) : AOutT Q (iterEnd cfg o base i a r) := by
  unfold iterEnd
  split
  · exact hr
  · rename_i next hnext
    split
    · exact hr.load o
    · exact iterDone_t cfg base i a next r.1.2 _ (hr.load o) (hl next hnext)

theorem analyzeStep_t [DecidableEq M] (hG : TGame g o Q N) (cfg : Cfg) (p : P) (hN : N p) (base i : Int) (a : ALoop M)
    (s : Eng M) (hs : EngT Q s) (ha : ∀ x ∈ a.ms, Q x) (hd : i + base ≤ Facts.maxDepth) :
    Tot (analyzeStep g cfg o p base i a s) (AOutT Q) := by
  unfold analyzeStep
  have hs' : EngT Q { s with st := { depth := i + base } } :=
    ⟨hs.table, hs.resp, hs.pv0, hs.stackM, hs.pvSize, hs.smSize, hs.tbl, hd⟩
  obtain ⟨r, hr, hr1, hr2⟩ := pvSearch_t hG cfg.opts 0 p (i + base) a.ms (Facts.minEval - 1) (Facts.maxEval + 1) _ hN ha hs'
    (by omega) (Nat.zero_le _)
  rw [hr]
  exact Tot.ok (iterEnd_t cfg base i a r hr1 hr2)

theorem analyzeLoop_t [DecidableEq M] (hG : TGame g o Q N) (cfg : Cfg) (hcfg : cfg.depth ≤ Facts.maxDepth) (p : P)
    (hN : N p) (base : Int) :
    ∀ (n : Nat) (i : Int) (a : ALoop M) (s : Eng M), EngT Q s → (∀ x ∈ a.ms, Q x) → a.st.depth ≤ Facts.maxDepth →
      Tot (analyzeLoop g cfg o p base n i a s)
        (fun r => EngT Q r.2 ∧ (∀ x ∈ r.1.ms, Q x) ∧ r.1.st.depth ≤ Facts.maxDepth) := by
  intro n
  induction n with
  | zero => intro i a s hs ha hd; exact Tot.ok ⟨hs, ha, hd⟩
  | succ n ih =>
    intro i a s hs ha hd
    simp only [analyzeLoop]
    split
    · exact Tot.ok ⟨hs, ha, hd⟩
    · rename_i hle
      have hle' : i + base ≤ cfg.depth := by simpa using hle
      obtain ⟨out, hout, hpost⟩ := analyzeStep_t hG cfg p hN base i a s hs ha (by omega)
      rw [hout]
      cases out with
      | cancelled s1 => exact Tot.ok ⟨hpost, ha, hd⟩
      | done a1 s1 => exact Tot.ok hpost
      | go a1 s1 => exact ih (i + 1) a1 s1 hpost.1 hpost.2.1 hpost.2.2

theorem analyzeFrom_t [DecidableEq M] (hG : TGame g o Q N) (cfg : Cfg) (hcfg : cfg.depth ≤ Facts.maxDepth) (p : P)
    (hN : N p) (seed : Int × List M × Int) (hq : ∀ x ∈ seed.2.1, Q x) (hd : seed.1 ≤ Facts.maxDepth)
    (s : Eng M) (hs : EngT Q s) :
    Tot (analyzeFrom g cfg o p seed s)
      (fun r => EngT Q r.2 ∧ (∀ x ∈ r.1.1, Q x) ∧ r.1.2.2.depth ≤ Facts.maxDepth) := by
  unfold analyzeFrom
  obtain ⟨r, hr, hpost⟩ := analyzeLoop_t hG cfg hcfg p hN seed.1 (cfg.depth - seed.1).toNat 1
    ⟨seed.2.1, seed.2.2, { depth := seed.1 }, 0, 0⟩ s hs hq hd
  rw [hr]
  obtain ⟨a, s1⟩ := r
  exact Tot.ok hpost

theorem seedOf_q (te : Option (TEntry M)) (h : ∀ e, te = some e → Q e.m ∧ e.depth ≤ Facts.maxDepth) :
    (∀ x ∈ (seedOf te).2.1, Q x) ∧ (seedOf te).1 ≤ Facts.maxDepth := by
  have h0 : (0 : Int) ≤ Facts.maxDepth := by decide
  unfold seedOf
  cases te with
  | none => exact ⟨fun x hx => (by cases hx), h0⟩
  | some e =>
    dsimp only
    split
    · refine ⟨fun x hx => ?_, (h e rfl).2⟩
      simp only [List.mem_cons, List.not_mem_nil, or_false] at hx
      subst hx; exact (h e rfl).1
    · exact ⟨fun x hx => (by cases hx), h0⟩

/-- **`Analyze` returns** -/
theorem analyze_t [DecidableEq M] (hG : TGame g o Q N) (cfg : Cfg) (hcfg : cfg.depth ≤ Facts.maxDepth) (p : P)
    (hN : N p) (s : Eng M) (hs : EngT Q s) :
    Tot (analyze g cfg o p s)
      (fun r => EngT Q r.2 ∧ (∀ x ∈ r.1.1, Q x) ∧ r.1.2.2.depth ≤ Facts.maxDepth) := by
  unfold analyze
  have hs0 : EngT Q { s with loads := 0, evals := 0, sorts := 0, rnds := 0, wlog := [] } :=
    hs.of_eq rfl rfl rfl rfl rfl rfl
  obtain ⟨te, hte, hq⟩ := ttGet_t hs0 (g.hash p)
  rw [hte]
  obtain ⟨h1, h2⟩ := seedOf_q te hq
  exact analyzeFrom_t hG cfg hcfg p hN (seedOf te) h1 h2 _ hs0

/-! ### GetMove -/

/-- invariant of the randomised choice: the running weight sum is not negative -/
def GmLIT (Q : M → Prop) (a : GmAcc M) (s : Eng M) : Prop := EngT Q s ∧ Q a.rv ∧ 0 ≤ a.i

theorem gmBody_t [DecidableEq M] (hG : TGame g o Q N) (cfg : Cfg) (p : P) (hN : N p) (depth : Int)
    (hd : depth ≤ Facts.maxDepth) (rest : List M) (hrest : ∀ x ∈ rest, Q x) (v base : Int) :
    BodyT g p (gmBody g cfg o depth rest v base) Q (GmLIT Q) (GmLIT Q) (fun (_ : Unit) s' => EngT Q s') := by
  intro m c a s hap hm hI
  have hmd : Facts.maxDepth = 15 := rfl
  unfold gmBody
  apply Tot.bind
  refine (hI.1.setStackM 0 (by omega) m hm _).mono ?_
  intro sm hs1
  apply Tot.bind
  refine (pvSearch_t hG cfg.opts 1 c (depth - 1) rest (-v - 1) (-base) _ (hG.closed p m c hN hap) hrest hs1
    (by omega) (by omega)).mono ?_
  rintro r ⟨hr1, _⟩
  dsimp only
  split
  · exact Tot.pure ⟨hr1, hI.2⟩
  · split
    · exact Tot.pure ⟨hr1, hI.2⟩
    · rename_i hpts
      split
      · rename_i hneg
        exfalso
        have := hI.2.2
        omega
      · refine Tot.pure ⟨hr1.of_eq rfl rfl rfl rfl rfl rfl, ?_, ?_⟩
        · dsimp only
          split
          · exact hm
          · exact hI.2.1
        · dsimp only
          have := hI.2.2
          omega

theorem getMoveFrom_t [DecidableEq M] (hG : TGame g o Q N) (cfg : Cfg) (p : P) (hN : N p)
    (pv : List M) (hq : ∀ x ∈ pv, Q x) (hz : Q g.zeroMove)
    (v : Int) (st : Stats) (hd : st.depth ≤ Facts.maxDepth) (s : Eng M) (hs : EngT Q s) :
    Tot (getMoveFrom g cfg o p pv v st s) (fun x => EngT Q x.2 ∧ Q x.1) := by
  unfold getMoveFrom
  cases pv with
  | nil => exact Tot.ok ⟨hs, hz⟩
  | cons pv0 rest =>
    have h0 : Q pv0 := hq pv0 List.mem_cons_self
    dsimp only
    split
    · exact Tot.ok ⟨hs, h0⟩
    · split
      · exact Tot.ok ⟨hs, h0⟩
      · obtain ⟨y, hy, hpost⟩ := iterate_t hG hN
            (gmBody_t hG cfg p hN st.depth hd rest (fun x hx => hq x (List.mem_cons_of_mem _ hx)) v
              (v - cfg.randomizeWindow)) cfg.opts (rootMG st.depth (pv0 :: rest))
            (fun e he => by cases he) (fun x r h => by cases h; exact h0) (fun _ _ h => h.1.resp)
            (fun _ _ _ => Nat.zero_le _)
            (fun _ _ _ h => ⟨h.1.of_eq rfl rfl rfl rfl rfl rfl, h.2⟩) (⟨pv0, 0⟩ : GmAcc M) s ⟨hs, h0, Int.le_refl _⟩
        rw [hy]
        obtain ⟨ctl, s2⟩ := y
        cases ctl with
        | next a => exact Tot.ok ⟨hpost.1, hpost.2.1⟩
        | brk a => exact Tot.ok ⟨hpost.1, hpost.2.1⟩
        | ret r => exact Tot.ok ⟨hpost, h0⟩

/-- **`GetMove` returns** — from every `EngT` state, on every position of `N`, for `Depth ≤ maxDepth`: no panic site
of the model is reachable, whatever the options, the cancel oracle, the random stream, the table -/
theorem getMove_t [DecidableEq M] (hG : TGame g o Q N) (cfg : Cfg) (hcfg : cfg.depth ≤ Facts.maxDepth) (p : P)
    (hN : N p) (hz : Q g.zeroMove) (s : Eng M) (hs : EngT Q s) :
    Tot (getMove g cfg o p s) (fun x => EngT Q x.2 ∧ Q x.1) := by
  unfold getMove
  obtain ⟨r, hr, h1, h2, h3⟩ := analyze_t hG cfg hcfg p hN s hs
  rw [hr]
  obtain ⟨⟨pv, v, st⟩, s1⟩ := r
  exact getMoveFrom_t hG cfg p hN pv h2 hz v st h3 s1 h1

/-! ### AnalyzeAll -/

theorem aaBody_t [DecidableEq M] (hG : TGame g o Q N) (cfg : SOpts) (p : P) (hN : N p) (depth : Int)
    (hd : depth ≤ Facts.maxDepth) (pv0 : M) (rest : List M) (hrest : ∀ x ∈ rest, Q x) (v : Int) :
    BodyT g p (aaBody g cfg o depth pv0 rest v) Q (fun (_ : List (List M)) s => EngT Q s)
      (fun _ s => EngT Q s) (fun (_ : Unit) s' => EngT Q s') := by
  intro m c a s hap hm hI
  have hmd : Facts.maxDepth = 15 := rfl
  unfold aaBody
  apply Tot.bind
  refine (hI.setStackM 0 (by omega) m hm _).mono ?_
  intro sm hs1
  apply Tot.bind
  refine (pvSearch_t hG cfg 1 c (depth - 1) rest (-v - 1) (-v + 1) _ (hG.closed p m c hN hap) hrest hs1
    (by omega) (by omega)).mono ?_
  rintro r ⟨hr1, _⟩
  split
  · exact Tot.pure hr1
  · split
    · exact Tot.pure hr1
    · exact Tot.pure hr1

theorem analyzeAllFrom_t [DecidableEq M] (hG : TGame g o Q N) (cfg : Cfg) (p : P) (hN : N p)
    (pv : List M) (hq : ∀ x ∈ pv, Q x) (v : Int) (st : Stats) (hd : st.depth ≤ Facts.maxDepth) (s : Eng M)
    (hs : EngT Q s) :
    Tot (analyzeAllFrom g cfg o p pv v st s) (fun x => EngT Q x.2) := by
  unfold analyzeAllFrom
  cases pv with
  | nil => exact Tot.ok hs
  | cons pv0 rest =>
    have h0 : Q pv0 := hq pv0 List.mem_cons_self
    dsimp only
    obtain ⟨y, hy, hpost⟩ := iterate_t hG hN
        (aaBody_t hG cfg.opts p hN st.depth hd pv0 rest (fun x hx => hq x (List.mem_cons_of_mem _ hx)) v)
        cfg.opts (rootMG st.depth (pv0 :: rest))
        (fun e he => by cases he) (fun x r h => by cases h; exact h0) (fun _ _ h => h.resp)
        (fun _ _ _ => Nat.zero_le _)
        (fun _ _ _ h => h.of_eq rfl rfl rfl rfl rfl rfl) [pv0 :: rest] s hs
    rw [hy]
    obtain ⟨ctl, s2⟩ := y
    cases ctl with
    | next a => exact Tot.ok hpost
    | brk a => exact Tot.ok hpost
    | ret r => exact Tot.ok hpost

/-- **`AnalyzeAll` returns** -/
theorem analyzeAll_t [DecidableEq M] (hG : TGame g o Q N) (cfg : Cfg) (hcfg : cfg.depth ≤ Facts.maxDepth) (p : P)
    (hN : N p) (s : Eng M) (hs : EngT Q s) :
    Tot (analyzeAll g cfg o p s) (fun x => EngT Q x.2) := by
  unfold analyzeAll
  obtain ⟨r, hr, h1, h2, h3⟩ := analyze_t hG cfg hcfg p hN s hs
  rw [hr]
  obtain ⟨⟨pv, v, st⟩, s1⟩ := r
  exact analyzeAllFrom_t hG cfg p hN pv h2 v st h3 s1 h1

end
end Search
