import TakVerif.Proofs.SearchCover

/-! Completeness of verdicts with a table, through `pvSearch`/`zwSearch` for a call whose cancel flag stays clear
(precise options, any table content that is `TableGood`, any move order): both searches keep the table good and
return values that are good for their window (`ResGood`: sound, and covering the searched depth). -/
namespace Search
open Tak (Err)

variable {P M : Type}

local notation "W" => Facts.winThreshold

def PvGood (g : Game P M) (f : PvFn P M) : Prop :=
  ∀ p ply depth pv α β s, TableGood g s → α < β →
    Sat (f p ply depth pv α β s) (fun x => TableGood g x.2 ∧ ResGood g p depth.toNat α β x.1.2)

def ZwGood (g : Game P M) (f : ZwFn P M) : Prop :=
  ∀ p ply depth pv α cut s, TableGood g s →
    Sat (f p ply depth pv α cut s) (fun x => TableGood g x.2 ∧ ResGood g p depth.toNat α (α + 1) x.1.2)

/-- what the value `v = -r` obtained for a child `c` (searched `d'` deep) at running `α` may be trusted for -/
structure ChildGood (g : Game P M) (c : P) (d' : Nat) (α β v : Int) : Prop where
  loss : α < v → v > W → Loss g c
  win : v < β → v < -W → Win g c
  noWin : α < v → -W ≤ v → negamax g d' c ≤ W
  noLoss : v < β → v ≤ W → -W ≤ negamax g d' c

theorem pvChild_good {g : Game P M} {cpv : PvFn P M} {czw : ZwFn P M} (hp : PvGood g cpv) (hz : ZwGood g czw)
    (i : Nat) (child : P) (ply : Nat) (depth : Int) (tail : List M) (α β : Int) (s : Eng M)
    (hs : TableGood g s) (hab : α < β) :
    Sat (pvChild cpv czw i child ply depth tail α β s)
      (fun x => TableGood g x.2 ∧ ChildGood g child (depth - 1).toNat α β (-x.1.2)) := by
  unfold pvChild
  split
  · apply Sat.bind
    refine (hz child (ply + 1) (depth - 1) tail (-α - 1) true s hs).mono ?_
    rintro ⟨⟨ms, v⟩, s'⟩ ⟨hts, hsr⟩
    dsimp only at hts hsr ⊢
    split
    · rename_i hcond
      refine (hp child (ply + 1) (depth - 1) tail (-β) (-α)
        { s' with st := { s'.st with reSearch := s'.st.reSearch + 1 } } (hts.of_table rfl) (by omega)).mono ?_
      rintro ⟨⟨ms2, v2⟩, s2⟩ ⟨hts2, hsr2⟩
      dsimp only at hts2 hsr2 ⊢
      exact ⟨hts2, fun h1 h2 => hsr2.loss (by omega) (by omega), fun h1 h2 => hsr2.win (by omega) (by omega),
        fun h1 h2 => hsr2.noWin (by omega) (by omega), fun h1 h2 => hsr2.noLoss (by omega) (by omega)⟩
    · rename_i hcond
      simp only [Bool.and_eq_true, decide_eq_true_eq, not_and] at hcond
      apply Sat.pure
      refine ⟨hts, ?_, ?_, ?_, ?_⟩
      · intro h1 h2; dsimp only at h1 h2; exact hsr.loss (by omega) (by omega)
      · intro h1 h2; dsimp only at h1 h2; exact hsr.win (by have := hcond; omega) (by omega)
      · intro h1 h2; dsimp only at h1 h2; exact hsr.noWin (by omega) (by omega)
      · intro h1 h2; dsimp only at h1 h2; exact hsr.noLoss (by have := hcond; omega) (by omega)
  · refine (hp child (ply + 1) (depth - 1) tail (-β) (-α) s hs (by omega)).mono ?_
    rintro ⟨⟨ms2, v2⟩, s2⟩ ⟨hts2, hsr2⟩
    dsimp only at hts2 hsr2 ⊢
    exact ⟨hts2, fun h1 h2 => hsr2.loss (by omega) (by omega), fun h1 h2 => hsr2.win (by omega) (by omega),
      fun h1 h2 => hsr2.noWin (by omega) (by omega), fun h1 h2 => hsr2.noLoss (by omega) (by omega)⟩

theorem recordCut_good [DecidableEq M] {g : Game P M} {s : Eng M} (h : TableGood g s) (m : M) (mv ply : Nat) :
    Sat (recordCut s m mv ply) (fun s' => TableGood g s') := by
  unfold recordCut
  dsimp only
  split
  · split
    · exact Sat.error
    · exact Sat.ok (h.of_table rfl)
  · exact Sat.ok (h.of_table rfl)

theorem pvInitBest_good {g : Game P M} (ply : Nat) (pv : List M) {s : Eng M} (h : TableGood g s) :
    Sat (pvInitBest ply pv s) (fun x => TableGood g x.2) := by
  unfold pvInitBest
  split
  · apply Sat.bind; intro pv0 _; exact Sat.pure (h.of_table rfl)
  · apply Sat.bind; intro x _; exact Sat.pure h

/-! ### PV nodes -/

/-- loop invariant of a PV node whose children are searched `d'` deep -/
def CInv (g : Game P M) (p : P) (d' : Nat) (α0 β : Int) (a : PvAcc M) (s : Eng M) : Prop :=
  TableGood g s ∧ a.α < β ∧ α0 ≤ a.α ∧ (a.improved = false → a.α = α0) ∧
  (a.improved = true → a.α > W → Win g p) ∧ (a.improved = true → -W ≤ a.α → -W ≤ negamax g (d' + 1) p)

def CCov (g : Game P M) (d' : Nat) (a : PvAcc M) (c : P) : Prop :=
  (a.α < -W → Win g c) ∧ (a.α ≤ W → -W ≤ negamax g d' c)

def CQb (g : Game P M) (p : P) (d' : Nat) (β : Int) (a : PvAcc M) (s : Eng M) : Prop :=
  TableGood g s ∧ a.improved = true ∧ β ≤ a.α ∧ (a.α > W → Win g p) ∧ (-W ≤ a.α → -W ≤ negamax g (d' + 1) p)

/-- a loop whose cancel flag stays clear is never left by the cancellation exit -/
def CQr (_r : Res M) (_s : Eng M) : Prop := False

theorem pvBody_good [DecidableEq M] {g : Game P M} (hg : GameOK g) {o : Oracle M} (hnc : NoCancel o)
    {cpv : PvFn P M} {czw : ZwFn P M} (hp : PvGood g cpv) (hz : ZwGood g czw)
    (p : P) (hov : g.over p = false) (ply : Nat) (depth α0 β : Int) :
    BodyOK g p (pvBody g o cpv czw ply depth β false) (CInv g p (depth - 1).toNat α0 β) (CCov g (depth - 1).toNat)
      (CQb g p (depth - 1).toNat β) CQr := by
  intro m c a s hap hinv
  obtain ⟨hts, hlt, hge, hni, hwin, hnl⟩ := hinv
  unfold pvBody
  simp only [Bool.false_and, Bool.false_eq_true, if_false]
  apply Sat.bind
  intro sm _
  apply Sat.bind
  refine (pvChild_good hp hz (a.i + 1) c ply depth (a.best.drop 1) a.α β { s with stackM := sm }
    (hts.of_table rfl) hlt).mono ?_
  rintro ⟨⟨ms, v⟩, s'⟩ ⟨hts', hcg⟩
  dsimp only at hts' hcg ⊢
  split
  · rename_i hgt
    apply Sat.bind
    intro pv0 _
    have hwin' : -v > W → Win g p := fun hw => win_of_child hg hov hap (hcg.loss (by omega) hw)
    have hnl' : -W ≤ -v → -W ≤ negamax g ((depth - 1).toNat + 1) p :=
      fun hv => noLoss_of_child hg hov hap (hcg.noWin (by omega) hv)
    split
    · rename_i hgeb
      apply Sat.bind
      refine (recordCut_good (s := { s' with pv0 := pv0 }) (hts'.of_table rfl) m (a.i + 1) ply).mono ?_
      intro s'' hts''
      exact Sat.pure ⟨hts'', rfl, hgeb, hwin', hnl'⟩
    · rename_i hnge
      apply Sat.pure
      rw [afterChild_nc hnc]
      refine ⟨⟨hts'.of_table rfl, by dsimp only; omega, by dsimp only; omega, (fun hi => by cases hi),
        fun _ => hwin', fun _ => hnl'⟩, ?_, ?_⟩
      · intro c' hc'
        unfold CCov at hc' ⊢
        dsimp only
        exact ⟨fun hl => hc'.1 (by omega), fun hl => hc'.2 (by omega)⟩
      · intro c' hc'
        subst hc'
        unfold CCov
        dsimp only
        exact ⟨fun hl => hcg.win (by omega) hl, fun hl => hcg.noLoss (by omega) hl⟩
  · rename_i hngt
    apply Sat.pure
    rw [afterChild_nc hnc]
    refine ⟨⟨hts'.of_table rfl, hlt, hge, hni, hwin, hnl⟩, fun c' hc' => hc', ?_⟩
    intro c' hc'
    subst hc'
    unfold CCov
    dsimp only
    exact ⟨fun hl => hcg.win (by omega) (by omega), fun hl => hcg.noLoss (by omega) (by omega)⟩

/-- how the child loop of a PV node (depth `d`, window `(α, β)`) ends -/
def PvLoopOut (g : Game P M) (p : P) (d : Nat) (α β : Int) : Ctl (PvAcc M) (Res M) → Prop
  | .ret _ => False
  | .next a => NodeGood g p d a.improved a.α β ∧ (a.improved = false → a.α = α) ∧ a.α < β
  | .brk a => NodeGood g p d a.improved a.α β ∧ a.improved = true ∧ β ≤ a.α

/-- the child loop of a PV node when the cancel flag stays clear -/
theorem pvLoop_good [DecidableEq M] {g : Game P M} (hg : GameOK g) (he : EvalOK g)
    (cfg : SOpts) {o : Oracle M} (hnc : NoCancel o) (hord : OrderOK o)
    {cpv : PvFn P M} {czw : ZwFn P M} (hp : PvGood g cpv) (hz : ZwGood g czw)
    (p : P) (hov : g.over p = false) (ply : Nat) (depth : Int) (hd : 0 < depth) (te : Option (TEntry M)) (pv : List M)
    (α β : Int) (hab : α < β) (best : List M) (s : Eng M) (hts : TableGood g s) :
    Sat (iterate g cfg o p ⟨ply, depth, te, pv⟩ (pvBody g o cpv czw ply depth β false) ⟨α, best, false, 0, []⟩ s)
      (fun x => TableGood g x.2 ∧ PvLoopOut g p depth.toNat α β x.1) := by
  have hdn : depth.toNat = (depth - 1).toNat + 1 := by omega
  have hb := pvBody_good hg hnc hp hz p hov ply depth α β
  have hinv0 : CInv g p (depth - 1).toNat α β (⟨α, best, false, 0, []⟩ : PvAcc M) s :=
    ⟨hts, hab, Int.le_refl _, fun _ => rfl, (fun h => by cases h), (fun h => by cases h)⟩
  refine (iterate_rule hb cfg o ⟨ply, depth, te, pv⟩ (hg.gen p) hord
    (fun a s k hi => ⟨hi.1.of_table rfl, hi.2.1, hi.2.2.1, hi.2.2.2.1, hi.2.2.2.2.1, hi.2.2.2.2.2⟩) _ s hinv0).mono ?_
  rintro ⟨c, s3⟩ hpost
  cases c with
  | ret r => exact absurd hpost id
  | next a =>
    obtain ⟨⟨hts3, hlt, hge, hni, hwin, hnl⟩, _, hcov⟩ := hpost
    refine ⟨hts3, ?_, hni, hlt⟩
    have hkids : ∀ x ∈ kids g p, CCov g (depth - 1).toNat a x.2 := by
      intro x hx
      obtain ⟨hm, hap⟩ := mem_kids.mp (show (x.1, x.2) ∈ kids g p from hx)
      exact hcov x.2 ⟨x.1, hm, hap⟩
    rw [hdn]
    refine ⟨hwin, ?_, hnl, ?_⟩
    · intro _ hl
      exact loss_of_children he hov (fun x hx => (hkids x hx).1 hl)
    · intro _ hv
      exact noWin_of_children he hov (fun x hx => (hkids x hx).2 hv)
  | brk a =>
    obtain ⟨hts3, himp, hge, hwin, hnl⟩ := hpost
    refine ⟨hts3, ?_, himp, hge⟩
    rw [hdn]
    refine ⟨fun _ => hwin, ?_, fun _ => hnl, ?_⟩
    · intro h _
      rcases h with h | h
      · rw [himp] at h; cases h
      · omega
    · intro h _
      rcases h with h | h
      · rw [himp] at h; cases h
      · omega

theorem PvLoopOut.facts {g : Game P M} {p : P} {d : Nat} {α β : Int} {c : Ctl (PvAcc M) (Res M)}
    (h : PvLoopOut g p d α β c) :
    match c with
    | .ret _ => False
    | .next a => NodeGood g p d a.improved a.α β ∧ ResGood g p d α β a.α
    | .brk a => NodeGood g p d a.improved a.α β ∧ ResGood g p d α β a.α := by
  cases c with
  | ret r => exact h
  | next a =>
    obtain ⟨hn, hni, hlt⟩ := h
    refine ⟨hn, ?_, fun hb hl => hn.loss (Or.inr hb) hl, fun hb hv => hn.noWin (Or.inr hb) hv, ?_⟩
    · intro h1 hw
      cases hi : a.improved with
      | false => have := hni hi; omega
      | true => exact hn.win hi hw
    · intro h1 hv
      cases hi : a.improved with
      | false => have := hni hi; omega
      | true => exact hn.noLoss hi hv
  | brk a =>
    obtain ⟨hn, himp, hge⟩ := h
    exact ⟨hn, fun _ hw => hn.win himp hw, fun h1 _ => by omega, fun h1 _ => by omega, fun _ hv => hn.noLoss himp hv⟩

theorem pvNode_good [DecidableEq M] {g : Game P M} (hg : GameOK g) (he : EvalOK g) (hinj : HashOK g)
    {cfg : SOpts} (hpr : Precise cfg) {o : Oracle M} (hnc : NoCancel o) (hord : OrderOK o) (frame : Bool)
    {cpv : PvFn P M} {czw : ZwFn P M} (hp : PvGood g cpv) (hz : ZwGood g czw) :
    PvGood g (pvNode g cfg o frame cpv czw) := by
  intro p ply depth pv α β s hts hab
  unfold pvNode
  dsimp only
  split
  · rename_i hl
    simp only [Bool.or_eq_true, decide_eq_true_eq] at hl
    exact Sat.pure (leaf_good p depth α β hl hts)
  · rename_i hnl
    simp only [Bool.or_eq_true, decide_eq_true_eq, not_or, Int.not_le, Bool.not_eq_true] at hnl
    obtain ⟨hdpos, hov⟩ := hnl
    split
    · exact Sat.throw
    · have hdd : (cfg.dedupSymmetry && decide (g.moveNumber p < Facts.maxDedup)) = false := by
        rw [hpr.dd]; rfl
      apply Sat.bind
      refine Sat.mono (ttProbe_good he p hov ply depth α β (s := _) (by exact hts.of_table (by split <;> rfl))) ?_
      rintro ⟨probe, s1⟩ ⟨hts1, hprobe⟩
      dsimp only at hts1 hprobe ⊢
      cases probe with
      | inl r => exact Sat.pure ⟨hts1, hprobe⟩
      | inr te =>
        dsimp only
        apply Sat.bind
        refine Sat.mono (pvInitBest_good ply pv hts1) ?_
        rintro ⟨best, s2⟩ hts2
        dsimp only at hts2 ⊢
        apply Sat.bind
        rw [hdd]
        refine (pvLoop_good hg he cfg hnc hord hp hz p hov ply depth hdpos te pv α β hab best s2 hts2).mono ?_
        rintro ⟨c, s3⟩ ⟨hts3, hout⟩
        have hfacts := hout.facts
        cases c with
        | ret r => exact absurd hfacts id
        | next a =>
          dsimp only at hfacts ⊢
          refine (pvStore_good hinj o p depth β a hts3 (fun _ => hfacts.1)).mono ?_
          rintro ⟨r, s4⟩ ⟨hts4, hr⟩
          dsimp only at hts4 hr ⊢
          rw [hr]
          exact ⟨hts4, hfacts.2⟩
        | brk a =>
          dsimp only at hfacts ⊢
          refine (pvStore_good hinj o p depth β a hts3 (fun _ => hfacts.1)).mono ?_
          rintro ⟨r, s4⟩ ⟨hts4, hr⟩
          dsimp only at hts4 hr ⊢
          rw [hr]
          exact ⟨hts4, hfacts.2⟩

/-! ### zero-window nodes -/

def ZInvC (g : Game P M) (a : ZwAcc M) (s : Eng M) : Prop := TableGood g s ∧ a.didCut = false

def ZCovC (g : Game P M) (d' : Nat) (α : Int) (_a : ZwAcc M) (c : P) : Prop :=
  (α < -W → Win g c) ∧ (α ≤ W → -W ≤ negamax g d' c)

def ZQbC (g : Game P M) (p : P) (d' : Nat) (α : Int) (a : ZwAcc M) (s : Eng M) : Prop :=
  TableGood g s ∧ a.didCut = true ∧ (α ≥ W → Win g p) ∧ (-W - 1 ≤ α → -W ≤ negamax g (d' + 1) p)

theorem zwBody_good [DecidableEq M] {g : Game P M} (hg : GameOK g) {o : Oracle M} (hnc : NoCancel o)
    {czw : ZwFn P M} (hz : ZwGood g czw) (p : P) (hov : g.over p = false) (ply : Nat) (depth α : Int) (cut : Bool) :
    BodyOK g p (zwBody o czw ply depth α cut) (ZInvC g) (ZCovC g (depth - 1).toNat α)
      (ZQbC g p (depth - 1).toNat α) CQr := by
  intro m c a s hap hinv
  obtain ⟨hts, hdc⟩ := hinv
  unfold zwBody
  apply Sat.bind
  intro sm _
  apply Sat.bind
  refine Sat.mono (hz c (ply + 1) (depth - 1) _ (-α - 1) (!cut) { s with stackM := sm } (hts.of_table rfl)) ?_
  rintro ⟨⟨ms, v⟩, s'⟩ ⟨hts', hsr⟩
  dsimp only at hts' hsr ⊢
  split
  · rename_i hgt
    apply Sat.bind
    refine (recordCut_good hts' m (a.i + 1) ply).mono ?_
    intro s'' hts''
    apply Sat.bind
    intro pv0 _
    refine Sat.pure ⟨hts''.of_table rfl, rfl, ?_, ?_⟩
    · intro hw
      exact win_of_child hg hov hap (hsr.loss (by omega) (by omega))
    · intro hv
      exact noLoss_of_child hg hov hap (hsr.noWin (by omega) (by omega))
  · rename_i hngt
    apply Sat.pure
    rw [afterChild_nc hnc]
    refine ⟨⟨hts'.of_table rfl, hdc⟩, fun c' hc' => hc', ?_⟩
    intro c' hc'
    subst hc'
    exact ⟨fun hl => hsr.win (by omega) (by omega), fun hl => hsr.noLoss (by omega) (by omega)⟩

/-- how the child loop of a zero-window node (depth `d`, window `(α, α+1)`) ends -/
def ZwLoopOut (g : Game P M) (p : P) (d : Nat) (α : Int) : Ctl (ZwAcc M) (Res M) → Prop
  | .ret _ => False
  | .next a => a.didCut = false ∧ (α < -W → Loss g p) ∧ (α ≤ W → negamax g d p ≤ W)
  | .brk a => a.didCut = true ∧ (α ≥ W → Win g p) ∧ (-W - 1 ≤ α → -W ≤ negamax g d p)

theorem zwLoop_good [DecidableEq M] {g : Game P M} (hg : GameOK g) (he : EvalOK g)
    (cfg : SOpts) {o : Oracle M} (hnc : NoCancel o) (hord : OrderOK o)
    {czw : ZwFn P M} (hz : ZwGood g czw)
    (p : P) (hov : g.over p = false) (ply : Nat) (depth : Int) (hd : 0 < depth) (te : Option (TEntry M)) (pv : List M)
    (α : Int) (cut : Bool) (x0 : M) (s : Eng M) (hts : TableGood g s) :
    Sat (iterate g cfg o p ⟨ply, depth, te, pv⟩ (zwBody o czw ply depth α cut) (⟨[x0], 0, false⟩ : ZwAcc M) s)
      (fun x => TableGood g x.2 ∧ ZwLoopOut g p depth.toNat α x.1) := by
  have hdn : depth.toNat = (depth - 1).toNat + 1 := by omega
  have hb := zwBody_good hg hnc hz p hov ply depth α cut
  refine Sat.mono (iterate_rule hb cfg o ⟨ply, depth, te, pv⟩ (hg.gen p) hord
    (fun a s k hi => ⟨hi.1.of_table rfl, hi.2⟩) (⟨[x0], 0, false⟩ : ZwAcc M) _ ⟨hts, rfl⟩) ?_
  rintro ⟨c, s2⟩ hpost
  cases c with
  | ret r => exact absurd hpost id
  | next a =>
    obtain ⟨⟨hts3, hdc⟩, _, hcov⟩ := hpost
    have hkids : ∀ x ∈ kids g p, ZCovC g (depth - 1).toNat α a x.2 := by
      intro x hx
      obtain ⟨hm, hap⟩ := mem_kids.mp (show (x.1, x.2) ∈ kids g p from hx)
      exact hcov x.2 ⟨x.1, hm, hap⟩
    refine ⟨hts3, hdc, ?_, ?_⟩
    · intro hl
      exact loss_of_children he hov (fun x hx => (hkids x hx).1 hl)
    · intro hv
      rw [hdn]
      exact noWin_of_children he hov (fun x hx => (hkids x hx).2 hv)
  | brk a =>
    obtain ⟨hts3, hdc, hwin, hnl⟩ := hpost
    refine ⟨hts3, hdc, hwin, ?_⟩
    rw [hdn]
    exact hnl

/-- the facts `zwStore_good` asks for, and the result contract, from the way the loop ended -/
theorem ZwLoopOut.facts {g : Game P M} {p : P} {d : Nat} {α : Int} {c : Ctl (ZwAcc M) (Res M)}
    (h : ZwLoopOut g p d α c) :
    match c with
    | .ret _ => False
    | .next a => ((a.didCut = true → α > W → Win g p) ∧ (a.didCut = true → -W ≤ α → -W ≤ negamax g d p) ∧
        (a.didCut = false → α < -W → Loss g p) ∧ (a.didCut = false → α ≤ W → negamax g d p ≤ W)) ∧
        ResGood g p d α (α + 1) (if a.didCut then α + 1 else α)
    | .brk a => ((a.didCut = true → α > W → Win g p) ∧ (a.didCut = true → -W ≤ α → -W ≤ negamax g d p) ∧
        (a.didCut = false → α < -W → Loss g p) ∧ (a.didCut = false → α ≤ W → negamax g d p ≤ W)) ∧
        ResGood g p d α (α + 1) (if a.didCut then α + 1 else α) := by
  cases c with
  | ret r => exact h
  | next a =>
    obtain ⟨hdc, hloss, hnw⟩ := h
    refine ⟨⟨(fun h1 => by rw [hdc] at h1; cases h1), (fun h1 => by rw [hdc] at h1; cases h1), fun _ => hloss,
      fun _ => hnw⟩, ?_⟩
    rw [hdc]
    simp only [Bool.false_eq_true, if_false]
    exact ⟨fun h1 _ => by omega, fun _ hl => hloss hl, fun _ hv => hnw hv, fun h1 _ => by omega⟩
  | brk a =>
    obtain ⟨hdc, hwin, hnl⟩ := h
    refine ⟨⟨fun _ hw => hwin (by omega), fun _ hv => hnl (by omega), (fun h1 => by rw [hdc] at h1; cases h1),
      (fun h1 => by rw [hdc] at h1; cases h1)⟩, ?_⟩
    rw [hdc]
    simp only [if_true]
    exact ⟨fun _ hw => hwin (by omega), fun h1 _ => by omega, fun h1 _ => by omega, fun _ hv => hnl (by omega)⟩

theorem zwNode_good [DecidableEq M] {g : Game P M} (hg : GameOK g) (he : EvalOK g) (hinj : HashOK g)
    {cfg : SOpts} (hpr : Precise cfg) {o : Oracle M} (hnc : NoCancel o) (hord : OrderOK o) (frame : Bool)
    {czw : ZwFn P M} (hz : ZwGood g czw) :
    ZwGood g (zwNode g cfg o frame czw) := by
  intro p ply depth pv α cut s hts
  unfold zwNode
  dsimp only
  split
  · rename_i hl
    simp only [Bool.or_eq_true, decide_eq_true_eq] at hl
    exact Sat.pure (leaf_good p depth α (α + 1) hl hts)
  · rename_i hnl
    simp only [Bool.or_eq_true, decide_eq_true_eq, not_or, Int.not_le, Bool.not_eq_true] at hnl
    obtain ⟨hdpos, hov⟩ := hnl
    split
    · exact Sat.throw
    · apply Sat.bind
      refine Sat.mono (ttProbe_good he p hov ply depth α (α + 1) (s := _) (by exact hts.of_table rfl)) ?_
      rintro ⟨probe, s1⟩ ⟨hts1, hprobe⟩
      dsimp only at hts1 hprobe ⊢
      cases probe with
      | inl r => exact Sat.pure ⟨hts1, hprobe⟩
      | inr te =>
        dsimp only
        apply Sat.bind
        rw [nullMove_precise hpr]
        apply Sat.ok
        dsimp only
        apply Sat.bind
        rw [slideReduction_precise hpr]
        apply Sat.ok
        dsimp only
        apply Sat.bind
        rw [multiCut_precise hpr]
        apply Sat.ok
        dsimp only
        apply Sat.bind
        intro x _
        apply Sat.bind
        refine (zwLoop_good hg he cfg hnc hord hz p hov ply depth hdpos te pv α cut x s1 hts1).mono ?_
        rintro ⟨c, s2⟩ ⟨hts3, hout⟩
        have hfacts := hout.facts
        cases c with
        | ret r => exact absurd hfacts id
        | next a =>
          dsimp only at hfacts ⊢
          refine (zwStore_good hinj o p depth α a hts3 (fun _ => hfacts.1)).mono ?_
          rintro ⟨r, s4⟩ ⟨hts4, hr⟩
          dsimp only at hts4 hr ⊢
          rw [hr]
          exact ⟨hts4, hfacts.2⟩
        | brk a =>
          dsimp only at hfacts ⊢
          refine (zwStore_good hinj o p depth α a hts3 (fun _ => hfacts.1)).mono ?_
          rintro ⟨r, s4⟩ ⟨hts4, hr⟩
          dsimp only at hts4 hr ⊢
          rw [hr]
          exact ⟨hts4, hfacts.2⟩

/-- **good tables and good results** (cancel flag clear, precise options, any good table, any move order) -/
theorem search_good [DecidableEq M] {g : Game P M} (hg : GameOK g) (he : EvalOK g) (hinj : HashOK g)
    {cfg : SOpts} (hpr : Precise cfg) {o : Oracle M} (hnc : NoCancel o) (hord : OrderOK o) :
    ∀ n, PvGood g (search g cfg o n).1 ∧ ZwGood g (search g cfg o n).2 := by
  intro n
  induction n with
  | zero =>
    have hze : ZwGood g (fun _ _ _ _ _ _ _ => (.error (.panic "ai.stack[ply]: index out of range") : Except Err (Res M × Eng M))) :=
      fun _ _ _ _ _ _ _ _ => Sat.error
    have hpe : PvGood g (fun _ _ _ _ _ _ _ => (.error (.panic "ai.stack[ply]: index out of range") : Except Err (Res M × Eng M))) :=
      fun _ _ _ _ _ _ _ _ _ => Sat.error
    exact ⟨pvNode_good hg he hinj hpr hnc hord false hpe hze, zwNode_good hg he hinj hpr hnc hord false hze⟩
  | succ n ih =>
    exact ⟨pvNode_good hg he hinj hpr hnc hord true ih.1 ih.2, zwNode_good hg he hinj hpr hnc hord true ih.2⟩

end Search
