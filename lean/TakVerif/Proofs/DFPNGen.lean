import TakVerif.Proofs.DFPNInv

/-! The child generation of `mid` (`Impl/DFPN.lean` `genChildren`): every child entry — from a finished
game, from the threat oracle, from the table, or fresh — is sound, and the children cover the moves of
the node unless generation stopped at a child that settles the node. -/
namespace C06
open Tak Tak.PN Tak.DFPN Spec.Game

variable {S M : Type} {G : Game S M} {hash : S → UInt64} {threats : S → Bool × Bool}
  {att : Color}

/-- the entry `mid` gives the child position `p` (the `if … else if …` chain of the child loop) -/
def childEntryOf (G : Game S M) (hash : S → UInt64) (threats : S → Bool × Bool) (att : Color)
    (st : St M) (p : S) : Except Err (St M × Entry M) :=
  let h := hash p
  match G.over p with
  | some result =>
    .ok ({ st with stats := { st.stats with terminal := st.stats.terminal + 1 } },
         { bounds := terminalBounds G att p result, hash := h, work := 0, pv := none })
  | none =>
    match solve G threats p with
    | some result =>
      .ok ({ st with stats := { st.stats with solved := st.stats.solved + 1 } },
           { bounds := terminalBounds G att p result, hash := h, work := 0, pv := none })
    | none =>
      match lookup st h with
      | .error e => .error e
      | .ok (some b) => .ok ({ st with stats := { st.stats with hits := st.stats.hits + 1 } }, b)
      | .ok none =>
        .ok ({ st with stats := { st.stats with miss := st.stats.miss + 1 } },
             { bounds := { phi := 1, delta := UInt32.ofNat (G.moves p).length }, hash := h, work := 0, pv := none })

theorem genChildren_cons [DecidableEq M] (killer : Option M) (g : S) (m : M) (ms : List M) (st : St M)
    (children : Array (Child S M)) :
    genChildren G hash threats att killer g (m :: ms) st children =
      match G.apply g m with
      | none => genChildren G hash threats att killer g ms st children
      | some p =>
        match childEntryOf G hash threats att st p with
        | .error e => .error e
        | .ok (st, childEntry) =>
          let children := children.push { data := childEntry, move := m, g := p }
          let children := if some m == killer then children.swapIfInBounds 0 (children.size - 1) else children
          if childEntry.bounds.delta == 0 then .ok (st, children)
          else genChildren G hash threats att killer g ms st children := rfl

/-- only the statistics differ -/
def SameTable (st st' : St M) : Prop :=
  st'.table = st.table ∧ st'.ghostRep = st.ghostRep ∧ st'.tableLen = st.tableLen ∧ st'.killers = st.killers

theorem SameTable.trans {a b c : St M} (h1 : SameTable a b) (h2 : SameTable b c) : SameTable a c :=
  ⟨h2.1.trans h1.1, h2.2.1.trans h1.2.1, h2.2.2.1.trans h1.2.2.1, h2.2.2.2.trans h1.2.2.2⟩

theorem SameTable.clean {a b : St M} (h : SameTable a b) (two : Bool) : cleanOf two b = cleanOf two a := by
  simp only [cleanOf, h.2.1]

theorem childEntryOf_ok {two : Bool} {Dom : S → Prop} (hk : DfpnOK G hash threats att two Dom)
    {st st' : St M} {p : S} {e : Entry M} (hp : Dom p) (ht : TableOK G hash att two Dom st)
    (hrun : childEntryOf G hash threats att st p = .ok (st', e)) :
    SameTable st st' ∧ e.hash = hash p ∧ EOK G att (cleanOf two st) p e.bounds ∧
    (G.over p = none ∨ e.bounds.phi = DFPN.infinity ∨ e.bounds.delta = DFPN.infinity) := by
  unfold childEntryOf at hrun
  simp only at hrun
  split at hrun
  · rename_i r hor
    simp only [Except.ok.injEq, Prod.mk.injEq] at hrun
    obtain ⟨rfl, rfl⟩ := hrun
    refine ⟨⟨rfl, rfl, rfl, rfl⟩, rfl, terminal_eok hk.alt hk.attWB _ hor, Or.inr ?_⟩
    rw [terminalBounds_eq]; exact tb_solved _ _ _
  · rename_i hor
    split at hrun
    · rename_i r hsol
      simp only [Except.ok.injEq, Prod.mk.injEq] at hrun
      obtain ⟨rfl, rfl⟩ := hrun
      refine ⟨⟨rfl, rfl, rfl, rfl⟩, rfl, solved_eok hk _ ?_ hp hor hsol, Or.inl hor⟩
      intro hc; simp only [cleanOf, Bool.and_eq_true] at hc; exact hc.1
    · split at hrun
      · cases hrun
      · rename_i b hl
        simp only [Except.ok.injEq, Prod.mk.injEq] at hrun
        obtain ⟨rfl, rfl⟩ := hrun
        unfold lookup at hl
        split at hl
        · cases hl
        · simp only [Except.ok.injEq] at hl
          split at hl
          · rename_i heq
            injection hl with hl
            have heq' : (st.slot ((hash p).toNat % st.tableLen)).hash = hash p := by simpa using heq
            rw [← hl]
            exact ⟨⟨rfl, rfl, rfl, rfl⟩, heq', ht _ p hp hor heq'.symm, Or.inl hor⟩
          · cases hl
      · simp only [Except.ok.injEq, Prod.mk.injEq] at hrun
        obtain ⟨rfl, rfl⟩ := hrun
        exact ⟨⟨rfl, rfl, rfl, rfl⟩, rfl, fresh_eok hk _ hp hor, Or.inl hor⟩

theorem mem_swapIfInBounds {α : Type} (a : Array α) (i j : Nat) (x : α) :
    x ∈ (a.swapIfInBounds i j).toList ↔ x ∈ a.toList := by
  unfold Array.swapIfInBounds
  split
  · split
    · exact (Array.perm_iff_toList_perm.mp (Array.swap_perm _ _)).mem_iff
    · rfl
  · rfl

/-- all children with δ = 0 carry the same move (generation stops at the first one, and only the child
searched last can newly get δ = 0) -/
def SameMove (cs : List (Child S M)) : Prop :=
  ∀ c ∈ cs, ∀ c' ∈ cs, c.data.bounds.delta = 0 → c'.data.bounds.delta = 0 → c.move = c'.move

theorem genChildren_ok [DecidableEq M] {two : Bool} {Dom : S → Prop} (hk : DfpnOK G hash threats att two Dom)
    (killer : Option M) {g : S} (hg : Dom g) :
    ∀ (ms : List M) (st : St M) (children : Array (Child S M)) (st' : St M) (children' : Array (Child S M)),
      (∀ m ∈ ms, m ∈ G.moves g) → TableOK G hash att two Dom st →
      (∀ c ∈ children.toList, ChildOK (G := G) (hash := hash) (att := att) (cleanOf two st) g c) →
      (∀ c ∈ children.toList, c.data.bounds.delta ≠ 0) →
      genChildren G hash threats att killer g ms st children = .ok (st', children') →
      SameTable st st' ∧ SameMove children'.toList ∧
      (∀ c ∈ children'.toList, ChildOK (G := G) (hash := hash) (att := att) (cleanOf two st) g c) ∧
      (∀ c ∈ children.toList, c ∈ children'.toList) ∧
      ((∀ m ∈ ms, ∀ s', G.apply g m = some s' → ∃ c ∈ children'.toList, c.move = m) ∨
        ∃ c ∈ children'.toList, c.data.bounds.delta = 0) := by
  intro ms
  induction ms with
  | nil =>
    intro st children st' children' _ _ hch hnz hrun
    simp only [genChildren, Except.ok.injEq, Prod.mk.injEq] at hrun
    obtain ⟨rfl, rfl⟩ := hrun
    exact ⟨⟨rfl, rfl, rfl, rfl⟩, fun c hc _ _ hz _ => absurd hz (hnz c hc), hch, fun c hc => hc, Or.inl (fun m hm => by cases hm)⟩
  | cons m ms ih =>
    intro st children st' children' hms ht hch hnz hrun
    rw [genChildren_cons] at hrun
    have hms' : ∀ m' ∈ ms, m' ∈ G.moves g := fun m' hm' => hms m' (List.mem_cons_of_mem _ hm')
    split at hrun
    · rename_i happ
      obtain ⟨h1, h0, h2, h3, h4⟩ := ih st children st' children' hms' ht hch hnz hrun
      refine ⟨h1, h0, h2, h3, ?_⟩
      rcases h4 with h4 | h4
      · left
        intro m' hm' s' hs'
        rcases List.mem_cons.mp hm' with rfl | hm'
        · rw [happ] at hs'; cases hs'
        · exact h4 m' hm' s' hs'
      · exact Or.inr h4
    · rename_i p happ
      split at hrun
      · cases hrun
      · rename_i st1 e hce
        have hp : Dom p := hk.closed g p hg ⟨m, hms m (List.mem_cons_self ..), happ⟩
        obtain ⟨hsame, hh, heok, hlive⟩ := childEntryOf_ok hk hp ht hce
        have hnew : ChildOK (G := G) (hash := hash) (att := att) (cleanOf two st) g
            { data := e, move := m, g := p } :=
          ⟨hms m (List.mem_cons_self ..), happ, hh, heok, hlive⟩
        -- the children after the push (and the swap)
        simp only at hrun
        generalize hcs : (if some m == killer then
            (children.push { data := e, move := m, g := p }).swapIfInBounds 0
              ((children.push { data := e, move := m, g := p }).size - 1)
            else children.push { data := e, move := m, g := p }) = cs at hrun
        have hmem : ∀ c, c ∈ cs.toList ↔ c ∈ children.toList ∨ c = { data := e, move := m, g := p } := by
          intro c
          rw [← hcs]
          split
          · rw [mem_swapIfInBounds]; simp
          · simp
        have hch1 : ∀ c ∈ cs.toList, ChildOK (G := G) (hash := hash) (att := att) (cleanOf two st) g c := by
          intro c hc
          rcases (hmem c).mp hc with hc | rfl
          · exact hch c hc
          · exact hnew
        split at hrun
        · rename_i hz
          simp only [Except.ok.injEq, Prod.mk.injEq] at hrun
          obtain ⟨rfl, rfl⟩ := hrun
          refine ⟨hsame, ?_, hch1, fun c hc => (hmem c).mpr (Or.inl hc), Or.inr ⟨_, (hmem _).mpr (Or.inr rfl), ?_⟩⟩
          · intro c hc c' hc' hcz hcz'
            rcases (hmem c).mp hc with hc | rfl
            · exact absurd hcz (hnz c hc)
            · rcases (hmem c').mp hc' with hc' | rfl
              · exact absurd hcz' (hnz c' hc')
              · rfl
          · simpa using hz
        · rename_i hz
          have ht1 : TableOK G hash att two Dom st1 := ht.congr hsame.1 hsame.2.1
          have hcl := hsame.clean two
          have hnz1 : ∀ c ∈ cs.toList, c.data.bounds.delta ≠ 0 := by
            intro c hc
            rcases (hmem c).mp hc with hc | rfl
            · exact hnz c hc
            · simpa using hz
          obtain ⟨h1, h0, h2, h3, h4⟩ := ih st1 cs st' children' hms' ht1 (by rw [hcl]; exact hch1) hnz1 hrun
          rw [hcl] at h2
          refine ⟨hsame.trans h1, h0, h2, fun c hc => h3 c ((hmem c).mpr (Or.inl hc)), ?_⟩
          rcases h4 with h4 | h4
          · left
            intro m' hm' s' hs'
            rcases List.mem_cons.mp hm' with rfl | hm'
            · exact ⟨_, h3 _ ((hmem _).mpr (Or.inr rfl)), rfl⟩
            · exact h4 m' hm' s' hs'
          · exact Or.inr h4

end C06
