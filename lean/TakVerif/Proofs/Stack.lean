import TakVerif.Proofs.Cell

/-! Bit-stack algebra: lifting pieces off a square and dropping pieces on a square, per cell. -/
namespace Tak

theorem lowmask_eq (n : Nat) (hn : n < 64) : (1#64 <<< n) - 1#64 = BitVec.ofNat 64 (2^n - 1) := by
  apply BitVec.eq_of_toNat_eq
  have h2 : 2^n < 2^64 := Nat.pow_lt_pow_right (by omega) hn
  have h3 : 0 < 2^n := Nat.two_pow_pos n
  simp [BitVec.toNat_sub, BitVec.toNat_shiftLeft, Nat.shiftLeft_eq]
  omega

theorem lowmask_getLsbD (n k : Nat) (hn : n < 64) :
    ((1#64 <<< n) - 1#64).getLsbD k = decide (k < n) := by
  rw [lowmask_eq n hn]
  simp [BitVec.getLsbD_ofNat, Nat.testBit_two_pow_sub_one]
  omega

/-- colour/kind of the `k`-th carried piece (from the top): colours from `stack`, only piece 0 keeps the top's kind -/
def pieceOf (top : Piece) (stack : W) (k : Nat) : Piece :=
  ⟨if stack.getLsbD k then .black else .white, if k = 0 then top.kind else .flat⟩

def carriedList (top : Piece) (stack : W) (ct : Nat) : List Piece := (List.range ct).map (pieceOf top stack)

/-- the local `stack` of `MovePreallocated`: `Stacks[i] << 1 | (top is black)` -/
def Cell.stackWord (c : Cell) (top : Piece) : W :=
  (c.st <<< 1) ||| (if top.color == .black then 1#64 else 0#64)

theorem stackWord_zero (c : Cell) (top : Piece) : (c.stackWord top).getLsbD 0 = (top.color == .black) := by
  unfold Cell.stackWord
  rw [BitVec.getLsbD_or, BitVec.getLsbD_shiftLeft]
  cases (top.color == Color.black) <;> simp

theorem stackWord_succ (c : Cell) (top : Piece) (k : Nat) (hk : k + 1 < 64) :
    (c.stackWord top).getLsbD (k + 1) = c.st.getLsbD k := by
  unfold Cell.stackWord
  rw [BitVec.getLsbD_or, BitVec.getLsbD_shiftLeft]
  have : ((if (top.color == Color.black) = true then 1#64 else 0#64) : W).getLsbD (k+1) = false := by
    split <;> simp [BitVec.getLsbD_one]
  rw [this]
  simp [hk]

theorem pieceOf_succ (top : Piece) (stack : W) (k : Nat) : pieceOf top stack (k+1) = flatOf (stack.getLsbD (k+1)) := by
  unfold pieceOf flatOf
  cases stack.getLsbD (k+1) <;> simp

theorem carriedList_length (top : Piece) (stack : W) (ct : Nat) : (carriedList top stack ct).length = ct := by
  simp [carriedList]

theorem carriedList_getElem (top : Piece) (stack : W) (ct k : Nat) (h : k < (carriedList top stack ct).length) :
    (carriedList top stack ct)[k] = pieceOf top stack k := by
  simp [carriedList]

theorem carriedList_take (top : Piece) (stack : W) (ct n : Nat) (h : n ≤ ct) :
    (carriedList top stack ct).take n = carriedList top stack n := by
  unfold carriedList
  rw [← List.map_take, List.take_range, Nat.min_eq_left h]

theorem u8_sub_toNat (h : U8) (ct : Nat) (hct : ct ≤ h.toNat) : (h - BitVec.ofNat 8 ct).toNat = h.toNat - ct := by
  have h8 : h.toNat < 256 := h.isLt
  have : ct % 256 = ct := Nat.mod_eq_of_lt (by omega)
  simp only [BitVec.toNat_sub, BitVec.toNat_ofNat, this]
  omega

theorem u8_add_toNat (h : U8) (c : Nat) (hc : h.toNat + c < 256) : (h + BitVec.ofNat 8 c).toNat = h.toNat + c := by
  have : c % 256 = c := Nat.mod_eq_of_lt (by omega)
  simp only [BitVec.toNat_add, BitVec.toNat_ofNat, this]
  omega

/-- the origin cell after lifting `ct` pieces -/
def Cell.lift (c : Cell) (stack : W) (ct : Nat) : Cell :=
  { w := decide (c.h.toNat ≠ ct) && !stack.getLsbD ct
    b := decide (c.h.toNat ≠ ct) && stack.getLsbD ct
    s := false, c := false
    h := c.h - BitVec.ofNat 8 ct
    st := c.st >>> ct }

theorem Cell.lift_wf {c : Cell} (hc : c.WF) (stack : W) (ct : Nat) (h1 : 1 ≤ ct) (h2 : ct ≤ c.h.toNat) :
    (c.lift stack ct).WF := by
  have hh := u8_sub_toNat c.h ct h2
  refine { wb := ?_, sc := ?_, kind_occ := ?_, h_zero := ?_, h_le := ?_, st_hi := ?_ }
  · simp only [Cell.lift]; cases stack.getLsbD ct <;> simp
  · simp [Cell.lift]
  · simp [Cell.lift]
  · have e : (c.lift stack ct).h = 0#8 ↔ c.h.toNat = ct := by
      constructor
      · intro h0
        have : (c.lift stack ct).h.toNat = 0 := by rw [h0]; rfl
        simp only [Cell.lift] at this
        omega
      · intro heq
        apply BitVec.eq_of_toNat_eq
        simp only [Cell.lift]
        rw [hh, heq]; simp
    rw [e]
    simp only [Cell.lift]
    by_cases heq : c.h.toNat = ct
    · simp [heq]
    · cases stack.getLsbD ct <;> simp [heq]
  · simp only [Cell.lift]; rw [hh]; have := hc.h_le; omega
  · intro k hk
    simp only [Cell.lift] at hk ⊢
    rw [hh] at hk
    rw [BitVec.getLsbD_ushiftRight]
    exact hc.st_hi _ (by omega)

theorem Cell.square_cons {c : Cell} {top : Piece} (ht : c.top = some top) :
    c.square = top :: buried c.st (c.h.toNat - 1) := by
  unfold Cell.square; rw [ht]

theorem Cell.lift_square {c : Cell} (_hc : c.WF) {top : Piece} (ht : c.top = some top) (ct : Nat)
    (h1 : 1 ≤ ct) (h2 : ct ≤ c.h.toNat) (h64 : ct < 64) :
    (c.lift (c.stackWord top) ct).square = c.square.drop ct := by
  have hh := u8_sub_toNat c.h ct h2
  rw [Cell.square_cons ht]
  obtain ⟨ct', rfl⟩ : ∃ n, ct = n + 1 := ⟨ct - 1, by omega⟩
  rw [List.drop_succ_cons]
  by_cases heq : c.h.toNat = ct' + 1
  · have : (c.lift (c.stackWord top) (ct'+1)).top = none := by
      rw [Cell.top_none_iff]; simp [Cell.lift, heq]
    unfold Cell.square
    rw [this, List.drop_of_length_le (by rw [buried_length]; omega)]
  · have hb : (c.stackWord top).getLsbD (ct'+1) = c.st.getLsbD ct' := stackWord_succ c top ct' h64
    have htop : (c.lift (c.stackWord top) (ct'+1)).top = some (flatOf (c.st.getLsbD ct')) := by
      unfold Cell.top
      simp only [Cell.lift, hb, heq, ne_eq, not_false_eq_true, decide_true, Bool.true_and]
      cases c.st.getLsbD ct' <;> simp [flatOf]
    rw [Cell.square_cons htop]
    apply List.ext_getElem
    · simp only [List.length_cons, buried_length, List.length_drop, Cell.lift]
      rw [hh]; omega
    · intro k hk1 hk2
      rw [List.getElem_drop, buried_getElem]
      cases k with
      | zero => simp
      | succ k =>
        simp only [List.getElem_cons_succ, buried_getElem, Cell.lift]
        rw [BitVec.getLsbD_ushiftRight]
        congr 2
        omega

theorem Cell.square_take {c : Cell} (hc : c.WF) {top : Piece} (ht : c.top = some top) (ct : Nat)
    (h2 : ct ≤ c.h.toNat) (h64 : ct < 64) :
    c.square.take ct = carriedList top (c.stackWord top) ct := by
  have hlen := Cell.square_length hc
  apply List.ext_getElem
  · rw [List.length_take, carriedList_length, hlen]; omega
  · intro k hk1 hk2
    rw [carriedList_getElem, List.getElem_take]
    rw [carriedList_length] at hk2
    have hsq := Cell.square_cons ht
    cases k with
    | zero =>
      simp only [hsq, List.getElem_cons_zero]
      unfold pieceOf
      rw [stackWord_zero]
      rcases Cell.top_isSome_color ht with ⟨h, _⟩ | ⟨h, _⟩
      · obtain ⟨col, kd⟩ := top; simp only at h; subst h; simp
      · obtain ⟨col, kd⟩ := top; simp only at h; subst h; simp
    | succ k =>
      rw [pieceOf_succ, stackWord_succ _ _ _ (by omega)]
      simp only [hsq, List.getElem_cons_succ, buried_getElem]

/-! ### dropping on a square -/

/-- the target cell after the `switch` (a wall that is entered has been flattened) -/
def Cell.enter (c : Cell) : Cell := { c with s := false }

/-- `Stacks[i] <<= 1 (|= 1)` when the target is occupied: the old top becomes the first buried piece -/
def Cell.s1 (c : Cell) : W :=
  if c.w then c.st <<< 1 else if c.b then (c.st <<< 1) ||| 1#64 else c.st

def dropS2' (s1 stack : W) (ct cnt : Nat) : W :=
  (s1 <<< (cnt - 1)) ||| ((stack >>> (ct - (cnt - 1))) &&& ((1#64 <<< (cnt - 1)) - 1#64))

/-- the target cell after dropping `cnt` of the `ct` carried pieces on it -/
def Cell.drop (c : Cell) (top : Piece) (stack : W) (ct cnt : Nat) : Cell :=
  { w := !stack.getLsbD (ct - cnt)
    b := stack.getLsbD (ct - cnt)
    s := c.s || (decide (ct - cnt = 0) && decide (top.kind = .standing))
    c := c.c || (decide (ct - cnt = 0) && decide (top.kind = .capstone))
    h := c.h + BitVec.ofNat 8 cnt
    st := dropS2' c.s1 stack ct cnt }

theorem dropS2'_bit (s1 stack : W) (ct cnt k : Nat) (h1 : 1 ≤ cnt) (h2 : cnt ≤ ct) (hc : cnt ≤ 64) (hk : k < 64) :
    (dropS2' s1 stack ct cnt).getLsbD k =
      if k < cnt - 1 then stack.getLsbD (ct - cnt + 1 + k) else s1.getLsbD (k - (cnt - 1)) := by
  unfold dropS2'
  rw [BitVec.getLsbD_or, BitVec.getLsbD_and, lowmask_getLsbD _ _ (by omega), BitVec.getLsbD_shiftLeft,
    BitVec.getLsbD_ushiftRight]
  have e : ct - (cnt - 1) + k = ct - cnt + 1 + k := by omega
  rw [e]
  by_cases hlt : k < cnt - 1
  · simp [hlt]
  · simp [hlt, hk]

theorem Cell.s1_bit_empty {c : Cell} (hw : c.w = false) (hb : c.b = false) : c.s1 = c.st := by
  simp [Cell.s1, hw, hb]

theorem Cell.s1_bit_zero {c : Cell} (hc : c.TopWF) (hocc : c.w = true ∨ c.b = true) : c.s1.getLsbD 0 = c.b := by
  unfold Cell.s1
  have := hc.wb
  cases hw : c.w <;> cases hb : c.b <;> simp_all

theorem Cell.s1_bit_succ {c : Cell} (hocc : c.w = true ∨ c.b = true) (k : Nat) (hk : k + 1 < 64) :
    c.s1.getLsbD (k+1) = c.st.getLsbD k := by
  unfold Cell.s1
  cases hw : c.w <;> cases hb : c.b <;>
    simp_all [-BitVec.getLsbD_eq_getElem, BitVec.getLsbD_shiftLeft, BitVec.getLsbD_one, BitVec.getLsbD_or]

theorem Cell.drop_topwf (c : Cell) (top : Piece) (stack : W) (ct cnt : Nat) (hs : c.s = false) (hcp : c.c = false) :
    (c.drop top stack ct cnt).TopWF := by
  refine { wb := ?_, sc := ?_, kind_occ := ?_ }
  · simp only [Cell.drop]; cases stack.getLsbD (ct - cnt) <;> simp
  · simp only [Cell.drop, hs, hcp]
    obtain ⟨col, kd⟩ := top
    cases kd <;> simp
  · intro _
    simp only [Cell.drop]; cases stack.getLsbD (ct - cnt) <;> simp

theorem Cell.drop_top (c : Cell) (top : Piece) (stack : W) (ct cnt : Nat) (hs : c.s = false) (hcp : c.c = false) :
    (c.drop top stack ct cnt).top = some (pieceOf top stack (ct - cnt)) := by
  unfold Cell.top pieceOf
  simp only [Cell.drop, hs, hcp]
  obtain ⟨col, kd⟩ := top
  by_cases hz : ct - cnt = 0 <;> cases stack.getLsbD (ct - cnt) <;> cases kd <;> simp [hz]

theorem Cell.h_pos {c : Cell} (hc : c.WF) (hocc : c.w = true ∨ c.b = true) : 1 ≤ c.h.toNat := by
  have : c.h ≠ 0#8 := fun h0 => by
    have := hc.h_zero.1 h0
    rcases hocc with h | h <;> simp [h] at this
  have : c.h.toNat ≠ 0 := fun hh => this (BitVec.eq_of_toNat_eq (by simpa using hh))
  omega

theorem Cell.h_zero_of_empty {c : Cell} (hc : c.WF) (hw : c.w = false) (hb : c.b = false) : c.h.toNat = 0 := by
  rw [hc.h_zero.2 ⟨hw, hb⟩]; rfl

theorem Cell.occ_cases (c : Cell) : (c.w = true ∨ c.b = true) ∨ (c.w = false ∧ c.b = false) := by
  cases c.w <;> cases c.b <;> simp

theorem Cell.drop_wf {c : Cell} (hc : c.WF) (top : Piece) (stack : W) (ct cnt : Nat) (hs : c.s = false) (hcp : c.c = false)
    (h1 : 1 ≤ cnt) (h2 : cnt ≤ ct) (hlim : c.h.toNat + cnt ≤ 64) : (c.drop top stack ct cnt).WF := by
  have hh : (c.drop top stack ct cnt).h.toNat = c.h.toNat + cnt := u8_add_toNat c.h cnt (by omega)
  refine { toTopWF := Cell.drop_topwf c top stack ct cnt hs hcp, h_zero := ?_, h_le := by rw [hh]; exact hlim, st_hi := ?_ }
  · constructor
    · intro h0
      have : (c.drop top stack ct cnt).h.toNat = 0 := by rw [h0]; rfl
      omega
    · intro ⟨hw, hb⟩
      simp only [Cell.drop] at hw hb
      rw [hb] at hw; cases hw
  · intro k hk
    rw [hh] at hk
    by_cases hk64 : k < 64
    · simp only [Cell.drop]
      rw [dropS2'_bit _ _ _ _ _ h1 h2 (by omega) hk64]
      have : ¬ k < cnt - 1 := by omega
      simp only [this, if_false]
      rcases c.occ_cases with hocc | ⟨hw, hb⟩
      · have hpos := Cell.h_pos hc hocc
        obtain ⟨r, hr⟩ : ∃ r, k - (cnt - 1) = r + 1 := ⟨k - (cnt - 1) - 1, by omega⟩
        rw [hr, Cell.s1_bit_succ hocc r (by omega)]
        exact hc.st_hi r (by omega)
      · rw [Cell.s1_bit_empty hw hb]
        exact hc.st_hi _ (by have := Cell.h_zero_of_empty hc hw hb; omega)
    · exact BitVec.getLsbD_of_ge _ _ (by omega)

theorem Cell.enter_top_flat {c : Cell} (hs : c.s = false) (hcp : c.c = false) (hocc : c.w = true ∨ c.b = true)
    (hwb : ¬(c.w = true ∧ c.b = true)) : c.top = some (flatOf c.b) := by
  unfold Cell.top flatOf
  cases hw : c.w <;> cases hb : c.b <;> simp_all

/-- list semantics of a drop: the bottom `cnt` of the `ct` carried pieces land on top of the square -/
theorem Cell.drop_square {c : Cell} (hc : c.WF) (top : Piece) (stack : W) (ct cnt : Nat) (hs : c.s = false) (hcp : c.c = false)
    (h1 : 1 ≤ cnt) (h2 : cnt ≤ ct) (hlim : c.h.toNat + cnt ≤ 64) :
    (c.drop top stack ct cnt).square = (carriedList top stack ct).drop (ct - cnt) ++ c.square := by
  have hh : (c.drop top stack ct cnt).h.toNat = c.h.toNat + cnt := u8_add_toNat c.h cnt (by omega)
  have hlen := Cell.square_length hc
  rw [Cell.square_cons (Cell.drop_top c top stack ct cnt hs hcp)]
  apply List.ext_getElem
  · simp only [List.length_cons, buried_length, List.length_append, List.length_drop, carriedList_length, hlen, hh]
    omega
  · intro k hk1 hk2
    simp only [List.length_cons, buried_length, hh] at hk1
    by_cases hkc : k < cnt
    · rw [List.getElem_append_left (by simp only [List.length_drop, carriedList_length]; omega),
        List.getElem_drop, carriedList_getElem]
      cases k with
      | zero => simp
      | succ k =>
        have e : ct - cnt + (k + 1) = (ct - cnt + k) + 1 := by omega
        rw [e, pieceOf_succ]
        simp only [List.getElem_cons_succ, buried_getElem, Cell.drop]
        rw [dropS2'_bit _ _ _ _ _ h1 h2 (by omega) (by omega)]
        have : k < cnt - 1 := by omega
        simp only [this, if_true]
        congr 2; omega
    · rw [List.getElem_append_right (by simp only [List.length_drop, carriedList_length]; omega)]
      simp only [List.length_drop, carriedList_length]
      obtain ⟨k', rfl⟩ : ∃ n, k = n + 1 := ⟨k - 1, by omega⟩
      simp only [List.getElem_cons_succ, buried_getElem, Cell.drop]
      rw [dropS2'_bit _ _ _ _ _ h1 h2 (by omega) (by omega)]
      have : ¬ k' < cnt - 1 := by omega
      simp only [this, if_false]
      have hidx : k' + 1 - (ct - (ct - cnt)) = k' - (cnt - 1) := by omega
      rcases c.occ_cases with hocc | ⟨hw, hb⟩
      · have hsq := Cell.square_cons (Cell.enter_top_flat hs hcp hocc hc.wb)
        simp only [hidx, hsq]
        have key : ∀ (r : Nat) (hr : r < (flatOf c.b :: buried c.st (c.h.toNat - 1)).length),
            flatOf (c.s1.getLsbD r) = (flatOf c.b :: buried c.st (c.h.toNat - 1))[r] := by
          intro r hr
          simp only [List.length_cons, buried_length] at hr
          cases r with
          | zero => simp only [List.getElem_cons_zero]; rw [Cell.s1_bit_zero hc.toTopWF hocc]
          | succ r =>
            simp only [List.getElem_cons_succ, buried_getElem]
            rw [Cell.s1_bit_succ hocc r (by omega)]
        exact key _ _
      · exfalso
        have := Cell.h_zero_of_empty hc hw hb
        omega

end Tak
