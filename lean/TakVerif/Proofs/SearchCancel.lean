import TakVerif.Proofs.SearchLoop

/-! Cancellation (C16): the search consults the cancel flag only through `load`; as long as every load
returned `false`, a run is step for step the run in which the flag is never set.  `Loc` packages, for a pair
of computations (the same code under the oracle `o` and under `o.never`), that the load/evaluation
counters only grow and that the two runs coincide if the flag was still clear on everything consulted. -/
namespace Search
open Tak (Err)

variable {P M : Type}

/-- the same environment with the cancel flag never set -/
def Oracle.never (o : Oracle M) : Oracle M := { o with cancel := fun _ _ => false }

/-- the flag, once set, stays set: later loads and loads after more evaluations see it too -/
def Oracle.Monotone (o : Oracle M) : Prop :=
  ∀ l l' e e', l ≤ l' → e ≤ e' → o.cancel l e = true → o.cancel l' e' = true

/-- every load made before reaching the counters of `s` answered `false` (stated on the whole rectangle) -/
def FalseUpTo (o : Oracle M) (s : Eng M) : Prop :=
  ∀ l e, l < s.loads → e ≤ s.evals → o.cancel l e = false

/-- `x` (under `o`) and `x'` (under `o.never`), both started in `s` -/
def Loc (o : Oracle M) (s : Eng M) {α : Type} (x x' : Except Err (α × Eng M)) : Prop :=
  ∀ a s', x = .ok (a, s') → s.loads ≤ s'.loads ∧ s.evals ≤ s'.evals ∧ s'.st.depth = s.st.depth ∧
    s'.hasTable = s.hasTable ∧ (FalseUpTo o s' → x' = .ok (a, s'))

theorem FalseUpTo.weaken {o : Oracle M} {s s' : Eng M} (h : FalseUpTo o s')
    (hl : s.loads ≤ s'.loads) (he : s.evals ≤ s'.evals) : FalseUpTo o s :=
  fun l e h1 h2 => h l e (by omega) (by omega)

section rules
variable {o : Oracle M} {α β : Type}

theorem Loc.pure (s : Eng M) (a : α) (s1 : Eng M) (hl : s.loads ≤ s1.loads) (he : s.evals ≤ s1.evals)
    (hd : s1.st.depth = s.st.depth := by rfl) (hh : s1.hasTable = s.hasTable := by rfl) :
    Loc o s (Pure.pure (a, s1) : Except Err (α × Eng M)) (Pure.pure (a, s1)) := by
  intro a' s' h
  cases h
  exact ⟨hl, he, hd, hh, fun _ => rfl⟩

theorem Loc.error (s : Eng M) (e : Err) (x' : Except Err (α × Eng M)) :
    Loc o s (.error e : Except Err (α × Eng M)) x' := by
  intro a' s' h; cases h

theorem Loc.bind {s : Eng M} {x x' : Except Err (α × Eng M)} {f f' : α × Eng M → Except Err (β × Eng M)}
    (hx : Loc o s x x')
    (hf : ∀ a s1, s.loads ≤ s1.loads → s.evals ≤ s1.evals → Loc o s1 (f (a, s1)) (f' (a, s1))) :
    Loc o s (x >>= f) (x' >>= f') := by
  intro b s' h
  cases x with
  | error e => cases h
  | ok v =>
    obtain ⟨a, s1⟩ := v
    obtain ⟨h1, h2, hd1, hh1, h3⟩ := hx a s1 rfl
    have hb : f (a, s1) = .ok (b, s') := h
    obtain ⟨h4, h5, hd2, hh2, h6⟩ := hf a s1 h1 h2 b s' hb
    refine ⟨by omega, by omega, by rw [hd2, hd1], by rw [hh2, hh1], fun hfu => ?_⟩
    have := h3 (hfu.weaken h4 h5)
    rw [this]
    exact h6 hfu

/-- a step that does not involve the oracle or the counters (array accesses, `recordCut`, …) -/
theorem Loc.bind_same {γ : Type} {s : Eng M} (x : Except Err γ) {f f' : γ → Except Err (β × Eng M)}
    (hf : ∀ c, x = .ok c → Loc o s (f c) (f' c)) :
    Loc o s (x >>= f) (x >>= f') := by
  intro b s' h
  cases x with
  | error e => cases h
  | ok c => exact hf c rfl b s' h

/-- moving to a start state with the same counters -/
theorem Loc.start {s s0 : Eng M} {x x' : Except Err (α × Eng M)} (h : Loc o s0 x x')
    (hl : s.loads = s0.loads) (he : s.evals = s0.evals) (hd : s0.st.depth = s.st.depth := by rfl)
    (hh : s0.hasTable = s.hasTable := by rfl) : Loc o s x x' := by
  intro a s' hx
  obtain ⟨h1, h2, h0, hh0, h3⟩ := h a s' hx
  exact ⟨by omega, by omega, by rw [h0, hd], by rw [hh0, hh], h3⟩

theorem load_loc (s : Eng M) :
    (load o s).2.loads = s.loads + 1 ∧ (load o s).2.evals = s.evals ∧
    (FalseUpTo o (load o s).2 → (load o s).1 = false) := by
  unfold load
  refine ⟨rfl, rfl, fun h => h s.loads s.evals (by simp) (by simp)⟩

theorem load_never (s : Eng M) : load o.never s = (false, (load o s).2) := rfl

end rules

/-! ### the generator loops -/

section loops
variable {o : Oracle M} {σ ρ : Type}

/-- two loop bodies (the code under `o` and under `o.never`) are related pointwise -/
def LocBody (o : Oracle M) (body body' : M → P → σ → Eng M → Except Err (Ctl σ ρ × Eng M)) : Prop :=
  ∀ m c a s, Loc o s (body m c a s) (body' m c a s)

theorem Loc.andThen {s : Eng M} {r r' : Except Err (Ctl σ ρ × Eng M)}
    {k k' : σ → Eng M → Except Err (Ctl σ ρ × Eng M)}
    (hr : Loc o s r r')
    (hk : ∀ a s1, s.loads ≤ s1.loads → s.evals ≤ s1.evals → Loc o s1 (k a s1) (k' a s1)) :
    Loc o s (Ctl.andThen r k) (Ctl.andThen r' k') := by
  intro b s' h
  unfold Ctl.andThen at h
  cases r with
  | error e => cases h
  | ok v =>
    obtain ⟨c, s1⟩ := v
    obtain ⟨h1, h2, hd1, hh1, h3⟩ := hr c s1 rfl
    cases c with
    | next a =>
      dsimp only at h
      obtain ⟨h4, h5, hd2, hh2, h6⟩ := hk a s1 h1 h2 b s' h
      refine ⟨by omega, by omega, by rw [hd2, hd1], by rw [hh2, hh1], fun hfu => ?_⟩
      rw [h3 (hfu.weaken h4 h5)]
      exact h6 hfu
    | brk a =>
      dsimp only at h
      cases h
      exact ⟨h1, h2, hd1, hh1, fun hfu => by rw [h3 hfu]; rfl⟩
    | ret x =>
      dsimp only at h
      cases h
      exact ⟨h1, h2, hd1, hh1, fun hfu => by rw [h3 hfu]; rfl⟩

theorem Loc.refl_next (s : Eng M) (a : σ) :
    Loc o s (.ok (.next a, s) : Except Err (Ctl σ ρ × Eng M)) (.ok (.next a, s)) := by
  intro b s' h; cases h; exact ⟨Nat.le_refl _, Nat.le_refl _, rfl, rfl, fun _ => rfl⟩

variable {g : Game P M} {p : P} {body body' : M → P → σ → Eng M → Except Err (Ctl σ ρ × Eng M)}

theorem tryMove_loc (hb : LocBody o body body') (m : M) (a : σ) (s : Eng M) :
    Loc o s (tryMove g p body m a s) (tryMove g p body' m a s) := by
  unfold tryMove
  cases g.apply p m with
  | ok c => exact hb m c a s
  | error e =>
    cases e with
    | illegal w => exact Loc.refl_next s a
    | panic w => exact Loc.error s _ _
    | hang w => exact Loc.error s _ _

theorem runList_loc (hb : LocBody o body body') (skip : M → Bool) (ms : List M) :
    ∀ (a : σ) (s : Eng M), Loc o s (runList g p body skip ms a s) (runList g p body' skip ms a s) := by
  induction ms with
  | nil => intro a s; simp only [runList]; exact Loc.refl_next s a
  | cons m ms ih =>
    intro a s
    simp only [runList]
    by_cases hs : skip m = true
    · simp only [hs, if_true]; exact ih a s
    · simp only [hs]
      exact Loc.andThen (tryMove_loc hb m a s) (fun a1 s1 _ _ => ih a1 s1)

theorem iterate_loc [DecidableEq M] (hb : LocBody o body body') (cfg : SOpts) (mg : MG M) (a : σ) (s : Eng M) :
    Loc o s (iterate g cfg o p mg body a s) (iterate g cfg o.never p mg body' a s) := by
  unfold iterate
  refine Loc.andThen (Loc.andThen ?_ ?_) ?_
  · unfold stage0
    cases mg.te with
    | none => exact Loc.refl_next s a
    | some e => exact tryMove_loc hb e.m a s
  · intro a1 s1 _ _
    unfold stage1
    cases mg.pv with
    | nil => exact Loc.refl_next s1 a1
    | cons m rest =>
      dsimp only
      split
      · exact Loc.refl_next s1 a1
      · exact tryMove_loc hb m a1 s1
  · intro a1 s1 _ _
    unfold stage23
    cases respLookup mg.ply s1 with
    | error e => exact Loc.error s1 _ _
    | ok r? =>
      dsimp only
      refine Loc.andThen ?_ ?_
      · cases r? with
        | none => exact Loc.refl_next s1 a1
        | some r => exact tryMove_loc hb r a1 s1
      · intro a2 s2 _ _
        unfold stage3
        dsimp only
        split
        · exact (runList_loc hb _ _ a2 _).start rfl rfl
        · exact runList_loc hb _ _ a2 s2

end loops

/-! ### the search functions -/

section nodes
variable {o : Oracle M} {α : Type}

theorem Loc.ok (s : Eng M) (x : α × Eng M) (hl : s.loads ≤ x.2.loads) (he : s.evals ≤ x.2.evals)
    (hd : x.2.st.depth = s.st.depth := by rfl) (hh : x.2.hasTable = s.hasTable := by rfl) :
    Loc o s (.ok x : Except Err (α × Eng M)) (.ok x) := by
  intro a s' h; cases h; exact ⟨hl, he, hd, hh, fun _ => rfl⟩

/-- a step that does not involve the oracle -/
theorem Loc.same (s : Eng M) (x : Except Err (α × Eng M))
    (h : Sat x (fun r => s.loads ≤ r.2.loads ∧ s.evals ≤ r.2.evals ∧ r.2.st.depth = s.st.depth ∧
      r.2.hasTable = s.hasTable)) : Loc o s x x := by
  intro a s' hx; obtain ⟨h1, h2, h3, h4⟩ := h (a, s') hx; exact ⟨h1, h2, h3, h4, fun _ => hx⟩

def LocPv (o : Oracle M) (f f' : PvFn P M) : Prop :=
  ∀ p ply depth pv α β s, Loc o s (f p ply depth pv α β s) (f' p ply depth pv α β s)

def LocZw (o : Oracle M) (f f' : ZwFn P M) : Prop :=
  ∀ p ply depth pv α cut s, Loc o s (f p ply depth pv α cut s) (f' p ply depth pv α cut s)

theorem leaf_counters (g : Game P M) (p : P) (over : Bool) (s : Eng M) :
    s.loads ≤ (leaf g p over s).2.loads ∧ s.evals ≤ (leaf g p over s).2.evals ∧
    (leaf g p over s).2.st.depth = s.st.depth := by
  unfold leaf
  refine ⟨Nat.le_refl _, Nat.le_succ _, ?_⟩
  dsimp only
  split <;> rfl

theorem ttProbe_counters (g : Game P M) (p : P) (ply : Nat) (depth a b : Int) (s : Eng M) :
    Sat (ttProbe g p ply depth a b s) (fun x => s.loads ≤ x.2.loads ∧ s.evals ≤ x.2.evals ∧ x.2.st.depth = s.st.depth ∧
      x.2.hasTable = s.hasTable) := by
  unfold ttProbe
  apply Sat.bind
  intro te _
  cases te with
  | none => exact Sat.pure ⟨Nat.le_refl _, Nat.le_refl _, rfl, rfl⟩
  | some e =>
    dsimp only
    split
    · split
      · apply Sat.bind; intro pv0 _; exact Sat.pure ⟨Nat.le_refl _, Nat.le_refl _, rfl, rfl⟩
      · exact Sat.pure ⟨Nat.le_refl _, Nat.le_refl _, rfl, rfl⟩
      · exact Sat.throw
    · exact Sat.pure ⟨Nat.le_refl _, Nat.le_refl _, rfl, rfl⟩

theorem pvInitBest_counters (ply : Nat) (pv : List M) (s : Eng M) :
    Sat (pvInitBest ply pv s) (fun x => s.loads ≤ x.2.loads ∧ s.evals ≤ x.2.evals ∧ x.2.st.depth = s.st.depth ∧
      x.2.hasTable = s.hasTable) := by
  unfold pvInitBest
  split
  · apply Sat.bind; intro pv0 _; exact Sat.pure ⟨Nat.le_refl _, Nat.le_refl _, rfl, rfl⟩
  · apply Sat.bind; intro x _; exact Sat.pure ⟨Nat.le_refl _, Nat.le_refl _, rfl, rfl⟩

theorem evict_counters (s : Eng M) (k : H) :
    (s.evict k).loads = s.loads ∧ (s.evict k).evals = s.evals ∧ (s.evict k).st = s.st ∧
    (s.evict k).hasTable = s.hasTable := by
  unfold Eng.evict
  split
  · exact ⟨rfl, rfl, rfl, rfl⟩
  · split
    · exact ⟨rfl, rfl, rfl, rfl⟩
    · exact ⟨rfl, rfl, rfl, rfl⟩

theorem ttPut_loc (s : Eng M) (k : H) : Loc o s (ttPut o s k) (ttPut o.never s k) := by
  unfold ttPut
  by_cases ht : s.hasTable = true
  · simp only [ht, Bool.not_true, Bool.false_eq_true, if_false]
    rw [load_never]
    obtain ⟨hl, he, hf⟩ := load_loc (o := o) s
    dsimp only
    cases hc : (load o s).1 with
    | true =>
      simp only [if_true, Bool.false_eq_true, if_false]
      intro r s' h
      cases h
      exact ⟨by omega, by omega, rfl, rfl, fun hfu => by rw [hf hfu] at hc; cases hc⟩
    | false =>
      simp only [Bool.false_eq_true, if_false]
      intro r s' hx
      cases hi : ttSlotIdx (load o s).2 k with
      | error e => rw [hi] at hx; cases hx
      | ok i =>
        have hx0 := hx
        rw [hi] at hx0
        have hx' : (some i, (load o s).2.evict k) = (r, s') := Except.ok.inj hx0
        have h1 : s' = (load o s).2.evict k := (congrArg Prod.snd hx').symm
        obtain ⟨h2, h3, h4, h5⟩ := evict_counters (load o s).2 k
        exact ⟨by rw [h1]; omega, by rw [h1]; omega, by rw [h1, h4]; rfl, by rw [h1, h5]; rfl, fun _ => hx0⟩
  · have ht' : s.hasTable = false := by simpa using ht
    simp only [ht', Bool.not_false, if_true]
    exact Loc.ok s _ (Nat.le_refl _) (Nat.le_refl _)

theorem setEntry_counters (s : Eng M) (i : Nat) (e : TEntry M) :
    (s.setEntry i e).loads = s.loads ∧ (s.setEntry i e).evals = s.evals := ⟨rfl, rfl⟩

theorem setEntry_st (s : Eng M) (i : Nat) (e : TEntry M) : (s.setEntry i e).st = s.st := rfl

theorem setEntry_hasTable (s : Eng M) (i : Nat) (e : TEntry M) : (s.setEntry i e).hasTable = s.hasTable := rfl

theorem ite_hasTable (c : Prop) [Decidable c] (a b : Eng M) (D : Bool) (ha : a.hasTable = D) (hb : b.hasTable = D) :
    (if c then a else b).hasTable = D := by
  split <;> assumption

theorem ite_st_depth (c : Prop) [Decidable c] (a b : Eng M) (D : Int) (ha : a.st.depth = D) (hb : b.st.depth = D) :
    (if c then a else b).st.depth = D := by
  split <;> assumption

theorem pvStore_loc (k : H) (depth b : Int) (a : PvAcc M) (s : Eng M) :
    Loc o s (pvStore o k depth b a s) (pvStore o.never k depth b a s) := by
  unfold pvStore
  refine Loc.bind (ttPut_loc s k) ?_
  intro slot? s1 _ _
  dsimp only
  cases slot? with
  | none => exact Loc.ok s1 _ (Nat.le_refl _) (Nat.le_refl _)
  | some slot =>
    dsimp only
    split
    · split
      · exact Loc.ok s1 _ (by simp only [setEntry_counters]; split <;> exact Nat.le_refl _)
          (by simp only [setEntry_counters]; split <;> exact Nat.le_refl _)
          (by simp only [setEntry_st]; exact ite_st_depth _ _ _ _ rfl rfl)
          (by simp only [setEntry_hasTable]; exact ite_hasTable _ _ _ _ rfl rfl)
      · exact Loc.ok s1 _ (Nat.le_refl _) (Nat.le_refl _)
    · exact Loc.error s1 _ _

theorem zwStore_loc (k : H) (depth a0 : Int) (a : ZwAcc M) (s : Eng M) :
    Loc o s (zwStore o k depth a0 a s) (zwStore o.never k depth a0 a s) := by
  unfold zwStore
  refine Loc.bind (ttPut_loc s k) ?_
  intro slot? s1 _ _
  dsimp only
  cases slot? with
  | none => exact Loc.ok s1 _ (Nat.le_refl _) (Nat.le_refl _)
  | some slot =>
    dsimp only
    split
    · exact Loc.ok s1 _ (by simp only [setEntry_counters]; split <;> exact Nat.le_refl _)
        (by simp only [setEntry_counters]; split <;> exact Nat.le_refl _)
        (by simp only [setEntry_st]; exact ite_st_depth _ _ _ _ rfl rfl)
        (by simp only [setEntry_hasTable]; exact ite_hasTable _ _ _ _ rfl rfl)
    · exact Loc.error s1 _ _

theorem afterChild_loc {σ : Type} (a : σ) (s : Eng M) :
    Loc o s (Pure.pure (afterChild (M := M) o a s) : Except Err (Ctl σ (Res M) × Eng M))
      (Pure.pure (afterChild o.never a s)) := by
  unfold afterChild
  rw [load_never]
  obtain ⟨hl, he, hf⟩ := load_loc (o := o) s
  intro r s' h
  cases hc : (load o s).1 with
  | true =>
    have : load o s = (true, (load o s).2) := by rw [← hc]
    rw [this] at h
    cases h
    exact ⟨by omega, by omega, rfl, rfl, fun hfu => by rw [hf hfu] at hc; cases hc⟩
  | false =>
    have : load o s = (false, (load o s).2) := by rw [← hc]
    rw [this] at h
    cases h
    exact ⟨by omega, by omega, rfl, rfl, fun _ => rfl⟩

theorem Loc.ite {s : Eng M} (c : Prop) [Decidable c] {x y x' y' : Except Err (α × Eng M)}
    (ht : c → Loc o s x x') (hf : ¬c → Loc o s y y') :
    Loc o s (if c then x else y) (if c then x' else y') := by
  by_cases h : c
  · simp only [h, if_true]; exact ht h
  · simp only [h, if_false]; exact hf h

theorem ite_depth' (c : Prop) [Decidable c] (a b : Stats) (D : Int) (ha : a.depth = D) (hb : b.depth = D) :
    (if c then a else b).depth = D := by
  split <;> assumption

theorem recordCut_counters [DecidableEq M] (s : Eng M) (m : M) (mv ply : Nat) :
    Sat (recordCut s m mv ply) (fun s' => s'.loads = s.loads ∧ s'.evals = s.evals ∧ s'.st.depth = s.st.depth ∧
      s'.hasTable = s.hasTable) := by
  unfold recordCut
  dsimp only
  split
  · split
    · exact Sat.error
    · exact Sat.ok ⟨rfl, rfl, ite_depth' _ _ _ _ rfl (ite_depth' _ _ _ _ rfl rfl), rfl⟩
  · exact Sat.ok ⟨rfl, rfl, ite_depth' _ _ _ _ rfl (ite_depth' _ _ _ _ rfl rfl), rfl⟩

theorem pvChild_loc {cpv cpv' : PvFn P M} {czw czw' : ZwFn P M} (hp : LocPv o cpv cpv') (hz : LocZw o czw czw')
    (i : Nat) (child : P) (ply : Nat) (depth : Int) (tail : List M) (a b : Int) (s : Eng M) :
    Loc o s (pvChild cpv czw i child ply depth tail a b s) (pvChild cpv' czw' i child ply depth tail a b s) := by
  unfold pvChild
  split
  · refine Loc.bind (hz child (ply + 1) (depth - 1) tail (-a - 1) true s) ?_
    rintro ⟨ms, v⟩ s1 _ _
    dsimp only
    split
    · exact (hp child (ply + 1) (depth - 1) tail (-b) (-a) _).start rfl rfl
    · exact Loc.pure s1 _ s1 (Nat.le_refl _) (Nat.le_refl _)
  · exact hp child (ply + 1) (depth - 1) tail (-b) (-a) s

theorem pvBody_loc [DecidableEq M] (g : Game P M) {cpv cpv' : PvFn P M} {czw czw' : ZwFn P M}
    (hp : LocPv o cpv cpv') (hz : LocZw o czw czw') (ply : Nat) (depth b : Int) (dedup : Bool) :
    LocBody o (pvBody g o cpv czw ply depth b dedup) (pvBody g o.never cpv' czw' ply depth b dedup) := by
  intro m c a s
  unfold pvBody
  refine Loc.ite _ (fun _ => Loc.pure s _ s (Nat.le_refl _) (Nat.le_refl _)) (fun _ => ?_)
  refine Loc.bind_same _ ?_
  intro sm _
  refine Loc.bind ((pvChild_loc hp hz _ c ply depth _ _ b _).start rfl rfl) ?_
  rintro r s1 _ _
  dsimp only
  refine Loc.ite _ (fun _ => ?_) (fun _ => afterChild_loc _ s1)
  refine Loc.bind_same _ ?_
  intro pv0 _
  refine Loc.ite _ (fun _ => ?_) (fun _ => (afterChild_loc _ _).start rfl rfl)
  refine Loc.bind_same _ ?_
  intro s2 hs2
  obtain ⟨h1, h2, h3, h4⟩ := recordCut_counters _ _ _ _ s2 hs2
  exact (Loc.pure s2 _ s2 (Nat.le_refl _) (Nat.le_refl _)).start h1.symm h2.symm h3 h4

theorem pvNode_loc [DecidableEq M] (g : Game P M) (cfg : SOpts) (frame : Bool)
    {cpv cpv' : PvFn P M} {czw czw' : ZwFn P M} (hp : LocPv o cpv cpv') (hz : LocZw o czw czw') :
    LocPv o (pvNode g cfg o frame cpv czw) (pvNode g cfg o.never frame cpv' czw') := by
  intro p ply depth pv a b s
  unfold pvNode
  dsimp only
  split
  · exact Loc.pure s _ _ (leaf_counters g p _ s).1 (leaf_counters g p _ s).2.1 (leaf_counters g p _ s).2.2
  · split
    · exact Loc.error s _ _
    · refine Loc.bind ((Loc.same _ _ (ttProbe_counters g p ply depth a b _)).start rfl rfl
        (by dsimp only; split <;> rfl)) ?_
      rintro probe s1 _ _
      dsimp only
      cases probe with
      | inl r => exact Loc.pure s1 _ s1 (Nat.le_refl _) (Nat.le_refl _)
      | inr te =>
        dsimp only
        refine Loc.bind (Loc.same _ _ (pvInitBest_counters ply pv s1)) ?_
        rintro best s2 _ _
        dsimp only
        refine Loc.bind (iterate_loc (pvBody_loc g hp hz ply depth b _) cfg _ _ s2) ?_
        rintro c s3 _ _
        dsimp only
        cases c with
        | ret r => exact Loc.pure s3 _ s3 (Nat.le_refl _) (Nat.le_refl _)
        | next acc => exact pvStore_loc _ depth b acc s3
        | brk acc => exact pvStore_loc _ depth b acc s3

theorem nullMove_loc (g : Game P M) (cfg : SOpts) {czw czw' : ZwFn P M} (hz : LocZw o czw czw')
    (p : P) (ply : Nat) (depth a : Int) (s : Eng M) :
    Loc o s (nullMove g cfg czw p ply depth a s) (nullMove g cfg czw' p ply depth a s) := by
  unfold nullMove
  refine Loc.bind_same _ ?_
  intro ok _
  refine Loc.ite _ (fun _ => Loc.pure s _ s (Nat.le_refl _) (Nat.le_refl _)) (fun _ => ?_)
  refine Loc.bind_same _ ?_
  intro sm _
  dsimp only
  cases g.apply p g.passMove with
  | error e =>
    cases e with
    | illegal w => exact (Loc.pure _ _ _ (Nat.le_refl _) (Nat.le_refl _)).start rfl rfl
    | panic w => exact Loc.error s _ _
    | hang w => exact Loc.error s _ _
  | ok child =>
    dsimp only
    refine Loc.bind ((hz child (ply + 1) (depth - 3) [] (-a - 1) true _).start rfl rfl) ?_
    rintro r s1 _ _
    dsimp only
    exact Loc.ite _ (fun _ => Loc.pure s1 _ _ (Nat.le_refl _) (Nat.le_refl _))
      (fun _ => Loc.pure s1 _ _ (Nat.le_refl _) (Nat.le_refl _))

theorem slideReduction_counters (g : Game P M) (cfg : SOpts) (p : P) (ply : Nat) (depth : Int) (s : Eng M) :
    Sat (slideReduction g cfg p ply depth s) (fun x => s.loads ≤ x.2.loads ∧ s.evals ≤ x.2.evals ∧ x.2.st.depth = s.st.depth ∧
      x.2.hasTable = s.hasTable) := by
  unfold slideReduction
  split
  · apply Sat.bind; intro prev _
    apply Sat.bind; intro red _
    split
    · exact Sat.pure ⟨Nat.le_refl _, Nat.le_refl _, rfl, rfl⟩
    · exact Sat.pure ⟨Nat.le_refl _, Nat.le_refl _, rfl, rfl⟩
  · exact Sat.pure ⟨Nat.le_refl _, Nat.le_refl _, rfl, rfl⟩

theorem mcBody_loc {czw czw' : ZwFn P M} (hz : LocZw o czw czw') (ply : Nat) (depth a : Int) (cut : Bool) :
    LocBody o (mcBody czw ply depth a cut) (mcBody czw' ply depth a cut) := by
  intro m c acc s
  unfold mcBody
  refine Loc.ite _ (fun _ => Loc.pure s _ s (Nat.le_refl _) (Nat.le_refl _)) (fun _ => ?_)
  refine Loc.bind_same _ ?_
  intro sm _
  refine Loc.bind ((hz c (ply + 1) (depth - 1 - 2) [] (-a - 1) (!cut) _).start rfl rfl) ?_
  rintro r s1 _ _
  dsimp only
  refine Loc.ite _ (fun _ => ?_) (fun _ => Loc.pure s1 _ s1 (Nat.le_refl _) (Nat.le_refl _))
  exact Loc.ite _ (fun _ => Loc.pure s1 _ _ (Nat.le_refl _) (Nat.le_refl _))
    (fun _ => Loc.pure s1 _ s1 (Nat.le_refl _) (Nat.le_refl _))

theorem multiCut_loc [DecidableEq M] (g : Game P M) (cfg : SOpts) {czw czw' : ZwFn P M} (hz : LocZw o czw czw')
    (p : P) (mg : MG M) (a : Int) (cut : Bool) (s : Eng M) :
    Loc o s (multiCut g cfg o czw p mg a cut s) (multiCut g cfg o.never czw' p mg a cut s) := by
  unfold multiCut
  refine Loc.ite _ (fun _ => ?_) (fun _ => Loc.pure s _ s (Nat.le_refl _) (Nat.le_refl _))
  refine Loc.bind ((iterate_loc (mcBody_loc hz mg.ply mg.depth a cut) cfg mg _ _).start rfl rfl) ?_
  rintro c s1 _ _
  dsimp only
  cases c with
  | ret r => exact Loc.pure s1 _ s1 (Nat.le_refl _) (Nat.le_refl _)
  | next acc => exact Loc.pure s1 _ s1 (Nat.le_refl _) (Nat.le_refl _)
  | brk acc => exact Loc.pure s1 _ s1 (Nat.le_refl _) (Nat.le_refl _)

theorem zwBody_loc [DecidableEq M] {czw czw' : ZwFn P M} (hz : LocZw o czw czw')
    (ply : Nat) (depth a : Int) (cut : Bool) :
    LocBody o (zwBody o czw ply depth a cut) (zwBody o.never czw' ply depth a cut) := by
  intro m c acc s
  unfold zwBody
  refine Loc.bind_same _ ?_
  intro sm _
  refine Loc.bind ((hz c (ply + 1) (depth - 1) _ (-a - 1) (!cut) _).start rfl rfl) ?_
  rintro r s1 _ _
  dsimp only
  refine Loc.ite _ (fun _ => ?_) (fun _ => afterChild_loc _ s1)
  refine Loc.bind_same _ ?_
  intro s2 hs2
  obtain ⟨h1, h2, h3, h4⟩ := recordCut_counters _ _ _ _ s2 hs2
  refine Loc.bind_same _ ?_
  intro pv0 _
  exact (Loc.pure (o := o) { s2 with pv0 := pv0 } _ _ (Nat.le_refl _) (Nat.le_refl _)).start h1.symm h2.symm h3 h4

theorem zwNode_loc [DecidableEq M] (g : Game P M) (cfg : SOpts) (frame : Bool)
    {czw czw' : ZwFn P M} (hz : LocZw o czw czw') :
    LocZw o (zwNode g cfg o frame czw) (zwNode g cfg o.never frame czw') := by
  intro p ply depth pv a cut s
  unfold zwNode
  dsimp only
  split
  · exact Loc.pure s _ _ (leaf_counters g p _ s).1 (leaf_counters g p _ s).2.1 (leaf_counters g p _ s).2.2
  · split
    · exact Loc.error s _ _
    · refine Loc.bind ((Loc.same _ _ (ttProbe_counters g p ply depth a (a + 1) _)).start rfl rfl) ?_
      rintro probe s1 _ _
      dsimp only
      cases probe with
      | inl r => exact Loc.pure s1 _ s1 (Nat.le_refl _) (Nat.le_refl _)
      | inr te =>
        dsimp only
        refine Loc.bind (nullMove_loc g cfg hz p ply depth a s1) ?_
        rintro nm s2 _ _
        dsimp only
        cases nm with
        | some r => exact Loc.pure s2 _ s2 (Nat.le_refl _) (Nat.le_refl _)
        | none =>
          dsimp only
          refine Loc.bind (Loc.same _ _ (slideReduction_counters g cfg p ply depth s2)) ?_
          rintro depth' s3 _ _
          dsimp only
          refine Loc.bind (multiCut_loc g cfg hz p _ a cut s3) ?_
          rintro mc s4 _ _
          dsimp only
          cases mc with
          | some r => exact Loc.pure s4 _ s4 (Nat.le_refl _) (Nat.le_refl _)
          | none =>
            dsimp only
            refine Loc.bind_same _ ?_
            intro x _
            refine Loc.bind (iterate_loc (zwBody_loc hz ply depth' a cut) cfg _ _ s4) ?_
            rintro c s5 _ _
            dsimp only
            cases c with
            | ret r => exact Loc.pure s5 _ s5 (Nat.le_refl _) (Nat.le_refl _)
            | next acc => exact zwStore_loc _ depth' a acc s5
            | brk acc => exact zwStore_loc _ depth' a acc s5

/-- **locality of the search**: as long as the flag was clear on every load, a search under the oracle `o` is
the search with the flag never set; the load and evaluation counters only grow -/
theorem search_loc [DecidableEq M] (g : Game P M) (cfg : SOpts) :
    ∀ n, LocPv o (search g cfg o n).1 (search g cfg o.never n).1 ∧
         LocZw o (search g cfg o n).2 (search g cfg o.never n).2 := by
  intro n
  induction n with
  | zero =>
    have hze : LocZw (P := P) o (fun _ _ _ _ _ _ _ => (.error (.panic "ai.stack[ply]: index out of range") : Except Err (Res M × Eng M)))
        (fun _ _ _ _ _ _ _ => (.error (.panic "ai.stack[ply]: index out of range") : Except Err (Res M × Eng M))) :=
      fun _ _ _ _ _ _ s => Loc.error s _ _
    have hpe : LocPv (P := P) o (fun _ _ _ _ _ _ _ => (.error (.panic "ai.stack[ply]: index out of range") : Except Err (Res M × Eng M)))
        (fun _ _ _ _ _ _ _ => (.error (.panic "ai.stack[ply]: index out of range") : Except Err (Res M × Eng M))) :=
      fun _ _ _ _ _ _ s => Loc.error s _ _
    exact ⟨pvNode_loc g cfg false hpe hze, zwNode_loc g cfg false hze⟩
  | succ n ih =>
    exact ⟨pvNode_loc g cfg true ih.1 ih.2, zwNode_loc g cfg true ih.2⟩

end nodes
end Search
