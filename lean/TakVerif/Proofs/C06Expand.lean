import TakVerif.Proofs.C06Zip

/-! `expand` keeps the search state sound. -/
namespace C06
open Tak Tak.PN Spec.Game

variable {S M : Type} (G : Game S M) (att : Color) (root : S)

theorem flip_ne {c : Color} (h : c = .white ∨ c = .black) : c.flip ≠ c := by
  rcases h with h | h <;> subst h <;> decide

theorem flip_of_ne {a c : Color} (ha : a = .white ∨ a = .black) (hc : c = .white ∨ c = .black) (h : c ≠ a) :
    c.flip = a := by
  rcases ha with ha | ha <;> rcases hc with hc | hc <;> subst ha <;> subst hc <;> first | rfl | exact absurd rfl h

/-- the AND/OR flag of a child follows the side to move -/
theorem child_side (halt : Alternating G) (hatt : att = .white ∨ att = .black) {s s' : S} {m : M} {b : Bool}
    (hside : b = true ↔ G.toMove s ≠ att) (happ : G.apply s m = some s') :
    (!b) = true ↔ G.toMove s' ≠ att := by
  have hf := halt.flips s m s' happ
  have hb := halt.binary s
  cases b with
  | false =>
    have : G.toMove s = att := by
      by_cases h : G.toMove s = att
      · exact h
      · exact absurd (hside.mpr h) (by simp)
    rw [hf, this]
    simp only [Bool.not_false, true_iff]
    exact flip_ne hatt
  | true =>
    have hne : G.toMove s ≠ att := hside.mp rfl
    rw [hf, flip_of_ne hatt hb hne]
    simp

/-- a position that is over, but not won by the attacker, is not a forced win -/
theorem not_win_of_over {h : List S} {s : S} {w : Color} (ho : G.over s = some w) (hw : w ≠ att) :
    ¬ Win G att h s := by
  intro k
  cases k with
  | terminal ho' => rw [ho] at ho'; exact hw (Option.some.inj ho')
  | attacker ho' _ _ _ _ => rw [ho] at ho'; exact absurd ho' (by simp)
  | defender ho' _ _ _ => rw [ho] at ho'; exact absurd ho' (by simp)

/-- a third occurrence on the path is not a forced win -/
theorem not_win_of_rep {h : List S} {s : S} (ho : G.over s = none) (hr : Rep3 G h s) : ¬ Win G att h s := by
  intro k
  cases k with
  | terminal ho' => rw [ho] at ho'; exact absurd ho' (by simp)
  | attacker _ hr' _ _ _ => exact hr' hr
  | defender _ hr' _ _ => exact hr' hr

/-- a freshly created child, evaluated and numbered, is a sound leaf -/
theorem newChild_ok (halt : Alternating G) (hatt : att = .white ∨ att = .black) (hsb : SmallFrom G root)
    {st sta st2 : St S M} {cur nxt : S} {hs : List S} {m : M} {child : Node M}
    (hreach : Reach G root cur) (hst : st.stack = cur :: hs)
    (hside : st.focus.isAnd = true ↔ G.toMove cur ≠ att)
    (hm : m ∈ G.moves cur) (happ : G.apply cur m = some nxt)
    (hcm : child.move = m) (hca : child.isAnd = !st.focus.isAnd) (hcx : child.expanded = false)
    (hcc : child.children = [])
    (hsf : sta.focus = child) (hss : sta.stack = nxt :: st.stack) (hsd : sta.depthLimited = st.depthLimited)
    (hev : PN.evaluate G att sta = some st2) :
    let c := setNumbers G nxt st2.focus
    ChildOf G cur st.focus c nxt ∧ TreeOK G att st2.depthLimited (cur :: hs) nxt c ∧
      c.expanded = false ∧ st2.depthLimited = (st.depthLimited || st2.depthLimited) ∧
      st2.cfg = sta.cfg ∧ st2.stats = sta.stats ∧ st2.anomaly = sta.anomaly ∧ st2.stack = sta.stack ∧ c.move = m := by
  intro c
  obtain ⟨v, hf, _, hstk, hcfg, hstats, han, hdl, hvp, hvu, hvd⟩ :=
    evaluate_spec G att sta st2 nxt (cur :: hs) (by rw [hss, hst]) hev
  rw [hsf] at hf
  rw [hsd] at hdl
  have hval : st2.focus.value = v := by rw [hf]
  have hfa : st2.focus.isAnd = child.isAnd := by rw [hf]
  have hfx : st2.focus.expanded = false := by rw [hf]; exact hcx
  have hfm : st2.focus.move = m := by rw [hf]; exact hcm
  have hfc : st2.focus.children = [] := by rw [hf]; exact hcc
  have hside' : st2.focus.isAnd = true ↔ G.toMove nxt ≠ att := by
    rw [hfa, hca]; exact child_side G att halt hatt hside happ
  have hnum : NumOK G att st2.depthLimited (cur :: hs) nxt c := by
    apply setNumbers_leaf_ok G att (hsb nxt (.step hreach ⟨m, hm, happ⟩)) hfx
    · intro hv; rw [hval] at hv; exact .terminal (hvp hv)
    · intro hd hv
      rw [hval] at hv
      rcases hvd hv with h1 | ⟨w, ho, hw⟩ | ⟨ho, hr⟩
      · rw [hd] at h1; exact absurd h1 (by simp)
      · exact not_win_of_over G att ho hw
      · exact not_win_of_rep G att ho hr
    · intro hv; rw [hval] at hv; exact hvu hv
    · exact hside'
  refine ⟨⟨?_, ?_, ?_⟩, ?_, ?_, hdl, hcfg, hstats, han, hstk, ?_⟩
  · show (setNumbers G nxt st2.focus).move ∈ G.moves cur
    rw [setNumbers_move, hfm]; exact hm
  · show G.apply cur (setNumbers G nxt st2.focus).move = some nxt
    rw [setNumbers_move, hfm]; exact happ
  · show (setNumbers G nxt st2.focus).isAnd = !st.focus.isAnd
    rw [setNumbers_isAnd, hfa, hca]
  · rw [TreeOK_iff]
    refine ⟨hnum, ?_, ?_, ?_⟩
    · intro c' hc'
      have : c.children = [] := by show (setNumbers G nxt st2.focus).children = []; rw [setNumbers_children, hfc]
      rw [this] at hc'; exact absurd hc' (by simp)
    · intro hx
      have : c.expanded = false := by show (setNumbers G nxt st2.focus).expanded = false; rw [setNumbers_expanded, hfx]
      rw [this] at hx; exact absurd hx (by simp)
    · intro _
      show (setNumbers G nxt st2.focus).children = []; rw [setNumbers_children, hfc]
  · show (setNumbers G nxt st2.focus).expanded = false; rw [setNumbers_expanded, hfx]
  · show (setNumbers G nxt st2.focus).move = m; rw [setNumbers_move, hfm]


theorem childOf_congr {s : S} {n n' c : Node M} {s' : S} (h : n'.isAnd = n.isAnd) :
    ChildOf G s n c s' ↔ ChildOf G s n' c s' := by
  unfold ChildOf; rw [h]

/-- the child loop of `expand`: the new children are sound leaves and account for every move tried -/
theorem expandLoop_ok (halt : Alternating G) (hatt : att = .white ∨ att = .black) (hsb : SmallFrom G root)
    {cur : S} {hs : List S} (hreach : Reach G root cur) :
    ∀ (ms : List M) (st st' : St S M), st.stack = cur :: hs → (∀ m ∈ ms, m ∈ G.moves cur) →
      (st.focus.isAnd = true ↔ G.toMove cur ≠ att) →
      expandLoop G att st cur ms = some st' →
      ∃ kids, st'.focus = { st.focus with children := kids ++ st.focus.children } ∧
        st'.up = st.up ∧ st'.stack = st.stack ∧ st'.cfg = st.cfg ∧ st'.anomaly = st.anomaly ∧
        st'.depthLimited = (st.depthLimited || st'.depthLimited) ∧
        (∀ c ∈ kids, ∃ s', ChildOf G cur st.focus c s' ∧ TreeOK G att st'.depthLimited (cur :: hs) s' c) ∧
        ((∀ m ∈ ms, ∀ s', G.apply cur m = some s' → ∃ c ∈ kids, c.move = m) ∨
          (∃ c ∈ kids, c.expanded = false ∧ c.delta = 0)) := by
  intro ms
  induction ms with
  | nil =>
    intro st st' _ _ _ h
    simp only [expandLoop] at h
    injection h with h; subst h
    exact ⟨[], by simp only [List.nil_append]; cases st.focus; rfl, rfl, rfl, rfl, rfl, by simp, by simp, Or.inl (by simp)⟩
  | cons m ms ih =>
    intro st st' hst hms hside h
    simp only [expandLoop, descend] at h
    rw [hst] at h
    simp only at h
    cases happ : G.apply cur m with
    | none =>
      rw [happ] at h
      simp only at h
      obtain ⟨kids, h1, h2, h3, h4, h5, h6, h7, h8⟩ :=
        ih st st' hst (fun x hx => hms x (List.mem_cons_of_mem _ hx)) hside h
      refine ⟨kids, h1, h2, h3, h4, h5, h6, h7, ?_⟩
      rcases h8 with h8 | h8
      · left
        intro x hx s' hs'
        rcases List.mem_cons.mp hx with hx | hx
        · subst hx; rw [happ] at hs'; exact absurd hs' (by simp)
        · exact h8 x hx s' hs'
      · exact Or.inr h8
    | some nxt =>
      rw [happ] at h
      simp only at h
      split at h
      · exact absurd h (by simp)
      · rename_i st2 hev
        have hmm : m ∈ G.moves cur := hms m List.mem_cons_self
        obtain ⟨hco, htr, hcx, hdl, hcfg, _, han, hstk, hmv⟩ :=
          newChild_ok G att root halt hatt hsb (st := st) (st2 := st2) (m := m)
            (child := { move := m, phi := 0, delta := 0, value := .unknown, irreversible := !G.reversible cur m,
                        expanded := false, isAnd := !st.focus.isAnd, proofDepth := 0, children := [] })
            (sta := ⟨st.cfg, _, _, _, nxt :: cur :: hs, st.depthLimited, st.anomaly⟩)
            hreach hst hside hmm happ rfl rfl rfl rfl rfl (by simp [hst]) rfl hev
        simp only at hcfg han hstk hmv
        rw [hstk] at h
        simp only at h
        split at h
        · rename_i hd0
          injection h with h; subst h
          refine ⟨[setNumbers G nxt st2.focus], by simp, rfl, hst.symm, hcfg, han, hdl, ?_, ?_⟩
          · intro c hc
            rw [List.mem_singleton] at hc; subst hc
            exact ⟨nxt, hco, htr⟩
          · right
            exact ⟨_, List.mem_singleton.mpr rfl, hcx, by simpa using hd0⟩
        · -- the loop goes on from the state with the new child in front
          have hms' : ∀ x ∈ ms, x ∈ G.moves cur := fun x hx => hms x (List.mem_cons_of_mem _ hx)
          obtain ⟨kids, h1, h2, h3, h4, h5, h6, h7, h8⟩ := ih _ st' (by simp) hms' (by simpa using hside) h
          simp only at h1 h2 h3 h4 h5 h6 h7
          refine ⟨kids ++ [setNumbers G nxt st2.focus], ?_, h2, ?_, ?_, ?_, ?_, ?_, ?_⟩
          · rw [h1]; simp
          · rw [h3, hst]
          · rw [h4, hcfg]
          · rw [h5, han]
          · rw [h6, hdl]; simp [Bool.or_assoc]
          · intro c hc
            rcases List.mem_append.mp hc with hc | hc
            · obtain ⟨s', q1, q2⟩ := h7 c hc
              exact ⟨s', (childOf_congr G (by simp)).mp q1, q2⟩
            · rw [List.mem_singleton] at hc; subst hc
              refine ⟨nxt, hco, ?_⟩
              have := TreeOK.mono G att st'.depthLimited _ _ _ _ htr
              rw [h6]
              rw [h6] at this
              have e : (st2.depthLimited || (st2.depthLimited || st'.depthLimited)) = (st2.depthLimited || st'.depthLimited) := by
                cases st2.depthLimited <;> simp
              rw [e] at this
              exact this
          · rcases h8 with h8 | ⟨c, hc, q1, q2⟩
            · left
              intro x hx s' hs'
              rcases List.mem_cons.mp hx with hx | hx
              · subst hx
                exact ⟨_, List.mem_append_right _ (List.mem_singleton.mpr rfl), hmv⟩
              · obtain ⟨c, hc, hcm⟩ := h8 x hx s' hs'
                exact ⟨c, List.mem_append_left _ hc, hcm⟩
            · right
              exact ⟨c, List.mem_append_left _ hc, q1, q2⟩


/-- the ordinary (non-PN²) path of `expand` on an unsolved, unexpanded focus -/
theorem expand_normal_ok (halt : Alternating G) (hatt : att = .white ∨ att = .black) (hsb : SmallFrom G root)
    (st st1 : St S M) (cur : S) (hs : List S)
    (hz : ZipOK G att root st) (hst : st.stack = cur :: hs) (hunexp : st.focus.expanded = false)
    (hphi : st.focus.phi ≠ 0) (hdelta : st.focus.delta ≠ 0)
    (hl : expandLoop G att st cur (G.moves cur) = some st1) (stats' : Stats) (an : Bool) :
    ZipOK G att root { st1 with stats := stats', anomaly := an, focus := { st1.focus with expanded := true } } := by
  have hreach := ZipOK.reach G att root hz hst
  obtain ⟨s, hs0, hst0, ht, hc⟩ := hz
  rw [hst] at hst0
  injection hst0 with e1 e2
  subst e1; subst e2
  rw [TreeOK_iff] at ht
  obtain ⟨hnum, _, _, hnil⟩ := ht
  have hkn := hnil hunexp
  obtain ⟨kids, h1, h2, h3, _, _, h6, h7, h8⟩ :=
    expandLoop_ok G att root halt hatt hsb hreach (G.moves cur) st st1 hst (fun m hm => hm) hnum.side hl
  have hover : G.over cur = none := by
    rcases hnum.live with h | ⟨_, h | h⟩
    · exact h
    · exact absurd h hphi
    · exact absurd h hdelta
  have hnum' := hnum.mono G att st1.depthLimited
  rw [← h6] at hnum'
  refine ⟨cur, hs, by simp [h3, hst], ?_, ?_⟩
  · rw [TreeOK_iff]
    simp only [h1, hkn, List.append_nil]
    refine ⟨⟨hnum'.proof, hnum'.disproof, hnum'.valueP, hnum'.valueD, hnum'.valueU, hnum'.side, hnum'.notBoth, Or.inl hover⟩,
      ?_, ?_, ?_⟩
    · intro c hc'
      obtain ⟨s', q1, q2⟩ := h7 c hc'
      exact ⟨s', (childOf_congr G (by simp)).mp q1, q2⟩
    · intro _
      left
      rcases h8 with h8 | h8
      · exact Or.inl h8
      · exact Or.inr h8
    · intro h0; exact absurd h0 (by simp)
  · simp only [h2]
    have hc' := CrumbsOK.mono G att root st1.depthLimited _ _ _ _ _ hc
    rw [← h6] at hc'
    refine CrumbsOK.replace G att root hc' ?_ ?_ ?_
    · simp [h1]
    · simp [h1]
    · intro _ hd; exact absurd hd hdelta

end C06
