import TakVerif.Proofs.EvalBound

/-! Bounds for the group, threat, control, material, tempo and liberty terms; assembly into `rawScore`. -/
namespace C18
open Tak

/-! ### groups -/

theorem absSum_nonneg (w : Weights) (lo n : Nat) : 0 ≤ absSum w lo n := by
  induction n with
  | zero => simp [absSum]
  | succ n ih => have := ab_nonneg (w.at (lo + n)); simp only [absSum]; omega

theorem ab_at_le_absSum (w : Weights) (lo n i : Nat) (h1 : lo ≤ i) (h2 : i < lo + n) :
    ab (w.at i) ≤ absSum w lo n := by
  induction n with
  | zero => omega
  | succ n ih =>
    simp only [absSum]
    by_cases h : i = lo + n
    · subst h; have := absSum_nonneg w lo n; omega
    · have := ih (by omega); have := ab_nonneg (w.at (lo + n)); omega

theorem Bgroupw_nonneg (w : Weights) : 0 ≤ Bgroupw w := absSum_nonneg _ _ _

/-- an in-range computed index reads an entry bounded by `Bgroupw` -/
theorem group_entry_bound (w : Weights) (k : Nat) (h : ¬ (Facts.fGroups + k ≥ Facts.maxFeature)) :
    -(Bgroupw w) ≤ w.at (Facts.fGroups + k) ∧ w.at (Facts.fGroups + k) ≤ Bgroupw w := by
  have hb := ab_bounds (w.at (Facts.fGroups + k))
  have : ab (w.at (Facts.fGroups + k)) ≤ Bgroupw w := by
    unfold Bgroupw
    apply ab_at_le_absSum
    · omega
    · have : Facts.fGroups ≤ Facts.maxFeature := by decide
      omega
  omega

theorem groupDimScore_bound (c : Consts) (ws : Weights) (gs : List W) (v : Int)
    (h : groupDimScore c ws gs = .ok v) :
    -((gs.length : Int) * (2 * Bgroupw ws)) ≤ v ∧ v ≤ (gs.length : Int) * (2 * Bgroupw ws) := by
  induction gs generalizing v with
  | nil => simp [groupDimScore] at h; subst h; simp
  | cons g gs ih =>
    unfold groupDimScore at h
    split at h
    · cases h
    · rename_i w hh _
      split at h
      · cases h
      · rename_i hw
        split at h
        · cases h
        · rename_i hhh
          split at h
          · cases h
          · rename_i rest hrest
            have := ih rest hrest
            have b1 := group_entry_bound ws w hw
            have b2 := group_entry_bound ws hh hhh
            have h := Except.ok.inj h
            subst h
            simp only [List.length_cons]
            have e : ((gs.length + 1 : Nat) : Int) * (2 * Bgroupw ws)
                = (gs.length : Int) * (2 * Bgroupw ws) + 2 * Bgroupw ws := by
              rw [Int.natCast_add, Int.add_mul]; simp
            rw [e]; omega

theorem scoreGroups_bound (c : Consts) (gs : List W) (ws : Weights) (other : W) (v : Int)
    (hlen : gs.length ≤ maxGroups) (h : scoreGroups c gs ws other = .ok v) :
    -(Bgroups ws) ≤ v ∧ v ≤ Bgroups ws := by
  unfold scoreGroups at h
  split at h
  · cases h
  · rename_i sc hsc
    have hb := groupDimScore_bound c ws gs sc hsc
    have hg := Bgroupw_nonneg ws
    have hl : (gs.length : Int) * (2 * Bgroupw ws) ≤ (maxGroups : Int) * (2 * Bgroupw ws) :=
      Int.mul_le_mul_of_nonneg_right (by omega) (by omega)
    have hgl := ab_nonneg (ws.at Facts.fGroupLiberties)
    simp only [] at h
    unfold Bgroups
    split at h
    · have h := Except.ok.inj h
      subst h
      generalize (gs.foldl (fun a g => a ||| g) 0#64) = allg
      have hp := popcount_int (Gen.grow c (~~~other) allg &&& ~~~allg)
      have := mul_bound (popcount (Gen.grow c (~~~other) allg &&& ~~~allg) : Int) (ws.at Facts.fGroupLiberties) 64
        (by omega) (by omega)
      omega
    · have h := Except.ok.inj h
      subst h; omega

/-! ### the number of groups -/

theorem floodGroupsFuel_length (c : Consts) (all : W) (n : Nat) (bits seen : W) (out l : List W)
    (h : floodGroupsFuel c all n bits seen out = some l) : l.length ≤ out.length + n := by
  induction n generalizing bits seen out with
  | zero =>
    unfold floodGroupsFuel at h
    split at h
    · have h := Option.some.inj h; subst h; omega
    · cases h
  | succ n ih =>
    unfold floodGroupsFuel at h
    split at h
    · have h := Option.some.inj h; subst h; omega
    · simp only [] at h
      split at h
      · split at h
        · cases h
        · rename_i g _
          have := ih _ _ _ h
          split at this
          · simp only [List.length_append, List.length_cons, List.length_nil] at this; omega
          · omega
      · have := ih _ _ _ h; omega

theorem floodGroups_length (c : Consts) (bits : W) (l : List W) (h : floodGroups c bits = some l) :
    l.length ≤ maxGroups := by
  have := floodGroupsFuel_length c bits 65 bits 0#64 [] l h
  simpa [maxGroups] using this

/-- the group lists of `p` are the ones `analyze()` computes from its bitboards (true of every position
made by `New`, `FromSquares`, `Move`, and of every position the driver decodes) -/
def Analyzed (p : Pos) : Prop :=
  floodGroups p.c (p.white &&& ~~~p.standing) = some p.wgroups ∧
  floodGroups p.c (p.black &&& ~~~p.standing) = some p.bgroups

theorem analyze_analyzed (p q : Pos) (h : p.analyze = some q) : Analyzed q := by
  unfold Pos.analyze at h
  simp only [] at h
  split at h
  · rename_i wg bg hw hb
    have h := Option.some.inj h
    subst h
    exact ⟨hw, hb⟩
  · cases h

theorem Analyzed.wlen {p : Pos} (h : Analyzed p) : p.wgroups.length ≤ maxGroups := floodGroups_length _ _ _ h.1
theorem Analyzed.blen {p : Pos} (h : Analyzed p) : p.bgroups.length ≤ maxGroups := floodGroups_length _ _ _ h.2

/-! ### threats -/

theorem threatMapsAll_length (c : Consts) (p : Pos) (empty pieces singles : W) (prev rest : List W) :
    (threatMapsAll c p empty pieces singles prev rest).length ≤ rest.length := by
  induction rest generalizing prev with
  | nil => simp [threatMapsAll]
  | cons g rest ih =>
    unfold threatMapsAll
    split
    · have := ih (prev ++ [g]); simp only [List.length_cons]; omega
    · have := ih (prev ++ [g]); simp only [List.length_cons]; omega

theorem countOne_bound (c : Consts) (p : Pos) (gs : List W) (pieces : W) :
    (countOne c p gs pieces).1 ≤ gs.length * 64 ∧ (countOne c p gs pieces).2 ≤ gs.length * 64 := by
  unfold countOne
  simp only []
  generalize (c.Mask &&& ~~~(p.white ||| p.black)) = empty
  generalize (gs.foldl (fun s g => s &&& ~~~g) pieces) = singles
  have hl := threatMapsAll_length c p empty pieces singles [] gs
  have h1 := sum_map_le_nat (threatMapsAll c p empty pieces singles [] gs) (fun m => popcount m.1) 64
    (fun x _ => popcount_le _)
  have h2 := sum_map_le_nat (threatMapsAll c p empty pieces singles [] gs) (fun m => popcount m.2) 64
    (fun x _ => popcount_le _)
  have := Nat.mul_le_mul_right 64 hl
  constructor <;> omega

theorem countThreats_bound (c : Consts) (p : Pos) (ha : Analyzed p) :
    (countThreats c p).wp ≤ maxGroups * 64 ∧ (countThreats c p).wt ≤ maxGroups * 64 ∧
    (countThreats c p).bp ≤ maxGroups * 64 ∧ (countThreats c p).bt ≤ maxGroups * 64 := by
  have hw := countOne_bound c p p.wgroups (p.white &&& ~~~(p.standing ||| p.caps))
  have hb := countOne_bound c p p.bgroups (p.black &&& ~~~(p.standing ||| p.caps))
  have l1 := Nat.mul_le_mul_right 64 ha.wlen
  have l2 := Nat.mul_le_mul_right 64 ha.blen
  unfold countThreats
  simp only []
  refine ⟨?_, ?_, ?_, ?_⟩ <;> omega

theorem scoreThreats_bound (c : Consts) (ws : Weights) (p : Pos) (ha : Analyzed p) :
    -(Bthreats ws) ≤ scoreThreats c ws p ∧ scoreThreats c ws p ≤ Bthreats ws := by
  have hp := ab_nonneg (ws.at Facts.fPotential)
  have ht := ab_nonneg (ws.at Facts.fThreat)
  have hf : (0 : Int) ≤ Facts.forcedWin := by decide
  have hk : (0 : Int) ≤ ((maxGroups * 64 : Nat) : Int) := by omega
  have m1 : 0 ≤ ((maxGroups * 64 : Nat) : Int) * ab (ws.at Facts.fPotential) := Int.mul_nonneg hk hp
  have m2 : 0 ≤ ((maxGroups * 64 : Nat) : Int) * ab (ws.at Facts.fThreat) := Int.mul_nonneg hk ht
  unfold scoreThreats Bthreats
  split
  · omega
  · simp only []
    split
    · omega
    · split
      · omega
      · obtain ⟨b1, b2, b3, b4⟩ := countThreats_bound c p ha
        generalize countThreats c p = t at *
        have x1 := mul_bound ((t.wp : Int) - (t.bp : Int)) (ws.at Facts.fPotential) ((maxGroups * 64 : Nat) : Int)
          (by omega) (by omega)
        have x2 := mul_bound ((t.wt : Int) - (t.bt : Int)) (ws.at Facts.fThreat) ((maxGroups * 64 : Nat) : Int)
          (by omega) (by omega)
        omega

/-! ### control, material, tempo, liberties -/

theorem scoreControl_bound (c : Consts) (ws : Weights) (p : Pos) :
    -(Bcontrol ws) ≤ scoreControl c ws p ∧ scoreControl c ws p ≤ Bcontrol ws := by
  have h1 := ab_nonneg (ws.at Facts.fEmptyControl)
  have h2 := ab_nonneg (ws.at Facts.fFlatControl)
  have h3 := ab_nonneg (ws.at Facts.fCenterControl)
  unfold scoreControl Bcontrol
  split
  · omega
  · simp only []
    generalize computeControl c p = cc
    generalize (c.Mask &&& ~~~(p.white ||| p.black)) = empty
    generalize ((p.white ||| p.black) &&& ~~~(p.standing ||| p.caps)) = flat
    have a1 := popcount_int (cc.1 &&& empty)
    have a2 := popcount_int (cc.2 &&& empty)
    have a3 := popcount_int (cc.1 &&& flat)
    have a4 := popcount_int (cc.2 &&& flat)
    have a5 := popcount_int (cc.1 &&& ~~~c.Edge)
    have a6 := popcount_int (cc.2 &&& ~~~c.Edge)
    have x1 := mul_bound' ((popcount (cc.1 &&& empty) : Int) - (popcount (cc.2 &&& empty) : Int))
      (ws.at Facts.fEmptyControl) 64 (by omega) (by omega)
    have x2 := mul_bound' ((popcount (cc.1 &&& flat) : Int) - (popcount (cc.2 &&& flat) : Int))
      (ws.at Facts.fFlatControl) 64 (by omega) (by omega)
    have x3 := mul_bound' ((popcount (cc.1 &&& ~~~c.Edge) : Int) - (popcount (cc.2 &&& ~~~c.Edge) : Int))
      (ws.at Facts.fCenterControl) 64 (by omega) (by omega)
    omega

theorem materialScore_bound (c : Consts) (w : Weights) (p : Pos) :
    -(Bmaterial w) ≤ materialScore c w p ∧ materialScore c w p ≤ Bmaterial w := by
  unfold materialScore Bmaterial
  have b (x : W) (wt : Int) := mul_bound (popcount x : Int) wt 64
    (by have := popcount_int x; omega) (by have := popcount_int x; omega)
  have x1 := b (p.white &&& ~~~(p.caps ||| p.standing)) (w.at Facts.fTopFlat)
  have x2 := b (p.black &&& ~~~(p.caps ||| p.standing)) (w.at Facts.fTopFlat)
  have x3 := b (p.white &&& p.standing) (w.at Facts.fStanding)
  have x4 := b (p.black &&& p.standing) (w.at Facts.fStanding)
  have x5 := b (p.white &&& p.caps) (w.at Facts.fCapstone)
  have x6 := b (p.black &&& p.caps) (w.at Facts.fCapstone)
  have x7 := b (p.white &&& ~~~c.Edge) (w.at Facts.fCenter)
  have x8 := b (p.black &&& ~~~c.Edge) (w.at Facts.fCenter)
  omega

theorem tempoScore_bound (w : Weights) : -(Btempo w) ≤ tempoScore w ∧ tempoScore w ≤ Btempo w := by
  unfold tempoScore Btempo ab
  have h := Int.natAbs_tdiv (w.at Facts.fTopFlat) 2
  have h2 : (w.at Facts.fTopFlat).natAbs.div (2 : Int).natAbs ≤ (w.at Facts.fTopFlat).natAbs := Nat.div_le_self _ _
  omega

theorem libertyScore_bound (c : Consts) (w : Weights) (p : Pos) :
    -(Blib w) ≤ libertyScore c w p ∧ libertyScore c w p ≤ Blib w := by
  have h0 := ab_nonneg (w.at Facts.fLiberties)
  unfold libertyScore Blib
  split
  · simp only []
    generalize (Gen.grow c (~~~p.black) (p.white &&& ~~~p.standing) &&& ~~~p.white) = a
    generalize (Gen.grow c (~~~p.white) (p.black &&& ~~~p.standing) &&& ~~~p.black) = b
    have pa := popcount_int a
    have pb := popcount_int b
    have x1 := mul_bound' (popcount a : Int) (w.at Facts.fLiberties) 64 (by omega) (by omega)
    have x2 := mul_bound' (popcount b : Int) (w.at Facts.fLiberties) 64 (by omega) (by omega)
    omega
  · omega

/-! ### assembly -/

theorem rawScore_bound (c : Consts) (w : Weights) (p : Pos) (ha : Analyzed p) (v : Int)
    (h : rawScore c w p = .ok v) :
    -(B w p.height.size) ≤ v ∧ v ≤ B w p.height.size := by
  unfold rawScore at h
  split at h
  · cases h
  · simp only [] at h
    split at h
    · cases h
    · rename_i wg hwg
      split at h
      · cases h
      · rename_i bg hbg
        have h := Except.ok.inj h
        subst h
        have t := tempoScore_bound w
        have m := materialScore_bound c w p
        have s := stacks_bound c w p p.height.size
        have g1 := scoreGroups_bound c p.wgroups w _ wg ha.wlen hwg
        have g2 := scoreGroups_bound c p.bgroups w _ bg ha.blen hbg
        have l := libertyScore_bound c w p
        have th := scoreThreats_bound c w p ha
        have ct := scoreControl_bound c w p
        unfold B
        split <;> omega

/-- `evaluate` on an unfinished game is `± rawScore` -/
theorem evaluate_bound (c : Consts) (w : Weights) (p : Pos) (ha : Analyzed p)
    (hno : p.gameOver.1 = false) (v : Int) (h : evaluate c w p = .ok v) :
    -(B w p.height.size) ≤ v ∧ v ≤ B w p.height.size := by
  unfold evaluate at h
  rw [hno] at h
  simp only [Bool.false_eq_true, if_false] at h
  split at h
  · cases h
  · rename_i score hs
    have := rawScore_bound c w p ha score hs
    split at h <;> (have h := Except.ok.inj h; subst h; omega)

theorem B_mono (w : Weights) (n m : Nat) (h : n ≤ m) : B w n ≤ B w m := by
  unfold B
  have : (n : Int) * Bsquare w ≤ (m : Int) * Bsquare w :=
    Int.mul_le_mul_of_nonneg_right (by omega) (Bsquare_nonneg w)
  omega

end C18
