import TakVerif.Proofs.SearchLoop

/-! Principal-variation search = negamax, on the model of `ai/minimax.go` (no table, precise options,
no cancellation), for every move order. -/
namespace Search
open Tak (Err)

variable {P M : Type}

/-- the engine has no transposition table; `D` is the value of the two fields `Depth`, `Canceled` of the running statistics
that the search never writes -/
def NT (D : Int × Bool) (s : Eng M) : Prop := s.hasTable = false ∧ (s.st.depth, s.st.canceled) = D

/-- the cancel flag is never set during the call -/
def NoCancel (o : Oracle M) : Prop := ∀ l e, o.cancel l e = false

/-- `MakePrecise` + no symmetry de-duplication -/
structure Precise (cfg : SOpts) : Prop where
  nn : cfg.noNullMove = true
  nr : cfg.noReduceSlides = true
  mc : cfg.multiCut = false
  dd : cfg.dedupSymmetry = false

/-- fail-soft contract of a full-window search result `r` against the true value `n` -/
def PC (r n α β : Int) : Prop := (n ≤ α → r ≤ α) ∧ (α < n → n < β → r = n) ∧ (β ≤ n → β ≤ r)

/-- contract of a zero-window search result: on the correct side of `α`, and a bound the true value respects -/
def ZC (r n α : Int) : Prop := (n ≤ α → n ≤ r ∧ r ≤ α) ∧ (α < n → α < r ∧ r ≤ n)

/-- every non-finished position above the horizon has a legal move -/
def Live (g : Game P M) : Nat → P → Prop
  | 0, _ => True
  | d + 1, p => g.over p = true ∨ (kids g p ≠ [] ∧ ∀ c ∈ kids g p, Live g d c.2)

/-- the facts about the rules the search relies on (for Tak: C03 completeness of `AllMoves`, `Move.Equal`
moves act alike, generated moves have a non-zero type) -/
structure GameOK (g : Game P M) : Prop where
  complete : ∀ p m c, g.apply p m = .ok c → ∃ m' ∈ g.allMoves p, g.apply p m' = .ok c
  eqSound : ∀ p a b, g.moveEq a b = true → g.apply p a = g.apply p b
  zeroNe : ∀ p, ∀ m ∈ g.allMoves p, g.moveEq g.zeroMove m = false

theorem GameOK.gen {g : Game P M} (h : GameOK g) (p : P) : GenOK g p :=
  ⟨h.eqSound p, h.zeroNe p⟩

theorem mem_kids {g : Game P M} {p : P} {m : M} {c : P} :
    (m, c) ∈ kids g p ↔ m ∈ g.allMoves p ∧ g.apply p m = .ok c := by
  unfold kids
  simp only [List.mem_filterMap]
  constructor
  · rintro ⟨m', hm', h⟩
    cases hap : g.apply p m' with
    | ok c' => rw [hap] at h; simp only [Option.some.injEq, Prod.mk.injEq] at h; obtain ⟨rfl, rfl⟩ := h; exact ⟨hm', hap⟩
    | error e => rw [hap] at h; cases h
  · rintro ⟨hm, hap⟩
    exact ⟨m, hm, by rw [hap]⟩

theorem negamax_zero (g : Game P M) (p : P) : negamax g 0 p = g.eval p := rfl

theorem negamax_over (g : Game P M) (d : Nat) (p : P) (h : g.over p = true) : negamax g d p = g.eval p := by
  cases d with
  | zero => rfl
  | succ d => simp [negamax, h]

theorem negamax_succ (g : Game P M) (d : Nat) (p : P) (h : g.over p = false) :
    negamax g (d + 1) p = maxOver (fun c => -(negamax g d c.2)) (Facts.minEval - 1) (kids g p) := by
  simp [negamax, h]

/-- the first move of `r` is legal and its child's value is the reported one -/
def Attains (g : Game P M) (p : P) (d : Nat) (r : Res M) : Prop :=
  ∃ m rest c, r.1 = some (m :: rest) ∧ g.apply p m = .ok c ∧ r.2 = -(negamax g (d - 1) c)

def PvPost (g : Game P M) (D : Int × Bool) (p : P) (d : Nat) (α β : Int) (x : Res M × Eng M) : Prop :=
  NT D x.2 ∧ PC x.1.2 (negamax g d p) α β ∧
  (1 ≤ d → g.over p = false → α < x.1.2 → x.1.2 < β → Attains g p d x.1)

def ZwPost (g : Game P M) (D : Int × Bool) (p : P) (d : Nat) (α : Int) (x : Res M × Eng M) : Prop :=
  NT D x.2 ∧ ZC x.1.2 (negamax g d p) α

/-- contract of a `pvSearch`-like function -/
def PvOK (g : Game P M) (f : PvFn P M) : Prop :=
  ∀ D p ply depth pv α β s, NT D s → α < β → Live g depth.toNat p →
    Sat (f p ply depth pv α β s) (PvPost g D p depth.toNat α β)

/-- contract of a `zwSearch`-like function -/
def ZwOK (g : Game P M) (f : ZwFn P M) : Prop :=
  ∀ D p ply depth pv α cut s, NT D s → Live g depth.toNat p →
    Sat (f p ply depth pv α cut s) (ZwPost g D p depth.toNat α)

/-! ### small facts about the state operations -/

theorem ttGet_nt {D : Int × Bool} {s : Eng M} (h : NT D s) (k : H) : ttGet s k = .ok none := by
  unfold ttGet; simp [h.1]

theorem ttProbe_nt (g : Game P M) (p : P) (ply : Nat) (depth α β : Int) {D : Int × Bool} {s : Eng M} (h : NT D s) :
    ttProbe g p ply depth α β s = .ok (.inr none, s) := by
  unfold ttProbe; rw [ttGet_nt h]; rfl

theorem ttPut_nt (o : Oracle M) {D : Int × Bool} {s : Eng M} (h : NT D s) (k : H) : ttPut o s k = .ok (none, s) := by
  unfold ttPut; simp [h.1]

theorem load_nc {o : Oracle M} (h : NoCancel o) (s : Eng M) : load o s = (false, { s with loads := s.loads + 1 }) := by
  unfold load; rw [h]

theorem afterChild_nc {σ : Type} {o : Oracle M} (h : NoCancel o) (a : σ) (s : Eng M) :
    afterChild o a s = (.next a, { s with loads := s.loads + 1 }) := by
  unfold afterChild; rw [load_nc h]; rfl

theorem ite_depth (c : Prop) [Decidable c] (a b : Stats) (D : Int × Bool)
    (ha : (a.depth, a.canceled) = D) (hb : (b.depth, b.canceled) = D) :
    ((if c then a else b).depth, (if c then a else b).canceled) = D := by
  split <;> assumption

theorem recordCut_nt [DecidableEq M] {D : Int × Bool} {s : Eng M} (h : NT D s) (m : M) (mv ply : Nat) :
    Sat (recordCut s m mv ply) (fun s' => NT D s') := by
  unfold recordCut
  simp only []
  have hd : ∀ (x y z : Stats), (x.depth, x.canceled) = D → (y.depth, y.canceled) = D →
      (z.depth, z.canceled) = D →
      ((if (mv == 1) = true then x else if (mv == 2) = true then y else z).depth,
       (if (mv == 1) = true then x else if (mv == 2) = true then y else z).canceled) = D :=
    fun x y z hx hy hz => ite_depth _ _ _ _ hx (ite_depth _ _ _ _ hy hz)
  split
  · split
    · exact Sat.error
    · exact Sat.ok ⟨h.1, hd _ _ _ h.2 h.2 h.2⟩
  · exact Sat.ok ⟨h.1, hd _ _ _ h.2 h.2 h.2⟩

theorem leaf_nt (g : Game P M) (p : P) (over : Bool) {D : Int × Bool} {s : Eng M} (h : NT D s) :
    NT D (leaf g p over s).2 ∧ (leaf g p over s).1.2 = g.eval p := by
  unfold leaf; exact ⟨⟨h.1, ite_depth _ _ _ _ h.2 h.2⟩, rfl⟩


/-! ### one child of a PV node (the prototype's `childVal`) -/

theorem pvChild_spec {g : Game P M} {cpv : PvFn P M} {czw : ZwFn P M} (hp : PvOK g cpv) (hz : ZwOK g czw)
    (i : Nat) (child : P) (ply : Nat) (depth : Int) (tail : List M) (α β : Int) (D : Int × Bool) (s : Eng M)
    (hs : NT D s) (hab : α < β) (hl : Live g (depth - 1).toNat child) :
    Sat (pvChild cpv czw i child ply depth tail α β s)
      (fun x => NT D x.2 ∧ PC (-x.1.2) (-(negamax g (depth - 1).toNat child)) α β) := by
  unfold pvChild
  split
  · apply Sat.bind
    refine (hz D child (ply + 1) (depth - 1) tail (-α - 1) true s hs hl).mono ?_
    rintro ⟨⟨ms, v⟩, s'⟩ ⟨hnt, hzc⟩
    simp only [] at hnt hzc ⊢
    unfold ZC at hzc
    split
    · rename_i hcond
      simp only [Bool.and_eq_true, decide_eq_true_eq] at hcond
      refine (hp D child (ply + 1) (depth - 1) tail (-β) (-α)
        { s' with st := { s'.st with reSearch := s'.st.reSearch + 1 } } hnt (by omega) hl).mono ?_
      rintro ⟨⟨ms2, v2⟩, s2⟩ ⟨hnt2, hpc, _⟩
      simp only [] at hnt2 hpc ⊢
      unfold PC at hpc ⊢
      refine ⟨hnt2, ?_, ?_, ?_⟩ <;> intros <;> omega
    · rename_i hcond
      simp only [Bool.and_eq_true, decide_eq_true_eq, not_and] at hcond
      apply Sat.pure
      unfold PC
      refine ⟨hnt, ?_, ?_, ?_⟩ <;> intros <;> simp only [] <;> omega
  · refine (hp D child (ply + 1) (depth - 1) tail (-β) (-α) s hs (by omega) hl).mono ?_
    rintro ⟨⟨ms2, v2⟩, s2⟩ ⟨hnt2, hpc, _⟩
    simp only [] at hnt2 hpc ⊢
    unfold PC at hpc ⊢
    refine ⟨hnt2, ?_, ?_, ?_⟩ <;> intros <;> omega


/-! ### the child loop of a PV node -/

/-- invariant of the loop: the running `α` is either still the initial one, or the exact value of the
legal child whose move heads `best` -/
def PvInv (g : Game P M) (D : Int × Bool) (p : P) (d' : Nat) (α0 β : Int) (a : PvAcc M) (s : Eng M) : Prop :=
  NT D s ∧ a.α < β ∧
  ((a.α = α0 ∧ a.improved = false) ∨
   (a.improved = true ∧ α0 < a.α ∧
     ∃ m rest c, a.best = m :: rest ∧ g.apply p m = .ok c ∧ a.α = -(negamax g d' c)))

/-- a child is accounted for: its value does not exceed the running `α` -/
def PvCov (g : Game P M) (d' : Nat) (a : PvAcc M) (c : P) : Prop := -(negamax g d' c) ≤ a.α

/-- on a cutoff some legal child really has a value ≥ β -/
def PvQb (g : Game P M) (D : Int × Bool) (p : P) (d' : Nat) (β : Int) (a : PvAcc M) (s : Eng M) : Prop :=
  NT D s ∧ β ≤ a.α ∧ ∃ m c, g.apply p m = .ok c ∧ β ≤ -(negamax g d' c)

theorem pvBody_ok [DecidableEq M] {g : Game P M} {o : Oracle M} {cpv : PvFn P M} {czw : ZwFn P M}
    (hnc : NoCancel o) (hp : PvOK g cpv) (hz : ZwOK g czw)
    (D : Int × Bool) (p : P) (ply : Nat) (depth α0 β : Int)
    (hl : ∀ m c, g.apply p m = .ok c → Live g (depth - 1).toNat c) :
    BodyOK g p (pvBody g o cpv czw ply depth β false)
      (PvInv g D p (depth - 1).toNat α0 β) (PvCov g (depth - 1).toNat) (PvQb g D p (depth - 1).toNat β)
      (fun _ _ => False) := by
  intro m c a s hap hinv
  obtain ⟨hnt, hlt, hdisj⟩ := hinv
  unfold pvBody
  simp only [Bool.false_and, Bool.false_eq_true, if_false]
  apply Sat.bind
  intro sm _
  apply Sat.bind
  refine (pvChild_spec hp hz (a.i + 1) c ply depth (a.best.drop 1) a.α β D { s with stackM := sm } hnt hlt
    (hl m c hap)).mono ?_
  rintro ⟨⟨ms, v⟩, s'⟩ ⟨hnt', hpc⟩
  simp only [] at hnt' hpc ⊢
  unfold PC at hpc
  split
  · rename_i hgt
    apply Sat.bind
    intro pv0 _
    split
    · rename_i hge
      apply Sat.bind
      refine (recordCut_nt (s := { s' with pv0 := pv0 }) hnt' m (a.i + 1) ply).mono ?_
      intro s'' hnt''
      apply Sat.pure
      refine ⟨hnt'', hge, m, c, hap, ?_⟩
      omega
    · rename_i hnge
      apply Sat.pure
      rw [afterChild_nc hnc]
      refine ⟨⟨hnt', by simp only []; omega, Or.inr ⟨rfl, ?_, m, ms.getD [], c, rfl, hap, ?_⟩⟩, ?_, ?_⟩
      · simp only []
        rcases hdisj with ⟨h1, _⟩ | ⟨_, h1, _⟩ <;> omega
      · simp only []; omega
      · intro c' hc'; unfold PvCov at hc' ⊢; simp only []; omega
      · intro c' hc'; subst hc'; unfold PvCov; simp only []; omega
  · rename_i hngt
    apply Sat.pure
    rw [afterChild_nc hnc]
    refine ⟨⟨hnt', hlt, hdisj⟩, fun c' hc' => hc', ?_⟩
    intro c' hc'; subst hc'; unfold PvCov; simp only []; omega


theorem pvStore_nt (o : Oracle M) (k : H) (depth β : Int) (a : PvAcc M) {D : Int × Bool} {s : Eng M} (h : NT D s) :
    pvStore o k depth β a s = .ok ((some a.best, a.α), s) := by
  unfold pvStore; rw [ttPut_nt o h]; rfl

theorem pvInitBest_nt (ply : Nat) (pv : List M) {D : Int × Bool} {s : Eng M} (h : NT D s) :
    Sat (pvInitBest ply pv s) (fun x => NT D x.2) := by
  unfold pvInitBest
  split
  · apply Sat.bind; intro pv0 _; exact Sat.pure h
  · apply Sat.bind; intro x _; exact Sat.pure h

/-- children of a live, unfinished position above the horizon are live one level down -/
theorem Live.child {g : Game P M} (hg : GameOK g) {depth : Int} {p : P} (hl : Live g depth.toNat p)
    (hd : 0 < depth) (hov : g.over p = false) :
    kids g p ≠ [] ∧ ∀ m c, g.apply p m = .ok c → Live g (depth - 1).toNat c := by
  obtain ⟨d, hd'⟩ : ∃ d, depth.toNat = d + 1 := ⟨depth.toNat - 1, by omega⟩
  have hd1 : (depth - 1).toNat = d := by omega
  rw [hd'] at hl
  simp only [Live] at hl
  rcases hl with h | ⟨hne, hall⟩
  · rw [hov] at h; cases h
  · refine ⟨hne, ?_⟩
    intro m c hap
    obtain ⟨m', hm', hap'⟩ := hg.complete p m c hap
    rw [hd1]
    exact hall (m', c) (mem_kids.mpr ⟨hm', hap'⟩)

theorem pvNode_ok [DecidableEq M] {g : Game P M} (hg : GameOK g) {cfg : SOpts} (hpr : Precise cfg)
    {o : Oracle M} (hnc : NoCancel o) (hord : OrderOK o) (frame : Bool)
    {cpv : PvFn P M} {czw : ZwFn P M} (hp : PvOK g cpv) (hz : ZwOK g czw) :
    PvOK g (pvNode g cfg o frame cpv czw) := by
  intro D p ply depth pv α β s hnt hab hlive
  unfold pvNode
  simp only []
  split
  · rename_i hleaf
    apply Sat.pure
    have hv : negamax g depth.toNat p = g.eval p := by
      simp only [Bool.or_eq_true, decide_eq_true_eq] at hleaf
      rcases hleaf with h | h
      · have : depth.toNat = 0 := by omega
        rw [this]; rfl
      · exact negamax_over g _ p h
    refine ⟨(leaf_nt g p _ hnt).1, ?_, ?_⟩
    · rw [hv, (leaf_nt g p _ hnt).2]; unfold PC
      refine ⟨?_, ?_, ?_⟩ <;> intros <;> omega
    · intro h1 hov
      simp only [Bool.or_eq_true, decide_eq_true_eq] at hleaf
      rcases hleaf with h | h
      · omega
      · rw [hov] at h; cases h
  · rename_i hnl
    simp only [Bool.or_eq_true, decide_eq_true_eq, not_or, Int.not_le, Bool.not_eq_true] at hnl
    obtain ⟨hdpos, hov⟩ := hnl
    split
    · exact Sat.throw
    · have hdd : (cfg.dedupSymmetry && decide (g.moveNumber p < Facts.maxDedup)) = false := by
        rw [hpr.dd]; rfl
      obtain ⟨hkne, hlc⟩ := Live.child hg hlive hdpos hov
      apply Sat.bind
      rw [ttProbe_nt g p ply depth α β (D := D) (by exact ⟨hnt.1, ite_depth _ _ _ _ hnt.2 hnt.2⟩)]
      apply Sat.ok
      simp only []
      apply Sat.bind
      refine Sat.mono (pvInitBest_nt ply pv (D := D) (by exact ⟨hnt.1, ite_depth _ _ _ _ hnt.2 hnt.2⟩)) ?_
      rintro ⟨best, s1⟩ hnt1
      simp only [] at hnt1 ⊢
      apply Sat.bind
      rw [hdd]
      have hb := pvBody_ok hnc hp hz D p ply depth α β hlc
      have hinv0 : PvInv g D p (depth - 1).toNat α β (⟨α, best, false, 0, []⟩ : PvAcc M) s1 :=
        ⟨hnt1, hab, Or.inl ⟨rfl, rfl⟩⟩
      refine (iterate_rule hb cfg o ⟨ply, depth, none, pv⟩ (hg.gen p) hord
        (fun a s k hi => ⟨hi.1, hi.2.1, hi.2.2⟩) _ s1 hinv0).mono ?_
      rintro ⟨c, s2⟩ hpost
      have hd1 : depth.toNat = (depth - 1).toNat + 1 := by omega
      have hN := negamax_succ g (depth - 1).toNat p hov
      rw [← hd1] at hN
      cases c with
      | ret r => exact absurd hpost id
      | next a =>
        obtain ⟨⟨hnt2, hlt, hdisj⟩, _, hcov⟩ := hpost
        simp only []
        rw [pvStore_nt o _ depth β a hnt2]
        apply Sat.ok
        -- every generated legal child is bounded by the final α
        have hub : ∀ x ∈ kids g p, -(negamax g (depth - 1).toNat x.2) ≤ a.α := by
          intro x hx
          obtain ⟨hm, hap⟩ := mem_kids.mp (show (x.1, x.2) ∈ kids g p from hx)
          exact hcov x.2 ⟨x.1, hm, hap⟩
        rcases hdisj with ⟨heq, _⟩ | ⟨_, hgt, m, rest, c, hbest, hap, hval⟩
        · -- no child improved α: the value is at most α
          obtain ⟨x, hx, hmx⟩ := maxOver_attained (fun c => -(negamax g (depth - 1).toNat c.2))
            (Facts.minEval - 1) (kids g p) hkne
          have := hub x hx
          refine ⟨hnt2, ?_, ?_⟩
          · unfold PC; rw [hN, hmx]; simp only [] at this ⊢
            refine ⟨?_, ?_, ?_⟩ <;> intros <;> omega
          · intro _ _ h1 _; simp only [] at h1; omega
        · -- α is the value of the child that heads `best`
          obtain ⟨m', hm', hap'⟩ := hg.complete p m c hap
          have hmax : negamax g depth.toNat p = a.α := by
            rw [hN]
            exact maxOver_eq _ _ _ _ hub ⟨(m', c), mem_kids.mpr ⟨hm', hap'⟩, hval⟩
          refine ⟨hnt2, ?_, ?_⟩
          · unfold PC; rw [hmax]; dsimp only
            refine ⟨?_, ?_, ?_⟩ <;> intros <;> omega
          · intro _ _ _ _
            refine ⟨m, rest, c, by simp only [hbest], hap, ?_⟩
            have : depth.toNat - 1 = (depth - 1).toNat := by omega
            rw [this]; exact hval
      | brk a =>
        obtain ⟨hnt2, hge, m, c, hap, hcv⟩ := hpost
        simp only []
        rw [pvStore_nt o _ depth β a hnt2]
        apply Sat.ok
        obtain ⟨m', hm', hap'⟩ := hg.complete p m c hap
        have hge2 := maxOver_ge (fun c => -(negamax g (depth - 1).toNat c.2)) (Facts.minEval - 1) (kids g p)
          (m', c) (mem_kids.mpr ⟨hm', hap'⟩)
        simp only [] at hge2
        refine ⟨hnt2, ?_, ?_⟩
        · unfold PC; rw [hN]; simp only []
          refine ⟨?_, ?_, ?_⟩ <;> intros <;> omega
        · intro _ _ _ h2; simp only [] at h2; omega


/-! ### zero-window nodes -/

def ZwInv (D : Int × Bool) (a : ZwAcc M) (s : Eng M) : Prop := NT D s ∧ a.didCut = false

def ZwCov (g : Game P M) (d' : Nat) (α : Int) (_a : ZwAcc M) (c : P) : Prop := -(negamax g d' c) ≤ α

def ZwQb (g : Game P M) (D : Int × Bool) (p : P) (d' : Nat) (α : Int) (a : ZwAcc M) (s : Eng M) : Prop :=
  NT D s ∧ a.didCut = true ∧ ∃ m c, g.apply p m = .ok c ∧ α < -(negamax g d' c)

theorem zwBody_ok [DecidableEq M] {g : Game P M} {o : Oracle M} {czw : ZwFn P M}
    (hnc : NoCancel o) (hz : ZwOK g czw)
    (D : Int × Bool) (p : P) (ply : Nat) (depth α : Int) (cut : Bool)
    (hl : ∀ m c, g.apply p m = .ok c → Live g (depth - 1).toNat c) :
    BodyOK g p (zwBody o czw ply depth α cut)
      (ZwInv D) (ZwCov g (depth - 1).toNat α) (ZwQb g D p (depth - 1).toNat α) (fun _ _ => False) := by
  intro m c a s hap hinv
  obtain ⟨hnt, hdc⟩ := hinv
  unfold zwBody
  apply Sat.bind
  intro sm _
  apply Sat.bind
  refine Sat.mono (hz D c (ply + 1) (depth - 1) _ (-α - 1) (!cut) { s with stackM := sm } hnt (hl m c hap)) ?_
  rintro ⟨⟨ms, v⟩, s'⟩ ⟨hnt', hzc⟩
  dsimp only at hnt' hzc ⊢
  unfold ZC at hzc
  split
  · rename_i hgt
    apply Sat.bind
    refine (recordCut_nt hnt' m (a.i + 1) ply).mono ?_
    intro s'' hnt''
    apply Sat.bind
    intro pv0 _
    apply Sat.pure
    refine ⟨hnt'', rfl, m, c, hap, ?_⟩
    omega
  · rename_i hngt
    apply Sat.pure
    rw [afterChild_nc hnc]
    refine ⟨⟨hnt', hdc⟩, fun c' hc' => hc', ?_⟩
    intro c' hc'; subst hc'; unfold ZwCov; omega

theorem zwStore_nt (o : Oracle M) (k : H) (depth α : Int) (a : ZwAcc M) {D : Int × Bool} {s : Eng M} (h : NT D s) :
    zwStore o k depth α a s = .ok ((some a.best, if a.didCut then α + 1 else α), s) := by
  unfold zwStore; rw [ttPut_nt o h]; rfl

theorem nullMove_precise {g : Game P M} {cfg : SOpts} (hpr : Precise cfg) (czw : ZwFn P M) (p : P) (ply : Nat)
    (depth α : Int) (s : Eng M) : nullMove g cfg czw p ply depth α s = .ok (none, s) := by
  unfold nullMove nullMoveOK; rw [hpr.nn]; rfl

theorem slideReduction_precise {g : Game P M} {cfg : SOpts} (hpr : Precise cfg) (p : P) (ply : Nat)
    (depth : Int) (s : Eng M) : slideReduction g cfg p ply depth s = .ok (depth, s) := by
  unfold slideReduction; rw [hpr.nr]; rfl

theorem multiCut_precise [DecidableEq M] {g : Game P M} {cfg : SOpts} (hpr : Precise cfg) (o : Oracle M)
    (czw : ZwFn P M) (p : P) (mg : MG M) (α : Int) (cut : Bool) (s : Eng M) :
    multiCut g cfg o czw p mg α cut s = .ok (none, s) := by
  unfold multiCut; rw [hpr.mc]; rfl

theorem zwNode_ok [DecidableEq M] {g : Game P M} (hg : GameOK g) {cfg : SOpts} (hpr : Precise cfg)
    {o : Oracle M} (hnc : NoCancel o) (hord : OrderOK o) (frame : Bool)
    {czw : ZwFn P M} (hz : ZwOK g czw) :
    ZwOK g (zwNode g cfg o frame czw) := by
  intro D p ply depth pv α cut s hnt hlive
  unfold zwNode
  simp only []
  split
  · rename_i hleaf
    apply Sat.pure
    have hv : negamax g depth.toNat p = g.eval p := by
      simp only [Bool.or_eq_true, decide_eq_true_eq] at hleaf
      rcases hleaf with h | h
      · have : depth.toNat = 0 := by omega
        rw [this]; rfl
      · exact negamax_over g _ p h
    refine ⟨(leaf_nt g p _ hnt).1, ?_⟩
    rw [hv, (leaf_nt g p _ hnt).2]; unfold ZC
    refine ⟨?_, ?_⟩ <;> intros <;> omega
  · rename_i hnl
    simp only [Bool.or_eq_true, decide_eq_true_eq, not_or, Int.not_le, Bool.not_eq_true] at hnl
    obtain ⟨hdpos, hov⟩ := hnl
    split
    · exact Sat.throw
    · obtain ⟨hkne, hlc⟩ := Live.child hg hlive hdpos hov
      apply Sat.bind
      rw [ttProbe_nt g p ply depth α (α + 1) (by exact hnt)]
      apply Sat.ok
      dsimp only
      apply Sat.bind
      rw [nullMove_precise hpr]
      apply Sat.ok
      dsimp only
      apply Sat.bind
      rw [slideReduction_precise hpr]
      apply Sat.ok
      dsimp only
      apply Sat.bind
      rw [multiCut_precise hpr]
      apply Sat.ok
      dsimp only
      apply Sat.bind
      intro x _
      apply Sat.bind
      have hb := zwBody_ok hnc hz D p ply depth α cut hlc (o := o)
      refine Sat.mono (iterate_rule hb cfg o ⟨ply, depth, none, pv⟩ (hg.gen p) hord
        (fun a s k hi => ⟨hi.1, hi.2⟩) (⟨[x], 0, false⟩ : ZwAcc M) _ ⟨by exact hnt, rfl⟩) ?_
      rintro ⟨c, s2⟩ hpost
      have hd1 : depth.toNat = (depth - 1).toNat + 1 := by omega
      have hN := negamax_succ g (depth - 1).toNat p hov
      rw [← hd1] at hN
      cases c with
      | ret r => exact absurd hpost id
      | next a =>
        obtain ⟨⟨hnt2, hdc⟩, _, hcov⟩ := hpost
        dsimp only
        rw [zwStore_nt o _ depth α a hnt2]
        apply Sat.ok
        obtain ⟨x, hx, hmx⟩ := maxOver_attained (fun c => -(negamax g (depth - 1).toNat c.2))
          (Facts.minEval - 1) (kids g p) hkne
        obtain ⟨hm, hap⟩ := mem_kids.mp (show (x.1, x.2) ∈ kids g p from hx)
        have := hcov x.2 ⟨x.1, hm, hap⟩
        unfold ZwCov at this
        refine ⟨hnt2, ?_⟩
        unfold ZC; rw [hN, hmx, hdc]; dsimp only
        refine ⟨?_, ?_⟩ <;> intros <;> simp only [Bool.false_eq_true, if_false] <;> omega
      | brk a =>
        obtain ⟨hnt2, hdc, m, c, hap, hcv⟩ := hpost
        dsimp only
        rw [zwStore_nt o _ depth α a hnt2]
        apply Sat.ok
        obtain ⟨m', hm', hap'⟩ := hg.complete p m c hap
        have hge2 := maxOver_ge (fun c => -(negamax g (depth - 1).toNat c.2)) (Facts.minEval - 1) (kids g p)
          (m', c) (mem_kids.mpr ⟨hm', hap'⟩)
        dsimp only at hge2
        refine ⟨hnt2, ?_⟩
        unfold ZC; rw [hN, hdc]; dsimp only
        refine ⟨?_, ?_⟩ <;> intros <;> simp only [if_true] <;> omega


/-! ### the recursion -/

theorem search_ok [DecidableEq M] {g : Game P M} (hg : GameOK g) {cfg : SOpts} (hpr : Precise cfg)
    {o : Oracle M} (hnc : NoCancel o) (hord : OrderOK o) :
    ∀ n, PvOK g (search g cfg o n).1 ∧ ZwOK g (search g cfg o n).2 := by
  intro n
  induction n with
  | zero =>
    have hze : ZwOK g (fun _ _ _ _ _ _ _ => (.error (.panic "ai.stack[ply]: index out of range") : Except Err (Res M × Eng M))) :=
      fun _ _ _ _ _ _ _ _ _ _ => Sat.error
    have hpe : PvOK g (fun _ _ _ _ _ _ _ => (.error (.panic "ai.stack[ply]: index out of range") : Except Err (Res M × Eng M))) :=
      fun _ _ _ _ _ _ _ _ _ _ _ => Sat.error
    exact ⟨pvNode_ok hg hpr hnc hord false hpe hze, zwNode_ok hg hpr hnc hord false hze⟩
  | succ n ih =>
    exact ⟨pvNode_ok hg hpr hnc hord true ih.1 ih.2, zwNode_ok hg hpr hnc hord true ih.2⟩

end Search
