import TakVerif.Proofs.CheckEngine
import TakVerif.Proofs.TakAlternating
import TakVerif.Proofs.HashInv

/-! The empty board of a new game (`tak.New` with the default piece counts, size 3..8): no move ends the game.

`Position.Move` accepts on it exactly the pass (the search's null move) and the placement of an opponent's flat on one
of the `size²` squares; the resulting position has no road (one piece), a board that is not full and no empty reserve,
so `GameOver()` is `false` — checked square by square for the six sizes (`placedNotOver_all`, kernel evaluation of the
bit-level model: a finite table).  Hence `EvaluateWinner` is 0 on every child: `noWinInOne_new`. -/
namespace Tak
open Search

/-- the configurations `Friendly.Config` / the default hand to `tak.New`: size 3..8, default pieces and capstones -/
def startCfgs : List Cfg :=
  (List.range 6).flatMap (fun k => [⟨k + 3, 0, 0, false⟩, ⟨k + 3, 0, 0, true⟩])

/-- on the empty board of `cfg`: neither the pass nor a black flat on any square ends the game -/
def placedNotOver (cfg : Cfg) : Bool :=
  match Pos.new cfg with
  | .error _ => false
  | .ok p0 =>
    (match finish { p0 with move := p0.move + 1 } with
     | .ok c => !c.gameOver.1
     | .error _ => true) &&
    (List.range (cfg.size * cfg.size)).all (fun i =>
      match placeOn p0 { p0 with move := p0.move + 1 } i ⟨.black, .flat⟩ with
      | .ok c => !c.gameOver.1
      | .error _ => true)

theorem placedNotOver_all : startCfgs.all placedNotOver = true := by decide +kernel

theorem mem_startCfgs (n : Nat) (b : Bool) (h3 : 3 ≤ n) (h8 : n ≤ 8) : (⟨n, 0, 0, b⟩ : Cfg) ∈ startCfgs := by
  have : n = 3 ∨ n = 4 ∨ n = 5 ∨ n = 6 ∨ n = 7 ∨ n = 8 := by omega
  rcases this with rfl | rfl | rfl | rfl | rfl | rfl <;> cases b <;> decide

theorem dispatch_place {mover : Color} {m : Move} {pc : Piece} {dx dy : Int}
    (h : dispatch mover m = some (some pc, dx, dy)) : pc.color = mover := by
  unfold dispatch at h
  repeat' split at h
  all_goals first | (cases h; rfl) | cases h

theorem openingRule_ok {p : Pos} {place r : Option Piece} (hm : p.move < 2) (h : openingRule p place = .ok r) :
    ∃ pc, place = some pc ∧ r = some ⟨pc.color.flip, .flat⟩ := by
  unfold openingRule at h
  rw [if_pos hm] at h
  cases place with
  | none => cases h
  | some pc =>
    dsimp only at h
    split at h
    · cases h
    · rename_i hk
      have hk' : pc.kind = .flat := by
        cases hkk : pc.kind <;> simp [hkk] at hk ⊢
      cases h
      exact ⟨pc, rfl, by rw [hk']⟩

/-- **no move ends the game on the empty board** (size 3..8, default piece counts): whatever move `Position.Move`
accepts there — any coordinates, type code, slide word; any hash basis —, the resulting position is not over -/
theorem new_child_not_over (n : Nat) (b : Bool) (h3 : 3 ≤ n) (h8 : n ≤ 8) (p0 : Pos)
    (hp0 : Pos.new ⟨n, 0, 0, b⟩ = .ok p0) (basis : Array W) (m : Move) (c : Pos)
    (h : p0.apply basis m = .ok c) : c.gameOver.1 = false := by
  have hall := List.all_eq_true.mp placedNotOver_all _ (mem_startCfgs n b h3 h8)
  unfold placedNotOver at hall
  rw [hp0] at hall
  dsimp only at hall
  rw [Bool.and_eq_true] at hall
  obtain ⟨hpass, hplace⟩ := hall
  have hmove : p0.move = 0 := by
    obtain ⟨_, _, rfl⟩ := Tak.new_ok hp0
    rfl
  have hsz : p0.cfg.size = n := by
    obtain ⟨_, _, rfl⟩ := Tak.new_ok hp0
    rfl
  have htm : p0.toMove = .white := by
    unfold Pos.toMove
    rw [hmove]; rfl
  unfold Pos.apply at h
  dsimp only at h
  split at h
  · -- the pass
    rw [h] at hpass
    simpa using hpass
  · rw [htm] at h
    cases hd : dispatch .white m with
    | none => rw [hd] at h; cases h
    | some t =>
      obtain ⟨place, dx, dy⟩ := t
      rw [hd] at h
      dsimp only at h
      cases ho : openingRule p0 place with
      | error e => rw [ho] at h; cases h
      | ok r =>
        rw [ho] at h
        dsimp only at h
        obtain ⟨pc, rfl, rfl⟩ := openingRule_ok (by rw [hmove]; decide) ho
        have hcol := dispatch_place hd
        split at h
        · cases h
        · rename_i hb
          dsimp only at h
          rw [hcol] at h
          have hi : (m.x + m.y * (p0.cfg.size : Int)).toNat < n * n := by
            rw [hsz] at hb ⊢
            have hx : 0 ≤ m.x ∧ m.x < n ∧ 0 ≤ m.y ∧ m.y < n := by omega
            obtain ⟨x0, x1, y0, y1⟩ := hx
            have : m.y * (n : Int) ≤ ((n : Int) - 1) * n := Int.mul_le_mul_of_nonneg_right (by omega) (by omega)
            have h2 : ((n : Int) - 1) * n = (n : Int) * n - n := by rw [Int.sub_mul]; omega
            have h3 : 0 ≤ m.y * (n : Int) := Int.mul_nonneg y0 (by omega)
            have h4 : ((n * n : Nat) : Int) = (n : Int) * n := by push_cast; rfl
            omega
          have := List.all_eq_true.mp hplace _ (List.mem_range.mpr hi)
          have hfl : Color.flip .white = .black := rfl
          rw [hfl] at h
          rw [h] at this
          simpa using this

/-- **`noWinInOne_new`** — on the empty board of a new game no move wins at once for `EvaluateWinner`: every child
evaluates to 0 -/
theorem noWinInOne_new (n : Nat) (b : Bool) (h3 : 3 ≤ n) (h8 : n ≤ 8) (p0 : Pos)
    (hp0 : Pos.new ⟨n, 0, 0, b⟩ = .ok p0) (basis : Array W) (sym : Pos → List H) :
    NoWinInOne (takGame basis evalWinner sym) p0 := by
  intro m c hap
  have hov := new_child_not_over n b h3 h8 p0 hp0 basis m c hap
  have : evalWinner c = 0 := by
    unfold evalWinner
    cases hg : c.gameOver with
    | mk over w =>
      rw [hg] at hov
      dsimp only at hov ⊢
      rw [hov]
      rfl
  show -(evalWinner c) < Facts.winThreshold
  rw [this]
  decide

end Tak
