import TakVerif.Proofs.MoveRefinePlace

/-! Spec side of a slide, one step at a time. -/
namespace Tak
open Spec (abs decode)

/-- what may be entered (the inner `match` of `Spec.dropLoop`) -/
def enterTarget (target : Spec.Square) (carried : List Piece) : Option Spec.Square :=
  match target with
  | [] => some []
  | t :: rest =>
    match t.kind with
    | .capstone => none
    | .standing =>
      (match carried with
       | [cp] => if cp.kind == .capstone then some (⟨t.color, .flat⟩ :: rest) else none
       | _ => none)
    | .flat => some target

/-- one iteration of `Spec.dropLoop` -/
def dropStep (s : Spec.State) (x y : Int) (d : Spec.Dir) (carried : List Piece) (c : Nat) :
    Option (Spec.State × Int × Int × List Piece) :=
  let x := x + d.dx
  let y := y + d.dy
  if !s.onBoard x y then none else
  if c < 1 ∨ c > carried.length then none else
  match enterTarget (s.at x y) carried with
  | none => none
  | some target =>
    let keep := carried.length - c
    some (s.setAt x y (carried.drop keep ++ target), x, y, carried.take keep)

theorem dropLoop_cons (s : Spec.State) (x y : Int) (d : Spec.Dir) (carried : List Piece) (c : Nat) (cs : List Nat) :
    Spec.dropLoop s x y d carried (c :: cs) =
      match dropStep s x y d carried c with
      | none => none
      | some (s', x', y', carried') => Spec.dropLoop s' x' y' d carried' cs := by
  unfold dropStep enterTarget
  simp only [Spec.dropLoop]
  split
  · rfl
  split
  · rfl
  cases hsq : s.at (x + d.dx) (y + d.dy) with
  | nil => rfl
  | cons t rest =>
    simp only
    cases t.kind with
    | capstone => rfl
    | flat => rfl
    | standing =>
      simp only
      cases carried with
      | nil => rfl
      | cons cp tl =>
        cases tl with
        | nil =>
          cases hk : (cp.kind == Kind.capstone) <;> simp [hk]
        | cons _ _ => rfl

theorem dropLoop_nil (s : Spec.State) (x y : Int) (d : Spec.Dir) (carried : List Piece) :
    Spec.dropLoop s x y d carried [] = if carried.isEmpty then some s else none := by
  simp only [Spec.dropLoop]

end Tak
