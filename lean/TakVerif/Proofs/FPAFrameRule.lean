import TakVerif.Proofs.FPAFrame

/-! The frame property of the cairn variant, rule level: the geometry of the centre squares, what the
rule code reads off a view, and where the moves it scripts or accepts from ply 2 on lie (`MoveNear`). -/
set_option linter.unusedSimpArgs false
set_option linter.unusedVariables false
namespace Proofs.FPAFrame
open Tak Tak.FPA Spec Spec.FPA Proofs.FPA Proofs.FPAMini Proofs.FPAFast

/-! ### geometry -/

theorem centered_iff (n : Nat) (x y : Int) : isCentered (coreView n) x y = true ↔
    (n % 2 = 1 ∧ x = ((n / 2 : Nat) : Int) ∧ y = ((n / 2 : Nat) : Int)) ∨
    (n % 2 ≠ 1 ∧ (x = ((n / 2 : Nat) : Int) ∨ x = ((n / 2 : Nat) : Int) - 1) ∧
      (y = ((n / 2 : Nat) : Int) ∨ y = ((n / 2 : Nat) : Int) - 1)) := by
  unfold isCentered mid coreView
  by_cases h : n % 2 = 1
  · simp [h]
  · simp [h]

theorem adj_iff (n : Nat) (x y : Int) : isCenterAdjacent (coreView n) x y = true ↔
    (n % 2 = 1 ∧ (((x = ((n / 2 : Nat) : Int) - 1 ∨ x = ((n / 2 : Nat) : Int) + 1) ∧ y = ((n / 2 : Nat) : Int)) ∨
                  ((y = ((n / 2 : Nat) : Int) - 1 ∨ y = ((n / 2 : Nat) : Int) + 1) ∧ x = ((n / 2 : Nat) : Int)))) ∨
    (n % 2 ≠ 1 ∧ (((((n / 2 : Nat) : Int) - 1 ≤ x ∧ x ≤ ((n / 2 : Nat) : Int)) ∧
                    (((n / 2 : Nat) : Int) - 2 ≤ y ∧ y ≤ ((n / 2 : Nat) : Int) + 1)) ∨
                  ((((n / 2 : Nat) : Int) - 2 ≤ x ∧ x ≤ ((n / 2 : Nat) : Int) + 1) ∧
                    (((n / 2 : Nat) : Int) - 1 ≤ y ∧ y ≤ ((n / 2 : Nat) : Int))))) := by
  unfold isCenterAdjacent mid coreView
  by_cases h : n % 2 = 1
  · simp [h]
  · simp [h]

theorem nearS_iff (n : Nat) (x y : Int) :
    nearS n x y = true ↔ (isCenterAdjacent (coreView n) x y = true ∨ isCentered (coreView n) x y = true) := by
  unfold nearS; simp

theorem nearS_false_iff (n : Nat) (x y : Int) :
    nearS n x y = false ↔ ¬ (isCenterAdjacent (coreView n) x y = true ∨ isCentered (coreView n) x y = true) := by
  rw [← nearS_iff]; simp

theorem isCentered_core (v : View) (x y : Int) : isCentered v x y = isCentered (coreView v.size) x y := rfl
theorem isCenterAdjacent_core (v : View) (x y : Int) : isCenterAdjacent v x y = isCenterAdjacent (coreView v.size) x y := rfl

theorem onB_iff (n : Nat) (x y : Int) : onB n x y = true ↔ (0 ≤ x ∧ x < n ∧ 0 ≤ y ∧ y < n) := by
  unfold onB
  simp only [Bool.and_eq_true, decide_eq_true_eq]
  omega

theorem centered_odd {n : Nat} (hp : n % 2 = 1) (x y : Int) : isCentered (coreView n) x y = true ↔
    (x = ((n / 2 : Nat) : Int) ∧ y = ((n / 2 : Nat) : Int)) := by
  rw [centered_iff]; simp [hp]

theorem centered_even {n : Nat} (hp : ¬ n % 2 = 1) (x y : Int) : isCentered (coreView n) x y = true ↔
    ((x = ((n / 2 : Nat) : Int) ∨ x = ((n / 2 : Nat) : Int) - 1) ∧
      (y = ((n / 2 : Nat) : Int) ∨ y = ((n / 2 : Nat) : Int) - 1)) := by
  rw [centered_iff]; simp [hp]

theorem adj_odd {n : Nat} (hp : n % 2 = 1) (x y : Int) : isCenterAdjacent (coreView n) x y = true ↔
    (((x = ((n / 2 : Nat) : Int) - 1 ∨ x = ((n / 2 : Nat) : Int) + 1) ∧ y = ((n / 2 : Nat) : Int)) ∨
      ((y = ((n / 2 : Nat) : Int) - 1 ∨ y = ((n / 2 : Nat) : Int) + 1) ∧ x = ((n / 2 : Nat) : Int))) := by
  rw [adj_iff]; simp [hp]

theorem adj_even {n : Nat} (hp : ¬ n % 2 = 1) (x y : Int) : isCenterAdjacent (coreView n) x y = true ↔
    ((((((n / 2 : Nat) : Int) - 1 ≤ x ∧ x ≤ ((n / 2 : Nat) : Int)) ∧
        (((n / 2 : Nat) : Int) - 2 ≤ y ∧ y ≤ ((n / 2 : Nat) : Int) + 1)) ∨
      ((((n / 2 : Nat) : Int) - 2 ≤ x ∧ x ≤ ((n / 2 : Nat) : Int) + 1) ∧
        (((n / 2 : Nat) : Int) - 1 ≤ y ∧ y ≤ ((n / 2 : Nat) : Int))))) := by
  rw [adj_iff]; simp [hp]

/-- one step away from a centre square is near -/
theorem near_of_step (n : Nat) (d : Dir) (x y : Int)
    (h : isCentered (coreView n) (x + d.dx) (y + d.dy) = true) : nearS n x y = true := by
  by_cases hp : n % 2 = 1
  · rw [nearS_iff, adj_odd hp, centered_odd hp]
    rw [centered_odd hp] at h
    generalize ((n / 2 : Nat) : Int) = m at *
    cases d <;> simp only [Dir.dx, Dir.dy] at h <;> omega
  · rw [nearS_iff, adj_even hp, centered_even hp]
    rw [centered_even hp] at h
    generalize ((n / 2 : Nat) : Int) = m at *
    cases d <;> simp only [Dir.dx, Dir.dy] at h <;> omega

/-- between a near square and a centre square on the same line everything is near -/
theorem near_between (n : Nat) (d : Dir) (x y : Int) (k : Nat) (hk : 1 ≤ k)
    (hn : nearS n x y = true) (h : isCentered (coreView n) (x + k * d.dx) (y + k * d.dy) = true) :
    nearS n (x + d.dx) (y + d.dy) = true := by
  by_cases hp : n % 2 = 1
  · rw [nearS_iff, adj_odd hp, centered_odd hp] at *
    generalize ((n / 2 : Nat) : Int) = m at *
    cases d <;> simp only [Dir.dx, Dir.dy] at h ⊢ <;> omega
  · rw [nearS_iff, adj_even hp, centered_even hp] at *
    generalize ((n / 2 : Nat) : Int) = m at *
    cases d <;> simp only [Dir.dx, Dir.dy] at h ⊢ <;> omega

theorem pathNear_of (n : Nat) (d : Dir) (k : Nat) : ∀ (x y : Int), nearS n x y = true →
    isCentered (coreView n) (x + k * d.dx) (y + k * d.dy) = true → pathNear n d x y k := by
  induction k with
  | zero => intro x y _ _; trivial
  | succ k ih =>
    intro x y hn hc
    have hnext := near_between n d x y (k+1) (by omega) hn hc
    refine ⟨fun _ => hnext, ih _ _ hnext ?_⟩
    have e1 : x + d.dx + (k : Int) * d.dx = x + ((k + 1 : Nat) : Int) * d.dx := by
      cases d <;> simp only [Dir.dx] <;> omega
    have e2 : y + d.dy + (k : Int) * d.dy = y + ((k + 1 : Nat) : Int) * d.dy := by
      cases d <;> simp only [Dir.dy] <;> omega
    rw [e1, e2]
    exact hc

/-- the four neighbours of `(mid, mid)` are on the board and near -/
theorem mid_neighbours (n : Nat) (h4 : 4 ≤ n) (dx dy : Int)
    (hd : (dx = -1 ∧ dy = 0) ∨ (dx = 0 ∧ dy = -1) ∨ (dx = 1 ∧ dy = 0) ∨ (dx = 0 ∧ dy = 1)) :
    onB n (((n / 2 : Nat) : Int) + dx) (((n / 2 : Nat) : Int) + dy) = true ∧
    nearS n (((n / 2 : Nat) : Int) + dx) (((n / 2 : Nat) : Int) + dy) = true := by
  rw [onB_iff, nearS_iff, adj_iff, centered_iff]
  omega

/-! ### what the rule code reads off a view -/

structure VR (v v' : View) : Prop where
  size : v.size = v'.size
  ply : v.ply = v'.ply
  empty : ∀ x y, onB v.size x y = true → nearS v.size x y = true → v.empty x y = v'.empty x y

theorem BR.view {b b' : MB} (h : BR b b') : VR (mview b) (mview b') := by
  refine ⟨h.size, h.ply, ?_⟩
  intro x y hb hn
  obtain ⟨a, c, rfl, rfl, ha, hc⟩ := onB_nat hb
  have ha' : a < b.size := ha
  have hc' : c < b.size := hc
  have hn' : nearS b.size a c = true := hn
  show (mview b).empty a c = (mview b').empty a c
  unfold mview
  simp only []
  rw [← h.size]
  have e : ((a : Int) + (c : Int) * (b.size : Int)) = ((a + c * b.size : Nat) : Int) := by
    simp [Int.natCast_add, Int.natCast_mul]
  rw [e]
  have hnn : ¬ (((a + c * b.size : Nat) : Int) < 0) := by omega
  rw [if_neg hnn, if_neg hnn, Int.toNat_natCast, h.near a c ha' hc' hn']

theorem isCentered_vr {v v' : View} (h : VR v v') : isCentered v = isCentered v' := by
  funext x y; rw [isCentered_core, isCentered_core v', h.size]

theorem isCenterAdjacent_vr {v v' : View} (h : VR v v') : isCenterAdjacent v = isCenterAdjacent v' := by
  funext x y; rw [isCenterAdjacent_core, isCenterAdjacent_core v', h.size]

theorem mid_vr {v v' : View} (h : VR v v') : mid v = mid v' := by unfold mid; rw [h.size]

theorem cairnLegal_vr {v v' : View} (hs : v.size = v'.size) (hp : v.ply = v'.ply) (r : Rule) (m : Tak.Move) :
    cairnLegal r v m = cairnLegal r v' m := by
  have e : cairnLegal r v m = cairnLegal r ⟨v.size, v.ply, fun _ _ => true⟩ m := rfl
  have e' : cairnLegal r v' m = cairnLegal r ⟨v'.size, v'.ply, fun _ _ => true⟩ m := rfl
  rw [e, e', hs, hp]

theorem cairnWhiteSlide_vr {v v' : View} (h : VR v v') (r : Rule) (l : List Nat) :
    cairnWhiteSlide v r l = cairnWhiteSlide v' r l := by
  induction l with
  | nil => rfl
  | cons ty rest ih => simp only [cairnWhiteSlide, isCentered_vr h, ih]

theorem cairnBlackSquare_vr {v v' : View} (h : VR v v') (wx wy : Int) (l : List (Int × Int)) :
    cairnBlackSquare v wx wy l = cairnBlackSquare v' wx wy l := by
  induction l with
  | nil => rfl
  | cons o rest ih =>
    obtain ⟨ox, oy⟩ := o
    simp only [cairnBlackSquare, ← h.size, ih]
    by_cases hout : wrap8 (wx + ox) < 0 ∨ wrap8 (wy + oy) < 0 ∨ wrap8 (wx + ox) ≥ v.size ∨ wrap8 (wy + oy) ≥ v.size
    · rw [if_pos hout, if_pos hout]
    · rw [if_neg hout, if_neg hout]
      have hb : onB v.size (wrap8 (wx + ox)) (wrap8 (wy + oy)) = true := by rw [onB_iff]; omega
      rw [← isCenterAdjacent_vr h]
      by_cases hadj : isCenterAdjacent v (wrap8 (wx + ox)) (wrap8 (wy + oy)) = true
      · have hn : nearS v.size (wrap8 (wx + ox)) (wrap8 (wy + oy)) = true := by
          rw [nearS_iff]; left; rw [← isCenterAdjacent_core]; exact hadj
        rw [h.empty _ _ hb hn]
      · have hf : isCenterAdjacent v (wrap8 (wx + ox)) (wrap8 (wy + oy)) = false := by
          cases hq : isCenterAdjacent v (wrap8 (wx + ox)) (wrap8 (wy + oy)) with
          | true => exact absurd hq hadj
          | false => rfl
        simp only [hf, Bool.and_false]

theorem adjacent_mid_vr {v v' : View} (h : VR v v') (h4 : 4 ≤ v.size) :
    adjacent v (mid v) (mid v) = adjacent v' (mid v') (mid v') := by
  rw [← mid_vr h]
  have hm : mid v = ((v.size / 2 : Nat) : Int) := rfl
  have n1 := mid_neighbours v.size h4 (-1) 0 (by omega)
  have n2 := mid_neighbours v.size h4 0 (-1) (by omega)
  have n3 := mid_neighbours v.size h4 1 0 (by omega)
  have n4 := mid_neighbours v.size h4 0 1 (by omega)
  rw [← hm] at n1 n2 n3 n4
  have e1 := h.empty _ _ n1.1 n1.2
  have e2 := h.empty _ _ n2.1 n2.2
  have e3 := h.empty _ _ n3.1 n3.2
  have e4 := h.empty _ _ n4.1 n4.2
  simp only [Int.add_zero] at e1 e2 e3 e4
  have e1' : v.empty (mid v - 1) (mid v) = v'.empty (mid v - 1) (mid v) := by
    have : mid v - 1 = mid v + -1 := by omega
    rw [this]; exact e1
  have e2' : v.empty (mid v) (mid v - 1) = v'.empty (mid v) (mid v - 1) := by
    have : mid v - 1 = mid v + -1 := by omega
    rw [this]; exact e2
  unfold adjacent adjacentAvoiding
  simp only [e1', e2', e3, e4, ← h.size]

theorem getMove_vr {v v' : View} (h : VR v v') (h4 : 4 ≤ v.size) (r : Rule) :
    getMove .cairn r v = getMove .cairn r v' := by
  unfold getMove
  simp only [← h.ply, adjacent_mid_vr h h4, ← mid_vr h, cairnBlackSquare_vr h, cairnWhiteSlide_vr h]

/-! ### where the moves lie -/

/-- a flat on a near square, or a slide that (when it starts on the board) starts on a near square and
ends on a centre square -/
def MoveNear (n : Nat) (m : Tak.Move) : Prop :=
  (m.type = Facts.mtPlaceFlat ∧ nearS n m.x m.y = true) ∨
  (m.isSlide = true ∧ (onB n m.x m.y = true →
    nearS n m.x m.y = true ∧ ∃ dx dy, m.dest = some (dx, dy) ∧ isCentered (coreView n) dx dy = true))

theorem slideElems_len (n : Nat) : ∀ s : BitVec 32, (slideElems n s).length ≤ n := by
  induction n with
  | zero => intro s; simp [slideElems]
  | succ n ih =>
    intro s
    simp only [slideElems]
    split
    · simp
    · simp only [List.length_cons]; have := ih (s >>> 4); omega

theorem slides_len_le (s : BitVec 32) : Slides.len s ≤ 8 := slideElems_len 8 s

/-- reading of a slide: its direction, and where it ends when it starts on a board of size ≤ 64 -/
theorem slide_decode (m : Tak.Move) (hs : m.isSlide = true) :
    (Spec.decode m = .invalid ∧ m.dest = none) ∨
    ∃ d : Dir, Spec.decode m = .slide m.x m.y d (Slides.elems m.slides) ∧
      ∀ n : Nat, n ≤ 64 → onB n m.x m.y = true →
        m.dest = some (m.x + ((Slides.len m.slides : Nat) : Int) * d.dx, m.y + ((Slides.len m.slides : Nat) : Int) * d.dy) := by
  unfold Move.isSlide at hs
  have hs' : m.type ≥ 5 := of_decide_eq_true hs
  have hl := slides_len_le m.slides
  have hc : m.type = 5 ∨ m.type = 6 ∨ m.type = 7 ∨ m.type = 8 ∨ 9 ≤ m.type := by omega
  rcases hc with ht | ht | ht | ht | ht
  · right; refine ⟨.left, by simp [Spec.decode, ht, Facts.mtPlaceFlat, Facts.mtPlaceStanding, Facts.mtPlaceCapstone, Facts.mtSlideLeft], ?_⟩
    intro n hn hb
    rw [onB_iff] at hb
    simp only [Move.dest, ht, Facts.mtPlaceFlat, Facts.mtPlaceStanding, Facts.mtPlaceCapstone, Facts.mtSlideLeft, Dir.dx, Dir.dy]
    simp only [show ((5:Nat) == 2) = false by decide, show ((5:Nat) == 3) = false by decide, show ((5:Nat) == 4) = false by decide,
      show ((5:Nat) == 5) = true by decide, Bool.or_self, Bool.false_eq_true, if_false, if_true]
    unfold wrap8
    congr 2 <;> omega
  · right; refine ⟨.right, by simp [Spec.decode, ht, Facts.mtPlaceFlat, Facts.mtPlaceStanding, Facts.mtPlaceCapstone, Facts.mtSlideLeft, Facts.mtSlideRight], ?_⟩
    intro n hn hb
    rw [onB_iff] at hb
    simp only [Move.dest, ht, Facts.mtPlaceFlat, Facts.mtPlaceStanding, Facts.mtPlaceCapstone, Facts.mtSlideLeft, Facts.mtSlideRight, Dir.dx, Dir.dy]
    simp only [show ((6:Nat) == 2) = false by decide, show ((6:Nat) == 3) = false by decide, show ((6:Nat) == 4) = false by decide,
      show ((6:Nat) == 5) = false by decide, show ((6:Nat) == 6) = true by decide, Bool.or_self, Bool.false_eq_true, if_false, if_true]
    unfold wrap8
    congr 2 <;> omega
  · right; refine ⟨.up, by simp [Spec.decode, ht, Facts.mtPlaceFlat, Facts.mtPlaceStanding, Facts.mtPlaceCapstone, Facts.mtSlideLeft, Facts.mtSlideRight, Facts.mtSlideUp], ?_⟩
    intro n hn hb
    rw [onB_iff] at hb
    simp only [Move.dest, ht, Facts.mtPlaceFlat, Facts.mtPlaceStanding, Facts.mtPlaceCapstone, Facts.mtSlideLeft, Facts.mtSlideRight, Facts.mtSlideUp, Dir.dx, Dir.dy]
    simp only [show ((7:Nat) == 2) = false by decide, show ((7:Nat) == 3) = false by decide, show ((7:Nat) == 4) = false by decide,
      show ((7:Nat) == 5) = false by decide, show ((7:Nat) == 6) = false by decide, show ((7:Nat) == 7) = true by decide,
      Bool.or_self, Bool.false_eq_true, if_false, if_true]
    unfold wrap8
    congr 2 <;> omega
  · right; refine ⟨.down, by simp [Spec.decode, ht, Facts.mtPlaceFlat, Facts.mtPlaceStanding, Facts.mtPlaceCapstone, Facts.mtSlideLeft, Facts.mtSlideRight, Facts.mtSlideUp, Facts.mtSlideDown], ?_⟩
    intro n hn hb
    rw [onB_iff] at hb
    simp only [Move.dest, ht, Facts.mtPlaceFlat, Facts.mtPlaceStanding, Facts.mtPlaceCapstone, Facts.mtSlideLeft, Facts.mtSlideRight, Facts.mtSlideUp, Facts.mtSlideDown, Dir.dx, Dir.dy]
    simp only [show ((8:Nat) == 2) = false by decide, show ((8:Nat) == 3) = false by decide, show ((8:Nat) == 4) = false by decide,
      show ((8:Nat) == 5) = false by decide, show ((8:Nat) == 6) = false by decide, show ((8:Nat) == 7) = false by decide,
      show ((8:Nat) == 8) = true by decide, Bool.or_self, Bool.false_eq_true, if_false, if_true]
    unfold wrap8
    congr 2 <;> omega
  · left
    have h2 : (m.type == 2) = false := by simp; omega
    have h3 : (m.type == 3) = false := by simp; omega
    have h4 : (m.type == 4) = false := by simp; omega
    have h5 : (m.type == 5) = false := by simp; omega
    have h6 : (m.type == 6) = false := by simp; omega
    have h7 : (m.type == 7) = false := by simp; omega
    have h8 : (m.type == 8) = false := by simp; omega
    constructor
    · simp [Spec.decode, Facts.mtPlaceFlat, Facts.mtPlaceStanding, Facts.mtPlaceCapstone, Facts.mtSlideLeft, Facts.mtSlideRight,
        Facts.mtSlideUp, Facts.mtSlideDown, h2, h3, h4, h5, h6, h7, h8]
    · simp [Move.dest, Facts.mtPlaceFlat, Facts.mtPlaceStanding, Facts.mtPlaceCapstone, Facts.mtSlideLeft, Facts.mtSlideRight,
        Facts.mtSlideUp, Facts.mtSlideDown, h2, h3, h4, h5, h6, h7, h8]

/-- **a near move is answered alike by related boards** -/
theorem move_rel {b b' : MB} (h : BR b b') (h64 : b.size ≤ 64) (m : Tak.Move) (hm : MoveNear b.size m) :
    OptRel (mstep b (Spec.decode m)) (mstep b' (Spec.decode m)) := by
  rcases hm with ⟨ht, hn⟩ | ⟨hs, hsrc⟩
  · have hd : Spec.decode m = .place m.x m.y .flat := by simp [Spec.decode, ht]
    rw [hd]
    exact place_rel h _ _ _ hn
  · rcases slide_decode m hs with ⟨hinv, _⟩ | ⟨d, hd, hdest⟩
    · rw [hinv]; left; exact ⟨rfl, rfl⟩
    · rw [hd]
      refine slide_rel h _ _ _ _ (fun hb => (hsrc hb).1) (fun hb => ?_)
      obtain ⟨hn, dx, dy, hde, hc⟩ := hsrc hb
      rw [hdest b.size h64 hb] at hde
      cases hde
      exact pathNear_of b.size d _ _ _ hn hc

end Proofs.FPAFrame
