import TakVerif.Proofs.TakGameRestrictLoop

/-! Simulation of `pvSearch` / `zwSearch` between a game and its restriction (every configuration without the null
move; the null move applies the pass move, which the restricted game of the Tak instance rejects). -/
namespace Search
open Tak (Err)

variable {P M : Type}

section
variable {g : Game P M} {S : Nat → P → Prop} {IM : M → Prop}

/-- result of a search call: good engine state, PV inside `IM` -/
def ResGoodIM (IM : M → Prop) (x : Res M × Eng M) : Prop := EngGood IM x.2 ∧ PVGood IM x.1.1

/-- the two `pvSearch`-like functions agree on positions of rank `k` -/
def PvSim (g : Game P M) (S : Nat → P → Prop) (IM : M → Prop) (k : Nat)
    (cpv' : PvFn {p // S 0 p} M) (cpv : PvFn P M) : Prop :=
  ∀ (p' : {p // S 0 p}) (ply : Nat) (depth : Int) (pv : List M) (α β : Int) (s : Eng M),
    S k p'.val → (∀ m ∈ pv, IM m) → EngGood IM s →
    Sim (cpv' p' ply depth pv α β s) (cpv p'.val ply depth pv α β s) (ResGoodIM IM)

def ZwSim (g : Game P M) (S : Nat → P → Prop) (IM : M → Prop) (k : Nat)
    (czw' : ZwFn {p // S 0 p} M) (czw : ZwFn P M) : Prop :=
  ∀ (p' : {p // S 0 p}) (ply : Nat) (depth : Int) (pv : List M) (α : Int) (cut : Bool) (s : Eng M),
    S k p'.val → (∀ m ∈ pv, IM m) → EngGood IM s →
    Sim (czw' p' ply depth pv α cut s) (czw p'.val ply depth pv α cut s) (ResGoodIM IM)

variable {k : Nat} {cpv' : PvFn {p // S 0 p} M} {cpv : PvFn P M} {czw' : ZwFn {p // S 0 p} M} {czw : ZwFn P M}

theorem sat_true {α : Type} (x : Except Err α) : Sat x (fun _ => True) := fun _ _ => trivial

theorem pvChild_sim (hp : PvSim g S IM k cpv' cpv) (hz : ZwSim g S IM k czw' czw)
    (i : Nat) (c' : {p // S 0 p}) (hc : S k c'.val) (ply : Nat) (depth : Int) (tail : List M) (ht : ∀ m ∈ tail, IM m)
    (α β : Int) (s : Eng M) (hs : EngGood IM s) :
    Sim (pvChild cpv' czw' i c' ply depth tail α β s) (pvChild cpv czw i c'.val ply depth tail α β s)
      (ResGoodIM IM) := by
  unfold pvChild
  refine Sim.ite (fun _ => ?_) (fun _ => ?_)
  · refine Sim.bind (hz c' (ply + 1) (depth - 1) tail (-α - 1) true s hc ht hs) ?_
    rintro ⟨⟨ms, v⟩, s1⟩ ⟨hs1, hms⟩
    dsimp only at hs1 hms ⊢
    refine Sim.ite (fun _ => ?_) (fun _ => ?_)
    · exact hp c' (ply + 1) (depth - 1) tail (-β) (-α) _ hc ht (hs1.of_eq rfl rfl rfl)
    · exact Sim.pure ⟨hs1, hms⟩
  · exact hp c' (ply + 1) (depth - 1) tail (-β) (-α) s hc ht hs

/-- accumulator invariant of the PV loop -/
def PvAccGood (IM : M → Prop) (a : PvAcc M) : Prop := ∀ m ∈ a.best, IM m

theorem pvBody_sim [DecidableEq M] (o : Oracle M) (hp : PvSim g S IM k cpv' cpv) (hz : ZwSim g S IM k czw' czw)
    (ply : Nat) (depth β : Int) (dedup : Bool) :
    BodySim g S IM k (PvAccGood IM) (fun r : Res M => PVGood IM r.1)
      (pvBody (g.restrict (S 0) IM) o cpv' czw' ply depth β dedup) (pvBody g o cpv czw ply depth β dedup) := by
  intro m c' a s hm hc ha hs
  unfold pvBody
  have e1 : (g.restrict (S 0) IM).hash c' = g.hash c'.val := rfl
  have e2 : (g.restrict (S 0) IM).symHashes c' = g.symHashes c'.val := rfl
  rw [e1, e2]
  refine Sim.ite (fun _ => Sim.pure ⟨hs, ha⟩) (fun _ => ?_)
  dsimp only
  refine Sim.bind (Sim.refl (sat_true _)) ?_
  intro sm _
  have hdrop : ∀ (b : List M), (∀ x ∈ b, IM x) → ∀ x ∈ b.drop 1, IM x :=
    fun b hb x hx => hb x (List.mem_of_mem_drop hx)
  have hbest : ∀ x ∈ (if dedup = true then { a with seen := a.seen ++ g.symHashes c'.val } else a).best, IM x := by
    split <;> exact ha
  generalize (if dedup = true then { a with seen := a.seen ++ g.symHashes c'.val } else a) = a1 at hbest ⊢
  refine Sim.bind (pvChild_sim hp hz _ c' hc ply depth _ (hdrop _ hbest) _ β _ (hs.of_eq rfl rfl rfl)) ?_
  rintro ⟨⟨ms, v⟩, s1⟩ ⟨hs1, hms⟩
  dsimp only at hs1 hms ⊢
  refine Sim.refl ?_
  have hac : ∀ (acc : PvAcc M) (s2 : Eng M), PvAccGood IM acc → EngGood IM s2 →
      CtlGood IM (PvAccGood IM) (fun r : Res M => PVGood IM r.1) (afterChild o acc s2) := by
    intro acc s2 hacc hs2
    obtain ⟨h1, h2⟩ := afterChild_engGood o acc hs2
    refine ⟨h1, ?_⟩
    rcases h2 with e | e <;> rw [e]
    · exact hacc
    · exact PVGood.none
  split
  · apply Sat.bind
    refine (setA_engGood hs1.pv0 ply m hm _).mono ?_
    intro pv0 hpv0
    have hs2 : EngGood IM { s1 with pv0 := pv0 } := ⟨hs1.table, hs1.resp, hpv0⟩
    have hnew : ∀ x ∈ m :: ms.getD [], IM x := by
      intro x hx
      rcases List.mem_cons.mp hx with h | h
      · subst h; exact hm
      · exact hms.getD x h
    split
    · apply Sat.bind
      refine (recordCut_engGood hs2 m hm _ ply).mono ?_
      intro s3 hs3
      exact Sat.pure ⟨hs3, hnew⟩
    · exact Sat.pure (hac _ _ hnew hs2)
  · exact Sat.pure (hac _ _ hbest hs1)

theorem pvNode_sim [DecidableEq M] (hR : Restr g S IM) (cfg : SOpts) (o : Oracle M) (hord : OrderOK o) (frame : Bool)
    (hp : PvSim g S IM k cpv' cpv) (hz : ZwSim g S IM k czw' czw)
    (p' : {p // S 0 p}) (hpk : frame = true → S (k + 1) p'.val)
    (ply : Nat) (depth : Int) (pv : List M) (hpv : ∀ m ∈ pv, IM m) (α β : Int) (s : Eng M) (hs : EngGood IM s) :
    Sim (pvNode (g.restrict (S 0) IM) cfg o frame cpv' czw' p' ply depth pv α β s)
      (pvNode g cfg o frame cpv czw p'.val ply depth pv α β s) (ResGoodIM IM) := by
  unfold pvNode
  have e1 : (g.restrict (S 0) IM).over p' = g.over p'.val := rfl
  have e2 : (g.restrict (S 0) IM).moveNumber p' = g.moveNumber p'.val := rfl
  have e3 : (g.restrict (S 0) IM).hash p' = g.hash p'.val := rfl
  have e4 : ∀ ov s, leaf (g.restrict (S 0) IM) p' ov s = leaf g p'.val ov s := fun _ _ => rfl
  rw [e1, e2, e3]
  dsimp only
  refine Sim.ite (fun _ => ?_) (fun _ => ?_)
  · rw [e4]
    exact Sim.pure ⟨hs.of_eq rfl rfl rfl, PVGood.none⟩
  · refine Sim.ite (fun _ => Sim.throw) (fun hf => ?_)
    have hfr : frame = true := by simpa using hf
    have hpk' := hpk hfr
    refine Sim.bind (ttProbe_sim hR p' hpk' ply depth α β _ (hs.of_eq rfl rfl rfl)) ?_
    rintro ⟨probe, s1⟩ ⟨hs1, hprobe⟩
    dsimp only at hs1 hprobe ⊢
    cases probe with
    | inl r => exact Sim.pure ⟨hs1, hprobe⟩
    | inr te =>
      dsimp only at hprobe ⊢
      refine Sim.bind (Sim.refl (pvInitBest_engGood ply pv hpv hs1)) ?_
      rintro ⟨best, s2⟩ ⟨hs2, hbest⟩
      dsimp only at hs2 hbest ⊢
      refine Sim.bind (iterate_sim hR (pvBody_sim o hp hz ply depth β _) cfg o hord p' hpk'
        ⟨ply, depth, te, pv⟩ ⟨hprobe, hpv⟩ _ s2 hbest hs2) ?_
      rintro ⟨c, s3⟩ ⟨hs3, hc⟩
      dsimp only at hs3 hc ⊢
      cases c with
      | ret r => exact Sim.pure ⟨hs3, hc⟩
      | next a => exact Sim.refl (pvStore_engGood o _ depth β a hc hs3)
      | brk a => exact Sim.refl (pvStore_engGood o _ depth β a hc hs3)

/-! ### zero-window nodes -/

theorem nullMove_off (g : Game P M) {cfg : SOpts} (hnn : cfg.noNullMove = true) (czw : ZwFn P M) (p : P) (ply : Nat)
    (depth α : Int) (s : Eng M) : nullMove g cfg czw p ply depth α s = .ok (none, s) := by
  unfold nullMove nullMoveOK; rw [hnn]; rfl

theorem slideReduction_engGood (g : Game P M) (cfg : SOpts) (p : P) (ply : Nat) (depth : Int) {s : Eng M}
    (hs : EngGood IM s) : Sat (slideReduction g cfg p ply depth s) (fun x => EngGood IM x.2) := by
  unfold slideReduction
  split
  · apply Sat.bind
    intro prev _
    apply Sat.bind
    intro red _
    split
    · exact Sat.pure (hs.of_eq rfl rfl rfl)
    · exact Sat.pure hs
  · exact Sat.pure hs

theorem mcBody_sim (hz : ZwSim g S IM k czw' czw) (ply : Nat) (depth α : Int) (cut : Bool) :
    BodySim g S IM k (fun _ : McAcc M => True) (fun r : Res M => PVGood IM r.1)
      (mcBody czw' ply depth α cut) (mcBody czw ply depth α cut) := by
  intro m c' a s hm hc _ hs
  unfold mcBody
  refine Sim.ite (fun _ => Sim.pure ⟨hs, trivial⟩) (fun _ => ?_)
  dsimp only
  refine Sim.bind (Sim.refl (sat_true _)) ?_
  intro sm _
  refine Sim.bind (hz c' (ply + 1) (depth - 1 - 2) [] (-α - 1) (!cut) _ hc (fun _ h => by cases h)
    (hs.of_eq rfl rfl rfl)) ?_
  rintro ⟨r, s1⟩ ⟨hs1, _⟩
  dsimp only at hs1 ⊢
  refine Sim.refl ?_
  split
  · split
    · exact Sat.pure ⟨hs1.of_eq rfl rfl rfl, PVGood.none⟩
    · exact Sat.pure ⟨hs1, trivial⟩
  · exact Sat.pure ⟨hs1, trivial⟩

theorem multiCut_sim [DecidableEq M] (hR : Restr g S IM) (cfg : SOpts) (o : Oracle M) (hord : OrderOK o)
    (hz : ZwSim g S IM k czw' czw) (p' : {p // S 0 p}) (hpk : S (k + 1) p'.val) (mg : MG M) (hmg : MGGood IM mg)
    (α : Int) (cut : Bool) (s : Eng M) (hs : EngGood IM s) :
    Sim (multiCut (g.restrict (S 0) IM) cfg o czw' p' mg α cut s) (multiCut g cfg o czw p'.val mg α cut s)
      (fun x => EngGood IM x.2 ∧ ∀ r, x.1 = some r → PVGood IM r.1) := by
  unfold multiCut
  refine Sim.ite (fun _ => ?_) (fun _ => Sim.pure ⟨hs, fun r h => by cases h⟩)
  dsimp only
  refine Sim.bind (iterate_sim hR (mcBody_sim hz mg.ply mg.depth α cut) cfg o hord p' hpk mg hmg _ _ trivial
    (hs.of_eq rfl rfl rfl)) ?_
  rintro ⟨c, s1⟩ ⟨hs1, hc⟩
  dsimp only at hs1 hc ⊢
  cases c with
  | ret r => exact Sim.pure ⟨hs1, fun r' h => by cases h; exact hc⟩
  | next a => exact Sim.pure ⟨hs1, fun r h => by cases h⟩
  | brk a => exact Sim.pure ⟨hs1, fun r h => by cases h⟩

def ZwAccGood (IM : M → Prop) (a : ZwAcc M) : Prop := ∀ m ∈ a.best, IM m

theorem zwBody_sim [DecidableEq M] (o : Oracle M) (hz : ZwSim g S IM k czw' czw) (ply : Nat) (depth α : Int)
    (cut : Bool) :
    BodySim g S IM k (ZwAccGood IM) (fun r : Res M => PVGood IM r.1)
      (zwBody o czw' ply depth α cut) (zwBody o czw ply depth α cut) := by
  intro m c' a s hm hc ha hs
  unfold zwBody
  dsimp only
  refine Sim.bind (Sim.refl (sat_true _)) ?_
  intro sm _
  have hdrop : ∀ x ∈ a.best.drop 1, IM x := fun x hx => ha x (List.mem_of_mem_drop hx)
  refine Sim.bind (hz c' (ply + 1) (depth - 1) _ (-α - 1) (!cut) _ hc hdrop (hs.of_eq rfl rfl rfl)) ?_
  rintro ⟨⟨ms, v⟩, s1⟩ ⟨hs1, hms⟩
  dsimp only at hs1 hms ⊢
  refine Sim.refl ?_
  split
  · apply Sat.bind
    refine (recordCut_engGood hs1 m hm _ ply).mono ?_
    intro s2 hs2
    apply Sat.bind
    refine (setA_engGood hs2.pv0 ply m hm _).mono ?_
    intro pv0 hpv0
    refine Sat.pure ⟨⟨hs2.table, hs2.resp, hpv0⟩, ?_⟩
    intro x hx
    rcases List.mem_cons.mp hx with h | h
    · subst h; exact hm
    · exact hms.getD x h
  · obtain ⟨h1, h2⟩ := afterChild_engGood o { a with i := a.i + 1 } hs1
    refine Sat.pure ⟨h1, ?_⟩
    rcases h2 with e | e <;> rw [e]
    · exact ha
    · exact PVGood.none

theorem zwNode_sim [DecidableEq M] (hR : Restr g S IM) (cfg : SOpts) (hnn : cfg.noNullMove = true) (o : Oracle M)
    (hord : OrderOK o) (frame : Bool) (hz : ZwSim g S IM k czw' czw)
    (p' : {p // S 0 p}) (hpk : frame = true → S (k + 1) p'.val)
    (ply : Nat) (depth : Int) (pv : List M) (hpv : ∀ m ∈ pv, IM m) (α : Int) (cut : Bool) (s : Eng M)
    (hs : EngGood IM s) :
    Sim (zwNode (g.restrict (S 0) IM) cfg o frame czw' p' ply depth pv α cut s)
      (zwNode g cfg o frame czw p'.val ply depth pv α cut s) (ResGoodIM IM) := by
  unfold zwNode
  have e1 : (g.restrict (S 0) IM).over p' = g.over p'.val := rfl
  have e3 : (g.restrict (S 0) IM).hash p' = g.hash p'.val := rfl
  have e4 : ∀ ov s, leaf (g.restrict (S 0) IM) p' ov s = leaf g p'.val ov s := fun _ _ => rfl
  have e5 : ∀ ply depth s, slideReduction (g.restrict (S 0) IM) cfg p' ply depth s =
      slideReduction g cfg p'.val ply depth s := fun _ _ _ => rfl
  rw [e1, e3]
  dsimp only
  refine Sim.ite (fun _ => ?_) (fun _ => ?_)
  · rw [e4]
    exact Sim.pure ⟨hs.of_eq rfl rfl rfl, PVGood.none⟩
  · refine Sim.ite (fun _ => Sim.throw) (fun hf => ?_)
    have hfr : frame = true := by simpa using hf
    have hpk' := hpk hfr
    refine Sim.bind (ttProbe_sim hR p' hpk' ply depth α (α + 1) _ (hs.of_eq rfl rfl rfl)) ?_
    rintro ⟨probe, s1⟩ ⟨hs1, hprobe⟩
    dsimp only at hs1 hprobe ⊢
    cases probe with
    | inl r => exact Sim.pure ⟨hs1, hprobe⟩
    | inr te =>
      dsimp only at hprobe ⊢
      rw [nullMove_off _ hnn, nullMove_off _ hnn]
      refine Sim.bind (Sim.ok (Q := fun x : Option (Res M) × Eng M => x = (none, s1)) rfl) ?_
      rintro _ rfl
      dsimp only
      rw [e5]
      refine Sim.bind (Sim.refl (slideReduction_engGood g cfg p'.val ply depth hs1)) ?_
      rintro ⟨depth2, s2⟩ hs2
      dsimp only at hs2 ⊢
      have hmg : MGGood IM (⟨ply, depth2, te, pv⟩ : MG M) := ⟨hprobe, hpv⟩
      refine Sim.bind (multiCut_sim hR cfg o hord hz p' hpk' _ hmg α cut s2 hs2) ?_
      rintro ⟨mc, s3⟩ ⟨hs3, hmc⟩
      dsimp only at hs3 hmc ⊢
      cases mc with
      | some r => exact Sim.pure ⟨hs3, hmc r rfl⟩
      | none =>
        dsimp only
        refine Sim.bind (Sim.refl (getA_engGood hs3.pv0 ply _)) ?_
        intro x hx
        have hx' : ZwAccGood IM (⟨[x], 0, false⟩ : ZwAcc M) := by
          intro y hy
          simp only [List.mem_cons, List.not_mem_nil, or_false] at hy
          subst hy; exact hx
        refine Sim.bind (iterate_sim hR (zwBody_sim o hz ply depth2 α cut) cfg o hord p' hpk' _ hmg _ s3 hx' hs3) ?_
        rintro ⟨c, s4⟩ ⟨hs4, hc⟩
        dsimp only at hs4 hc ⊢
        cases c with
        | ret r => exact Sim.pure ⟨hs4, hc⟩
        | next a => exact Sim.refl (zwStore_engGood o _ depth2 α a hc hs4)
        | brk a => exact Sim.refl (zwStore_engGood o _ depth2 α a hc hs4)

/-! ### the recursion -/

/-- **the restricted game and the original one run the same search**: with `n` free frames, from a position of
rank `n` and a good engine state -/
theorem search_sim [DecidableEq M] (hR : Restr g S IM) (cfg : SOpts) (hnn : cfg.noNullMove = true) (o : Oracle M)
    (hord : OrderOK o) :
    ∀ n, PvSim g S IM n (search (g.restrict (S 0) IM) cfg o n).1 (search g cfg o n).1 ∧
         ZwSim g S IM n (search (g.restrict (S 0) IM) cfg o n).2 (search g cfg o n).2 := by
  intro n
  induction n with
  | zero =>
    have hze : ZwSim g S IM 0
        (fun _ _ _ _ _ _ _ => (.error (.panic "ai.stack[ply]: index out of range") : Except Err (Res M × Eng M)))
        (fun _ _ _ _ _ _ _ => (.error (.panic "ai.stack[ply]: index out of range") : Except Err (Res M × Eng M))) :=
      fun _ _ _ _ _ _ _ _ _ _ => Sim.error
    have hpe : PvSim g S IM 0
        (fun _ _ _ _ _ _ _ => (.error (.panic "ai.stack[ply]: index out of range") : Except Err (Res M × Eng M)))
        (fun _ _ _ _ _ _ _ => (.error (.panic "ai.stack[ply]: index out of range") : Except Err (Res M × Eng M))) :=
      fun _ _ _ _ _ _ _ _ _ _ => Sim.error
    constructor
    · intro p' ply depth pv α β s _ hpv hs
      exact pvNode_sim hR cfg o hord false hpe hze p' (fun h => by cases h) ply depth pv hpv α β s hs
    · intro p' ply depth pv α cut s _ hpv hs
      exact zwNode_sim hR cfg hnn o hord false hze p' (fun h => by cases h) ply depth pv hpv α cut s hs
  | succ n ih =>
    constructor
    · intro p' ply depth pv α β s hk hpv hs
      exact pvNode_sim hR cfg o hord true ih.1 ih.2 p' (fun _ => hk) ply depth pv hpv α β s hs
    · intro p' ply depth pv α cut s hk hpv hs
      exact zwNode_sim hR cfg hnn o hord true ih.2 p' (fun _ => hk) ply depth pv hpv α cut s hs

theorem pvSearch_sim [DecidableEq M] (hR : Restr g S IM) (cfg : SOpts) (hnn : cfg.noNullMove = true) (o : Oracle M)
    (hord : OrderOK o) (ply : Nat) (p' : {p // S 0 p}) (hk : S (Facts.maxDepth - ply) p'.val)
    (depth : Int) (pv : List M) (hpv : ∀ m ∈ pv, IM m) (α β : Int) (s : Eng M) (hs : EngGood IM s) :
    Sim (pvSearch (g.restrict (S 0) IM) cfg o ply p' depth pv α β s) (pvSearch g cfg o ply p'.val depth pv α β s)
      (ResGoodIM IM) :=
  (search_sim hR cfg hnn o hord (Facts.maxDepth - ply)).1 p' ply depth pv α β s hk hpv hs

end
end Search
