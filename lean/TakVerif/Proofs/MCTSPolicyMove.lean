import TakVerif.Impl.MCTSPolicy
import TakVerif.Proofs.Popcount
import TakVerif.Proofs.MCTS

/-! Helper lemmas for `Props/C04_policy.lean`: `placeWinMove` never reaches the panic of `BitCoords`, and the move
it builds is the flat on the lowest reported square. -/
set_option linter.unusedVariables false
set_option linter.unusedSimpArgs false
namespace Proofs.MCTSPolicy
open Tak Tak.MCTS Roads

theorem tzFuel_spec : ∀ (k fuel acc : Nat) (x : W), k < fuel → x.getLsbD k = true →
    (∀ j, j < k → x.getLsbD j = false) → tzFuel fuel acc x = acc + k := by
  intro k
  induction k with
  | zero =>
    intro fuel acc x hf hk _
    cases fuel with
    | zero => omega
    | succ f => simp [tzFuel, hk]
  | succ k ih =>
    intro fuel acc x hf hk hlow
    cases fuel with
    | zero => omega
    | succ f =>
      have h0 : x.getLsbD 0 = false := hlow 0 (by omega)
      simp only [tzFuel, h0, Bool.false_eq_true, if_false]
      rw [ih f (acc + 1) (x >>> 1) (by omega)]
      · omega
      · rw [BitVec.getLsbD_ushiftRight]; rw [Nat.add_comm]; exact hk
      · intro j hj
        rw [BitVec.getLsbD_ushiftRight, Nat.add_comm]
        exact hlow (j + 1) (by omega)

/-- `TrailingZeros` of a word whose lowest set bit is `k` -/
theorem trailingZeros_spec (x : W) (k : Nat) (hk64 : k < 64) (hk : x.getLsbD k = true)
    (hlow : ∀ j, j < k → x.getLsbD j = false) : trailingZeros x = k := by
  unfold trailingZeros
  have hne : x ≠ 0#64 := by
    intro e; rw [e] at hk; simp at hk
  have : (x == 0#64) = false := by simpa using hne
  rw [this]
  simp only [Bool.false_eq_true, if_false]
  rw [tzFuel_spec k 64 0 x hk64 hk hlow]; omega

/-- `mask ^ (mask & (mask-1))` is the lowest set bit of `mask` -/
theorem lowest_bit (x : W) (hx : x ≠ 0#64) :
    ∃ k, k < 64 ∧ x.getLsbD k = true ∧ (∀ j, j < k → x.getLsbD j = false) ∧
      ∀ i, (x ^^^ (x &&& (x - 1#64))).getLsbD i = decide (i = k) := by
  obtain ⟨k, hk64, hk, hlow, hand, _⟩ := exists_lowest x hx
  refine ⟨k, hk64, hk, hlow, fun i => ?_⟩
  rw [BitVec.getLsbD_xor, hand]
  by_cases h : i = k
  · subst h; simp [hk]
  · simp [h]

/-- a singleton word passes the test of `BitCoords` -/
theorem singleton_ok (b : W) (k : Nat) (hk64 : k < 64) (hb : ∀ i, b.getLsbD i = decide (i = k)) :
    (b == 0#64 || b &&& (b - 1#64) != 0#64) = false := by
  have h1 : b ≠ 0#64 := by
    intro e
    have := hb k
    rw [e] at this; simp at this
  have h2 : b &&& (b - 1#64) = 0#64 := by
    apply BitVec.eq_of_getLsbD_eq
    intro i _
    rw [and_pred_bit, BitVec.getLsbD_zero, hb]
    by_cases h : i = k
    · subst h
      simp only [decide_true, Bool.true_and, decide_eq_false_iff_not]
      rintro ⟨j, hj, hbj⟩
      rw [hb] at hbj
      simp at hbj; omega
    · simp [h]
  simp [h1, h2]

/-- **`placeWinMove` is total** for the constants of a board size 3..8: the zero move when `findPlaceWins`
reports nothing, otherwise the flat placement on the lowest reported square `k` (`x = k mod n`, `y = k div n`). -/
theorem placeWinMove_spec (n : Nat) (hn : SizeOK n) (p : Pos) :
    (placeWinsMask (Gen.precompute n) p = 0#64 → placeWinMove (Gen.precompute n) p = .ok zeroMove) ∧
    (placeWinsMask (Gen.precompute n) p ≠ 0#64 →
      ∃ k, k < 64 ∧ (placeWinsMask (Gen.precompute n) p).getLsbD k = true ∧
        (∀ j, j < k → (placeWinsMask (Gen.precompute n) p).getLsbD j = false) ∧
        placeWinMove (Gen.precompute n) p =
          .ok { x := ((k % n : Nat) : Int), y := ((k / n : Nat) : Int), type := Facts.mtPlaceFlat, slides := 0 }) := by
  constructor
  · intro h0
    unfold placeWinMove
    simp [h0]
  · intro hne
    obtain ⟨k, hk64, hk, hlow, hbit⟩ := lowest_bit _ hne
    refine ⟨k, hk64, hk, hlow, ?_⟩
    have hsz : (Gen.precompute n).Size = n := rfl
    have hn0 : (n == 0) = false := by
      have := hn.1; simp; omega
    have htz := trailingZeros_spec _ k hk64 (by rw [hbit]; simp) (fun j hj => by rw [hbit]; simp; omega)
    have hw8 : ∀ v : Nat, v ≤ 63 → wrap8 (v : Int) = (v : Int) := by
      intro v hv; unfold wrap8; omega
    have hx : k % n ≤ 63 := Nat.le_trans (Nat.mod_le _ _) (by omega)
    have hy : k / n ≤ 63 := Nat.le_trans (Nat.div_le_self _ _) (by omega)
    unfold placeWinMove
    have hne' : (placeWinsMask (Gen.precompute n) p != 0#64) = true := by simpa using hne
    simp only [hne', if_true]
    unfold bitCoords
    rw [singleton_ok _ k hk64 hbit]
    simp only [Bool.false_eq_true, if_false, hsz, hn0, htz]
    rw [hw8 _ hx, hw8 _ hy]

end Proofs.MCTSPolicy
