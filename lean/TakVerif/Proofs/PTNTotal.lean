import TakVerif.Impl.PTN
import TakVerif.Proofs.ApplyTotal

/-! Totality of the PTN-file model: no panic, and the fuel of every loop suffices. -/
namespace PTN
open Tak

/-- the call returned a value or an error value: no panic, no hang -/
def Graceful {α} (r : R α) : Prop := ∀ e, r = .error e → ∃ w, e = .illegal w

/-- the call did not panic -/
def NeverPanics {α} (r : R α) : Prop := ∀ s, r ≠ .error (.panic s)

theorem Graceful.noPanic {α} {r : R α} (h : Graceful r) : NeverPanics r := by
  intro s hs
  obtain ⟨w, hw⟩ := h _ hs
  cases hw

theorem graceful_ok {α} (a : α) : Graceful (Except.ok a : R α) := by
  intro e h; cases h

theorem graceful_illegal {α} (w : String) : Graceful (Except.error (.illegal w) : R α) := by
  intro e h; cases h; exact ⟨w, rfl⟩

theorem length_dropWhile_le {α} (p : α → Bool) (l : List α) : (l.dropWhile p).length ≤ l.length := by
  induction l with
  | nil => simp
  | cons a l ih =>
    simp only [List.dropWhile_cons]
    split
    · simp only [List.length_cons]; omega
    · simp

/-! ### `splitMoves` -/

theorem head_dropWhile_not {α} (p : α → Bool) (l : List α) (c : α) (cs : List α)
    (h : l.dropWhile p = c :: cs) : p c = false := by
  induction l with
  | nil => simp at h
  | cons a l ih =>
    simp only [List.dropWhile_cons] at h
    split at h
    · exact ih h
    · rename_i hp
      cases h
      simpa using hp

/-- a token handed out by the split function is never empty and always advances the input -/
theorem splitMoves_token (buf : Bytes) (atEOF : Bool) (adv : Nat) (tok : Bytes)
    (h : splitMoves buf atEOF = ⟨adv, some tok⟩) : tok ≠ [] ∧ 0 < adv := by
  unfold splitMoves at h
  extract_lets body start pre1 pre2 at h
  have hlen : body.length ≤ buf.length := length_dropWhile_le _ _
  have hbody : buf.dropWhile isSpace = body := rfl
  clear_value body
  cases body with
  | nil => simp at h
  | cons c cs =>
    have hc : isSpace c = false := head_dropWhile_not _ _ _ _ hbody
    have hbl : 0 < buf.length := by simp only [List.length_cons] at hlen; omega
    have hpre2 : pre2 ≠ [] := by simp only [pre2, List.takeWhile_cons, hc]; simp
    clear_value pre1 pre2
    dsimp only at h
    split at h
    · split at h
      · simp only [Split.mk.injEq, Option.some.injEq] at h
        obtain ⟨h1, h2⟩ := h
        refine ⟨?_, by omega⟩
        rw [← h2]; simp
      · split at h
        · simp only [Split.mk.injEq, Option.some.injEq] at h
          obtain ⟨h1, h2⟩ := h
          refine ⟨?_, by omega⟩
          rw [← h2]; simp
        · simp at h
    · split at h
      · simp only [Split.mk.injEq, Option.some.injEq] at h
        obtain ⟨h1, h2⟩ := h
        refine ⟨?_, by omega⟩
        rw [← h2]; exact hpre2
      · split at h
        · simp only [Split.mk.injEq, Option.some.injEq] at h
          obtain ⟨h1, h2⟩ := h
          refine ⟨?_, by omega⟩
          rw [← h2]; simp
        · simp at h

theorem splitMoves_nil (atEOF : Bool) : splitMoves [] atEOF = ⟨0, none⟩ := by
  simp [splitMoves]

theorem drop_length_lt {α} (l : List α) (n : Nat) (hn : 0 < n) (hl : l ≠ []) : (l.drop n).length < l.length := by
  have : 0 < l.length := List.length_pos_iff.mpr hl
  simp only [List.length_drop]; omega

/-- what one step of the scanner can answer: tokens are non-empty, and every continuing step consumes input -/
theorem scanStep_token (rest tok rest' : Bytes) (h : scanStep rest = .token tok rest') :
    tok ≠ [] ∧ rest'.length < rest.length := by
  unfold scanStep at h
  extract_lets window atEOF sp at h
  have hsp : splitMoves window atEOF = sp := rfl
  clear_value sp
  obtain ⟨adv, token⟩ := sp
  dsimp only at h
  cases token with
  | none =>
    dsimp only at h
    split at h
    · cases h
    · split at h <;> cases h
  | some t =>
    dsimp only at h
    cases h
    obtain ⟨h1, h2⟩ := splitMoves_token _ _ _ _ hsp
    refine ⟨h1, drop_length_lt _ _ h2 ?_⟩
    intro hr
    subst hr
    simp only [window, List.take_nil, splitMoves_nil] at hsp
    cases hsp

theorem scanStep_skip (rest rest' : Bytes) (h : scanStep rest = .skip rest') : rest'.length < rest.length := by
  unfold scanStep at h
  extract_lets window atEOF sp at h
  have hsp : splitMoves window atEOF = sp := rfl
  clear_value sp
  obtain ⟨adv, token⟩ := sp
  dsimp only at h
  cases token with
  | some t => dsimp only at h; cases h
  | none =>
    dsimp only at h
    split at h
    · rename_i hadv
      cases h
      refine drop_length_lt _ _ hadv ?_
      intro hr
      subst hr
      simp only [window, List.take_nil, splitMoves_nil] at hsp
      cases hsp
      omega
    · split at h <;> cases h

/-! ### `readMoves`, `readEvents`, `ParsePTN` -/

theorem classifyTok_graceful (env : Env) (hpm : ∀ b, Graceful (env.parseMove b)) (tok : Bytes) (htok : tok ≠ []) :
    Graceful (classifyTok env tok) := by
  unfold classifyTok
  cases tok with
  | nil => exact absurd rfl htok
  | cons c cs =>
    dsimp only
    split
    · split
      · exact graceful_illegal _
      · exact graceful_ok _
    split
    · split
      · exact graceful_illegal _
      · exact graceful_ok _
    split
    · exact graceful_ok _
    · have := hpm (trimRight (c :: cs) isModifier)
      split
      · exact graceful_ok _
      · exact graceful_illegal _
      · rename_i e hne heq
        obtain ⟨w, hw⟩ := this e heq
        exact absurd hw (hne w)

theorem readMoves_graceful (env : Env) (hpm : ∀ b, Graceful (env.parseMove b)) :
    ∀ fuel rest, rest.length < fuel → Graceful (readMoves env fuel rest) := by
  intro fuel
  induction fuel with
  | zero => intro rest h; omega
  | succ n ih =>
    intro rest hlen
    unfold readMoves
    split
    · exact graceful_ok _
    · exact graceful_illegal _
    · rename_i rest' hs
      exact ih rest' (by have := scanStep_skip _ _ hs; omega)
    · rename_i tok rest' hs
      obtain ⟨h1, h2⟩ := scanStep_token _ _ _ hs
      have hc := classifyTok_graceful env hpm tok h1
      split
      · rename_i e he
        intro e' h'
        cases h'
        exact hc e he
      · have hr := ih rest' (by omega)
        split
        · rename_i e he
          intro e' h'
          cases h'
          exact hr e he
        · exact graceful_ok _

theorem readEvents_graceful : ∀ fuel inp, inp.length < fuel → Graceful (readEvents fuel inp) := by
  intro fuel
  induction fuel with
  | zero => intro inp h; omega
  | succ n ih =>
    intro inp hlen
    unfold readEvents
    have hd := length_dropWhile_le isSpace inp
    split
    · exact graceful_ok _
    · rename_i c more hdw
      rw [hdw] at hd
      simp only [List.length_cons] at hd
      split
      · exact graceful_ok _
      extract_lets line after name tag
      split
      · exact graceful_ok _
      split
      · exact graceful_illegal _
      have hr := ih after (by simp only [after, List.length_drop]; omega)
      split
      · rename_i e he
        intro e' h'
        cases h'
        exact hr e he
      · exact graceful_ok _

/-- `ParsePTN` returns a value or an error for every byte string, provided `ParseMove` does -/
theorem parsePTN_graceful (env : Env) (hpm : ∀ b, Graceful (env.parseMove b)) (input : Bytes) :
    Graceful (parsePTN env input) := by
  unfold parsePTN
  split
  · exact graceful_illegal _
  extract_lets inp
  have he := readEvents_graceful (inp.length + 1) inp (by omega)
  split
  · rename_i e h
    intro e' h'
    cases h'
    exact he e h
  · rename_i tags rest h
    have hm := readMoves_graceful env hpm (rest.length + 1) rest (by omega)
    split
    · rename_i e h2
      intro e' h'
      cases h'
      exact hm e h2
    · exact graceful_ok _

/-! ### `InitialPosition` -/

theorem new_ok_of_range (cfg : Cfg) (h3 : 3 ≤ cfg.size) (h8 : cfg.size ≤ 8) : ∃ p, Pos.new cfg = .ok p := by
  unfold Pos.new
  have hl : Facts.defaultPieces.length = 9 := by decide
  rw [if_neg (by rw [hl]; omega)]
  extract_lets pieces caps
  rw [if_neg (by omega)]
  exact ⟨_, rfl⟩

theorem initialPosition_graceful (env : Env) (htps : ∀ b, Graceful (env.parseTPS b)) (f : File) :
    Graceful (initialPosition env f) := by
  unfold initialPosition
  extract_lets sizeTag tps
  split
  · exact graceful_illegal _
  rename_i size _
  split
  · exact graceful_illegal _
  rename_i hsz
  split
  · obtain ⟨p, hp⟩ := new_ok_of_range { size := size.toNat, pieces := 0, capstones := 0, blackWinsTies := false }
      (by dsimp only; omega) (by dsimp only; omega)
    rw [hp]; exact graceful_ok _
  · have := htps tps
    split
    · exact graceful_illegal _
    · rename_i e hne heq
      obtain ⟨w, hw⟩ := this e heq
      exact absurd hw (hne w)
    · split
      · exact graceful_illegal _
      · exact graceful_ok _

/-! ### the iterator -/

/-- the nil position pointer occurs only together with a recorded error -/
def Iter.Inv (it : Iter) : Prop :=
  (it.err = none → it.position ≠ none) ∧ (∀ e, it.err = some e → ∃ w, e = .illegal w)

/-- bounds the number of further successful `Next` calls -/
def Iter.measure (it : Iter) : Nat := it.rest.length + (if it.over then 0 else 1)

theorem scan_props (ops : List Op) : ∀ it : Iter,
    (Iter.scan ops it).1.err = it.err ∧ (Iter.scan ops it).1.position = it.position ∧
    (Iter.scan ops it).1.over = it.over ∧
    ((Iter.scan ops it).2 = true → (Iter.scan ops it).1.rest.length < ops.length) ∧
    ((Iter.scan ops it).2 = false → (Iter.scan ops it).1.rest = [] ∧ (Iter.scan ops it).1.move = it.move) := by
  induction ops with
  | nil => intro it; simp [Iter.scan]
  | cons op ops ih =>
    intro it
    cases op with
    | moveNumber src n =>
      simp only [Iter.scan]
      obtain ⟨h1, h2, h3, h4, h5⟩ := ih { it with ptnMove := n }
      refine ⟨h1, h2, h3, ?_, h5⟩
      intro h; have := h4 h; simp only [List.length_cons]; omega
    | move src m mods => simp [Iter.scan]
    | comment src c =>
      simp only [Iter.scan]
      obtain ⟨h1, h2, h3, h4, h5⟩ := ih it
      refine ⟨h1, h2, h3, ?_, h5⟩
      intro h; have := h4 h; simp only [List.length_cons]; omega
    | result src r =>
      simp only [Iter.scan]
      obtain ⟨h1, h2, h3, h4, h5⟩ := ih it
      refine ⟨h1, h2, h3, ?_, h5⟩
      intro h; have := h4 h; simp only [List.length_cons]; omega

/-- what `apply` can do from a state without error -/
theorem apply_cases (env : Env) (it : Iter) (hinv : it.Inv) (herr : it.err = none) :
    (∃ it', it.apply env = .ok (it', true) ∧ it'.Inv ∧ it'.err = none ∧ it'.rest = it.rest ∧
        it'.over = it.over ∧ it'.move = zeroMove) ∨
    (∃ it', it.apply env = .ok (it', false) ∧ it'.Inv ∧ it'.err ≠ none ∧ it'.rest = it.rest ∧ it'.over = it.over) ∨
    (∃ s p m, it.apply env = .error (.hang s) ∧ Pos.apply env.basis p m = .error (.hang s)) := by
  unfold Iter.apply
  cases hp : it.position with
  | none => exact absurd hp (hinv.1 herr)
  | some p =>
    dsimp only
    cases ha : p.apply env.basis it.move with
    | ok next =>
      left
      refine ⟨_, rfl, ⟨by simp, ?_⟩, herr, rfl, rfl, rfl⟩
      intro e he; simp [herr] at he
    | error e =>
      cases e with
      | illegal w =>
        right; left
        refine ⟨_, rfl, ⟨by simp, ?_⟩, by simp, rfl, rfl⟩
        intro e he; simp at he; exact ⟨w, he.symm⟩
      | panic s => exact absurd ha (apply_noPanic _ _ _ s)
      | hang s => right; right; exact ⟨s, p, it.move, rfl, ha⟩

/-- what `Next` can do: a successful call lowers the measure; every call keeps the invariant;
the only failure is a `hang` handed up from `Position.Move` (flood-fill fuel, see `Impl/Bitboard.lean`) -/
theorem next_cases (env : Env) (it : Iter) (hinv : it.Inv) :
    (∃ it', it.next env = .ok (it', true) ∧ it'.Inv ∧ it'.err = none ∧ it'.measure < it.measure) ∨
    (∃ it', it.next env = .ok (it', false) ∧ it'.Inv) ∨
    (∃ s p m, it.next env = .error (.hang s) ∧ Pos.apply env.basis p m = .error (.hang s)) := by
  unfold Iter.next
  split
  · right; left; exact ⟨it, rfl, hinv⟩
  rename_i hgo
  have herr : it.err = none := by
    cases h : it.err with
    | none => rfl
    | some e => simp [h] at hgo
  have hover : it.over = false := by
    cases h : it.over with
    | false => rfl
    | true => simp [h] at hgo
  -- the tail of the function, from a state `jt` that has no error and is not over
  have tail : ∀ jt : Iter, jt.Inv → jt.err = none → jt.over = false → jt.rest = it.rest →
      (∃ it', (match Iter.scan jt.rest jt with
              | (it, true) => (Except.ok (it, true) : R (Iter × Bool))
              | (it, false) =>
                let it := { it with over := true }
                if it.move.type != 0 then it.apply env else .ok (it, true)) = .ok (it', true) ∧
          it'.Inv ∧ it'.err = none ∧ it'.measure < it.measure) ∨
      (∃ it', (match Iter.scan jt.rest jt with
              | (it, true) => (Except.ok (it, true) : R (Iter × Bool))
              | (it, false) =>
                let it := { it with over := true }
                if it.move.type != 0 then it.apply env else .ok (it, true)) = .ok (it', false) ∧ it'.Inv) ∨
      (∃ s p m, (match Iter.scan jt.rest jt with
              | (it, true) => (Except.ok (it, true) : R (Iter × Bool))
              | (it, false) =>
                let it := { it with over := true }
                if it.move.type != 0 then it.apply env else .ok (it, true)) = .error (.hang s) ∧
          Pos.apply env.basis p m = .error (.hang s)) := by
    intro jt jinv jerr jover jrest
    obtain ⟨s1, s2, s3, s4, s5⟩ := scan_props jt.rest jt
    have hm : it.measure = it.rest.length + 1 := by simp [Iter.measure, hover]
    cases hsc : Iter.scan jt.rest jt with
    | mk kt found =>
      rw [hsc] at s1 s2 s3 s4 s5
      dsimp only at s1 s2 s3 s4 s5
      have kinv : kt.Inv := ⟨by rw [s1, s2]; exact jinv.1, by rw [s1]; exact jinv.2⟩
      cases found with
      | true =>
        left
        refine ⟨kt, rfl, kinv, by rw [s1]; exact jerr, ?_⟩
        have := s4 rfl
        simp only [Iter.measure, s3, jover, hover]
        rw [jrest] at this
        simp; omega
      | false =>
        dsimp only
        obtain ⟨r1, r2⟩ := s5 rfl
        split
        · -- a pending move at the end of the ops
          have linv : ({ kt with over := true } : Iter).Inv := kinv
          rcases apply_cases env { kt with over := true } linv (by show kt.err = none; rw [s1]; exact jerr) with
            ⟨a, ha, ainv, aerr, arest, aover, _⟩ | ⟨a, ha, ainv, _, _, _⟩ | ⟨s, p, m, hs, hpm⟩
          · left
            refine ⟨a, ha, ainv, aerr, ?_⟩
            simp only [Iter.measure, arest, aover, r1]
            simp [hover]
          · right; left; exact ⟨a, ha, ainv⟩
          · right; right; exact ⟨s, p, m, hs, hpm⟩
        · left
          refine ⟨_, rfl, kinv, by show kt.err = none; rw [s1]; exact jerr, ?_⟩
          simp only [Iter.measure, r1]
          simp [hover]
  by_cases hmv : (it.move.type != 0) = true
  · -- `if i.move.Type != 0`
    rw [if_pos hmv]
    rcases apply_cases env it hinv herr with
      ⟨a, ha, ainv, aerr, arest, aover, amove⟩ | ⟨a, ha, ainv, _, _, _⟩ | ⟨s, p, m, hs, hpm⟩
    · rw [ha]
      dsimp only
      cases hp : a.position with
      | none => exact absurd hp (ainv.1 aerr)
      | some p =>
        dsimp only
        by_cases hgo2 : p.gameOver.1 = true
        · rw [if_pos hgo2]
          dsimp only
          left
          refine ⟨{ a with over := true }, by rw [hp], ainv, aerr, ?_⟩
          simp only [Iter.measure, arest, hover]
          simp
        · rw [if_neg hgo2]
          dsimp only
          exact tail a ainv aerr (by rw [aover]; exact hover) arest
    · rw [ha]; right; left; exact ⟨a, rfl, ainv⟩
    · rw [hs]; right; right; exact ⟨s, p, m, rfl, hpm⟩
  · rw [if_neg hmv]
    exact tail it hinv herr hover rfl

theorem iterator_inv (env : Env) (f : File) (it : Iter) (h : iterator env f = .ok it) :
    it.Inv ∧ it.rest = f.ops ∧ it.over = false := by
  unfold iterator at h
  split at h
  · cases h; exact ⟨⟨by simp, by simp⟩, rfl, rfl⟩
  · cases h; exact ⟨⟨by simp, by intro e he; simp at he; exact ⟨_, he.symm⟩⟩, rfl, rfl⟩
  · cases h

/-- an error of the `PositionAtMove` loop is an error value, or a `hang` handed up from `Position.Move` -/
theorem loop_errors (env : Env) (move : Int) (color : Color) : ∀ fuel it, it.Inv → it.measure < fuel →
    ∀ e, positionAtMoveLoop env move color fuel it = .error e →
      (∃ w, e = .illegal w) ∨ (∃ s p m, e = .hang s ∧ Pos.apply env.basis p m = .error (.hang s)) := by
  intro fuel
  induction fuel with
  | zero => intro it _ h; omega
  | succ n ih =>
    intro it hinv hm e he
    unfold positionAtMoveLoop at he
    rcases next_cases env it hinv with ⟨a, ha, ainv, aerr, am⟩ | ⟨a, ha, ainv⟩ | ⟨s, p, m, hs, hpm⟩
    · rw [ha] at he
      dsimp only at he
      cases hp : a.position with
      | none => exact absurd hp (ainv.1 aerr)
      | some p =>
        rw [hp] at he
        dsimp only at he
        split at he
        · cases he
        · exact ih a ainv (by omega) e he
    · rw [ha] at he
      dsimp only at he
      cases hae : a.err with
      | some e' =>
        rw [hae] at he
        dsimp only at he
        cases he
        left; exact ainv.2 _ hae
      | none =>
        rw [hae] at he
        dsimp only at he
        split at he
        · cases he; left; exact ⟨_, rfl⟩
        · cases hp : a.position with
          | none => exact absurd hp (ainv.1 hae)
          | some p => rw [hp] at he; cases he
    · rw [hs] at he
      cases he
      right; exact ⟨s, p, m, rfl, hpm⟩

theorem positionAtMove_errors (env : Env) (htps : ∀ b, Graceful (env.parseTPS b)) (f : File) (move : Int) (color : Color) :
    ∀ e, positionAtMove env f move color = .error e →
      (∃ w, e = .illegal w) ∨ (∃ s p m, e = .hang s ∧ Pos.apply env.basis p m = .error (.hang s)) := by
  intro e he
  unfold positionAtMove at he
  split at he
  · cases he; left; exact ⟨_, rfl⟩
  · split at he
    · rename_i e' hit
      cases he
      -- `Iterator()` itself fails only if `InitialPosition` panics or hangs, which it does not
      unfold iterator at hit
      have hg := initialPosition_graceful env htps f
      split at hit
      · cases hit
      · cases hit
      · rename_i e'' hne hip
        cases hit
        obtain ⟨w, hw⟩ := hg _ hip
        exact absurd hw (hne w)
    · rename_i it hit
      obtain ⟨hinv, hrest, hover⟩ := iterator_inv env f it hit
      exact loop_errors env move color _ it hinv (by simp [Iter.measure, hrest, hover]) e he
