import TakVerif.Proofs.Reach

/-! `FromSquares` builds a well-formed position from any board whose stacks hold at most 64 pieces
(invalid piece codes make it return an error; they never produce a position). -/
set_option linter.unusedSimpArgs false
namespace Tak

/-- the six piece codes `FromSquares` accepts -/
def validCode (pc : Nat) : Prop := pc = 129 ∨ pc = 130 ∨ pc = 131 ∨ pc = 65 ∨ pc = 66 ∨ pc = 67

/-- what the inner loop of `FromSquares` may change: `Stacks` and the four reserves -/
def PiecesFrame (p q : Pos) : Prop :=
  q = { p with stacks := q.stacks, whiteStones := q.whiteStones, whiteCaps := q.whiteCaps,
               blackStones := q.blackStones, blackCaps := q.blackCaps }

theorem PiecesFrame.trans {a b c : Pos} (h1 : PiecesFrame a b) (h2 : PiecesFrame b c) : PiecesFrame a c := by
  unfold PiecesFrame at *
  rw [h2, h1]

def reserveStep (p : Pos) (pc : Nat) : Option Pos :=
  if pc == (Facts.colorWhite ||| Facts.kindCapstone) then some { p with whiteCaps := p.whiteCaps - 1 }
  else if pc == (Facts.colorBlack ||| Facts.kindCapstone) then some { p with blackCaps := p.blackCaps - 1 }
  else if pc == (Facts.colorWhite ||| Facts.kindFlat) || pc == (Facts.colorWhite ||| Facts.kindStanding) then some { p with whiteStones := p.whiteStones - 1 }
  else if pc == (Facts.colorBlack ||| Facts.kindFlat) || pc == (Facts.colorBlack ||| Facts.kindStanding) then some { p with blackStones := p.blackStones - 1 }
  else none

def stackStep (i j pc : Nat) (p : Pos) : Pos :=
  if j ≠ 0 ∧ (pc &&& Facts.colorMask) == Facts.colorBlack
  then { p with stacks := p.stacks.setIfInBounds i (p.stacks.getD i 0 ||| bit (j-1)) } else p

theorem pieces_cons_none (i j pc : Nat) (l : List Nat) (p : Pos) (h : reserveStep p pc = none) :
    Pos.fromSquares.go.pieces i j (pc :: l) p = .error (.illegal "bad stone") := by
  unfold reserveStep at h
  simp only [Pos.fromSquares.go.pieces]
  rw [h]

theorem pieces_cons_some (i j pc : Nat) (l : List Nat) (p p' : Pos) (h : reserveStep p pc = some p') :
    Pos.fromSquares.go.pieces i j (pc :: l) p = Pos.fromSquares.go.pieces i (j+1) l (stackStep i j pc p') := by
  unfold reserveStep at h
  simp only [Pos.fromSquares.go.pieces]
  rw [h]
  rfl

theorem reserveStep_ok {p p' : Pos} {pc : Nat} (h : reserveStep p pc = some p') :
    validCode pc ∧ PiecesFrame p p' ∧ p'.stacks = p.stacks := by
  unfold reserveStep at h
  by_cases h1 : (pc == (Facts.colorWhite ||| Facts.kindCapstone)) = true
  · rw [if_pos h1] at h; cases h
    exact ⟨by simp [Facts.colorWhite, Facts.kindCapstone] at h1; simp [validCode, h1], rfl, rfl⟩
  rw [if_neg h1] at h
  by_cases h2 : (pc == (Facts.colorBlack ||| Facts.kindCapstone)) = true
  · rw [if_pos h2] at h; cases h
    exact ⟨by simp [Facts.colorBlack, Facts.kindCapstone] at h2; simp [validCode, h2], rfl, rfl⟩
  rw [if_neg h2] at h
  by_cases h3 : (pc == (Facts.colorWhite ||| Facts.kindFlat) || pc == (Facts.colorWhite ||| Facts.kindStanding)) = true
  · rw [if_pos h3] at h; cases h
    refine ⟨?_, rfl, rfl⟩
    simp [Facts.colorWhite, Facts.kindFlat, Facts.kindStanding] at h3
    rcases h3 with h3 | h3 <;> simp [validCode, h3]
  rw [if_neg h3] at h
  by_cases h4 : (pc == (Facts.colorBlack ||| Facts.kindFlat) || pc == (Facts.colorBlack ||| Facts.kindStanding)) = true
  · rw [if_pos h4] at h; cases h
    refine ⟨?_, rfl, rfl⟩
    simp [Facts.colorBlack, Facts.kindFlat, Facts.kindStanding] at h4
    rcases h4 with h4 | h4 <;> simp [validCode, h4]
  rw [if_neg h4] at h
  cases h

theorem stackStep_frame (i j pc : Nat) (p : Pos) : PiecesFrame p (stackStep i j pc p) := by
  unfold stackStep PiecesFrame; split <;> rfl

theorem stackStep_stacks (i j pc : Nat) (p : Pos) :
    (stackStep i j pc p).stacks.size = p.stacks.size ∧
    (∀ k, k ≠ i → (stackStep i j pc p).stacks.getD k 0 = p.stacks.getD k 0) ∧
    (∀ b, j ≤ b → ((stackStep i j pc p).stacks.getD i 0).getLsbD b = (p.stacks.getD i 0).getLsbD b) := by
  unfold stackStep
  split
  · rename_i hc
    refine ⟨by simp, fun k hk => getD_setIfInBounds_ne _ _ _ _ _ hk, ?_⟩
    intro b hb
    by_cases hi : i < p.stacks.size
    · simp only
      rw [getD_setIfInBounds_eq _ _ _ _ hi, BitVec.getLsbD_or, bit_getLsbD]
      have : b ≠ j - 1 := by omega
      simp [this]
    · simp only
      rw [Array.setIfInBounds_eq_of_size_le (by omega)]
  · exact ⟨rfl, fun _ _ => rfl, fun _ _ => rfl⟩

theorem pieces_ok (i : Nat) (l : List Nat) (j : Nat) (p q : Pos) (h : Pos.fromSquares.go.pieces i j l p = .ok q) :
    PiecesFrame p q ∧ q.stacks.size = p.stacks.size ∧ (∀ k, k ≠ i → q.stacks.getD k 0 = p.stacks.getD k 0) ∧
    (∀ b, j + l.length ≤ b + 1 → (q.stacks.getD i 0).getLsbD b = (p.stacks.getD i 0).getLsbD b) ∧
    (∀ pc ∈ l, validCode pc) := by
  induction l generalizing j p with
  | nil =>
    simp only [Pos.fromSquares.go.pieces] at h
    cases h
    exact ⟨rfl, rfl, fun _ _ => rfl, fun _ _ => rfl, by simp⟩
  | cons pc l ih =>
    cases hr : reserveStep p pc with
    | none => rw [pieces_cons_none i j pc l p hr] at h; cases h
    | some p' =>
      rw [pieces_cons_some i j pc l p p' hr] at h
      obtain ⟨hv, hf, hst⟩ := reserveStep_ok hr
      obtain ⟨f1, f2, f3, f4, f5⟩ := ih (j+1) _ h
      obtain ⟨s1, s2, s3⟩ := stackStep_stacks i j pc p'
      refine ⟨(hf.trans (stackStep_frame i j pc p')).trans f1, ?_, ?_, ?_, ?_⟩
      · rw [f2, s1, hst]
      · intro k hk; rw [f3 k hk, s2 k hk, hst]
      · intro b hb
        simp only [List.length_cons] at hb
        rw [f4 b (by omega), s3 b (by omega), hst]
      · intro x hx
        simp only [List.mem_cons] at hx
        rcases hx with rfl | hx
        · exact hv
        · exact f5 x hx
/-- the two `switch`es on the top piece in `FromSquares` -/
def markTop (i top : Nat) (p : Pos) : Pos :=
  let tc := top &&& Facts.colorMask
  let tk := top &&& Facts.typeMask
  let p := if tc == Facts.colorWhite then { p with white := p.white ||| bit i }
           else if tc == Facts.colorBlack then { p with black := p.black ||| bit i } else p
  if tk == Facts.kindCapstone then { p with caps := p.caps ||| bit i }
  else if tk == Facts.kindStanding then { p with standing := p.standing ||| bit i } else p

/-- `p.Height[i] = len(sq); p.hash ^= p.hashAt(i)` -/
def closeSquare (basis : Array W) (i len : Nat) (p : Pos) : Pos :=
  let p := { p with height := p.height.setIfInBounds i (BitVec.ofNat 8 len) }
  { p with hash := p.hash ^^^ p.hashAt basis i }

theorem go_nil (basis : Array W) (n i : Nat) (p : Pos) : Pos.fromSquares.go basis n i [] p = .ok p := by
  simp only [Pos.fromSquares.go]

theorem go_past (basis : Array W) (n i : Nat) (sq : List Nat) (rest : List (List Nat)) (p : Pos) (h : i ≥ n) :
    Pos.fromSquares.go basis n i (sq :: rest) p = .ok p := by
  simp only [Pos.fromSquares.go, h, if_true]

theorem go_empty (basis : Array W) (n i : Nat) (rest : List (List Nat)) (p : Pos) (h : ¬ i ≥ n) :
    Pos.fromSquares.go basis n i ([] :: rest) p = Pos.fromSquares.go basis n (i+1) rest p := by
  simp only [Pos.fromSquares.go, h, if_false]

theorem go_square_err (basis : Array W) (n i top : Nat) (tl : List Nat) (rest : List (List Nat)) (p : Pos) (e : Err)
    (h : ¬ i ≥ n) (hp : Pos.fromSquares.go.pieces i 0 (top :: tl) (markTop i top p) = .error e) :
    Pos.fromSquares.go basis n i ((top :: tl) :: rest) p = .error e := by
  unfold markTop at hp
  simp only [Pos.fromSquares.go, h, if_false]
  rw [hp]

theorem go_square_ok (basis : Array W) (n i top : Nat) (tl : List Nat) (rest : List (List Nat)) (p p3 : Pos)
    (h : ¬ i ≥ n) (hp : Pos.fromSquares.go.pieces i 0 (top :: tl) (markTop i top p) = .ok p3) :
    Pos.fromSquares.go basis n i ((top :: tl) :: rest) p =
      Pos.fromSquares.go basis n (i+1) rest (closeSquare basis i (top :: tl).length p3) := by
  unfold markTop at hp
  simp only [Pos.fromSquares.go, h, if_false]
  rw [hp]
  rfl
theorem markTop_valid (i top : Nat) (p : Pos) (hv : validCode top) :
    ∃ cw ks kc : Bool, ¬(ks = true ∧ kc = true) ∧
      markTop i top p = { p with white := if cw then p.white ||| bit i else p.white
                                 black := if cw then p.black else p.black ||| bit i
                                 standing := if ks then p.standing ||| bit i else p.standing
                                 caps := if kc then p.caps ||| bit i else p.caps } := by
  rcases hv with rfl | rfl | rfl | rfl | rfl | rfl
  · exact ⟨true, false, false, by simp, by simp [markTop, Facts.colorMask, Facts.typeMask, Facts.colorWhite, Facts.colorBlack, Facts.kindCapstone, Facts.kindStanding]⟩
  · exact ⟨true, true, false, by simp, by simp [markTop, Facts.colorMask, Facts.typeMask, Facts.colorWhite, Facts.colorBlack, Facts.kindCapstone, Facts.kindStanding]⟩
  · exact ⟨true, false, true, by simp, by simp [markTop, Facts.colorMask, Facts.typeMask, Facts.colorWhite, Facts.colorBlack, Facts.kindCapstone, Facts.kindStanding]⟩
  · exact ⟨false, false, false, by simp, by simp [markTop, Facts.colorMask, Facts.typeMask, Facts.colorWhite, Facts.colorBlack, Facts.kindCapstone, Facts.kindStanding]⟩
  · exact ⟨false, true, false, by simp, by simp [markTop, Facts.colorMask, Facts.typeMask, Facts.colorWhite, Facts.colorBlack, Facts.kindCapstone, Facts.kindStanding]⟩
  · exact ⟨false, false, true, by simp, by simp [markTop, Facts.colorMask, Facts.typeMask, Facts.colorWhite, Facts.colorBlack, Facts.kindCapstone, Facts.kindStanding]⟩
/-- loop invariant of `FromSquares`: well-formed so far, squares from `i` on still empty -/
structure WFE (basis : Array W) (i : Nat) (p : Pos) : Prop where
  wf : WF basis p
  rest : ∀ j, i ≤ j → p.cell j = Cell.empty

theorem squareStep {basis : Array W} {i top : Nat} {tl : List Nat} {p p3 : Pos} (hp : WFE basis i p)
    (hi : i < p.cfg.size * p.cfg.size) (hlen : (top :: tl).length ≤ 64)
    (hpc : Pos.fromSquares.go.pieces i 0 (top :: tl) (markTop i top p) = .ok p3) :
    WFE basis (i+1) (closeSquare basis i (top :: tl).length p3) ∧
      (closeSquare basis i (top :: tl).length p3).cfg = p.cfg := by
  obtain ⟨hf, f2, f3, f4, f5⟩ := pieces_ok i (top :: tl) 0 _ _ hpc
  obtain ⟨cw, ks, kc, hkk, hm⟩ := markTop_valid i top p (f5 top (by simp))
  have hwf := hp.wf
  have h64 : i < 64 := by have := hwf.toFrame.n_le; omega
  have hei := hp.rest i (Nat.le_refl i)
  generalize hlen' : (top :: tl).length = len at *
  have hlen1 : 1 ≤ len := by rw [← hlen']; simp
  rw [hm] at hf f2 f3 f4
  unfold PiecesFrame at hf
  -- the fields of the result
  have qw : (closeSquare basis i len p3).white = if cw then p.white ||| bit i else p.white := by
    unfold closeSquare; rw [hf]
  have qb : (closeSquare basis i len p3).black = if cw then p.black else p.black ||| bit i := by
    unfold closeSquare; rw [hf]
  have qs : (closeSquare basis i len p3).standing = if ks then p.standing ||| bit i else p.standing := by
    unfold closeSquare; rw [hf]
  have qc : (closeSquare basis i len p3).caps = if kc then p.caps ||| bit i else p.caps := by
    unfold closeSquare; rw [hf]
  have qh : (closeSquare basis i len p3).height = p.height.setIfInBounds i (BitVec.ofNat 8 len) := by
    unfold closeSquare; rw [hf]
  have qst : (closeSquare basis i len p3).stacks = p3.stacks := rfl
  have qcfg : (closeSquare basis i len p3).cfg = p.cfg := by unfold closeSquare; rw [hf]
  have qcc : (closeSquare basis i len p3).c = p.c := by unfold closeSquare; rw [hf]
  have qmv : (closeSquare basis i len p3).move = p.move := by unfold closeSquare; rw [hf]
  have qhash : (closeSquare basis i len p3).hash =
      p.hash ^^^ hashAtRaw basis (p.height.setIfInBounds i (BitVec.ofNat 8 len)) p3.stacks i := by
    unfold closeSquare; rw [hf]; rfl
  have hcell_ne : ∀ j, j ≠ i → (closeSquare basis i len p3).cell j = p.cell j := by
    intro j hji
    apply Cell.ext' <;> simp only [Pos.cell]
    · rw [qw]; split <;> simp [-BitVec.getLsbD_eq_getElem, bit_getLsbD, hji]
    · rw [qb]; split <;> simp [-BitVec.getLsbD_eq_getElem, bit_getLsbD, hji]
    · rw [qs]; split <;> simp [-BitVec.getLsbD_eq_getElem, bit_getLsbD, hji]
    · rw [qc]; split <;> simp [-BitVec.getLsbD_eq_getElem, bit_getLsbD, hji]
    · rw [qh, getD_setIfInBounds_ne _ _ _ _ _ hji]
    · rw [qst, f3 j hji]
  have hlen8 : (BitVec.ofNat 8 len).toNat = len := by
    simp only [BitVec.toNat_ofNat]; omega
  have hih : i < p.height.size := by rw [hwf.height_size]; exact hi
  have e0 : p.cell i = Cell.empty := hei
  have ew : p.white.getLsbD i = false := congrArg Cell.w e0
  have eb : p.black.getLsbD i = false := congrArg Cell.b e0
  have es : p.standing.getLsbD i = false := congrArg Cell.s e0
  have ec : p.caps.getLsbD i = false := congrArg Cell.c e0
  have eh : p.height.getD i 0 = 0#8 := congrArg Cell.h e0
  have est : p.stacks.getD i 0 = 0#64 := congrArg Cell.st e0
  have hframe : Frame (closeSquare basis i len p3) :=
    { size_ge := by rw [qcfg]; exact hwf.size_ge
      size_le := by rw [qcfg]; exact hwf.size_le
      consts := by rw [qcc, qcfg]; exact hwf.consts
      height_size := by rw [qh, qcfg, Array.size_setIfInBounds]; exact hwf.height_size
      stacks_size := by rw [qst, qcfg, f2]; exact hwf.stacks_size }
  have hmove : 0 ≤ (closeSquare basis i len p3).move := by rw [qmv]; exact hwf.move_nonneg
  refine ⟨⟨{ toFrame := hframe, cell := ?_, hash := ?_, move_nonneg := hmove }, ?_⟩, qcfg⟩
  · intro j
    by_cases hji : j = i
    · subst hji
      refine { wb := ?_, sc := ?_, kind_occ := ?_, h_zero := ?_, h_le := ?_, st_hi := ?_ }
      · simp only [Pos.cell, qw, qb]
        cases cw <;> simp [-BitVec.getLsbD_eq_getElem, bit_getLsbD, ew, eb]
      · simp only [Pos.cell, qs, qc]
        cases ks <;> cases kc <;>
          first | exact absurd ⟨rfl, rfl⟩ hkk | simp [-BitVec.getLsbD_eq_getElem, bit_getLsbD, es, ec]
      · intro _
        simp only [Pos.cell, qw, qb]
        cases cw <;> simp [-BitVec.getLsbD_eq_getElem, bit_getLsbD, h64]
      · simp only [Pos.cell, qw, qb, qh]
        rw [getD_setIfInBounds_eq _ _ _ _ hih]
        constructor
        · intro h0
          have : (BitVec.ofNat 8 len).toNat = 0 := by rw [h0]; rfl
          omega
        · intro ⟨a, b⟩
          cases cw <;> simp [-BitVec.getLsbD_eq_getElem, bit_getLsbD, h64] at a b
      · simp only [Pos.cell, qh]
        rw [getD_setIfInBounds_eq _ _ _ _ hih, hlen8]; exact hlen
      · intro k hk
        simp only [Pos.cell, qh, qst] at hk ⊢
        rw [getD_setIfInBounds_eq _ _ _ _ hih, hlen8] at hk
        rw [f4 k (by omega), est]; simp
    · rw [hcell_ne j hji]; exact hwf.cell j
  · -- the hash: one new summand at `i`, where the old one was 0
    unfold HashOK
    rw [qhash, scratchHash_eq, qh, qst, Array.size_setIfInBounds]
    have hup := xfold_update (hashAtRaw basis p.height p.stacks)
      (hashAtRaw basis (p.height.setIfInBounds i (BitVec.ofNat 8 len)) p3.stacks) (BitVec.ofNat 64 Facts.fnvBasis) i
      (fun j hj => by unfold hashAtRaw; rw [getD_setIfInBounds_ne _ _ _ _ _ hj, f3 j hj]) p.height.size
    rw [hup, if_pos hih, hwf.hash, scratchHash_eq]
    rw [hashAtRaw_low basis p.height p.stacks i (by rw [eh]; decide)]
    simp
  · intro j hj
    rw [hcell_ne j (by omega)]
    exact hp.rest j (by omega)

theorem go_wf {basis : Array W} (rest : List (List Nat)) {i : Nat} {p q : Pos} (hp : WFE basis i p)
    (hlen : ∀ sq ∈ rest, sq.length ≤ 64)
    (h : Pos.fromSquares.go basis (p.cfg.size * p.cfg.size) i rest p = .ok q) : WF basis q := by
  induction rest generalizing i p with
  | nil => rw [go_nil] at h; cases h; exact hp.wf
  | cons sq rest ih =>
    by_cases hi : i ≥ p.cfg.size * p.cfg.size
    · rw [go_past _ _ _ _ _ _ hi] at h; cases h; exact hp.wf
    · have hrest : ∀ sq ∈ rest, sq.length ≤ 64 := fun s hs => hlen s (by simp [hs])
      cases sq with
      | nil =>
        rw [go_empty _ _ _ _ _ hi] at h
        exact ih ⟨hp.wf, fun j hj => hp.rest j (by omega)⟩ hrest h
      | cons top tl =>
        cases hpc : Pos.fromSquares.go.pieces i 0 (top :: tl) (markTop i top p) with
        | error e => rw [go_square_err _ _ _ _ _ _ _ e hi hpc] at h; cases h
        | ok p3 =>
          rw [go_square_ok _ _ _ _ _ _ _ _ hi hpc] at h
          obtain ⟨hwfe, hcfg⟩ := squareStep hp (by omega) (hlen _ (by simp)) hpc
          rw [← hcfg] at h
          exact ih hwfe hrest h

/-- **`FromSquares` output is well-formed**: for every configuration `New` accepts, every ply counter ≥ 0 and every
board (row-major list of squares, pieces as raw bytes) whose squares hold at most 64 pieces each, if `FromSquares`
returns a position (it returns an error on any byte that is not one of the six piece codes) that position satisfies
`WF`, for any basis table. -/
theorem fromSquares_wf (basis : Array W) (cfg : Cfg) (board : List (List Nat)) (move : Int) (q : Pos)
    (hm : 0 ≤ move) (hlen : ∀ sq ∈ board, sq.length ≤ 64)
    (h : Pos.fromSquares basis cfg board move = .ok q) : WF basis q := by
  unfold Pos.fromSquares at h
  cases h0 : Pos.new cfg with
  | error e => rw [h0] at h; cases h
  | ok p0 =>
    rw [h0] at h
    simp only [bind, Except.bind] at h
    split at h
    · cases h
    · have hwf0 := new_wf basis h0
      have hcfg : p0.cfg.size = cfg.size := by rw [(new_ok h0).2.2]
      have hwfe : WFE basis 0 { p0 with move := move } :=
        ⟨{ size_ge := hwf0.size_ge, size_le := hwf0.size_le, consts := hwf0.consts, height_size := hwf0.height_size,
           stacks_size := hwf0.stacks_size, cell := hwf0.cell, hash := hwf0.hash.congr rfl rfl rfl, move_nonneg := hm },
         fun j _ => new_cell_empty h0 j⟩
      cases hg : Pos.fromSquares.go basis (cfg.size * cfg.size) 0 board { p0 with move := move } with
      | error e => rw [hg] at h; cases h
      | ok p1 =>
        rw [hg] at h
        simp only at h
        rw [← hcfg] at hg
        have hwf1 := go_wf board hwfe hlen hg
        split at h
        · rename_i p2 hp2
          cases h
          exact hwf1.finish (by unfold finish; rw [hp2])
        · cases h

end Tak
