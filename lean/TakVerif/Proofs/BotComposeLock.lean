import TakVerif.Proofs.BotComposeInv
import TakVerif.Proofs.BotRunning

/-! # `inside` ⇔ `running`: the call the composed model considers in progress is the call of THE thinker that holds
`moveLock` (helper for `Props/C07_compose2.lean`)

`LInv`: as long as no thinker goroutine has panicked, thinker `j` is inside `GetMove` (`TSt.running` in the loop model)
if and only if the composed model has a call in progress and that call is thinker `j`'s.  Proved event by event. -/
namespace Tak.Compose
open Tak Tak.Bot Tak.Glue Tak.FPA

variable {σ χ : Type} {c : Conf} {S : Searcher σ χ} {s : St σ χ}

def LInv (s : St σ χ) : Prop :=
  s.dead = none → ∀ j, RunAt s.b j ↔ ∃ call, s.inside = some call ∧ call.k = j

theorem linv_loopStep (h : LInv s) (e : Bot.Ev) (he : e.isLoop = true) : LInv (loopStep c s e) := by
  intro hd j
  show RunAt (Bot.step c.bot s.b e) j ↔ _
  rw [runAt_step_loop c.bot s.b e he j]
  exact h hd j

/-- what `enter` found when it went ahead -/
theorem enter_pre {t : Thinker}
    (hen : ¬ ((!lockFree s.b || t.st != .waiting || s.inside.isSome) = true)) :
    lockFree s.b = true ∧ t.st = .waiting ∧ s.inside = none := by
  simp only [Bool.or_eq_true, Bool.not_eq_true', bne_iff_ne, ne_eq, not_or, Bool.not_eq_false, Decidable.not_not,
    Option.isSome_iff_ne_none] at hen
  exact ⟨hen.1.1, hen.1.2, hen.2⟩

theorem linv_enter (k : Nat) (chk : CheckOracle) (h : LInv s) : LInv (enter c s k chk) := by
  unfold enter
  split
  · exact h
  · rename_i t ht
    split
    · exact h
    · rename_i hen
      obtain ⟨hl, hw, hnone⟩ := enter_pre hen
      have ht' : (thinkers s.b)[k]? = some t := ht
      split
      · intro _ j
        show RunAt (Bot.aiReturns c.bot (Bot.grant s.b k) k Bot.zeroMove) j ↔ ∃ call, s.inside = some call ∧ call.k = j
        rw [runAt_aiReturns, runAt_grant hl ht' hw, hnone]
        constructor
        · rintro ⟨h1, h2⟩; exact absurd h1 h2
        · rintro ⟨_, h1, _⟩; cases h1
      · split
        · intro hd; cases hd
        · split
          · intro hd; cases hd
          · intro _ j
            show RunAt (Bot.grant s.b k) j ↔ _
            rw [runAt_grant hl ht' hw]
            constructor
            · rintro rfl; exact ⟨_, rfl, rfl⟩
            · rintro ⟨call, h1, h2⟩
              injection h1 with h1
              rw [← h2, ← h1]

theorem linv_ret (h : LInv s) (call : Call) (hin : s.inside = some call) (x : Option χ) (m : Move) (eng' : σ) :
    LInv (ret c s call x m eng') := by
  intro hd j
  show RunAt (Bot.aiReturns c.bot s.b call.k m) j ↔ ∃ call', (none : Option Call) = some call' ∧ call'.k = j
  rw [runAt_aiReturns, h hd j, hin]
  constructor
  · rintro ⟨⟨call', h1, h2⟩, h3⟩
    injection h1 with h1
    rw [h1] at h3
    exact absurd h2.symm h3
  · rintro ⟨_, h1, _⟩; cases h1

theorem linv_leave (k : Nat) (x : χ) (h : LInv s) : LInv (leave c S s k x) := by
  unfold leave
  split
  · exact h
  · rename_i call hin
    split
    · exact h
    · split
      · exact h
      · split
        · exact h
        · split
          · split
            · exact linv_ret h call hin _ _ _
            · exact h
          · exact linv_ret h call hin _ _ _
          · exact linv_ret h call hin _ _ _
          · split
            · intro hd; cases hd
            · exact linv_ret h call hin _ _ _

theorem linv_step (h : LInv s) (e : Ev χ) : LInv (step c S s e) := by
  unfold step
  split
  · exact h
  · cases e with
    | deliver bits parsed => exact linv_loopStep h _ rfl
    | close => exact linv_loopStep h _ rfl
    | timerFires => exact linv_loopStep h _ rfl
    | enter k chk => exact linv_enter k chk h
    | leave k x => exact linv_leave k x h

theorem linv_run (s : St σ χ) (h : LInv s) (evs : List (Ev χ)) : LInv (run c S s evs) := by
  induction evs generalizing s with
  | nil => exact h
  | cons e es ih => exact ih (step c S s e) (linv_step h e)

end Tak.Compose
