import TakVerif.Proofs.Norm

/-! Every error of `Pos.apply` is a returned `illegal` error or (only if the flood fuel ran out) a `hang`;
the guarded panic site is unreachable. -/
namespace Tak

/-- an error that is not a panic, and a `hang` only if some `analyze` call ran out of flood fuel -/
def Err.benign : Err → Prop
  | .illegal _ => True
  | .hang _ => ∃ p' : Pos, p'.analyze = none
  | .panic _ => False

theorem finish_err {p : Pos} {e : Err} (h : finish p = .error e) : e.benign := by
  unfold finish at h
  split at h
  · cases h
  · rename_i hn; cases h; exact ⟨p, hn⟩

theorem enterSquare_err {next : Pos} {top : Piece} {ct i : Nat} {e : Err}
    (h : enterSquare next top ct i = .error e) : e.benign := by
  unfold enterSquare at h
  split at h
  · cases h; trivial
  · split at h
    · split at h
      · cases h; trivial
      · cases h
    · cases h

theorem slideStep_err {basis : Array W} {p : Pos} {top : Piece} {stack : W} {dx dy : Int} {st : SlideSt} {c : Nat} {e : Err}
    (h : slideStep basis p top stack dx dy st c = .error e) : e.benign := by
  unfold slideStep at h
  dsimp only at h
  split at h
  · cases h; trivial
  · split at h
    · cases h; trivial
    · split at h
      · rename_i e' he; cases h; exact enterSquare_err he
      · cases h

theorem slideLoop_err {basis : Array W} {p : Pos} {top : Piece} {stack : W} {dx dy : Int} (drops : List Nat)
    {st : SlideSt} {e : Err} (h : slideLoop basis p top stack dx dy drops st = .error e) : e.benign := by
  induction drops generalizing st with
  | nil => simp only [slideLoop] at h; cases h
  | cons c cs ih =>
    simp only [slideLoop] at h
    split at h
    · rename_i e' he; cases h; exact slideStep_err he
    · exact ih h

theorem slideFrom_err {basis : Array W} {p next : Pos} {m : Move} {i : Nat} {dx dy : Int} {e : Err}
    (h : slideFrom basis p next m i dx dy = .error e) : e.benign := by
  unfold slideFrom at h
  dsimp only at h
  split at h
  · cases h; trivial
  split at h
  · cases h; trivial
  split at h
  · cases h; trivial
  rename_i hw
  split at h
  · cases h; trivial
  rename_i hb
  split at h
  · -- the guarded panic: `Top` of the origin is the zero piece.  Impossible: the mover's bit is set.
    rename_i htop
    exfalso
    unfold Pos.topAt at htop
    rcases toMove_cases p with hm | hm
    · have : p.white.getLsbD i = true := by simpa [hm] using hw
      simp [this] at htop
    · have : p.black.getLsbD i = true := by simpa [hm] using hb
      simp only [this, if_true] at htop
      split at htop
      · rename_i heq; split at heq <;> cases heq
      · cases htop
  · split at h
    · rename_i e' he; cases h; exact slideLoop_err _ he
    · exact finish_err h

theorem placeOn_err {p next : Pos} {i : Nat} {pc : Piece} {e : Err} (h : placeOn p next i pc = .error e) : e.benign := by
  rw [placeOn_eq] at h
  split at h
  · cases h; trivial
  split at h
  · cases h; trivial
  · exact finish_err h

theorem openingRule_err {p : Pos} {place : Option Piece} {e : Err} (h : openingRule p place = .error e) : e.benign := by
  unfold openingRule at h
  split at h
  · split at h
    · split at h
      · cases h; trivial
      · cases h
    · cases h; trivial
  · cases h

/-- every error of `MovePreallocated` is a returned error (or fuel exhaustion in `analyze`), never a panic -/
theorem apply_err {basis : Array W} {p : Pos} {m : Move} {e : Err} (h : Pos.apply basis p m = .error e) : e.benign := by
  unfold Pos.apply at h
  dsimp only at h
  split at h
  · exact finish_err h
  split at h
  · cases h; trivial
  split at h
  · rename_i e' he; cases h; exact openingRule_err he
  split at h
  · cases h; trivial
  split at h
  · exact placeOn_err h
  · exact slideFrom_err h

end Tak
