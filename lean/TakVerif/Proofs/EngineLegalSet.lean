import TakVerif.Proofs.AllMovesCompleteApply

/-! # The engine's own legal move set (C03, part 6c) -/
namespace Tak.Proofs
open Tak Spec

set_option linter.unusedSimpArgs false

/-- `MovePreallocated` never reads the slide word of a move that is not a slide -/
theorem apply_congr_nonslide (basis : Array W) (p : Pos) (m1 m2 : Move)
    (hx : m1.x = m2.x) (hy : m1.y = m2.y) (ht : m1.type = m2.type) (hns : m1.isSlide = false) :
    p.apply basis m1 = p.apply basis m2 := by
  have tc := types_cases
  simp only [Move.isSlide, decide_eq_false_iff_not] at hns
  have hlt : m2.type < 5 := by rw [← ht]; omega
  have place : ∀ k, m2.type = placeCode k → p.apply basis m1 = p.apply basis m2 := by
    intro k h2
    rw [apply_place_unfold basis p m1 k (by rw [ht]; exact h2), apply_place_unfold basis p m2 k h2, hx, hy]
  by_cases t2 : m2.type = Facts.mtPlaceFlat
  · exact place .flat t2
  by_cases t3 : m2.type = Facts.mtPlaceStanding
  · exact place .standing t3
  by_cases t4 : m2.type = Facts.mtPlaceCapstone
  · exact place .capstone t4
  have e2 : (m2.type == Facts.mtPlaceFlat) = false := by simpa using t2
  have e3 : (m2.type == Facts.mtPlaceStanding) = false := by simpa using t3
  have e4 : (m2.type == Facts.mtPlaceCapstone) = false := by simpa using t4
  have e5 : (m2.type == Facts.mtSlideLeft) = false := by simp; omega
  have e6 : (m2.type == Facts.mtSlideRight) = false := by simp; omega
  have e7 : (m2.type == Facts.mtSlideUp) = false := by simp; omega
  have e8 : (m2.type == Facts.mtSlideDown) = false := by simp; omega
  -- pass or an invalid type code: no field of the move but `type` is read
  unfold Pos.apply dispatch
  rw [ht]
  simp only [e2, e3, e4, e5, e6, e7, e8, Bool.false_eq_true, if_false]

/-- "the engine is willing to apply `m`": `Position.Move` returns no error -/
def accepted (basis : Array W) (p : Pos) (m : Move) : Bool := (p.apply basis m).toBool

theorem accepted_iff (basis : Array W) (p : Pos) (m : Move) :
    accepted basis p m = true ↔ ∃ q, p.apply basis m = .ok q := by
  unfold accepted
  cases p.apply basis m with
  | error e => simp [Except.toBool]
  | ok q => simp [Except.toBool]

theorem accepted_of_equal (basis : Array W) (p : Pos) (m1 m2 : Move) (he : m1.equal m2 = true) :
    accepted basis p m1 = accepted basis p m2 := by
  obtain ⟨hx, hy, ht, hs⟩ := equal_fields _ _ he
  unfold accepted
  by_cases hsl : m1.isSlide = true
  · have : m1 = m2 := by
      have := hs hsl
      cases m1; cases m2; simp_all
    rw [this]
  · rw [apply_congr_nonslide basis p m1 m2 hx hy ht (by simpa using hsl)]

/-- **the engine's own legal move set**: `AllMoves` filtered by "Move returns no error" contains exactly one
entry `Equal` to every non-pass move the engine applies, only on-board non-pass moves, no repetition -/
theorem engine_filter_eq' (basis : Array W) (p : Pos) (wf : WFlite p) :
    (∀ m, m.type ≠ Facts.mtPass → accepted basis p m = true →
        ∃ m', (m' ∈ p.allMoves.filter (accepted basis p) ∧ m'.equal m = true) ∧
          ∀ m'', m'' ∈ p.allMoves.filter (accepted basis p) → m''.equal m = true → m'' = m') ∧
    (∀ m' ∈ p.allMoves.filter (accepted basis p),
        accepted basis p m' = true ∧ m'.type ≠ Facts.mtPass ∧ OnBoard p.cfg.size m') ∧
    (p.allMoves.filter (accepted basis p)).Nodup ∧
    (p.allMoves.filter (accepted basis p)).Pairwise (fun a b => a.equal b = false) := by
  refine ⟨?_, ?_, ?_, ?_⟩
  · intro m hnp hl
    obtain ⟨q, hq⟩ := (accepted_iff basis p m).1 hl
    obtain ⟨m', hm', he⟩ := allMoves_complete_apply' basis p wf m q hnp hq
    refine ⟨m', ⟨?_, he⟩, ?_⟩
    · rw [List.mem_filter]; exact ⟨hm', by rw [accepted_of_equal basis p m' m he]; exact hl⟩
    · intro m'' hm'' he''
      rw [List.mem_filter] at hm''
      exact allMoves_equal_unique p m'' m' m hm''.1 hm' he'' he
  · intro m' hm'
    rw [List.mem_filter] at hm'
    have hob := allMoves_onboard' p wf.size_hi m' hm'.1
    refine ⟨hm'.2, ?_, hob⟩
    have tc := types_cases
    obtain ⟨_, _, _, _, ht, _⟩ := hob
    omega
  · have := allMoves_nodup' p wf.size_hi
    rw [List.Nodup] at this ⊢
    exact this.filter _
  · exact (allMoves_pairwise_not_equal p wf.size_hi).filter _

end Tak.Proofs
