import TakVerif.Impl.CmdSelfplay

/-! The accounts of `selfplay.Simulate` (`tally`, `creditWin`): what ONE result adds to every counter, by explicit case
splits over the result kind (winner × player 1's colour × is the final position finished × road / flats). -/
namespace Tak.CmdSelfplay

def b2n (b : Bool) : Nat := if b then 1 else 0

/-- the result has a winner and it is credited to player 2 (`r.Winner == r.spec.p1color.Flip()`) -/
def creditedP2 (r : Result) : Bool := r.winner != .none && r.winner == r.spec.p1color.flip
/-- the result has a winner and it is credited to player 1 (the `else` branch) -/
def creditedP1 (r : Result) : Bool := r.winner != .none && !(r.winner == r.spec.p1color.flip)

def isRoadWin (r : Result) : Bool := r.position.winDetails.over && r.position.winDetails.reason == .road
def isFlatWin (r : Result) : Bool := r.position.winDetails.over && r.position.winDetails.reason == .flats
def isTimeWin (r : Result) : Bool := !r.position.winDetails.over

/-! ### `creditWin`, field by field -/

theorem creditWin_wins (ps : PStats) (r : Result) : (creditWin ps r).wins = ps.wins + 1 := by
  unfold creditWin; dsimp only
  cases r.winner <;> cases r.position.winDetails.over <;> cases r.position.winDetails.reason <;> rfl

theorem creditWin_whiteWins (ps : PStats) (r : Result) :
    (creditWin ps r).whiteWins = ps.whiteWins + b2n (r.winner == .white) := by
  unfold creditWin; dsimp only
  cases r.winner <;> cases r.position.winDetails.over <;> cases r.position.winDetails.reason <;> rfl

theorem creditWin_blackWins (ps : PStats) (r : Result) :
    (creditWin ps r).blackWins = ps.blackWins + b2n (r.winner == .black) := by
  unfold creditWin; dsimp only
  cases r.winner <;> cases r.position.winDetails.over <;> cases r.position.winDetails.reason <;> rfl

theorem creditWin_roadWins (ps : PStats) (r : Result) : (creditWin ps r).roadWins = ps.roadWins + b2n (isRoadWin r) := by
  unfold isRoadWin; unfold creditWin; dsimp only
  cases r.winner <;> cases r.position.winDetails.over <;> cases r.position.winDetails.reason <;> rfl

theorem creditWin_flatWins (ps : PStats) (r : Result) : (creditWin ps r).flatWins = ps.flatWins + b2n (isFlatWin r) := by
  unfold isFlatWin; unfold creditWin; dsimp only
  cases r.winner <;> cases r.position.winDetails.over <;> cases r.position.winDetails.reason <;> rfl

theorem creditWin_timeWins (ps : PStats) (r : Result) : (creditWin ps r).timeWins = ps.timeWins + b2n (isTimeWin r) := by
  unfold isTimeWin; unfold creditWin; dsimp only
  cases r.winner <;> cases r.position.winDetails.over <;> cases r.position.winDetails.reason <;> rfl

/-- a win has exactly one reason -/
theorem reason_one (r : Result) : b2n (isRoadWin r) + b2n (isFlatWin r) + b2n (isTimeWin r) = 1 := by
  unfold isRoadWin isFlatWin isTimeWin
  cases r.position.winDetails.over <;> cases r.position.winDetails.reason <;> rfl

/-! ### `tally`, field by field -/

theorem tally_p1 (st : Stats) (r : Result) :
    (tally st r).p1 = if creditedP1 r then creditWin st.p1 r else st.p1 := by
  unfold tally creditedP1; dsimp only
  cases r.winner <;> cases r.spec.p1color <;> cases r.position.gameOver.1 <;> rfl

theorem tally_p2 (st : Stats) (r : Result) :
    (tally st r).p2 = if creditedP2 r then creditWin st.p2 r else st.p2 := by
  unfold tally creditedP2; dsimp only
  cases r.winner <;> cases r.spec.p1color <;> cases r.position.gameOver.1 <;> rfl

theorem tally_white (st : Stats) (r : Result) : (tally st r).white = st.white + b2n (r.winner == .white) := by
  unfold tally; dsimp only
  cases r.winner <;> cases r.spec.p1color <;> cases r.position.gameOver.1 <;> rfl

theorem tally_black (st : Stats) (r : Result) : (tally st r).black = st.black + b2n (r.winner == .black) := by
  unfold tally; dsimp only
  cases r.winner <;> cases r.spec.p1color <;> cases r.position.gameOver.1 <;> rfl

theorem tally_ties (st : Stats) (r : Result) :
    (tally st r).ties = st.ties + b2n (r.winner == .none && r.position.gameOver.1) := by
  unfold tally; dsimp only
  cases r.winner <;> cases r.spec.p1color <;> cases r.position.gameOver.1 <;> rfl

theorem tally_cutoff (st : Stats) (r : Result) :
    (tally st r).cutoff = st.cutoff + b2n (r.winner == .none && !r.position.gameOver.1) := by
  unfold tally; dsimp only
  cases r.winner <;> cases r.spec.p1color <;> cases r.position.gameOver.1 <;> rfl

/-- a result with a winner is credited to exactly one player -/
theorem credited_one (r : Result) :
    b2n (creditedP1 r) + b2n (creditedP2 r) = b2n (r.winner == .white) + b2n (r.winner == .black) := by
  unfold creditedP1 creditedP2
  cases r.winner <;> cases r.spec.p1color <;> rfl

/-- when player 1 has a colour (the specifications `startGames` sends always do), "credited to player 1" is
"the winner is player 1's colour" -/
theorem creditedP1_iff (r : Result) (hc : r.spec.p1color ≠ .none) :
    creditedP1 r = (r.winner != .none && r.winner == r.spec.p1color) := by
  unfold creditedP1
  cases hw : r.winner <;> cases hp : r.spec.p1color <;> first | rfl | exact absurd hp hc

theorem creditedP2_iff (r : Result) (hc : r.spec.p1color ≠ .none) :
    creditedP2 r = (r.winner != .none && r.winner != r.spec.p1color) := by
  unfold creditedP2
  cases hw : r.winner <;> cases hp : r.spec.p1color <;> first | rfl | exact absurd hp hc

/-! ### folding -/

/-- a counter to which every result adds `b2n (g r)` counts the results satisfying `g` -/
theorem foldl_countP (f : Stats → Nat) (g : Result → Bool) (h : ∀ st r, f (tally st r) = f st + b2n (g r)) :
    ∀ (rs : List Result) (st : Stats), f (rs.foldl tally st) = f st + rs.countP g
  | [], st => by simp
  | r :: rs, st => by
    rw [List.foldl_cons, foldl_countP f g h rs, h, List.countP_cons]
    cases g r <;> simp [b2n] <;> omega

/-- an invariant of the accounts holds after any number of results -/
theorem foldl_inv (I : Stats → Prop) (h : ∀ st r, I st → I (tally st r)) :
    ∀ (rs : List Result) (st : Stats), I st → I (rs.foldl tally st)
  | [], _, h0 => h0
  | r :: rs, st, h0 => by rw [List.foldl_cons]; exact foldl_inv I h rs _ (h st r h0)

/-- the identities between the counters -/
structure Balanced (st : Stats) : Prop where
  wins_total : st.p1.wins + st.p2.wins = st.white + st.black
  white_total : st.p1.whiteWins + st.p2.whiteWins = st.white
  black_total : st.p1.blackWins + st.p2.blackWins = st.black
  p1_colours : st.p1.wins = st.p1.whiteWins + st.p1.blackWins
  p2_colours : st.p2.wins = st.p2.whiteWins + st.p2.blackWins
  p1_reasons : st.p1.wins = st.p1.roadWins + st.p1.flatWins + st.p1.timeWins
  p2_reasons : st.p2.wins = st.p2.roadWins + st.p2.flatWins + st.p2.timeWins

theorem Balanced.zero : Balanced {} := by constructor <;> rfl

/-- what a credited player's account gains -/
theorem creditWin_balance (ps : PStats) (r : Result) (hw : r.winner ≠ .none) :
    (creditWin ps r).wins = ps.wins + 1 ∧
    (creditWin ps r).whiteWins + (creditWin ps r).blackWins = ps.whiteWins + ps.blackWins + 1 ∧
    (creditWin ps r).roadWins + (creditWin ps r).flatWins + (creditWin ps r).timeWins =
      ps.roadWins + ps.flatWins + ps.timeWins + 1 := by
  refine ⟨creditWin_wins ps r, ?_, ?_⟩
  · rw [creditWin_whiteWins, creditWin_blackWins]
    have : b2n (r.winner == .white) + b2n (r.winner == .black) = 1 := by
      cases h : r.winner <;> first | rfl | exact absurd h hw
    omega
  · rw [creditWin_roadWins, creditWin_flatWins, creditWin_timeWins]
    have := reason_one r
    omega

theorem credited_winner {r : Result} : creditedP1 r = true ∨ creditedP2 r = true → r.winner ≠ .none := by
  unfold creditedP1 creditedP2
  cases r.winner <;> cases r.spec.p1color <;> simp

theorem not_both (r : Result) : ¬ (creditedP1 r = true ∧ creditedP2 r = true) := by
  unfold creditedP1 creditedP2
  cases r.winner <;> cases r.spec.p1color <;> simp

theorem Balanced.tally {st : Stats} (hb : Balanced st) (r : Result) : Balanced (tally st r) := by
  obtain ⟨h1, h2, h3, h4, h5, h6, h7⟩ := hb
  have hone := credited_one r
  have hnb := not_both r
  have e1 := tally_p1 st r
  have e2 := tally_p2 st r
  have ew := tally_white st r
  have ek := tally_black st r
  have z : b2n false = 0 := rfl
  have o : b2n true = 1 := rfl
  cases c1 : creditedP1 r <;> cases c2 : creditedP2 r
  · -- nobody is credited: no winner
    simp only [c1, c2, Bool.false_eq_true, if_false] at e1 e2
    rw [c1, c2, z] at hone
    constructor <;> simp only [e1, e2, ew, ek] <;> omega
  · -- player 2
    have hw : r.winner ≠ .none := credited_winner (.inr c2)
    obtain ⟨g1, g2, g3⟩ := creditWin_balance st.p2 r hw
    have gw := creditWin_whiteWins st.p2 r
    have gk := creditWin_blackWins st.p2 r
    simp only [c1, c2, Bool.false_eq_true, if_false, if_true] at e1 e2
    rw [c1, c2, z, o] at hone
    constructor <;> simp only [e1, e2, ew, ek] <;> omega
  · -- player 1
    have hw : r.winner ≠ .none := credited_winner (.inl c1)
    obtain ⟨g1, g2, g3⟩ := creditWin_balance st.p1 r hw
    have gw := creditWin_whiteWins st.p1 r
    have gk := creditWin_blackWins st.p1 r
    simp only [c1, c2, Bool.false_eq_true, if_false, if_true] at e1 e2
    rw [c1, c2, z, o] at hone
    constructor <;> simp only [e1, e2, ew, ek] <;> omega
  · exact absurd ⟨c1, c2⟩ hnb

/-! ### the per-player counters as counts of results -/

theorem tally_p1_wins (st : Stats) (r : Result) : (tally st r).p1.wins = st.p1.wins + b2n (creditedP1 r) := by
  rw [tally_p1]
  cases creditedP1 r
  · rfl
  · exact creditWin_wins st.p1 r

theorem tally_p2_wins (st : Stats) (r : Result) : (tally st r).p2.wins = st.p2.wins + b2n (creditedP2 r) := by
  rw [tally_p2]
  cases creditedP2 r
  · rfl
  · exact creditWin_wins st.p2 r

theorem tally_p1_whiteWins (st : Stats) (r : Result) :
    (tally st r).p1.whiteWins = st.p1.whiteWins + b2n (creditedP1 r && r.winner == .white) := by
  rw [tally_p1]
  cases creditedP1 r
  · rfl
  · exact creditWin_whiteWins st.p1 r

theorem tally_p1_blackWins (st : Stats) (r : Result) :
    (tally st r).p1.blackWins = st.p1.blackWins + b2n (creditedP1 r && r.winner == .black) := by
  rw [tally_p1]
  cases creditedP1 r
  · rfl
  · exact creditWin_blackWins st.p1 r

theorem tally_p2_whiteWins (st : Stats) (r : Result) :
    (tally st r).p2.whiteWins = st.p2.whiteWins + b2n (creditedP2 r && r.winner == .white) := by
  rw [tally_p2]
  cases creditedP2 r
  · rfl
  · exact creditWin_whiteWins st.p2 r

theorem tally_p2_blackWins (st : Stats) (r : Result) :
    (tally st r).p2.blackWins = st.p2.blackWins + b2n (creditedP2 r && r.winner == .black) := by
  rw [tally_p2]
  cases creditedP2 r
  · rfl
  · exact creditWin_blackWins st.p2 r

theorem tally_p1_timeWins (st : Stats) (r : Result) :
    (tally st r).p1.timeWins = st.p1.timeWins + b2n (creditedP1 r && isTimeWin r) := by
  rw [tally_p1]
  cases creditedP1 r
  · rfl
  · exact creditWin_timeWins st.p1 r

theorem tally_p2_timeWins (st : Stats) (r : Result) :
    (tally st r).p2.timeWins = st.p2.timeWins + b2n (creditedP2 r && isTimeWin r) := by
  rw [tally_p2]
  cases creditedP2 r
  · rfl
  · exact creditWin_timeWins st.p2 r

/-- with player 1 holding a colour: who is credited with a win of which colour -/
theorem credit_colour (r : Result) (hc : r.spec.p1color ≠ .none) :
    (creditedP1 r && r.winner == .white) = (r.winner == .white && r.spec.p1color == .white) ∧
    (creditedP1 r && r.winner == .black) = (r.winner == .black && r.spec.p1color == .black) ∧
    (creditedP2 r && r.winner == .white) = (r.winner == .white && r.spec.p1color == .black) ∧
    (creditedP2 r && r.winner == .black) = (r.winner == .black && r.spec.p1color == .white) := by
  unfold creditedP1 creditedP2
  cases hw : r.winner <;> cases hp : r.spec.p1color <;> first | exact absurd hp hc | exact ⟨rfl, rfl, rfl, rfl⟩

/-! ### the games `worker` completes are the specified ones, in order -/

theorem gamesOf_colour (c : Config) (pi : Nat) (pos : Pos) : ∀ s ∈ gamesOf c pi pos, s.p1color ≠ .none := by
  intro s hs
  unfold gamesOf at hs
  simp only [List.mem_map] at hs
  obtain ⟨g, _, rfl⟩ := hs
  dsimp only
  split <;> simp

theorem specsFrom_colour (c : Config) : ∀ (ps : List Pos) (pi : Nat), ∀ s ∈ specsFrom c pi ps, s.p1color ≠ .none
  | [], _, s, hs => by simp [specsFrom] at hs
  | pos :: rest, pi, s, hs => by
    simp only [specsFrom, List.mem_append] at hs
    rcases hs with hs | hs
    · exact gamesOf_colour c pi pos s hs
    · exact specsFrom_colour c rest (pi + 1) s hs

/-- every specification `startGames` sends gives player 1 a colour -/
theorem specs_colour (c : Config) : ∀ s ∈ specs c, s.p1color ≠ .none := specsFrom_colour c c.initial 0

/-- the game loop never fails with the "no failure" code -/
theorem gameLoop_ne_ok {σ : Type} (basis : Array W) (P1 P2 : Player σ) (dl : Bool) (sp : Spec) :
    ∀ (fuel : Nat) (s1 s2 : σ) (p : Pos) (tc : Option TEIClient.TimeControl) (ms : List Move)
      (calls : List (Option TEIClient.TimeControl)),
      gameLoop basis P1 P2 dl sp fuel s1 s2 p tc ms calls ≠ .error .ok := by
  intro fuel
  induction fuel with
  | zero => intro s1 s2 p tc ms calls h; simp only [gameLoop] at h; cases h
  | succ fuel ih =>
    intro s1 s2 p tc ms calls h
    simp only [gameLoop] at h
    split at h
    · cases h
    · split at h
      · cases h
      · cases h
      · split at h
        · cases h
        · cases h
        · split at h
          · cases h
          · exact ih _ _ _ _ _ _ h

theorem playGame_ne_ok {σ : Type} (basis : Array W) (c : Config) (P1 P2 : Player σ) (sp : Spec) :
    playGame basis c P1 P2 sp ≠ .error .ok := by
  intro h
  unfold playGame at h
  split at h
  · cases h
  · split at h
    · cases h
    · exact gameLoop_ne_ok basis P1 P2 _ sp _ _ _ _ _ _ _ h

end Tak.CmdSelfplay
