import TakVerif.Proofs.ServeDepth1
import TakVerif.Proofs.PvHeadAnalyze
import TakVerif.Proofs.SearchCancel

/-! The check engine of `Friendly` (`f.check`): what an engine WITHOUT a table reports about a position in which no move
wins at once — for EVERY option set (null move, slide reduction, multi-cut, de-duplication, `MaxEvals`: none of them is
`Precise`), every cancel / sort oracle, every game.

* `pvNode_depth1_le` – a depth-1 root node without a table returns at most `max α B` when `-eval` of every child is
  `≤ B` (the children of a depth-1 node are evaluated: `depth - 1 = 0`, before null move / reductions could apply);
* `analyze_noTable` / `analyze_noWinInOne` – `Analyze` of an engine without a table on a position all of whose children evaluate above
  `-WinThreshold` never reports `v ≥ WinThreshold` with `Stats.Depth ≤ 1`; and the engine still has no table. -/
namespace Search
open Tak (Err)

variable {P M : Type}

section depth1
variable {g : Game P M} {o : Oracle M}

theorem ttProbe_noTable (p : P) (ply : Nat) (depth α β : Int) (s : Eng M) (hs : s.hasTable = false) :
    ttProbe g p ply depth α β s = .ok (.inr none, s) := by
  unfold ttProbe ttGet
  simp only [hs, Bool.not_false, if_true]
  rfl

/-- what the body of the child loop of a depth-1 root leaves when no child evaluates below `-B` -/
def D1Le (B : Int) : Ctl (PvAcc M) (Res M) × Eng M → Prop
  | (.next a', _) => a'.α ≤ B
  | (.brk a', _) => a'.α ≤ B
  | (.ret r, _) => r.1 = none

theorem pvBodyCore_depth1_le [DecidableEq M] {cpv : PvFn P M} {czw : ZwFn P M} (hp : LeafPv g cpv) (hz : LeafZw g czw)
    (p : P) (B : Int) (hev : ∀ m c, g.apply p m = .ok c → -(g.eval c) ≤ B) (ply : Nat) (β : Int)
    (m : M) (c : P) (a : PvAcc M) (s : Eng M) (hap : g.apply p m = .ok c) (hI : a.α ≤ B) :
    Sat (pvBodyCore o cpv czw ply 1 β m c a s) (D1Le B) := by
  unfold pvBodyCore
  apply Sat.bind
  intro sm _
  apply Sat.bind
  refine (pvChild_leaf (Q := fun _ => True) hp hz _ c ply _ _ β _ (fun _ _ _ => trivial)).mono ?_
  rintro ⟨⟨ms, v⟩, s'⟩ ⟨_, hv⟩
  dsimp only at hv ⊢
  have hvc : -v ≤ B := by rw [hv]; exact hev m c hap
  split
  · apply Sat.bind
    intro pv0 _
    split
    · apply Sat.bind
      intro s2 _
      exact Sat.pure hvc
    · refine Sat.pure ?_
      unfold afterChild
      dsimp only
      split
      · exact rfl
      · exact hvc
  · refine Sat.pure ?_
    unfold afterChild
    dsimp only
    split
    · exact rfl
    · exact hI

/-- the body of the child loop of a depth-1 root keeps `α ≤ B` when no child evaluates below `-B` -/
theorem pvBody_depth1_le [DecidableEq M] {cpv : PvFn P M} {czw : ZwFn P M} (hp : LeafPv g cpv) (hz : LeafZw g czw)
    (p : P) (B : Int) (hev : ∀ m c, g.apply p m = .ok c → -(g.eval c) ≤ B) (ply : Nat) (β : Int) (dedup : Bool) :
    BodyOK g p (pvBody g o cpv czw ply 1 β dedup) (fun a _ => a.α ≤ B) (fun _ _ => True)
      (fun a _ => a.α ≤ B) (fun (r : Res M) _ => r.1 = none) := by
  intro m c a s hap hI
  rw [pvBody_eq]
  split
  · exact Sat.pure ⟨hI, fun _ h => h, fun _ _ => trivial⟩
  · have hcore := pvBodyCore_depth1_le (o := o) hp hz p B hev ply β m c
      (if dedup = true then { a with seen := a.seen ++ g.symHashes c } else a) s hap
      (by split <;> exact hI)
    refine hcore.mono ?_
    rintro ⟨ctl, s'⟩ hpost
    cases ctl with
    | next a' => exact ⟨hpost, fun _ h => h, fun _ _ => trivial⟩
    | brk a' => exact hpost
    | ret r => exact hpost

/-- **a depth-1 root without a table**: when it returns a PV, its value is at most `B`, for `α ≤ B` and `-eval c ≤ B`
for every child `c` — every option set, every oracle, any PV hint and stale buffers -/
theorem pvNode_depth1_le [DecidableEq M] (cfg : SOpts) {cpv : PvFn P M} {czw : ZwFn P M}
    (hp : LeafPv g cpv) (hz : LeafZw g czw) (p : P) (B : Int)
    (hev : ∀ m c, g.apply p m = .ok c → -(g.eval c) ≤ B) (α β : Int) (hα : α ≤ B) (ply : Nat) (pv : List M)
    (s : Eng M) (hs : s.hasTable = false) :
    Sat (pvNode g cfg o true cpv czw p ply 1 pv α β s) (fun r => ∀ l, r.1.1 = some l → r.1.2 ≤ B) := by
  unfold pvNode
  dsimp only
  split
  · exact Sat.pure (fun l hl => by cases hl)
  · split
    · exact Sat.throw
    · apply Sat.bind
      rw [ttProbe_noTable _ _ _ _ _ _ (by exact hs)]
      apply Sat.ok
      dsimp only
      apply Sat.bind
      rintro ⟨best, s2⟩ _
      dsimp only
      apply Sat.bind
      have hI0 : (fun (a : PvAcc M) (_ : Eng M) => a.α ≤ B) (⟨α, best, false, 0, []⟩ : PvAcc M) s2 := hα
      refine (iterate_inv (pvBody_depth1_le (o := o) hp hz p B hev ply β _) cfg o ⟨ply, 1, none, pv⟩
        (fun _ _ _ h => h) _ s2 hI0).mono ?_
      rintro ⟨c, s3⟩ hc
      dsimp only
      have hfin : ∀ a : PvAcc M, a.α ≤ B →
          Sat (pvStore o (g.hash p) 1 β a s3) (fun r => ∀ l, r.1.1 = some l → r.1.2 ≤ B) := by
        intro a ha
        refine (pvStore_fst (g.hash p) 1 β a s3).mono ?_
        intro r hr l _
        rw [hr]; exact ha
      cases c with
      | ret r =>
        refine Sat.pure (fun l hl => ?_)
        have : r.1 = none := hc
        rw [this] at hl; cases hl
      | brk a => exact hfin a hc
      | next a => exact hfin a hc.1

/-- `pvNode_depth1_le` for the root search of `Analyze`, with what every search keeps (`Stats.Depth`, no table) -/
theorem pvSearch_depth1_le [DecidableEq M] (cfg : SOpts) (p : P) (B : Int)
    (hev : ∀ m c, g.apply p m = .ok c → -(g.eval c) ≤ B) (α β : Int) (hα : α ≤ B) (pv : List M)
    (s : Eng M) (hs : s.hasTable = false) :
    Sat (pvSearch g cfg o 0 p 1 pv α β s) (fun r => ∀ l, r.1.1 = some l → r.1.2 ≤ B) := by
  have h15 : Facts.maxDepth - 0 = 14 + 1 := rfl
  unfold pvSearch
  rw [h15, search_succ]
  exact pvNode_depth1_le cfg (search_leaf g cfg o 14).1 (search_leaf g cfg o 14).2 p B hev α β hα 0 pv s hs

/-- every root search keeps `Stats.Depth` of the running statistics and the absence of a table -/
theorem pvSearch_keeps [DecidableEq M] (cfg : SOpts) (p : P) (depth : Int) (pv : List M) (α β : Int) (s : Eng M) :
    Sat (pvSearch g cfg o 0 p depth pv α β s) (fun r => r.2.st.depth = s.st.depth ∧ r.2.hasTable = s.hasTable) := by
  intro r hr
  obtain ⟨res, s'⟩ := r
  obtain ⟨_, _, hd, hh, _⟩ := (search_loc (o := o) g cfg (Facts.maxDepth - 0)).1 p 0 depth pv α β s res s' hr
  exact ⟨hd, hh⟩

end depth1

/-! ### `Analyze` on a position without a win in one -/

section analyze
variable {g : Game P M} {o : Oracle M}

/-- no move wins at once: every child evaluates above `-WinThreshold` for its side to move -/
def NoWinInOne (g : Game P M) (p : P) : Prop := ∀ m c, g.apply p m = .ok c → -(g.eval c) < Facts.winThreshold

/-- the loop state of `Analyze` does not claim a win found at depth ≤ 1 -/
def NoClaim (a : ALoop M) : Prop := a.v < Facts.winThreshold ∨ 2 ≤ a.st.depth

/-- how one iteration ends (no table, `base = 0`); `W`: "no move wins at once" is known -/
def StepNC (W : Prop) : AOut M → Prop
  | .cancelled s' => s'.hasTable = false
  | .done a' s' => s'.hasTable = false ∧ (W → NoClaim a')
  | .go a' s' => s'.hasTable = false ∧ (W → NoClaim a')

theorem analyzeStep_noClaim [DecidableEq M] (cfg : Cfg) (p : P) (W : Prop) (hp : W → NoWinInOne g p) (i : Int)
    (hi : 1 ≤ i) (a : ALoop M) (s : Eng M) (hs : s.hasTable = false) :
    Sat (analyzeStep g cfg o p 0 i a s) (StepNC W) := by
  unfold analyzeStep
  have hs' : ({ s with st := { depth := i + 0 } } : Eng M).hasTable = false := hs
  have hkeep := pvSearch_keeps (g := g) (o := o) cfg.opts p (i + 0) a.ms (Facts.minEval - 1) (Facts.maxEval + 1)
    { s with st := { depth := i + 0 } }
  cases hr : pvSearch g cfg.opts o 0 p (i + 0) a.ms (Facts.minEval - 1) (Facts.maxEval + 1)
      { s with st := { depth := i + 0 } } with
  | error e => exact Sat.error
  | ok r =>
    obtain ⟨hd, hh⟩ := hkeep r hr
    have hh' : r.2.hasTable = false := by rw [hh]; exact hs
    have hd' : r.2.st.depth = i := by rw [hd]; show i + 0 = i; omega
    refine Sat.ok ?_
    unfold iterEnd
    cases hn : r.1.1 with
    | none => exact hh'
    | some next =>
      dsimp only
      by_cases hl : (load o r.2).1 = true
      · rw [if_pos hl]; exact hh'
      · rw [if_neg hl]
        have hnc : W → NoClaim (iterAcc i a next r.1.2 (load o r.2).2) := by
          intro hw
          by_cases h1 : i = 1
          · left
            show r.1.2 < Facts.winThreshold
            subst h1
            have hle := pvSearch_depth1_le (g := g) (o := o) cfg.opts p (Facts.winThreshold - 1)
              (fun m c h => by have := hp hw m c h; omega) (Facts.minEval - 1) (Facts.maxEval + 1) (by decide) a.ms
              { s with st := { depth := 1 + 0 } } hs'
            have := hle r hr next hn
            omega
          · right
            show 2 ≤ r.2.st.depth
            omega
        rcases iterDone_cases cfg 0 i a next r.1.2 (load o r.2).2 with h | h <;> rw [h]
        · exact ⟨hh', hnc⟩
        · exact ⟨hh', hnc⟩

theorem analyzeLoop_noClaim [DecidableEq M] (cfg : Cfg) (p : P) (W : Prop) (hp : W → NoWinInOne g p) :
    ∀ (n : Nat) (i : Int) (a : ALoop M) (s : Eng M), 1 ≤ i → s.hasTable = false → (W → NoClaim a) →
      Sat (analyzeLoop g cfg o p 0 n i a s) (fun x => x.2.hasTable = false ∧ (W → NoClaim x.1)) := by
  intro n
  induction n with
  | zero => intro i a s _ hs ha; exact Sat.ok ⟨hs, ha⟩
  | succ n ih =>
    intro i a s hi hs ha
    simp only [analyzeLoop]
    split
    · exact Sat.ok ⟨hs, ha⟩
    · have hst := analyzeStep_noClaim (g := g) (o := o) cfg p W hp i hi a s hs
      cases hr : analyzeStep g cfg o p 0 i a s with
      | error e => exact Sat.error
      | ok out =>
        have h := hst out hr
        cases out with
        | cancelled s' => exact Sat.ok ⟨h, ha⟩
        | done a' s' => exact Sat.ok h
        | go a' s' => exact ih (i + 1) a' s' (by omega) h.1 h.2

/-- **`analyze_noTable`** — an engine without a table, ANY configuration (depth, null move, slide reduction, multi-cut,
de-duplication, `MaxEvals`), any cancel / sort / random oracle, any stale buffers: `Analyze` leaves it without a table,
and **on a position in which no move wins at once it does not report a value `≥ WinThreshold` together with
`Stats.Depth ≤ 1`**. -/
theorem analyze_noTable [DecidableEq M] (cfg : Cfg) (p : P) (s : Eng M) (hs : s.hasTable = false) :
    Sat (analyze g cfg o p s) (fun x => x.2.hasTable = false ∧
      (NoWinInOne g p → ¬ (x.1.2.1 ≥ Facts.winThreshold ∧ x.1.2.2.depth ≤ 1))) := by
  unfold analyze
  have hget : ttGet { s with loads := 0, evals := 0, sorts := 0, rnds := 0, wlog := [] } (g.hash p) = .ok none := by
    unfold ttGet
    simp only [hs, Bool.not_false, if_true]
  rw [hget]
  show Sat (analyzeFrom g cfg o p (seedOf none) _) _
  unfold analyzeFrom seedOf
  dsimp only
  have hl := analyzeLoop_noClaim (g := g) (o := o) cfg p (NoWinInOne g p) id (cfg.depth - 0).toNat 1
    ⟨[], 0, { depth := 0 }, 0, 0⟩ { s with loads := 0, evals := 0, sorts := 0, rnds := 0, wlog := [] }
    (by omega) hs (fun _ => Or.inl (show (0 : Int) < Facts.winThreshold by decide))
  cases hr : analyzeLoop g cfg o p 0 (cfg.depth - 0).toNat 1 ⟨[], 0, { depth := 0 }, 0, 0⟩
      { s with loads := 0, evals := 0, sorts := 0, rnds := 0, wlog := [] } with
  | error e => exact Sat.error
  | ok x =>
    obtain ⟨a', s'⟩ := x
    obtain ⟨h1, h2⟩ := hl _ hr
    have h1' : s'.hasTable = false := h1
    refine Sat.ok ⟨h1', ?_⟩
    rintro hw ⟨hv, hd⟩
    have h2' : a'.v < Facts.winThreshold ∨ 2 ≤ a'.st.depth := h2 hw
    have hv' : a'.v ≥ Facts.winThreshold := hv
    have hd' : a'.st.depth ≤ 1 := hd
    omega

/-- `analyze_noTable`, the second part alone -/
theorem analyze_noWinInOne [DecidableEq M] (cfg : Cfg) (p : P) (hp : NoWinInOne g p) (s : Eng M)
    (hs : s.hasTable = false) :
    Sat (analyze g cfg o p s) (fun x => x.2.hasTable = false ∧ ¬ (x.1.2.1 ≥ Facts.winThreshold ∧ x.1.2.2.depth ≤ 1)) :=
  (analyze_noTable cfg p s hs).mono (fun _ h => ⟨h.1, h.2 hp⟩)

end analyze
end Search
