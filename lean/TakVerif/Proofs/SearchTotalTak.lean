import TakVerif.Proofs.SearchTotalAnalyze
import TakVerif.Proofs.AllMovesOnBoard
import TakVerif.Props.C01_closed
import TakVerif.Props.C04_pv

/-! # The totality hypotheses (`TGame`) hold for Tak

* `apply_height_size` – `MovePreallocated` never changes `len(p.Height)` (any position, any raw move).
* `takReduceSlide_total` – the slide-reduction test of `zwSearch` indexes inside `p.Height` when the previous move is
  the zero move, the pass, or on the board of the position's size (`Proofs.OnBoard`, what `AllMoves` generates).
* `tGame_tak` – `TGame (takGame …) o (QTak n) (NTak n)` for `n ≤ 8`: `QTak n` = the zero move, the pass, or an on-board move of
  an `n×n` board; `NTak n` = positions of board size `n` whose `Height` array has `n²` elements.  No well-formedness
  of the board content is needed: C01's `move_total_closed` covers every position and every raw move. -/
namespace Tak

theorem setStack_height_size (basis : Array W) (p : Pos) (i : Nat) (s : W) (h : U8) :
    (p.setStack basis i s h).height.size = p.height.size := by
  simp [Pos.setStack]

theorem finish_height {p q : Pos} (h : finish p = .ok q) : q.height = p.height := by rw [finish_ok h]

theorem enterSquare_height {next q : Pos} {top : Piece} {ct i : Nat}
    (h : enterSquare next top ct i = .ok q) : q.height = next.height := by
  unfold enterSquare at h
  split at h
  · cases h
  · split at h
    · split at h
      · cases h
      · cases h; rfl
    · cases h; rfl

theorem dropOn_height_size (basis : Array W) (next : Pos) (top : Piece) (stack : W) (ct c i : Nat) :
    (dropOn basis next top stack ct c i).height.size = next.height.size := by
  rw [dropOn_eq]
  simp [Pos.setStack]

theorem liftFrom_height_size (basis : Array W) (next : Pos) (stack : W) (h ct i : Nat) :
    (liftFrom basis next stack h ct i).height.size = next.height.size := by
  rw [liftFrom_eq]
  simp [Pos.setStack]

theorem slideStep_height_size {basis : Array W} {p : Pos} {top : Piece} {stack : W} {dx dy : Int} {st st' : SlideSt}
    {c : Nat} (h : slideStep basis p top stack dx dy st c = .ok st') : st'.next.height.size = st.next.height.size := by
  unfold slideStep at h
  dsimp only at h
  split at h
  · cases h
  split at h
  · cases h
  split at h
  · cases h
  · rename_i next he
    cases h
    dsimp only
    rw [dropOn_height_size, enterSquare_height he]

theorem slideLoop_height_size {basis : Array W} {p : Pos} {top : Piece} {stack : W} {dx dy : Int} (drops : List Nat)
    {st st' : SlideSt} (h : slideLoop basis p top stack dx dy drops st = .ok st') :
    st'.next.height.size = st.next.height.size := by
  induction drops generalizing st with
  | nil => simp only [slideLoop] at h; cases h; rfl
  | cons c cs ih =>
    simp only [slideLoop] at h
    split at h
    · cases h
    · rename_i st1 h1
      rw [ih h, slideStep_height_size h1]

/-- **`MovePreallocated` keeps `len(p.Height)`** — every position, every raw move -/
theorem apply_height_size {basis : Array W} {p q : Pos} {m : Move} (h : Pos.apply basis p m = .ok q) :
    q.height.size = p.height.size := by
  unfold Pos.apply at h
  dsimp only at h
  split at h
  · rw [finish_height h]
  split at h
  · cases h
  split at h
  · cases h
  split at h
  · cases h
  split at h
  · rw [placeOn_eq] at h
    split at h
    · cases h
    split at h
    · cases h
    · rw [finish_height h]
      simp [placed]
  · unfold slideFrom at h
    dsimp only at h
    split at h
    · cases h
    split at h
    · cases h
    split at h
    · cases h
    split at h
    · cases h
    split at h
    · cases h
    split at h
    · cases h
    · rename_i st hst
      rw [finish_height h, slideLoop_height_size _ hst]
      dsimp only
      rw [liftFrom_height_size]

end Tak

namespace Search
open Tak Tak.Proofs

/-- the move values the engine ever handles on an `n×n` board: `tak.Move{}`, the null-move pass, or a move on the board
(origin and destination inside, a placement or slide type code) — what `AllMoves` generates (`allMoves_onboard'`) -/
def QTak (n : Nat) (m : Move) : Prop :=
  m = ⟨0, 0, 0, 0#32⟩ ∨ m = ⟨0, 0, Facts.mtPass, 0#32⟩ ∨ OnBoard n m

/-- the positions the totality proof runs on: board size `n`, `len(Height) = n²` -/
def NTak (n : Nat) (p : Pos) : Prop := p.cfg.size = n ∧ p.height.size = n * n

theorem nTak_apply {basis : Array W} {n : Nat} {p c : Pos} {m : Move} (hp : NTak n p) (h : p.apply basis m = .ok c) :
    NTak n c := by
  refine ⟨?_, ?_⟩
  · rw [apply_cfg h]; exact hp.1
  · rw [apply_height_size h]; exact hp.2

theorem idx_lt (n : Nat) (x y : Int) (hx0 : 0 ≤ x) (hx : x < n) (hy0 : 0 ≤ y) (hy : y < n) (h8 : n ≤ 8) :
    wrap8 (x + wrap8 (y * (n : Int))) = x + y * n ∧ 0 ≤ x + y * (n : Int) ∧ (x + y * (n : Int)).toNat < n * n := by
  have hyn : y * (n : Int) ≤ ((n : Int) - 1) * n := Int.mul_le_mul_of_nonneg_right (by omega) (by omega)
  have hyn0 : 0 ≤ y * (n : Int) := Int.mul_nonneg hy0 (by omega)
  have hnn : ((n : Int) - 1) * n = (n : Int) * n - n := by rw [Int.sub_mul, Int.one_mul]
  have hn8 : (n : Int) * n ≤ 64 := by
    have : (n : Int) * n ≤ 8 * 8 := Int.mul_le_mul (by omega) (by omega) (by omega) (by omega)
    omega
  have h1 : wrap8 (y * (n : Int)) = y * n := wrap8_small _ hyn0 (by omega)
  rw [h1, wrap8_small _ (by omega) (by omega)]
  refine ⟨rfl, by omega, ?_⟩
  have hc : ((n * n : Nat) : Int) = (n : Int) * n := by push_cast; rfl
  omega

/-- **the slide-reduction test does not panic** on a position of `NTak n` for a `QTak n` previous move -/
theorem takReduceSlide_total (n : Nat) (h8 : n ≤ 8) (p : Pos) (m : Move) (hp : NTak n p) (hm : QTak n m) :
    ∃ b, takReduceSlide m p = .ok b := by
  unfold takReduceSlide
  rcases hm with rfl | rfl | hob
  · exact ⟨false, by rw [if_pos (by decide)]⟩
  · exact ⟨false, by rw [if_pos (by decide)]⟩
  · split
    · exact ⟨_, rfl⟩
    · obtain ⟨hx0, hx, hy0, hy, _, dx, dy, hdest, hdx0, hdx, hdy0, hdy⟩ := hob
      dsimp only
      rw [hdest]
      dsimp only
      rw [hp.1]
      obtain ⟨e1, g1, l1⟩ := idx_lt n m.x m.y hx0 hx hy0 hy h8
      obtain ⟨e2, g2, l2⟩ := idx_lt n dx dy hdx0 hdx hdy0 hdy h8
      rw [e1, e2]
      rw [if_neg (by omega)]
      obtain ⟨hi, hs1⟩ : ∃ hi, p.height[(m.x + m.y * (n : Int)).toNat]? = some hi :=
        ⟨_, Array.getElem?_eq_getElem (by rw [hp.2]; exact l1)⟩
      obtain ⟨hj, hs2⟩ : ∃ hj, p.height[(dx + dy * (n : Int)).toNat]? = some hj :=
        ⟨_, Array.getElem?_eq_getElem (by rw [hp.2]; exact l2)⟩
      rw [hs1, hs2]
      exact ⟨_, rfl⟩

/-- **the totality hypotheses hold for Tak** on boards up to 8×8, any evaluator, any symmetry-hash function, any
oracle whose `sort.Sort` returns moves of the list it was given -/
theorem tGame_tak (basis : Array W) (ev : Pos → Int) (sym : Pos → List H) (n : Nat) (h8 : n ≤ 8) {o : Oracle Move}
    (ho : C04.OrderSub o) : TGame (takGame basis ev sym) o (QTak n) (NTak n) where
  gen := by
    intro p hp m hm
    have := allMoves_onboard' p (by rw [hp.1]; exact h8) m hm
    rw [hp.1] at this
    exact Or.inr (Or.inr this)
  ord := fun k l x hl hx => hl x (ho k l x hx)
  closed := fun p m c hp h => nTak_apply hp h
  applyT := fun p m _ _ => C01.move_total_closed basis p m
  red := fun p m hp hm => takReduceSlide_total n h8 p m hp hm
  pass := Or.inr (Or.inl rfl)

end Search
