import TakVerif.Proofs.DFPNMid

/-! `DFPNSolver.Prove` (`proveWith`, `Impl/DFPN.lean`): a solver whose table is sound for attacker `att`
stays so, and its verdicts are sound — `proven` always, `disproven` while the ghost flag is down. -/
namespace C06
open Tak Tak.PN Tak.DFPN Spec.Game

variable {S M : Type} {G : Game S M} {hash : S → UInt64} {threats : S → Bool × Bool} {att : Color}

/-- a solver between two calls of `Prove`: its attacker is `att` or not yet fixed, its table is sound
for `att` -/
structure SolverOK (G : Game S M) (hash : S → UInt64) (att : Color) (two : Bool) (Dom : S → Prop)
    (d : Solver M) : Prop where
  attacker : d.attacker = att ∨ d.attacker = .none
  table : TableOK G hash att two Dom d.st

theorem slot_new (a : Color) (entries i : Nat) : ((newSolver a entries : Solver M).st).slot i = zeroEntry := by
  simp [newSolver, St.slot]

/-- `NewDFPN`: the empty table is sound (no unfinished position hashes to 0) -/
theorem newSolver_ok {two : Bool} {Dom : S → Prop} (hk : DfpnOK G hash threats att two Dom) (a : Color)
    (ha : a = att ∨ a = .none) (entries : Nat) : SolverOK G hash att two Dom (newSolver a entries : Solver M) := by
  refine ⟨ha, ?_⟩
  intro i p hp ho hh
  rw [slot_new] at hh
  exact absurd hh (hk.hashNZ p hp ho)

theorem root_eok (clean : Bool) (g : S) : EOK G att clean g { phi := 1, delta := 1 } := by
  have h10 : (1 : UInt32) ≠ 0 := by decide
  refine ⟨⟨(by decide : (1 : UInt32).toNat ≤ 2 ^ 30), fun h => absurd h h10, fun h => absurd h h10⟩, ?_, ?_, ?_, ?_⟩
  · intro _ h; exact absurd h h10
  · intro _ h; exact absurd h h10
  · intro _ _ h; exact absurd h h10
  · intro _ _ h; exact absurd h h10

/-- the verdict of `Prove` from the attacker's proof and disproof numbers -/
def verdict (proof disproof : UInt32) : Eval :=
  if proof == 0 then .proven else if disproof == 0 then .disproven else .unknown

theorem verdict_proven (p d : UInt32) (h : verdict p d = .proven) : p = 0 := by
  unfold verdict at h
  by_cases hp : p = 0
  · exact hp
  · by_cases hd : d = 0 <;> simp [hp, hd] at h

theorem verdict_disproven (p d : UInt32) (h : verdict p d = .disproven) : d = 0 := by
  unfold verdict at h
  by_cases hp : p = 0
  · simp [hp] at h
  · by_cases hd : d = 0
    · exact hd
    · simp [hp, hd] at h

variable [DecidableEq M] (scale : UInt32 → UInt32)

/-- the attacker a call of `Prove` works for -/
def effAttacker (G : Game S M) (d : Solver M) (g : S) : Color :=
  if d.attacker == .none then G.toMove g else d.attacker

/-- the search part of `proveWith` -/
def rootSearch (G : Game S M) (hash : S → UInt64) (threats : S → Bool × Bool) (scale : UInt32 → UInt32)
    (fuel : Nat) (d : Solver M) (g : S) : Except Err (St M × Entry M × UInt64) :=
  let attacker := effAttacker G d g
  let st : St M := { d.st with stats := {} }
  let root : Entry M := { hash := hash g, work := 0, bounds := { phi := 1, delta := 1 }, pv := none }
  match G.over g with
  | some result => .ok (st, { root with bounds := terminalBounds G attacker g result }, 0)
  | none => mid G hash threats scale attacker fuel st [] g { phi := DFPN.infinity / 2, delta := DFPN.infinity / 2 } root

/-- `proveWith` = `rootSearch`, then read the verdict off the root entry -/
theorem proveWith_eq (fuel : Nat) (d : Solver M) (g : S) :
    proveWith G hash threats scale fuel d g =
      match rootSearch G hash threats scale fuel d g with
      | .error e => .error e
      | .ok (st, entry, work) =>
        let attacker := effAttacker G d g
        let (proof, disproof) :=
          if attacker != G.toMove g then (entry.bounds.delta, entry.bounds.phi) else (entry.bounds.phi, entry.bounds.delta)
        let result : Eval := if proof == 0 then .proven else if disproof == 0 then .disproven else .unknown
        .ok ({ result := result, move := entry.pv, proof := proof, disproof := disproof },
             { st.stats with work := work }, { attacker := attacker, st := st }) := rfl

theorem effAttacker_eq {two : Bool} {Dom : S → Prop} {d : Solver M} (hd : SolverOK G hash att two Dom d)
    (hatt : att ≠ .none) {g : S} (hlatch : d.attacker = .none → G.toMove g = att) : effAttacker G d g = att := by
  unfold effAttacker
  rcases hd.attacker with h | h
  · rw [h]
    have : (att == Color.none) = false := by simpa using hatt
    rw [this]; rfl
  · rw [h]; exact hlatch h

theorem rootSearch_ok {two : Bool} {Dom : S → Prop} (hk : DfpnOK G hash threats att two Dom) (fuel : Nat)
    {d : Solver M} {g : S} (hd : SolverOK G hash att two Dom d) (hg : Dom g)
    (hlatch : d.attacker = .none → G.toMove g = att) {st : St M} {e : Entry M} {w : UInt64}
    (hrun : rootSearch G hash threats scale fuel d g = .ok (st, e, w)) :
    TableOK G hash att two Dom st ∧ (d.st.ghostRep = true → st.ghostRep = true) ∧
      EOK G att (cleanOf two st) g e.bounds ∧ PvGood G att g e := by
  have hatt : att ≠ .none := by rcases hk.attWB with h | h <;> rw [h] <;> decide
  have heff := effAttacker_eq hd hatt hlatch
  unfold rootSearch at hrun
  rw [heff] at hrun
  have ht0 : TableOK G hash att two Dom ({ d.st with stats := {} } : St M) := hd.table.congr rfl rfl
  simp only at hrun
  split at hrun
  · rename_i r hor
    simp only [Except.ok.injEq, Prod.mk.injEq] at hrun
    obtain ⟨rfl, rfl, _⟩ := hrun
    exact ⟨ht0, fun h => h, terminal_eok hk.alt hk.attWB _ hor, fun _ _ m hm => by cases hm⟩
  · rename_i hor
    obtain ⟨post, hpv⟩ := (mid_loop_ok scale hk fuel).1 _ [] g _ _ st e w hg hor ht0 rfl (root_eok _ g) (by decide) hrun
    exact ⟨post.table, post.ghost, post.eok, hpv rfl⟩

/-- **one call of `Prove`**: the solver stays sound with its attacker now fixed to `att`, the ghost flag
only rises, `proven` is a forced win and — with the flag down after the call — `disproven` excludes one. -/
theorem proveWith_ok {two : Bool} {Dom : S → Prop} (hk : DfpnOK G hash threats att two Dom) (fuel : Nat)
    {d d' : Solver M} {g : S} (hd : SolverOK G hash att two Dom d) (hg : Dom g)
    (hlatch : d.attacker = .none → G.toMove g = att) {r : DFPN.Result M} {s : DFPN.Stats}
    (hrun : proveWith G hash threats scale fuel d g = .ok (r, s, d')) :
    SolverOK G hash att two Dom d' ∧ d'.attacker = att ∧
    (d.st.ghostRep = true → d'.st.ghostRep = true) ∧
    (r.result = .proven → PlainWin G att g) ∧
    (r.result = .proven → G.toMove g = att → ∀ m, r.move = some m →
      m ∈ G.moves g ∧ ∃ s', G.apply g m = some s' ∧ PlainWin G att s') ∧
    (two = true → d'.st.ghostRep = false → r.result = .disproven → ¬ PlainWin G att g) := by
  have hatt : att ≠ .none := by rcases hk.attWB with h | h <;> rw [h] <;> decide
  have heff := effAttacker_eq hd hatt hlatch
  rw [proveWith_eq] at hrun
  split at hrun
  · cases hrun
  · rename_i st e w hroot
    obtain ⟨ht, hgh, ⟨_, h1, h2, h3, h4⟩, hpv⟩ := rootSearch_ok scale hk fuel hd hg hlatch hroot
    rw [heff] at hrun
    simp only [Except.ok.injEq, Prod.mk.injEq] at hrun
    obtain ⟨rfl, _, rfl⟩ := hrun
    refine ⟨⟨Or.inl rfl, ht⟩, rfl, hgh, ?_, ?_, ?_⟩
    · by_cases htm : G.toMove g = att
      · have : (att != G.toMove g) = false := by simp [htm]
        simp only [this, Bool.false_eq_true, if_false]
        intro hres
        exact h1 htm (verdict_proven _ _ hres)
      · have : (att != G.toMove g) = true := by simp [Ne.symm htm]
        simp only [this, if_true]
        intro hres
        exact h2 htm (verdict_proven _ _ hres)
    · intro hres htm
      have : (att != G.toMove g) = false := by simp [htm]
      simp only [this, Bool.false_eq_true, if_false] at hres
      exact hpv htm (verdict_proven _ _ hres)
    · intro htwo hclean
      have hclean' : st.ghostRep = false := hclean
      have hcl : cleanOf two st = true := by simp [cleanOf, htwo, hclean']
      by_cases htm : G.toMove g = att
      · have : (att != G.toMove g) = false := by simp [htm]
        simp only [this, Bool.false_eq_true, if_false]
        intro hres
        exact h3 hcl htm (verdict_disproven _ _ hres)
      · have : (att != G.toMove g) = true := by simp [Ne.symm htm]
        simp only [this, if_true]
        intro hres
        exact h4 hcl htm (verdict_disproven _ _ hres)

end C06
