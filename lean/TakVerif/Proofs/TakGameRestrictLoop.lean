import TakVerif.Proofs.TakGameRestrict

/-! Simulation of the move-generator loop (`tryMove`, `runList`, the stages of `iterate`) and of the table probe
between a game and its restriction: from a position of the domain, with hints inside `IM`, both run the same. -/
namespace Search
open Tak (Err)

variable {P M σ ρ : Type}

section
variable {g : Game P M} {S : Nat → P → Prop} {IM : M → Prop}

/-- what a loop leaves behind: a good engine state and an accumulator / return value satisfying `A` / `R` -/
def CtlGood (IM : M → Prop) (A : σ → Prop) (R : ρ → Prop) (x : Ctl σ ρ × Eng M) : Prop :=
  EngGood IM x.2 ∧
  match x.1 with
  | .next a => A a
  | .brk a => A a
  | .ret r => R r

/-- the two loop bodies agree on the legal pairs they can be handed at a position of rank `k + 1` -/
def BodySim (g : Game P M) (S : Nat → P → Prop) (IM : M → Prop) (k : Nat) (A : σ → Prop) (R : ρ → Prop)
    (body' : M → {p // S 0 p} → σ → Eng M → Except Err (Ctl σ ρ × Eng M))
    (body : M → P → σ → Eng M → Except Err (Ctl σ ρ × Eng M)) : Prop :=
  ∀ (m : M) (c' : {p // S 0 p}) (a : σ) (s : Eng M), IM m → S k c'.val → A a → EngGood IM s →
    Sim (body' m c' a s) (body m c'.val a s) (CtlGood IM A R)

variable {A : σ → Prop} {R : ρ → Prop}
  {body' : M → {p // S 0 p} → σ → Eng M → Except Err (Ctl σ ρ × Eng M)}
  {body : M → P → σ → Eng M → Except Err (Ctl σ ρ × Eng M)}

theorem tryMove_sim (hR : Restr g S IM) {k : Nat} (hb : BodySim g S IM k A R body' body)
    (p' : {p // S 0 p}) (hp : S (k + 1) p'.val) (m : M) (hm : IM m) (a : σ) (s : Eng M) (ha : A a) (hs : EngGood IM s) :
    Sim (tryMove (g.restrict (S 0) IM) p' body' m a s) (tryMove g p'.val body m a s) (CtlGood IM A R) := by
  unfold tryMove
  cases hap : g.apply p'.val m with
  | ok c =>
    have hk : S k c := hR.closed k _ m c hp hm hap
    have h0 : S 0 c := hR.anti_le (Nat.zero_le k) hk
    rw [restrict_apply_ok hm hap h0]
    exact hb m ⟨c, h0⟩ a s hm hk ha hs
  | error e =>
    rw [restrict_apply_error hm hap]
    cases e with
    | illegal w => exact Sim.ok ⟨hs, ha⟩
    | panic w => exact Sim.error
    | hang w => exact Sim.error

theorem andThen_sim {r' r : Except Err (Ctl σ ρ × Eng M)} {k' k : σ → Eng M → Except Err (Ctl σ ρ × Eng M)}
    (h1 : Sim r' r (CtlGood IM A R))
    (h2 : ∀ a s, A a → EngGood IM s → Sim (k' a s) (k a s) (CtlGood IM A R)) :
    Sim (Ctl.andThen r' k') (Ctl.andThen r k) (CtlGood IM A R) := by
  obtain ⟨rfl, hs⟩ := h1
  unfold Ctl.andThen
  cases r' with
  | error e => exact Sim.error
  | ok v =>
    obtain ⟨c, s⟩ := v
    have hv := hs _ rfl
    cases c with
    | next a => exact h2 a s hv.2 hv.1
    | brk a => exact Sim.ok hv
    | ret r => exact Sim.ok hv

theorem runList_sim (hR : Restr g S IM) {k : Nat} (hb : BodySim g S IM k A R body' body)
    (p' : {p // S 0 p}) (hp : S (k + 1) p'.val) (skip : M → Bool) :
    ∀ (ms : List M), (∀ m ∈ ms, IM m) → ∀ (a : σ) (s : Eng M), A a → EngGood IM s →
      Sim (runList (g.restrict (S 0) IM) p' body' skip ms a s) (runList g p'.val body skip ms a s) (CtlGood IM A R) := by
  intro ms
  induction ms with
  | nil => intro _ a s ha hs; exact Sim.ok ⟨hs, ha⟩
  | cons m ms ih =>
    intro hms a s ha hs
    simp only [runList]
    have ih' := ih (fun x hx => hms x (List.mem_cons_of_mem _ hx))
    split
    · exact ih' a s ha hs
    · exact andThen_sim (tryMove_sim hR hb p' hp m (hms m (by simp)) a s ha hs) ih'

/-- the hints of a generator literal are moves of `IM` -/
structure MGGood (IM : M → Prop) (mg : MG M) : Prop where
  te : ∀ e, mg.te = some e → IM e.m
  pv : ∀ m ∈ mg.pv, IM m

theorem respLookup_engGood [DecidableEq M] (ply : Nat) {s : Eng M} (hs : EngGood IM s) :
    Sat (respLookup ply s) (fun r? => ∀ r, r? = some r → IM r) := by
  unfold respLookup
  split
  · exact Sat.ok (fun r h => by cases h)
  · split
    · rename_i prev _
      refine Sat.ok ?_
      intro r hr
      obtain ⟨kv, hkv, e⟩ := respGet_mem _ _ _ hr
      rw [← e]; exact hs.resp kv hkv
    · exact Sat.error

theorem iterate_sim [DecidableEq M] (hR : Restr g S IM) {k : Nat} (hb : BodySim g S IM k A R body' body)
    (cfg : SOpts) (o : Oracle M) (hord : OrderOK o)
    (p' : {p // S 0 p}) (hp : S (k + 1) p'.val) (mg : MG M) (hmg : MGGood IM mg)
    (a : σ) (s : Eng M) (ha : A a) (hs : EngGood IM s) :
    Sim (iterate (g.restrict (S 0) IM) cfg o p' mg body' a s) (iterate g cfg o p'.val mg body a s) (CtlGood IM A R) := by
  unfold iterate
  have h0 : Sim (stage0 (g.restrict (S 0) IM) p' mg body' a s) (stage0 g p'.val mg body a s) (CtlGood IM A R) := by
    unfold stage0
    cases hte : mg.te with
    | none => exact Sim.ok ⟨hs, ha⟩
    | some e => exact tryMove_sim hR hb p' hp e.m (hmg.te e hte) a s ha hs
  have h1 : ∀ a s, A a → EngGood IM s →
      Sim (stage1 (g.restrict (S 0) IM) p' mg body' a s) (stage1 g p'.val mg body a s) (CtlGood IM A R) := by
    intro a s ha hs
    unfold stage1
    cases hpv : mg.pv with
    | nil => exact Sim.ok ⟨hs, ha⟩
    | cons m rest =>
      dsimp only
      have e : mg.isTe (g.restrict (S 0) IM) m = mg.isTe g m := rfl
      rw [e]
      split
      · exact Sim.ok ⟨hs, ha⟩
      · exact tryMove_sim hR hb p' hp m (hmg.pv m (by rw [hpv]; simp)) a s ha hs
  have h3 : ∀ r? a s, A a → EngGood IM s →
      Sim (stage3 (g.restrict (S 0) IM) cfg o p' mg body' r? a s) (stage3 g cfg o p'.val mg body r? a s)
        (CtlGood IM A R) := by
    intro r? a s ha hs
    unfold stage3
    have e1 : (g.restrict (S 0) IM).allMoves p' = g.allMoves p'.val := rfl
    have e2 : skipGen (g.restrict (S 0) IM) mg (r?.getD (g.restrict (S 0) IM).zeroMove) =
        skipGen g mg (r?.getD g.zeroMove) := rfl
    rw [e1, e2]
    dsimp only
    have hgen : ∀ m ∈ g.allMoves p'.val, IM m := hR.gen _ p'.property
    split
    · refine runList_sim hR hb p' hp _ _ ?_ a _ ha (hs.of_eq rfl rfl rfl)
      intro m hm
      exact hgen m ((hord _ _ _).mp hm)
    · exact runList_sim hR hb p' hp _ _ hgen a s ha hs
  have h23 : ∀ a s, A a → EngGood IM s →
      Sim (stage23 (g.restrict (S 0) IM) cfg o p' mg body' a s) (stage23 g cfg o p'.val mg body a s)
        (CtlGood IM A R) := by
    intro a s ha hs
    unfold stage23
    have hl := respLookup_engGood mg.ply hs
    cases hr : respLookup mg.ply s with
    | error e => exact Sim.error
    | ok r? =>
      dsimp only
      refine andThen_sim ?_ (h3 r?)
      cases r? with
      | none => exact Sim.ok ⟨hs, ha⟩
      | some r => exact tryMove_sim hR hb p' hp r (hl _ hr r rfl) a s ha hs
  exact andThen_sim (andThen_sim h0 h1) h23

/-- the table probe: the same on both sides; a shortcut result carries the entry's move, a hint entry is good -/
theorem ttProbe_sim (hR : Restr g S IM) (p' : {p // S 0 p}) {k : Nat} (hp : S (k + 1) p'.val)
    (ply : Nat) (depth α β : Int) (s : Eng M) (hs : EngGood IM s) :
    Sim (ttProbe (g.restrict (S 0) IM) p' ply depth α β s) (ttProbe g p'.val ply depth α β s)
      (fun x => EngGood IM x.2 ∧
        match x.1 with
        | .inl r => PVGood IM r.1
        | .inr te => ∀ e, te = some e → IM e.m) := by
  unfold ttProbe
  have e : (g.restrict (S 0) IM).hash p' = g.hash p'.val := rfl
  rw [e]
  refine Sim.bind (Sim.refl (ttGet_engGood hs (g.hash p'.val))) ?_
  intro te hte
  cases te with
  | none => exact Sim.pure ⟨hs, fun e h => by cases h⟩
  | some e =>
    have hem : IM e.m := hte e rfl
    dsimp only
    split
    · cases hap : g.apply p'.val e.m with
      | ok c =>
        have hk : S k c := hR.closed k _ _ c hp hem hap
        have h0 : S 0 c := hR.anti_le (Nat.zero_le k) hk
        rw [restrict_apply_ok hem hap h0]
        dsimp only
        refine Sim.bind (Sim.refl (setA_engGood hs.pv0 ply e.m hem _)) ?_
        intro pv0 hpv0
        refine Sim.pure ⟨⟨hs.table, hs.resp, hpv0⟩, ?_⟩
        intro l hl
        cases hl
        intro m hm
        simp only [List.mem_cons, List.not_mem_nil, or_false] at hm
        subst hm; exact hem
      | error err =>
        rw [restrict_apply_error hem hap]
        cases err with
        | illegal w => exact Sim.pure ⟨hs.of_eq rfl rfl rfl, fun e h => by cases h⟩
        | panic w => exact Sim.throw
        | hang w => exact Sim.throw
    · refine Sim.pure ⟨hs.of_eq rfl rfl rfl, ?_⟩
      intro e' he'
      cases he'; exact hem

end
end Search
