import TakVerif.Props.C19_allmoves
import TakVerif.Props.C03_WF
import TakVerif.Proofs.ThreatLegal
import TakVerif.Proofs.MCTSPolicyLoop

/-! Helper lemmas for `Props/C04_policy.lean`: an unfinished well-formed position has a legal generated move
(a placement on an empty square), so the retry loop of the uniform policy never exhausts its candidates. -/
set_option linter.unusedVariables false
set_option linter.unusedSimpArgs false
namespace Proofs.MCTSPolicy
open Tak Tak.MCTS Roads Spec C19

/-- On the first two plies the stone placed is the opponent's, taken from the opponent's flats: the position is
playable only if those are not exhausted (always so in a game started by `New`: both players still hold every
piece but the one placed on ply 0).  From ply 2 on nothing is required. -/
def OpeningOK (p : Pos) : Prop :=
  2 ≤ p.move ∨ (p.move = 1 ∧ p.whiteStones ≠ 0#8) ∨ (p.move = 0 ∧ p.whiteStones ≠ 0#8 ∧ p.blackStones ≠ 0#8)

theorem not_over_not_full (p : Pos) (hno : p.gameOver.1 = false) : (p.white ||| p.black) ≠ p.c.Mask := by
  unfold Pos.gameOver at hno
  rcases hr : p.hasRoad with ⟨a, b⟩
  rw [hr] at hno
  simp only at hno
  split at hno
  · cases hno
  · split at hno
    · rename_i h
      simp only [Bool.and_eq_true, Bool.or_eq_true, bne_iff_ne, ne_eq] at h
      exact h.2
    · cases hno

/-- an unfinished board has an empty square -/
theorem exists_empty (p : Pos) (hn : SizeOK p.cfg.size) (hc : p.c = Gen.precompute p.cfg.size)
    (hw : Sub p.white p.c.Mask) (hb : Sub p.black p.c.Mask) (hno : p.gameOver.1 = false) :
    ∃ s, s < p.cfg.size * p.cfg.size ∧ (p.white ||| p.black).getLsbD s = false := by
  have hne := not_over_not_full p hno
  apply Classical.byContradiction
  intro hall
  apply hne
  apply BitVec.eq_of_getLsbD_eq
  intro i hi
  cases hm : p.c.Mask.getLsbD i with
  | true =>
    have hlt : i < p.cfg.size * p.cfg.size := by
      rw [hc, Mask_bitN _ hn] at hm; simpa using hm
    cases ho : (p.white ||| p.black).getLsbD i with
    | true => rfl
    | false => exact absurd ⟨i, hlt, ho⟩ hall
  | false =>
    cases ho : (p.white ||| p.black).getLsbD i with
    | false => rfl
    | true =>
      rw [BitVec.getLsbD_or, Bool.or_eq_true] at ho
      rcases ho with h | h
      · rw [hw i h] at hm; cases hm
      · rw [hb i h] at hm; cases hm

/-- the opening placement: on ply 0 / 1 a flat of the opponent's colour from the opponent's reserve -/
theorem apply_place_opening (basis : Array W) (p : Pos) (x y : Nat) (hx : x < p.cfg.size) (hy : y < p.cfg.size)
    (hply : (p.move = 0 ∧ p.blackStones ≠ 0#8) ∨ (p.move = 1 ∧ p.whiteStones ≠ 0#8))
    (hemp : (p.white ||| p.black).getLsbD (x + y * p.cfg.size) = false) :
    ∃ q, p.apply basis ⟨x, y, Facts.mtPlaceFlat, 0⟩ = .ok q := by
  have hx' : ¬ ((p.cfg.size : Int) ≤ x) := by omega
  have hy' : ¬ ((p.cfg.size : Int) ≤ y) := by omega
  have hxn : ¬ ((x : Int) < 0) := by omega
  have hyn : ¬ ((y : Int) < 0) := by omega
  have hidx := idx_toNat x y p.cfg.size
  rw [BitVec.getLsbD_or] at hemp
  simp only [Bool.or_eq_false_iff] at hemp
  rcases hply with ⟨h0, hst⟩ | ⟨h1, hst⟩
  · have hw : p.toMove = .white := by simp [Pos.toMove, h0]
    have h2 : p.move < 2 := by omega
    unfold Pos.apply
    simp [Facts.mtPlaceFlat, Facts.mtPlaceCapstone, Facts.mtPlaceStanding, Facts.mtPass, hw, h2, hx', hy', hxn, hyn, hidx,
      hemp.1, hemp.2, hst, dispatch, openingRule, placeOn, Color.flip]
    obtain ⟨wg, bg, hf, _, _⟩ := C19.finish_ok _
    exact ⟨_, hf⟩
  · have hb : p.toMove = .black := by simp [Pos.toMove, h1]
    have h2 : p.move < 2 := by omega
    unfold Pos.apply
    simp [Facts.mtPlaceFlat, Facts.mtPlaceCapstone, Facts.mtPlaceStanding, Facts.mtPass, hb, h2, hx', hy', hxn, hyn, hidx,
      hemp.1, hemp.2, hst, dispatch, openingRule, placeOn, Color.flip]
    obtain ⟨wg, bg, hf, _, _⟩ := C19.finish_ok _
    exact ⟨_, hf⟩

/-- what `live_has_move` needs of the position: C03's `WFlite` (heights are zero exactly on empty squares) and the
bitboard part of the invariant -/
structure LiveWF (p : Pos) : Prop where
  lite : Tak.Proofs.WFlite p
  consts : p.c = Gen.precompute p.cfg.size
  white_sub : Sub p.white p.c.Mask
  black_sub : Sub p.black p.c.Mask
  disjoint : p.white &&& p.black = 0#64
  move_nonneg : 0 ≤ p.move

theorem liveWF_of_wf (basis : Array W) (p : Pos) (hwf : WF basis p) : LiveWF p := by
  have hn : SizeOK p.cfg.size := ⟨hwf.size_ge, hwf.size_le⟩
  have hsub : ∀ (x : W), (∀ j, p.cfg.size * p.cfg.size ≤ j → x.getLsbD j = false) → Sub x p.c.Mask := by
    intro x hx k hk
    rw [hwf.consts, Mask_bitN _ hn]
    simp only [decide_eq_true_eq]
    apply Classical.byContradiction
    intro hge
    rw [hx k (by omega)] at hk; cases hk
  exact ⟨C03.wflite_of_wf basis p hwf, hwf.consts, hsub _ (fun j hj => (hwf.mask j hj).1),
    hsub _ (fun j hj => (hwf.mask j hj).2.1), hwf.white_black_disjoint, hwf.move_nonneg⟩

/-- **A live position has a legal generated move**: some move of `AllMoves` is accepted by `Move`. -/
theorem live_has_move (basis : Array W) (p : Pos) (wf : LiveWF p) (hno : p.gameOver.1 = false)
    (hop : OpeningOK p) : ∃ m ∈ p.allMoves, ∃ q, p.apply basis m = .ok q := by
  have hn : SizeOK p.cfg.size := ⟨wf.lite.size_lo, wf.lite.size_hi⟩
  have h64 := sq_le _ hn
  have hpos : 0 < p.cfg.size := by have := hn.1; omega
  obtain ⟨s, hs, hemp⟩ := exists_empty p hn wf.consts wf.white_sub wf.black_sub hno
  obtain ⟨hx, hy, e⟩ := coords hpos hs
  rw [← e] at hemp
  have hdis : ∀ k, p.white.getLsbD k = true → p.black.getLsbD k = true → False := by
    intro k h1 h2
    have := congrArg (fun v => BitVec.getLsbD v k) wf.disjoint
    simp [h1, h2] at this
  -- some placement on `s` is accepted
  have hacc : ∃ m q, m.type ≠ Facts.mtPass ∧ p.apply basis m = .ok q := by
    by_cases hply : 2 ≤ p.move
    · obtain ⟨rw_, rb_⟩ := reserves_of_not_over p hno
      rcases C19.toMove_cases p with hw | hb
      · rcases rw_ with h | h
        · obtain ⟨q, h1, _⟩ := apply_place_flat_w basis p _ _ hx hy h64 hply hw hdis hemp h
          exact ⟨_, q, by simp only []; decide, h1⟩
        · obtain ⟨q, h1, _⟩ := apply_place_cap_w basis p _ _ hx hy h64 hply hw hdis hemp h
          exact ⟨_, q, by simp only []; decide, h1⟩
      · rcases rb_ with h | h
        · obtain ⟨q, h1, _⟩ := apply_place_flat_b basis p _ _ hx hy h64 hply hb hdis hemp h
          exact ⟨_, q, by simp only []; decide, h1⟩
        · obtain ⟨q, h1, _⟩ := apply_place_cap_b basis p _ _ hx hy h64 hply hb hdis hemp h
          exact ⟨_, q, by simp only []; decide, h1⟩
    · have hop' : (p.move = 0 ∧ p.blackStones ≠ 0#8) ∨ (p.move = 1 ∧ p.whiteStones ≠ 0#8) := by
        rcases hop with h | ⟨h1, h2⟩ | ⟨h1, _, h3⟩
        · exact absurd h hply
        · exact .inr ⟨h1, h2⟩
        · exact .inl ⟨h1, h3⟩
      obtain ⟨q, h1⟩ := apply_place_opening basis p _ _ hx hy hop' hemp
      exact ⟨_, q, by simp only []; decide, h1⟩
  obtain ⟨m, q, hnp, h1⟩ := hacc
  obtain ⟨m', hm', heq⟩ := C03.allMoves_complete_engine basis p wf.lite m q hnp h1
  exact ⟨m', hm', q, by rw [apply_congr_equal basis p m' m heq]; exact h1⟩

end Proofs.MCTSPolicy
