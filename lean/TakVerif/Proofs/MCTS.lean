import TakVerif.Impl.MCTS
import TakVerif.Spec.Tak

/-! Helper lemmas for `Props/C04_mcts.lean`: the arena invariant of the Monte-Carlo main loop. -/
set_option linter.unusedVariables false
set_option linter.unusedSimpArgs false
namespace Proofs.MCTS
open Tak Tak.MCTS

/-- the part of a node the search never changes once it exists, apart from `populate` filling `children` -/
def key (n : Node) : List Nat × Move := (n.children, n.move)

/-- `a'` has the same nodes as `a` up to the statistics (`sims`, `proven`, `value`) -/
def Same (a a' : Arena) : Prop := a'.size = a.size ∧ ∀ i : Nat, (a'[i]?).map key = (a[i]?).map key

theorem Same.refl (a : Arena) : Same a a := ⟨rfl, fun _ => rfl⟩
theorem Same.trans {a b c : Arena} (h1 : Same a b) (h2 : Same b c) : Same a c :=
  ⟨h2.1.trans h1.1, fun i => (h2.2 i).trans (h1.2 i)⟩

theorem same_set (a : Arena) (t : Nat) (n x : Node) (hn : a[t]? = some n) (hk : key x = key n) :
    Same a (a.setIfInBounds t x) := by
  refine ⟨by simp, ?_⟩
  intro i
  rw [Array.getElem?_setIfInBounds]
  by_cases h : t = i
  · subst h
    have hlt : t < a.size := by
      rcases Nat.lt_or_ge t a.size with h | h
      · exact h
      · rw [Array.getElem?_eq_none h] at hn; cases hn
    have hget : a[t] = n := by
      have := Array.getElem?_eq_getElem hlt
      rw [this] at hn
      exact Option.some.inj hn
    simp [hlt, hn, hk, hget]
  · simp [h]

theorem same_setProven (a : Arena) (t : Nat) (v : Int) : Same a (setProven a t v) := by
  unfold setProven
  cases h : a[t]? with
  | none => exact Same.refl a
  | some n => exact same_set a t n _ h rfl

theorem same_ite {a x y : Arena} (c : Prop) [Decidable c] (h1 : Same a x) (h2 : Same a y) :
    Same a (if c then x else y) := by split <;> assumption

theorem update_same : ∀ (fuel : Nat) (a : Arena) (t : Option Nat) (v : Int), Same a (update fuel a t v) := by
  intro fuel
  induction fuel with
  | zero => intro a t v; simp only [update]; exact Same.refl a
  | succ fuel ih =>
    intro a t v
    cases t with
    | none => simp only [update]; exact Same.refl a
    | some t =>
      simp only [update]
      cases h0 : a[t]? with
      | none => exact Same.refl a
      | some n0 =>
        simp only
        have hkx : key ({ n0 with sims := n0.sims + 1 } : Node) = key n0 := rfl
        generalize ({ n0 with sims := n0.sims + 1 } : Node) = x at hkx ⊢
        have s1 : Same a (a.setIfInBounds t x) := same_set a t n0 x h0 hkx
        by_cases hp : n0.proven ≠ 0
        · rw [if_pos hp]
          cases hpar : n0.parent with
          | none => exact s1
          | some par =>
            simp only
            by_cases hneg : n0.proven < 0
            · rw [if_pos hneg]
              exact s1.trans ((same_setProven _ par 1).trans (ih _ _ _))
            · rw [if_neg hneg]
              exact s1.trans (Same.trans (same_ite _ (same_setProven _ par (-1)) (Same.refl _)) (ih _ _ _))
        · rw [if_neg hp]
          refine s1.trans (Same.trans ?_ (ih _ _ _))
          cases h1 : (a.setIfInBounds t x)[t]? with
          | none => exact Same.refl _
          | some n1 => exact same_set _ t n1 _ h1 rfl

theorem populate_none (basis : Array W) (a : Arena) (t : Nat) (h : a[t]? = none) : populate basis a t = a := by
  unfold populate; simp [h]

theorem populate_size (basis : Array W) (a : Arena) (t : Nat) (node : Node) (h : a[t]? = some node) :
    (populate basis a t).size = a.size + (legalChildren basis node.pos).length := by
  unfold populate; simp [h]

theorem populate_old (basis : Array W) (a : Arena) (t : Nat) (node : Node) (h : a[t]? = some node)
    (i : Nat) (hi : i < a.size) (hne : i ≠ t) : (populate basis a t)[i]? = a[i]? := by
  unfold populate
  simp only [h]
  rw [Array.getElem?_append]
  simp [hi, Array.getElem?_setIfInBounds, Ne.symm hne]

theorem populate_self (basis : Array W) (a : Arena) (t : Nat) (node : Node) (h : a[t]? = some node) :
    (populate basis a t)[t]? = some { node with children := (List.range (legalChildren basis node.pos).length).map (· + a.size) } := by
  have hlt : t < a.size := by
    rcases Nat.lt_or_ge t a.size with h' | h'
    · exact h'
    · rw [Array.getElem?_eq_none h'] at h; cases h
  unfold populate
  simp only [h]
  rw [Array.getElem?_append]
  simp [hlt, Array.getElem?_setIfInBounds]

theorem populate_new (basis : Array W) (a : Arena) (t : Nat) (node : Node) (h : a[t]? = some node)
    (j : Nat) (hj : j < (legalChildren basis node.pos).length) :
    ((populate basis a t)[a.size + j]?).map (·.move) = some ((legalChildren basis node.pos)[j]).1 ∧
    ((populate basis a t)[a.size + j]?).map (·.children) = some [] := by
  unfold populate
  simp only [h]
  rw [Array.getElem?_append]
  simp [hj]

/-- the invariant of the main loop once the root has been expanded; `L` = the legal moves, in order -/
structure Inv (L : List Move) (a : Arena) : Prop where
  root : ∃ r, a[0]? = some r ∧ r.children.map (fun i => (a[i]?).map (·.move)) = L.map some
  kids : ∀ (i : Nat) (n : Node), a[i]? = some n → ∀ c ∈ n.children, c ≠ 0 ∧ c < a.size

theorem same_children {a a' : Arena} (h : Same a a') (i : Nat) (n : Node) (hn : a[i]? = some n) :
    ∃ n', a'[i]? = some n' ∧ n'.children = n.children ∧ n'.move = n.move := by
  have := h.2 i
  rw [hn] at this
  cases h' : a'[i]? with
  | none => simp [h'] at this
  | some n' =>
    simp only [h', Option.map, key] at this
    injection this with this
    injection this with h1 h2
    exact ⟨n', rfl, h1, h2⟩

theorem same_move {a a' : Arena} (h : Same a a') (i : Nat) : (a'[i]?).map (·.move) = (a[i]?).map (·.move) := by
  have := h.2 i
  cases h1 : a'[i]? <;> cases h2 : a[i]? <;> simp [h1, h2, key] at this ⊢
  exact this.2

theorem Inv.of_same {L : List Move} {a a' : Arena} (hI : Inv L a) (h : Same a a') : Inv L a' := by
  obtain ⟨r, hr, hL⟩ := hI.root
  obtain ⟨r', hr', hc, _⟩ := same_children h 0 r hr
  refine ⟨⟨r', hr', ?_⟩, ?_⟩
  · rw [hc, ← hL]
    apply List.map_congr_left
    intro i _
    exact same_move h i
  · intro i n' hn' c hcm
    have h2 := h.2 i
    rw [hn'] at h2
    cases ha : a[i]? with
    | none => simp [ha] at h2
    | some n =>
      simp only [ha, Option.map, key] at h2
      injection h2 with h2
      injection h2 with h2 _
      have := hI.kids i n ha c (by rw [← h2]; exact hcm)
      exact ⟨this.1, by rw [h.1]; exact this.2⟩

/-- the first `populate`: from the bare root -/
theorem inv_first (basis : Array W) (p : Pos) (root : Node) (hp : root.pos = p) (hc : root.children = []) :
    Inv ((legalChildren basis p).map (·.1)) (populate basis #[root] 0) := by
  have h0 : (#[root] : Arena)[0]? = some root := rfl
  have hself := populate_self basis #[root] 0 root h0
  have hsize := populate_size basis #[root] 0 root h0
  rw [hp] at hself hsize
  refine ⟨⟨_, hself, ?_⟩, ?_⟩
  · simp only [List.map_map]
    apply List.ext_getElem
    · simp
    · intro j h1 h2
      simp only [List.length_map, List.length_range] at h1
      have := (populate_new basis #[root] 0 root h0 j (by rw [hp]; exact h1)).1
      simp only [List.getElem_map, List.getElem_range, Function.comp]
      have e : j + (#[root] : Arena).size = (#[root] : Arena).size + j := Nat.add_comm _ _
      rw [e, this]
      simp [hp]
  · intro i n hn c hcm
    have hsz : (populate basis #[root] 0).size = 1 + (legalChildren basis p).length := by simpa using hsize
    by_cases hi : i = 0
    · subst hi
      rw [hself] at hn
      injection hn with hn
      subst hn
      simp only [List.mem_map, List.mem_range] at hcm
      obtain ⟨j, hj, rfl⟩ := hcm
      simp only [Array.size] at *
      constructor
      · simp
      · rw [hsz]; simp; omega
    · -- a fresh node: no children
      have hlt : i < (populate basis #[root] 0).size := by
        rcases Nat.lt_or_ge i (populate basis #[root] 0).size with h | h
        · exact h
        · rw [Array.getElem?_eq_none h] at hn; cases hn
      rw [hsz] at hlt
      have hj : i - 1 < (legalChildren basis root.pos).length := by rw [hp]; omega
      have := (populate_new basis #[root] 0 root h0 (i - 1) hj).2
      have e : (#[root] : Arena).size + (i - 1) = i := by simp; omega
      rw [e, hn] at this
      simp only [Option.map] at this
      injection this with this
      rw [this] at hcm
      cases hcm


theorem getElem?_lt {a : Arena} {i : Nat} {n : Node} (h : a[i]? = some n) : i < a.size := by
  rcases Nat.lt_or_ge i a.size with h' | h'
  · exact h'
  · rw [Array.getElem?_eq_none h'] at h; cases h

/-- a later `populate` (at a node other than the root) keeps the invariant -/
theorem inv_populate (basis : Array W) (L : List Move) (a : Arena) (t : Nat) (ht : t ≠ 0) (hI : Inv L a) :
    Inv L (populate basis a t) := by
  cases hn : a[t]? with
  | none => rw [populate_none basis a t hn]; exact hI
  | some node =>
    have hsize := populate_size basis a t node hn
    have hself := populate_self basis a t node hn
    obtain ⟨r, hr, hL⟩ := hI.root
    have h0lt : 0 < a.size := getElem?_lt hr
    have hroot : (populate basis a t)[0]? = some r := by
      rw [populate_old basis a t node hn 0 h0lt (Ne.symm ht)]; exact hr
    refine ⟨⟨r, hroot, ?_⟩, ?_⟩
    · rw [← hL]
      apply List.map_congr_left
      intro c hc
      have hclt := (hI.kids 0 r hr c hc).2
      by_cases hct : c = t
      · subst hct
        rw [hself, hn]
        rfl
      · rw [populate_old basis a t node hn c hclt hct]
    · intro i n hin c hcm
      have hilt := getElem?_lt hin
      rw [hsize] at hilt
      by_cases hi : i < a.size
      · by_cases hit : i = t
        · subst hit
          rw [hself] at hin
          injection hin with hin
          subst hin
          simp only [List.mem_map, List.mem_range] at hcm
          obtain ⟨j, hj, rfl⟩ := hcm
          exact ⟨by omega, by rw [hsize]; omega⟩
        · rw [populate_old basis a t node hn i hi hit] at hin
          have := hI.kids i n hin c hcm
          exact ⟨this.1, by rw [hsize]; omega⟩
      · have hj : i - a.size < (legalChildren basis node.pos).length := by omega
        have := (populate_new basis a t node hn (i - a.size) hj).2
        have e : a.size + (i - a.size) = i := by omega
        rw [e, hin] at this
        simp only [Option.map] at this
        injection this with this
        rw [this] at hcm
        cases hcm

theorem getD_mem_cons (c : Nat) (cs : List Nat) (k : Nat) : (c :: cs).getD k c ∈ c :: cs := by
  rw [List.getD_eq_getElem?_getD]
  cases h : (c :: cs)[k]? with
  | none => simp
  | some x => simp only [Option.getD]; exact List.mem_of_getElem? h

/-- below a node that is not the root, `descend` never returns the root -/
theorem descend_ne_zero (pick : Nat → List Nat → Nat) (a : Arena)
    (hk : ∀ (i : Nat) (n : Node), a[i]? = some n → ∀ c ∈ n.children, c ≠ 0) :
    ∀ (fuel t : Nat), t ≠ 0 → descend pick fuel a t ≠ 0 := by
  intro fuel
  induction fuel with
  | zero => intro t ht; simpa [descend] using ht
  | succ fuel ih =>
    intro t ht
    simp only [descend]
    cases hn : a[t]? with
    | none => simpa using ht
    | some node =>
      simp only
      cases hc : node.children with
      | nil => simpa using ht
      | cons c cs =>
        simp only
        apply ih
        have := getD_mem_cons c cs (pick t (c :: cs) % (c :: cs).length)
        exact hk t node hn _ (by rw [hc]; exact this)

/-- with an expanded root (it has children), `descend` from the root ends elsewhere -/
theorem descend_root (pick : Nat → List Nat → Nat) (L : List Move) (hL : L ≠ []) (a : Arena) (hI : Inv L a)
    (fuel : Nat) : descend pick (fuel + 1) a 0 ≠ 0 := by
  obtain ⟨r, hr, hLm⟩ := hI.root
  have hk : ∀ (i : Nat) (n : Node), a[i]? = some n → ∀ c ∈ n.children, c ≠ 0 :=
    fun i n hn c hc => (hI.kids i n hn c hc).1
  simp only [descend, hr]
  cases hc : r.children with
  | nil =>
    rw [hc] at hLm
    simp at hLm
    exact absurd hLm.symm (by simpa using hL)
  | cons c cs =>
    simp only
    apply descend_ne_zero pick a hk
    have := getD_mem_cons c cs (pick 0 (c :: cs) % (c :: cs).length)
    exact hk 0 r hr _ (by rw [hc]; exact this)


theorem loop_inv (basis : Array W) (o : Oracle) (L : List Move) (hL : L ≠ []) :
    ∀ (left j : Nat) (a : Arena), Inv L a → Inv L (loop basis o left j a) := by
  intro left
  induction left with
  | zero => intro j a h; simpa [loop] using h
  | succ left ih =>
    intro j a hI
    simp only [loop]
    have hne := descend_root (o.pick j) L hL a hI a.size
    have hI1 := inv_populate basis L a _ hne hI
    split
    · exact hI1
    · exact ih _ _ (hI1.of_same (update_same _ _ _ _))

/-- the root the search starts from -/
def rootOf (p : Pos) : Node := { pos := p, move := { x := 0, y := 0, type := 0, slides := 0 } }

theorem loop_first (basis : Array W) (o : Oracle) (p : Pos) (hL : (legalChildren basis p).map (·.1) ≠ [])
    (it : Nat) : Inv ((legalChildren basis p).map (·.1)) (loop basis o (it + 1) 0 #[rootOf p]) := by
  simp only [loop]
  have hd : descend (o.pick 0) ((#[rootOf p] : Arena).size + 1) #[rootOf p] 0 = 0 := by
    simp [descend, rootOf]
  rw [hd]
  have hI1 := inv_first basis p (rootOf p) rfl rfl
  split
  · exact hI1
  · exact loop_inv basis o _ hL _ _ _ (hI1.of_same (update_same _ _ _ _))

theorem pickBest_mem (a : Arena) (tie : Nat → Nat → Bool) :
    ∀ (l : List Nat) (best i : Nat), pickBest a tie l best i ∈ best :: l := by
  intro l
  induction l with
  | nil => intro best i; simp [pickBest]
  | cons c cs ih =>
    intro best i
    simp only [pickBest]
    split
    · have := ih c 1; simp only [List.mem_cons] at this ⊢; rcases this with h | h <;> simp [h]
    · split
      · split
        · have := ih c 1; simp only [List.mem_cons] at this ⊢; rcases this with h | h <;> simp [h]
        · have := ih best (i+1); simp only [List.mem_cons] at this ⊢; rcases this with h | h <;> simp [h]
      · have := ih best i; simp only [List.mem_cons] at this ⊢; rcases this with h | h <;> simp [h]

theorem pickProven_mem (a : Arena) : ∀ (l : List Nat) (best : Nat), pickProven a l best ∈ best :: l := by
  intro l
  induction l with
  | nil => intro best; simp [pickProven]
  | cons c cs ih =>
    intro best
    simp only [pickProven]
    split
    · have := ih c; simp only [List.mem_cons] at this ⊢; rcases this with h | h <;> simp [h]
    · have := ih best; simp only [List.mem_cons] at this ⊢; rcases this with h | h <;> simp [h]

theorem legalChildren_legal (basis : Array W) (p : Pos) (m : Move)
    (h : m ∈ (legalChildren basis p).map (·.1)) : ∃ q, p.apply basis m = .ok q := by
  simp only [legalChildren, List.mem_map, List.mem_filterMap] at h
  obtain ⟨⟨m', q⟩, ⟨m0, _, hm0⟩, rfl⟩ := h
  cases ha : p.apply basis m0 with
  | error e => simp [ha] at hm0
  | ok q' =>
    simp only [ha, Option.some.injEq, Prod.mk.injEq] at hm0
    obtain ⟨h1, h2⟩ := hm0
    subst h1
    exact ⟨q', ha⟩

theorem wrap8_small (v : Nat) (h : v ≤ 7) : wrap8 (v : Int) = (v : Int) := by
  unfold wrap8; omega

theorem squareAt_nil (p : Pos) (i : Nat) (h : (p.white ||| p.black).getLsbD i = false) : p.squareAt i = [] := by
  simp only [BitVec.getLsbD_or, Bool.or_eq_false_iff] at h
  unfold Pos.squareAt Pos.topAt
  simp [h.1, h.2]

end Proofs.MCTS
