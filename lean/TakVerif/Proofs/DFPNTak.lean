import TakVerif.Proofs.DFPNTop
import TakVerif.Proofs.DFPNBisim
import TakVerif.Proofs.TakGamePN3
import TakVerif.Proofs.TakGamePN4
import TakVerif.Proofs.ThreatLegal

/-! The assumptions of the DFPN theorems (`DfpnOK`, `Proofs/DFPNInv.lean`) discharged for the bit-level
Tak game `takGame basis` with `takHash` (`Position.Hash`) and `takThreats` (`ai.CountThreats`), as far as
C01/C02/C03/C19 allow: everything except the two statements about the 64-bit hash. -/
namespace C06
open Tak Tak.PN Tak.DFPN Spec.Game Tak.Proofs
open Spec (abs decode)

/-- `Position.Equal` is a bisimulation on the positions of the invariant of one game configuration
(`TInv basis root`: not only those reachable from `root`) -/
theorem takGame_equalIsBisimOn (basis : Array W) (root : Pos) :
    EqualIsBisimOn (takGame basis) (TInv basis root) where
  closed := fun _ _ hs hsucc => hs.succ hsucc
  symm := fun s t rs rt he => by
    have he' : s.equal t = true := he
    show t.equal s = true
    rw [equal_iff_core rs.invB.1 rt.invB.1] at he'
    rw [equal_iff_core rt.invB.1 rs.invB.1]
    exact ⟨he'.1.symm, he'.2.1.symm, he'.2.2.symm⟩
  over := fun s t rs rt he => by
    rw [takGame_over_eq basis s (roadWF_of_inv basis s rs.invB.1 rs.ana),
      takGame_over_eq basis t (roadWF_of_inv basis t rt.invB.1 rt.ana),
      outcome_plySim (plySim_of_equal rs rt he)]
  toMove := fun s t rs rt he => ((equal_iff_core rs.invB.1 rt.invB.1).mp he).2.2
  step := fun s t s' rs rt he hsucc => equal_step rs rt he hsucc

theorem takGame_over_none (basis : Array W) (p : Pos) : (takGame basis).over p = none ↔ p.gameOver.1 = false := by
  simp only [takGame]
  rcases h : p.gameOver with ⟨o, w⟩
  cases o <;> simp

theorem takGame_over_some (basis : Array W) (p : Pos) (c : Color) (h1 : p.gameOver.1 = true) (h2 : p.gameOver.2 = c) :
    (takGame basis).over p = some c := by
  simp only [takGame]
  rcases h : p.gameOver with ⟨o, w⟩
  rw [h] at h1 h2
  simp only at h1 h2
  subst h1; subst h2
  rfl

theorem winDetails_over (p : Pos) : p.winDetails.over = p.gameOver.1 := by
  unfold Pos.winDetails
  rcases h : p.gameOver with ⟨o, c⟩
  rcases h2 : p.countFlats with ⟨a, b⟩
  rfl

theorem winDetails_winner' (p : Pos) : p.winDetails.winner = p.gameOver.2 := by
  unfold Pos.winDetails
  rcases h : p.gameOver with ⟨o, c⟩
  rcases h2 : p.countFlats with ⟨a, b⟩
  rfl

/-- an unfinished well-formed position has a generated move: some square is empty, and `AllMoves` lists
a flat placement for every empty square -/
theorem allMoves_ne_nil (basis : Array W) (p : Pos) (hwf : WF basis p) (hno : p.gameOver.1 = false) :
    p.allMoves ≠ [] := by
  -- the board is not full
  have hne : (p.white ||| p.black) ≠ p.c.Mask := by
    intro heq
    unfold Pos.gameOver at hno
    simp only at hno
    split at hno
    · cases hno
    · split at hno
      · rename_i hc
        simp only [Bool.and_eq_true, bne_iff_ne, ne_eq] at hc
        exact hc.2 heq
      · cases hno
  have hn : Roads.SizeOK p.cfg.size := ⟨hwf.size_ge, hwf.size_le⟩
  -- an empty square inside the board
  have hex : ∃ k, k < p.cfg.size * p.cfg.size ∧ p.white.getLsbD k = false ∧ p.black.getLsbD k = false := by
    apply Classical.byContradiction
    intro hall
    apply hne
    apply BitVec.eq_of_getLsbD_eq
    intro k _
    rw [hwf.consts, Roads.Mask_bitN _ hn, BitVec.getLsbD_or]
    by_cases hk : k < p.cfg.size * p.cfg.size
    · have : ¬ (p.white.getLsbD k = false ∧ p.black.getLsbD k = false) := fun h => hall ⟨k, hk, h⟩
      simp only [hk, decide_true]
      cases hw : p.white.getLsbD k <;> cases hb : p.black.getLsbD k <;> simp_all
    · have := hwf.mask k (by omega)
      simp [hk, this.1, this.2.1]
  obtain ⟨k, hk, hw, hb⟩ := hex
  have hh : p.height.getD k 0 = 0#8 := by
    have hc := hwf.cell k
    have := hc.h_zero.2 ⟨hw, hb⟩
    simpa [Pos.cell] using this
  have hsz : 0 < p.cfg.size := by have := hwf.size_ge; omega
  intro hnil
  have hmem : (⟨(k % p.cfg.size : Nat), (k / p.cfg.size : Nat), Facts.mtPlaceFlat, 0⟩ : Move) ∈ p.allMoves := by
    rw [mem_allMoves]
    refine ⟨k % p.cfg.size, Nat.mod_lt _ hsz, k / p.cfg.size, ?_, ?_⟩
    · exact (Nat.div_lt_iff_lt_mul hsz).mpr hk
    · unfold sqMoves
      have hidx : k / p.cfg.size * p.cfg.size + k % p.cfg.size = k := by
        rw [Nat.mul_comm]; exact Nat.div_add_mod k p.cfg.size
      simp only [hidx, hh, beq_self_eq_true, if_true]
      rw [mem_placeMoves]
      left; rfl
  rw [hnil] at hmem
  cases hmem

/-- `solve` reports a threat only when `CountThreats` counts one for the side to move -/
theorem solve_forMover (basis : Array W) (p : Pos) (h : solve (takGame basis) takThreats p ≠ none) :
    0 < (countThreats p.c p).forMover p := by
  unfold solve takThreats at h
  simp only at h
  unfold Threats.forMover
  have htm : (takGame basis).toMove p = p.toMove := rfl
  rw [htm] at h
  rcases Tak.toMove_cases p with hw | hb
  · rw [hw] at h ⊢
    simp only [beq_self_eq_true, Bool.and_true, if_true] at h ⊢
    by_cases hc : (countThreats p.c p).wp + (countThreats p.c p).wt > 0
    · exact hc
    · simp [hc] at h
  · rw [hb] at h ⊢
    have e1 : (Color.black == Color.white) = false := by decide
    simp only [e1, Bool.and_false, Bool.false_eq_true, if_false, beq_self_eq_true, Bool.and_true] at h ⊢
    by_cases hc : (countThreats p.c p).bp + (countThreats p.c p).bt > 0
    · exact hc
    · simp [hc] at h

/-- **C19 for the solver**: a threat `solve` reports in an unfinished position from ply 2 on is a
generated, accepted move that ends the game in favour of the mover -/
theorem tak_threat_real (basis : Array W) (p : Pos) (hi : InvB basis p) (han : p.analyze = some p)
    (hply : 2 ≤ p.move) (hno : p.gameOver.1 = false) (h : solve (takGame basis) takThreats p ≠ none) :
    ∃ q, Succ (takGame basis) p q ∧ (takGame basis).over q = some p.toMove := by
  obtain ⟨wfb, hh⟩ := C19.wf_bridge basis p hi.1 han
  obtain ⟨m, q, hnp, happ, ⟨a, b, _⟩, _, _⟩ :=
    C19.threat_real_impl basis p wfb hh hply hno (solve_forMover basis p h)
  obtain ⟨m', hm', hme⟩ := C03.allMoves_complete_wf basis p hi.1 m q hnp happ
  have happ' : p.apply basis m' = .ok q := by rw [apply_of_equal' basis p m' m hme]; exact happ
  refine ⟨q, ⟨m', hm', takGame_apply_some.mpr happ'⟩, ?_⟩
  apply takGame_over_some
  · rw [← winDetails_over]; exact a
  · rw [← winDetails_winner']; exact b

/-- what the Tak theorems ask of the set of positions the solver is used on: closed under play, inside
the invariant of one game configuration (`TInv basis root0`: C01's invariant with the 64-piece budget,
analysed groups, the configuration and piece totals of `root0`), from ply 2 on (in the two opening
plies a "threat" of the mover's colour is not the mover's to complete) -/
structure TakDomOK (basis : Array W) (root0 : Pos) (Dom : Pos → Prop) : Prop where
  closed : ∀ s s', Dom s → Succ (takGame basis) s s' → Dom s'
  inv : ∀ p, Dom p → TInv basis root0 p
  ply : ∀ p, Dom p → 2 ≤ p.move

/-- the two assumptions about `Position.Hash` that remain: on the unfinished positions of `Dom` it is
never 0, and it separates positions that `Position.Equal` separates (like `Equal`, the hash does not see
the ply counter or the reserves) -/
structure TakHashOK (Dom : Pos → Prop) : Prop where
  nz : ∀ p, Dom p → p.gameOver.1 = false → takHash p ≠ 0
  inj : ∀ s t, Dom s → Dom t → s.gameOver.1 = false → t.gameOver.1 = false → takHash s = takHash t →
    s.equal t = true

/-- the positions reachable from `root0` from ply 2 on are such a set -/
theorem takDomOK_reach (basis : Array W) (root0 : Pos) (hi : InvB basis root0) (han : root0.analyze = some root0)
    (hply : 2 ≤ root0.move) : TakDomOK basis root0 (Reach (takGame basis) root0) where
  closed := fun _ _ hs hsucc => .step hs hsucc
  inv := fun _ hp => (TInv.root hi han).reach hp
  ply := fun p hp => by
    induction hp with
    | refl => exact hply
    | step _ hs ih =>
      obtain ⟨m, _, ha⟩ := hs
      have := apply_move basis _ _ m (takGame_apply_some.mp ha)
      omega

/-- **`DfpnOK` for Tak** from the two hash assumptions -/
theorem tak_dfpnOK (basis : Array W) (root0 : Pos) (Dom : Pos → Prop) (hd : TakDomOK basis root0 Dom)
    (hh : TakHashOK Dom) (att : Color) (ha : att = .white ∨ att = .black) (two : Bool) :
    DfpnOK (takGame basis) takHash takThreats att two Dom where
  alt := takGame_alternating basis
  attWB := ha
  closed := hd.closed
  small := fun s hs _ => allMoves_small s (hd.inv s hs).invB.1.size_le
  moves := fun s hs ho => allMoves_ne_nil basis s (hd.inv s hs).invB.1 ((takGame_over_none basis s).mp ho)
  threat := fun s hs ho _ hsol =>
    tak_threat_real basis s (hd.inv s hs).invB (hd.inv s hs).ana (hd.ply s hs) ((takGame_over_none basis s).mp ho) hsol
  hashNZ := fun s hs ho => hh.nz s hs ((takGame_over_none basis s).mp ho)
  hashOK := fun s t hs ht hos hot heq => by
    have he := hh.inj s t hs ht ((takGame_over_none basis s).mp hos) ((takGame_over_none basis t).mp hot) heq
    have hb := takGame_equalIsBisimOn basis root0
    exact ⟨hb.toMove s t (hd.inv s hs) (hd.inv t ht) he,
      plainWin_congr_on (takGame basis) att hb (hd.inv s hs) (hd.inv t ht) he⟩

end C06
