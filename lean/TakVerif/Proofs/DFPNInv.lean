import TakVerif.Proofs.DFPNArith
import TakVerif.Spec.ForcedWin

/-! The invariant of the depth-first proof-number solver (`Impl/DFPN.lean`): what a pair of numbers
(φ, δ) claims about the position it is attached to, and the assumptions on game, hash and threat oracle
under which every pair the solver ever holds (children, table entries, results) keeps its claim.

(φ, δ) at a position `p` is relative to the side to move at `p`; in terms of the attacker `att`:
`att` to move: φ = 0 claims a forced win of `att` at `p`, δ = 0 claims there is none;
defender to move: δ = 0 claims a forced win of `att`, φ = 0 claims there is none.
Claims of a forced win are path-independent and always kept (`Sem`, first two clauses); claims of
"no forced win" are kept only while no bound was ever derived from a repetition on the search path
(`clean`: the ghost flag `St.ghostRep` is down) — the graph-history-interaction problem. -/
namespace C06
open Tak Tak.PN Tak.DFPN Spec.Game

variable {S M : Type} (G : Game S M) (hash : S → UInt64) (threats : S → Bool × Bool)
  (att : Color)

/-- The assumptions of the DFPN theorems, all relative to a set `Dom` of positions that contains the
roots and is closed under play.  `two` = also what the disproof side needs (the threat oracle is then
trusted for the defender as well).

* `small`, `moves`: an unfinished position has between 1 and 2³²−1 generated moves (`mid` stores the
  count as the initial δ, a `uint32`; 0 would read "the mover has lost").
* `threat`: an immediate threat that `solve` reports for the side to move is a real winning move.
* `hashNZ`: no unfinished position hashes to 0 (an empty table slot *is* an entry for hash 0, with
  φ = δ = 0).
* `hashOK`: unfinished positions with the same hash have the same side to move and the same answer to
  "does `att` have a forced win" (weaker than "no collisions": the hash of Tak ignores the ply counter). -/
structure DfpnOK (two : Bool) (Dom : S → Prop) : Prop where
  alt : Alternating G
  attWB : att = .white ∨ att = .black
  closed : ∀ s s', Dom s → Succ G s s' → Dom s'
  small : ∀ s, Dom s → G.over s = none → (G.moves s).length < 2 ^ 32
  moves : ∀ s, Dom s → G.over s = none → G.moves s ≠ []
  threat : ∀ s, Dom s → G.over s = none → (two = true ∨ G.toMove s = att) → solve G threats s ≠ none →
    ∃ s', Succ G s s' ∧ G.over s' = some (G.toMove s)
  hashNZ : ∀ s, Dom s → G.over s = none → hash s ≠ 0
  hashOK : ∀ s t, Dom s → Dom t → G.over s = none → G.over t = none → hash s = hash t →
    G.toMove s = G.toMove t ∧ (PlainWin G att s ↔ PlainWin G att t)

/-- the numeric shape of every pair the solver holds: φ ≤ ∞, and a solved pair is (0, ∞) or (∞, 0) -/
def Sat (b : PNs) : Prop :=
  b.phi.toNat ≤ 2 ^ 30 ∧ (b.phi = 0 → b.delta = DFPN.infinity) ∧ (b.delta = 0 → b.phi = DFPN.infinity)

/-- what (φ, δ) claims at `p`; the "no forced win" half only when `clean` -/
def Sem (clean : Bool) (p : S) (b : PNs) : Prop :=
  (G.toMove p = att → b.phi = 0 → PlainWin G att p) ∧
  (G.toMove p ≠ att → b.delta = 0 → PlainWin G att p) ∧
  (clean = true → G.toMove p = att → b.delta = 0 → ¬ PlainWin G att p) ∧
  (clean = true → G.toMove p ≠ att → b.phi = 0 → ¬ PlainWin G att p)

def EOK (clean : Bool) (p : S) (b : PNs) : Prop := Sat b ∧ Sem G att clean p b

/-- are "no forced win" claims still trusted in state `st`? -/
def cleanOf (two : Bool) (st : St M) : Bool := two && !st.ghostRep

/-- every table slot is sound for every unfinished position of `Dom` it would be returned for -/
def TableOK (two : Bool) (Dom : S → Prop) (st : St M) : Prop :=
  ∀ i p, Dom p → G.over p = none → hash p = (st.slot i).hash →
    EOK G att (cleanOf two st) p (st.slot i).bounds

variable {G hash threats att}

theorem Sem.mono {c c' : Bool} (h : c' = true → c = true) {p : S} {b : PNs} (hs : Sem G att c p b) :
    Sem G att c' p b :=
  ⟨hs.1, hs.2.1, fun hc => hs.2.2.1 (h hc), fun hc => hs.2.2.2 (h hc)⟩

theorem EOK.mono {c c' : Bool} (h : c' = true → c = true) {p : S} {b : PNs} (hs : EOK G att c p b) :
    EOK G att c' p b := ⟨hs.1, hs.2.mono h⟩

/-- `TableOK` reads the table and the ghost flag only -/
theorem TableOK.congr {two : Bool} {Dom : S → Prop} {st st' : St M} (h : TableOK G hash att two Dom st)
    (ht : st'.table = st.table) (hg : st'.ghostRep = st.ghostRep) : TableOK G hash att two Dom st' := by
  intro i p hp ho hh
  have hs : st'.slot i = st.slot i := by simp only [St.slot, ht]
  rw [hs] at hh ⊢
  have : cleanOf two st' = cleanOf two st := by simp only [cleanOf, hg]
  rw [this]
  exact h i p hp ho hh

/-- raising the ghost flag only weakens what is asked of the table -/
theorem TableOK.taint {two : Bool} {Dom : S → Prop} {st st' : St M} (h : TableOK G hash att two Dom st)
    (ht : st'.table = st.table) (hg : st'.ghostRep = true) : TableOK G hash att two Dom st' := by
  intro i p hp ho hh
  have hs : st'.slot i = st.slot i := by simp only [St.slot, ht]
  rw [hs] at hh ⊢
  refine (h i p hp ho hh).mono ?_
  intro hc
  simp [cleanOf, hg] at hc

/-! ### the pure colour logic of `terminalBounds` -/

def tb (att tm result : Color) : PNs :=
  if (if result == .none then att.flip else result) == tm then { phi := 0, delta := DFPN.infinity } else { phi := DFPN.infinity, delta := 0 }

theorem terminalBounds_eq (g : S) (result : Color) :
    terminalBounds G att g result = tb att (G.toMove g) result := rfl

theorem sat_won : Sat { phi := 0, delta := DFPN.infinity } := by unfold Sat; decide
theorem sat_lost : Sat { phi := DFPN.infinity, delta := 0 } := by unfold Sat; decide

theorem tb_sat (att tm result : Color) : Sat (tb att tm result) := by
  unfold tb
  generalize (if result == Color.none then att.flip else result) = r
  split
  · exact sat_won
  · exact sat_lost

theorem tb_solved (att tm result : Color) :
    (tb att tm result).phi = DFPN.infinity ∨ (tb att tm result).delta = DFPN.infinity := by
  unfold tb
  generalize (if result == Color.none then att.flip else result) = r
  split
  · right; rfl
  · left; rfl

theorem tb_logic (att tm result : Color) (ha : att = .white ∨ att = .black) (ht : tm = .white ∨ tm = .black) :
    (tm = att → (tb att tm result).phi = 0 → result = att) ∧
    (tm ≠ att → (tb att tm result).delta = 0 → result = att) ∧
    (tm = att → (tb att tm result).delta = 0 → result ≠ att) ∧
    (tm ≠ att → (tb att tm result).phi = 0 → result ≠ att) := by
  rcases ha with rfl | rfl <;> rcases ht with rfl | rfl <;> cases result <;> decide

theorem plainWin_over {p : S} {r : Color} (ho : G.over p = some r) (w : PlainWin G att p) : r = att := by
  cases w with
  | terminal h => rw [ho] at h; injection h
  | attacker h => rw [ho] at h; cases h
  | defender h => rw [ho] at h; cases h

/-- a finished position: `terminalBounds` is sound on both sides, whatever the path -/
theorem terminal_eok (alt : Alternating G) (ha : att = .white ∨ att = .black) (clean : Bool) {p : S} {r : Color}
    (ho : G.over p = some r) : EOK G att clean p (terminalBounds G att p r) := by
  rw [terminalBounds_eq]
  obtain ⟨l1, l2, l3, l4⟩ := tb_logic att (G.toMove p) r ha (alt.binary p)
  refine ⟨tb_sat _ _ _, ?_, ?_, ?_, ?_⟩
  · intro ht hz; have := l1 ht hz; subst this; exact .terminal ho
  · intro ht hz; have := l2 ht hz; subst this; exact .terminal ho
  · intro _ ht hz w; exact l3 ht hz (plainWin_over ho w)
  · intro _ ht hz w; exact l4 ht hz (plainWin_over ho w)

/-- a repetition on the path: `terminalBounds(g, NoColor)` never claims a win of the attacker -/
theorem repetition_eok (alt : Alternating G) (ha : att = .white ∨ att = .black) (g : S) :
    EOK G att false g (terminalBounds G att g .none) := by
  rw [terminalBounds_eq]
  obtain ⟨l1, l2, _, _⟩ := tb_logic att (G.toMove g) .none ha (alt.binary g)
  refine ⟨tb_sat _ _ _, ?_, ?_, ?_, ?_⟩
  · intro ht hz; have := l1 ht hz; subst this; cases ha <;> contradiction
  · intro ht hz; have := l2 ht hz; subst this; cases ha <;> contradiction
  · intro h; cases h
  · intro h; cases h

theorem solve_some {p : S} {c : Color} (h : solve G threats p = some c) : c = G.toMove p := by
  unfold solve at h
  simp only at h
  split at h
  · rename_i hw; injection h with h; subst h
    simp only [Bool.and_eq_true, beq_iff_eq] at hw; exact hw.2.symm
  · split at h
    · rename_i hb; injection h with h; subst h
      simp only [Bool.and_eq_true, beq_iff_eq] at hb; exact hb.2.symm
    · cases h

theorem not_plainWin_of_lost_succ {p s' : S} (ho : G.over p = none) (ht : G.toMove p ≠ att)
    (hs : Succ G p s') (hw : ¬ PlainWin G att s') : ¬ PlainWin G att p := by
  intro w
  cases w with
  | terminal h => rw [ho] at h; cases h
  | attacker _ h => exact ht h
  | defender _ _ hall => exact hw (hall s' hs)

/-- a position that `solve` settles: the mover wins at once -/
theorem solved_eok {two : Bool} {Dom : S → Prop} (hk : DfpnOK G hash threats att two Dom) (clean : Bool)
    (hc : clean = true → two = true) {p : S} {c : Color} (hp : Dom p) (ho : G.over p = none)
    (hsol : solve G threats p = some c) : EOK G att clean p (terminalBounds G att p c) := by
  have hcm := solve_some hsol
  subst hcm
  rw [terminalBounds_eq]
  obtain ⟨_, l2, l3, _⟩ := tb_logic att (G.toMove p) (G.toMove p) hk.attWB (hk.alt.binary p)
  refine ⟨tb_sat _ _ _, ?_, ?_, ?_, ?_⟩
  · intro ht _
    obtain ⟨s', hs, ho'⟩ := hk.threat p hp ho (Or.inr ht) (by rw [hsol]; simp)
    rw [ht] at ho'
    exact .attacker ho ht hs (.terminal ho')
  · intro ht hz; exact absurd (l2 ht hz) ht
  · intro _ ht hz; exact absurd ht (l3 ht hz)
  · intro hcl ht _
    obtain ⟨s', hs, ho'⟩ := hk.threat p hp ho (Or.inl (hc hcl)) (by rw [hsol]; simp)
    refine not_plainWin_of_lost_succ ho ht hs ?_
    intro w
    exact ht (plainWin_over ho' w)

/-- the initial numbers of a position not in the table -/
theorem fresh_eok {two : Bool} {Dom : S → Prop} (hk : DfpnOK G hash threats att two Dom) (clean : Bool)
    {p : S} (hp : Dom p) (ho : G.over p = none) :
    EOK G att clean p { phi := 1, delta := UInt32.ofNat (G.moves p).length } := by
  have h1 := hk.small p hp ho
  have h2 : 0 < (G.moves p).length := List.length_pos_iff.mpr (hk.moves p hp ho)
  have hne : UInt32.ofNat (G.moves p).length ≠ 0 := by
    rw [Ne, u32_eq_zero_iff, UInt32.toNat_ofNat']
    have : (G.moves p).length % 2 ^ 32 = (G.moves p).length := Nat.mod_eq_of_lt h1
    omega
  have h10 : (1 : UInt32) ≠ 0 := by decide
  refine ⟨⟨(by decide : (1 : UInt32).toNat ≤ 2 ^ 30), fun h => absurd h h10, fun h => absurd h hne⟩, ?_, ?_, ?_, ?_⟩
  · intro _ h; exact absurd h h10
  · intro _ h; exact absurd h hne
  · intro _ _ h; exact absurd h hne
  · intro _ _ h; exact absurd h h10

/-! ### children -/

/-- a child entry of the node `g` is sound for the position it stands for -/
structure ChildOK (clean : Bool) (g : S) (c : Child S M) : Prop where
  mem : c.move ∈ G.moves g
  app : G.apply g c.move = some c.g
  hash : c.data.hash = hash c.g
  eok : EOK G att clean c.g c.data.bounds
  live : G.over c.g = none ∨ c.data.bounds.phi = DFPN.infinity ∨ c.data.bounds.delta = DFPN.infinity

theorem ChildOK.mono {c c' : Bool} (h : c' = true → c = true) {g : S} {ch : Child S M}
    (hc : ChildOK (G := G) (hash := hash) (att := att) c g ch) :
    ChildOK (G := G) (hash := hash) (att := att) c' g ch :=
  ⟨hc.mem, hc.app, hc.hash, hc.eok.mono h, hc.live⟩

/-- every accepted generated move of `g` has a child, or generation stopped at a child that settles `g` -/
def DCover (g : S) (cs : List (Child S M)) : Prop :=
  (∀ m ∈ G.moves g, ∀ s', G.apply g m = some s' → ∃ c ∈ cs, c.move = m) ∨
  (∃ c ∈ cs, c.data.bounds.delta = 0)

theorem toMove_child (alt : Alternating G) (ha : att = .white ∨ att = .black) {g s' : S} {m : M}
    (happ : G.apply g m = some s') :
    (G.toMove g = att → G.toMove s' ≠ att) ∧ (G.toMove g ≠ att → G.toMove s' = att) := by
  have hf := alt.flips g m s' happ
  have hb := alt.binary g
  rw [hf]
  rcases ha with rfl | rfl <;> rcases hb with h | h <;> rw [h] <;> decide

/-- **`computePNs` is sound**: the numbers of a node computed from sound children that cover its moves -/
theorem computePNs_eok (alt : Alternating G) (ha : att = .white ∨ att = .black) (clean : Bool) {g : S}
    (ho : G.over g = none) (cs : List (Child S M))
    (hcs : ∀ c ∈ cs, ChildOK (G := G) (hash := hash) (att := att) clean g c) (hcov : DCover (G := G) g cs) :
    EOK G att clean g (computePNs cs) := by
  have hphi : ∀ c ∈ cs, c.data.bounds.phi.toNat ≤ 2 ^ 30 := fun c hc => (hcs c hc).eok.1.1
  obtain ⟨_, hge, hdz⟩ := computePNs_delta cs hphi
  -- δ = 0 ⇒ no early stop, so every move is covered
  have hall : (computePNs cs).delta = 0 →
      ∀ s', Succ G g s' → ∃ c ∈ cs, c.g = s' ∧ c.data.bounds.phi = 0 := by
    intro hz s' ⟨m, hm, happ⟩
    have hz' := hdz.mp hz
    rcases hcov with hcov | ⟨c, hc, hcz⟩
    · obtain ⟨c, hc, hcm⟩ := hcov m hm s' happ
      refine ⟨c, hc, ?_, hz' c hc⟩
      have := (hcs c hc).app
      rw [hcm, happ] at this
      exact (Option.some.inj this).symm
    · have h1 := (hcs c hc).eok.1.2.1 (hz' c hc)
      rw [hcz] at h1
      exact absurd h1.symm infinity_ne_zero
  refine ⟨⟨computePNs_phi_le cs, ?_, ?_⟩, ?_, ?_, ?_, ?_⟩
  · -- φ = 0 ⇒ δ = ∞
    intro hz
    obtain ⟨c, hc, hcz⟩ := (computePNs_phi_zero cs).mp hz
    have h1 := (hcs c hc).eok.1.2.2 hcz
    rw [u32_eq_inf_iff] at h1 ⊢
    have := hge c hc
    omega
  · -- δ = 0 ⇒ φ = ∞
    intro hz
    apply computePNs_phi_inf
    intro c hc
    exact (hcs c hc).eok.1.2.1 (hdz.mp hz c hc)
  · intro ht hz
    obtain ⟨c, hc, hcz⟩ := (computePNs_phi_zero cs).mp hz
    have hk := hcs c hc
    exact .attacker ho ht ⟨c.move, hk.mem, hk.app⟩ (hk.eok.2.2.1 ((toMove_child alt ha hk.app).1 ht) hcz)
  · intro ht hz
    refine .defender ho ht ?_
    intro s' hs
    obtain ⟨c, hc, hcg, hcz⟩ := hall hz s' hs
    have hk := hcs c hc
    subst hcg
    exact hk.eok.2.1 ((toMove_child alt ha hk.app).2 ht) hcz
  · intro hcl ht hz w
    cases w with
    | terminal h => rw [ho] at h; cases h
    | attacker _ _ hs hw =>
      obtain ⟨c, hc, hcg, hcz⟩ := hall hz _ hs
      have hk := hcs c hc
      subst hcg
      exact hk.eok.2.2.2.2 hcl ((toMove_child alt ha hk.app).1 ht) hcz hw
    | defender _ h => exact h ht
  · intro hcl ht hz
    obtain ⟨c, hc, hcz⟩ := (computePNs_phi_zero cs).mp hz
    have hk := hcs c hc
    exact not_plainWin_of_lost_succ ho ht ⟨c.move, hk.mem, hk.app⟩
      (hk.eok.2.2.2.1 hcl ((toMove_child alt ha hk.app).2 ht) hcz)

end C06
