import TakVerif.Proofs.TEIClient
import TakVerif.Proofs.MoveRT

/-! Lemmas for C17 (client side): the `bestmove` line.  The short PTN spelling of a canonical move value is
non-empty and free of white space, so the client's tokeniser sees exactly two words, and `ParseMove` reads
the move back (C11). -/
set_option linter.unusedVariables false
set_option linter.unusedSimpArgs false
namespace Proofs.TEIClient
open Tak Tak.TEI Tak.TEIClient Go Spec.TEIClient Notation Tak.PTN

theorem noWs_of_range (b : UInt8) (h1 : 33 ≤ b.toNat) : NoWs b := by
  unfold NoWs; omega

theorem sum_ge_mem (ds : List Nat) : ∀ d ∈ ds, d ≤ ds.foldl (· + ·) 0 := by
  induction ds with
  | nil => intro d hd; cases hd
  | cons a rest ih =>
    intro d hd
    simp only [List.foldl_cons, Nat.zero_add]
    rw [foldl_add]
    rcases List.mem_cons.mp hd with e | e
    · subst e; omega
    · have := ih d e; omega

/-- the short PTN spelling of a canonical move: at least two bytes, all printable and none a space -/
theorem noWs_formatMove (size : Nat) (m : Move) (h : LegalShape size m) :
    formatMove m false ≠ [] ∧ ∀ b ∈ formatMove m false, NoWs b := by
  obtain ⟨hx0, hx1, hy0, hy1, h3, h8⟩ := legalShape_bounds h
  have hkind := legalShape_kind h
  obtain ⟨x, y, t, s⟩ := m
  simp only at hx0 hx1 hy0 hy1 hkind
  have hxc : (byteOfInt (97 + x)).toNat = (97 + x).toNat := byteOfInt_toNat _ (by omega) (by omega)
  have hyc : (byteOfInt (49 + y)).toNat = (49 + y).toNat := byteOfInt_toNat _ (by omega) (by omega)
  have hbx : NoWs (byteOfInt (97 + x)) := noWs_of_range _ (by rw [hxc]; omega)
  have hby : NoWs (byteOfInt (49 + y)) := noWs_of_range _ (by rw [hyc]; omega)
  rcases hkind with ⟨hp, hz⟩ | ⟨_, hs, hne, hds, hsum, _⟩
  · subst hz
    rcases placeType_cases t hp with rfl | rfl | rfl
    · have : formatMove ⟨x, y, Facts.mtPlaceFlat, 0#32⟩ false = [byteOfInt (97 + x), byteOfInt (49 + y)] := by
        simp [formatMove, Facts.mtPlaceFlat, Facts.mtPlaceCapstone, Facts.mtPlaceStanding, Facts.mtSlideLeft,
          Facts.mtSlideRight, Facts.mtSlideUp, Facts.mtSlideDown]
      rw [this]
      refine ⟨by simp, ?_⟩
      intro b hb
      simp only [List.mem_cons, List.mem_nil_iff, or_false] at hb
      rcases hb with rfl | rfl <;> assumption
    · have : formatMove ⟨x, y, Facts.mtPlaceStanding, 0#32⟩ false = [83, byteOfInt (97 + x), byteOfInt (49 + y)] := by
        simp [formatMove, Facts.mtPlaceFlat, Facts.mtPlaceCapstone, Facts.mtPlaceStanding, Facts.mtSlideLeft,
          Facts.mtSlideRight, Facts.mtSlideUp, Facts.mtSlideDown]
      rw [this]
      refine ⟨by simp, ?_⟩
      intro b hb
      simp only [List.mem_cons, List.mem_nil_iff, or_false] at hb
      rcases hb with rfl | rfl | rfl
      · decide
      · assumption
      · assumption
    · have : formatMove ⟨x, y, Facts.mtPlaceCapstone, 0#32⟩ false = [67, byteOfInt (97 + x), byteOfInt (49 + y)] := by
        simp [formatMove, Facts.mtPlaceFlat, Facts.mtPlaceCapstone, Facts.mtPlaceStanding, Facts.mtSlideLeft,
          Facts.mtSlideRight, Facts.mtSlideUp, Facts.mtSlideDown]
      rw [this]
      refine ⟨by simp, ?_⟩
      intro b hb
      simp only [List.mem_cons, List.mem_nil_iff, or_false] at hb
      rcases hb with rfl | rfl | rfl
      · decide
      · assumption
      · assumption
  · rw [formatMove_slide x y t s false hs (elems_ne_nil_ne_zero s hne)]
    refine ⟨by simp, ?_⟩
    have hdig : ∀ e, e ≤ 8 → NoWs (UInt8.ofNat (48 + e)) := by
      intro e he
      apply noWs_of_range
      rw [toNat_digit e (by omega)]
      omega
    have hdir : NoWs (dirChar t) := by
      rcases slideType_cases t hs with rfl | rfl | rfl | rfl <;> decide
    intro b hb
    simp only [List.mem_append, List.mem_cons, List.mem_nil_iff, or_false] at hb
    rcases hb with (hb | hb | hb | hb) | hb
    · split at hb
      · simp only [List.mem_singleton] at hb
        subst hb
        exact hdig _ (by omega)
      · cases hb
    · subst hb; exact hbx
    · subst hb; exact hby
    · subst hb; exact hdir
    · split at hb
      · simp only [digitsOf, List.mem_map] at hb
        obtain ⟨e, he, rfl⟩ := hb
        exact hdig e (hds e he).2
      · cases hb

/-- the client's tokeniser on the engine's `bestmove` line -/
theorem fields_bestmove (size : Nat) (m : Move) (h : LegalShape size m) :
    fields ("bestmove " ++ str (formatMove m false)).toList = ["bestmove", str (formatMove m false)] := by
  obtain ⟨hne, hws⟩ := noWs_formatMove size m h
  have hall : ∀ w ∈ [lit "bestmove", formatMove m false], w ≠ [] ∧ ∀ b ∈ w, NoWs b := by
    intro w hw
    simp only [List.mem_cons, List.mem_nil_iff, or_false] at hw
    rcases hw with rfl | rfl
    · decide
    · exact ⟨hne, hws⟩
  have := fields_join _ hall
  have e : ("bestmove " ++ str (formatMove m false)).toList = chars (join 32 [lit "bestmove", formatMove m false]) := by
    rw [String.toList_append, toList_str]
    simp only [join, chars_append, chars_cons]
    rfl
  rw [e, this]
  rfl

/-- … and `ParseMove` reads the move back -/
theorem readBestmove_formatMove (size : Nat) (m : Move) (h : LegalShape size m) :
    readBestmove ["bestmove", str (formatMove m false)] = .ok m := by
  unfold readBestmove
  simp only [lit_str]
  have := ptn_rt size m h false [] (by intro b hb; cases hb)
  rw [List.append_nil] at this
  rw [this]

/-- the first word of the engine's info line is `info` -/
theorem fields_infoLine (env : Env) (r : SearchRes) : ∃ ws, fields (infoLine env r).toList = "info" :: ws := by
  have : ∃ rest, (infoLine env r).toList = ['i', 'n', 'f', 'o'] ++ ' ' :: rest := by
    unfold infoLine
    simp only [String.toList_append, List.append_assoc]
    exact ⟨_, rfl⟩
  obtain ⟨rest, hr⟩ := this
  rw [hr, fields_word_space _ _ (by simp) (by intro c hc; simp only [List.mem_cons, List.mem_nil_iff, or_false] at hc; rcases hc with rfl | rfl | rfl | rfl <;> decide)]
  exact ⟨_, rfl⟩

end Proofs.TEIClient
