import TakVerif.Impl.Minimax

/-! Helper lemmas for the search theorems (C04 alpha-beta part, C05, C16): partial-correctness
predicate for `Except`, the maximum over a list, negamax bounds. -/
namespace Search
open Tak (Err)

/-- partial correctness: if the computation returns a value (no Go panic), the value satisfies `Q` -/
def Sat {α : Type} (x : Except Err α) (Q : α → Prop) : Prop := ∀ a, x = .ok a → Q a

theorem Sat.ok {α : Type} {a : α} {Q : α → Prop} (h : Q a) : Sat (.ok a : Except Err α) Q := by
  intro b hb; cases hb; exact h

theorem Sat.error {α : Type} {e : Err} {Q : α → Prop} : Sat (.error e : Except Err α) Q := by
  intro b hb; cases hb

theorem Sat.mono {α : Type} {x : Except Err α} {Q R : α → Prop} (h : Sat x Q) (hqr : ∀ a, Q a → R a) : Sat x R :=
  fun a ha => hqr a (h a ha)

/-! ### maximum over a list -/

theorem maxOver_ge {α : Type} (f : α → Int) (lo : Int) (l : List α) : ∀ x ∈ l, f x ≤ maxOver f lo l := by
  induction l with
  | nil => intro x hx; cases hx
  | cons a t ih =>
    intro x hx
    cases t with
    | nil =>
      simp only [List.mem_cons, List.not_mem_nil, or_false] at hx
      subst hx; simp [maxOver]
    | cons b t =>
      simp only [maxOver]
      rcases List.mem_cons.mp hx with h | h
      · subst h; omega
      · have := ih x h; omega

theorem maxOver_attained {α : Type} (f : α → Int) (lo : Int) (l : List α) (hne : l ≠ []) :
    ∃ x ∈ l, maxOver f lo l = f x := by
  induction l with
  | nil => exact absurd rfl hne
  | cons a t ih =>
    cases t with
    | nil => exact ⟨a, by simp, by simp [maxOver]⟩
    | cons b t =>
      obtain ⟨x, hx, hm⟩ := ih (by simp)
      simp only [maxOver]
      by_cases h : f a ≥ maxOver f lo (b :: t)
      · exact ⟨a, by simp, by omega⟩
      · exact ⟨x, List.mem_cons_of_mem _ hx, by omega⟩

/-- characterisation of the maximum of a non-empty list -/
theorem maxOver_eq {α : Type} (f : α → Int) (lo : Int) (l : List α) (v : Int)
    (hub : ∀ x ∈ l, f x ≤ v) (hat : ∃ x ∈ l, v = f x) : maxOver f lo l = v := by
  obtain ⟨x, hx, hv⟩ := hat
  have h1 := maxOver_ge f lo l x hx
  obtain ⟨y, hy, hm⟩ := maxOver_attained f lo l (List.ne_nil_of_mem hx)
  have h2 := hub y hy
  omega

end Search

namespace Search
open Tak (Err)

theorem Sat.bind {α β : Type} {x : Except Err α} {f : α → Except Err β} {Q : β → Prop}
    (h : Sat x (fun a => Sat (f a) Q)) : Sat (x >>= f) Q := by
  intro b hb
  cases x with
  | error e => cases hb
  | ok a => exact h a rfl b hb

theorem Sat.pure {α : Type} {a : α} {Q : α → Prop} (h : Q a) : Sat (pure a : Except Err α) Q :=
  Sat.ok h

theorem Sat.throw {α : Type} {e : Err} {Q : α → Prop} : Sat (throw e : Except Err α) Q :=
  Sat.error

end Search

namespace Search
variable {M : Type}

/-- a completed iteration ends with `go` or `done`, in both cases with the same new loop state `iterAcc` and the
same engine state -/
theorem iterDone_cases (cfg : Cfg) (base i : Int) (a : ALoop M) (next : List M) (nv : Int) (s : Eng M) :
    iterDone cfg base i a next nv s = .go (iterAcc i a next nv s) s ∨
    iterDone cfg base i a next nv s = .done (iterAcc i a next nv s) s := by
  unfold iterDone
  dsimp only
  repeat' split
  all_goals first | exact Or.inl rfl | exact Or.inr rfl

end Search
