import TakVerif.Proofs.SearchPvs

/-! Verdicts with a transposition table (C05, second half): three-valued soundness of everything the search
returns and stores, for any table size and content history, any move order and any cancellation pattern. -/
namespace Search
open Tak (Err)

variable {P M : Type}

/-- the mover has a forced win: some depth-limited negamax value is above the win threshold -/
def Win (g : Game P M) (p : P) : Prop := ∃ d, negamax g d p > Facts.winThreshold
/-- the mover is lost against best play -/
def Loss (g : Game P M) (p : P) : Prop := ∃ d, negamax g d p < -Facts.winThreshold

/-- the evaluation is decisive only for finished games (C18: heuristic scores stay inside the threshold) and every
unfinished position has a legal move -/
structure EvalOK (g : Game P M) : Prop where
  inside : ∀ p, g.over p = false → -Facts.winThreshold ≤ g.eval p ∧ g.eval p ≤ Facts.winThreshold
  live : ∀ p, g.over p = false → kids g p ≠ []

/-- decisive values are stable under deepening -/
theorem decisive_mono {g : Game P M} (he : EvalOK g) :
    ∀ d p, (negamax g d p > Facts.winThreshold → negamax g (d + 1) p > Facts.winThreshold) ∧
           (negamax g d p < -Facts.winThreshold → negamax g (d + 1) p < -Facts.winThreshold) := by
  intro d
  induction d with
  | zero =>
    intro p
    by_cases hov : g.over p = true
    · rw [negamax_over g 0 p hov, negamax_over g 1 p hov]; exact ⟨id, id⟩
    · have hov' : g.over p = false := by simpa using hov
      have := he.inside p hov'
      rw [negamax_zero]
      constructor <;> intro h <;> omega
  | succ d ih =>
    intro p
    by_cases hov : g.over p = true
    · rw [negamax_over g _ p hov, negamax_over g _ p hov]; exact ⟨id, id⟩
    · have hov' : g.over p = false := by simpa using hov
      have hne := he.live p hov'
      rw [negamax_succ g d p hov', negamax_succ g (d + 1) p hov']
      constructor
      · intro h
        obtain ⟨x, hx, hmx⟩ := maxOver_attained (fun c => -(negamax g d c.2)) (Facts.minEval - 1) (kids g p) hne
        have h1 := (ih x.2).2 (by rw [hmx] at h; omega)
        have h2 := maxOver_ge (fun c => -(negamax g (d + 1) c.2)) (Facts.minEval - 1) (kids g p) x hx
        omega
      · intro h
        obtain ⟨x, hx, hmx⟩ := maxOver_attained (fun c => -(negamax g (d + 1) c.2)) (Facts.minEval - 1) (kids g p) hne
        have h0 := maxOver_ge (fun c => -(negamax g d c.2)) (Facts.minEval - 1) (kids g p) x hx
        have h1 := (ih x.2).1 (by omega)
        rw [hmx]
        omega

theorem win_mono_le {g : Game P M} (he : EvalOK g) (p : P) (d d' : Nat) (hd : d ≤ d')
    (h : negamax g d p > Facts.winThreshold) : negamax g d' p > Facts.winThreshold := by
  induction d' with
  | zero => have : d = 0 := by omega
            subst this; exact h
  | succ k ih =>
    by_cases hk : d = k + 1
    · subst hk; exact h
    · exact (decisive_mono he k p).1 (ih (by omega))

/-- a legal move to a lost position wins -/
theorem win_of_child {g : Game P M} (hg : GameOK g) {p : P} (hov : g.over p = false) {m : M} {c : P}
    (hap : g.apply p m = .ok c) (hl : Loss g c) : Win g p := by
  obtain ⟨d, hd⟩ := hl
  obtain ⟨m', hm', hap'⟩ := hg.complete p m c hap
  refine ⟨d + 1, ?_⟩
  rw [negamax_succ g d p hov]
  have := maxOver_ge (fun c => -(negamax g d c.2)) (Facts.minEval - 1) (kids g p) (m', c) (mem_kids.mpr ⟨hm', hap'⟩)
  dsimp only at this
  omega

/-- finitely many won positions are won at a common depth -/
theorem common_depth {g : Game P M} (he : EvalOK g) (l : List (M × P)) (h : ∀ x ∈ l, Win g x.2) :
    ∃ D, ∀ x ∈ l, negamax g D x.2 > Facts.winThreshold := by
  induction l with
  | nil => exact ⟨0, fun x hx => by cases hx⟩
  | cons a t ih =>
    obtain ⟨D, hD⟩ := ih (fun x hx => h x (List.mem_cons_of_mem _ hx))
    obtain ⟨d, hd⟩ := h a (by simp)
    refine ⟨max D d, ?_⟩
    intro x hx
    rcases List.mem_cons.mp hx with rfl | hx
    · exact win_mono_le he _ d _ (Nat.le_max_right _ _) hd
    · exact win_mono_le he _ D _ (Nat.le_max_left _ _) (hD x hx)

/-- if every legal move leads to a position won by the opponent, the position is lost -/
theorem loss_of_children {g : Game P M} (he : EvalOK g) {p : P} (hov : g.over p = false)
    (h : ∀ x ∈ kids g p, Win g x.2) : Loss g p := by
  obtain ⟨D, hD⟩ := common_depth he (kids g p) h
  refine ⟨D + 1, ?_⟩
  rw [negamax_succ g D p hov]
  obtain ⟨x, hx, hmx⟩ := maxOver_attained (fun c => -(negamax g D c.2)) (Facts.minEval - 1) (kids g p) (he.live p hov)
  have := hD x hx
  rw [hmx]
  omega


/-! ### sound results and sound tables -/

/-- what a search result `r` for the window `(α, β)` may be trusted for: above `α` it is (at least) a lower
bound, below `β` (at most) an upper bound -/
def SoundRes (g : Game P M) (p : P) (α β r : Int) : Prop :=
  (α < r → r > Facts.winThreshold → Win g p) ∧ (r < β → r < -Facts.winThreshold → Loss g p)

/-- a table entry read for position `p` -/
def SoundE (g : Game P M) (e : TEntry M) (p : P) : Prop :=
  ((e.bound = Facts.lowerBound ∨ e.bound = Facts.exactBound) → e.value > Facts.winThreshold → Win g p) ∧
  ((e.bound = Facts.upperBound ∨ e.bound = Facts.exactBound) → e.value < -Facts.winThreshold → Loss g p)

/-- every entry is sound for every position that would find it -/
def TableSound (g : Game P M) (s : Eng M) : Prop :=
  ∀ (i : Nat) (e : TEntry M), s.table[i]? = some e → ∀ p, g.hash p = e.hash → SoundE g e p

/-- distinct positions have distinct hashes (the `NoCollision` hypothesis) -/
def HashInj (g : Game P M) : Prop := ∀ p q, g.hash p = g.hash q → p = q

/-- what the table theorems really use of the hash (weaker than `HashInj`, and satisfiable for a game like Tak where
the hash ignores the ply counter): positions with the same hash are alike for the three-valued verdicts — at every
depth their negamax values lie on the same side of both thresholds -/
def HashOK (g : Game P M) : Prop :=
  ∀ p q, g.hash p = g.hash q → ∀ d,
    (negamax g d p > Facts.winThreshold ↔ negamax g d q > Facts.winThreshold) ∧
    (negamax g d p < -Facts.winThreshold ↔ negamax g d q < -Facts.winThreshold)

theorem HashInj.ok {g : Game P M} (h : HashInj g) : HashOK g := by
  intro p q e d
  rw [h p q e]
  exact ⟨Iff.rfl, Iff.rfl⟩

/-- an entry that is sound for `p` is sound for every position with the hash of `p` -/
theorem SoundE.congr {g : Game P M} (hk : HashOK g) {p q : P} (e : g.hash q = g.hash p) {te : TEntry M}
    (h : SoundE g te p) : SoundE g te q := by
  constructor
  · intro hb hv
    obtain ⟨d, hd⟩ := h.1 hb hv
    exact ⟨d, ((hk q p e d).1).mpr hd⟩
  · intro hb hv
    obtain ⟨d, hd⟩ := h.2 hb hv
    exact ⟨d, ((hk q p e d).2).mpr hd⟩

theorem TableSound.setEntry {g : Game P M} {s : Eng M} (h : TableSound g s) (i : Nat) (e : TEntry M)
    (he : ∀ p, g.hash p = e.hash → SoundE g e p) : TableSound g (s.setEntry i e) := by
  intro j e' hj p hp
  unfold Eng.setEntry at hj
  dsimp only at hj
  rw [Array.getElem?_setIfInBounds] at hj
  split at hj
  · split at hj
    · cases hj; exact he p hp
    · cases hj
  · exact h j e' hj p hp

theorem TableSound.evict {g : Game P M} {s : Eng M} (h : TableSound g s) (k : H) : TableSound g (s.evict k) := by
  unfold Eng.evict
  split
  · exact h
  · rename_i e1 he1
    split
    · intro j e' hj p hp
      dsimp only at hj
      rw [Array.getElem?_setIfInBounds] at hj
      split at hj
      · split at hj
        · cases hj; exact h _ e1 he1 p hp
        · cases hj
      · exact h j e' hj p hp
    · exact h

theorem ttGet_sound {g : Game P M} {s : Eng M} (h : TableSound g s) (p : P) :
    Sat (ttGet s (g.hash p)) (fun te => ∀ e, te = some e → SoundE g e p) := by
  unfold ttGet
  split
  · exact Sat.ok (fun e he => by cases he)
  · split
    · exact Sat.error
    · split
      · rename_i e1 e2 h1 h2
        split
        · rename_i hh
          refine Sat.ok (fun e he => ?_)
          cases he
          exact h _ e1 h1 p (by have := hh; simp only [beq_iff_eq] at this; exact this.symm)
        · split
          · rename_i hh
            refine Sat.ok (fun e he => ?_)
            cases he
            exact h _ e2 h2 p (by have := hh; simp only [beq_iff_eq] at this; exact this.symm)
          · exact Sat.ok (fun e he => by cases he)
      · exact Sat.error


theorem teSuffices_sound {g : Game P M} {e : TEntry M} {p : P} (he : SoundE g e p) (depth α β : Int)
    (h : teSuffices e depth α β = true) : SoundRes g p α β e.value := by
  unfold teSuffices at h
  simp only [Bool.or_eq_true, Bool.and_eq_true, decide_eq_true_eq, beq_iff_eq] at h
  obtain ⟨h1, h2⟩ := he
  constructor
  · intro ha hw
    rcases h with ⟨_, (hb | ⟨hv, _⟩) | ⟨_, hb⟩⟩ | ⟨hb, _⟩
    · exact h1 (Or.inr hb) hw
    · omega
    · exact h1 (Or.inl hb) hw
    · exact h1 (Or.inr hb) hw
  · intro hb' hl
    rcases h with ⟨_, (hb | ⟨_, hb⟩) | ⟨hv, _⟩⟩ | ⟨hb, _⟩
    · exact h2 (Or.inr hb) hl
    · exact h2 (Or.inl hb) hl
    · omega
    · exact h2 (Or.inr hb) hl

theorem ttProbe_sound {g : Game P M} (p : P) (ply : Nat) (depth α β : Int) {s : Eng M} (h : TableSound g s) :
    Sat (ttProbe g p ply depth α β s) (fun x => TableSound g x.2 ∧
      match x.1 with
      | .inl r => SoundRes g p α β r.2
      | .inr _ => True) := by
  unfold ttProbe
  apply Sat.bind
  refine (ttGet_sound h p).mono ?_
  intro te hte
  cases te with
  | none => exact Sat.pure ⟨h, trivial⟩
  | some e =>
    dsimp only
    split
    · rename_i hsuff
      split
      · apply Sat.bind; intro pv0 _
        exact Sat.pure ⟨h, teSuffices_sound (hte e rfl) depth α β hsuff⟩
      · exact Sat.pure ⟨h, trivial⟩
      · exact Sat.throw
    · exact Sat.pure ⟨h, trivial⟩

theorem leaf_sound {g : Game P M} (p : P) (α β : Int) {s : Eng M} (h : TableSound g s)
    :
    TableSound g (leaf g p (g.over p) s).2 ∧ SoundRes g p α β (leaf g p (g.over p) s).1.2 := by
  refine ⟨h, ?_⟩
  have hv : (leaf g p (g.over p) s).1.2 = g.eval p := rfl
  rw [hv]
  constructor
  · intro _ hw; exact ⟨0, hw⟩
  · intro _ hl; exact ⟨0, hl⟩


theorem ttPut_sound {g : Game P M} (o : Oracle M) {s : Eng M} (h : TableSound g s) (k : H) :
    Sat (ttPut o s k) (fun x => TableSound g x.2) := by
  unfold ttPut
  split
  · exact Sat.ok h
  · dsimp only
    split
    · exact Sat.ok h
    · intro x hx
      cases hi : ttSlotIdx (load o s).2 k with
      | error e => rw [hi] at hx; cases hx
      | ok i =>
        rw [hi] at hx
        have : x = (some i, (load o s).2.evict k) := (Except.ok.inj hx).symm
        rw [this]
        exact TableSound.evict (s := (load o s).2) h k

/-- the facts a node has established about its position when it stores / returns `a.α` -/
structure NodeFacts (g : Game P M) (p : P) (improved : Bool) (v β : Int) : Prop where
  win : improved = true → v > Facts.winThreshold → Win g p
  loss : (improved = false ∨ v < β) → v < -Facts.winThreshold → Loss g p

theorem pvStore_sound {g : Game P M} (hinj : HashOK g) (o : Oracle M) (p : P) (depth β : Int) (a : PvAcc M)
    {s : Eng M} (h : TableSound g s) (hf : NodeFacts g p a.improved a.α β) :
    Sat (pvStore o (g.hash p) depth β a s) (fun x => TableSound g x.2 ∧ x.1.2 = a.α) := by
  unfold pvStore
  apply Sat.bind
  refine (ttPut_sound o h (g.hash p)).mono ?_
  rintro ⟨slot?, s1⟩ hs1
  dsimp only at hs1 ⊢
  cases slot? with
  | none => exact Sat.pure ⟨hs1, rfl⟩
  | some slot =>
    dsimp only
    split
    · split
      · refine Sat.pure ⟨?_, rfl⟩
        have hs1' : TableSound g (if (!a.improved) = true then
            { s1 with st := { s1.st with allNodes := s1.st.allNodes + 1 } } else s1) := by
          split <;> exact hs1
        refine TableSound.setEntry hs1' slot _ ?_
        intro q hq
        dsimp only at hq
        refine SoundE.congr hinj hq ?_
        constructor
        · intro hb hw
          dsimp only at hb hw
          cases hi : a.improved with
          | false =>
            rw [hi] at hb
            simp only [Bool.not_false, if_true] at hb
            simp only [Facts.upperBound, Facts.lowerBound, Facts.exactBound] at hb
            omega
          | true => exact hf.win hi hw
        · intro hb hl
          dsimp only at hb hl
          cases hi : a.improved with
          | false => exact hf.loss (Or.inl hi) hl
          | true =>
            rw [hi] at hb
            simp only [Bool.not_true, Bool.false_eq_true, if_false] at hb
            by_cases hge : a.α ≥ β
            · simp only [hge, decide_true, if_true] at hb
              simp only [Facts.upperBound, Facts.lowerBound, Facts.exactBound] at hb
              omega
            · exact hf.loss (Or.inr (by omega)) hl
      · exact Sat.pure ⟨hs1, rfl⟩
    · exact Sat.throw


/-! ### contracts with a table -/

def PvOKt (g : Game P M) (f : PvFn P M) : Prop :=
  ∀ p ply depth pv α β s, TableSound g s → α < β →
    Sat (f p ply depth pv α β s) (fun x => TableSound g x.2 ∧ SoundRes g p α β x.1.2)

def ZwOKt (g : Game P M) (f : ZwFn P M) : Prop :=
  ∀ p ply depth pv α cut s, TableSound g s →
    Sat (f p ply depth pv α cut s) (fun x => TableSound g x.2 ∧ SoundRes g p α (α + 1) x.1.2)

/-- what the value `v = -r` obtained for a child `c` at running `α` may be trusted for -/
def ChildSound (g : Game P M) (c : P) (α β v : Int) : Prop :=
  (α < v → v > Facts.winThreshold → Loss g c) ∧ (v < β → v < -Facts.winThreshold → Win g c)

theorem pvChild_sound {g : Game P M} {cpv : PvFn P M} {czw : ZwFn P M} (hp : PvOKt g cpv) (hz : ZwOKt g czw)
    (i : Nat) (child : P) (ply : Nat) (depth : Int) (tail : List M) (α β : Int) (s : Eng M)
    (hs : TableSound g s) (hab : α < β) :
    Sat (pvChild cpv czw i child ply depth tail α β s)
      (fun x => TableSound g x.2 ∧ ChildSound g child α β (-x.1.2)) := by
  unfold pvChild
  split
  · apply Sat.bind
    refine (hz child (ply + 1) (depth - 1) tail (-α - 1) true s hs).mono ?_
    rintro ⟨⟨ms, v⟩, s'⟩ ⟨hts, hsr⟩
    dsimp only at hts hsr ⊢
    split
    · rename_i hcond
      refine (hp child (ply + 1) (depth - 1) tail (-β) (-α)
        { s' with st := { s'.st with reSearch := s'.st.reSearch + 1 } } hts (by omega)).mono ?_
      rintro ⟨⟨ms2, v2⟩, s2⟩ ⟨hts2, hsr2⟩
      dsimp only at hts2 hsr2 ⊢
      refine ⟨hts2, ?_, ?_⟩
      · intro h1 h2; exact hsr2.2 (by omega) (by omega)
      · intro h1 h2; exact hsr2.1 (by omega) (by omega)
    · rename_i hcond
      simp only [Bool.and_eq_true, decide_eq_true_eq, not_and] at hcond
      apply Sat.pure
      refine ⟨hts, ?_, ?_⟩
      · intro h1 h2; dsimp only at h1 h2; exact hsr.2 (by omega) (by omega)
      · intro h1 h2
        dsimp only at h1 h2
        exact hsr.1 (by have := hcond; omega) (by omega)
  · refine (hp child (ply + 1) (depth - 1) tail (-β) (-α) s hs (by omega)).mono ?_
    rintro ⟨⟨ms2, v2⟩, s2⟩ ⟨hts2, hsr2⟩
    dsimp only at hts2 hsr2 ⊢
    refine ⟨hts2, ?_, ?_⟩
    · intro h1 h2; exact hsr2.2 (by omega) (by omega)
    · intro h1 h2; exact hsr2.1 (by omega) (by omega)


/-! ### PV nodes -/

def TInv (g : Game P M) (p : P) (α0 β : Int) (a : PvAcc M) (s : Eng M) : Prop :=
  TableSound g s ∧ a.α < β ∧ α0 ≤ a.α ∧ (a.improved = false → a.α = α0) ∧
  (a.improved = true → a.α > Facts.winThreshold → Win g p)

def TCov (g : Game P M) (a : PvAcc M) (c : P) : Prop := a.α < -Facts.winThreshold → Win g c

def TQb (g : Game P M) (p : P) (β : Int) (a : PvAcc M) (s : Eng M) : Prop :=
  TableSound g s ∧ a.improved = true ∧ β ≤ a.α ∧ (a.α > Facts.winThreshold → Win g p)

/-- a cancelled loop returns `(nil, 0)` -/
def TQr (g : Game P M) (r : Res M) (s : Eng M) : Prop := TableSound g s ∧ r.2 = 0

theorem recordCut_sound [DecidableEq M] {g : Game P M} {s : Eng M} (h : TableSound g s) (m : M) (mv ply : Nat) :
    Sat (recordCut s m mv ply) (fun s' => TableSound g s') := by
  unfold recordCut
  dsimp only
  split
  · split
    · exact Sat.error
    · exact Sat.ok h
  · exact Sat.ok h

theorem afterChild_cases {σ : Type} (o : Oracle M) (a : σ) (s : Eng M) :
    afterChild o a s = (.ret (none, 0), (load o s).2) ∨ afterChild o a s = (.next a, (load o s).2) := by
  unfold afterChild
  cases h : (load o s).1 with
  | true => left; simp [h]
  | false => right; simp [h]

theorem pvBody_sound [DecidableEq M] {g : Game P M} (hg : GameOK g) {o : Oracle M}
    {cpv : PvFn P M} {czw : ZwFn P M} (hp : PvOKt g cpv) (hz : ZwOKt g czw)
    (p : P) (hov : g.over p = false) (ply : Nat) (depth α0 β : Int) :
    BodyOK g p (pvBody g o cpv czw ply depth β false) (TInv g p α0 β) (TCov g) (TQb g p β) (TQr g) := by
  intro m c a s hap hinv
  obtain ⟨hts, hlt, hge, hni, hwin⟩ := hinv
  unfold pvBody
  simp only [Bool.false_and, Bool.false_eq_true, if_false]
  apply Sat.bind
  intro sm _
  apply Sat.bind
  refine (pvChild_sound hp hz (a.i + 1) c ply depth (a.best.drop 1) a.α β { s with stackM := sm } hts hlt).mono ?_
  rintro ⟨⟨ms, v⟩, s'⟩ ⟨hts', hcs⟩
  dsimp only at hts' hcs ⊢
  obtain ⟨hc1, hc2⟩ := hcs
  split
  · rename_i hgt
    apply Sat.bind
    intro pv0 _
    have hwin' : -v > Facts.winThreshold → Win g p := fun hw => win_of_child hg hov hap (hc1 (by omega) hw)
    split
    · rename_i hgeb
      apply Sat.bind
      refine (recordCut_sound (s := { s' with pv0 := pv0 }) hts' m (a.i + 1) ply).mono ?_
      intro s'' hts''
      exact Sat.pure ⟨hts'', rfl, hgeb, hwin'⟩
    · rename_i hnge
      apply Sat.pure
      rcases afterChild_cases o ({ a with i := a.i + 1, improved := true, best := m :: ms.getD [], α := -v } : PvAcc M)
        { s' with pv0 := pv0 } with h | h
      · rw [h]; exact ⟨hts', rfl⟩
      · rw [h]
        refine ⟨⟨hts', by dsimp only; omega, by dsimp only; omega, (fun hi => by cases hi), fun _ => hwin'⟩, ?_, ?_⟩
        · intro c' hc'; unfold TCov at hc' ⊢; dsimp only; intro hl; exact hc' (by omega)
        · intro c' hc'; subst hc'; unfold TCov; dsimp only; intro hl; exact hc2 (by omega) hl
  · rename_i hngt
    apply Sat.pure
    rcases afterChild_cases o ({ a with i := a.i + 1 } : PvAcc M) s' with h | h
    · rw [h]; exact ⟨hts', rfl⟩
    · rw [h]
      refine ⟨⟨hts', hlt, hge, hni, hwin⟩, fun c' hc' => hc', ?_⟩
      intro c' hc'; subst hc'; unfold TCov; dsimp only; intro hl; exact hc2 (by omega) (by omega)


theorem pvInitBest_sound {g : Game P M} (ply : Nat) (pv : List M) {s : Eng M} (h : TableSound g s) :
    Sat (pvInitBest ply pv s) (fun x => TableSound g x.2) := by
  unfold pvInitBest
  split
  · apply Sat.bind; intro pv0 _; exact Sat.pure h
  · apply Sat.bind; intro x _; exact Sat.pure h

theorem pvNode_sound [DecidableEq M] {g : Game P M} (hg : GameOK g) (he : EvalOK g) (hinj : HashOK g)
    {cfg : SOpts} (hpr : Precise cfg) {o : Oracle M} (hord : OrderOK o) (frame : Bool)
    {cpv : PvFn P M} {czw : ZwFn P M} (hp : PvOKt g cpv) (hz : ZwOKt g czw) :
    PvOKt g (pvNode g cfg o frame cpv czw) := by
  intro p ply depth pv α β s hts hab
  unfold pvNode
  dsimp only
  split
  · exact Sat.pure (leaf_sound p α β hts)
  · rename_i hnl
    simp only [Bool.or_eq_true, decide_eq_true_eq, not_or, Int.not_le, Bool.not_eq_true] at hnl
    obtain ⟨hdpos, hov⟩ := hnl
    split
    · exact Sat.throw
    · have hdd : (cfg.dedupSymmetry && decide (g.moveNumber p < Facts.maxDedup)) = false := by
        rw [hpr.dd]; rfl
      apply Sat.bind
      refine Sat.mono (ttProbe_sound p ply depth α β (s := _) (by exact hts)) ?_
      rintro ⟨probe, s1⟩ ⟨hts1, hprobe⟩
      dsimp only at hts1 hprobe ⊢
      cases probe with
      | inl r => exact Sat.pure ⟨hts1, hprobe⟩
      | inr te =>
        dsimp only
        apply Sat.bind
        refine Sat.mono (pvInitBest_sound ply pv hts1) ?_
        rintro ⟨best, s2⟩ hts2
        dsimp only at hts2 ⊢
        apply Sat.bind
        rw [hdd]
        have hb := pvBody_sound hg (o := o) hp hz p hov ply depth α β
        have hinv0 : TInv g p α β (⟨α, best, false, 0, []⟩ : PvAcc M) s2 :=
          ⟨hts2, hab, Int.le_refl _, fun _ => rfl, fun h => by cases h⟩
        refine (iterate_rule hb cfg o ⟨ply, depth, te, pv⟩ (hg.gen p) hord
          (fun a s k hi => ⟨hi.1, hi.2.1, hi.2.2.1, hi.2.2.2.1, hi.2.2.2.2⟩) _ s2 hinv0).mono ?_
        rintro ⟨c, s3⟩ hpost
        cases c with
        | ret r =>
          obtain ⟨hts3, hr0⟩ := hpost
          refine Sat.pure ⟨hts3, ?_⟩
          dsimp only
          rw [hr0]
          constructor <;> intro _ h0 <;> simp only [Facts.winThreshold] at h0 <;> omega
        | next a =>
          obtain ⟨⟨hts3, hlt, hge, hni, hwin⟩, _, hcov⟩ := hpost
          dsimp only
          have hloss : a.α < -Facts.winThreshold → Loss g p := by
            intro hl
            refine loss_of_children he hov ?_
            intro x hx
            obtain ⟨hm, hap⟩ := mem_kids.mp (show (x.1, x.2) ∈ kids g p from hx)
            exact hcov x.2 ⟨x.1, hm, hap⟩ hl
          refine (pvStore_sound hinj o p depth β a hts3 ⟨hwin, fun _ => hloss⟩).mono ?_
          rintro ⟨r, s4⟩ ⟨hts4, hr⟩
          dsimp only at hts4 hr ⊢
          refine ⟨hts4, ?_⟩
          rw [hr]
          constructor
          · intro h1 hw
            cases hi : a.improved with
            | false => have := hni hi; omega
            | true => exact hwin hi hw
          · intro _ hl; exact hloss hl
        | brk a =>
          obtain ⟨hts3, himp, hge, hwin⟩ := hpost
          dsimp only
          refine (pvStore_sound hinj o p depth β a hts3
            ⟨fun _ => hwin, fun h hl => by
              rcases h with h | h
              · rw [himp] at h; cases h
              · omega⟩).mono ?_
          rintro ⟨r, s4⟩ ⟨hts4, hr⟩
          dsimp only at hts4 hr ⊢
          refine ⟨hts4, ?_⟩
          rw [hr]
          constructor
          · intro _ hw; exact hwin hw
          · intro h1 _; omega


/-! ### zero-window nodes -/

def ZInv (g : Game P M) (a : ZwAcc M) (s : Eng M) : Prop := TableSound g s ∧ a.didCut = false

def ZCov (g : Game P M) (α : Int) (_a : ZwAcc M) (c : P) : Prop := α < -Facts.winThreshold → Win g c

def ZQb (g : Game P M) (p : P) (α : Int) (a : ZwAcc M) (s : Eng M) : Prop :=
  TableSound g s ∧ a.didCut = true ∧ (α ≥ Facts.winThreshold → Win g p)

theorem zwBody_sound [DecidableEq M] {g : Game P M} (hg : GameOK g) {o : Oracle M} {czw : ZwFn P M}
    (hz : ZwOKt g czw) (p : P) (hov : g.over p = false) (ply : Nat) (depth α : Int) (cut : Bool) :
    BodyOK g p (zwBody o czw ply depth α cut) (ZInv g) (ZCov g α) (ZQb g p α) (TQr g) := by
  intro m c a s hap hinv
  obtain ⟨hts, hdc⟩ := hinv
  unfold zwBody
  apply Sat.bind
  intro sm _
  apply Sat.bind
  refine Sat.mono (hz c (ply + 1) (depth - 1) _ (-α - 1) (!cut) { s with stackM := sm } hts) ?_
  rintro ⟨⟨ms, v⟩, s'⟩ ⟨hts', hsr⟩
  dsimp only at hts' hsr ⊢
  split
  · rename_i hgt
    apply Sat.bind
    refine (recordCut_sound hts' m (a.i + 1) ply).mono ?_
    intro s'' hts''
    apply Sat.bind
    intro pv0 _
    refine Sat.pure ⟨hts'', rfl, ?_⟩
    intro hw
    exact win_of_child hg hov hap (hsr.2 (by omega) (by omega))
  · rename_i hngt
    apply Sat.pure
    rcases afterChild_cases o ({ a with i := a.i + 1 } : ZwAcc M) s' with h | h
    · rw [h]; exact ⟨hts', rfl⟩
    · rw [h]
      refine ⟨⟨hts', hdc⟩, fun c' hc' => hc', ?_⟩
      intro c' hc'; subst hc'; unfold ZCov; intro hl
      exact hsr.1 (by omega) (by omega)

theorem zwStore_sound {g : Game P M} (hinj : HashOK g) (o : Oracle M) (p : P) (depth α : Int) (a : ZwAcc M)
    {s : Eng M} (h : TableSound g s)
    (hwin : a.didCut = true → α > Facts.winThreshold → Win g p)
    (hloss : a.didCut = false → α < -Facts.winThreshold → Loss g p) :
    Sat (zwStore o (g.hash p) depth α a s)
      (fun x => TableSound g x.2 ∧ x.1.2 = if a.didCut then α + 1 else α) := by
  unfold zwStore
  apply Sat.bind
  refine (ttPut_sound o h (g.hash p)).mono ?_
  rintro ⟨slot?, s1⟩ hs1
  dsimp only at hs1 ⊢
  cases slot? with
  | none => exact Sat.pure ⟨hs1, rfl⟩
  | some slot =>
    dsimp only
    split
    · refine Sat.pure ⟨?_, rfl⟩
      have hs1' : TableSound g (if a.didCut = true then s1 else
          { s1 with st := { s1.st with allNodes := s1.st.allNodes + 1 } }) := by
        split <;> exact hs1
      refine TableSound.setEntry hs1' slot _ ?_
      intro q hq
      dsimp only at hq
      refine SoundE.congr hinj hq ?_
      constructor
      · intro hb hw
        dsimp only at hb hw
        cases hd : a.didCut with
        | true => exact hwin hd hw
        | false =>
          rw [hd] at hb
          simp only [Bool.false_eq_true, if_false, Facts.upperBound, Facts.lowerBound, Facts.exactBound] at hb
          omega
      · intro hb hl
        dsimp only at hb hl
        cases hd : a.didCut with
        | false => exact hloss hd hl
        | true =>
          rw [hd] at hb
          simp only [if_true, Facts.upperBound, Facts.lowerBound, Facts.exactBound] at hb
          omega
    · exact Sat.throw

theorem zwNode_sound [DecidableEq M] {g : Game P M} (hg : GameOK g) (he : EvalOK g) (hinj : HashOK g)
    {cfg : SOpts} (hpr : Precise cfg) {o : Oracle M} (hord : OrderOK o) (frame : Bool)
    {czw : ZwFn P M} (hz : ZwOKt g czw) :
    ZwOKt g (zwNode g cfg o frame czw) := by
  intro p ply depth pv α cut s hts
  unfold zwNode
  dsimp only
  split
  · exact Sat.pure (leaf_sound p α (α + 1) hts)
  · rename_i hnl
    simp only [Bool.or_eq_true, decide_eq_true_eq, not_or, Int.not_le, Bool.not_eq_true] at hnl
    obtain ⟨hdpos, hov⟩ := hnl
    split
    · exact Sat.throw
    · apply Sat.bind
      refine Sat.mono (ttProbe_sound p ply depth α (α + 1) (s := _) (by exact hts)) ?_
      rintro ⟨probe, s1⟩ ⟨hts1, hprobe⟩
      dsimp only at hts1 hprobe ⊢
      cases probe with
      | inl r => exact Sat.pure ⟨hts1, hprobe⟩
      | inr te =>
        dsimp only
        apply Sat.bind
        rw [nullMove_precise hpr]
        apply Sat.ok
        dsimp only
        apply Sat.bind
        rw [slideReduction_precise hpr]
        apply Sat.ok
        dsimp only
        apply Sat.bind
        rw [multiCut_precise hpr]
        apply Sat.ok
        dsimp only
        apply Sat.bind
        intro x _
        apply Sat.bind
        have hb := zwBody_sound hg (o := o) hz p hov ply depth α cut
        refine Sat.mono (iterate_rule hb cfg o ⟨ply, depth, te, pv⟩ (hg.gen p) hord
          (fun a s k hi => ⟨hi.1, hi.2⟩) (⟨[x], 0, false⟩ : ZwAcc M) _ ⟨hts1, rfl⟩) ?_
        rintro ⟨c, s2⟩ hpost
        cases c with
        | ret r =>
          obtain ⟨hts3, hr0⟩ := hpost
          refine Sat.pure ⟨hts3, ?_⟩
          dsimp only
          rw [hr0]
          constructor <;> intro _ h0 <;> simp only [Facts.winThreshold] at h0 <;> omega
        | next a =>
          obtain ⟨⟨hts3, hdc⟩, _, hcov⟩ := hpost
          dsimp only
          have hloss : α < -Facts.winThreshold → Loss g p := by
            intro hl
            refine loss_of_children he hov ?_
            intro x hx
            obtain ⟨hm, hap⟩ := mem_kids.mp (show (x.1, x.2) ∈ kids g p from hx)
            exact hcov x.2 ⟨x.1, hm, hap⟩ hl
          refine (zwStore_sound hinj o p depth α a hts3 (fun h => by rw [hdc] at h; cases h)
            (fun _ => hloss)).mono ?_
          rintro ⟨r, s4⟩ ⟨hts4, hr⟩
          dsimp only at hts4 hr ⊢
          refine ⟨hts4, ?_⟩
          rw [hr, hdc]
          simp only [Bool.false_eq_true, if_false]
          constructor
          · intro h1 _; omega
          · intro _ hl; exact hloss hl
        | brk a =>
          obtain ⟨hts3, hdc, hwin⟩ := hpost
          dsimp only
          refine (zwStore_sound hinj o p depth α a hts3 (fun _ hw => hwin (by omega))
            (fun h => by rw [hdc] at h; cases h)).mono ?_
          rintro ⟨r, s4⟩ ⟨hts4, hr⟩
          dsimp only at hts4 hr ⊢
          refine ⟨hts4, ?_⟩
          rw [hr, hdc]
          simp only [if_true]
          constructor
          · intro _ hw; exact hwin (by omega)
          · intro h1 _; omega

/-- **table soundness of the search**: in a precise configuration (with or without a table, whatever it
contains as long as it is sound, for every move order and every cancellation pattern) both searches keep the
table sound and return values that are sound for their window -/
theorem search_sound [DecidableEq M] {g : Game P M} (hg : GameOK g) (he : EvalOK g) (hinj : HashOK g)
    {cfg : SOpts} (hpr : Precise cfg) {o : Oracle M} (hord : OrderOK o) :
    ∀ n, PvOKt g (search g cfg o n).1 ∧ ZwOKt g (search g cfg o n).2 := by
  intro n
  induction n with
  | zero =>
    have hze : ZwOKt g (fun _ _ _ _ _ _ _ => (.error (.panic "ai.stack[ply]: index out of range") : Except Err (Res M × Eng M))) :=
      fun _ _ _ _ _ _ _ _ => Sat.error
    have hpe : PvOKt g (fun _ _ _ _ _ _ _ => (.error (.panic "ai.stack[ply]: index out of range") : Except Err (Res M × Eng M))) :=
      fun _ _ _ _ _ _ _ _ _ => Sat.error
    exact ⟨pvNode_sound hg he hinj hpr hord false hpe hze, zwNode_sound hg he hinj hpr hord false hze⟩
  | succ n ih =>
    exact ⟨pvNode_sound hg he hinj hpr hord true ih.1 ih.2, zwNode_sound hg he hinj hpr hord true ih.2⟩


/-! ### `Analyze` and histories of calls -/

/-- a reported value is a sound verdict for the position -/
def VSound (g : Game P M) (p : P) (v : Int) : Prop :=
  (v > Facts.winThreshold → Win g p) ∧ (v < -Facts.winThreshold → Loss g p)

theorem VSound.zero (g : Game P M) (p : P) : VSound g p 0 := by
  constructor <;> intro h <;> simp only [Facts.winThreshold] at h <;> omega

theorem seedOf_sound {g : Game P M} (p : P) (te : Option (TEntry M)) (h : ∀ e, te = some e → SoundE g e p) :
    VSound g p (seedOf te).2.2 := by
  unfold seedOf
  cases te with
  | none => exact VSound.zero g p
  | some e =>
    dsimp only
    split
    · rename_i hb
      have hb' : e.bound = Facts.exactBound := by simpa using hb
      exact ⟨(h e rfl).1 (Or.inr hb'), (h e rfl).2 (Or.inr hb')⟩
    · exact VSound.zero g p

/-- what a deepening step leaves: a sound table and (if it completed) a sound value -/
def StepSound (g : Game P M) (p : P) : AOut M → Prop
  | .go a' s' => TableSound g s' ∧ VSound g p a'.v
  | .done a' s' => TableSound g s' ∧ VSound g p a'.v
  | .cancelled s' => TableSound g s'

theorem analyzeStep_sound [DecidableEq M] {g : Game P M} (hg : GameOK g) (he : EvalOK g) (hinj : HashOK g)
    {cfg : Cfg} (hpr : Precise cfg.opts) {o : Oracle M} (hord : OrderOK o)
    (p : P) (base i : Int) (a : ALoop M) (s : Eng M) (hts : TableSound g s) :
    Sat (analyzeStep g cfg o p base i a s) (StepSound g p) := by
  unfold analyzeStep pvSearch
  have hab : Facts.minEval - 1 < Facts.maxEval + 1 := by simp only [Facts.minEval, Facts.maxEval]; omega
  have hs := (search_sound hg he hinj hpr hord (Facts.maxDepth - 0)).1 p 0 (i + base) a.ms
    (Facts.minEval - 1) (Facts.maxEval + 1) { s with st := { depth := i + base } } hts hab
  cases hr : (search g cfg.opts o (Facts.maxDepth - 0)).1 p 0 (i + base) a.ms (Facts.minEval - 1)
      (Facts.maxEval + 1) { s with st := { depth := i + base } } with
  | error e => exact Sat.error
  | ok r =>
    obtain ⟨⟨next, nv⟩, s1⟩ := r
    obtain ⟨hts1, hsr⟩ := hs _ hr
    dsimp only at hts1 hsr
    apply Sat.ok
    unfold iterEnd
    cases next with
    | none => exact hts1
    | some nx =>
      dsimp only
      have hv : VSound g p nv := by
        constructor
        · intro hw; exact hsr.1 (by simp only [Facts.minEval, Facts.winThreshold] at hw ⊢; omega) hw
        · intro hl; exact hsr.2 (by simp only [Facts.maxEval, Facts.winThreshold] at hl ⊢; omega) hl
      cases hc : (load o s1).1 with
      | true => simp only [if_true]; exact hts1
      | false =>
        simp only [Bool.false_eq_true, if_false]
        rcases iterDone_cases cfg base i a nx nv (load o s1).2 with h | h
        · rw [h]; exact ⟨hts1, hv⟩
        · rw [h]; exact ⟨hts1, hv⟩

theorem analyzeLoop_sound [DecidableEq M] {g : Game P M} (hg : GameOK g) (he : EvalOK g) (hinj : HashOK g)
    {cfg : Cfg} (hpr : Precise cfg.opts) {o : Oracle M} (hord : OrderOK o) (p : P) (base : Int) :
    ∀ (n : Nat) (i : Int) (a : ALoop M) (s : Eng M), TableSound g s → VSound g p a.v →
      Sat (analyzeLoop g cfg o p base n i a s) (fun x => TableSound g x.2 ∧ VSound g p x.1.v) := by
  intro n
  induction n with
  | zero => intro i a s hts hv; simp only [analyzeLoop]; exact Sat.ok ⟨hts, hv⟩
  | succ n ih =>
    intro i a s hts hv
    simp only [analyzeLoop]
    split
    · exact Sat.ok ⟨hts, hv⟩
    · have hstep := analyzeStep_sound hg he hinj hpr hord p base i a s hts
      cases hr : analyzeStep g cfg o p base i a s with
      | error e => exact Sat.error
      | ok x =>
        have hx := hstep x hr
        cases x with
        | cancelled s' => exact Sat.ok ⟨hx, hv⟩
        | done a' s' => exact Sat.ok hx
        | go a' s' => exact ih (i + 1) a' s' hx.1 hx.2

/-- **`Analyze` keeps the table sound and reports a sound verdict** (precise options; any table size and
content history, any move order, any cancellation) -/
theorem analyze_sound [DecidableEq M] {g : Game P M} (hg : GameOK g) (he : EvalOK g) (hinj : HashOK g)
    {cfg : Cfg} (hpr : Precise cfg.opts) {o : Oracle M} (hord : OrderOK o) (p : P) (s : Eng M)
    (hts : TableSound g s) :
    Sat (analyze g cfg o p s) (fun x => TableSound g x.2 ∧ VSound g p x.1.2.1) := by
  unfold analyze
  have hget := ttGet_sound (s := { s with loads := 0, evals := 0, sorts := 0, rnds := 0, wlog := [] }) hts p
  cases hg' : ttGet { s with loads := 0, evals := 0, sorts := 0, rnds := 0, wlog := [] } (g.hash p) with
  | error e => exact Sat.error
  | ok te =>
    have hte := hget te hg'
    show Sat (analyzeFrom g cfg o p (seedOf te) { s with loads := 0, evals := 0, sorts := 0, rnds := 0, wlog := [] }) _
    unfold analyzeFrom
    have hseed := seedOf_sound p te hte
    have hloop := analyzeLoop_sound hg he hinj hpr hord p (seedOf te).1 (cfg.depth - (seedOf te).1).toNat 1
      ⟨(seedOf te).2.1, (seedOf te).2.2, { depth := (seedOf te).1 }, 0, 0⟩
      { s with loads := 0, evals := 0, sorts := 0, rnds := 0, wlog := [] } hts hseed
    cases hr : analyzeLoop g cfg o p (seedOf te).1 (cfg.depth - (seedOf te).1).toNat 1
        ⟨(seedOf te).2.1, (seedOf te).2.2, { depth := (seedOf te).1 }, 0, 0⟩
        { s with loads := 0, evals := 0, sorts := 0, rnds := 0, wlog := [] } with
    | error e => exact Sat.error
    | ok x =>
      obtain ⟨a, s'⟩ := x
      exact Sat.ok (hloop _ hr)

/-- a new engine's table (all entries zero) is sound -/
theorem tableSound_new {g : Game P M} (cfg : Cfg) : TableSound g (Eng.new g cfg) := by
  intro i e hi p _
  unfold Eng.new at hi
  dsimp only at hi
  have : e = ⟨0#64, 0, g.zeroMove, 0, 0⟩ := by
    rw [Array.getElem?_replicate] at hi
    split at hi
    · exact (Option.some.inj hi).symm
    · cases hi
  subst this
  constructor <;> intro _ h <;> simp only [Facts.winThreshold] at h <;> omega

/-- a history of `Analyze` calls on one engine: position and environment (cancellation, move order) of each call -/
abbrev History (P M : Type) := List (P × Oracle M)

/-- run the calls one after the other on the same engine, collecting (position, reported value) -/
def runCalls [DecidableEq M] (g : Game P M) (cfg : Cfg) : History P M → Eng M → Except Err (List (P × Int) × Eng M)
  | [], s => .ok ([], s)
  | (p, o) :: rest, s =>
    match analyze g cfg o p s with
    | .error e => .error e
    | .ok (r, s1) =>
      match runCalls g cfg rest s1 with
      | .error e => .error e
      | .ok (rs, s2) => .ok ((p, r.2.1) :: rs, s2)

theorem runCalls_sound [DecidableEq M] {g : Game P M} (hg : GameOK g) (he : EvalOK g) (hinj : HashOK g)
    {cfg : Cfg} (hpr : Precise cfg.opts) :
    ∀ (h : History P M) (s : Eng M), (∀ x ∈ h, OrderOK x.2) → TableSound g s →
      Sat (runCalls g cfg h s) (fun x => TableSound g x.2 ∧ ∀ y ∈ x.1, VSound g y.1 y.2) := by
  intro h
  induction h with
  | nil => intro s _ hts; exact Sat.ok ⟨hts, fun y hy => by cases hy⟩
  | cons c rest ih =>
    intro s hord hts
    obtain ⟨p, o⟩ := c
    simp only [runCalls]
    have ha := analyze_sound hg he hinj hpr (hord (p, o) (by simp)) p s hts
    cases hr : analyze g cfg o p s with
    | error e => exact Sat.error
    | ok x =>
      obtain ⟨r, s1⟩ := x
      obtain ⟨hts1, hv⟩ := ha _ hr
      dsimp only at hts1 hv ⊢
      have hrest := ih s1 (fun x hx => hord x (List.mem_cons_of_mem _ hx)) hts1
      cases hr2 : runCalls g cfg rest s1 with
      | error e => exact Sat.error
      | ok y =>
        obtain ⟨rs, s2⟩ := y
        obtain ⟨hts2, hvs⟩ := hrest _ hr2
        refine Sat.ok ⟨hts2, ?_⟩
        intro z hz
        rcases List.mem_cons.mp hz with rfl | hz
        · exact hv
        · exact hvs z hz

end Search
