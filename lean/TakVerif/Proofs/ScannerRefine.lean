import TakVerif.Proofs.PTNScan
import TakVerif.Proofs.PTNNec

/-! `bufio.Scanner` spelled out — buffer that doubles from 4096 to 64 KiB, reads that deliver any number of
bytes, the split function called on whatever has been read so far, `atEOF` only after a read has hit the end —
and the proof that, for the split function `splitMoves`, it produces exactly what the window model
`scanStep` / `readMoves` of `Impl/PTN.lean` produces, whatever the sizes of the reads. -/
namespace PTN
open Tak

/-! ### the split function, seen from the first non-space byte -/

/-- `splitMoves` after its first loop: `body = buf[start:]`, `n = len(buf)` -/
def splitCore (body : Bytes) (n : Nat) (atEOF : Bool) : Split :=
  let start := n - body.length
  match body with
  | [] => ⟨start, none⟩
  | c :: _ =>
    if c == 123 then
      let pre := body.takeWhile (· != 125)
      if pre.length < body.length then ⟨start + pre.length + 1, some (body.take (pre.length + 1))⟩
      else if atEOF then ⟨n, some body⟩ else ⟨start, none⟩
    else
      let pre := body.takeWhile (fun b => !isSpace b)
      if pre.length < body.length then ⟨start + pre.length + 1, some pre⟩
      else if atEOF then ⟨n, some body⟩ else ⟨start, none⟩

theorem splitMoves_eq_core (buf : Bytes) (b : Bool) :
    splitMoves buf b = splitCore (buf.dropWhile isSpace) buf.length b := by
  unfold splitMoves splitCore
  rfl

theorem takeWhile_append_of_stop {α} (p : α → Bool) (l x : List α) (h : (l.takeWhile p).length < l.length) :
    (l ++ x).takeWhile p = l.takeWhile p := by
  induction l with
  | nil => simp at h
  | cons a l ih =>
    simp only [List.cons_append, List.takeWhile_cons]
    split
    · rename_i hp
      simp only [List.takeWhile_cons, hp, if_true, List.length_cons] at h
      rw [ih (by omega)]
    · rfl

theorem dropWhile_append_of_ne_nil {α} (p : α → Bool) (l x : List α) (h : l.dropWhile p ≠ []) :
    (l ++ x).dropWhile p = l.dropWhile p ++ x := by
  induction l with
  | nil => simp at h
  | cons a l ih =>
    simp only [List.cons_append, List.dropWhile_cons] at h ⊢
    split
    · rename_i hp
      simp only [hp, if_true] at h
      exact ih h
    · rfl

/-- the advance never exceeds the buffer -/
theorem splitCore_advance_le (body : Bytes) (n : Nat) (b : Bool) (hn : body.length ≤ n) :
    (splitCore body n b).advance ≤ n := by
  unfold splitCore
  cases body with
  | nil => simp
  | cons c cs =>
    dsimp only
    split
    · split
      · dsimp only; omega
      · split <;> (dsimp only; omega)
    · split
      · dsimp only; omega
      · split <;> (dsimp only; omega)

theorem splitMoves_advance_le (buf : Bytes) (b : Bool) : (splitMoves buf b).advance ≤ buf.length := by
  rw [splitMoves_eq_core]
  exact splitCore_advance_le _ _ _ (length_dropWhile_le _ _)

/-- white space in front only shifts the advance -/
theorem splitMoves_lead (lead z : Bytes) (b : Bool) (hlead : ∀ x ∈ lead, isSpace x = true) :
    splitMoves (lead ++ z) b = ⟨lead.length + (splitMoves z b).advance, (splitMoves z b).token⟩ := by
  rw [splitMoves_eq_core, splitMoves_eq_core, dropWhile_append_all _ _ _ hlead]
  have hle : (z.dropWhile isSpace).length ≤ z.length := length_dropWhile_le _ _
  generalize z.dropWhile isSpace = body at hle
  unfold splitCore
  simp only [List.length_append]
  cases body with
  | nil => simp only [List.length_nil]; congr 1
  | cons c cs =>
    dsimp only
    simp only [List.length_cons] at hle
    split
    · split
      · simp only [Split.mk.injEq, and_true, List.length_cons]; omega
      · split
        · simp only [Split.mk.injEq, and_true]
        · simp only [Split.mk.injEq, and_true, List.length_cons]; omega
    · split
      · simp only [Split.mk.injEq, and_true, List.length_cons]; omega
      · split
        · simp only [Split.mk.injEq, and_true]
        · simp only [Split.mk.injEq, and_true, List.length_cons]; omega

/-- a token found before the end of the input is found again, unchanged, on any longer buffer -/
theorem splitMoves_prefix (h x : Bytes) (b : Bool) (adv : Nat) (tok : Bytes)
    (hs : splitMoves h false = ⟨adv, some tok⟩) : splitMoves (h ++ x) b = ⟨adv, some tok⟩ := by
  rw [splitMoves_eq_core] at hs ⊢
  have hle : (h.dropWhile isSpace).length ≤ h.length := length_dropWhile_le _ _
  have hne : h.dropWhile isSpace ≠ [] := by
    intro h0
    rw [h0] at hs
    simp [splitCore] at hs
  rw [dropWhile_append_of_ne_nil _ _ _ hne]
  generalize h.dropWhile isSpace = body at hs hle hne
  cases body with
  | nil => exact absurd rfl hne
  | cons c cs =>
    unfold splitCore at hs ⊢
    simp only [List.length_append, List.length_cons, List.cons_append] at hs hle ⊢
    have hstart : h.length + x.length - (cs.length + x.length + 1) = h.length - (cs.length + 1) := by omega
    have hstart' : h.length + x.length - ((cs ++ x).length + 1) = h.length - (cs.length + 1) := by
      simp only [List.length_append]; omega
    split at hs
    · rename_i hc
      simp only [hc, if_true]
      split at hs
      · rename_i hlt
        have htw := takeWhile_append_of_stop (· != 125) (c :: cs) x hlt
        simp only [List.cons_append] at htw
        rw [htw]
        have hlt' : (List.takeWhile (fun x => x != 125) (c :: cs)).length < cs.length + x.length + 1 := by omega
        rw [if_pos hlt']
        simp only [Split.mk.injEq, Option.some.injEq] at hs ⊢
        refine ⟨by rw [← hs.1]; omega, ?_⟩
        rw [← hs.2]
        have : c :: (cs ++ x) = (c :: cs) ++ x := rfl
        rw [this, List.take_append_of_le_length (by simp only [List.length_cons]; omega)]
      · simp at hs
    · rename_i hc
      simp only [hc, if_false, Bool.false_eq_true]
      split at hs
      · rename_i hlt
        have htw := takeWhile_append_of_stop (fun b => !isSpace b) (c :: cs) x hlt
        simp only [List.cons_append] at htw
        rw [htw]
        have hlt' : (List.takeWhile (fun b => !isSpace b) (c :: cs)).length < cs.length + x.length + 1 := by omega
        rw [if_pos hlt']
        simp only [Split.mk.injEq, Option.some.injEq] at hs ⊢
        exact ⟨by rw [← hs.1]; omega, hs.2⟩
      · simp at hs

/-- in front of a byte that is not white space the split function either finds a token or does not move -/
theorem splitMoves_head_none (c : UInt8) (w : Bytes) (b : Bool) (hc : isSpace c = false)
    (hn : (splitMoves (c :: w) b).token = none) : (splitMoves (c :: w) b).advance = 0 := by
  rw [splitMoves_eq_core] at hn ⊢
  have hd : (c :: w).dropWhile isSpace = c :: w := by simp [List.dropWhile_cons, hc]
  rw [hd] at hn ⊢
  unfold splitCore at hn ⊢
  dsimp only at hn ⊢
  split at hn
  · rename_i h123
    simp only [h123, if_true]
    split at hn
    · simp at hn
    · rename_i hlt
      simp only [hlt, if_false]
      split at hn
      · simp at hn
      · rename_i hb
        simp only [hb, if_false, Bool.false_eq_true]
        omega
  · rename_i h123
    simp only [h123, if_false, Bool.false_eq_true]
    split at hn
    · simp at hn
    · rename_i hlt
      simp only [hlt, if_false]
      split at hn
      · simp at hn
      · rename_i hb
        simp only [hb, if_false, Bool.false_eq_true]
        omega

/-! ### white space at the head of the input is immaterial -/

theorem scanStep_def (rest : Bytes) :
    scanStep rest =
      match (splitMoves (rest.take maxScanTokenSize) (decide (rest.length < maxScanTokenSize))).token with
      | some tok => .token tok (rest.drop (splitMoves (rest.take maxScanTokenSize) (decide (rest.length < maxScanTokenSize))).advance)
      | none =>
        if (splitMoves (rest.take maxScanTokenSize) (decide (rest.length < maxScanTokenSize))).advance > 0 then
          .skip (rest.drop (splitMoves (rest.take maxScanTokenSize) (decide (rest.length < maxScanTokenSize))).advance)
        else if decide (rest.length < maxScanTokenSize) = true then .eof else .tooLong := by
  unfold scanStep
  rfl

/-- white space in front of a token (or of the end of the input) does not change what `readMoves` returns -/
theorem readAll_lead_head (env : Env) : ∀ (n : Nat) (lead y : Bytes), lead.length = n →
    (∀ b ∈ lead, isSpace b = true) → (y = [] ∨ ∃ c cs, y = c :: cs ∧ isSpace c = false) →
    readAll env (lead ++ y) = readAll env y := by
  intro n
  induction n using Nat.strongRecOn with
  | _ n ih =>
    intro lead y hn hlead hy
    by_cases hl0 : lead = []
    · subst hl0; rfl
    have hpos : 0 < lead.length := List.length_pos_iff.mpr hl0
    by_cases hbig : maxScanTokenSize ≤ lead.length
    · -- a window full of white space
      have hw : (lead ++ y).take maxScanTokenSize = lead.take maxScanTokenSize ++ [] := by
        rw [List.take_append_of_le_length hbig, List.append_nil]
      have hE : decide ((lead ++ y).length < maxScanTokenSize) = false := by
        simp only [decide_eq_false_iff_not, List.length_append]; omega
      have hsp := splitMoves_lead (lead.take maxScanTokenSize) [] false
        (fun b hb => hlead b (List.mem_of_mem_take hb))
      have hnil : splitMoves [] false = ⟨0, none⟩ := splitMoves_nil false
      rw [hnil] at hsp
      have hlen : (lead.take maxScanTokenSize).length = maxScanTokenSize := by
        rw [List.length_take]; omega
      have hstep : scanStep (lead ++ y) = .skip (lead.drop maxScanTokenSize ++ y) := by
        rw [scanStep_def, hw, hE, hsp]
        dsimp only
        rw [hlen, if_pos (by decide)]
        congr 1
        rw [Nat.add_zero, List.drop_append_of_le_length hbig]
      rw [readAll_skip hstep]
      exact ih (lead.drop maxScanTokenSize).length (by simp only [List.length_drop, maxScanTokenSize] at hbig ⊢; omega)
        _ y rfl (fun b hb => hlead b (List.mem_of_mem_drop hb)) hy
    · -- the white space and the head of `y` share the window
      have hk : lead.length ≤ maxScanTokenSize := by omega
      have hw : (lead ++ y).take maxScanTokenSize = lead ++ y.take (maxScanTokenSize - lead.length) :=
        take_append_ge _ _ _ hk
      have hsp := splitMoves_lead lead (y.take (maxScanTokenSize - lead.length))
        (decide ((lead ++ y).length < maxScanTokenSize)) hlead
      have hdrop : ∀ a, (lead ++ y).drop (lead.length + a) = y.drop a := by
        intro a
        rw [← List.drop_drop, drop_append_length]
      rcases hy with rfl | ⟨c, cs, rfl, hc⟩
      · -- nothing but white space
        have hstep : scanStep (lead ++ []) = .skip [] := by
          rw [scanStep_def, hw, hsp]
          simp only [List.take_nil, splitMoves_nil]
          rw [if_pos (by omega)]
          congr 1
          simp
        rw [readAll_skip hstep]
      · by_cases hE : (lead ++ c :: cs).length < maxScanTokenSize
        · -- the whole input is in the window
          have hE' : (c :: cs).length < maxScanTokenSize := by
            simp only [List.length_append] at hE; omega
          have hall : (c :: cs).take (maxScanTokenSize - lead.length) = c :: cs := by
            apply List.take_of_length_le
            simp only [List.length_append] at hE; omega
          have hall' : (c :: cs).take maxScanTokenSize = c :: cs := List.take_of_length_le (by omega)
          rw [hall] at hsp hw
          have hstepL := scanStep_def (lead ++ c :: cs)
          have hstepR := scanStep_def (c :: cs)
          rw [hw, hsp] at hstepL
          rw [hall'] at hstepR
          simp only [hE, hE', decide_true] at hstepL hstepR
          cases htok : (splitMoves (c :: cs) true).token with
          | some tok =>
            rw [htok] at hstepL hstepR
            dsimp only at hstepL hstepR
            rw [hdrop] at hstepL
            rw [readAll_token hstepL, readAll_token hstepR]
          | none =>
            have h0 := splitMoves_head_none c cs true hc htok
            rw [htok, h0] at hstepL
            dsimp only at hstepL
            rw [if_pos (by omega), Nat.add_zero, drop_append_length] at hstepL
            rw [readAll_skip hstepL]
        · -- the input goes on beyond the window
          have hEf : decide ((lead ++ c :: cs).length < maxScanTokenSize) = false := by simpa using hE
          rw [hEf] at hsp
          have hstepL := scanStep_def (lead ++ c :: cs)
          rw [hw, hEf, hsp] at hstepL
          obtain ⟨k, hk1⟩ : ∃ k, maxScanTokenSize - lead.length = k + 1 := ⟨maxScanTokenSize - lead.length - 1, by omega⟩
          have htk : (c :: cs).take (maxScanTokenSize - lead.length) = c :: cs.take k := by rw [hk1]; rfl
          cases htok : (splitMoves ((c :: cs).take (maxScanTokenSize - lead.length)) false).token with
          | some tok =>
            -- the token ends inside the shorter window: the longer one sees the same
            have hfull : splitMoves ((c :: cs).take (maxScanTokenSize - lead.length)) false =
                ⟨(splitMoves ((c :: cs).take (maxScanTokenSize - lead.length)) false).advance, some tok⟩ := by
              rw [← htok]
            have hsplit : (c :: cs).take maxScanTokenSize =
                (c :: cs).take (maxScanTokenSize - lead.length) ++
                  ((c :: cs).drop (maxScanTokenSize - lead.length)).take lead.length := by
              have : maxScanTokenSize = (maxScanTokenSize - lead.length) + lead.length := by omega
              conv => lhs; rw [this]
              exact List.take_add
            have hR := splitMoves_prefix _ (((c :: cs).drop (maxScanTokenSize - lead.length)).take lead.length)
              (decide ((c :: cs).length < maxScanTokenSize)) _ _ hfull
            rw [← hsplit] at hR
            have hstepR := scanStep_def (c :: cs)
            rw [hR] at hstepR
            rw [htok] at hstepL
            dsimp only at hstepL hstepR
            rw [hdrop] at hstepL
            rw [readAll_token hstepL, readAll_token hstepR]
          | none =>
            rw [htk] at htok
            have h0 := splitMoves_head_none c (cs.take k) false hc htok
            rw [htk, htok, h0] at hstepL
            dsimp only at hstepL
            rw [if_pos (by omega), Nat.add_zero, drop_append_length] at hstepL
            rw [readAll_skip hstepL]

/-- white space at the head of the input does not change what `readMoves` returns -/
theorem readAll_lead (env : Env) (lead x : Bytes) (hlead : ∀ b ∈ lead, isSpace b = true) :
    readAll env (lead ++ x) = readAll env x := by
  have hx : x = x.takeWhile isSpace ++ x.dropWhile isSpace := (List.takeWhile_append_dropWhile).symm
  have hy : x.dropWhile isSpace = [] ∨ ∃ c cs, x.dropWhile isSpace = c :: cs ∧ isSpace c = false := by
    cases hd : x.dropWhile isSpace with
    | nil => exact Or.inl rfl
    | cons c cs => exact Or.inr ⟨c, cs, rfl, head_dropWhile_not _ _ _ _ hd⟩
  have h2 : ∀ b ∈ x.takeWhile isSpace, isSpace b = true := fun b hb => by
    exact (mem_takeWhile_imp _ _ b hb).1
  conv => lhs; rw [hx, ← List.append_assoc]
  conv => rhs; rw [hx]
  rw [readAll_lead_head env _ (lead ++ x.takeWhile isSpace) _ rfl
      (fun b hb => by
        simp only [List.mem_append] at hb
        rcases hb with hb | hb
        · exact hlead b hb
        · exact h2 b hb) hy,
    readAll_lead_head env _ (x.takeWhile isSpace) _ rfl h2 hy]

/-! ### no token: what the split function skipped was white space -/

theorem splitCore_none (body : Bytes) (n : Nat) (b : Bool) (h : (splitCore body n b).token = none) :
    (splitCore body n b).advance = n - body.length ∧ (b = true → body = []) := by
  unfold splitCore at h ⊢
  cases body with
  | nil => exact ⟨rfl, fun _ => rfl⟩
  | cons c cs =>
    dsimp only at h ⊢
    split at h
    · rename_i h123
      simp only [h123, if_true]
      split at h
      · simp at h
      · rename_i hlt
        simp only [hlt, if_false]
        split at h
        · simp at h
        · rename_i hb
          simp only [hb, if_false, Bool.false_eq_true]
          exact ⟨trivial, fun hh => by first | exact hh.elim | exact absurd hh hb⟩
    · rename_i h123
      simp only [h123, if_false, Bool.false_eq_true]
      split at h
      · simp at h
      · rename_i hlt
        simp only [hlt, if_false]
        split at h
        · simp at h
        · rename_i hb
          simp only [hb, if_false, Bool.false_eq_true]
          exact ⟨trivial, fun hh => by first | exact hh.elim | exact absurd hh hb⟩

theorem all_of_dropWhile_nil {α} (p : α → Bool) (l : List α) (h : l.dropWhile p = []) : ∀ x ∈ l, p x = true := by
  induction l with
  | nil => intro x hx; cases hx
  | cons a l ih =>
    simp only [List.dropWhile_cons] at h
    split at h
    · rename_i hp
      intro x hx
      simp only [List.mem_cons] at hx
      rcases hx with rfl | hx
      · exact hp
      · exact ih h x hx
    · cases h

/-- when the split function hands out no token, the bytes it advances over are white space; at the end of the
input that is the whole buffer -/
theorem splitMoves_none (h : Bytes) (b : Bool) (hn : (splitMoves h b).token = none) :
    (∀ x ∈ h.take (splitMoves h b).advance, isSpace x = true) ∧
    (b = true → ∀ x ∈ h, isSpace x = true) := by
  rw [splitMoves_eq_core] at hn ⊢
  obtain ⟨hadv, hb⟩ := splitCore_none _ _ _ hn
  rw [hadv]
  have hsplit : h = h.takeWhile isSpace ++ h.dropWhile isSpace := (List.takeWhile_append_dropWhile).symm
  have hlen : h.length - (h.dropWhile isSpace).length = (h.takeWhile isSpace).length := by
    have := congrArg List.length hsplit
    simp only [List.length_append] at this
    omega
  constructor
  · intro x hx
    rw [hlen] at hx
    have htk : h.take (h.takeWhile isSpace).length = h.takeWhile isSpace := by
      conv => lhs; arg 2; rw [hsplit]
      exact List.take_left'  rfl
    rw [htk] at hx
    exact (mem_takeWhile_imp _ _ x hx).1
  · intro hb'
    exact all_of_dropWhile_nil _ _ (hb hb')

/-! ### `bufio.Scanner`, spelled out -/

/-- `bufio.Scanner` between two passes of the loop in `Scan`: `held = buf[start:end]` (read, not yet consumed),
`pending` = what the reader has not delivered yet, `cap = len(buf)`, `eof` = a read has returned `io.EOF` -/
structure ScanState where
  held : Bytes
  pending : Bytes
  cap : Nat
  eof : Bool

/-- `startBufSize` (Go standard library, `bufio/scan.go`) -/
def startBufSize : Nat := 4096

/-- the length of the buffer after `Scan` has resized it: 4096 at first, then doubled up to `MaxScanTokenSize` -/
def growBuf (cap : Nat) : Nat := if cap = 0 then startBufSize else min (cap * 2) maxScanTokenSize

/-- `readMoves` with `bufio.Scanner.Scan` inlined, one pass of `Scan`'s loop per unit of fuel: call the split function
on what is held (if anything is held or the end was seen), consume what it says, hand a token to the switch of
`readMoves`; otherwise stop at the end of the input, fail with `ErrTooLong` when the buffer is full at its maximal
size, else make room (shift or double the buffer) and read — `chunk i` bytes if that many fit and are there, at
least one — or learn that the input has ended.
Not modelled: a reader that returns data together with `io.EOF` in one call, or no data without error
(`os.File`, `bytes.Reader`, `strings.Reader` behind the `bufio.Reader` of `ParsePTN` do neither); `splitMoves` never
returns an error, a negative or too large advance, or an empty token, so those branches of `Scan` are dead. -/
def readMovesScanner (env : Env) (chunk : Nat → Nat) : Nat → Nat → ScanState → R (List Op)
  | 0, _, _ => .error (.hang "Scan")
  | fuel+1, i, s =>
    let sp : Split := if s.held ≠ [] ∨ s.eof = true then splitMoves s.held s.eof else ⟨0, none⟩
    let held := s.held.drop sp.advance
    match sp.token with
    | some tok => consOp (classifyTok env tok) (readMovesScanner env chunk fuel i ⟨held, s.pending, s.cap, s.eof⟩)
    | none =>
      if s.eof = true then .ok []
      else if held.length = s.cap ∧ maxScanTokenSize ≤ s.cap then tooLongErr
      else
        let cap := if held.length = s.cap then growBuf s.cap else s.cap
        match s.pending with
        | [] => readMovesScanner env chunk fuel (i + 1) ⟨held, [], cap, true⟩
        | p :: ps =>
          let n := max 1 (min (chunk i) (min (cap - held.length) (p :: ps).length))
          readMovesScanner env chunk fuel (i + 1) ⟨held ++ (p :: ps).take n, (p :: ps).drop n, cap, false⟩

/-- what holds of the scanner's state between passes -/
def ScanState.Inv (s : ScanState) : Prop :=
  s.cap ≤ maxScanTokenSize ∧ s.held.length ≤ s.cap ∧
  (s.eof = true → s.pending = [] ∧ s.held.length < maxScanTokenSize)

/-- decreases with every pass -/
def ScanState.measure (s : ScanState) : Nat :=
  s.held.length + 2 * s.pending.length + (if s.eof = true then 0 else 1)

theorem growBuf_gt (cap : Nat) (h : cap < maxScanTokenSize) : cap < growBuf cap ∧ growBuf cap ≤ maxScanTokenSize := by
  unfold growBuf
  split
  · rename_i h0; subst h0; simp only [startBufSize, maxScanTokenSize]; omega
  · simp only [maxScanTokenSize] at h ⊢; omega

theorem scanStep_nil : scanStep [] = .eof := by decide

/-- **The window model is what `bufio.Scanner` does.**  Whatever the sizes of the reads (`chunk`), from any state
reachable between two passes of `Scan`'s loop, `readMoves` over the spelled-out scanner returns what the window
model `readMoves` of `Impl/PTN.lean` returns on the unconsumed input `held ++ pending`. -/
theorem readMovesScanner_eq (env : Env) (chunk : Nat → Nat) : ∀ (fuel i : Nat) (s : ScanState),
    s.Inv → s.measure < fuel → readMovesScanner env chunk fuel i s = readAll env (s.held ++ s.pending) := by
  intro fuel
  induction fuel with
  | zero => intro i s _ h; omega
  | succ f ih =>
    intro i s hinv hmu
    obtain ⟨hcap, hheld, heof⟩ := hinv
    obtain ⟨held, pending, cap, eof⟩ := s
    simp only at hcap hheld heof
    simp only [ScanState.measure] at hmu
    -- the reading part of a pass, for whatever is still held
    have hread : ∀ (held' pend : Bytes), held'.length + 2 * pend.length + 1 ≤ f → held'.length ≤ cap →
        ¬(held'.length = cap ∧ maxScanTokenSize ≤ cap) →
        (match pend with
          | [] => readMovesScanner env chunk f (i + 1)
              ⟨held', [], if held'.length = cap then growBuf cap else cap, true⟩
          | p :: ps =>
            readMovesScanner env chunk f (i + 1)
              ⟨held' ++ (p :: ps).take (max 1 (min (chunk i)
                  (min ((if held'.length = cap then growBuf cap else cap) - held'.length) (p :: ps).length))),
                (p :: ps).drop (max 1 (min (chunk i)
                  (min ((if held'.length = cap then growBuf cap else cap) - held'.length) (p :: ps).length))),
                if held'.length = cap then growBuf cap else cap, false⟩) =
        readAll env (held' ++ pend) := by
      intro held' pend hmu' hlecap hnfull
      -- the buffer after making room has a free byte
      have hcap' : held'.length < (if held'.length = cap then growBuf cap else cap) ∧
          (if held'.length = cap then growBuf cap else cap) ≤ maxScanTokenSize := by
        split
        · rename_i hfull
          have : cap < maxScanTokenSize := by
            rcases Nat.lt_or_ge cap maxScanTokenSize with h | h
            · exact h
            · exact absurd ⟨hfull, h⟩ hnfull
          have := growBuf_gt cap this
          omega
        · omega
      generalize (if held'.length = cap then growBuf cap else cap) = cap' at hcap'
      cases pend with
      | nil =>
        dsimp only
        rw [ih (i + 1) _ ⟨hcap'.2, by simp only; omega, fun _ => ⟨rfl, by simp only; omega⟩⟩
          (by simp only [ScanState.measure, List.length_nil, if_true] at hmu' ⊢; omega)]
      | cons p ps =>
        dsimp only
        generalize hn : max 1 (min (chunk i) (min (cap' - held'.length) (p :: ps).length)) = n
        have hn1 : 1 ≤ n := by rw [← hn]; omega
        have hn2 : n ≤ cap' - held'.length ∧ n ≤ (p :: ps).length := by
          have : 1 ≤ (p :: ps).length := by simp
          rw [← hn]; omega
        rw [ih (i + 1) _ ⟨hcap'.2, by simp only [List.length_append, List.length_take]; omega, fun h => by cases h⟩
          (by
            simp only [ScanState.measure, List.length_append, List.length_take, List.length_drop,
              Bool.false_eq_true, if_false]
            simp only [List.length_cons] at hmu' hn2 ⊢
            omega)]
        simp only [List.append_assoc, List.take_append_drop]
    unfold readMovesScanner
    dsimp only
    by_cases hc : held ≠ [] ∨ eof = true
    · rw [if_pos hc]
      have hadv : (splitMoves held eof).advance ≤ held.length := splitMoves_advance_le _ _
      cases htok : (splitMoves held eof).token with
      | some tok =>
        dsimp only
        have hfull : splitMoves held eof = ⟨(splitMoves held eof).advance, some tok⟩ := by rw [← htok]
        have hpos : 0 < (splitMoves held eof).advance := (splitMoves_token _ _ _ _ hfull).2
        -- the window model finds the same token
        have hstep : scanStep (held ++ pending) =
            .token tok (held.drop (splitMoves held eof).advance ++ pending) := by
          rw [scanStep_def]
          cases heq : eof with
          | true =>
            obtain ⟨hp, hlt⟩ := heof heq
            subst hp
            rw [heq] at hfull
            have ht : (held ++ []).take maxScanTokenSize = held := by
              rw [List.append_nil]; exact List.take_of_length_le (by omega)
            have hd : decide ((held ++ []).length < maxScanTokenSize) = true := by
              simp only [List.append_nil, decide_eq_true_eq]; exact hlt
            rw [ht, hd, hfull]
            simp
          | false =>
            rw [heq] at hfull
            have ht : (held ++ pending).take maxScanTokenSize = held ++ pending.take (maxScanTokenSize - held.length) :=
              take_append_ge _ _ _ (by omega)
            rw [ht, splitMoves_prefix held _ _ _ _ hfull]
            dsimp only
            rw [heq] at hadv
            rw [List.drop_append_of_le_length hadv]
        rw [readAll_token hstep]
        rw [ih i _ ⟨hcap, by simp only [List.length_drop]; omega, fun h => by
            obtain ⟨h1, h2⟩ := heof h
            exact ⟨h1, by simp only [List.length_drop]; omega⟩⟩
          (by simp only [ScanState.measure, List.length_drop]; omega)]
      | none =>
        dsimp only
        obtain ⟨hsp1, hsp2⟩ := splitMoves_none held eof htok
        cases heq : eof with
        | true =>
          -- nothing but white space is left
          obtain ⟨hp, _⟩ := heof heq
          subst hp
          rw [if_pos rfl]
          have := readAll_lead env held [] (hsp2 heq)
          rw [this, readAll_eof scanStep_nil]
        | false =>
          rw [if_neg (by simp)]
          rw [heq] at hsp1 hadv htok
          -- what was consumed is white space
          have hrest : readAll env (held ++ pending) =
              readAll env (held.drop (splitMoves held false).advance ++ pending) := by
            have : held ++ pending = held.take (splitMoves held false).advance ++
                (held.drop (splitMoves held false).advance ++ pending) := by
              rw [← List.append_assoc, List.take_append_drop]
            conv => lhs; rw [this]
            exact readAll_lead env _ _ hsp1
          by_cases hfull : (held.drop (splitMoves held false).advance).length = cap ∧ maxScanTokenSize ≤ cap
          · -- the buffer is full at its maximal size and holds no token
            rw [if_pos hfull]
            have h0 : (splitMoves held false).advance = 0 := by
              have := hfull.1
              simp only [List.length_drop] at this
              omega
            have hlen : held.length = maxScanTokenSize := by
              have := hfull.1
              simp only [List.length_drop] at this
              omega
            symm
            apply readAll_tooLong
            rw [scanStep_def]
            have ht : (held ++ pending).take maxScanTokenSize = held := by
              rw [List.take_append_of_le_length (by omega)]
              exact List.take_of_length_le (by omega)
            have hd : decide ((held ++ pending).length < maxScanTokenSize) = false := by
              simp only [decide_eq_false_iff_not, List.length_append]; omega
            rw [ht, hd, htok, h0]
            simp
          · rw [if_neg hfull, hrest]
            exact hread _ pending (by
              rw [heq] at hmu
              simp only [Bool.false_eq_true, if_false] at hmu
              simp only [List.length_drop]; omega) (by simp only [List.length_drop]; omega) hfull
    · -- nothing is held and the end has not been seen: read
      have hh : held = [] := by
        cases held with
        | nil => rfl
        | cons a l => exact absurd (Or.inl (by simp)) hc
      have he : eof = false := by
        cases eof with
        | false => rfl
        | true => exact absurd (Or.inr rfl) hc
      subst hh he
      rw [if_neg hc]
      dsimp only
      rw [if_neg (by simp)]
      have hnfull : ¬((([] : Bytes).drop 0).length = cap ∧ maxScanTokenSize ≤ cap) := by
        rintro ⟨h1, h2⟩
        simp only [List.drop_nil, List.length_nil] at h1
        rw [← h1] at h2
        simp [maxScanTokenSize] at h2
      rw [if_neg hnfull]
      exact hread _ pending (by
        simp only [Bool.false_eq_true, if_false, List.length_nil] at hmu
        simp only [List.drop_nil, List.length_nil]; omega) (by simp) hnfull

/-- the scanner as `readMoves` creates it: nothing held, no buffer yet -/
def ScanState.init (rest : Bytes) : ScanState := ⟨[], rest, 0, false⟩

/-- `ParsePTN` with the spelled-out scanner in place of the window model -/
def parsePTNScanner (env : Env) (chunk : Nat → Nat) (input : Bytes) : R File :=
  if input.isEmpty then .error (.illegal "EOF") else
  let inp := stripBOM input
  match readEvents (inp.length + 1) inp with
  | .error e => .error e
  | .ok (tags, rest) =>
    match readMovesScanner env chunk (2 * rest.length + 2) 0 (ScanState.init rest) with
    | .error e => .error e
    | .ok ops => .ok ⟨tags, ops⟩

theorem readMovesScanner_init (env : Env) (chunk : Nat → Nat) (rest : Bytes) :
    readMovesScanner env chunk (2 * rest.length + 2) 0 (ScanState.init rest) = readMoves env (rest.length + 1) rest := by
  rw [readMovesScanner_eq env chunk _ 0 (ScanState.init rest)
    ⟨by simp [ScanState.init], by simp [ScanState.init], fun h => by cases h⟩
    (by simp only [ScanState.measure, ScanState.init, List.length_nil, Bool.false_eq_true, if_false]; omega)]
  rfl

theorem parsePTNScanner_eq (env : Env) (chunk : Nat → Nat) (input : Bytes) :
    parsePTNScanner env chunk input = parsePTN env input := by
  unfold parsePTNScanner parsePTN
  split
  · rfl
  · dsimp only
    cases readEvents ((stripBOM input).length + 1) (stripBOM input) with
    | error e => rfl
    | ok tr =>
      obtain ⟨tags, rest⟩ := tr
      dsimp only
      rw [readMovesScanner_init]
      cases readMoves env (rest.length + 1) rest <;> rfl

end PTN
