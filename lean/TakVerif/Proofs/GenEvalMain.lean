import TakVerif.Proofs.GenControl
import TakVerif.Props.C02_gen2

/-! Bridge lemmas for `ai.evaluate` itself as regenerated into `Generated/FuncsHeur.lean`: the `for i, h := range p.Height`
loop (per-square captives / capstone / throw terms, with the hoisted calls of the regenerated `mobility`) and the final sum. -/
namespace GenEvalMain
open Tak Roads

/-- `uint64(1 << uint(i))` for a square index of a board of at most 64 squares is the model's `bit i` -/
theorem bit_eq (i : Nat) (hi : i < 64) :
    Gen.shl 1#64 (Int.toNat ((i : Int) % 18446744073709551616)) = bit i := by
  have : Int.toNat ((i : Int) % 18446744073709551616) = i := by omega
  rw [this, Gen.shl_eq]; rfl

/-- `(1 << (h - 1))` for a `uint8` height of at least one -/
theorem hm1 (h : BitVec 8) (hh : 1 ≤ h.toNat) : (h - 1#8).toNat = h.toNat - 1 := by
  have := h.isLt
  rw [BitVec.toNat_sub]
  simp
  omega

/-- one round of the `range p.Height` loop: the regenerated body (index guard `p.Stacks[i]`, the two hoisted `mobility`
calls, the joined `if`s and the `switch`) adds the model's `squareScore c w p i` -/
theorem sq_step (c : Consts) (w : Weights) (p : Pos) (i : Nat) (hi : i < 64) (hst : i < p.stacks.size)
    (h : BitVec 8) (hh : p.height.getD i 0 = h) (tl : List (BitVec 8)) (score : Int) :
    Gen.evaluate_loop0 c ((Gen.shl 1#64 c.Size) - 1#64) p.black p.caps p.stacks p.standing p.white w.arr (h :: tl) (i : Int) score =
    Gen.evaluate_loop0 c ((Gen.shl 1#64 c.Size) - 1#64) p.black p.caps p.stacks p.standing p.white w.arr tl ((i : Int) + 1)
      (score + squareScore c w p i) := by
  conv => lhs; unfold Gen.evaluate_loop0
  unfold squareScore
  rw [hh]
  by_cases hle : h.toNat ≤ 1
  · have hd : decide (h ≤ 1#8) = true := by simp [BitVec.le_def]; exact hle
    simp only [hd, hle, if_true, Int.add_zero]
  · have hd : decide (h ≤ 1#8) = false := by simp [BitVec.le_def]; omega
    have hg : (!(decide ((0 : Int) ≤ (i : Int)) && decide ((i : Int) < Int.ofNat p.stacks.size))) = false := by
      simp; omega
    have hs : ((p.stacks.getD i 0#64 &&& ((Gen.shl 1#64 (h - 1#8).toNat) - 1#64)) &&& ((Gen.shl 1#64 c.Size) - 1#64)) = captiveBits c p i := by
      unfold captiveBits
      rw [hh, Gen.shl_eq, Gen.shl_eq, hm1 h (by omega)]
      rfl
    have hm := fun b ht => GenHeur.mobility_eq c p b ht
    unfold genMobility at hm
    simp only [hd, hle, Bool.false_eq_true, if_false, hg, bit_eq i hi, Int.toNat_natCast, hs, hm, GenHeur.arr_getD,
      ← C02.popcount_is_source]
    unfold capPart throwPart captivePart hardCount softCount sqSign sqIsWhite
    simp only [hh]
    generalize (popcount (captiveBits c p i) : Int) = pc
    generalize hH : (Int.ofNat h.toNat) = H
    have hH' : ((h.toNat : Nat) : Int) = H := hH
    simp only [hH']
    generalize (popcount (mobility c p (bit i) H) : Int) = mcap
    simp only [Facts.fHardTopCap, Facts.fCapMobility, Facts.fThrowMine, Facts.fThrowTheirs, Facts.fThrowEmpty,
      Facts.fStandingCaptivesHard, Facts.fStandingCaptivesSoft, Facts.fCapstoneCaptivesHard, Facts.fCapstoneCaptivesSoft,
      Facts.fFlatCaptivesHard, Facts.fFlatCaptivesSoft]
    cases hw : (p.white &&& bit i != 0#64) <;> cases hc : (p.caps &&& bit i != 0#64) <;>
      cases hsd : (p.standing &&& bit i != 0#64) <;>
      cases hb : ((p.black &&& bit i == 0#64) == (captiveBits c p i &&& 1#64 == 0#64)) <;>
      simp only [Bool.false_eq_true, if_false, if_true, gt_iff_lt, decide_eq_true_eq] <;>
      (first
        | (by_cases hpos : (0 : Int) < pc
           · simp only [hpos, if_true]; simp; congr 1; omega
           · simp only [hpos, if_false]; congr 1; omega)
        | (by_cases hpos : (0 : Int) < H - pc - 1
           · simp only [hpos, if_true]; simp; congr 1; omega
           · simp only [hpos, if_false]; congr 1; omega))

/-- the sum of the per-square terms of the squares `pre, pre+1, .., pre+n-1` -/
def sqSum (c : Consts) (w : Weights) (p : Pos) (pre : Nat) : Nat → Int
  | 0 => 0
  | n+1 => squareScore c w p pre + sqSum c w p (pre + 1) n

theorem sqSum_range (c : Consts) (w : Weights) (p : Pos) : ∀ (n pre : Nat),
    sqSum c w p pre n = ((List.range n).map (fun k => squareScore c w p (pre + k))).sum := by
  intro n
  induction n with
  | zero => intro pre; rfl
  | succ n ih =>
    intro pre
    rw [List.range_succ_eq_map, List.map_cons, List.sum_cons, List.map_map, sqSum, ih]
    simp only [Nat.add_zero]
    congr 2
    apply List.map_congr_left
    intro k _
    simp only [Function.comp_apply]
    congr 1
    omega

/-- the whole `for i, h := range p.Height` loop, entered at square `pre` with the remaining heights `tl`: never panics when
`Stacks` covers `Height`, and adds the per-square terms of the remaining squares -/
theorem sq_loop (c : Consts) (w : Weights) (p : Pos) (hn : p.height.size ≤ 64) (hst : p.height.size ≤ p.stacks.size) :
    ∀ (tl pfx : List (BitVec 8)) (score : Int), p.height.toList = pfx ++ tl →
      Gen.evaluate_loop0 c ((Gen.shl 1#64 c.Size) - 1#64) p.black p.caps p.stacks p.standing p.white w.arr tl (pfx.length : Int) score =
        some (score + sqSum c w p pfx.length tl.length) := by
  intro tl
  induction tl with
  | nil => intro pfx score _; simp [Gen.evaluate_loop0, sqSum]
  | cons h tl ih =>
    intro pfx score hl
    have hsz : p.height.size = pfx.length + (tl.length + 1) := by
      have := congrArg List.length hl
      simpa using this
    have hget : p.height.getD pfx.length 0 = h := by
      have : p.height = (pfx ++ h :: tl).toArray := by rw [← hl]
      rw [this]
      simp [Array.getD]
    rw [sq_step c w p pfx.length (by omega) (by omega) h hget tl score]
    have hlen : ((pfx.length : Int) + 1) = ((pfx ++ [h]).length : Int) := by simp
    rw [hlen, ih (pfx ++ [h]) _ (by simp [hl])]
    simp only [List.length_append, List.length_cons, List.length_nil, sqSum, Nat.zero_add]
    congr 1
    omega

/-- the loop over all of `p.Height`, entered as `evaluate` enters it -/
theorem sq_all (c : Consts) (w : Weights) (p : Pos) (hn : p.height.size ≤ 64) (hst : p.height.size ≤ p.stacks.size) (score : Int) :
    Gen.evaluate_loop0 c ((Gen.shl 1#64 c.Size) - 1#64) p.black p.caps p.stacks p.standing p.white w.arr p.height.toList 0 score =
      some (score + ((List.range p.height.size).map (squareScore c w p)).sum) := by
  have h := sq_loop c w p hn hst p.height.toList [] score rfl
  have h0 : ((([] : List (BitVec 8)).length : Nat) : Int) = 0 := rfl
  rw [h0] at h
  rw [h, sqSum_range]
  simp

/-- the regenerated `WinDetails()` accessor value is the model's `winDetails` in the regenerated struct -/
theorem genWinDetails_eq (p : Pos) : genWinDetails p = C18.genDetails p.winDetails := by
  unfold genWinDetails genHasRoad
  rw [← C02.winDetails_is_source]
  rfl

/-- **`ai.evaluate`**: on every position whose `Height` has at most 64 entries covered by `Stacks`, for every `Constants`
value and every weight vector: whenever the model returns a value, the regenerated evaluator returns it (no index
panic, every loop inside its whitelist fuel) -/
theorem evaluate_eq (c : Consts) (w : Weights) (p : Pos) (hn : p.height.size ≤ 64) (hst : p.height.size ≤ p.stacks.size)
    (v : Int) (h : evaluate c w p = .ok v) : genEvaluate c w.arr p = some v := by
  unfold genEvaluate Gen.evaluate
  have hgo := C02.gameOver_is_source_full p
  unfold genHasRoad
  rw [← hgo]
  unfold evaluate at h
  by_cases hov : p.gameOver.1 = true
  · simp only [hov, if_true, Except.ok.injEq] at h
    simp only [hov, if_true, GenHeur.arr_getD]
    rw [← h, C18.evaluateTerminal_is_source p w, genWinDetails_eq p]
    rfl
  · simp only [hov, Bool.false_eq_true, if_false] at h
    simp only [hov, Bool.false_eq_true, if_false]
    unfold rawScore at h
    have hst' : ¬ (p.stacks.size < p.height.size) := by omega
    simp only [hst', if_false] at h
    cases hwg : scoreGroups c p.wgroups w (p.black ||| p.standing) with
    | error e => simp [hwg] at h
    | ok wg =>
      cases hbg : scoreGroups c p.bgroups w (p.white ||| p.standing) with
      | error e => simp [hwg, hbg] at h
      | ok bg =>
        simp only [hwg, hbg] at h
        have h1 := GenHeur.scoreGroups_eq c p.wgroups w _ wg hwg
        have h2 := GenHeur.scoreGroups_eq c p.bgroups w _ bg hbg
        have h3 := GenHeur.scoreThreats_eq c w p
        have h4 := GenControl.scoreControl_eq c w p
        unfold genScoreThreats at h3
        unfold genScoreControl at h4
        simp only [GenHeur.arr_getD, Facts.fPotential, Facts.fThreat, Facts.fCenterControl, Facts.fEmptyControl,
          Facts.fFlatControl] at h3 h4
        have cw : (BitVec.ofNat 8 p.toMove.code == 128#8) = (p.toMove == .white) := C18.colorByte_eq p.toMove .white
        simp only [GenHeur.arr_getD, sq_all c w p hn hst, h1, h2, h3, h4, C18.toMove_byte, cw, ← C02.popcount_is_source]
        generalize ((List.range p.height.size).map (squareScore c w p)).sum = stacks at h ⊢
        generalize scoreThreats c w p = st at h ⊢
        generalize scoreControl c w p = sc at h ⊢
        unfold materialScore libertyScore tempoScore at h
        simp only [Facts.fTopFlat, Facts.fTempo, Facts.fStanding, Facts.fCapstone, Facts.fCenter, Facts.fLiberties] at h
        cases hm : (p.toMove == Color.white) <;> simp only [hm, Bool.false_eq_true, if_false, if_true, Except.ok.injEq] at h ⊢ <;>
          (cases hl : (w.at 12 != 0) <;> simp only [hl, Bool.false_eq_true, if_false, if_true] at h ⊢ <;>
            (rw [← h]; congr 1; omega))

end GenEvalMain
