import TakVerif.Proofs.DFPNTop

/-! Toy games for the DFPN theorems: a game given by a finite graph (`graphGame`), an executable check
that it satisfies the assumptions `DfpnOK` (`graphOKB`, `graphOK_sound`), and an executable
bounded-depth win checker that is sound for `PlainWin` (`winB_sound`) — so that hypotheses and
conclusions of the theorems in `Props/C06_dfpn.lean` can be exhibited by `decide`. -/
namespace C06
open Tak Tak.PN Tak.DFPN Spec.Game

/-- the attacker wins within `d` plies (executable) -/
def winB {S M : Type} (G : Game S M) (att : Color) : Nat → S → Bool
  | 0, s => G.over s == some att
  | d+1, s =>
    match G.over s with
    | some c => c == att
    | none =>
      if G.toMove s == att then
        (G.moves s).any (fun m => match G.apply s m with | some s' => winB G att d s' | none => false)
      else
        (G.moves s).all (fun m => match G.apply s m with | some s' => winB G att d s' | none => true)

theorem winB_sound {S M : Type} (G : Game S M) (att : Color) : ∀ (d : Nat) (s : S),
    winB G att d s = true → PlainWin G att s := by
  intro d
  induction d with
  | zero =>
    intro s h
    simp only [winB, beq_iff_eq] at h
    exact .terminal h
  | succ d ih =>
    intro s h
    simp only [winB] at h
    split at h
    · rename_i c hc
      simp only [beq_iff_eq] at h
      subst h
      exact .terminal hc
    · rename_i ho
      split at h
      · rename_i ht
        simp only [beq_iff_eq] at ht
        rw [List.any_eq_true] at h
        obtain ⟨m, hm, hw⟩ := h
        split at hw
        · rename_i s' hs'
          exact .attacker ho ht ⟨m, hm, hs'⟩ (ih s' hw)
        · cases hw
      · rename_i ht
        simp only [beq_iff_eq] at ht
        rw [List.all_eq_true] at h
        refine .defender ho ht ?_
        rintro s' ⟨m, hm, hs'⟩
        have := h m hm
        rw [hs'] at this
        exact ih s' this

/-- a position of a graph game: who moves, whether the game is over, where the moves lead -/
structure GNode where
  mover : Color
  over : Option Color
  succ : List Nat

def GNode.dflt : GNode := ⟨.white, none, []⟩

/-- the game on positions `0 … nodes.length-1`; move `m` = "take the `m`-th edge" -/
def graphGame (nodes : List GNode) : Game Nat Nat where
  moves := fun s => List.range ((nodes.getD s GNode.dflt).succ.length)
  apply := fun s m => (nodes.getD s GNode.dflt).succ[m]?
  over := fun s => (nodes.getD s GNode.dflt).over
  toMove := fun s => (nodes.getD s GNode.dflt).mover
  equal := fun a b => a == b
  reversible := fun _ _ => false

/-- an injective, nowhere-zero hash -/
def gHash (s : Nat) : UInt64 := UInt64.ofNat (s + 1)

/-- `uint32(float64(δ₂)·1.1)` in integers (the theorems hold for any function) -/
def gScale (d : UInt32) : UInt32 := d + d / 10

/-- no threat oracle -/
def noThreats (_ : Nat) : Bool × Bool := (false, false)

def nodeOK (nodes : List GNode) (nd : GNode) : Bool :=
  (nd.mover == .white || nd.mover == .black) &&
  nd.succ.all (fun j => decide (j < nodes.length) && ((nodes.getD j GNode.dflt).mover == nd.mover.flip)) &&
  (nd.over.isSome || !nd.succ.isEmpty) && decide (nd.succ.length < 2 ^ 32)

/-- the executable form of `DfpnOK` for a graph game -/
def graphOKB (nodes : List GNode) : Bool := decide (nodes.length < 2 ^ 32) && nodes.all (nodeOK nodes)

theorem getD_cases (nodes : List GNode) (s : Nat) :
    (s < nodes.length ∧ nodes.getD s GNode.dflt ∈ nodes) ∨
    (nodes.length ≤ s ∧ nodes.getD s GNode.dflt = GNode.dflt) := by
  by_cases h : s < nodes.length
  · left
    refine ⟨h, ?_⟩
    rw [List.getD_eq_getElem?_getD, List.getElem?_eq_getElem h]
    exact List.getElem_mem h
  · right
    refine ⟨by omega, ?_⟩
    rw [List.getD_eq_getElem?_getD, List.getElem?_eq_none (by omega)]
    rfl

theorem gHash_inj {s t : Nat} (hs : s < 2 ^ 32) (ht : t < 2 ^ 32) (h : gHash s = gHash t) : s = t := by
  have := congrArg UInt64.toNat h
  simp only [gHash, UInt64.toNat_ofNat'] at this
  omega

theorem solve_noThreats (nodes : List GNode) (s : Nat) : solve (graphGame nodes) noThreats s = none := by
  simp [solve, noThreats]

theorem graphOK_sound (nodes : List GNode) (att : Color) (ha : att = .white ∨ att = .black) (two : Bool)
    (h : graphOKB nodes = true) :
    DfpnOK (graphGame nodes) gHash noThreats att two (fun s => s < nodes.length) := by
  simp only [graphOKB, Bool.and_eq_true, decide_eq_true_eq, List.all_eq_true] at h
  obtain ⟨hlen, hall⟩ := h
  have hnode : ∀ s, s < nodes.length → nodeOK nodes (nodes.getD s GNode.dflt) = true := by
    intro s hs
    rcases getD_cases nodes s with ⟨_, hm⟩ | ⟨hge, _⟩
    · exact hall _ hm
    · omega
  refine ⟨⟨?_, ?_⟩, ha, ?_, ?_, ?_, ?_, ?_, ?_⟩
  · -- binary
    intro s
    show (nodes.getD s GNode.dflt).mover = .white ∨ (nodes.getD s GNode.dflt).mover = .black
    rcases getD_cases nodes s with ⟨hs, _⟩ | ⟨_, hd⟩
    · have := hnode s hs
      simp only [nodeOK, Bool.and_eq_true, Bool.or_eq_true, beq_iff_eq] at this
      exact this.1.1.1
    · rw [hd]; left; rfl
  · -- flips
    intro s m s' happ
    show (nodes.getD s' GNode.dflt).mover = (nodes.getD s GNode.dflt).mover.flip
    have happ' : (nodes.getD s GNode.dflt).succ[m]? = some s' := happ
    rcases getD_cases nodes s with ⟨hs, _⟩ | ⟨_, hd⟩
    · have := hnode s hs
      simp only [nodeOK, Bool.and_eq_true, List.all_eq_true, decide_eq_true_eq, beq_iff_eq] at this
      exact (this.1.1.2 s' (List.mem_of_getElem? happ')).2
    · rw [hd] at happ'; simp [GNode.dflt] at happ'
  · -- closed
    intro s s' hs ⟨m, _, happ⟩
    have happ' : (nodes.getD s GNode.dflt).succ[m]? = some s' := happ
    have := hnode s hs
    simp only [nodeOK, Bool.and_eq_true, List.all_eq_true, decide_eq_true_eq, beq_iff_eq] at this
    exact (this.1.1.2 s' (List.mem_of_getElem? happ')).1
  · -- small
    intro s hs _
    have := hnode s hs
    simp only [nodeOK, Bool.and_eq_true, decide_eq_true_eq] at this
    show (List.range _).length < _
    rw [List.length_range]
    exact this.2
  · -- moves
    intro s hs ho
    have := hnode s hs
    simp only [nodeOK, Bool.and_eq_true, Bool.or_eq_true, Bool.not_eq_true'] at this
    have ho' : (nodes.getD s GNode.dflt).over = none := ho
    show List.range _ ≠ []
    rcases this.1.2 with h1 | h1
    · rw [ho'] at h1; cases h1
    · intro hr
      have hl := congrArg List.length hr
      rw [List.length_range] at hl
      have : (nodes.getD s GNode.dflt).succ = [] := List.eq_nil_of_length_eq_zero hl
      rw [this] at h1; cases h1
  · -- threat
    intro s _ _ _ hsol
    exact absurd (solve_noThreats nodes s) hsol
  · -- hashNZ
    intro s hs _ hz
    have := congrArg UInt64.toNat hz
    simp only [gHash, UInt64.toNat_ofNat'] at this
    have : (s + 1) % 2 ^ 64 = 0 := this
    omega
  · -- hashOK
    intro s t hs ht _ _ hh
    have : s = t := gHash_inj (by omega) (by omega) hh
    subst this
    exact ⟨rfl, Iff.rfl⟩

/-- reading a `decide`d run -/
theorem run_of_check {M : Type} {x : Except Err (DFPN.Result M × DFPN.Stats × Solver M)}
    {P : DFPN.Result M → DFPN.Stats → Solver M → Bool}
    (h : (match x with | .ok (r, s, d) => P r s d | .error _ => false) = true) :
    ∃ r s d, x = .ok (r, s, d) ∧ P r s d = true := by
  cases x with
  | error e => cases h
  | ok v => obtain ⟨r, s, d⟩ := v; exact ⟨r, s, d, rfl, h⟩

end C06
