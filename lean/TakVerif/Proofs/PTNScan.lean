import TakVerif.Proofs.PTNRender

/-! `readMoves` without fuel, the scanner at the edge of its 64 KiB window, and the exact outcome of
`ParsePTN (Render p)` for values whose characters are representable: the ops come back iff every token fits
the window, and `bufio.ErrTooLong` is the answer otherwise. -/
namespace PTN
open Tak

/-! ### fuel -/

theorem readMoves_fuel (env : Env) : ∀ (f1 f2 : Nat) (rest : Bytes), rest.length < f1 → rest.length < f2 →
    readMoves env f1 rest = readMoves env f2 rest := by
  intro f1
  induction f1 with
  | zero => intro f2 rest h; omega
  | succ n ih =>
    intro f2 rest h1 h2
    cases f2 with
    | zero => omega
    | succ k =>
      cases hs : scanStep rest with
      | eof => simp only [readMoves, hs]
      | tooLong => simp only [readMoves, hs]
      | skip rest' =>
        have := scanStep_skip rest rest' hs
        simp only [readMoves, hs]
        exact ih k rest' (by omega) (by omega)
      | token tok rest' =>
        have := (scanStep_token rest tok rest' hs).2
        simp only [readMoves, hs]
        rw [ih k rest' (by omega) (by omega)]

/-- `readMoves` with the fuel `ParsePTN` passes -/
def readAll (env : Env) (rest : Bytes) : R (List Op) := readMoves env (rest.length + 1) rest

theorem readMoves_eq_readAll (env : Env) (f : Nat) (rest : Bytes) (h : rest.length < f) :
    readMoves env f rest = readAll env rest :=
  readMoves_fuel env f _ rest h (by omega)

/-- `bufio.ErrTooLong` as `readMoves` reports it -/
def tooLongErr {α} : R α := .error (.illegal "bufio.Scanner: token too long")

/-- one more op in front of the remaining ones -/
def consOp (r1 : R Op) (r2 : R (List Op)) : R (List Op) :=
  match r1 with
  | .error e => .error e
  | .ok op =>
    match r2 with
    | .error e => .error e
    | .ok ops => .ok (op :: ops)

theorem readMoves_succ (env : Env) (f : Nat) (rest : Bytes) :
    readMoves env (f + 1) rest =
      match scanStep rest with
      | .eof => .ok []
      | .tooLong => .error (.illegal "bufio.Scanner: token too long")
      | .skip rest' => readMoves env f rest'
      | .token tok rest' => consOp (classifyTok env tok) (readMoves env f rest') := by
  rw [readMoves]
  cases scanStep rest with
  | eof => rfl
  | tooLong => rfl
  | skip r => rfl
  | token tok r =>
    dsimp only
    unfold consOp
    cases classifyTok env tok with
    | error e => rfl
    | ok op =>
      dsimp only
      cases readMoves env f r with
      | error e => rfl
      | ok ops => rfl

theorem readAll_eof {env : Env} {rest : Bytes} (h : scanStep rest = .eof) : readAll env rest = .ok [] := by
  unfold readAll; rw [readMoves_succ, h]

theorem readAll_tooLong {env : Env} {rest : Bytes} (h : scanStep rest = .tooLong) : readAll env rest = tooLongErr := by
  unfold readAll; rw [readMoves_succ, h]; rfl

theorem readAll_skip {env : Env} {rest rest' : Bytes} (h : scanStep rest = .skip rest') :
    readAll env rest = readAll env rest' := by
  show readMoves env (rest.length + 1) rest = readAll env rest'
  rw [readMoves_succ, h]
  exact readMoves_eq_readAll env _ _ (scanStep_skip _ _ h)

theorem readAll_token {env : Env} {rest tok rest' : Bytes} (h : scanStep rest = .token tok rest') :
    readAll env rest = consOp (classifyTok env tok) (readAll env rest') := by
  show readMoves env (rest.length + 1) rest = consOp (classifyTok env tok) (readAll env rest')
  rw [readMoves_succ, h]
  dsimp only
  rw [readMoves_eq_readAll env _ _ (scanStep_token _ _ _ h).2]

theorem consOp_ite (o : Op) (b : Bool) (l : List Op) :
    consOp (.ok o) (if b = true then .ok l else tooLongErr) = if b = true then .ok (o :: l) else tooLongErr := by
  cases b <;> rfl

/-! ### the scanner at the edge of its window -/

theorem takeWhile_all {α} (p : α → Bool) (l : List α) (h : ∀ b ∈ l, p b = true) : l.takeWhile p = l := by
  induction l with
  | nil => rfl
  | cons a l ih =>
    simp only [List.takeWhile_cons, h a (by simp), if_true]
    rw [ih (fun b hb => h b (by simp [hb]))]

theorem take_cons_pred (c : UInt8) (cs : Bytes) (n : Nat) (hn : 0 < n) :
    (c :: cs).take n = c :: cs.take (n - 1) := by
  obtain ⟨k, rfl⟩ : ∃ k, n = k + 1 := ⟨n - 1, by omega⟩
  rfl

/-- the split function on a window that starts (after `lead` white-space bytes) with a token whose end is
not in sight, the input not being exhausted: no token, advance over the white space only -/
theorem splitMoves_noEnd (lead : Bytes) (c : UInt8) (w : Bytes) (hlead : ∀ b ∈ lead, isSpace b = true)
    (hc : isSpace c = false)
    (hno : (c = 123 ∧ ∀ b ∈ c :: w, (b != 125) = true) ∨ (c ≠ 123 ∧ ∀ b ∈ c :: w, isSpace b = false)) :
    splitMoves (lead ++ c :: w) false = ⟨lead.length, none⟩ := by
  unfold splitMoves
  have hbody : (lead ++ c :: w).dropWhile isSpace = c :: w := by
    rw [dropWhile_append_all _ _ _ hlead]
    simp only [List.dropWhile_cons, hc, Bool.false_eq_true, if_false]
  rw [hbody]
  have hstart : (lead ++ c :: w).length - (c :: w).length = lead.length := by
    simp only [List.length_append]; omega
  dsimp only
  rw [hstart]
  rcases hno with ⟨h123, hall⟩ | ⟨h123, hall⟩
  · have : (c == 123) = true := by simp [h123]
    rw [if_pos this, takeWhile_all _ _ hall]
    simp
  · have : (c == 123) = false := by simpa using h123
    rw [if_neg (by simp [this])]
    rw [takeWhile_all (fun b => !isSpace b) _ (fun b hb => by simp [hall b hb])]
    simp

/-- a separator in front of a token whose end is beyond the window: the scanner drops the separator -/
theorem scanStep_sep_skip (sep c : UInt8) (cs : Bytes) (hsep : isSpace sep = true) (hc : isSpace c = false)
    (hlen : maxScanTokenSize ≤ (c :: cs).length)
    (hno : (c = 123 ∧ ∀ b ∈ (c :: cs).take (maxScanTokenSize - 1), (b != 125) = true) ∨
           (c ≠ 123 ∧ ∀ b ∈ (c :: cs).take (maxScanTokenSize - 1), isSpace b = false)) :
    scanStep (sep :: c :: cs) = .skip (c :: cs) := by
  unfold scanStep
  have hw : (sep :: c :: cs).take maxScanTokenSize = [sep] ++ c :: cs.take (maxScanTokenSize - 1 - 1) := by
    rw [take_cons_pred sep _ _ (by decide), take_cons_pred c _ _ (by decide)]
    rfl
  have hw' : (c :: cs).take (maxScanTokenSize - 1) = c :: cs.take (maxScanTokenSize - 1 - 1) :=
    take_cons_pred c _ _ (by decide)
  rw [hw'] at hno
  have hE : decide ((sep :: c :: cs).length < maxScanTokenSize) = false := by
    simp only [decide_eq_false_iff_not]
    simp only [List.length_cons] at hlen ⊢
    omega
  rw [hw, hE]
  dsimp only
  rw [splitMoves_noEnd [sep] c _ (by simpa using hsep) hc hno]
  simp

/-- a token that fills the whole window without ending: `bufio.ErrTooLong` -/
theorem scanStep_tooLong (c : UInt8) (cs : Bytes) (hc : isSpace c = false)
    (hlen : maxScanTokenSize ≤ (c :: cs).length)
    (hno : (c = 123 ∧ ∀ b ∈ (c :: cs).take maxScanTokenSize, (b != 125) = true) ∨
           (c ≠ 123 ∧ ∀ b ∈ (c :: cs).take maxScanTokenSize, isSpace b = false)) :
    scanStep (c :: cs) = .tooLong := by
  unfold scanStep
  have hw : (c :: cs).take maxScanTokenSize = [] ++ c :: cs.take (maxScanTokenSize - 1) :=
    take_cons_pred c _ _ (by decide)
  have hw' : (c :: cs).take maxScanTokenSize = c :: cs.take (maxScanTokenSize - 1) :=
    take_cons_pred c _ _ (by decide)
  rw [hw'] at hno
  have hE : decide ((c :: cs).length < maxScanTokenSize) = false := by
    simp only [decide_eq_false_iff_not]
    omega
  rw [hw, hE]
  dsimp only
  rw [splitMoves_noEnd [] c _ (by simp) hc hno]
  simp

theorem mem_take_append_left {α} (l1 l2 : List α) (n : Nat) (hn : n ≤ l1.length) (b : α)
    (hb : b ∈ (l1 ++ l2).take n) : b ∈ l1 := by
  rw [List.take_append_of_le_length hn] at hb
  exact List.mem_of_mem_take hb

/-! ### one token at the head of the input, exactly -/

/-- an ordinary token at the head of the input: read iff it fits the window with its terminator -/
theorem readAll_ordinary (env : Env) (tok tl : Bytes) (t : UInt8) (h : OrdTok tok) (ht : isSpace t = true) :
    readAll env (tok ++ t :: tl) =
      if tok.length < maxScanTokenSize then consOp (classifyTok env tok) (readAll env tl) else tooLongErr := by
  obtain ⟨hne, hns, hhd⟩ := h
  by_cases hl : tok.length < maxScanTokenSize
  · rw [if_pos hl]
    have hs := scanStep_ordinary [] tok tl t (by simp) hne hns hhd ht (by simpa using hl)
    simp only [List.nil_append] at hs
    exact readAll_token hs
  · rw [if_neg hl]
    obtain ⟨c, cs, rfl⟩ : ∃ c cs, tok = c :: cs := by
      cases tok with
      | nil => exact absurd rfl hne
      | cons c cs => exact ⟨c, cs, rfl⟩
    have hc123 : c ≠ 123 := by simpa using hhd
    apply readAll_tooLong
    have : (c :: cs) ++ t :: tl = c :: (cs ++ t :: tl) := rfl
    rw [this]
    refine scanStep_tooLong c _ (hns c (by simp)) ?_ (Or.inr ⟨hc123, ?_⟩)
    · simp only [List.length_cons, List.length_append] at hl ⊢; omega
    · intro b hb
      rw [← this] at hb
      exact hns b (mem_take_append_left _ _ _ (by omega) b hb)

/-- the same behind one separator byte -/
theorem readAll_sep_ordinary (env : Env) (sep : UInt8) (tok tl : Bytes) (t : UInt8) (hsep : isSpace sep = true)
    (h : OrdTok tok) (ht : isSpace t = true) :
    readAll env (sep :: (tok ++ t :: tl)) =
      if tok.length < maxScanTokenSize then consOp (classifyTok env tok) (readAll env tl) else tooLongErr := by
  by_cases hl : 1 + tok.length < maxScanTokenSize
  · obtain ⟨hne, hns, hhd⟩ := h
    rw [if_pos (by omega)]
    have hs := scanStep_ordinary [sep] tok tl t (by simpa using hsep) hne hns hhd ht (by simpa using hl)
    have : [sep] ++ tok ++ t :: tl = sep :: (tok ++ t :: tl) := by simp
    rw [this] at hs
    exact readAll_token hs
  · rw [← readAll_ordinary env tok tl t h ht]
    obtain ⟨hne, hns, hhd⟩ := h
    obtain ⟨c, cs, rfl⟩ : ∃ c cs, tok = c :: cs := by
      cases tok with
      | nil => exact absurd rfl hne
      | cons c cs => exact ⟨c, cs, rfl⟩
    have hc123 : c ≠ 123 := by simpa using hhd
    apply readAll_skip
    have : (c :: cs) ++ t :: tl = c :: (cs ++ t :: tl) := rfl
    rw [this]
    refine scanStep_sep_skip sep c _ hsep (hns c (by simp)) ?_ (Or.inr ⟨hc123, ?_⟩)
    · simp only [List.length_cons, List.length_append] at hl ⊢; omega
    · intro b hb
      rw [← this] at hb
      exact hns b (mem_take_append_left _ _ _ (by simp only [List.length_cons] at hl ⊢; omega) b hb)

/-- a comment at the head of the input: read iff it fits the window with both braces -/
theorem readAll_comment (env : Env) (c tail : Bytes) (hc : ∀ b ∈ c, (b != 125) = true) :
    readAll env ((123 :: c ++ [125]) ++ tail) =
      if c.length + 2 ≤ maxScanTokenSize then consOp (.ok (.comment (123 :: c ++ [125]) c)) (readAll env tail)
      else tooLongErr := by
  by_cases hl : c.length + 2 ≤ maxScanTokenSize
  · rw [if_pos hl]
    have hs := scanStep_comment [] c tail (by simp) hc (by simpa using hl)
    simp only [List.nil_append] at hs
    rw [readAll_token hs, classify_comment]
  · rw [if_neg hl]
    apply readAll_tooLong
    have : (123 :: c ++ [125]) ++ tail = 123 :: (c ++ ([125] ++ tail)) := by simp
    rw [this]
    refine scanStep_tooLong 123 _ (by decide) ?_ (Or.inl ⟨rfl, ?_⟩)
    · simp only [List.length_cons, List.length_append]; omega
    · intro b hb
      have h2 : 123 :: (c ++ ([125] ++ tail)) = (123 :: c) ++ ([125] ++ tail) := rfl
      rw [h2] at hb
      have := mem_take_append_left _ _ _ (by simp only [List.length_cons]; omega) b hb
      simp only [List.mem_cons] at this
      rcases this with rfl | hm
      · decide
      · exact hc b hm

/-- the same behind one separator byte -/
theorem readAll_sep_comment (env : Env) (sep : UInt8) (c tail : Bytes) (hsep : isSpace sep = true)
    (hc : ∀ b ∈ c, (b != 125) = true) :
    readAll env (sep :: ((123 :: c ++ [125]) ++ tail)) =
      if c.length + 2 ≤ maxScanTokenSize then consOp (.ok (.comment (123 :: c ++ [125]) c)) (readAll env tail)
      else tooLongErr := by
  by_cases hl : c.length + 3 ≤ maxScanTokenSize
  · rw [if_pos (by omega)]
    have hs := scanStep_comment [sep] c tail (by simpa using hsep) hc (by simpa using (by omega : 1 + c.length + 2 ≤ maxScanTokenSize))
    have : [sep] ++ (123 :: c ++ [125]) ++ tail = sep :: ((123 :: c ++ [125]) ++ tail) := by simp
    rw [this] at hs
    rw [readAll_token hs, classify_comment]
  · rw [← readAll_comment env c tail hc]
    apply readAll_skip
    have : (123 :: c ++ [125]) ++ tail = 123 :: (c ++ ([125] ++ tail)) := by simp
    rw [this]
    refine scanStep_sep_skip sep 123 _ hsep (by decide) ?_ (Or.inl ⟨rfl, ?_⟩)
    · simp only [List.length_cons, List.length_append]; omega
    · intro b hb
      have h2 : 123 :: (c ++ ([125] ++ tail)) = (123 :: c) ++ ([125] ++ tail) := rfl
      rw [h2] at hb
      have := mem_take_append_left _ _ _ (by simp only [List.length_cons]; omega) b hb
      simp only [List.mem_cons] at this
      rcases this with rfl | hm
      · decide
      · exact hc b hm

/-! ### `readMoves` on rendered ops, exactly -/

theorem opFits_moveNumber (env : Env) (s : Bytes) (n : Int) : opFits env (.moveNumber s n) = true := rfl
theorem opFits_result (env : Env) (s r : Bytes) : opFits env (.result s r) = true := rfl

/-- `readMoves` on the rendering of ops whose characters are representable: the ops (with their tokens as
source text) if every token fits the scanner's window, `ErrTooLong` otherwise — whether or not the separator
in front of the first token has already been consumed -/
theorem readAll_tailBytes (env : Env) (ops : List Op) (hclean : ∀ op ∈ ops, opClean env op = true) :
    (readAll env (tailBytes env ops) =
      if ops.all (opFits env) = true then .ok (ops.map (withSrc env)) else tooLongErr) ∧
    (readAll env ((tailBytes env ops).drop 1) =
      if ops.all (opFits env) = true then .ok (ops.map (withSrc env)) else tooLongErr) := by
  induction ops with
  | nil =>
    have h1 : scanStep [10] = .skip [] := by decide
    have h2 : scanStep [] = .eof := by decide
    constructor
    · show readAll env [10] = _
      rw [readAll_skip h1, readAll_eof h2]; rfl
    · show readAll env [] = _
      rw [readAll_eof h2]; rfl
  | cons op ops ih =>
    obtain ⟨ih1, ih2⟩ := ih (fun o ho => hclean o (by simp [ho]))
    have hop := hclean op (by simp)
    obtain ⟨t, tl, htl, ht⟩ := tailBytes_head env ops
    have htl' : tl = (tailBytes env ops).drop 1 := by rw [htl]; rfl
    rw [← htl'] at ih2
    -- an ordinary token whose terminator is the first byte of the rest of the rendering
    have ord : ∀ (sep : UInt8) (tok : Bytes), isSpace sep = true → OrdTok tok →
        classifyTok env tok = .ok (withSrc env op) → (opFits env op = decide (tok.length < maxScanTokenSize)) →
        tailBytes env (op :: ops) = sep :: (tok ++ tailBytes env ops) →
        (readAll env (tailBytes env (op :: ops)) =
          if (op :: ops).all (opFits env) = true then .ok ((op :: ops).map (withSrc env)) else tooLongErr) ∧
        (readAll env ((tailBytes env (op :: ops)).drop 1) =
          if (op :: ops).all (opFits env) = true then .ok ((op :: ops).map (withSrc env)) else tooLongErr) := by
      intro sep tok hsep hord hcl hfit heq
      have hall : (op :: ops).all (opFits env) = (decide (tok.length < maxScanTokenSize) && ops.all (opFits env)) := by
        simp only [List.all_cons, hfit]
      rw [heq, htl, hall]
      have hd : (sep :: (tok ++ t :: tl)).drop 1 = tok ++ t :: tl := rfl
      rw [hd, readAll_sep_ordinary env sep tok tl t hsep hord ht, readAll_ordinary env tok tl t hord ht, hcl, ih2]
      by_cases hl : tok.length < maxScanTokenSize
      · simp only [hl, if_true, decide_true, Bool.true_and, consOp_ite, List.map_cons, and_self]
      · simp only [hl, if_false, decide_false, Bool.false_and, Bool.false_eq_true, and_self]
    cases op with
    | moveNumber s n =>
      simp only [opClean, opShape, opMove, Bool.and_eq_true, decide_eq_true_eq, and_true] at hop
      refine ord 10 (itoa n ++ [46]) (by decide) (ordTok_moveNumber n hop.1 hop.2)
        (classify_moveNumber env n hop.1 hop.2) ?_ (by simp [tailBytes, renderOp])
      have := itoa_length n hop.1 hop.2
      have hlt : (itoa n ++ [46]).length < maxScanTokenSize := by
        simp only [List.length_append, List.length_cons, List.length_nil, maxScanTokenSize]; omega
      simp only [opFits, hlt, decide_true]
    | move s m md =>
      simp only [opClean, opShape, opMove, Bool.and_eq_true] at hop
      refine ord 32 (env.formatMove m ++ md) (by decide) (ordTok_move env m md hop.2 hop.1)
        (classify_move env m md hop.2 hop.1) ?_ (by simp [tailBytes, renderOp])
      simp only [opFits, List.length_append]
    | result s r =>
      simp only [opClean, opShape, opMove, Bool.and_true] at hop
      -- the token is terminated by the result's own trailing newline
      have hord := ordTok_result r hop
      have hcl := classify_result env r hop
      have hlt : r.length < maxScanTokenSize := by
        have hs := matchResult_shape r hop
        simp only [resultShape, Bool.and_eq_true, decide_eq_true_eq] at hs
        simp only [maxScanTokenSize]; omega
      have heq : tailBytes env (.result s r :: ops) = 10 :: (r ++ 10 :: tailBytes env ops) := by
        simp [tailBytes, renderOp]
      have hd : (10 :: (r ++ 10 :: tailBytes env ops)).drop 1 = r ++ 10 :: tailBytes env ops := rfl
      rw [heq, hd, readAll_sep_ordinary env 10 r _ 10 (by decide) hord (by decide),
        readAll_ordinary env r _ 10 hord (by decide), hcl, ih1]
      simp only [hlt, if_true, List.all_cons, opFits_result, Bool.true_and, consOp_ite, List.map_cons, withSrc, tokOf,
        and_self]
    | comment s c =>
      simp only [opClean, opShape, opMove, Bool.and_true] at hop
      have hc : ∀ b ∈ c, (b != 125) = true := fun b hb => (List.all_eq_true.mp hop) b hb
      have heq : tailBytes env (.comment s c :: ops) = 32 :: ((123 :: c ++ [125]) ++ tailBytes env ops) := by
        simp [tailBytes, renderOp]
      have hd : (32 :: ((123 :: c ++ [125]) ++ tailBytes env ops)).drop 1 = (123 :: c ++ [125]) ++ tailBytes env ops := rfl
      rw [heq, hd, readAll_sep_comment env 32 c _ (by decide) hc, readAll_comment env c _ hc, ih1]
      by_cases hl : c.length + 2 ≤ maxScanTokenSize
      · simp only [hl, if_true, List.all_cons, opFits, decide_true, Bool.true_and, consOp_ite, List.map_cons, withSrc,
          tokOf, and_self]
      · simp only [hl, if_false, List.all_cons, opFits, decide_false, Bool.false_and, Bool.false_eq_true, and_self]

/-! ### the round trip -/

theorem render_nonempty (env : Env) (f : File) : (render env f).isEmpty = false := by
  rw [render_eq]
  cases f.tags.flatMap renderTag <;> rfl

/-- `ParsePTN (Render p)` for a value whose characters are representable (`tagSafe` tags, `opClean` ops):
the same tags and the same ops, carrying their rendered token as source text, if every token fits the
scanner's window; `ErrTooLong` otherwise -/
theorem parse_render_exact (env : Env) (f : File) (htags : ∀ t ∈ f.tags, tagSafe t = true)
    (hops : ∀ op ∈ f.ops, opClean env op = true) :
    parsePTN env (render env f) =
      if f.ops.all (opFits env) = true then .ok ⟨f.tags, f.ops.map (withSrc env)⟩ else tooLongErr := by
  obtain ⟨hdw, hnot⟩ := after_tags env f.ops hops
  unfold parsePTN
  rw [render_nonempty]
  simp only [Bool.false_eq_true, if_false]
  rw [stripBOM_render]
  have hev := readEvents_tags f.tags htags (10 :: tailBytes env f.ops) ((render env f).length + 1)
    (by
      rw [render_eq, List.length_append]
      have := flatMap_renderTag_length f.tags
      omega)
    (by rw [hdw]; exact hnot)
  rw [← render_eq] at hev
  rw [hev, hdw]
  dsimp only
  have hrd := (readAll_tailBytes env f.ops hops).2
  unfold readAll at hrd
  rw [hrd]
  by_cases hfit : f.ops.all (opFits env) = true
  · simp only [hfit, if_true]
  · simp only [hfit, if_false, tooLongErr]; rfl

/-- a byte-order mark in front of `Render`'s output changes nothing -/
theorem parse_bom_render_eq (env : Env) (f : File) :
    parsePTN env (0xEF :: 0xBB :: 0xBF :: render env f) = parsePTN env (render env f) := by
  unfold parsePTN
  rw [render_nonempty]
  simp only [List.isEmpty_cons, Bool.false_eq_true, if_false]
  rw [stripBOM_render]
  rfl

theorem opSafe_split (env : Env) (op : Op) : opSafe env op = (opClean env op && opFits env op) := by
  simp only [opSafe, opData, opClean]
  cases opShape op <;> cases opFits env op <;> cases opMove env op <;> rfl

theorem renderSafe_iff (env : Env) (f : File) : renderSafe env f = (dataSafe env f && movesSafe env f) := by
  simp only [renderSafe, dataSafe, movesSafe, Bool.and_assoc]
  congr 1
  induction f.ops with
  | nil => rfl
  | cons op ops ih =>
    simp only [List.all_cons, ih, opSafe]
    cases opData env op <;> cases opMove env op <;> simp

/-- `ParsePTN (Render p)` for a `renderSafe` value: the same tags, and the same ops carrying their
rendered token as source text -/
theorem parse_render (env : Env) (f : File) (hs : renderSafe env f = true) :
    parsePTN env (render env f) = .ok ⟨f.tags, f.ops.map (withSrc env)⟩ := by
  simp only [renderSafe, Bool.and_eq_true] at hs
  have htags : ∀ t ∈ f.tags, tagSafe t = true := fun t ht => (List.all_eq_true.mp hs.1) t ht
  have hops : ∀ op ∈ f.ops, opSafe env op = true := fun op ho => (List.all_eq_true.mp hs.2) op ho
  have hclean : ∀ op ∈ f.ops, opClean env op = true := fun op ho => by
    have := hops op ho
    rw [opSafe_split, Bool.and_eq_true] at this
    exact this.1
  have hfit : f.ops.all (opFits env) = true := List.all_eq_true.mpr fun op ho => by
    have := hops op ho
    rw [opSafe_split, Bool.and_eq_true] at this
    exact this.2
  rw [parse_render_exact env f htags hclean, if_pos hfit]

/-- the same with a byte-order mark in front -/
theorem parse_bom_render (env : Env) (f : File) (hs : renderSafe env f = true) :
    parsePTN env (0xEF :: 0xBB :: 0xBF :: render env f) = .ok ⟨f.tags, f.ops.map (withSrc env)⟩ := by
  rw [parse_bom_render_eq, parse_render env f hs]

end PTN
