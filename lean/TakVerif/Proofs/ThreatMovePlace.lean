import TakVerif.Proofs.ThreatMoveBase

/-! C19, step 3: `Pos.apply` on the placement of a flat or a capstone on an empty square. -/
namespace C19
open Tak Roads Spec
set_option linter.unusedSimpArgs false

theorem apply_place_flat_w (basis : Array W) (p : Pos) (x y : Nat) (hx : x < p.cfg.size) (hy : y < p.cfg.size)
    (h64 : p.cfg.size * p.cfg.size ≤ 64) (hply : 2 ≤ p.move) (hw : p.toMove = .white)
    (hdis : ∀ k, p.white.getLsbD k = true → p.black.getLsbD k = true → False)
    (hemp : (p.white ||| p.black).getLsbD (x + y * p.cfg.size) = false)
    (hst : p.whiteStones ≠ 0#8) :
    ∃ q, p.apply basis ⟨x, y, Facts.mtPlaceFlat, 0⟩ = .ok q ∧ After p q 64 (x + y * p.cfg.size) p.white q.white p.black q.black := by
  have h2 : ¬ (p.move < 2) := by omega
  have hx' : ¬ ((p.cfg.size : Int) ≤ x) := by omega
  have hy' : ¬ ((p.cfg.size : Int) ≤ y) := by omega
  have hxn : ¬ ((x : Int) < 0) := by omega
  have hyn : ¬ ((y : Int) < 0) := by omega
  have hidx := idx_toNat x y p.cfg.size
  have hs64 : x + y * p.cfg.size < 64 := by
    have : y * p.cfg.size + p.cfg.size ≤ p.cfg.size * p.cfg.size := by
      rw [← Nat.succ_mul]; exact Nat.mul_le_mul_right _ hy
    omega
  rw [BitVec.getLsbD_or] at hemp
  simp only [Bool.or_eq_false_iff] at hemp
  unfold Pos.apply
  simp [Facts.mtPlaceFlat, Facts.mtPlaceCapstone, Facts.mtPlaceStanding, Facts.mtPass, hw, h2, hx', hy', hxn, hyn, hidx,
    hemp.1, hemp.2, hst, dispatch, openingRule, placeOn]
  apply finish_exists
  intro wg bg hwg hbg
  constructor <;> simp only [] <;> first | rfl | assumption | place_bits hs64

theorem apply_place_cap_w (basis : Array W) (p : Pos) (x y : Nat) (hx : x < p.cfg.size) (hy : y < p.cfg.size)
    (h64 : p.cfg.size * p.cfg.size ≤ 64) (hply : 2 ≤ p.move) (hw : p.toMove = .white)
    (hdis : ∀ k, p.white.getLsbD k = true → p.black.getLsbD k = true → False)
    (hemp : (p.white ||| p.black).getLsbD (x + y * p.cfg.size) = false)
    (hst : p.whiteCaps ≠ 0#8) :
    ∃ q, p.apply basis ⟨x, y, Facts.mtPlaceCapstone, 0⟩ = .ok q ∧ After p q 64 (x + y * p.cfg.size) p.white q.white p.black q.black := by
  have h2 : ¬ (p.move < 2) := by omega
  have hx' : ¬ ((p.cfg.size : Int) ≤ x) := by omega
  have hy' : ¬ ((p.cfg.size : Int) ≤ y) := by omega
  have hxn : ¬ ((x : Int) < 0) := by omega
  have hyn : ¬ ((y : Int) < 0) := by omega
  have hidx := idx_toNat x y p.cfg.size
  have hs64 : x + y * p.cfg.size < 64 := by
    have : y * p.cfg.size + p.cfg.size ≤ p.cfg.size * p.cfg.size := by
      rw [← Nat.succ_mul]; exact Nat.mul_le_mul_right _ hy
    omega
  rw [BitVec.getLsbD_or] at hemp
  simp only [Bool.or_eq_false_iff] at hemp
  unfold Pos.apply
  simp [Facts.mtPlaceFlat, Facts.mtPlaceCapstone, Facts.mtPlaceStanding, Facts.mtPass, hw, h2, hx', hy', hxn, hyn, hidx,
    hemp.1, hemp.2, hst, dispatch, openingRule, placeOn]
  apply finish_exists
  intro wg bg hwg hbg
  constructor <;> simp only [] <;> first | rfl | assumption | place_bits hs64

theorem apply_place_flat_b (basis : Array W) (p : Pos) (x y : Nat) (hx : x < p.cfg.size) (hy : y < p.cfg.size)
    (h64 : p.cfg.size * p.cfg.size ≤ 64) (hply : 2 ≤ p.move) (hw : p.toMove = .black)
    (hdis : ∀ k, p.white.getLsbD k = true → p.black.getLsbD k = true → False)
    (hemp : (p.white ||| p.black).getLsbD (x + y * p.cfg.size) = false)
    (hst : p.blackStones ≠ 0#8) :
    ∃ q, p.apply basis ⟨x, y, Facts.mtPlaceFlat, 0⟩ = .ok q ∧ After p q 64 (x + y * p.cfg.size) p.black q.black p.white q.white := by
  have h2 : ¬ (p.move < 2) := by omega
  have hx' : ¬ ((p.cfg.size : Int) ≤ x) := by omega
  have hy' : ¬ ((p.cfg.size : Int) ≤ y) := by omega
  have hxn : ¬ ((x : Int) < 0) := by omega
  have hyn : ¬ ((y : Int) < 0) := by omega
  have hidx := idx_toNat x y p.cfg.size
  have hs64 : x + y * p.cfg.size < 64 := by
    have : y * p.cfg.size + p.cfg.size ≤ p.cfg.size * p.cfg.size := by
      rw [← Nat.succ_mul]; exact Nat.mul_le_mul_right _ hy
    omega
  rw [BitVec.getLsbD_or] at hemp
  simp only [Bool.or_eq_false_iff] at hemp
  unfold Pos.apply
  simp [Facts.mtPlaceFlat, Facts.mtPlaceCapstone, Facts.mtPlaceStanding, Facts.mtPass, hw, h2, hx', hy', hxn, hyn, hidx,
    hemp.1, hemp.2, hst, dispatch, openingRule, placeOn]
  apply finish_exists
  intro wg bg hwg hbg
  constructor <;> simp only [] <;> first | rfl | assumption | place_bits hs64

theorem apply_place_cap_b (basis : Array W) (p : Pos) (x y : Nat) (hx : x < p.cfg.size) (hy : y < p.cfg.size)
    (h64 : p.cfg.size * p.cfg.size ≤ 64) (hply : 2 ≤ p.move) (hw : p.toMove = .black)
    (hdis : ∀ k, p.white.getLsbD k = true → p.black.getLsbD k = true → False)
    (hemp : (p.white ||| p.black).getLsbD (x + y * p.cfg.size) = false)
    (hst : p.blackCaps ≠ 0#8) :
    ∃ q, p.apply basis ⟨x, y, Facts.mtPlaceCapstone, 0⟩ = .ok q ∧ After p q 64 (x + y * p.cfg.size) p.black q.black p.white q.white := by
  have h2 : ¬ (p.move < 2) := by omega
  have hx' : ¬ ((p.cfg.size : Int) ≤ x) := by omega
  have hy' : ¬ ((p.cfg.size : Int) ≤ y) := by omega
  have hxn : ¬ ((x : Int) < 0) := by omega
  have hyn : ¬ ((y : Int) < 0) := by omega
  have hidx := idx_toNat x y p.cfg.size
  have hs64 : x + y * p.cfg.size < 64 := by
    have : y * p.cfg.size + p.cfg.size ≤ p.cfg.size * p.cfg.size := by
      rw [← Nat.succ_mul]; exact Nat.mul_le_mul_right _ hy
    omega
  rw [BitVec.getLsbD_or] at hemp
  simp only [Bool.or_eq_false_iff] at hemp
  unfold Pos.apply
  simp [Facts.mtPlaceFlat, Facts.mtPlaceCapstone, Facts.mtPlaceStanding, Facts.mtPass, hw, h2, hx', hy', hxn, hyn, hidx,
    hemp.1, hemp.2, hst, dispatch, openingRule, placeOn]
  apply finish_exists
  intro wg bg hwg hbg
  constructor <;> simp only [] <;> first | rfl | assumption | place_bits hs64

end C19
