import TakVerif.Spec.Shapes

/-! # What the rule book demands of an accepted move (C03, part 4a)

Necessary conditions read off `Spec.step`: they are all that completeness of the generator needs. -/
namespace Tak.Proofs
open Tak Spec

theorem step_place_some (s : State) (x y : Int) (k : Kind) (h : step s (.place x y k) ≠ none) :
    s.onBoard x y = true ∧ ¬(s.ply < 2 ∧ k ≠ .flat) ∧ (s.at x y).isEmpty = true ∧
    s.reserve (if s.ply < 2 then s.toMove.flip else s.toMove) (k == .capstone) ≠ 0 := by
  unfold step at h
  by_cases h1 : s.onBoard x y = true
  · by_cases h2 : s.ply < 2 ∧ k ≠ .flat
    · simp [h1, h2] at h
    · by_cases h3 : (s.at x y).isEmpty = true
      · refine ⟨h1, h2, h3, ?_⟩
        intro h4
        simp [h1, h2, h3, h4] at h
      · simp [h1, h2, h3] at h
  · simp [h1] at h

theorem dropLoop_cons (s : State) (x y : Int) (d : Dir) (carried : List Piece) (c : Nat) (cs : List Nat)
    (h : dropLoop s x y d carried (c :: cs) ≠ none) :
    s.onBoard (x + d.dx) (y + d.dy) = true ∧
    ∃ s' carried', s'.size = s.size ∧ dropLoop s' (x + d.dx) (y + d.dy) d carried' cs ≠ none := by
  unfold dropLoop at h
  simp only [] at h
  by_cases h1 : s.onBoard (x + d.dx) (y + d.dy) = true
  · refine ⟨h1, ?_⟩
    simp only [h1, Bool.not_true, Bool.false_eq_true, if_false] at h
    split at h
    · exact absurd rfl h
    split at h
    · exact absurd rfl h
    · refine ⟨_, _, ?_, h⟩; rfl
  · simp [h1] at h

theorem dropLoop_end_onboard (d : Dir) : ∀ (drops : List Nat) (s : State) (x y : Int) (carried : List Piece),
    drops ≠ [] → dropLoop s x y d carried drops ≠ none →
    0 ≤ x + drops.length * d.dx ∧ x + drops.length * d.dx < s.size ∧
    0 ≤ y + drops.length * d.dy ∧ y + drops.length * d.dy < s.size
  | [], _, _, _, _, hne, _ => absurd rfl hne
  | c :: cs, s, x, y, carried, _, h => by
    obtain ⟨hob, s', carried', hsz, hrec⟩ := dropLoop_cons s x y d carried c cs h
    by_cases hcs : cs = []
    · subst hcs
      simp only [State.onBoard, Bool.and_eq_true, decide_eq_true_eq] at hob
      simp only [List.length_cons, List.length_nil]
      omega
    · have := dropLoop_end_onboard d cs s' (x + d.dx) (y + d.dy) carried' hcs hrec
      rw [hsz] at this
      simp only [List.length_cons]
      have e1 : x + ((cs.length + 1 : Nat) : Int) * d.dx = x + d.dx + cs.length * d.dx := by
        rw [Int.natCast_add, Int.add_mul]; omega
      have e2 : y + ((cs.length + 1 : Nat) : Int) * d.dy = y + d.dy + cs.length * d.dy := by
        rw [Int.natCast_add, Int.add_mul]; omega
      rw [e1, e2]; exact this

theorem step_slide_some (s : State) (x y : Int) (d : Dir) (drops : List Nat)
    (h : step s (.slide x y d drops) ≠ none) :
    ¬ s.ply < 2 ∧ s.onBoard x y = true ∧ drops ≠ [] ∧ (∀ c ∈ drops, c ≠ 0) ∧
    drops.foldl (· + ·) 0 ≤ s.size ∧ drops.foldl (· + ·) 0 ≤ (s.at x y).length ∧
    (∃ t rest, s.at x y = t :: rest ∧ t.color = s.toMove) ∧
    ∃ s' carried, s'.size = s.size ∧ dropLoop s' x y d carried drops ≠ none := by
  unfold step at h
  simp only [] at h
  by_cases h1 : s.ply < 2
  · simp [h1] at h
  simp only [h1, if_false] at h
  by_cases h2 : ¬ s.onBoard x y = true
  · simp [h2] at h
  have h2 : s.onBoard x y = true := by simpa using h2
  simp only [h2, Bool.not_true, Bool.false_eq_true, if_false] at h
  by_cases h3 : drops.isEmpty = true ∨ (drops.any (· == 0)) = true
  · simp only [h3, if_true] at h; exact absurd rfl h
  simp only [h3, if_false] at h
  by_cases h4 : drops.foldl (· + ·) 0 > s.size ∨ drops.foldl (· + ·) 0 > (s.at x y).length
  · simp only [h4, if_true] at h; exact absurd rfl h
  simp only [h4, if_false] at h
  refine ⟨h1, h2, ?_, ?_, by omega, by omega, ?_⟩
  · intro e; apply h3; left; simp [e]
  · intro c hc e; apply h3; right; simp only [List.any_eq_true]; exact ⟨c, hc, by simp [e]⟩
  split at h
  · exact absurd rfl h
  · rename_i t rest heq
    by_cases h5 : t.color ≠ s.toMove
    · rw [if_pos h5] at h; exact absurd rfl h
    rw [if_neg h5] at h
    refine ⟨⟨t, rest, heq, by simpa using h5⟩, ?_⟩
    split at h
    · exact absurd rfl h
    · rename_i s2 hs2
      refine ⟨_, _, ?_, by rw [hs2]; simp⟩; rfl

theorem foldl_add_eq_sum : ∀ (l : List Nat) (a : Nat), l.foldl (· + ·) a = a + l.sum
  | [], a => by simp
  | x :: xs, a => by simp only [List.foldl_cons, List.sum_cons, foldl_add_eq_sum xs]; omega

end Tak.Proofs
