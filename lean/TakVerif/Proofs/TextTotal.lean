import TakVerif.Impl.TPS
import TakVerif.Impl.ServerMove

/-! Lemmas for C13 (text part): none of the byte-level parser models reaches a `panic` outcome. -/
namespace Tak

/-- the result is a value or an ordinary error: never a run-time panic -/
def NoPanic {α : Type} (r : R α) : Prop := ∀ site, r ≠ .error (.panic site)

theorem noPanic_ok {α : Type} (x : α) : NoPanic (.ok x : R α) := by intro s h; cases h
theorem noPanic_illegal {α : Type} (w : String) : NoPanic (.error (.illegal w) : R α) := by intro s h; cases h

namespace PTN
open Go

theorem idx_ok (s : Bytes) (i : Nat) (h : i < s.length) : idx s i = .ok s[i] := by
  simp [idx, h]

theorem dropLoop_spec (rest : Bytes) (slides : List Nat) (stack : Int)
    (hs : ∀ d ∈ slides, d ≤ 8) :
    NoPanic (dropLoop rest slides stack) ∧
    ∀ sl st, dropLoop rest slides stack = .ok (sl, st) → (∀ d ∈ sl, d ≤ 8) ∧ st ≤ stack := by
  induction rest generalizing slides stack with
  | nil =>
    refine ⟨noPanic_ok _, ?_⟩
    intro sl st h
    simp only [dropLoop, Except.ok.injEq, Prod.mk.injEq] at h
    obtain ⟨rfl, rfl⟩ := h
    exact ⟨hs, Int.le_refl _⟩
  | cons d rest ih =>
    simp only [dropLoop]
    split
    · rename_i h18
      have hd : d.toNat - 48 ≤ 8 := by
        simp only [is18, Bool.and_eq_true, decide_eq_true_eq] at h18; omega
      have hs' : ∀ e ∈ slides ++ [d.toNat - 48], e ≤ 8 := by
        intro e he
        rcases List.mem_append.mp he with h | h
        · exact hs e h
        · simp only [List.mem_singleton] at h; omega
      obtain ⟨h1, h2⟩ := ih (slides ++ [d.toNat - 48]) (stack - ((d.toNat - 48 : Nat) : Int)) hs'
      refine ⟨h1, ?_⟩
      intro sl st h
      obtain ⟨h3, h4⟩ := h2 sl st h
      exact ⟨h3, by omega⟩
    · split
      · refine ⟨noPanic_ok _, ?_⟩
        intro sl st h
        simp only [Except.ok.injEq, Prod.mk.injEq] at h
        obtain ⟨rfl, rfl⟩ := h
        exact ⟨hs, Int.le_refl _⟩
      · refine ⟨noPanic_illegal _, ?_⟩
        intro sl st h; cases h

end PTN

theorem mkSlides_noPanic (drops : List Nat) (h : ∀ d ∈ drops, d ≤ 8) : NoPanic (mkSlides drops) := by
  unfold mkSlides
  have : ∀ (l : List Nat) (acc : BitVec 32), (∀ d ∈ l, d ≤ 8) →
      NoPanic (l.foldlM (fun out d =>
        if d > 8 then (.error (.panic "MkSlides: bad drop") : R (BitVec 32)) else .ok (Slides.prepend out d)) acc) := by
    intro l
    induction l with
    | nil => intro acc _; exact noPanic_ok _
    | cons d l ih =>
      intro acc hl
      have hd : ¬ d > 8 := by have := hl d (by simp); omega
      simp only [List.foldlM_cons, hd, if_false]
      exact ih _ (fun e he => hl e (by simp [he]))
  exact this _ _ (fun d hd => h d (by simpa using hd))

namespace PTN
open Go

theorem parseHead_stack_le (b0 : UInt8) : (parseHead b0).2.1 ≤ 8 ∧ (parseHead b0).2.2 ≤ 1 := by
  unfold parseHead
  split
  · simp
  · split
    · simp
    · split
      · simp
      · split
        · rename_i h; simp only [is18, Bool.and_eq_true, decide_eq_true_eq] at h
          refine ⟨?_, ?_⟩ <;> simp <;> omega
        · simp

theorem parseDrops_noPanic (m : Move) (ty stack : Nat) (rest : Bytes) (hst : stack ≤ 8) :
    NoPanic (parseDrops m ty stack rest) := by
  unfold parseDrops
  have hst' : (((if stack == 0 then 1 else stack : Nat)) : Int) ≤ 8 := by
    split <;> omega
  obtain ⟨h1, h2⟩ := dropLoop_spec rest [] (((if stack == 0 then 1 else stack : Nat)) : Int) (by simp)
  simp only []
  split
  · rename_i e he; intro site hc; cases hc; exact h1 site he
  · rename_i slides st he
    obtain ⟨h3, h4⟩ := h2 slides st he
    split
    · rename_i e he2
      split at he2
      · cases he2
      · split at he2
        · cases he2; exact noPanic_illegal _
        · cases he2
    · rename_i sl he2
      have hsl : ∀ d ∈ sl, d ≤ 8 := by
        split at he2
        · cases he2
          intro d hd
          rcases List.mem_append.mp hd with h | h
          · exact h3 d h
          · simp only [List.mem_singleton] at h; omega
        · split at he2
          · cases he2
          · cases he2; exact h3
      have := mkSlides_noPanic sl hsl
      split
      · rename_i e he3; intro site hc; cases hc; exact this site he3
      · exact noPanic_ok _

theorem parseMove_noPanic (move : Bytes) : NoPanic (parseMove move) := by
  unfold parseMove
  split
  · exact noPanic_illegal _
  · rename_i hlen
    rw [idx_ok move 0 (by omega)]
    simp only []
    obtain ⟨hs, hi⟩ := parseHead_stack_le move[0]
    generalize parseHead move[0] = hd at hs hi
    obtain ⟨ty, stack, i⟩ := hd
    simp only [] at hs hi ⊢
    split
    · exact noPanic_illegal _
    · rename_i hlen2
      rw [idx_ok move i (by omega)]
      simp only []
      split
      · exact noPanic_illegal _
      · rw [idx_ok move (i+1) (by omega)]
        simp only []
        split
        · exact noPanic_illegal _
        · have hplace : ∀ (m : Move), NoPanic (if stack ≠ 0 then (.error (.illegal "illegal move") : R Move) else .ok m) := by
            intro m; split
            · exact noPanic_illegal _
            · exact noPanic_ok _
          split
          · exact hplace _
          · rename_i hne
            have : i + 2 < move.length := by
              simp only [beq_iff_eq] at hne; omega
            rw [idx_ok move (i+2) this]
            simp only []
            split
            · exact hplace _
            · split
              · rename_i e he
                unfold parseDir at he
                repeat (first | (split at he) | cases he)
                all_goals exact noPanic_illegal _
              · exact parseDrops_noPanic _ _ _ _ hs

end PTN
namespace Server
open Go

theorem split_ne_nil (sep : UInt8) (s : Bytes) : split sep s ≠ [] := by
  induction s with
  | nil => simp [split]
  | cons b rest ih =>
    simp only [split]
    split
    · simp
    · split <;> simp

theorem word_ok (words : List Bytes) (k : Nat) (h : k < words.length) : word words k = .ok words[k] := by
  simp [word, h]

theorem parseSquare_noPanic (sq : Bytes) : NoPanic (parseSquare sq) := by
  unfold parseSquare
  split
  · split
    · exact noPanic_illegal _
    · split
      · exact noPanic_illegal _
      · exact noPanic_ok _
  · exact noPanic_illegal _

theorem parseDrops_spec (ws : List Bytes) (out : List Nat) (h : ∀ d ∈ out, d ≤ 8) :
    NoPanic (parseDrops ws out) ∧ ∀ sl, parseDrops ws out = .ok sl → ∀ d ∈ sl, d ≤ 8 := by
  induction ws generalizing out with
  | nil =>
    refine ⟨noPanic_ok _, ?_⟩
    intro sl hs; simp only [parseDrops, Except.ok.injEq] at hs; subst hs; exact h
  | cons w ws ih =>
    simp only [parseDrops]
    split
    · exact ⟨noPanic_illegal _, fun sl hs => by cases hs⟩
    · rename_i n hn
      split
      · exact ⟨noPanic_illegal _, fun sl hs => by cases hs⟩
      · rename_i hr
        apply ih
        intro d hd
        rcases List.mem_append.mp hd with h1 | h1
        · exact h d h1
        · simp only [List.mem_singleton] at h1; omega

theorem parsePlace_noPanic (words : List Bytes) : NoPanic (parsePlace words) := by
  unfold parsePlace
  split
  · exact noPanic_illegal _
  · rename_i hl
    rw [word_ok words 1 (by omega)]
    simp only []
    split
    · rename_i e he; intro site hc; cases hc; exact parseSquare_noPanic _ site he
    · split
      · rename_i h3
        rw [word_ok words 2 (by simp only [beq_iff_eq] at h3; omega)]
        simp only []
        split
        · exact noPanic_ok _
        · split
          · exact noPanic_ok _
          · exact noPanic_illegal _
      · exact noPanic_ok _

theorem slideDir_noPanic (a b c d : Int) : NoPanic (slideDir a b c d) := by
  unfold slideDir
  repeat (first | exact noPanic_ok _ | exact noPanic_illegal _ | split)

theorem parseSlide_noPanic (words : List Bytes) : NoPanic (parseSlide words) := by
  unfold parseSlide
  split
  · exact noPanic_illegal _
  · rename_i hl
    rw [word_ok words 1 (by omega)]
    simp only []
    split
    · rename_i e he; intro site hc; cases hc; exact parseSquare_noPanic _ site he
    · rw [word_ok words 2 (by omega)]
      simp only []
      split
      · rename_i e he; intro site hc; cases hc; exact parseSquare_noPanic _ site he
      · split
        · rename_i e he; intro site hc; cases hc; exact slideDir_noPanic _ _ _ _ site he
        · obtain ⟨h1, h2⟩ := parseDrops_spec (words.drop 3) [] (by simp)
          split
          · rename_i e he; intro site hc; cases hc; exact h1 site he
          · rename_i sl he
            have := mkSlides_noPanic sl (h2 sl he)
            split
            · rename_i e he3; intro site hc; cases hc; exact this site he3
            · exact noPanic_ok _

theorem parseServer_noPanic (server : Bytes) : NoPanic (parseServer server) := by
  unfold parseServer
  simp only []
  have hne := split_ne_nil 32 server
  have hlen : 0 < (split 32 server).length := List.length_pos_iff.mpr hne
  rw [word_ok _ 0 hlen]
  simp only []
  split
  · exact parsePlace_noPanic _
  · split
    · exact parseSlide_noPanic _
    · exact noPanic_illegal _

end Server
open Go

theorem noPanic_bind {α β : Type} (r : R α) (f : α → R β) (h1 : NoPanic r) (h2 : ∀ x, r = .ok x → NoPanic (f x)) :
    NoPanic (r >>= f) := by
  cases r with
  | error e =>
    intro site hc
    change (Except.error e : R β) = _ at hc
    cases hc; exact h1 site rfl
  | ok x => exact h2 x rfl

theorem fromSquares_pieces_noPanic (i j : Nat) (l : List Nat) (p : Pos) :
    NoPanic (Pos.fromSquares.go.pieces i j l p) := by
  induction l generalizing j p with
  | nil => unfold Pos.fromSquares.go.pieces; exact noPanic_ok _
  | cons pc l ih =>
    unfold Pos.fromSquares.go.pieces
    simp only []
    split
    · exact noPanic_illegal _
    · exact ih _ _

theorem fromSquares_go_noPanic (basis : Array W) (n i : Nat) (rest : List (List Nat)) (p : Pos) :
    NoPanic (Pos.fromSquares.go basis n i rest p) := by
  induction rest generalizing i p with
  | nil => unfold Pos.fromSquares.go; exact noPanic_ok _
  | cons sq rest ih =>
    unfold Pos.fromSquares.go
    split
    · exact noPanic_ok _
    · split
      · exact ih _ _
      · simp only []
        split
        · rename_i e he; intro site hc; cases hc; exact fromSquares_pieces_noPanic _ _ _ _ site he
        · exact ih _ _

theorem new_ok_text (cfg : Cfg) (h3 : 3 ≤ cfg.size) (h8 : cfg.size ≤ 8) : ∃ p, Pos.new cfg = .ok p := by
  unfold Pos.new
  have : ¬ cfg.size ≥ Facts.defaultPieces.length := by simp [Facts.defaultPieces]; omega
  simp only [this, if_false]
  have : ¬ (cfg.size < 3 ∨ cfg.size > 8) := by omega
  simp only [this, if_false]
  exact ⟨_, rfl⟩

theorem fromSquares_noPanic (basis : Array W) (cfg : Cfg) (board : List (List Nat)) (move : Int)
    (h3 : 3 ≤ cfg.size) (h8 : cfg.size ≤ 8) (hb : cfg.size * cfg.size ≤ board.length) :
    NoPanic (Pos.fromSquares basis cfg board move) := by
  unfold Pos.fromSquares
  obtain ⟨p0, hp0⟩ := new_ok_text cfg h3 h8
  rw [hp0]
  change NoPanic (if board.length < cfg.size * cfg.size then _ else _)
  have : ¬ board.length < cfg.size * cfg.size := by omega
  simp only [this, if_false]
  apply noPanic_bind
  · exact fromSquares_go_noPanic _ _ _ _ _
  · intro p _
    split
    · exact noPanic_ok _
    · intro site hc; cases hc

namespace TPS

theorem stackLoop_noPanic (n i : Nat) (rest : Bytes) (stack : List Nat)
    (hl : stack.length = n) (hi : i + rest.length = n) : NoPanic (stackLoop n i rest stack) := by
  induction rest generalizing i stack with
  | nil => unfold stackLoop; exact noPanic_ok _
  | cons b rest ih =>
    unfold stackLoop
    simp only [List.length_cons] at hi
    split
    · have : i < stack.length := by omega
      simp only [this, if_true]
      apply ih
      · simp [hl]
      · omega
    · split
      · split
        · exact noPanic_illegal _
        · rename_i hlast
          have hrest : rest = [] := by
            have : rest.length = 0 := by omega
            exact List.length_eq_zero_iff.mp this
          subst hrest
          split
          · simp at hl; omega
          · split
            · exact noPanic_illegal _
            · unfold stackLoop; exact noPanic_ok _
      · exact noPanic_illegal _

theorem parseBit_noPanic (bit : Bytes) : NoPanic (parseBit bit) := by
  unfold parseBit
  split
  · exact noPanic_illegal _
  · split
    · exact noPanic_ok _
    · rename_i b0 tl _
      have := stackLoop_noPanic (b0 :: tl).length 0 (b0 :: tl) (List.replicate (b0 :: tl).length 0) (by simp) (by simp)
      split
      · rename_i e he; intro site hc; cases hc; exact this site he
      · exact noPanic_ok _

theorem parseBits_noPanic (bits : List Bytes) (out : List (List Nat)) : NoPanic (parseBits bits out) := by
  induction bits generalizing out with
  | nil => exact noPanic_ok _
  | cons bit bits ih =>
    simp only [parseBits]
    split
    · rename_i e he; intro site hc; cases hc; exact parseBit_noPanic _ site he
    · exact ih _

theorem parseRows_noPanic (rs : List Bytes) (pieces : List (List (List Nat))) : NoPanic (parseRows rs pieces) := by
  induction rs generalizing pieces with
  | nil => exact noPanic_ok _
  | cons r rs ih =>
    simp only [parseRows]
    split
    · rename_i e he; intro site hc; cases hc; exact parseBits_noPanic _ _ site he
    · exact ih _

theorem flatten_length_of_all (n : Nat) (l : List (List (List Nat)))
    (h : ∀ r ∈ l, r.length = n) : l.flatten.length = l.length * n := by
  induction l with
  | nil => simp
  | cons r l ih =>
    simp only [List.flatten_cons, List.length_append, List.length_cons]
    rw [ih (fun r hr => h r (by simp [hr])), h r (by simp)]
    rw [Nat.add_mul]; omega

theorem parseTPS_noPanic (basis : Array W) (tpn : Bytes) : NoPanic (parseTPS basis tpn) := by
  unfold parseTPS
  split
  · split
    · exact noPanic_illegal _
    · split
      · exact noPanic_illegal _
      · split
        · exact noPanic_illegal _
        · simp only []
          split
          · rename_i e he; intro site hc; cases hc; exact parseRows_noPanic _ _ site he
          · rename_i pieces _
            split
            · exact noPanic_illegal _
            · rename_i hsz
              split
              · exact noPanic_illegal _
              · rename_i hrows
                apply fromSquares_noPanic
                · simp only []; omega
                · simp only []; omega
                · simp only []
                  have : ∀ r ∈ pieces, r.length = pieces.length := by
                    intro r hr
                    simp only [List.any_eq_true, bne_iff_ne, ne_eq, not_exists, not_and, Decidable.not_not] at hrows
                    exact hrows r hr
                  rw [flatten_length_of_all pieces.length pieces this]
                  exact Nat.le_refl _
  · exact noPanic_illegal _

end TPS
/-- the result is not a `hang` outcome (fuel of an unbounded Go loop exhausted) -/
def NoHang {α : Type} (r : R α) : Prop := ∀ site, r ≠ .error (.hang site)

theorem noHang_ok {α : Type} (x : α) : NoHang (.ok x : R α) := by intro s h; cases h
theorem noHang_illegal {α : Type} (w : String) : NoHang (.error (.illegal w) : R α) := by intro s h; cases h
theorem noHang_panic {α : Type} (w : String) : NoHang (.error (.panic w) : R α) := by intro s h; cases h

theorem fromSquares_pieces_noHang (i j : Nat) (l : List Nat) (p : Pos) :
    NoHang (Pos.fromSquares.go.pieces i j l p) := by
  induction l generalizing j p with
  | nil => unfold Pos.fromSquares.go.pieces; exact noHang_ok _
  | cons pc l ih =>
    unfold Pos.fromSquares.go.pieces
    simp only []
    split
    · exact noHang_illegal _
    · exact ih _ _

theorem fromSquares_go_noHang (basis : Array W) (n i : Nat) (rest : List (List Nat)) (p : Pos) :
    NoHang (Pos.fromSquares.go basis n i rest p) := by
  induction rest generalizing i p with
  | nil => unfold Pos.fromSquares.go; exact noHang_ok _
  | cons sq rest ih =>
    unfold Pos.fromSquares.go
    split
    · exact noHang_ok _
    · split
      · exact ih _ _
      · simp only []
        split
        · rename_i e he; intro site hc; cases hc; exact fromSquares_pieces_noHang _ _ _ _ site he
        · exact ih _ _

theorem fromSquares_noHang (basis : Array W) (cfg : Cfg) (board : List (List Nat)) (move : Int)
    (hA : ∀ p : Pos, p.analyze ≠ none) : NoHang (Pos.fromSquares basis cfg board move) := by
  unfold Pos.fromSquares
  cases hn : Pos.new cfg with
  | error e =>
    intro site hc
    change (Except.error e : R Pos) = _ at hc
    cases hc
    unfold Pos.new at hn
    repeat (first | (split at hn) | cases hn)
  | ok p0 =>
    change NoHang (if board.length < cfg.size * cfg.size then _ else _)
    split
    · exact noHang_panic _
    · cases hg : Pos.fromSquares.go basis (cfg.size * cfg.size) 0 board { p0 with move := move } with
      | error e =>
        intro site hc
        change (Except.error e : R Pos) = _ at hc
        cases hc
        exact fromSquares_go_noHang _ _ _ _ _ site hg
      | ok p =>
        change NoHang (match p.analyze with | some p => Except.ok p | none => Except.error (Err.hang "analyze"))
        cases ha : p.analyze with
        | none => exact absurd ha (hA p)
        | some q => exact noHang_ok _

namespace TPS

theorem stackLoop_noHang (n i : Nat) (rest : Bytes) (stack : List Nat) : NoHang (stackLoop n i rest stack) := by
  induction rest generalizing i stack with
  | nil => unfold stackLoop; exact noHang_ok _
  | cons b rest ih =>
    unfold stackLoop
    split
    · simp only []
      split
      · exact ih _ _
      · exact noHang_panic _
    · split
      · split
        · exact noHang_illegal _
        · split
          · exact noHang_panic _
          · split
            · exact noHang_illegal _
            · exact ih _ _
      · exact noHang_illegal _

theorem parseBits_noHang (bits : List Bytes) (out : List (List Nat)) : NoHang (parseBits bits out) := by
  induction bits generalizing out with
  | nil => exact noHang_ok _
  | cons bit bits ih =>
    simp only [parseBits]
    split
    · rename_i e he
      intro site hc; cases hc
      unfold parseBit at he
      split at he
      · cases he
      · split at he
        · cases he
        · split at he
          · rename_i e' he'; cases he; exact stackLoop_noHang _ _ _ _ site he'
          · cases he
    · exact ih _

theorem parseRows_noHang (rs : List Bytes) (pieces : List (List (List Nat))) : NoHang (parseRows rs pieces) := by
  induction rs generalizing pieces with
  | nil => exact noHang_ok _
  | cons r rs ih =>
    simp only [parseRows]
    split
    · rename_i e he; intro site hc; cases hc; exact parseBits_noHang _ _ site he
    · exact ih _

theorem parseTPS_noHang (basis : Array W) (tpn : Bytes) (hA : ∀ p : Pos, p.analyze ≠ none) :
    NoHang (parseTPS basis tpn) := by
  unfold parseTPS
  split
  · split
    · exact noHang_illegal _
    · split
      · exact noHang_illegal _
      · split
        · exact noHang_illegal _
        · simp only []
          split
          · rename_i e he; intro site hc; cases hc; exact parseRows_noHang _ _ site he
          · split
            · exact noHang_illegal _
            · split
              · exact noHang_illegal _
              · exact fromSquares_noHang _ _ _ _ hA
  · exact noHang_illegal _

end TPS
end Tak
