import TakVerif.Proofs.TakGameRestrictSpec
import TakVerif.Proofs.PosFactsInst
import TakVerif.Proofs.C06Tak
import TakVerif.Props.C03_WF

/-! The Tak instance of the search model (`Search.takGame`) on its domain.

* moves of the domain: every move value but the pass (`IMt`): `MovePreallocated` accepts a pass, `AllMoves` never
  generates one, so `GameOK.complete` is false for the raw instance — the search theorems hold for engine states
  whose hints (table moves, response map, PV buffers) contain no pass; a new engine is such a state and every call
  keeps it so (`Search.EngGood`).
* positions of the domain (`takS`): C01's invariant with the piece budget (`Tak.InvB`, closed under applied
  moves), a further predicate `D` closed under applied moves (the opening-reserve condition of `tak_has_move`, and
  whatever set of positions a no-collision hypothesis is to range over), and — only when a bound `N` on the ply
  counter is asked for (the terminal scores of C18 need ply ≤ 2·10^6) — ply + rank ≤ `N`. -/
namespace Search
open Tak Tak.Proofs

/-- the moves of the domain: everything but the pass -/
def IMt (m : Move) : Prop := m.type ≠ Facts.mtPass

/-- a predicate on positions kept by every applied non-pass move (from well-formed positions) -/
def DomClosed (basis : Array W) (D : Pos → Prop) : Prop :=
  ∀ p q m, WF basis p → D p → m.type ≠ Facts.mtPass → p.apply basis m = .ok q → D q

/-- the domain: `InvB` (C01's `WF` + at most 64 pieces), `D`, and with `N = some n` also ply + rank ≤ n -/
def takS (basis : Array W) (D : Pos → Prop) (N : Option Int) (k : Nat) (p : Pos) : Prop :=
  InvB basis p ∧ D p ∧ ∀ n, N = some n → p.move + k ≤ n

theorem invB_apply {basis : Array W} {p q : Pos} {m : Move} (h : InvB basis p) (hnp : m.type ≠ Facts.mtPass)
    (hap : p.apply basis m = .ok q) : InvB basis q :=
  ((posFacts2_default basis 3 (by decide)).apply p m q h ⟨hnp, stackLimit_of_budget m h.2⟩ hap).1

/-- `Move.Equal` moves are applied alike -/
theorem apply_of_equal (basis : Array W) (p : Pos) (m1 m2 : Move) (he : m1.equal m2 = true) :
    p.apply basis m1 = p.apply basis m2 := by
  obtain ⟨hx, hy, ht, hs⟩ := equal_fields _ _ he
  by_cases hsl : m1.isSlide = true
  · have : m1 = m2 := by
      have := hs hsl
      cases m1; cases m2; simp_all
    rw [this]
  · exact apply_congr_nonslide basis p m1 m2 hx hy ht (by simpa using hsl)

theorem gen_not_pass {p : Pos} (h8 : p.cfg.size ≤ 8) {m : Move} (hm : m ∈ p.allMoves) : m.type ≠ Facts.mtPass := by
  obtain ⟨_, _, _, _, ht, _⟩ := allMoves_onboard' p h8 m hm
  have tc := types_cases
  omega

theorem gen_not_zero {p : Pos} (h8 : p.cfg.size ≤ 8) {m : Move} (hm : m ∈ p.allMoves) : m.type ≠ 0 := by
  obtain ⟨_, _, _, _, ht, _⟩ := allMoves_onboard' p h8 m hm
  have tc := types_cases
  omega

variable (basis : Array W) (ev : Pos → Int) (sym : Pos → List H) (D : Pos → Prop) (N : Option Int)

theorem takRestr (hD : DomClosed basis D) : Restr (takGame basis ev sym) (takS basis D N) IMt where
  anti := by
    intro k p ⟨h1, h2, h3⟩
    exact ⟨h1, h2, fun n hn => by have := h3 n hn; omega⟩
  closed := by
    intro k p m c ⟨h1, h2, h3⟩ hm hap
    have hap' : p.apply basis m = .ok c := hap
    refine ⟨invB_apply h1 hm hap', hD p c m h1.1 h2 hm hap', ?_⟩
    intro n hn
    have := h3 n hn
    rw [C06.apply_move basis p c m hap']
    omega
  gen := fun p hp m hm => gen_not_pass hp.1.1.size_le hm
  zero := by
    show (⟨0, 0, 0, 0#32⟩ : Move).type ≠ Facts.mtPass
    decide

theorem takRestrOK : RestrOK (takGame basis ev sym) (takS basis D N) IMt where
  complete := by
    intro p m c hp hm hap
    have hap' : p.apply basis m = .ok c := hap
    obtain ⟨m', hm', he⟩ := C03.allMoves_complete_wf basis p hp.1.1 m c hm hap'
    refine ⟨m', hm', ?_⟩
    show p.apply basis m' = .ok c
    rw [apply_of_equal basis p m' m he]; exact hap'
  eqSound := fun p a b _ hab => apply_of_equal basis p a b hab
  eqIM := by
    intro a b hab
    obtain ⟨_, _, ht, _⟩ := equal_fields a b hab
    unfold IMt
    rw [ht]
  zeroNe := by
    intro p hp m hm
    have h0 := gen_not_zero hp.1.1.size_le hm
    show Move.equal ⟨0, 0, 0, 0#32⟩ m = false
    cases he : Move.equal ⟨0, 0, 0, 0#32⟩ m with
    | false => rfl
    | true =>
      obtain ⟨_, _, ht, _⟩ := equal_fields _ _ he
      exact absurd ht.symm h0

/-- the restricted Tak game satisfies `GameOK` -/
theorem takGame_ok (hD : DomClosed basis D) :
    GameOK ((takGame basis ev sym).restrict (takS basis D N 0) IMt) :=
  gameOK_restrict (takRestr basis ev sym D N hD) (takRestrOK basis ev sym D N)

/-- without a ply bound the rank is immaterial -/
theorem takS_none_rank {k j : Nat} {p : Pos} (h : takS basis D none k p) : takS basis D none j p :=
  ⟨h.1, h.2.1, fun n hn => by cases hn⟩

/-- with a ply bound: rank `k` holds when ply + k ≤ n -/
theorem takS_some {n : Int} {k : Nat} {p : Pos} (hi : InvB basis p) (hd : D p) (hk : p.move + k ≤ n) :
    takS basis D (some n) k p :=
  ⟨hi, hd, fun n' hn => by cases hn; exact hk⟩

end Search
