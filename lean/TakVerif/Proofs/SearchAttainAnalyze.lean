import TakVerif.Proofs.SearchAttain
import TakVerif.Proofs.SearchLoop

/-! `Analyze`, `GetMove` and `AnalyzeAll` on an engine whose table is sound and names win-keeping moves
(`TableSound`, `TableAtt`): the table stays so, the reported value is a sound verdict, and

* `analyze_att` — when `Analyze` reports a win, the first move of its PV keeps the win;
* `getMoveFrom_att` / `getMove_att` — hence so does the move `GetMove` returns (a decisive value switches the randomised
  choice off; without it the PV head is returned);
* `analyzeAllFrom_att` / `analyzeAll_att` — every line `AnalyzeAll` lists starts with a move that keeps the win (the
  first line is `Analyze`'s PV, every other line was listed because its zero-width search returned exactly `-v`);
* `loss_all_moves` — when a loss is reported every accepted move, in particular the one played / listed, leads to a
  position the opponent wins (this is a fact about lost positions, not about the search). -/
namespace Search
open Tak (Err)

variable {P M : Type} [DecidableEq M]

omit [DecidableEq M] in
/-- from a lost unfinished position every accepted move leads to a position won by the side then to move -/
theorem loss_all_moves {g : Game P M} (hg : GameOK g) (he : EvalOK g) {p : P} (hov : g.over p = false)
    (hl : Loss g p) {m : M} {c : P} (hap : g.apply p m = .ok c) : Win g c := by
  obtain ⟨d, hd⟩ := hl
  obtain ⟨m', hm', hap'⟩ := hg.complete p m c hap
  cases d with
  | zero =>
    rw [negamax_zero] at hd
    have := he.inside p hov
    omega
  | succ d =>
    rw [negamax_succ g d p hov] at hd
    have := maxOver_ge (fun c => -(negamax g d c.2)) (Facts.minEval - 1) (kids g p) (m', c)
      (mem_kids.mpr ⟨hm', hap'⟩)
    dsimp only at this
    exact ⟨d, by omega⟩

/-- what a deepening step leaves, as far as the moves go -/
def StepAtt (g : Game P M) (p : P) : AOut M → Prop
  | .go a' s' => TableAtt g s' ∧ (a'.v > Facts.winThreshold → HeadKeeps g p a'.ms)
  | .done a' s' => TableAtt g s' ∧ (a'.v > Facts.winThreshold → HeadKeeps g p a'.ms)
  | .cancelled s' => TableAtt g s'

theorem analyzeStep_att {g : Game P M} (hg : GameOK g) (he : EvalOK g) (hinj : HashOK g) (hm : HashMovesOK g)
    {cfg : Cfg} (hpr : Precise cfg.opts) {o : Oracle M} (hord : OrderOK o)
    (p : P) (base i : Int) (a : ALoop M) (s : Eng M) (hts : TableSound g s) (hta : TableAtt g s) :
    Sat (analyzeStep g cfg o p base i a s) (StepAtt g p) := by
  unfold analyzeStep pvSearch
  have hab : Facts.minEval - 1 < Facts.maxEval + 1 := by simp only [Facts.minEval, Facts.maxEval]; omega
  have hs := (search_att hg he hinj hm hpr hord (Facts.maxDepth - 0)).1 p 0 (i + base) a.ms
    (Facts.minEval - 1) (Facts.maxEval + 1) { s with st := { depth := i + base } } hts hta hab
  cases hr : (search g cfg.opts o (Facts.maxDepth - 0)).1 p 0 (i + base) a.ms (Facts.minEval - 1)
      (Facts.maxEval + 1) { s with st := { depth := i + base } } with
  | error e => exact Sat.error
  | ok r =>
    obtain ⟨⟨next, nv⟩, s1⟩ := r
    obtain ⟨hta1, har⟩ := hs _ hr
    dsimp only at hta1 har
    apply Sat.ok
    unfold iterEnd
    cases next with
    | none => exact hta1
    | some nx =>
      dsimp only
      have hv : nv > Facts.winThreshold → HeadKeeps g p nx := by
        intro hw
        exact har (by simp only [Facts.minEval, Facts.winThreshold] at hw ⊢; omega) hw nx rfl
      cases hc : (load o s1).1 with
      | true => simp only [if_true]; exact hta1
      | false =>
        simp only [Bool.false_eq_true, if_false]
        rcases iterDone_cases cfg base i a nx nv (load o s1).2 with h | h
        · rw [h]; exact ⟨hta1, hv⟩
        · rw [h]; exact ⟨hta1, hv⟩

theorem analyzeLoop_att {g : Game P M} (hg : GameOK g) (he : EvalOK g) (hinj : HashOK g) (hm : HashMovesOK g)
    {cfg : Cfg} (hpr : Precise cfg.opts) {o : Oracle M} (hord : OrderOK o) (p : P) (base : Int) :
    ∀ (n : Nat) (i : Int) (a : ALoop M) (s : Eng M), TableSound g s → TableAtt g s → VSound g p a.v →
      (a.v > Facts.winThreshold → HeadKeeps g p a.ms) →
      Sat (analyzeLoop g cfg o p base n i a s) (fun x => TableSound g x.2 ∧ TableAtt g x.2 ∧ VSound g p x.1.v ∧
        (x.1.v > Facts.winThreshold → HeadKeeps g p x.1.ms)) := by
  intro n
  induction n with
  | zero => intro i a s hts hta hv hk; simp only [analyzeLoop]; exact Sat.ok ⟨hts, hta, hv, hk⟩
  | succ n ih =>
    intro i a s hts hta hv hk
    simp only [analyzeLoop]
    split
    · exact Sat.ok ⟨hts, hta, hv, hk⟩
    · have hstep := (analyzeStep_sound hg he hinj hpr hord p base i a s hts).and
        (analyzeStep_att hg he hinj hm hpr hord p base i a s hts hta)
      cases hr : analyzeStep g cfg o p base i a s with
      | error e => exact Sat.error
      | ok x =>
        have hx := hstep x hr
        cases x with
        | cancelled s' => exact Sat.ok ⟨hx.1, hx.2, hv, hk⟩
        | done a' s' => exact Sat.ok ⟨hx.1.1, hx.2.1, hx.1.2, hx.2.2⟩
        | go a' s' => exact ih (i + 1) a' s' hx.1.1 hx.2.1 hx.1.2 hx.2.2

omit [DecidableEq M] in
theorem seedOf_att {g : Game P M} (p : P) (te : Option (TEntry M)) (h : ∀ e, te = some e → AttE g e p) :
    (seedOf te).2.2 > Facts.winThreshold → HeadKeeps g p (seedOf te).2.1 := by
  unfold seedOf
  cases te with
  | none => intro h0; simp only [Facts.winThreshold] at h0; omega
  | some e =>
    dsimp only
    split
    · rename_i hb
      have hb' : e.bound = Facts.exactBound := by simpa using hb
      intro hw
      exact headKeeps_cons (h e rfl (Or.inr hb') hw)
    · intro h0; simp only [Facts.winThreshold] at h0; omega

/-- **`Analyze` on an engine whose table is sound and names winning moves**: both stay so, the reported value is a
sound verdict, and when it is a win the first PV move keeps the win (precise options; any table size and content
history, any move order, any cancellation) -/
theorem analyze_att {g : Game P M} (hg : GameOK g) (he : EvalOK g) (hinj : HashOK g) (hm : HashMovesOK g)
    {cfg : Cfg} (hpr : Precise cfg.opts) {o : Oracle M} (hord : OrderOK o) (p : P) (s : Eng M)
    (hts : TableSound g s) (hta : TableAtt g s) :
    Sat (analyze g cfg o p s) (fun x => TableSound g x.2 ∧ TableAtt g x.2 ∧ VSound g p x.1.2.1 ∧
      (x.1.2.1 > Facts.winThreshold → HeadKeeps g p x.1.1)) := by
  unfold analyze
  have hget := (ttGet_sound (s := { s with loads := 0, evals := 0, sorts := 0, rnds := 0, wlog := [] }) hts p).and
    (ttGet_att (s := { s with loads := 0, evals := 0, sorts := 0, rnds := 0, wlog := [] }) hta p)
  cases hg' : ttGet { s with loads := 0, evals := 0, sorts := 0, rnds := 0, wlog := [] } (g.hash p) with
  | error e => exact Sat.error
  | ok te =>
    obtain ⟨hte, htea⟩ := hget te hg'
    show Sat (analyzeFrom g cfg o p (seedOf te) { s with loads := 0, evals := 0, sorts := 0, rnds := 0, wlog := [] }) _
    unfold analyzeFrom
    have hloop := analyzeLoop_att hg he hinj hm hpr hord p (seedOf te).1 (cfg.depth - (seedOf te).1).toNat 1
      ⟨(seedOf te).2.1, (seedOf te).2.2, { depth := (seedOf te).1 }, 0, 0⟩
      { s with loads := 0, evals := 0, sorts := 0, rnds := 0, wlog := [] } hts hta (seedOf_sound p te hte)
      (seedOf_att p te htea)
    cases hr : analyzeLoop g cfg o p (seedOf te).1 (cfg.depth - (seedOf te).1).toNat 1
        ⟨(seedOf te).2.1, (seedOf te).2.2, { depth := (seedOf te).1 }, 0, 0⟩
        { s with loads := 0, evals := 0, sorts := 0, rnds := 0, wlog := [] } with
    | error e => exact Sat.error
    | ok x =>
      obtain ⟨a, s'⟩ := x
      exact Sat.ok (hloop _ hr)

/-! ### `GetMove` -/

/-- the randomised choice keeps the table invariants (its child searches are ordinary searches) -/
theorem gmBody_att {g : Game P M} (hg : GameOK g) (he : EvalOK g) (hinj : HashOK g) (hm : HashMovesOK g)
    {cfg : Cfg} (hpr : Precise cfg.opts) {o : Oracle M} (hord : OrderOK o) (p : P)
    (depth : Int) (rest : List M) (v : Int) (hw : 0 ≤ cfg.randomizeWindow) :
    BodyOK g p (gmBody g cfg o depth rest v (v - cfg.randomizeWindow))
      (fun _ s => TableSound g s ∧ TableAtt g s) (fun _ _ => True)
      (fun _ s => TableSound g s ∧ TableAtt g s) (fun (_ : Unit) s => TableSound g s ∧ TableAtt g s) := by
  intro m c a s _ hinv
  obtain ⟨hts, hta⟩ := hinv
  unfold gmBody
  apply Sat.bind
  intro sm _
  apply Sat.bind
  unfold pvSearch
  have hs := ((search_sound hg he hinj hpr hord (Facts.maxDepth - 1)).1 c 1 (depth - 1) rest (-v - 1)
      (-(v - cfg.randomizeWindow)) { s with stackM := sm } hts (by omega)).and
    ((search_att hg he hinj hm hpr hord (Facts.maxDepth - 1)).1 c 1 (depth - 1) rest (-v - 1)
      (-(v - cfg.randomizeWindow)) { s with stackM := sm } hts hta (by omega))
  refine hs.mono ?_
  rintro ⟨r, s'⟩ ⟨⟨hts', _⟩, ⟨hta', _⟩⟩
  dsimp only at hts' hta' ⊢
  split
  · exact Sat.pure ⟨⟨hts', hta'⟩, fun _ h => h, fun _ _ => trivial⟩
  · split
    · exact Sat.pure ⟨⟨hts', hta'⟩, fun _ h => h, fun _ _ => trivial⟩
    · split
      · exact Sat.throw
      · exact Sat.pure ⟨⟨hts', hta'⟩, fun _ h => h, fun _ _ => trivial⟩

/-- the part of `GetMove` after `Analyze`: a reported win is played by its PV head -/
theorem getMoveFrom_att {g : Game P M} (hg : GameOK g) (he : EvalOK g) (hinj : HashOK g) (hm : HashMovesOK g)
    {cfg : Cfg} (hpr : Precise cfg.opts) {o : Oracle M} (hord : OrderOK o) (hw : 0 ≤ cfg.randomizeWindow) (p : P)
    (pv : List M) (v : Int) (st : Stats) (s : Eng M) (hts : TableSound g s) (hta : TableAtt g s)
    (hk : v > Facts.winThreshold → HeadKeeps g p pv) :
    Sat (getMoveFrom g cfg o p pv v st s) (fun x => TableSound g x.2 ∧ TableAtt g x.2 ∧
      (v > Facts.winThreshold → Keeps g p x.1)) := by
  unfold getMoveFrom
  cases pv with
  | nil => exact Sat.ok ⟨hts, hta, fun h => by obtain ⟨_, _, e, _⟩ := hk h; cases e⟩
  | cons pv0 rest =>
    dsimp only
    split
    · exact Sat.ok ⟨hts, hta, fun h => (hk h).head⟩
    · split
      · exact Sat.ok ⟨hts, hta, fun h => (hk h).head⟩
      · rename_i hdec
        have hnw : ¬ v > Facts.winThreshold := by
          intro h; apply hdec; simp only [Bool.or_eq_true, decide_eq_true_eq]; exact .inl h
        have hit := iterate_inv (gmBody_att hg he hinj hm hpr hord p st.depth rest v hw) cfg.opts o
          (rootMG st.depth (pv0 :: rest)) (fun _ _ _ h => h) (⟨pv0, 0⟩ : GmAcc M) s ⟨hts, hta⟩
        cases hi : iterate g cfg.opts o p (rootMG st.depth (pv0 :: rest))
            (gmBody g cfg o st.depth rest v (v - cfg.randomizeWindow)) (⟨pv0, 0⟩ : GmAcc M) s with
        | error e => exact Sat.error
        | ok y =>
          obtain ⟨ctl, s2⟩ := y
          have hpost := hit _ hi
          cases ctl with
          | next a => exact Sat.ok ⟨hpost.1.1, hpost.1.2, fun h => absurd h hnw⟩
          | brk a => exact Sat.ok ⟨hpost.1, hpost.2, fun h => absurd h hnw⟩
          | ret r => exact Sat.ok ⟨hpost.1, hpost.2, fun h => absurd h hnw⟩

/-- `GetMove` = `Analyze` followed by `getMoveFrom` -/
theorem getMove_inner {g : Game P M} {cfg : Cfg} {o : Oracle M} {p : P} {s : Eng M} {x : M × Eng M}
    (h : getMove g cfg o p s = .ok x) :
    ∃ pv v st s1, analyze g cfg o p s = .ok ((pv, v, st), s1) ∧ getMoveFrom g cfg o p pv v st s1 = .ok x := by
  unfold getMove at h
  cases hr : analyze g cfg o p s with
  | error e => rw [hr] at h; cases h
  | ok r =>
    obtain ⟨⟨pv, v, st⟩, s1⟩ := r
    rw [hr] at h
    exact ⟨pv, v, st, s1, rfl, h⟩

/-- **the move `GetMove` plays keeps the win `Analyze` reports**: on an engine whose table is sound and names winning
moves (a new engine; kept by every `Analyze` / `GetMove` / `AnalyzeAll`), with `(pv, v, st)` the result of the `Analyze`
call `GetMove` makes: the table stays so, `v` is a sound verdict, and if `v > WinThreshold`
the returned move is accepted and leaves the opponent lost. -/
theorem getMove_att {g : Game P M} (hg : GameOK g) (he : EvalOK g) (hinj : HashOK g) (hm : HashMovesOK g)
    {cfg : Cfg} (hpr : Precise cfg.opts) {o : Oracle M} (hord : OrderOK o) (hw : 0 ≤ cfg.randomizeWindow)
    (p : P) (s : Eng M) (hts : TableSound g s) (hta : TableAtt g s) :
    Sat (getMove g cfg o p s) (fun x => TableSound g x.2 ∧ TableAtt g x.2 ∧
      ∀ pv v st s1, analyze g cfg o p s = .ok ((pv, v, st), s1) →
        VSound g p v ∧ (v > Facts.winThreshold → Keeps g p x.1)) := by
  intro x hx
  obtain ⟨pv, v, st, s1, ha, hf⟩ := getMove_inner hx
  obtain ⟨hts1, hta1, hv, hk⟩ := analyze_att hg he hinj hm hpr hord p s hts hta _ ha
  dsimp only at hts1 hta1 hv hk
  obtain ⟨h1, h2, h3⟩ := getMoveFrom_att hg he hinj hm hpr hord hw p pv v st s1 hts1 hta1 hk _ hf
  refine ⟨h1, h2, ?_⟩
  intro pv' v' st' s1' ha'
  rw [ha] at ha'
  cases ha'
  exact ⟨hv, h3⟩

/-! ### `AnalyzeAll` -/

theorem aaBody_att {g : Game P M} (hg : GameOK g) (he : EvalOK g) (hinj : HashOK g) (hm : HashMovesOK g)
    {cfg : SOpts} (hpr : Precise cfg) {o : Oracle M} (hord : OrderOK o) (p : P)
    (depth : Int) (pv0 : M) (rest : List M) (v : Int) :
    BodyOK g p (aaBody g cfg o depth pv0 rest v)
      (fun out s => TableSound g s ∧ TableAtt g s ∧ (v > Facts.winThreshold → ∀ l ∈ out, HeadKeeps g p l))
      (fun _ _ => True)
      (fun out s => TableSound g s ∧ TableAtt g s ∧ (v > Facts.winThreshold → ∀ l ∈ out, HeadKeeps g p l))
      (fun (_ : Unit) s => TableSound g s ∧ TableAtt g s) := by
  intro m c a s hap hinv
  obtain ⟨hts, hta, hl⟩ := hinv
  unfold aaBody
  apply Sat.bind
  intro sm _
  apply Sat.bind
  unfold pvSearch
  have hs := ((search_sound hg he hinj hpr hord (Facts.maxDepth - 1)).1 c 1 (depth - 1) rest (-v - 1) (-v + 1)
      { s with stackM := sm } hts (by omega)).and
    ((search_att hg he hinj hm hpr hord (Facts.maxDepth - 1)).1 c 1 (depth - 1) rest (-v - 1) (-v + 1)
      { s with stackM := sm } hts hta (by omega))
  refine hs.mono ?_
  rintro ⟨r, s'⟩ ⟨⟨hts', hsr⟩, ⟨hta', _⟩⟩
  dsimp only at hts' hta' hsr ⊢
  split
  · exact Sat.pure ⟨⟨hts', hta', hl⟩, fun _ h => h, fun _ _ => trivial⟩
  · rename_i hne
    have hv : -r.2 = v := by simpa using hne
    split
    · exact Sat.pure ⟨⟨hts', hta', hl⟩, fun _ h => h, fun _ _ => trivial⟩
    · refine Sat.pure ⟨⟨hts', hta', ?_⟩, fun _ h => h, fun _ _ => trivial⟩
      intro hw l hmem
      rcases List.mem_append.mp hmem with h1 | h1
      · exact hl hw l h1
      · simp only [List.mem_singleton] at h1
        subst h1
        exact headKeeps_cons ⟨c, hap, hsr.2 (by omega) (by omega)⟩

/-- the part of `AnalyzeAll` after `Analyze` -/
theorem analyzeAllFrom_att {g : Game P M} (hg : GameOK g) (he : EvalOK g) (hinj : HashOK g) (hm : HashMovesOK g)
    {cfg : Cfg} (hpr : Precise cfg.opts) {o : Oracle M} (hord : OrderOK o) (p : P)
    (pv : List M) (v : Int) (st : Stats) (s : Eng M) (hts : TableSound g s) (hta : TableAtt g s)
    (hk : v > Facts.winThreshold → HeadKeeps g p pv) :
    Sat (analyzeAllFrom g cfg o p pv v st s) (fun x => TableSound g x.2 ∧ TableAtt g x.2 ∧ x.1.2.1 = v ∧
      x.1.2.2 = st ∧ (v > Facts.winThreshold → ∀ l ∈ x.1.1, HeadKeeps g p l)) := by
  unfold analyzeAllFrom
  cases pv with
  | nil => exact Sat.ok ⟨hts, hta, rfl, rfl, fun _ l hl => by cases hl⟩
  | cons pv0 rest =>
    dsimp only
    have h0 : v > Facts.winThreshold → ∀ l ∈ [pv0 :: rest], HeadKeeps g p l := by
      intro hw l hl
      simp only [List.mem_singleton] at hl
      subst hl
      exact hk hw
    have hit := iterate_inv (aaBody_att hg he hinj hm hpr hord p st.depth pv0 rest v) cfg.opts o
      (rootMG st.depth (pv0 :: rest)) (fun _ _ _ h => h) [pv0 :: rest] s ⟨hts, hta, h0⟩
    cases hr : iterate g cfg.opts o p (rootMG st.depth (pv0 :: rest)) (aaBody g cfg.opts o st.depth pv0 rest v)
        [pv0 :: rest] s with
    | error e => exact Sat.error
    | ok r =>
      obtain ⟨c, s'⟩ := r
      have h := hit _ hr
      cases c with
      | next out => exact Sat.ok ⟨h.1.1, h.1.2.1, rfl, rfl, h.1.2.2⟩
      | brk out => exact Sat.ok ⟨h.1, h.2.1, rfl, rfl, h.2.2⟩
      | ret u => exact Sat.ok ⟨h.1, h.2, rfl, rfl, h0⟩

/-- `AnalyzeAll` = `Analyze` followed by `analyzeAllFrom` -/
theorem analyzeAll_inner {g : Game P M} {cfg : Cfg} {o : Oracle M} {p : P} {s : Eng M}
    {x : (List (List M) × Int × Stats) × Eng M} (h : analyzeAll g cfg o p s = .ok x) :
    ∃ pv v st s1, analyze g cfg o p s = .ok ((pv, v, st), s1) ∧ analyzeAllFrom g cfg o p pv v st s1 = .ok x := by
  unfold analyzeAll at h
  cases hr : analyze g cfg o p s with
  | error e => rw [hr] at h; cases h
  | ok r =>
    obtain ⟨⟨pv, v, st⟩, s1⟩ := r
    rw [hr] at h
    exact ⟨pv, v, st, s1, rfl, h⟩

/-- **every line of `AnalyzeAll` keeps the reported win**: on an engine whose table is sound and names winning moves:
the table stays so, the reported value and statistics are those of the `Analyze` call it makes, the value is a sound
verdict, and when it is a win every listed line starts with a move that is accepted and leaves the opponent lost. -/
theorem analyzeAll_att {g : Game P M} (hg : GameOK g) (he : EvalOK g) (hinj : HashOK g) (hm : HashMovesOK g)
    {cfg : Cfg} (hpr : Precise cfg.opts) {o : Oracle M} (hord : OrderOK o) (p : P) (s : Eng M)
    (hts : TableSound g s) (hta : TableAtt g s) :
    Sat (analyzeAll g cfg o p s) (fun x => TableSound g x.2 ∧ TableAtt g x.2 ∧ VSound g p x.1.2.1 ∧
      (∃ pv s1, analyze g cfg o p s = .ok ((pv, x.1.2.1, x.1.2.2), s1)) ∧
      (x.1.2.1 > Facts.winThreshold → ∀ l ∈ x.1.1, HeadKeeps g p l)) := by
  intro x hx
  obtain ⟨pv, v, st, s1, ha, hf⟩ := analyzeAll_inner hx
  obtain ⟨hts1, hta1, hv, hk⟩ := analyze_att hg he hinj hm hpr hord p s hts hta _ ha
  dsimp only at hts1 hta1 hv hk
  obtain ⟨h1, h2, h3, h4, h5⟩ := analyzeAllFrom_att hg he hinj hm hpr hord p pv v st s1 hts1 hta1 hk _ hf
  refine ⟨h1, h2, by rw [h3]; exact hv, ⟨pv, s1, by rw [h3, h4]; exact ha⟩, by rw [h3]; exact h5⟩

/-! ### histories -/

omit [DecidableEq M] in
/-- a new engine's table (all entries zero) names no winning move, vacuously -/
theorem tableAtt_new {g : Game P M} (cfg : Cfg) : TableAtt g (Eng.new g cfg) := by
  intro i e hi p _
  unfold Eng.new at hi
  dsimp only at hi
  have : e = ⟨0#64, 0, g.zeroMove, 0, 0⟩ := by
    rw [Array.getElem?_replicate] at hi
    split at hi
    · exact (Option.some.inj hi).symm
    · cases hi
  subst this
  intro _ h
  simp only [Facts.winThreshold] at h
  omega

/-- after any history of `Analyze` calls on one engine the table is sound and names winning moves -/
theorem runCalls_att {g : Game P M} (hg : GameOK g) (he : EvalOK g) (hinj : HashOK g) (hm : HashMovesOK g)
    {cfg : Cfg} (hpr : Precise cfg.opts) :
    ∀ (h : History P M) (s : Eng M), (∀ x ∈ h, OrderOK x.2) → TableSound g s → TableAtt g s →
      Sat (runCalls g cfg h s) (fun x => TableSound g x.2 ∧ TableAtt g x.2) := by
  intro h
  induction h with
  | nil => intro s _ hts hta; exact Sat.ok ⟨hts, hta⟩
  | cons c rest ih =>
    intro s hord hts hta
    obtain ⟨p, o⟩ := c
    simp only [runCalls]
    have ha := analyze_att hg he hinj hm hpr (hord (p, o) (by simp)) p s hts hta
    cases hr : analyze g cfg o p s with
    | error e => exact Sat.error
    | ok x =>
      obtain ⟨r, s1⟩ := x
      obtain ⟨hts1, hta1, _⟩ := ha _ hr
      dsimp only at hts1 hta1 ⊢
      have hrest := ih s1 (fun x hx => hord x (List.mem_cons_of_mem _ hx)) hts1 hta1
      cases hr2 : runCalls g cfg rest s1 with
      | error e => exact Sat.error
      | ok y =>
        obtain ⟨rs, s2⟩ := y
        obtain ⟨h1, h2⟩ := hrest _ hr2
        exact Sat.ok ⟨h1, h2⟩

end Search
