import TakVerif.Proofs.Groups
import TakVerif.Proofs.SpecReach
import TakVerif.Impl.WFBoard

/-! Road detection and the end of the game: the bit-level `hasRoad`/`GameOver`/`WinDetails` against the
list-level rule book (`Spec.RoadPath`, `Spec.outcome`). -/
namespace Roads
open Tak Spec

/-- the part of the board invariant that road detection and the game-end test rely on -/
structure RoadWF (p : Pos) : Prop where
  size_ok : SizeOK p.cfg.size
  consts : p.c = Gen.precompute p.cfg.size
  white_sub : Sub p.white p.c.Mask
  black_sub : Sub p.black p.c.Mask
  disjoint : p.white &&& p.black = 0#64
  analyzed : p.analyze = some p

/-- well-formed bit-level board: what `New`, `FromSquares` and `Move` maintain about the bitboards
(`RoadWF` plus: walls and capstones sit on occupied squares and exclude each other) -/
structure WFBoard (p : Pos) : Prop extends RoadWF p where
  kinds_sub : Sub (p.standing ||| p.caps) (p.white ||| p.black)
  kinds_disj : p.standing &&& p.caps = 0#64

theorem and_ne_zero_iff (g m : W) : (g &&& m != 0#64) = true ↔ ∃ a, g.getLsbD a = true ∧ m.getLsbD a = true := by
  constructor
  · intro h
    have hne : g &&& m ≠ 0#64 := by simpa using h
    obtain ⟨a, ha⟩ := exists_bit_of_ne_zero _ hne
    simp only [BitVec.getLsbD_and, Bool.and_eq_true] at ha
    exact ⟨a, ha⟩
  · rintro ⟨a, h1, h2⟩
    have hne : g &&& m ≠ 0#64 := fun e => by
      have := congrArg (fun v => BitVec.getLsbD v a) e
      simp [h1, h2] at this
    simpa using hne

theorem bit_getLsbD (i k : Nat) (hi : i < 64) : (1#64 <<< i).getLsbD k = decide (k = i) := by
  simp only [BitVec.getLsbD_shiftLeft, BitVec.getLsbD_one]
  by_cases h : k = i
  · subst h; simp [hi]
  · simp only [h, decide_false]
    by_cases h1 : k < i
    · simp [h1]
    · have : k - i ≠ 0 := by omega
      simp [this]

/-- the edge conditions of a road between squares `i` and `j` -/
def Spans (n i j : Nat) : Prop := (i % n = 0 ∧ j % n = n - 1) ∨ (i / n = 0 ∧ j / n = n - 1)

theorem Spans.ne {n i j : Nat} (hn : SizeOK n) (h : Spans n i j) : i ≠ j := by
  unfold SizeOK at hn
  rcases h with ⟨h1, h2⟩ | ⟨h1, h2⟩ <;> intro e <;> subst e <;> omega

/-- some group touches two opposite edges ⇔ two connected squares of `bits` lie on opposite edges -/
theorem groups_road_iff (n : Nat) (hn : SizeOK n) (bits : W) (hb : Sub bits (Gen.precompute n).Mask)
    (gs : List W) (hgs : floodGroups (Gen.precompute n) bits = some gs) :
    gs.any (isRoadGroup (Gen.precompute n)) = true ↔
      ∃ i j, Conn n (fun x => bits.getLsbD x = true) i j ∧ Spans n i j := by
  obtain ⟨gs', hgs', _, hmem⟩ := groups_spec n hn bits hb
  rw [hgs] at hgs'; cases hgs'
  have h64 := sq_le n hn
  have hT : ∀ a, a < n * n → ((Gen.precompute n).T.getLsbD a = true ↔ a / n = n - 1) := by
    intro a ha; rw [show a = (⟨a, by omega⟩ : Fin 64).val from rfl, T_bit n hn]; simp [ha]
  have hB : ∀ a, a < n * n → ((Gen.precompute n).B.getLsbD a = true ↔ a / n = 0) := by
    intro a ha; rw [show a = (⟨a, by omega⟩ : Fin 64).val from rfl, B_bit n hn]
    simp only [decide_eq_true_eq]
    have : 0 < n := by unfold SizeOK at hn; omega
    rw [Nat.div_eq_zero_iff]; omega
  have hR : ∀ a, a < n * n → ((Gen.precompute n).R.getLsbD a = true ↔ a % n = 0) := by
    intro a ha; rw [show a = (⟨a, by omega⟩ : Fin 64).val from rfl, R_bit n hn]; simp [ha]
  have hL : ∀ a, a < n * n → ((Gen.precompute n).L.getLsbD a = true ↔ a % n = n - 1) := by
    intro a ha; rw [show a = (⟨a, by omega⟩ : Fin 64).val from rfl, L_bit n hn]; simp [ha]
  rw [List.any_eq_true]
  constructor
  · rintro ⟨g, hg, hroad⟩
    obtain ⟨hcomp, _⟩ := (hmem g).mp hg
    have hlt : ∀ a, g.getLsbD a = true → a < n * n := fun a ha => lt_of_mask hn hb (hcomp.sub a ha)
    unfold isRoadGroup at hroad
    simp only [Bool.or_eq_true, Bool.and_eq_true, and_ne_zero_iff] at hroad
    rcases hroad with ⟨⟨a, hga, hta⟩, ⟨b, hgb, hbb⟩⟩ | ⟨⟨a, hga, hla⟩, ⟨b, hgb, hrb⟩⟩
    · exact ⟨b, a, (hcomp.eq_of_mem hgb a).mp hga,
        Or.inr ⟨(hB b (hlt b hgb)).mp hbb, (hT a (hlt a hga)).mp hta⟩⟩
    · exact ⟨b, a, (hcomp.eq_of_mem hgb a).mp hga,
        Or.inl ⟨(hR b (hlt b hgb)).mp hrb, (hL a (hlt a hga)).mp hla⟩⟩
  · rintro ⟨i, j, hc, hsp⟩
    have hi := hc.lt_left
    have hj := hc.lt_right
    -- the component of `i` as a bitboard: flood from the single bit
    have hseed : Sub (1#64 <<< i) bits := fun k hk => by
      rw [bit_getLsbD i k (by omega)] at hk; simp only [decide_eq_true_eq] at hk; rw [hk]; exact hc.ok_left
    obtain ⟨g, _, hg⟩ := flood_reach n hn bits (1#64 <<< i) hb hseed
    have hgi : ∀ k, g.getLsbD k = true ↔ Conn n (fun x => bits.getLsbD x = true) i k := by
      intro k; rw [hg k]
      constructor
      · rintro ⟨i', hi', hc'⟩
        rw [bit_getLsbD i i' (by omega)] at hi'; simp only [decide_eq_true_eq] at hi'; subst hi'; exact hc'
      · intro hc'; exact ⟨i, by rw [bit_getLsbD i i (by omega)]; simp, hc'⟩
    have hcomp : IsComp n bits g := ⟨i, hc.ok_left, hgi⟩
    have hgi' : g.getLsbD i = true := (hgi i).mpr (Conn.refl hi hc.ok_left)
    have hgj : g.getLsbD j = true := (hgi j).mpr hc
    refine ⟨g, (hmem g).mpr ⟨hcomp, i, j, hsp.ne hn, hgi', hgj⟩, ?_⟩
    unfold isRoadGroup
    simp only [Bool.or_eq_true, Bool.and_eq_true, and_ne_zero_iff]
    rcases hsp with ⟨h1, h2⟩ | ⟨h1, h2⟩
    · exact Or.inr ⟨⟨j, hgj, (hL j hj).mpr h2⟩, ⟨i, hgi', (hR i hi).mpr h1⟩⟩
    · exact Or.inl ⟨⟨j, hgj, (hT j hj).mpr h2⟩, ⟨i, hgi', (hB i hi).mpr h1⟩⟩


/-! ### the road-capable tops of a colour, bit level vs list level -/

/-- road-capable tops of a colour, as `analyze` computes them -/
def roadBits (p : Pos) : Color → W
  | .white => p.white &&& ~~~p.standing
  | .black => p.black &&& ~~~p.standing
  | .none => 0#64

def groupsOf (p : Pos) : Color → List W
  | .white => p.wgroups
  | .black => p.bgroups
  | .none => []

theorem abs_square (p : Pos) (k : Nat) :
    (Spec.abs p).squares.getD k [] = if k < p.cfg.size * p.cfg.size then p.squareAt k else [] := by
  unfold Spec.abs
  simp only [List.getD_eq_getElem?_getD, List.getElem?_map]
  by_cases h : k < p.cfg.size * p.cfg.size
  · simp [h]
  · simp [h]

theorem roadTop_squareAt_white (p : Pos) (k : Nat) (hk : k < 64) :
    roadTop .white (p.squareAt k) = (p.white &&& ~~~p.standing).getLsbD k := by
  unfold Pos.squareAt Pos.topAt roadTop
  simp only [BitVec.getLsbD_and, BitVec.getLsbD_not, hk, decide_true, Bool.true_and]
  cases p.white.getLsbD k <;> cases p.black.getLsbD k <;> cases p.standing.getLsbD k <;>
    cases p.caps.getLsbD k <;> simp [Piece.isRoad]

theorem roadTop_squareAt_black (p : Pos) (hd : p.white &&& p.black = 0#64) (k : Nat) (hk : k < 64) :
    roadTop .black (p.squareAt k) = (p.black &&& ~~~p.standing).getLsbD k := by
  have hdk : (p.white.getLsbD k && p.black.getLsbD k) = false := by
    have := congrArg (fun v => BitVec.getLsbD v k) hd
    simpa using this
  unfold Pos.squareAt Pos.topAt roadTop
  simp only [BitVec.getLsbD_and, BitVec.getLsbD_not, hk, decide_true, Bool.true_and]
  revert hdk
  cases p.white.getLsbD k <;> cases p.black.getLsbD k <;> cases p.standing.getLsbD k <;>
    cases p.caps.getLsbD k <;> simp [Piece.isRoad]

theorem roadBits_sub (p : Pos) (wf : RoadWF p) (c : Color) : Sub (roadBits p c) (Gen.precompute p.cfg.size).Mask := by
  rw [← wf.consts]
  cases c with
  | white => exact Sub.and_left _ wf.white_sub
  | black => exact Sub.and_left _ wf.black_sub
  | none => intro i hi; simp [roadBits] at hi

/-- the rule book's "top of square k is a flat or capstone of colour c" is bit k of the bitboard `analyze` floods -/
theorem roadTop_abs (p : Pos) (wf : RoadWF p) (c : Color) (k : Nat) :
    roadTop c ((Spec.abs p).squares.getD k []) = (roadBits p c).getLsbD k := by
  rw [abs_square]
  have h64 := sq_le _ wf.size_ok
  by_cases hk : k < p.cfg.size * p.cfg.size
  · simp only [hk, if_true]
    cases c with
    | white => exact roadTop_squareAt_white p k (by omega)
    | black => exact roadTop_squareAt_black p wf.disjoint k (by omega)
    | none =>
      simp only [roadBits, BitVec.getLsbD_zero]
      unfold Pos.squareAt Pos.topAt roadTop
      cases p.white.getLsbD k <;> cases p.black.getLsbD k <;> simp
  · simp only [hk, if_false]
    have : (roadBits p c).getLsbD k = false := by
      cases hb : (roadBits p c).getLsbD k with
      | false => rfl
      | true => exact absurd (lt_of_mask wf.size_ok (roadBits_sub p wf c) hb) hk
    rw [this]; rfl

theorem analyze_groups (p : Pos) (h : p.analyze = some p) :
    floodGroups p.c (p.white &&& ~~~p.standing) = some p.wgroups ∧
    floodGroups p.c (p.black &&& ~~~p.standing) = some p.bgroups := by
  unfold Pos.analyze at h
  simp only at h
  split at h
  · rename_i wg bg hw hb
    injection h with h
    have h1 : wg = p.wgroups := by have := congrArg Pos.wgroups h; simpa using this
    have h2 : bg = p.bgroups := by have := congrArg Pos.bgroups h; simpa using this
    rw [hw, hb, h1, h2]; exact ⟨rfl, rfl⟩
  · cases h

/-- **Road detection is correct.**  For a well-formed board and either colour: some group recorded by
`analyze` touches two opposite edges (what `hasRoad` tests) iff the list-level position has a `RoadPath`
of that colour. -/
theorem groups_any_iff_roadPath (p : Pos) (wf : RoadWF p) (c : Color) (hc : c ≠ .none) :
    (groupsOf p c).any (isRoadGroup p.c) = true ↔ Spec.RoadPath (Spec.abs p) c := by
  have hg : floodGroups (Gen.precompute p.cfg.size) (roadBits p c) = some (groupsOf p c) := by
    obtain ⟨h1, h2⟩ := analyze_groups p wf.analyzed
    rw [← wf.consts]
    cases c with
    | white => exact h1
    | black => exact h2
    | none => exact absurd rfl hc
  rw [wf.consts, groups_road_iff _ wf.size_ok _ (roadBits_sub p wf c) _ hg]
  unfold Spec.RoadPath
  have hsz : (Spec.abs p).size = p.cfg.size := rfl
  rw [hsz]
  have hok : (fun k => roadTop c ((Spec.abs p).squares.getD k []) = true) =
      (fun x => (roadBits p c).getLsbD x = true) := by
    funext k; rw [roadTop_abs p wf c k]
  rw [hok]
  rfl


/-! ### the end of the game -/

/-- `WinDetails` read as the rule book's outcome record -/
def toOutcome (d : WinDetails) : Spec.Outcome :=
  { over := d.over, winner := d.winner, road := d.reason == .road,
    whiteFlats := d.whiteFlats, blackFlats := d.blackFlats }

theorem hasRoad_bool (p : Pos) (wf : RoadWF p) (c : Color) (hc : c ≠ .none) :
    (groupsOf p c).any (isRoadGroup p.c) = Spec.hasRoad (Spec.abs p) c := by
  rw [Bool.eq_iff_iff, groups_any_iff_roadPath p wf c hc, spec_hasRoad_iff]

theorem reserve_ne_zero (a b : U8) :
    (a != 0#8 || b != 0#8) = !(a.toNat + b.toNat == 0) := by
  have ha : a = 0#8 ↔ a.toNat = 0 := ⟨fun e => by rw [e]; rfl, fun e => BitVec.eq_of_toNat_eq (by rw [e]; rfl)⟩
  have hb : b = 0#8 ↔ b.toNat = 0 := ⟨fun e => by rw [e]; rfl, fun e => BitVec.eq_of_toNat_eq (by rw [e]; rfl)⟩
  rw [Bool.eq_iff_iff]
  simp only [Bool.or_eq_true, bne_iff_ne, ne_eq, Bool.not_eq_true', beq_eq_false_iff_ne, ha, hb]
  omega

theorem full_board (p : Pos) (wf : RoadWF p) :
    (Spec.abs p).squares.all (fun sq => !sq.isEmpty) = ((p.white ||| p.black) == p.c.Mask) := by
  have h64 := sq_le _ wf.size_ok
  have hmask : ∀ k, p.c.Mask.getLsbD k = decide (k < p.cfg.size * p.cfg.size) := by
    intro k; rw [wf.consts]; exact Mask_bitN _ wf.size_ok k
  have hsq : ∀ k, (!(p.squareAt k).isEmpty) = (p.white.getLsbD k || p.black.getLsbD k) := by
    intro k
    unfold Pos.squareAt Pos.topAt
    cases p.white.getLsbD k <;> cases p.black.getLsbD k <;> simp
  rw [Bool.eq_iff_iff]
  unfold Spec.abs
  simp only [List.all_eq_true, List.mem_map, List.mem_range, beq_iff_eq]
  constructor
  · intro h
    apply W_ext
    intro k
    rw [hmask k]
    simp only [BitVec.getLsbD_or, Bool.or_eq_true, decide_eq_true_eq]
    constructor
    · rintro (hk | hk)
      · exact lt_of_mask wf.size_ok (wf.consts ▸ wf.white_sub) hk
      · exact lt_of_mask wf.size_ok (wf.consts ▸ wf.black_sub) hk
    · intro hk
      have := h (p.squareAt k) ⟨k, hk, rfl⟩
      rw [hsq k] at this
      simpa using this
  · rintro h sq ⟨k, hk, rfl⟩
    rw [hsq k]
    have := congrArg (fun v => BitVec.getLsbD v k) h
    simp only [BitVec.getLsbD_or, hmask k, hk, decide_true] at this
    exact this

theorem toMove_abs (p : Pos) : (Spec.abs p).toMove = p.toMove := rfl

/-- **End of game, winner, reason and flat counts follow the rule book** on every well-formed board. -/
theorem winDetails_refines (p : Pos) (wf : RoadWF p) :
    toOutcome p.winDetails = Spec.outcome (Spec.abs p) := by
  have hW := hasRoad_bool p wf .white (by decide)
  have hB := hasRoad_bool p wf .black (by decide)
  have hF := countFlats_refines p wf.size_ok wf.consts wf.white_sub wf.black_sub wf.disjoint
  have hfull := full_board p wf
  have hws := reserve_ne_zero p.whiteStones p.whiteCaps
  have hbs := reserve_ne_zero p.blackStones p.blackCaps
  simp only [groupsOf] at hW hB
  unfold toOutcome Pos.winDetails Pos.gameOver Pos.flatsWinner Pos.hasRoad Spec.outcome
  have hbne : ((p.white ||| p.black) != p.c.Mask) = !((p.white ||| p.black) == p.c.Mask) := rfl
  rw [hF, hW, hB, hws, hbs, toMove_abs, hfull, hbne]
  have hres : (Spec.abs p).whiteStones = p.whiteStones.toNat ∧ (Spec.abs p).whiteCaps = p.whiteCaps.toNat ∧
    (Spec.abs p).blackStones = p.blackStones.toNat ∧ (Spec.abs p).blackCaps = p.blackCaps.toNat ∧
    (Spec.abs p).blackWinsTies = p.cfg.blackWinsTies := ⟨rfl, rfl, rfl, rfl, rfl⟩
  obtain ⟨e1, e2, e3, e4, e5⟩ := hres
  rw [e1, e2, e3, e4, e5]
  generalize Spec.hasRoad (Spec.abs p) .white = wr
  generalize Spec.hasRoad (Spec.abs p) .black = br
  generalize Spec.flatCount (Spec.abs p) .white = wf'
  generalize Spec.flatCount (Spec.abs p) .black = bf'
  generalize ((p.white ||| p.black) == p.c.Mask) = full
  generalize (p.whiteStones.toNat + p.whiteCaps.toNat == 0) = wout
  generalize (p.blackStones.toNat + p.blackCaps.toNat == 0) = bout
  have htm : p.toMove = .white ∨ p.toMove = .black := by
    unfold Pos.toMove; split <;> simp
  cases wr <;> cases br <;> cases full <;> cases wout <;> cases bout <;>
    rcases htm with h | h <;> simp [h, Color.flip]


theorem gameOver_refines (p : Pos) (wf : RoadWF p) :
    p.gameOver = ((Spec.outcome (Spec.abs p)).over, (Spec.outcome (Spec.abs p)).winner) := by
  have h := winDetails_refines p wf
  have h1 := congrArg Spec.Outcome.over h
  have h2 := congrArg Spec.Outcome.winner h
  simp only [toOutcome, Pos.winDetails] at h1 h2
  rw [← h1, ← h2]

/-! ### the executable form of the invariant -/

theorem subB_iff (x y : W) : subB x y = true ↔ Sub x y := by
  unfold subB Sub
  rw [beq_iff_eq]
  constructor
  · intro h i hi
    have := congrArg (fun v => BitVec.getLsbD v i) h
    have hi64 : i < 64 := by
      apply Classical.byContradiction; intro hge
      rw [BitVec.getLsbD_of_ge _ _ (by omega)] at hi; cases hi
    simp only [BitVec.getLsbD_and, BitVec.getLsbD_not, hi, hi64, decide_true, Bool.true_and,
      BitVec.getLsbD_zero] at this
    simpa using this
  · intro h
    apply BitVec.eq_of_getLsbD_eq
    intro i hi
    simp only [BitVec.getLsbD_and, BitVec.getLsbD_not, hi, decide_true, Bool.true_and, BitVec.getLsbD_zero]
    cases hx : x.getLsbD i with
    | false => rfl
    | true => rw [h i hx]; rfl

theorem wfBoardB_iff (p : Pos) : p.wfBoardB = true ↔ WFBoard p := by
  unfold Pos.wfBoardB
  simp only [Bool.and_eq_true, decide_eq_true_eq, beq_iff_eq, subB_iff]
  constructor
  · rintro ⟨⟨⟨⟨⟨⟨⟨h1, h2⟩, h3⟩, h4⟩, h5⟩, h6⟩, h7⟩, h8⟩
    exact ⟨⟨h1, h2, h3, h4, h5, h8⟩, h6, h7⟩
  · rintro ⟨⟨h1, h2, h3, h4, h5, h8⟩, h6, h7⟩
    exact ⟨⟨⟨⟨⟨⟨⟨h1, h2⟩, h3⟩, h4⟩, h5⟩, h6⟩, h7⟩, h8⟩

end Roads
