import TakVerif.Proofs.SearchPrefixNodes

/-! C16, the table clause at the level of `Analyze`: the ghost write log of a call under a monotone cancel oracle
is a suffix (newest first; chronologically: a prefix) of the log of the call with the flag never set, both logs are
faithful (`Rep`), hence every entry of the table after a cancelled call is an old entry or one the uninterrupted
call writes. -/
namespace Search
open Tak (Err)

variable {P M : Type}

section rules
variable {T0 : Array (TEntry M)} {o : Oracle M} {α : Type}

theorem Nev.start {s s0 : Eng M} {x' : Except Err (α × Eng M)} (h : Nev T0 s0 x') (htw : TW s s0) : Nev T0 s x' := by
  intro a2 s2 h2
  obtain ⟨h1, h3⟩ := h a2 s2 h2
  exact ⟨by rw [← htw.2]; exact h1, fun h0 => h3 (htw.rep h0)⟩

/-- moving to an earlier start state with the same table and log -/
theorem Pfx.start' {s s0 : Eng M} {x x' : Except Err (α × Eng M)} (h : Pfx T0 o s0 x x')
    (hl : s.loads ≤ s0.loads) (he : s.evals ≤ s0.evals) (htw : TW s s0) : Pfx T0 o s x x' := by
  refine ⟨h.nev.start htw, ?_⟩
  intro a s' hx
  have p := h.run a s' hx
  refine ⟨Nat.le_trans hl p.loads, Nat.le_trans he p.evals, fun h0 => p.rep (htw.rep h0), ?_, p.same, p.pre⟩
  intro hs
  rw [p.frozen (hs.mono hl he), htw.2]

/-- the run under `o` stops here, the flag seen, without having touched table or log; the other run goes on -/
theorem Pfx.stopped {s s1 : Eng M} (a : α) (y' : Except Err (α × Eng M)) (hl : s.loads ≤ s1.loads)
    (he : s.evals ≤ s1.evals) (htw : TW s s1) (hs : Seen o s1) (hn : Nev T0 s y') :
    Pfx T0 o s (.ok (a, s1)) y' := by
  refine ⟨hn, ?_⟩
  intro b s' h
  cases h
  exact ⟨hl, he, htw.rep, fun _ => htw.2, fun hfu => absurd hfu (fun hfu => hs.not_falseUpTo hfu),
    fun a2 s2 h2 => by rw [htw.2]; exact (hn a2 s2 h2).1⟩

end rules

variable [DecidableEq M]

/-- the deepening loop after the root search of iteration `i` returned `r` -/
def loopK (g : Game P M) (cfg : Cfg) (o : Oracle M) (p : P) (base : Int) (n : Nat) (i : Int) (a : ALoop M)
    (r : Res M × Eng M) : Except Err (ALoop M × Eng M) :=
  match iterEnd cfg o base i a r with
  | .cancelled s => .ok ({ a with st := { a.st with canceled := true } }, s)
  | .done a s => .ok (a, s)
  | .go a s => analyzeLoop g cfg o p base n (i + 1) a s

theorem analyzeLoop_succ (g : Game P M) (cfg : Cfg) (o : Oracle M) (p : P) (base : Int) (n : Nat) (i : Int)
    (a : ALoop M) (s : Eng M) :
    analyzeLoop g cfg o p base (n + 1) i a s =
      if !(i + base ≤ cfg.depth) then .ok (a, s) else
        (search g cfg.opts o (Facts.maxDepth - 0)).1 p 0 (i + base) a.ms (Facts.minEval - 1) (Facts.maxEval + 1)
          { s with st := { depth := i + base } } >>= loopK g cfg o p base n i a := by
  simp only [analyzeLoop]
  split
  · rfl
  · unfold analyzeStep pvSearch loopK
    cases (search g cfg.opts o (Facts.maxDepth - 0)).1 p 0 (i + base) a.ms (Facts.minEval - 1) (Facts.maxEval + 1)
        { s with st := { depth := i + base } } with
    | error e => rfl
    | ok r =>
      have hb : ((Except.ok r : Except Err (Res M × Eng M)).bind fun r => Except.ok (iterEnd cfg o base i a r)) =
          .ok (iterEnd cfg o base i a r) := rfl
      rw [hb]
      show _ = (match iterEnd cfg o base i a r with
        | .cancelled s => (.ok ({ a with st := { a.st with canceled := true } }, s) : Except Err (ALoop M × Eng M))
        | .done a s => .ok (a, s)
        | .go a s => analyzeLoop g cfg o p base n (i + 1) a s)
      cases iterEnd cfg o base i a r <;> rfl

variable {T0 : Array (TEntry M)} {o : Oracle M}

theorem loopK_pfx (g : Game P M) (cfg : Cfg) (p : P) (base : Int) (n : Nat) (i : Int) (a : ALoop M)
    (ih : ∀ (i : Int) (a : ALoop M) (s : Eng M),
      Pfx T0 o s (analyzeLoop g cfg o p base n i a s) (analyzeLoop g cfg o.never p base n i a s))
    (r : Res M) (s1 : Eng M) :
    Pfx T0 o s1 (loopK g cfg o p base n i a (r, s1)) (loopK g cfg o.never p base n i a (r, s1)) := by
  obtain ⟨next, nv⟩ := r
  unfold loopK iterEnd
  cases next with
  | none => exact Pfx.ok s1 _ (Nat.le_refl _) (Nat.le_refl _)
  | some nx =>
    dsimp only
    rw [load_never]
    simp only [Bool.false_eq_true, if_false]
    have hl : s1.loads ≤ (load o s1).2.loads := Nat.le_succ _
    have he : s1.evals ≤ (load o s1).2.evals := Nat.le_refl _
    have htw : TW s1 (load o s1).2 := ⟨rfl, rfl⟩
    -- the two loops from the state after the load
    have hrest : Pfx T0 o (load o s1).2
        (match iterDone cfg base i a nx nv (load o s1).2 with
          | .cancelled s => .ok ({ a with st := { a.st with canceled := true } }, s)
          | .done a s => .ok (a, s)
          | .go a s => analyzeLoop g cfg o p base n (i + 1) a s)
        (match iterDone cfg base i a nx nv (load o s1).2 with
          | .cancelled s => .ok ({ a with st := { a.st with canceled := true } }, s)
          | .done a s => .ok (a, s)
          | .go a s => analyzeLoop g cfg o.never p base n (i + 1) a s) := by
      rcases iterDone_cases cfg base i a nx nv (load o s1).2 with h | h
      · rw [h]; exact ih (i + 1) _ _
      · rw [h]; exact Pfx.ok _ _ (Nat.le_refl _) (Nat.le_refl _)
    cases hc : (load o s1).1 with
    | true =>
      simp only [if_true]
      exact Pfx.stopped _ _ hl he htw (seen_of_load hc) (hrest.nev.start htw)
    | false =>
      simp only [Bool.false_eq_true, if_false]
      exact hrest.start' hl he htw

/-- the deepening loop -/
theorem analyzeLoop_pfx (hm : o.Monotone) (g : Game P M) (cfg : Cfg) (p : P) (base : Int) :
    ∀ (n : Nat) (i : Int) (a : ALoop M) (s : Eng M),
      Pfx T0 o s (analyzeLoop g cfg o p base n i a s) (analyzeLoop g cfg o.never p base n i a s) := by
  intro n
  induction n with
  | zero => intro i a s; simp only [analyzeLoop]; exact Pfx.ok s _ (Nat.le_refl _) (Nat.le_refl _)
  | succ n ih =>
    intro i a s
    rw [analyzeLoop_succ, analyzeLoop_succ]
    refine Pfx.ite _ (fun _ => Pfx.ok s _ (Nat.le_refl _) (Nat.le_refl _)) (fun _ => ?_)
    refine Pfx.bind (((search_pfx hm g cfg.opts (Facts.maxDepth - 0)).1 p 0 (i + base) a.ms (Facts.minEval - 1)
      (Facts.maxEval + 1) { s with st := { depth := i + base } }).start rfl rfl) ?_
    intro r s1
    exact loopK_pfx g cfg p base n i a ih r s1

theorem analyzeFrom_eq (g : Game P M) (cfg : Cfg) (o : Oracle M) (p : P) (seed : Int × List M × Int) (s : Eng M) :
    analyzeFrom g cfg o p seed s =
      analyzeLoop g cfg o p seed.1 (cfg.depth - seed.1).toNat 1 ⟨seed.2.1, seed.2.2, { depth := seed.1 }, 0, 0⟩ s >>=
        fun r => .ok ((r.1.ms, r.1.v, r.1.st), r.2) := by
  unfold analyzeFrom
  cases analyzeLoop g cfg o p seed.1 (cfg.depth - seed.1).toNat 1 ⟨seed.2.1, seed.2.2, { depth := seed.1 }, 0, 0⟩ s with
  | error e => rfl
  | ok r => rfl

theorem analyzeFrom_pfx (hm : o.Monotone) (g : Game P M) (cfg : Cfg) (p : P) (seed : Int × List M × Int) (s : Eng M) :
    Pfx T0 o s (analyzeFrom g cfg o p seed s) (analyzeFrom g cfg o.never p seed s) := by
  rw [analyzeFrom_eq, analyzeFrom_eq]
  refine Pfx.bind (analyzeLoop_pfx hm g cfg p seed.1 _ 1 _ s) ?_
  intro r s1
  exact Pfx.ok s1 _ (Nat.le_refl _) (Nat.le_refl _)

/-- **`Analyze` under a monotone oracle against `Analyze` with the flag never set**, from the state in which the
call starts (counters and log cleared), relative to the table the call finds -/
theorem analyze_pfx (hm : o.Monotone) (g : Game P M) (cfg : Cfg) (p : P) (s : Eng M) :
    Pfx s.table o { s with loads := 0, evals := 0, sorts := 0, rnds := 0, wlog := [] }
      (analyze g cfg o p s) (analyze g cfg o.never p s) := by
  unfold analyze
  cases ttGet { s with loads := 0, evals := 0, sorts := 0, rnds := 0, wlog := [] } (g.hash p) with
  | error e => exact Pfx.error _ e
  | ok te => exact analyzeFrom_pfx hm g cfg p (seedOf te) _

/-! ### what the log says about the table -/

omit [DecidableEq M] in
/-- an entry of a replayed table is an entry of the start table or a logged write, at the same index -/
theorem replayR_entry (T0 : Array (TEntry M)) (log : List (Nat × TEntry M)) (i : Nat) (e : TEntry M)
    (h : (replayR T0 log)[i]? = some e) : T0[i]? = some e ∨ (i, e) ∈ log := by
  induction log with
  | nil => exact Or.inl h
  | cons w l ih =>
    have hstep : replayR T0 (w :: l) = (replayR T0 l).setIfInBounds w.1 w.2 := rfl
    rw [hstep, Array.getElem?_setIfInBounds] at h
    split at h
    · rename_i hi
      split at h
      · cases h
        right
        have : w = (i, w.2) := by rw [← hi]
        rw [this]
        exact List.mem_cons_self
      · cases h
    · rcases ih h with h1 | h1
      · exact Or.inl h1
      · exact Or.inr (List.mem_cons_of_mem _ h1)

/-- **the table clause of C16 on the model**: for a call under a monotone cancel oracle that returns,
* its table is the table it found with its logged writes applied (the log is faithful), and
* against the same call with the flag never set (if that returns): the cancelled call's log is a suffix of the
  other's (newest first — chronologically a prefix), and the other's log is faithful too. -/
theorem analyze_writes_prefix (hm : o.Monotone) (g : Game P M) (cfg : Cfg) (p : P) (s : Eng M)
    (r : List M × Int × Stats) (s' : Eng M) (h : analyze g cfg o p s = .ok (r, s')) :
    s'.table = replayR s.table s'.wlog ∧
    ∀ r2 s2, analyze g cfg o.never p s = .ok (r2, s2) →
      s'.wlog <:+ s2.wlog ∧ s2.table = replayR s.table s2.wlog := by
  have hp := analyze_pfx hm g cfg p s
  have hrep0 : Rep s.table { s with loads := 0, evals := 0, sorts := 0, rnds := 0, wlog := [] } := rfl
  have p1 := hp.run r s' h
  refine ⟨p1.rep hrep0, ?_⟩
  intro r2 s2 h2
  exact ⟨p1.pre r2 s2 h2, (hp.nev r2 s2 h2).2 hrep0⟩

end Search
