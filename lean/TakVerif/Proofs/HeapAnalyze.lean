import TakVerif.Proofs.HeapBasic

/-! C09, layer 2: `analyze()` on object `i` writes only inside the capacity window of `i`'s own
`WhiteGroups` header (or into arrays it allocates), and afterwards the two headers read back exactly
`FloodGroups(white roads)`, `FloodGroups(black roads)`. -/
namespace Tak

theorem Heap.Frame.of_arrs_eq {h h1 h2 : Heap} {a lo hi : Nat} (f : h.Frame h1 a lo hi) (e : h2.arrs = h1.arrs) :
    h.Frame h2 a lo hi :=
  ⟨by rw [e]; exact f.size, fun x hx => by simpa [Heap.asize, e] using f.asize x hx,
   fun x k hx hk => by simpa [Heap.cell, e] using f.cell x k hx hk⟩

theorem Heap.InBounds.of_arrs_eq {h1 h2 : Heap} {s : Slice} (b : h1.InBounds s) (e : h2.arrs = h1.arrs) : h2.InBounds s :=
  ⟨by rw [e]; exact b.arr, by simpa [Heap.asize, e] using b.cap, b.len⟩

theorem Heap.readSlice_of_arrs_eq {h1 h2 : Heap} (s : Slice) (e : h2.arrs = h1.arrs) : h2.readSlice s = h1.readSlice s := by
  simp [Heap.readSlice, Heap.cell, e]

/-- what `analyze` on object `i` (whose header before was `o`) leaves behind -/
structure Heap.AnalyzePost (h : Heap) (i : Nat) (o : PObj) (wl bl : List W) (h' : Heap) (wgS bgS : Slice) : Prop where
  objs : h'.objs = h.objs.setIfInBounds i { o with wg := wgS, bg := bgS }
  /-- writes: only inside `[wg.off, wg.off+wg.cap)` of `i`'s WhiteGroups array, or in fresh arrays -/
  frame : h.Frame h' o.wg.arr o.wg.off (o.wg.off + o.wg.cap)
  inbW : h'.InBounds wgS
  inbB : h'.InBounds bgS
  readW : h'.readSlice wgS = wl
  readB : h'.readSlice bgS = bl
  /-- the new WhiteGroups is the old window, or an array allocated by this call -/
  placeW : (wgS.arr = o.wg.arr ∧ wgS.off = o.wg.off ∧ wgS.cap = o.wg.cap) ∨ h.arrs.size ≤ wgS.arr
  /-- the new BlackGroups sits behind the used part of the new WhiteGroups, or in another array allocated by this call -/
  placeB : (bgS.arr = wgS.arr ∧ bgS.off = wgS.off + wgS.len ∧ bgS.off + bgS.cap = wgS.off + wgS.cap) ∨
           (h.arrs.size ≤ bgS.arr ∧ bgS.arr ≠ wgS.arr)

theorem Heap.analyze_spec (h : Heap) (i : Nat) (o : PObj) (wl bl : List W)
    (ho : h.objs[i]? = some o) (hb : h.InBounds o.wg)
    (hw : floodGroups o.val.c (o.val.white &&& ~~~o.val.standing) = some wl)
    (hbl : floodGroups o.val.c (o.val.black &&& ~~~o.val.standing) = some bl) :
    ∃ h' wgS bgS, h.analyze i = some h' ∧ h.AnalyzePost i o wl bl h' wgS bgS := by
  have hb0 : h.InBounds { o.wg with len := 0 } := ⟨hb.arr, hb.cap, Nat.zero_le _⟩
  have p1 := h.appendAll_spec { o.wg with len := 0 } wl hb0
  generalize hr1 : h.appendAll { o.wg with len := 0 } wl = r1 at p1
  have hb1 : r1.1.InBounds ⟨r1.2.arr, r1.2.off + r1.2.len, 0, r1.2.cap - r1.2.len⟩ :=
    ⟨p1.inb.arr, by have := p1.inb.cap; have := p1.inb.len; simp only; omega, Nat.zero_le _⟩
  have p2 := r1.1.appendAll_spec ⟨r1.2.arr, r1.2.off + r1.2.len, 0, r1.2.cap - r1.2.len⟩ bl hb1
  generalize hr2 : r1.1.appendAll ⟨r1.2.arr, r1.2.off + r1.2.len, 0, r1.2.cap - r1.2.len⟩ bl = r2 at p2
  refine ⟨{ r2.1 with objs := r2.1.objs.setIfInBounds i { o with wg := r1.2, bg := r2.2 } }, r1.2, r2.2, ?_, ?_⟩
  · simp only [Heap.analyze, ho, hw, hbl, hr1, hr2]
  · have hlen := p1.inb.len
    have f2 : r1.1.Frame r2.1 r1.2.arr (r1.2.off + r1.2.len) (r1.2.off + r1.2.cap) :=
      p2.frame.mono (by simp) (by simp only; omega)
    refine ⟨?_, ?_, ?_, ?_, ?_, ?_, ?_, ?_⟩
    · simp only; rw [p2.objs, p1.objs]
    · refine Heap.Frame.of_arrs_eq (h1 := r2.1) ?_ rfl
      refine (p1.frame.mono (Nat.le_refl _) (Nat.le_refl _)).trans f2 ?_
      rcases p1.place with ⟨ha, hoff, hc⟩ | ⟨hf, _⟩
      · left; simp only at ha hoff hc ⊢; refine ⟨ha, ?_, ?_⟩ <;> omega
      · right; exact hf
    · exact (f2.inBounds p1.inb).of_arrs_eq rfl
    · exact p2.inb.of_arrs_eq rfl
    · change r2.1.readSlice r1.2 = wl; rw [f2.readSlice r1.2 p1.inb.arr (by omega), p1.read]
      simp [Heap.readSlice]
    · change r2.1.readSlice r2.2 = bl; rw [p2.read]
      simp [Heap.readSlice]
    · rcases p1.place with ⟨ha, hoff, hc⟩ | ⟨hf, _⟩
      · left; exact ⟨ha, hoff, hc⟩
      · right; exact hf
    · rcases p2.place with ⟨ha, hoff, hc⟩ | ⟨hf, _⟩
      · left; simp only at ha hoff hc; refine ⟨ha, hoff, ?_⟩; omega
      · right
        have := p1.inb.arr
        have := p1.frame.size
        exact ⟨by omega, by omega⟩

end Tak
