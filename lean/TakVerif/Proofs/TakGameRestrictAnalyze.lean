import TakVerif.Proofs.TakGameRestrictNodes

/-! Simulation of `Analyze`, `AnalyzeAll`, `GetMove` and of histories of `Analyze` calls between a game and its
restriction; the specification side (`kids`, `negamax`, `Live`, `Win`, `Loss`) of the restricted game is the one of
the original game. -/
namespace Search
open Tak (Err)

variable {P M : Type}

section
variable {g : Game P M} {S : Nat → P → Prop} {IM : M → Prop}

def AOutGood (IM : M → Prop) : AOut M → Prop
  | .go a s => (∀ m ∈ a.ms, IM m) ∧ EngGood IM s
  | .done a s => (∀ m ∈ a.ms, IM m) ∧ EngGood IM s
  | .cancelled s => EngGood IM s

theorem iterEnd_engGood (cfg : Cfg) (o : Oracle M) (base i : Int) (a : ALoop M) (r : Res M × Eng M)
    (hr : ResGoodIM IM r) : AOutGood IM (iterEnd cfg o base i a r) := by
  unfold iterEnd
  split
  · exact hr.1
  · rename_i next hnext
    split
    · exact load_engGood o hr.1
    · have hn : ∀ m ∈ next, IM m := hr.2 next hnext
      rcases iterDone_cases cfg base i a next r.1.2 (load o r.2).2 with e | e <;> rw [e]
      · exact ⟨hn, load_engGood o hr.1⟩
      · exact ⟨hn, load_engGood o hr.1⟩

theorem analyzeStep_sim [DecidableEq M] (hR : Restr g S IM) (cfg : Cfg) (hnn : cfg.opts.noNullMove = true)
    (o : Oracle M) (hord : OrderOK o) (p' : {p // S 0 p}) (hk : S Facts.maxDepth p'.val) (base i : Int)
    (a : ALoop M) (ha : ∀ m ∈ a.ms, IM m) (s : Eng M) (hs : EngGood IM s) :
    Sim (analyzeStep (g.restrict (S 0) IM) cfg o p' base i a s) (analyzeStep g cfg o p'.val base i a s)
      (AOutGood IM) := by
  unfold analyzeStep
  refine Sim.bind' (pvSearch_sim hR cfg.opts hnn o hord 0 p' hk _ _ ha _ _ _ (hs.of_eq rfl rfl rfl)) ?_
  intro r hr
  exact Sim.ok (iterEnd_engGood cfg o base i a r hr)

theorem analyzeLoop_sim [DecidableEq M] (hR : Restr g S IM) (cfg : Cfg) (hnn : cfg.opts.noNullMove = true)
    (o : Oracle M) (hord : OrderOK o) (p' : {p // S 0 p}) (hk : S Facts.maxDepth p'.val) (base : Int) :
    ∀ (n : Nat) (i : Int) (a : ALoop M) (s : Eng M), (∀ m ∈ a.ms, IM m) → EngGood IM s →
      Sim (analyzeLoop (g.restrict (S 0) IM) cfg o p' base n i a s) (analyzeLoop g cfg o p'.val base n i a s)
        (fun x => (∀ m ∈ x.1.ms, IM m) ∧ EngGood IM x.2) := by
  intro n
  induction n with
  | zero => intro i a s ha hs; exact Sim.ok ⟨ha, hs⟩
  | succ n ih =>
    intro i a s ha hs
    simp only [analyzeLoop]
    refine Sim.ite (fun _ => Sim.ok ⟨ha, hs⟩) (fun _ => ?_)
    obtain ⟨e, hsat⟩ := analyzeStep_sim hR cfg hnn o hord p' hk base i a ha s hs
    rw [e]
    cases hr : analyzeStep g cfg o p'.val base i a s with
    | error err => exact Sim.error
    | ok out =>
      have hout := hsat _ hr
      cases out with
      | cancelled s1 => exact Sim.ok ⟨ha, hout⟩
      | done a1 s1 => exact Sim.ok hout
      | go a1 s1 => exact ih (i + 1) a1 s1 hout.1 hout.2

/-- result of `Analyze`: PV inside `IM`, good engine state -/
def AnGood (IM : M → Prop) (x : (List M × Int × Stats) × Eng M) : Prop := (∀ m ∈ x.1.1, IM m) ∧ EngGood IM x.2

theorem analyzeFrom_sim [DecidableEq M] (hR : Restr g S IM) (cfg : Cfg) (hnn : cfg.opts.noNullMove = true)
    (o : Oracle M) (hord : OrderOK o) (p' : {p // S 0 p}) (hk : S Facts.maxDepth p'.val)
    (seed : Int × List M × Int) (hseed : ∀ m ∈ seed.2.1, IM m) (s : Eng M) (hs : EngGood IM s) :
    Sim (analyzeFrom (g.restrict (S 0) IM) cfg o p' seed s) (analyzeFrom g cfg o p'.val seed s) (AnGood IM) := by
  unfold analyzeFrom
  obtain ⟨e, hsat⟩ := analyzeLoop_sim hR cfg hnn o hord p' hk seed.1 (cfg.depth - seed.1).toNat 1
    ⟨seed.2.1, seed.2.2, { depth := seed.1 }, 0, 0⟩ s hseed hs
  rw [e]
  cases hr : analyzeLoop g cfg o p'.val seed.1 (cfg.depth - seed.1).toNat 1
      ⟨seed.2.1, seed.2.2, { depth := seed.1 }, 0, 0⟩ s with
  | error err => exact Sim.error
  | ok x =>
    obtain ⟨a, s1⟩ := x
    exact Sim.ok (hsat _ hr)

theorem seedOf_engGood (te : Option (TEntry M)) (h : ∀ e, te = some e → IM e.m) : ∀ m ∈ (seedOf te).2.1, IM m := by
  unfold seedOf
  cases te with
  | none => intro m hm; cases hm
  | some e =>
    dsimp only
    split
    · intro m hm
      simp only [List.mem_cons, List.not_mem_nil, or_false] at hm
      subst hm; exact h e rfl
    · intro m hm; cases hm

/-- **`Analyze` cannot tell the restricted game from the original one** (every configuration without the null move,
any table, any cancellation pattern, any move order that keeps the generated set): same PV, value, statistics and
engine state; the PV holds moves of `IM` only and the engine state stays good. -/
theorem analyze_sim [DecidableEq M] (hR : Restr g S IM) (cfg : Cfg) (hnn : cfg.opts.noNullMove = true)
    (o : Oracle M) (hord : OrderOK o) (p' : {p // S 0 p}) (hk : S Facts.maxDepth p'.val)
    (s : Eng M) (hs : EngGood IM s) :
    Sim (analyze (g.restrict (S 0) IM) cfg o p' s) (analyze g cfg o p'.val s) (AnGood IM) := by
  unfold analyze
  have e : (g.restrict (S 0) IM).hash p' = g.hash p'.val := rfl
  rw [e]
  have hs0 : EngGood IM { s with loads := 0, evals := 0, sorts := 0, rnds := 0, wlog := [] } := hs.of_eq rfl rfl rfl
  refine Sim.bind' (Sim.refl (ttGet_engGood hs0 _)) ?_
  intro te hte
  exact analyzeFrom_sim hR cfg hnn o hord p' hk _ (seedOf_engGood te hte) _ hs0

/-! ### `AnalyzeAll`, `GetMove` -/

theorem maxDepth_pred : Facts.maxDepth - 1 + 1 = Facts.maxDepth := by decide

theorem aaBody_sim [DecidableEq M] (hR : Restr g S IM) (cfg : SOpts) (hnn : cfg.noNullMove = true) (o : Oracle M)
    (hord : OrderOK o) (depth : Int) (pv0 : M) (rest : List M) (hrest : ∀ m ∈ rest, IM m) (v : Int) :
    BodySim g S IM (Facts.maxDepth - 1) (fun _ : List (List M) => True) (fun _ : Unit => True)
      (aaBody (g.restrict (S 0) IM) cfg o depth pv0 rest v) (aaBody g cfg o depth pv0 rest v) := by
  intro m c' out s hm hc _ hs
  unfold aaBody
  refine Sim.bind (Sim.refl (sat_true _)) ?_
  intro sm _
  refine Sim.bind (pvSearch_sim hR cfg hnn o hord 1 c' hc _ rest hrest _ _ _ (hs.of_eq rfl rfl rfl)) ?_
  intro r hr
  have e : (g.restrict (S 0) IM).moveEq m pv0 = g.moveEq m pv0 := rfl
  rw [e]
  refine Sim.refl ?_
  split
  · exact Sat.pure ⟨hr.1, trivial⟩
  · split
    · exact Sat.pure ⟨hr.1, trivial⟩
    · exact Sat.pure ⟨hr.1, trivial⟩

theorem analyzeAllFrom_sim [DecidableEq M] (hR : Restr g S IM) (cfg : Cfg) (hnn : cfg.opts.noNullMove = true)
    (o : Oracle M) (hord : OrderOK o) (p' : {p // S 0 p}) (hk : S Facts.maxDepth p'.val)
    (pv : List M) (hpv : ∀ m ∈ pv, IM m) (v : Int) (st : Stats) (s : Eng M) (hs : EngGood IM s) :
    Sim (analyzeAllFrom (g.restrict (S 0) IM) cfg o p' pv v st s) (analyzeAllFrom g cfg o p'.val pv v st s)
      (fun x => EngGood IM x.2) := by
  unfold analyzeAllFrom
  cases pv with
  | nil => exact Sim.ok hs
  | cons pv0 rest =>
    dsimp only
    have hk' : S (Facts.maxDepth - 1 + 1) p'.val := by rw [maxDepth_pred]; exact hk
    obtain ⟨e, hsat⟩ := iterate_sim hR
      (aaBody_sim hR cfg.opts hnn o hord st.depth pv0 rest (fun m hm => hpv m (List.mem_cons_of_mem _ hm)) v)
      cfg.opts o hord p' hk' (rootMG st.depth (pv0 :: rest)) ⟨fun e h => (by cases h), hpv⟩ [pv0 :: rest] s trivial hs
    rw [e]
    cases hr : iterate g cfg.opts o p'.val (rootMG st.depth (pv0 :: rest))
        (aaBody g cfg.opts o st.depth pv0 rest v) [pv0 :: rest] s with
    | error err => exact Sim.error
    | ok x =>
      obtain ⟨c, s1⟩ := x
      have h1 := (hsat _ hr).1
      cases c with
      | next out => exact Sim.ok h1
      | brk out => exact Sim.ok h1
      | ret r => exact Sim.ok h1

/-- `AnalyzeAll` cannot tell the restricted game from the original one -/
theorem analyzeAll_sim [DecidableEq M] (hR : Restr g S IM) (cfg : Cfg) (hnn : cfg.opts.noNullMove = true)
    (o : Oracle M) (hord : OrderOK o) (p' : {p // S 0 p}) (hk : S Facts.maxDepth p'.val)
    (s : Eng M) (hs : EngGood IM s) :
    Sim (analyzeAll (g.restrict (S 0) IM) cfg o p' s) (analyzeAll g cfg o p'.val s) (fun x => EngGood IM x.2) := by
  unfold analyzeAll
  obtain ⟨e, hsat⟩ := analyze_sim hR cfg hnn o hord p' hk s hs
  rw [e]
  cases hr : analyze g cfg o p'.val s with
  | error err => exact Sim.error
  | ok x =>
    obtain ⟨⟨pv, v, st⟩, s1⟩ := x
    obtain ⟨h1, h2⟩ := hsat _ hr
    exact analyzeAllFrom_sim hR cfg hnn o hord p' hk pv h1 v st s1 h2

theorem gmBody_sim [DecidableEq M] (hR : Restr g S IM) (cfg : Cfg) (hnn : cfg.opts.noNullMove = true) (o : Oracle M)
    (hord : OrderOK o) (depth : Int) (rest : List M) (hrest : ∀ m ∈ rest, IM m) (v base : Int) :
    BodySim g S IM (Facts.maxDepth - 1) (fun _ : GmAcc M => True) (fun _ : Unit => True)
      (gmBody (g.restrict (S 0) IM) cfg o depth rest v base) (gmBody g cfg o depth rest v base) := by
  intro m c' a s hm hc _ hs
  unfold gmBody
  refine Sim.bind (Sim.refl (sat_true _)) ?_
  intro sm _
  refine Sim.bind (pvSearch_sim hR cfg.opts hnn o hord 1 c' hc _ rest hrest _ _ _ (hs.of_eq rfl rfl rfl)) ?_
  intro r hr
  refine Sim.refl ?_
  dsimp only
  split
  · exact Sat.pure ⟨hr.1, trivial⟩
  · split
    · exact Sat.pure ⟨hr.1, trivial⟩
    · split
      · exact Sat.throw
      · exact Sat.pure ⟨hr.1.of_eq rfl rfl rfl, trivial⟩

theorem getMoveFrom_sim [DecidableEq M] (hR : Restr g S IM) (cfg : Cfg) (hnn : cfg.opts.noNullMove = true)
    (o : Oracle M) (hord : OrderOK o) (p' : {p // S 0 p}) (hk : S Facts.maxDepth p'.val)
    (pv : List M) (hpv : ∀ m ∈ pv, IM m) (v : Int) (st : Stats) (s : Eng M) (hs : EngGood IM s) :
    Sim (getMoveFrom (g.restrict (S 0) IM) cfg o p' pv v st s) (getMoveFrom g cfg o p'.val pv v st s)
      (fun x => EngGood IM x.2) := by
  unfold getMoveFrom
  cases pv with
  | nil => exact Sim.ok hs
  | cons pv0 rest =>
    dsimp only
    refine Sim.ite (fun _ => Sim.ok hs) (fun _ => ?_)
    refine Sim.ite (fun _ => Sim.ok hs) (fun _ => ?_)
    have hk' : S (Facts.maxDepth - 1 + 1) p'.val := by rw [maxDepth_pred]; exact hk
    obtain ⟨e, hsat⟩ := iterate_sim hR
      (gmBody_sim hR cfg hnn o hord st.depth rest (fun m hm => hpv m (List.mem_cons_of_mem _ hm)) v
        (v - cfg.randomizeWindow))
      cfg.opts o hord p' hk' (rootMG st.depth (pv0 :: rest)) ⟨fun e h => (by cases h), hpv⟩
      (⟨pv0, 0⟩ : GmAcc M) s trivial hs
    rw [e]
    cases hr : iterate g cfg.opts o p'.val (rootMG st.depth (pv0 :: rest))
        (gmBody g cfg o st.depth rest v (v - cfg.randomizeWindow)) (⟨pv0, 0⟩ : GmAcc M) s with
    | error err => exact Sim.error
    | ok x =>
      obtain ⟨c, s1⟩ := x
      have h1 := (hsat _ hr).1
      cases c with
      | next out => exact Sim.ok h1
      | brk out => exact Sim.ok h1
      | ret r => exact Sim.ok h1

/-- `GetMove` cannot tell the restricted game from the original one -/
theorem getMove_sim [DecidableEq M] (hR : Restr g S IM) (cfg : Cfg) (hnn : cfg.opts.noNullMove = true)
    (o : Oracle M) (hord : OrderOK o) (p' : {p // S 0 p}) (hk : S Facts.maxDepth p'.val)
    (s : Eng M) (hs : EngGood IM s) :
    Sim (getMove (g.restrict (S 0) IM) cfg o p' s) (getMove g cfg o p'.val s) (fun x => EngGood IM x.2) := by
  unfold getMove
  obtain ⟨e, hsat⟩ := analyze_sim hR cfg hnn o hord p' hk s hs
  rw [e]
  cases hr : analyze g cfg o p'.val s with
  | error err => exact Sim.error
  | ok x =>
    obtain ⟨⟨pv, v, st⟩, s1⟩ := x
    obtain ⟨h1, h2⟩ := hsat _ hr
    exact getMoveFrom_sim hR cfg hnn o hord p' hk pv h1 v st s1 h2

/-- a new engine is good -/
theorem engGood_new (hR : Restr g S IM) (cfg : Cfg) : EngGood IM (Eng.new g cfg) := by
  refine ⟨?_, ?_, ?_⟩
  · intro i e hi
    unfold Eng.new at hi
    dsimp only at hi
    rw [Array.getElem?_replicate] at hi
    split at hi
    · cases hi; exact hR.zero
    · cases hi
  · intro kv hkv; cases hkv
  · intro i x hi
    unfold Eng.new at hi
    dsimp only at hi
    rw [Array.getElem?_replicate] at hi
    split at hi
    · cases hi; exact hR.zero
    · cases hi

theorem new_restrict (cfg : Cfg) : Eng.new (g.restrict (S 0) IM) cfg = Eng.new g cfg := rfl

/-- a history of calls on the domain, read as a history of the original game -/
def histVal (h : History {p // S 0 p} M) : History P M := h.map (fun x => (x.1.val, x.2))

/-- histories of `Analyze` calls: the same values and the same final engine state -/
theorem runCalls_sim [DecidableEq M] (hR : Restr g S IM) (cfg : Cfg) (hnn : cfg.opts.noNullMove = true) :
    ∀ (h : History {p // S 0 p} M) (s : Eng M), (∀ x ∈ h, OrderOK x.2 ∧ S Facts.maxDepth x.1.val) → EngGood IM s →
      ∀ rs s2, runCalls g cfg (histVal h) s = .ok (rs, s2) →
        ∃ rs', runCalls (g.restrict (S 0) IM) cfg h s = .ok (rs', s2) ∧
          rs = rs'.map (fun y => (y.1.val, y.2)) ∧ EngGood IM s2 := by
  intro h
  induction h with
  | nil =>
    intro s _ hs rs s2 hr
    simp only [histVal, List.map_nil, runCalls] at hr
    cases hr
    exact ⟨[], rfl, rfl, hs⟩
  | cons c rest ih =>
    intro s hh hs rs s2 hr
    obtain ⟨p', o⟩ := c
    obtain ⟨hord, hk⟩ := hh (p', o) (by simp)
    simp only [histVal, List.map_cons, runCalls] at hr ⊢
    obtain ⟨e, hsat⟩ := analyze_sim hR cfg hnn o hord p' hk s hs
    rw [e]
    cases ha : analyze g cfg o p'.val s with
    | error err => rw [ha] at hr; cases hr
    | ok x =>
      obtain ⟨r, s1⟩ := x
      rw [ha] at hr
      dsimp only at hr ⊢
      cases hr2 : runCalls g cfg (List.map (fun x => (x.1.val, x.2)) rest) s1 with
      | error err => rw [hr2] at hr; cases hr
      | ok y =>
        obtain ⟨rs1, s3⟩ := y
        rw [hr2] at hr
        dsimp only at hr
        cases hr
        obtain ⟨rs', h1, h2, h3⟩ := ih s1 (fun x hx => hh x (List.mem_cons_of_mem _ hx)) (hsat _ ha).2 rs1 s2 hr2
        rw [h1]
        exact ⟨(p', r.2.1) :: rs', rfl, by rw [h2]; rfl, h3⟩

end
end Search
