import TakVerif.Proofs.TakGameRestrictAnalyze
import TakVerif.Proofs.SearchAnalyze

/-! The specification side of a restricted game (`kids`, `negamax`, `Live`, `Win`, `Loss`) is the one of the
original game on the domain; and the hypotheses of the generic search theorems (`GameOK`, `EvalBounded`, `EvalOK`,
`HashInj`), which quantify over all positions, follow for the restricted game from facts about the domain. -/
namespace Search
open Tak (Err)

variable {P M : Type}

section
variable {g : Game P M} {S : Nat → P → Prop} {IM : M → Prop}

theorem filterMap_congr_mem {α β : Type} {f h : α → Option β} :
    ∀ (l : List α), (∀ x ∈ l, f x = h x) → l.filterMap f = l.filterMap h := by
  intro l
  induction l with
  | nil => intro _; rfl
  | cons a t ih =>
    intro hl
    rw [List.filterMap_cons, List.filterMap_cons, hl a (by simp), ih (fun x hx => hl x (List.mem_cons_of_mem _ hx))]

/-- the legal children of a position of rank ≥ 1 are the same in both games -/
theorem kids_restrict (hR : Restr g S IM) (p' : {p // S 0 p}) (hp : S 1 p'.val) :
    (kids (g.restrict (S 0) IM) p').map (fun x => (x.1, x.2.val)) = kids g p'.val := by
  unfold kids
  rw [List.map_filterMap]
  have e : (g.restrict (S 0) IM).allMoves p' = g.allMoves p'.val := rfl
  rw [e]
  apply filterMap_congr_mem
  intro m hm
  have him : IM m := hR.gen _ p'.property m hm
  cases hap : g.apply p'.val m with
  | ok c =>
    have h0 : S 0 c := hR.closed 0 _ m c hp him hap
    rw [restrict_apply_ok him hap h0]
    rfl
  | error e =>
    rw [restrict_apply_error him hap]
    rfl

theorem kids_restrict_rank (hR : Restr g S IM) {d : Nat} (p' : {p // S 0 p}) (hp : S (d + 1) p'.val)
    (x : M × {p // S 0 p}) (hx : x ∈ kids (g.restrict (S 0) IM) p') : S d x.2.val := by
  obtain ⟨_, hap⟩ := mem_kids.mp (show (x.1, x.2) ∈ kids (g.restrict (S 0) IM) p' from hx)
  obtain ⟨him, hap'⟩ := restrict_apply_inv hap
  exact hR.closed d _ _ _ hp him hap'

theorem maxOver_map_congr {α β : Type} (f' : α → Int) (f : β → Int) (h : α → β) (lo : Int) :
    ∀ (l : List α), (∀ x ∈ l, f' x = f (h x)) → maxOver f' lo l = maxOver f lo (l.map h) := by
  intro l
  induction l with
  | nil => intro _; rfl
  | cons a t ih =>
    intro hl
    cases t with
    | nil => simp only [maxOver, List.map]; exact hl a (by simp)
    | cons b t =>
      simp only [maxOver, List.map]
      rw [hl a (by simp)]
      have := ih (fun x hx => hl x (List.mem_cons_of_mem _ hx))
      simp only [List.map] at this
      rw [this]

/-- **negamax of the restricted game = negamax of the original game**, at positions whose rank covers the depth -/
theorem negamax_restrict (hR : Restr g S IM) :
    ∀ (d : Nat) (p' : {p // S 0 p}), S d p'.val → negamax (g.restrict (S 0) IM) d p' = negamax g d p'.val := by
  intro d
  induction d with
  | zero => intro p' _; rfl
  | succ d ih =>
    intro p' hp
    have eo : (g.restrict (S 0) IM).over p' = g.over p'.val := rfl
    by_cases hov : g.over p'.val = true
    · rw [negamax_over _ _ _ (by rw [eo]; exact hov), negamax_over _ _ _ hov]; rfl
    · have hov' : g.over p'.val = false := by simpa using hov
      rw [negamax_succ _ _ _ (by rw [eo]; exact hov'), negamax_succ _ _ _ hov']
      have h1 : S 1 p'.val := hR.anti_le (by omega) hp
      rw [← kids_restrict hR p' h1]
      apply maxOver_map_congr
      intro x hx
      rw [ih x.2 (kids_restrict_rank hR p' hp x hx)]

/-- unfinished positions of the domain have a legal move ⇒ the restricted game is live as deep as the rank goes -/
theorem live_restrict (hR : Restr g S IM) (hlive : ∀ p, S 1 p → g.over p = false → kids g p ≠ []) :
    ∀ (d : Nat) (p' : {p // S 0 p}), S d p'.val → Live (g.restrict (S 0) IM) d p' := by
  intro d
  induction d with
  | zero => intro _ _; trivial
  | succ d ih =>
    intro p' hp
    simp only [Live]
    by_cases hov : g.over p'.val = true
    · exact Or.inl hov
    · right
      have hov' : g.over p'.val = false := by simpa using hov
      have h1 : S 1 p'.val := hR.anti_le (by omega) hp
      refine ⟨?_, fun c hc => ih c.2 (kids_restrict_rank hR p' hp c hc)⟩
      intro hnil
      have := kids_restrict hR p' h1
      rw [hnil] at this
      exact hlive _ h1 hov' this.symm

theorem win_restrict (hR : Restr g S IM) (p' : {p // S 0 p}) (hp : ∀ d, S d p'.val) :
    Win (g.restrict (S 0) IM) p' ↔ Win g p'.val := by
  constructor <;> rintro ⟨d, h⟩ <;> refine ⟨d, ?_⟩
  · rw [← negamax_restrict hR d p' (hp d)]; exact h
  · rw [negamax_restrict hR d p' (hp d)]; exact h

theorem loss_restrict (hR : Restr g S IM) (p' : {p // S 0 p}) (hp : ∀ d, S d p'.val) :
    Loss (g.restrict (S 0) IM) p' ↔ Loss g p'.val := by
  constructor <;> rintro ⟨d, h⟩ <;> refine ⟨d, ?_⟩
  · rw [← negamax_restrict hR d p' (hp d)]; exact h
  · rw [negamax_restrict hR d p' (hp d)]; exact h

/-- the facts about the rules on the domain from which `GameOK` of the restricted game follows -/
structure RestrOK (g : Game P M) (S : Nat → P → Prop) (IM : M → Prop) : Prop where
  complete : ∀ p m c, S 0 p → IM m → g.apply p m = .ok c → ∃ m' ∈ g.allMoves p, g.apply p m' = .ok c
  eqSound : ∀ p a b, S 0 p → g.moveEq a b = true → g.apply p a = g.apply p b
  eqIM : ∀ a b, g.moveEq a b = true → (IM a ↔ IM b)
  zeroNe : ∀ p, S 0 p → ∀ m ∈ g.allMoves p, g.moveEq g.zeroMove m = false

theorem gameOK_restrict (hR : Restr g S IM) (hO : RestrOK g S IM) : GameOK (g.restrict (S 0) IM) where
  complete := by
    intro p' m c' hap
    obtain ⟨him, hap'⟩ := restrict_apply_inv hap
    obtain ⟨m', hm', hap2⟩ := hO.complete _ m _ p'.property him hap'
    exact ⟨m', hm', restrict_apply_ok (hR.gen _ p'.property m' hm') hap2 c'.property⟩
  eqSound := by
    intro p' a b hab
    have h1 := hO.eqSound _ a b p'.property hab
    have h2 := hO.eqIM a b hab
    by_cases ha : IM a
    · have hb : IM b := h2.mp ha
      simp only [Game.restrict, ha, hb, if_true, h1]
    · have hb : ¬ IM b := fun h => ha (h2.mpr h)
      simp only [Game.restrict, ha, hb, if_false]
  zeroNe := fun p' m hm => hO.zeroNe _ p'.property m hm

theorem evalBounded_restrict (h : ∀ q, S 0 q → Facts.minEval ≤ g.eval q ∧ g.eval q ≤ Facts.maxEval) :
    EvalBounded (g.restrict (S 0) IM) := fun q' => h _ q'.property

theorem evalOK_restrict (hR : Restr g S IM)
    (hin : ∀ p, S 0 p → g.over p = false → -Facts.winThreshold ≤ g.eval p ∧ g.eval p ≤ Facts.winThreshold)
    (hup : ∀ p, S 0 p → S 1 p) (hlive : ∀ p, S 1 p → g.over p = false → kids g p ≠ []) :
    EvalOK (g.restrict (S 0) IM) where
  inside := fun p' hov => hin _ p'.property hov
  live := by
    intro p' hov hnil
    have h1 := hup _ p'.property
    have := kids_restrict hR p' h1
    rw [hnil] at this
    exact hlive _ h1 hov this.symm

/-- no two distinct positions of the domain have the same hash (the `NoCollision` hypothesis in its strongest form, on
the domain; not satisfiable for Tak, whose hash ignores the ply counter: see `HashOKOn`) -/
def HashInjOn (g : Game P M) (S0 : P → Prop) : Prop := ∀ p q, S0 p → S0 q → g.hash p = g.hash q → p = q

/-- the `NoCollision` hypothesis in the form the table theorems use it, on the domain: two positions of the domain with
the same hash are alike for the three-valued verdicts — at every depth their negamax values lie on the same side of
both thresholds.  (For Tak: true when equal hashes mean equal boards and the same side to move, since positions that
differ in the ply counter only have the same moves, the same game end and evaluations of the same class.) -/
def HashOKOn (g : Game P M) (S0 : P → Prop) : Prop :=
  ∀ p q, S0 p → S0 q → g.hash p = g.hash q → ∀ d,
    (negamax g d p > Facts.winThreshold ↔ negamax g d q > Facts.winThreshold) ∧
    (negamax g d p < -Facts.winThreshold ↔ negamax g d q < -Facts.winThreshold)

theorem HashInjOn.ok {S0 : P → Prop} (h : HashInjOn g S0) : HashOKOn g S0 := by
  intro p q hp hq e d
  rw [h p q hp hq e]
  exact ⟨Iff.rfl, Iff.rfl⟩

theorem hashOK_restrict (hR : Restr g S IM) (hconst : ∀ k j p, S k p → S j p) (h : HashOKOn g (S 0)) :
    HashOK (g.restrict (S 0) IM) := by
  intro p q hpq d
  rw [negamax_restrict hR d p (hconst _ _ _ p.property), negamax_restrict hR d q (hconst _ _ _ q.property)]
  exact h _ _ p.property q.property hpq d

end
end Search
