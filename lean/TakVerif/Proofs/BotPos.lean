import TakVerif.Proofs.Bot
import TakVerif.Proofs.ApplyCfg

/-! # Where the positions of the bot loop come from (helper for `Props/C07_compose.lean`)

`PInv A p0 s`: every position the loop holds — the current one, the record, **and the position every thinker was started
on** — satisfies `A`, for any predicate `A` that `Position.Move` preserves (board size, `WF`, …); unless the protocol
goroutine has panicked the record still ends in the start position `p0`, and the current position and the position
of the current thinker are members of the record.  Kept by every event of `Tak.Bot`. -/
namespace Tak.Bot
open Tak

structure PInv (A : Pos → Prop) (p0 : Pos) (s : St) : Prop where
  p : A s.p
  recd : ∀ q ∈ s.positions, A q
  old : ∀ t ∈ s.old, A t.pos
  cur : A s.cur.pos
  last : ¬ s.crashed → s.positions.getLast? = some p0
  pmem : ¬ s.crashed → s.p ∈ s.positions
  cmem : ¬ s.crashed → s.cur.pos ∈ s.positions

/-- the part of the state `PInv` reads -/
def pview (s : St) : Pos × List Pos × List Pos × Pos × Prop := (s.p, s.positions, s.old.map (·.pos), s.cur.pos, s.crashed)

variable {A : Pos → Prop} {p0 : Pos} {basis : Array W}

theorem PInv.of_pview {s t : St} (h : PInv A p0 s) (hv : pview t = pview s) : PInv A p0 t := by
  simp only [pview, Prod.mk.injEq] at hv
  obtain ⟨h1, h2, h3, h4, h5⟩ := hv
  refine ⟨by rw [h1]; exact h.p, by rw [h2]; exact h.recd, ?_, by rw [h4]; exact h.cur, ?_, ?_, ?_⟩
  · intro t' ht'
    have : t'.pos ∈ t.old.map (·.pos) := List.mem_map_of_mem ht'
    rw [h3] at this
    obtain ⟨u, hu, hup⟩ := List.mem_map.mp this
    rw [← hup]; exact h.old u hu
  · intro hc; rw [h2]; exact h.last (by rw [← h5]; exact hc)
  · intro hc; rw [h1, h2]; exact h.pmem (by rw [← h5]; exact hc)
  · intro hc; rw [h4, h2]; exact h.cmem (by rw [← h5]; exact hc)

/-- a crashed state needs only the `A` part -/
theorem pinv_crash_of {s : St} (hp : A s.p) (hr : ∀ q ∈ s.positions, A q) (ho : ∀ t ∈ s.old, A t.pos)
    (hc : A s.cur.pos) (e : Err) : PInv A p0 (s.crash e) :=
  ⟨hp, hr, ho, hc, fun hn => absurd ⟨e, rfl⟩ hn, fun hn => absurd ⟨e, rfl⟩ hn, fun hn => absurd ⟨e, rfl⟩ hn⟩

theorem PInv.crash {s : St} (h : PInv A p0 s) (e : Err) : PInv A p0 (s.crash e) :=
  pinv_crash_of h.p h.recd h.old h.cur e

theorem PInv.spawn (cfg : Conf) {s : St} (h : PInv A p0 s) : PInv A p0 (spawn cfg s) :=
  ⟨h.p, h.recd, h.old, h.p, h.last, h.pmem, h.pmem⟩

/-- `return false`: the new thinker is started on the current position; where the old one stood does not matter -/
theorem pinv_retFalse_of (cfg : Conf) {s : St} (hp : A s.p) (hr : ∀ q ∈ s.positions, A q) (ho : ∀ t ∈ s.old, A t.pos)
    (hc : A s.cur.pos) (hl : ¬ s.crashed → s.positions.getLast? = some p0) (hpm : ¬ s.crashed → s.p ∈ s.positions) :
    PInv A p0 (retFalse cfg s) := by
  refine ⟨hp, hr, ?_, hp, hl, hpm, hpm⟩
  intro t ht
  have ht' : t ∈ s.old ++ [{ s.cur with cancelled := true }] := ht
  simp only [List.mem_append, List.mem_singleton] at ht'
  rcases ht' with ht' | rfl
  · exact ho t ht'
  · exact hc

theorem PInv.retFalse (cfg : Conf) {s : St} (h : PInv A p0 s) : PInv A p0 (retFalse cfg s) :=
  pinv_retFalse_of cfg h.p h.recd h.old h.cur h.last h.pmem

theorem PInv.retTrue {s : St} (h : PInv A p0 s) (hr : s.status = .running) : PInv A p0 (retTrue s) :=
  ⟨h.p, h.recd, h.old, h.cur, fun _ => h.last (not_crashed_of_running hr), fun _ => h.pmem (not_crashed_of_running hr),
   fun _ => h.cmem (not_crashed_of_running hr)⟩

theorem pview_srvPush (cfg : Conf) (s : St) (m : Move) : pview (srvPush cfg s m) = pview s := by
  unfold srvPush
  split
  · rfl
  · split <;> rfl

theorem pview_srvAccept (cfg : Conf) (s : St) (m : Move) : pview (srvAccept cfg s m) = pview s := by
  unfold srvAccept
  split
  · rfl
  · split
    · exact pview_srvPush cfg s m
    · rfl

theorem pview_srvPop (s : St) : pview (srvPop s) = pview s := by
  unfold srvPop
  split <;> rfl

theorem getLast?_cons_of_getLast? {α : Type} {x y : α} {l : List α} (h : l.getLast? = some y) :
    (x :: l).getLast? = some y := by
  cases l with
  | nil => cases h
  | cons a l => rw [List.getLast?_cons_cons]; exact h

theorem pinv_onServerMove (hA : ∀ p m q, A p → p.apply basis m = .ok q → A q) (cfg : Conf) (hb : cfg.basis = basis)
    {s : St} (h : PInv A p0 s) (parsed : Option Move) : PInv A p0 (onServerMove cfg s parsed) := by
  unfold onServerMove
  cases parsed with
  | none => exact h.crash _
  | some m =>
    dsimp only
    have h' : PInv A p0 (srvPush cfg s m) := h.of_pview (pview_srvPush cfg s m)
    cases ha : (srvPush cfg s m).p.apply cfg.basis m with
    | error e => exact h'.crash _
    | ok q =>
      dsimp only
      have hq : A q := hA _ m q h'.p (by rw [← hb]; exact ha)
      refine ⟨hq, ?_, h'.old, h'.cur, ?_, ?_, ?_⟩
      · intro r hr
        simp only [List.mem_cons] at hr
        rcases hr with rfl | hr
        · exact hq
        · exact h'.recd r hr
      · intro hc
        exact getLast?_cons_of_getLast? (h'.last hc)
      · intro _; exact List.mem_cons_self
      · intro hc; exact List.mem_cons_of_mem _ (h'.cmem hc)

theorem pinv_onTime (cfg : Conf) {s : St} (h : PInv A p0 s) (args : List String) : PInv A p0 (onTime cfg s args) := by
  unfold onTime
  split
  · dsimp only
    split
    · split
      · refine PInv.retFalse cfg (PInv.of_pview h ?_); rfl
      · exact h.of_pview rfl
    · split
      · refine PInv.retFalse cfg (PInv.of_pview h ?_); rfl
      · exact h.of_pview rfl
  · exact h.crash _

theorem pinv_onRequestUndo {s : St} (h : PInv A p0 s) (accept : Bool) : PInv A p0 (onRequestUndo s accept) := by
  unfold onRequestUndo
  split
  · exact h.of_pview rfl
  · exact h

theorem pinv_onUndo (cfg : Conf) {s : St} (h : PInv A p0 s) : PInv A p0 (onUndo cfg s) := by
  unfold onUndo
  dsimp only
  have h' : PInv A p0 (srvPop s) := h.of_pview (pview_srvPop s)
  split
  · exact h'.crash _
  · rename_i q0 ps hps
    have hrec : ∀ q, q ∈ ps → A q := by
      intro q hq
      apply h'.recd
      rw [hps]
      exact List.mem_cons_of_mem _ hq
    split
    · exact pinv_crash_of (s := { srvPop s with positions := ps }) h'.p hrec h'.old h'.cur _
    · split
      · exact pinv_crash_of (s := { srvPop s with positions := [], moves := _ }) h'.p hrec h'.old h'.cur _
      · rename_i q qs
        have hq : A q := hrec q List.mem_cons_self
        refine pinv_retFalse_of cfg (s := { srvPop s with positions := q :: qs, moves := _, p := q }) hq hrec h'.old h'.cur ?_ ?_
        · intro hc
          have hl := h'.last hc
          rw [hps, List.getLast?_cons_cons] at hl
          exact hl
        · intro _; exact List.mem_cons_self

theorem pinv_onGameLine (hA : ∀ p m q, A p → p.apply basis m = .ok q → A q) (cfg : Conf) (hb : cfg.basis = basis)
    {s : St} (h : PInv A p0 s) (hr : s.status = .running) (rest : List String) (parsed : Option Move) (accept : Bool) :
    PInv A p0 (onGameLine cfg s rest parsed accept) := by
  unfold onGameLine
  split
  · exact h.crash _
  · split
    · exact pinv_onServerMove hA cfg hb h parsed
    · split
      · exact h.retTrue hr
      · split
        · split
          · exact h.crash _
          · refine PInv.retTrue (PInv.of_pview h ?_) hr; rfl
        · split
          · exact pinv_onTime cfg h _
          · split
            · exact pinv_onRequestUndo h accept
            · split
              · exact pinv_onUndo cfg h
              · exact h

theorem pinv_onLine (hA : ∀ p m q, A p → p.apply basis m = .ok q → A q) (cfg : Conf) (hb : cfg.basis = basis)
    {s : St} (h : PInv A p0 s) (hr : s.status = .running) (bits : List String) (parsed : Option Move) (accept : Bool) :
    PInv A p0 (onLine cfg s bits parsed accept) := by
  unfold onLine
  split
  · exact h
  · split
    · exact pinv_onGameLine hA cfg hb h hr _ parsed accept
    · split
      · exact pinv_onGameLine hA cfg hb h hr _ parsed accept
      · exact h

theorem pinv_onAnswer (hA : ∀ p m q, A p → p.apply basis m = .ok q → A q) (cfg : Conf) (hb : cfg.basis = basis)
    {s : St} (h : PInv A p0 s) (m : Move) : PInv A p0 (onAnswer cfg s m) := by
  unfold onAnswer
  cases ha : s.p.apply cfg.basis m with
  | error e =>
    cases e with
    | illegal w => exact h.retFalse cfg
    | panic w => exact h.crash _
    | hang w => exact h.crash _
  | ok q =>
    dsimp only
    have hq : A q := hA _ m q h.p (by rw [← hb]; exact ha)
    let s1 : St := { s with log := s.log ++ [{ move := m, recAt := s.p, srvAt := srvCur s, tag := s.cur.pos }] }
    have h1 : PInv A p0 s1 := h.of_pview rfl
    have h2 : PInv A p0 (srvAccept cfg s1 m) := h1.of_pview (pview_srvAccept cfg s1 m)
    refine pinv_retFalse_of cfg
      (s := { srvAccept cfg s1 m with sent := _, p := q, positions := q :: (srvAccept cfg s1 m).positions, moves := _ })
      hq ?_ h2.old h2.cur ?_ ?_
    · intro r hr
      have hr' : r ∈ q :: (srvAccept cfg s1 m).positions := hr
      simp only [List.mem_cons] at hr'
      rcases hr' with rfl | hr'
      · exact hq
      · exact h2.recd r hr'
    · intro hc
      exact getLast?_cons_of_getLast? (h2.last hc)
    · intro _; exact List.mem_cons_self

theorem mem_modAt {f : Thinker → Thinker} (hf : ∀ t, (f t).pos = t.pos) :
    ∀ (l : List Thinker) (k : Nat) (t : Thinker), t ∈ modAt l k f → ∃ u ∈ l, t.pos = u.pos
  | [], _, t, h => by cases h
  | u :: us, 0, t, h => by
    simp only [modAt, List.mem_cons] at h
    rcases h with rfl | h
    · exact ⟨u, List.mem_cons_self, hf u⟩
    · exact ⟨t, List.mem_cons_of_mem _ h, rfl⟩
  | u :: us, k+1, t, h => by
    simp only [modAt, List.mem_cons] at h
    rcases h with rfl | h
    · exact ⟨t, List.mem_cons_self, rfl⟩
    · obtain ⟨v, hv, hp⟩ := mem_modAt hf us k t h
      exact ⟨v, List.mem_cons_of_mem _ hv, hp⟩

theorem enter_pos (t : Thinker) : t.enter.pos = t.pos := by
  unfold Thinker.enter; split <;> rfl

theorem leave_pos (m : Move) (t : Thinker) : (t.leave m).pos = t.pos := by
  unfold Thinker.leave; split <;> rfl

theorem PInv.modOld {s : St} (h : PInv A p0 s) (k : Nat) {f : Thinker → Thinker} (hf : ∀ t, (f t).pos = t.pos) :
    PInv A p0 { s with old := modAt s.old k f } := by
  refine ⟨h.p, h.recd, ?_, h.cur, h.last, h.pmem, h.cmem⟩
  intro t ht
  obtain ⟨u, hu, hp⟩ := mem_modAt hf s.old k t ht
  rw [hp]; exact h.old u hu

theorem pinv_step (hA : ∀ p m q, A p → p.apply basis m = .ok q → A q) (cfg : Conf) (hb : cfg.basis = basis)
    {s : St} (h : PInv A p0 s) (e : Ev) : PInv A p0 (step cfg s e) := by
  cases e with
  | deliver bits parsed accept =>
    simp only [step]
    split
    · rename_i hr
      exact pinv_onLine hA cfg hb h hr bits parsed accept
    · exact h
  | close =>
    simp only [step]
    split
    · rename_i hr
      exact h.retTrue hr
    · exact h
  | timerFires =>
    simp only [step]
    split
    · exact h.retFalse cfg
    · exact h
  | grant k =>
    simp only [step, grant]
    split
    · exact h
    · split
      · exact h.modOld k enter_pos
      · split
        · exact ⟨h.p, h.recd, h.old, by rw [enter_pos]; exact h.cur, h.last, h.pmem, by rw [enter_pos]; exact h.cmem⟩
        · exact h
  | aiReturns k m =>
    simp only [step, aiReturns]
    split
    · exact h.modOld k (leave_pos m)
    · split
      · split
        · split
          · exact pinv_onAnswer hA cfg hb (s := { s with cur := { s.cur with st := .done, cancelled := true } })
              ⟨h.p, h.recd, h.old, h.cur, h.last, h.pmem, h.cmem⟩ m
          · exact ⟨h.p, h.recd, h.old, by rw [leave_pos]; exact h.cur, h.last, h.pmem, by rw [leave_pos]; exact h.cmem⟩
        · exact h
      · exact h

theorem pinv_run (hA : ∀ p m q, A p → p.apply basis m = .ok q → A q) (cfg : Conf) (hb : cfg.basis = basis)
    {s : St} (h : PInv A p0 s) (evs : List Ev) : PInv A p0 (run cfg s evs) := by
  induction evs generalizing s with
  | nil => exact h
  | cons e es ih => exact ih (pinv_step hA cfg hb h e)

end Tak.Bot
