import TakVerif.Impl.PTN
import TakVerif.Proofs.PTNTotal

/-! The iterator state machine against a one-pass, list-level replay of the ops. -/
namespace PTN
open Tak

/-- one thing the iterator shows: the marker in force and the position -/
abbrev Frame := Int × Pos

/-- List-level replay of a record from position `p` with marker `mk` in force.  Walk the ops once:
a move-number op changes the marker; a move op is shown as the frame (marker, position before it) and is
then applied — if it is illegal the replay ends in an error, if it ends the game the final position is
shown (same marker) and the replay ends, whatever follows in the record; at the end of the record the
final position is shown.  Comments and results do nothing.  Result: the frames and "ended in an error". -/
def specFrames (basis : Array W) : List Op → Int → Pos → List Frame × Bool
  | [], mk, p => ([(mk, p)], false)
  | .moveNumber _ n :: ops, _, p => specFrames basis ops n p
  | .move _ m _ :: ops, mk, p =>
    match p.apply basis m with
    | .error _ => ([(mk, p)], true)
    | .ok q =>
      if q.gameOver.1 then ([(mk, p), (mk, q)], false)
      else ((mk, p) :: (specFrames basis ops mk q).1, (specFrames basis ops mk q).2)
  | .comment _ _ :: ops, mk, p => specFrames basis ops mk p
  | .result _ _ :: ops, mk, p => specFrames basis ops mk p

/-- what the iterator shows: call `Next` until it returns false; one frame per successful call -/
def collect (env : Env) : Nat → Iter → R (List Frame × Bool)
  | 0, _ => .error (.hang "collect")
  | fuel+1, it =>
    match it.next env with
    | .error e => .error e
    | .ok (it', true) =>
      match it'.position with
      | none => .error (.panic "nil position")
      | some p =>
        match collect env fuel it' with
        | .error e => .error e
        | .ok (fs, e) => .ok ((it'.ptnMove, p) :: fs, e)
    | .ok (it', false) => .ok ([], it'.err.isSome)

/-- no `Move` op of the record carries the zero move type (true of everything `ParsePTN` produces) -/
def NoZero (ops : List Op) : Prop := ∀ src m mods, Op.move src m mods ∈ ops → m.type ≠ 0

/-- the scan loop of `Next` followed by the end-of-record latch, from a state with no pending move -/
def scanFinish (jt : Iter) : Iter × Bool :=
  match Iter.scan jt.rest jt with
  | (kt, true) => (kt, true)
  | (kt, false) => ({ kt with over := true }, true)

theorem scan_move_zero (ops : List Op) : ∀ it : Iter,
    (Iter.scan ops it).2 = false → (Iter.scan ops it).1.move = it.move := by
  intro it h
  exact ((scan_props ops it).2.2.2.2 h).2

/-- `Next` from a live state (no error, not over, position `p`), in closed form -/
theorem next_eq (env : Env) (it : Iter) (p : Pos) (herr : it.err = none) (hover : it.over = false)
    (hpos : it.position = some p) :
    it.next env =
      if it.move.type != 0 then
        match p.apply env.basis it.move with
        | .ok q =>
          if q.gameOver.1 then
            .ok ({ it with position := some q, lastMove := it.move, move := zeroMove, over := true }, true)
          else .ok (scanFinish { it with position := some q, lastMove := it.move, move := zeroMove })
        | .error (.illegal w) => .ok ({ it with err := some (.illegal w) }, false)
        | .error e => .error e
      else .ok (scanFinish it) := by
  have hgo : (it.err.isSome || it.over) = false := by simp [herr, hover]
  unfold Iter.next
  rw [if_neg (by simp [hgo])]
  -- the tail of `Next` from a state whose pending move is the zero move
  have tail : ∀ jt : Iter, jt.move.type = 0 →
      (match Iter.scan jt.rest jt with
        | (it, true) => (Except.ok (it, true) : R (Iter × Bool))
        | (it, false) =>
          let it := { it with over := true }
          if it.move.type != 0 then it.apply env else .ok (it, true)) = .ok (scanFinish jt) := by
    intro jt hz
    unfold scanFinish
    have hm := scan_move_zero jt.rest jt
    cases hsc : Iter.scan jt.rest jt with
    | mk kt found =>
      rw [hsc] at hm
      cases found with
      | true => rfl
      | false =>
        dsimp only
        have : kt.move.type = 0 := by rw [hm rfl]; exact hz
        rw [if_neg (by simp [this])]
  by_cases hmv : (it.move.type != 0) = true
  · rw [if_pos hmv, if_pos hmv]
    unfold Iter.apply
    rw [hpos]
    dsimp only
    cases ha : p.apply env.basis it.move with
    | ok q =>
      dsimp only
      by_cases hg : q.gameOver.1 = true
      · rw [if_pos hg, if_pos hg]
      · rw [if_neg hg, if_neg hg]
        dsimp only
        exact tail { it with position := some q, lastMove := it.move, move := zeroMove } rfl
    | error e =>
      cases e <;> rfl
  · rw [if_neg hmv, if_neg hmv]
    dsimp only
    exact tail it (by simpa using hmv)

/-- the scan loop against the list-level replay: either it stops at the next move op, and the replay of
the scanned ops is the replay from that move op with the marker the loop has reached; or there is no
further move and the replay is the single final frame -/
theorem scan_spec (basis : Array W) (ops : List Op) : ∀ jt : Iter,
    (∃ src m mods post mk', Iter.scan ops jt = ({ jt with rest := post, move := m, ptnMove := mk' }, true) ∧
        Op.move src m mods ∈ ops ∧ post.length < ops.length ∧ (∀ o ∈ post, o ∈ ops) ∧
        ∀ p, specFrames basis ops jt.ptnMove p = specFrames basis (.move src m mods :: post) mk' p) ∨
    (∃ mk', Iter.scan ops jt = ({ jt with rest := [], ptnMove := mk' }, false) ∧
        ∀ p, specFrames basis ops jt.ptnMove p = ([(mk', p)], false)) := by
  induction ops with
  | nil => intro jt; right; exact ⟨jt.ptnMove, rfl, fun p => rfl⟩
  | cons op ops ih =>
    intro jt
    cases op with
    | move src m mods =>
      left
      exact ⟨src, m, mods, ops, jt.ptnMove, rfl, by simp, by simp, fun o h => by simp [h], fun p => rfl⟩
    | moveNumber src n =>
      rcases ih { jt with ptnMove := n } with ⟨s, m, md, post, mk', h1, h2, h3, h4, h5⟩ | ⟨mk', h1, h2⟩
      · left
        refine ⟨s, m, md, post, mk', ?_, by simp [h2], by simp; omega, fun o h => by simp [h4 o h], fun p => ?_⟩
        · simp only [Iter.scan]; exact h1
        · simp only [specFrames]; exact h5 p
      · right
        refine ⟨mk', ?_, fun p => ?_⟩
        · simp only [Iter.scan]; exact h1
        · simp only [specFrames]; exact h2 p
    | comment src c =>
      rcases ih jt with ⟨s, m, md, post, mk', h1, h2, h3, h4, h5⟩ | ⟨mk', h1, h2⟩
      · left
        refine ⟨s, m, md, post, mk', ?_, by simp [h2], by simp; omega, fun o h => by simp [h4 o h], fun p => ?_⟩
        · simp only [Iter.scan]; exact h1
        · simp only [specFrames]; exact h5 p
      · right
        refine ⟨mk', ?_, fun p => ?_⟩
        · simp only [Iter.scan]; exact h1
        · simp only [specFrames]; exact h2 p
    | result src r =>
      rcases ih jt with ⟨s, m, md, post, mk', h1, h2, h3, h4, h5⟩ | ⟨mk', h1, h2⟩
      · left
        refine ⟨s, m, md, post, mk', ?_, by simp [h2], by simp; omega, fun o h => by simp [h4 o h], fun p => ?_⟩
        · simp only [Iter.scan]; exact h1
        · simp only [specFrames]; exact h5 p
      · right
        refine ⟨mk', ?_, fun p => ?_⟩
        · simp only [Iter.scan]; exact h1
        · simp only [specFrames]; exact h2 p

/-- once `over` is latched (and no error), the next call returns false and the trace ends -/
theorem collect_over (env : Env) (fuel : Nat) (kt : Iter) (hover : kt.over = true) (herr : kt.err = none) :
    collect env (fuel + 1) kt = .ok ([], false) := by
  unfold collect
  have : kt.next env = .ok (kt, false) := by
    unfold Iter.next
    rw [if_pos (by simp [hover])]
  rw [this]
  simp [herr]

theorem specFrames_move_irrel (basis : Array W) (s1 s2 md1 md2 : Bytes) (m : Move) (ops : List Op) (mk : Int) (p : Pos) :
    specFrames basis (.move s1 m md1 :: ops) mk p = specFrames basis (.move s2 m md2 :: ops) mk p := by
  simp only [specFrames]

section main
variable (env : Env) (hflood : ∀ p m s, Pos.apply env.basis p m ≠ .error (.hang s))

/-- from a state with a pending move `m` (its frame already shown): the rest of the trace is the rest of
the list-level replay from that move -/
def PendingSpec (n : Nat) : Prop :=
  ∀ (it : Iter) (p : Pos) (fuel : Nat), it.err = none → it.over = false → it.position = some p →
    it.move.type ≠ 0 → it.rest.length < n → NoZero it.rest → it.rest.length + 2 ≤ fuel →
    collect env fuel it =
      .ok ((specFrames env.basis (.move [] it.move [] :: it.rest) it.ptnMove p).1.tail,
           (specFrames env.basis (.move [] it.move [] :: it.rest) it.ptnMove p).2)

/-- from a state with no pending move: the frame shown by the scan part of `Next`, followed by the rest of
the trace, is the list-level replay of the remaining ops -/
def ScanSpec (n : Nat) : Prop :=
  ∀ (jt : Iter) (q : Pos) (fuel : Nat), jt.err = none → jt.over = false → jt.position = some q →
    jt.move.type = 0 → jt.rest.length ≤ n → NoZero jt.rest → jt.rest.length + 1 ≤ fuel →
    (match collect env fuel (scanFinish jt).1 with
      | .ok (fs, e) => (Except.ok (((scanFinish jt).1.ptnMove, q) :: fs, e) : R (List Frame × Bool))
      | .error e => .error e) = .ok (specFrames env.basis jt.rest jt.ptnMove q)

theorem scanSpec_of_pending (n : Nat) (hP : PendingSpec env n) : ScanSpec env n := by
  intro jt q fuel herr hover hpos hz hlen hnz hfuel
  unfold scanFinish
  rcases scan_spec env.basis jt.rest jt with ⟨s, m, md, post, mk', h1, h2, h3, h4, h5⟩ | ⟨mk', h1, h2⟩
  · rw [h1]
    dsimp only
    have hm : m.type ≠ 0 := hnz s m md h2
    have hnz' : NoZero post := fun s' m' md' hin => hnz s' m' md' (h4 _ hin)
    have := hP { jt with rest := post, move := m, ptnMove := mk' } q fuel herr hover hpos hm (by dsimp only; omega) hnz'
      (by dsimp only; omega)
    rw [this]
    dsimp only
    rw [h5 q, specFrames_move_irrel env.basis s [] md [] m post mk' q]
    -- the replay from a move op always starts with the frame before that move
    have hhead : ∀ (ops : List Op) (mk : Int) (p : Pos),
        (mk, p) :: (specFrames env.basis (.move [] m [] :: ops) mk p).1.tail = (specFrames env.basis (.move [] m [] :: ops) mk p).1 := by
      intro ops mk p
      simp only [specFrames]
      split
      · rfl
      · split <;> rfl
    rw [hhead]
  · rw [h1]
    dsimp only
    have : collect env fuel { jt with rest := [], ptnMove := mk', over := true } = .ok ([], false) := by
      obtain ⟨f, rfl⟩ : ∃ f, fuel = f + 1 := ⟨fuel - 1, by omega⟩
      exact collect_over env f _ rfl herr
    rw [this, h2 q]

include hflood in
theorem pending_of_scanSpec (n : Nat) (hS : ScanSpec env n) : PendingSpec env (n + 1) := by
  intro it p fuel herr hover hpos hm hlen hnz hfuel
  obtain ⟨f, rfl⟩ : ∃ f, fuel = f + 1 := ⟨fuel - 1, by omega⟩
  unfold collect
  rw [next_eq env it p herr hover hpos, if_pos (by simpa using hm)]
  simp only [specFrames]
  cases ha : p.apply env.basis it.move with
  | error e =>
    cases e with
    | illegal w => simp
    | panic s => exact absurd ha (apply_noPanic _ _ _ s)
    | hang s => exact absurd ha (hflood _ _ s)
  | ok q =>
    dsimp only
    by_cases hg : q.gameOver.1 = true
    · rw [if_pos hg, if_pos hg]
      dsimp only
      obtain ⟨f', rfl⟩ : ∃ f', f = f' + 1 := ⟨f - 1, by omega⟩
      rw [collect_over env f' { it with position := some q, lastMove := it.move, move := zeroMove, over := true } rfl herr]
      rfl
    · rw [if_neg hg, if_neg hg]
      have hsf := hS { it with position := some q, lastMove := it.move, move := zeroMove } q f herr hover rfl rfl
        (by dsimp only; omega) hnz (by dsimp only; omega)
      dsimp only at hsf ⊢
      -- `scanFinish` always answers `true` and keeps the position
      have hb : (scanFinish { it with position := some q, lastMove := it.move, move := zeroMove }).2 = true := by
        unfold scanFinish; split <;> rfl
      have hq : (scanFinish { it with position := some q, lastMove := it.move, move := zeroMove }).1.position = some q := by
        unfold scanFinish
        have := (scan_props it.rest { it with position := some q, lastMove := it.move, move := zeroMove }).2.1
        split
        · rename_i kt heq; rw [heq] at this; exact this
        · rename_i kt heq; rw [heq] at this; exact this
      generalize scanFinish { it with position := some q, lastMove := it.move, move := zeroMove } = r at hsf hb hq ⊢
      obtain ⟨kt, b⟩ := r
      dsimp only at hsf hb hq ⊢
      subst hb
      dsimp only
      rw [hq]
      dsimp only
      cases hc : collect env f kt with
      | error e => rw [hc] at hsf; cases hsf
      | ok r =>
        obtain ⟨fs, e⟩ := r
        rw [hc] at hsf
        dsimp only at hsf ⊢
        injection hsf with hsf
        rw [← hsf]
        rfl

include hflood in
theorem pendingSpec_all : ∀ n, PendingSpec env n := by
  intro n
  induction n with
  | zero => intro it p fuel _ _ _ _ h; omega
  | succ n ih => exact pending_of_scanSpec env hflood n (scanSpec_of_pending env n ih)

include hflood in
theorem scanSpec_all (n : Nat) : ScanSpec env n := scanSpec_of_pending env n (pendingSpec_all env hflood n)

end main

theorem scanFinish_true (jt : Iter) : (scanFinish jt).2 = true := by
  unfold scanFinish; split <;> rfl

theorem scanFinish_position (jt : Iter) : (scanFinish jt).1.position = jt.position := by
  unfold scanFinish
  have := (scan_props jt.rest jt).2.1
  split
  · rename_i kt heq; rw [heq] at this; exact this
  · rename_i kt heq; rw [heq] at this; exact this

/-- a `Next` that returns false leaves the position where it was -/
theorem next_false_position (env : Env) (it it' : Iter) (hinv : it.Inv) (h : it.next env = .ok (it', false)) :
    it'.position = it.position := by
  by_cases hlive : (it.err.isSome || it.over) = true
  · unfold Iter.next at h
    rw [if_pos hlive] at h
    injection h with h; injection h with h1 h2; rw [← h1]
  · have herr : it.err = none := by
      cases h' : it.err with
      | none => rfl
      | some e => simp [h'] at hlive
    have hover : it.over = false := by
      cases h' : it.over with
      | false => rfl
      | true => simp [h'] at hlive
    cases hp : it.position with
    | none => exact absurd hp (hinv.1 herr)
    | some p =>
      rw [next_eq env it p herr hover hp] at h
      split at h
      · split at h
        · split at h
          · injection h with h; injection h with _ h2; cases h2
          · injection h with h
            have hh := congrArg Prod.snd h
            rw [scanFinish_true] at hh; cases hh
        · injection h with h; injection h with h1 _; rw [← h1]; exact hp
        · cases h
      · injection h with h
        have hh := congrArg Prod.snd h
        rw [scanFinish_true] at hh; cases hh

/-- the frame a `PositionAtMove(move, color)` request is looking for -/
def matchFrame (move : Int) (color : Color) (fr : Frame) : Bool :=
  decide (move > 0) && move == fr.1 && fr.2.toMove == color

/-- what `PositionAtMove` answers, given what the iterator shows (`fs`, `e`) and the position `cur` the
cursor stands on if nothing is shown at all -/
def AtSpec (r : R Pos) (move : Int) (color : Color) (fs : List Frame) (e : Bool) (cur : Option Pos) : Prop :=
  match fs.find? (matchFrame move color) with
  | some fr => r = .ok fr.2
  | none =>
    if e then ∃ w, r = .error (.illegal w)
    else if move > 0 then ∃ w, r = .error (.illegal w)
    else ∃ p, (match fs.getLast? with | some fr => some fr.2 | none => cur) = some p ∧ r = .ok p

theorem loop_of_collect (env : Env) (move : Int) (color : Color) : ∀ fuel it fs e, it.Inv →
    collect env fuel it = .ok (fs, e) →
    AtSpec (positionAtMoveLoop env move color fuel it) move color fs e it.position := by
  intro fuel
  induction fuel with
  | zero => intro it fs e _ h; simp [collect] at h
  | succ n ih =>
    intro it fs e hinv hc
    unfold collect at hc
    unfold positionAtMoveLoop
    rcases next_cases env it hinv with ⟨a, ha, ainv, aerr, _⟩ | ⟨a, ha, ainv⟩ | ⟨s, _, _, hs, _⟩
    · rw [ha] at hc ⊢
      dsimp only at hc ⊢
      cases hp : a.position with
      | none => exact absurd hp (ainv.1 aerr)
      | some p =>
        rw [hp] at hc
        dsimp only at hc ⊢
        cases hc' : collect env n a with
        | error e' => rw [hc'] at hc; cases hc
        | ok r =>
          obtain ⟨fs', e'⟩ := r
          rw [hc'] at hc
          dsimp only at hc
          injection hc with hc; injection hc with hfs he
          subst hfs; subst he
          have hih := ih a fs' e' ainv hc'
          unfold AtSpec
          by_cases hmatch : (decide (move > 0) && move == a.ptnMove && p.toMove == color) = true
          · rw [if_pos hmatch]
            have : matchFrame move color (a.ptnMove, p) = true := hmatch
            simp only [List.find?_cons, this]
          · rw [if_neg hmatch]
            have : matchFrame move color (a.ptnMove, p) = false := by simpa [matchFrame] using hmatch
            simp only [List.find?_cons, this]
            unfold AtSpec at hih
            rw [hp] at hih
            cases hfind : fs'.find? (matchFrame move color) with
            | some fr => rw [hfind] at hih; exact hih
            | none =>
              rw [hfind] at hih
              dsimp only at hih ⊢
              by_cases he : e' = true
              · rw [if_pos he] at hih ⊢; exact hih
              · rw [if_neg he] at hih ⊢
                by_cases hmv : move > 0
                · rw [if_pos hmv] at hih ⊢; exact hih
                · rw [if_neg hmv] at hih ⊢
                  obtain ⟨p', hp', hr⟩ := hih
                  refine ⟨p', ?_, hr⟩
                  cases fs' with
                  | nil => simpa using hp'
                  | cons x xs =>
                    obtain ⟨y, hy⟩ : ∃ y, (x :: xs).getLast? = some y := by
                      cases h : (x :: xs).getLast? with
                      | none => simp at h
                      | some y => exact ⟨y, rfl⟩
                    rw [List.getLast?_cons_cons, hy]
                    rw [hy] at hp'
                    exact hp'
    · rw [ha] at hc ⊢
      dsimp only at hc ⊢
      injection hc with hc; injection hc with hfs he
      subst hfs; subst he
      have hpos := next_false_position env it a hinv ha
      unfold AtSpec
      simp only [List.find?_nil, List.getLast?_nil]
      cases hae : a.err with
      | some e' =>
        obtain ⟨w, hw⟩ := ainv.2 _ hae
        simp only [Option.isSome_some, if_true]
        exact ⟨w, by rw [hw]⟩
      | none =>
        simp only [Option.isSome_none, Bool.false_eq_true, if_false]
        by_cases hmv : move > 0
        · rw [if_pos hmv, if_pos hmv]; exact ⟨_, rfl⟩
        · rw [if_neg hmv, if_neg hmv]
          cases hp : a.position with
          | none => exact absurd hp (ainv.1 hae)
          | some p => exact ⟨p, by rw [← hpos, hp], rfl⟩
    · rw [hs] at hc; cases hc

/-! ### what the list-level replay means -/

/-- the recorded moves, in order -/
def movesOf : List Op → List Move
  | [] => []
  | .move _ m _ :: ops => m :: movesOf ops
  | _ :: ops => movesOf ops

/-- apply moves one after the other -/
def applyAll (basis : Array W) : Pos → List Move → R Pos
  | p, [] => .ok p
  | p, m :: ms =>
    match p.apply basis m with
    | .ok q => applyAll basis q ms
    | .error e => .error e

/-- replay of a bare move list: the positions passed through; stop after a move that ends the game;
stop with the error flag at a move that cannot be applied -/
def runMoves (basis : Array W) : Pos → List Move → List Pos × Bool
  | p, [] => ([p], false)
  | p, m :: ms =>
    match p.apply basis m with
    | .error _ => ([p], true)
    | .ok q =>
      if q.gameOver.1 then ([p, q], false)
      else (p :: (runMoves basis q ms).1, (runMoves basis q ms).2)

/-- the marker in force at the `j`-th (0-based) move op: the number of the last move-number op before it
(`mk` if there is none); beyond the last move op: the last move-number of the whole record -/
def markerAt : List Op → Int → Nat → Int
  | [], mk, _ => mk
  | .moveNumber _ n :: ops, _, j => markerAt ops n j
  | .move _ _ _ :: _, mk, 0 => mk
  | .move _ _ _ :: ops, mk, j+1 => markerAt ops mk j
  | .comment _ _ :: ops, mk, j => markerAt ops mk j
  | .result _ _ :: ops, mk, j => markerAt ops mk j

/-- positions and error flag of the replay depend on the move list alone -/
theorem specFrames_positions (basis : Array W) (ops : List Op) : ∀ (mk : Int) (p : Pos),
    (specFrames basis ops mk p).1.map (·.2) = (runMoves basis p (movesOf ops)).1 ∧
    (specFrames basis ops mk p).2 = (runMoves basis p (movesOf ops)).2 := by
  induction ops with
  | nil => intro mk p; exact ⟨rfl, rfl⟩
  | cons op ops ih =>
    intro mk p
    cases op with
    | moveNumber s n => simp only [specFrames, movesOf]; exact ih n p
    | comment s c => simp only [specFrames, movesOf]; exact ih mk p
    | result s r => simp only [specFrames, movesOf]; exact ih mk p
    | move s m md =>
      simp only [specFrames, movesOf, runMoves]
      cases p.apply basis m with
      | error e => exact ⟨rfl, rfl⟩
      | ok q =>
        dsimp only
        by_cases hg : q.gameOver.1 = true
        · rw [if_pos hg, if_pos hg]; exact ⟨rfl, rfl⟩
        · rw [if_neg hg, if_neg hg]
          obtain ⟨h1, h2⟩ := ih mk q
          exact ⟨by simp only [List.map_cons, h1], h2⟩

/-- the `j`-th position of the replay is the start position with exactly the first `j` moves applied -/
theorem runMoves_get (basis : Array W) (ms : List Move) : ∀ (p : Pos) (j : Nat) (q : Pos),
    (runMoves basis p ms).1[j]? = some q → applyAll basis p (ms.take j) = .ok q := by
  induction ms with
  | nil =>
    intro p j q h
    cases j with
    | zero => simp only [runMoves, List.getElem?_cons_zero, Option.some.injEq] at h; subst h; rfl
    | succ j => simp [runMoves] at h
  | cons m ms ih =>
    intro p j q h
    cases j with
    | zero =>
      have : (runMoves basis p (m :: ms)).1[0]? = some p := by
        simp only [runMoves]
        split
        · rfl
        · split <;> rfl
      rw [this] at h
      injection h with h; subst h; rfl
    | succ j =>
      simp only [runMoves] at h
      simp only [List.take_succ_cons, applyAll]
      cases ha : p.apply basis m with
      | error e => rw [ha] at h; simp at h
      | ok r =>
        rw [ha] at h
        dsimp only at h ⊢
        by_cases hg : r.gameOver.1 = true
        · rw [if_pos hg] at h
          cases j with
          | zero => simp only [List.getElem?_cons_succ, List.getElem?_cons_zero, Option.some.injEq] at h; subst h; simp [applyAll]
          | succ j => simp at h
        · rw [if_neg hg] at h
          simp only [List.getElem?_cons_succ] at h
          exact ih r j q h

/-- replay stops when the game ends: a position after the first that is a finished game is the last one,
and the replay does not end in an error -/
theorem runMoves_stops (basis : Array W) (ms : List Move) : ∀ (p : Pos) (j : Nat) (q : Pos),
    (runMoves basis p ms).1[j + 1]? = some q → q.gameOver.1 = true →
    (runMoves basis p ms).1.length = j + 2 ∧ (runMoves basis p ms).2 = false := by
  induction ms with
  | nil => intro p j q h; simp [runMoves] at h
  | cons m ms ih =>
    intro p j q h hq
    simp only [runMoves] at h ⊢
    cases ha : p.apply basis m with
    | error e => rw [ha] at h; simp at h
    | ok r =>
      rw [ha] at h
      dsimp only at h ⊢
      by_cases hg : r.gameOver.1 = true
      · rw [if_pos hg] at h ⊢
        cases j with
        | zero => exact ⟨rfl, rfl⟩
        | succ j => simp at h
      · rw [if_neg hg] at h ⊢
        simp only [List.getElem?_cons_succ] at h
        cases j with
        | zero =>
          -- the position after the first move is `r`, which is not a finished game
          exfalso
          have : (runMoves basis r ms).1[0]? = some r := by
            cases ms with
            | nil => rfl
            | cons m' ms' =>
              simp only [runMoves]
              split
              · rfl
              · split <;> rfl
          rw [this] at h; injection h with h; subst h; exact hg hq
        | succ j =>
          obtain ⟨h1, h2⟩ := ih r j q h hq
          exact ⟨by simp only [List.length_cons, h1], h2⟩

theorem runMoves_ne_nil (basis : Array W) (ms : List Move) (p : Pos) : (runMoves basis p ms).1 ≠ [] := by
  cases ms with
  | nil => simp [runMoves]
  | cons m ms =>
    simp only [runMoves]
    split
    · simp
    · split <;> simp

/-- an illegal move is reported: when the replay ends with the error flag, the move that follows the last
position shown cannot be applied to it -/
theorem runMoves_error (basis : Array W) (ms : List Move) : ∀ (p : Pos),
    (runMoves basis p ms).2 = true →
      ∃ q m e, (runMoves basis p ms).1.getLast? = some q ∧ ms[(runMoves basis p ms).1.length - 1]? = some m ∧
        q.apply basis m = .error e := by
  induction ms with
  | nil => intro p h; simp [runMoves] at h
  | cons m ms ih =>
    intro p h
    simp only [runMoves] at h ⊢
    cases ha : p.apply basis m with
    | error e => exact ⟨p, m, e, rfl, rfl, ha⟩
    | ok r =>
      rw [ha] at h
      dsimp only at h ⊢
      by_cases hg : r.gameOver.1 = true
      · rw [if_pos hg] at h; cases h
      · rw [if_neg hg] at h ⊢
        obtain ⟨q, m', e, h1, h2, h3⟩ := ih r h
        have hne := runMoves_ne_nil basis ms r
        refine ⟨q, m', e, ?_, ?_, h3⟩
        · rw [List.getLast?_cons_of_ne_nil hne]; exact h1
        · have hl : 0 < (runMoves basis r ms).1.length := List.length_pos_iff.mpr hne
          simp only [List.length_cons]
          have : (runMoves basis r ms).1.length + 1 - 1 = ((runMoves basis r ms).1.length - 1) + 1 := by omega
          rw [this, List.getElem?_cons_succ]; exact h2

/-- a replay without error either applied every recorded move, or stopped at a finished game -/
theorem runMoves_complete (basis : Array W) (ms : List Move) : ∀ (p : Pos),
    (runMoves basis p ms).2 = false →
      (runMoves basis p ms).1.length = ms.length + 1 ∨
      ∃ j q, (runMoves basis p ms).1[j + 1]? = some q ∧ q.gameOver.1 = true ∧ (runMoves basis p ms).1.length = j + 2 := by
  induction ms with
  | nil => intro p _; left; rfl
  | cons m ms ih =>
    intro p h
    simp only [runMoves] at h ⊢
    cases ha : p.apply basis m with
    | error e => rw [ha] at h; cases h
    | ok r =>
      rw [ha] at h
      dsimp only at h ⊢
      by_cases hg : r.gameOver.1 = true
      · rw [if_pos hg]
        right; exact ⟨0, r, rfl, hg, rfl⟩
      · rw [if_neg hg] at h ⊢
        rcases ih r h with h1 | ⟨j, q, h1, h2, h3⟩
        · left; simp only [List.length_cons, h1]
        · right; exact ⟨j + 1, q, by simpa using h1, h2, by simp only [List.length_cons, h3]⟩

/-- the marker shown with the `j`-th frame is the marker in force at the `j`-th move op (the last number
seen when the record has no further move); the one exception is the frame of a position that ended the
game, which keeps the marker of the move that led to it (`Next` does not look ahead once the game is over) -/
theorem specFrames_marker (basis : Array W) (ops : List Op) : ∀ (mk : Int) (p : Pos) (j : Nat) (fr : Frame),
    (specFrames basis ops mk p).1[j]? = some fr →
    fr.1 = markerAt ops mk j ∨ ∃ j', j = j' + 1 ∧ fr.2.gameOver.1 = true ∧ fr.1 = markerAt ops mk j' := by
  induction ops with
  | nil =>
    intro mk p j fr h
    cases j with
    | zero => simp only [specFrames, List.getElem?_cons_zero, Option.some.injEq] at h; subst h; left; rfl
    | succ j => simp [specFrames] at h
  | cons op ops ih =>
    intro mk p j fr h
    cases op with
    | moveNumber s n => simp only [specFrames] at h; simpa only [markerAt] using ih n p j fr h
    | comment s c => simp only [specFrames] at h; simpa only [markerAt] using ih mk p j fr h
    | result s r => simp only [specFrames] at h; simpa only [markerAt] using ih mk p j fr h
    | move s m md =>
      simp only [specFrames] at h
      cases ha : p.apply basis m with
      | error e =>
        rw [ha] at h
        cases j with
        | zero => simp only [List.getElem?_cons_zero, Option.some.injEq] at h; subst h; left; rfl
        | succ j => simp at h
      | ok q =>
        rw [ha] at h
        dsimp only at h
        by_cases hg : q.gameOver.1 = true
        · rw [if_pos hg] at h
          cases j with
          | zero => simp only [List.getElem?_cons_zero, Option.some.injEq] at h; subst h; left; rfl
          | succ j =>
            cases j with
            | zero =>
              simp only [List.getElem?_cons_succ, List.getElem?_cons_zero, Option.some.injEq] at h
              subst h; right; exact ⟨0, rfl, hg, rfl⟩
            | succ j => simp at h
        · rw [if_neg hg] at h
          cases j with
          | zero => simp only [List.getElem?_cons_zero, Option.some.injEq] at h; subst h; left; rfl
          | succ j =>
            simp only [List.getElem?_cons_succ] at h
            rcases ih mk q j fr h with h1 | ⟨j', h1, h2, h3⟩
            · left; simpa only [markerAt] using h1
            · right; exact ⟨j' + 1, by omega, h2, by simpa only [markerAt] using h3⟩

/-- from a state with no pending move, the whole trace is the list-level replay -/
theorem collect_idle (env : Env) (hflood : ∀ p m s, Pos.apply env.basis p m ≠ .error (.hang s))
    (jt : Iter) (q : Pos) (fuel : Nat) (herr : jt.err = none) (hover : jt.over = false)
    (hpos : jt.position = some q) (hz : jt.move.type = 0) (hnz : NoZero jt.rest) (hfuel : jt.rest.length + 2 ≤ fuel) :
    collect env fuel jt = .ok (specFrames env.basis jt.rest jt.ptnMove q) := by
  obtain ⟨f, rfl⟩ : ∃ f, fuel = f + 1 := ⟨fuel - 1, by omega⟩
  have hS := scanSpec_all env hflood jt.rest.length jt q f herr hover hpos hz (Nat.le_refl _) hnz (by omega)
  unfold collect
  rw [next_eq env jt q herr hover hpos, if_neg (by simp [hz])]
  have hb := scanFinish_true jt
  have hq := scanFinish_position jt
  rw [hpos] at hq
  generalize scanFinish jt = r at hS hb hq ⊢
  obtain ⟨kt, b⟩ := r
  dsimp only at hS hb hq ⊢
  subst hb
  dsimp only
  rw [hq]
  dsimp only
  cases hc : collect env f kt with
  | error e => rw [hc] at hS; cases hS
  | ok r => rw [hc] at hS; exact hS

/-! ### files that come out of `ParsePTN` have no zero-type move -/

theorem classifyTok_noZero (env : Env) (hpm : ∀ b m, env.parseMove b = .ok m → m.type ≠ 0)
    (tok : Bytes) (op : Op) (h : classifyTok env tok = .ok op) :
    ∀ src m mods, op = .move src m mods → m.type ≠ 0 := by
  intro src m mods hop
  subst hop
  unfold classifyTok at h
  split at h
  · cases h
  · split at h
    · split at h <;> cases h
    · split at h
      · split at h <;> cases h
      · split at h
        · cases h
        · dsimp only at h
          split at h
          · rename_i m' hp
            injection h with h
            injection h with _ hm _
            subst hm
            exact hpm _ _ hp
          · cases h
          · cases h

theorem readMoves_noZero (env : Env) (hpm : ∀ b m, env.parseMove b = .ok m → m.type ≠ 0) :
    ∀ fuel rest ops, readMoves env fuel rest = .ok ops → NoZero ops := by
  intro fuel
  induction fuel with
  | zero => intro rest ops h; cases h
  | succ n ih =>
    intro rest ops h
    unfold readMoves at h
    split at h
    · cases h; intro s m md hm; cases hm
    · cases h
    · exact ih _ _ h
    · split at h
      · cases h
      · rename_i op hcl
        split at h
        · cases h
        · rename_i ops' hrec
          cases h
          intro s m md hm
          simp only [List.mem_cons] at hm
          rcases hm with hm | hm
          · exact classifyTok_noZero env hpm _ _ hcl s m md hm.symm
          · exact ih _ _ hrec s m md hm

/-- every file `ParsePTN` returns satisfies `NoZero`, provided `ParseMove` never returns move type 0 -/
theorem parsePTN_noZero (env : Env) (hpm : ∀ b m, env.parseMove b = .ok m → m.type ≠ 0)
    (input : Bytes) (f : File) (h : parsePTN env input = .ok f) : NoZero f.ops := by
  unfold parsePTN at h
  split at h
  · cases h
  · dsimp only at h
    split at h
    · cases h
    · split at h
      · cases h
      · rename_i ops hrm
        cases h
        exact readMoves_noZero env hpm _ _ _ hrm
