import TakVerif.Impl.PTN
import TakVerif.Proofs.PTNTotal

/-! The iterator state machine against a one-pass, list-level replay of the ops. -/
namespace PTN
open Tak

/-- one thing the iterator shows: the marker in force and the position -/
abbrev Frame := Int × Pos

/-- List-level replay of a record from position `p` with marker `mk` in force.  Walk the ops once:
a move-number op changes the marker; a move op is shown as the frame (marker, position before it) and is
then applied — if it is illegal the replay ends in an error, if it ends the game the final position is
shown (same marker) and the replay ends, whatever follows in the record; at the end of the record the
final position is shown.  Comments and results do nothing.  Result: the frames and "ended in an error". -/
def specFrames (basis : Array W) : List Op → Int → Pos → List Frame × Bool
  | [], mk, p => ([(mk, p)], false)
  | .moveNumber _ n :: ops, _, p => specFrames basis ops n p
  | .move _ m _ :: ops, mk, p =>
    match p.apply basis m with
    | .error _ => ([(mk, p)], true)
    | .ok q =>
      if q.gameOver.1 then ([(mk, p), (mk, q)], false)
      else ((mk, p) :: (specFrames basis ops mk q).1, (specFrames basis ops mk q).2)
  | .comment _ _ :: ops, mk, p => specFrames basis ops mk p
  | .result _ _ :: ops, mk, p => specFrames basis ops mk p

/-- what the iterator shows: call `Next` until it returns false; one frame per successful call -/
def collect (env : Env) : Nat → Iter → R (List Frame × Bool)
  | 0, _ => .error (.hang "collect")
  | fuel+1, it =>
    match it.next env with
    | .error e => .error e
    | .ok (it', true) =>
      match it'.position with
      | none => .error (.panic "nil position")
      | some p =>
        match collect env fuel it' with
        | .error e => .error e
        | .ok (fs, e) => .ok ((it'.ptnMove, p) :: fs, e)
    | .ok (it', false) => .ok ([], it'.err.isSome)

/-- no `Move` op of the record carries the zero move type (true of everything `ParsePTN` produces) -/
def NoZero (ops : List Op) : Prop := ∀ src m mods, Op.move src m mods ∈ ops → m.type ≠ 0

/-- the scan loop of `Next` followed by the end-of-record latch, from a state with no pending move -/
def scanFinish (jt : Iter) : Iter × Bool :=
  match Iter.scan jt.rest jt with
  | (kt, true) => (kt, true)
  | (kt, false) => ({ kt with over := true }, true)

theorem scan_move_zero (ops : List Op) : ∀ it : Iter,
    (Iter.scan ops it).2 = false → (Iter.scan ops it).1.move = it.move := by
  intro it h
  exact ((scan_props ops it).2.2.2.2 h).2

/-- `Next` from a live state (no error, not over, position `p`), in closed form -/
theorem next_eq (env : Env) (it : Iter) (p : Pos) (herr : it.err = none) (hover : it.over = false)
    (hpos : it.position = some p) :
    it.next env =
      if it.move.type != 0 then
        match p.apply env.basis it.move with
        | .ok q =>
          if q.gameOver.1 then
            .ok ({ it with position := some q, lastMove := it.move, move := zeroMove, over := true }, true)
          else .ok (scanFinish { it with position := some q, lastMove := it.move, move := zeroMove })
        | .error (.illegal w) => .ok ({ it with err := some (.illegal w) }, false)
        | .error e => .error e
      else .ok (scanFinish it) := by
  have hgo : (it.err.isSome || it.over) = false := by simp [herr, hover]
  unfold Iter.next
  rw [if_neg (by simp [hgo])]
  -- the tail of `Next` from a state whose pending move is the zero move
  have tail : ∀ jt : Iter, jt.move.type = 0 →
      (match Iter.scan jt.rest jt with
        | (it, true) => (Except.ok (it, true) : R (Iter × Bool))
        | (it, false) =>
          let it := { it with over := true }
          if it.move.type != 0 then it.apply env else .ok (it, true)) = .ok (scanFinish jt) := by
    intro jt hz
    unfold scanFinish
    have hm := scan_move_zero jt.rest jt
    cases hsc : Iter.scan jt.rest jt with
    | mk kt found =>
      rw [hsc] at hm
      cases found with
      | true => rfl
      | false =>
        dsimp only
        have : kt.move.type = 0 := by rw [hm rfl]; exact hz
        rw [if_neg (by simp [this])]
  by_cases hmv : (it.move.type != 0) = true
  · rw [if_pos hmv, if_pos hmv]
    unfold Iter.apply
    rw [hpos]
    dsimp only
    cases ha : p.apply env.basis it.move with
    | ok q =>
      dsimp only
      by_cases hg : q.gameOver.1 = true
      · rw [if_pos hg, if_pos hg]
      · rw [if_neg hg, if_neg hg]
        dsimp only
        exact tail { it with position := some q, lastMove := it.move, move := zeroMove } rfl
    | error e =>
      cases e <;> rfl
  · rw [if_neg hmv, if_neg hmv]
    dsimp only
    exact tail it (by simpa using hmv)

/-- the scan loop against the list-level replay: either it stops at the next move op, and the replay of
the scanned ops is the replay from that move op with the marker the loop has reached; or there is no
further move and the replay is the single final frame -/
theorem scan_spec (basis : Array W) (ops : List Op) : ∀ jt : Iter,
    (∃ src m mods post mk', Iter.scan ops jt = ({ jt with rest := post, move := m, ptnMove := mk' }, true) ∧
        Op.move src m mods ∈ ops ∧ post.length < ops.length ∧ (∀ o ∈ post, o ∈ ops) ∧
        ∀ p, specFrames basis ops jt.ptnMove p = specFrames basis (.move src m mods :: post) mk' p) ∨
    (∃ mk', Iter.scan ops jt = ({ jt with rest := [], ptnMove := mk' }, false) ∧
        ∀ p, specFrames basis ops jt.ptnMove p = ([(mk', p)], false)) := by
  induction ops with
  | nil => intro jt; right; exact ⟨jt.ptnMove, rfl, fun p => rfl⟩
  | cons op ops ih =>
    intro jt
    cases op with
    | move src m mods =>
      left
      exact ⟨src, m, mods, ops, jt.ptnMove, rfl, by simp, by simp, fun o h => by simp [h], fun p => rfl⟩
    | moveNumber src n =>
      rcases ih { jt with ptnMove := n } with ⟨s, m, md, post, mk', h1, h2, h3, h4, h5⟩ | ⟨mk', h1, h2⟩
      · left
        refine ⟨s, m, md, post, mk', ?_, by simp [h2], by simp; omega, fun o h => by simp [h4 o h], fun p => ?_⟩
        · simp only [Iter.scan]; exact h1
        · simp only [specFrames]; exact h5 p
      · right
        refine ⟨mk', ?_, fun p => ?_⟩
        · simp only [Iter.scan]; exact h1
        · simp only [specFrames]; exact h2 p
    | comment src c =>
      rcases ih jt with ⟨s, m, md, post, mk', h1, h2, h3, h4, h5⟩ | ⟨mk', h1, h2⟩
      · left
        refine ⟨s, m, md, post, mk', ?_, by simp [h2], by simp; omega, fun o h => by simp [h4 o h], fun p => ?_⟩
        · simp only [Iter.scan]; exact h1
        · simp only [specFrames]; exact h5 p
      · right
        refine ⟨mk', ?_, fun p => ?_⟩
        · simp only [Iter.scan]; exact h1
        · simp only [specFrames]; exact h2 p
    | result src r =>
      rcases ih jt with ⟨s, m, md, post, mk', h1, h2, h3, h4, h5⟩ | ⟨mk', h1, h2⟩
      · left
        refine ⟨s, m, md, post, mk', ?_, by simp [h2], by simp; omega, fun o h => by simp [h4 o h], fun p => ?_⟩
        · simp only [Iter.scan]; exact h1
        · simp only [specFrames]; exact h5 p
      · right
        refine ⟨mk', ?_, fun p => ?_⟩
        · simp only [Iter.scan]; exact h1
        · simp only [specFrames]; exact h2 p

/-- once `over` is latched (and no error), the next call returns false and the trace ends -/
theorem collect_over (env : Env) (fuel : Nat) (kt : Iter) (hover : kt.over = true) (herr : kt.err = none) :
    collect env (fuel + 1) kt = .ok ([], false) := by
  unfold collect
  have : kt.next env = .ok (kt, false) := by
    unfold Iter.next
    rw [if_pos (by simp [hover])]
  rw [this]
  simp [herr]

theorem specFrames_move_irrel (basis : Array W) (s1 s2 md1 md2 : Bytes) (m : Move) (ops : List Op) (mk : Int) (p : Pos) :
    specFrames basis (.move s1 m md1 :: ops) mk p = specFrames basis (.move s2 m md2 :: ops) mk p := by
  simp only [specFrames]

section main
variable (env : Env) (hflood : ∀ p m s, Pos.apply env.basis p m ≠ .error (.hang s))

/-- from a state with a pending move `m` (its frame already shown): the rest of the trace is the rest of
the list-level replay from that move -/
def PendingSpec (n : Nat) : Prop :=
  ∀ (it : Iter) (p : Pos) (fuel : Nat), it.err = none → it.over = false → it.position = some p →
    it.move.type ≠ 0 → it.rest.length < n → NoZero it.rest → it.rest.length + 2 ≤ fuel →
    collect env fuel it =
      .ok ((specFrames env.basis (.move [] it.move [] :: it.rest) it.ptnMove p).1.tail,
           (specFrames env.basis (.move [] it.move [] :: it.rest) it.ptnMove p).2)

/-- from a state with no pending move: the frame shown by the scan part of `Next`, followed by the rest of
the trace, is the list-level replay of the remaining ops -/
def ScanSpec (n : Nat) : Prop :=
  ∀ (jt : Iter) (q : Pos) (fuel : Nat), jt.err = none → jt.over = false → jt.position = some q →
    jt.move.type = 0 → jt.rest.length ≤ n → NoZero jt.rest → jt.rest.length + 1 ≤ fuel →
    (match collect env fuel (scanFinish jt).1 with
      | .ok (fs, e) => (Except.ok (((scanFinish jt).1.ptnMove, q) :: fs, e) : R (List Frame × Bool))
      | .error e => .error e) = .ok (specFrames env.basis jt.rest jt.ptnMove q)

theorem scanSpec_of_pending (n : Nat) (hP : PendingSpec env n) : ScanSpec env n := by
  intro jt q fuel herr hover hpos hz hlen hnz hfuel
  unfold scanFinish
  rcases scan_spec env.basis jt.rest jt with ⟨s, m, md, post, mk', h1, h2, h3, h4, h5⟩ | ⟨mk', h1, h2⟩
  · rw [h1]
    dsimp only
    have hm : m.type ≠ 0 := hnz s m md h2
    have hnz' : NoZero post := fun s' m' md' hin => hnz s' m' md' (h4 _ hin)
    have := hP { jt with rest := post, move := m, ptnMove := mk' } q fuel herr hover hpos hm (by dsimp only; omega) hnz'
      (by dsimp only; omega)
    rw [this]
    dsimp only
    rw [h5 q, specFrames_move_irrel env.basis s [] md [] m post mk' q]
    -- the replay from a move op always starts with the frame before that move
    have hhead : ∀ (ops : List Op) (mk : Int) (p : Pos),
        (mk, p) :: (specFrames env.basis (.move [] m [] :: ops) mk p).1.tail = (specFrames env.basis (.move [] m [] :: ops) mk p).1 := by
      intro ops mk p
      simp only [specFrames]
      split
      · rfl
      · split <;> rfl
    rw [hhead]
  · rw [h1]
    dsimp only
    have : collect env fuel { jt with rest := [], ptnMove := mk', over := true } = .ok ([], false) := by
      obtain ⟨f, rfl⟩ : ∃ f, fuel = f + 1 := ⟨fuel - 1, by omega⟩
      exact collect_over env f _ rfl herr
    rw [this, h2 q]

include hflood in
theorem pending_of_scanSpec (n : Nat) (hS : ScanSpec env n) : PendingSpec env (n + 1) := by
  intro it p fuel herr hover hpos hm hlen hnz hfuel
  obtain ⟨f, rfl⟩ : ∃ f, fuel = f + 1 := ⟨fuel - 1, by omega⟩
  unfold collect
  rw [next_eq env it p herr hover hpos, if_pos (by simpa using hm)]
  simp only [specFrames]
  cases ha : p.apply env.basis it.move with
  | error e =>
    cases e with
    | illegal w => simp
    | panic s => exact absurd ha (apply_noPanic _ _ _ s)
    | hang s => exact absurd ha (hflood _ _ s)
  | ok q =>
    dsimp only
    by_cases hg : q.gameOver.1 = true
    · rw [if_pos hg, if_pos hg]
      dsimp only
      obtain ⟨f', rfl⟩ : ∃ f', f = f' + 1 := ⟨f - 1, by omega⟩
      rw [collect_over env f' { it with position := some q, lastMove := it.move, move := zeroMove, over := true } rfl herr]
      rfl
    · rw [if_neg hg, if_neg hg]
      have hsf := hS { it with position := some q, lastMove := it.move, move := zeroMove } q f herr hover rfl rfl
        (by dsimp only; omega) hnz (by dsimp only; omega)
      dsimp only at hsf ⊢
      -- `scanFinish` always answers `true` and keeps the position
      have hb : (scanFinish { it with position := some q, lastMove := it.move, move := zeroMove }).2 = true := by
        unfold scanFinish; split <;> rfl
      have hq : (scanFinish { it with position := some q, lastMove := it.move, move := zeroMove }).1.position = some q := by
        unfold scanFinish
        have := (scan_props it.rest { it with position := some q, lastMove := it.move, move := zeroMove }).2.1
        split
        · rename_i kt heq; rw [heq] at this; exact this
        · rename_i kt heq; rw [heq] at this; exact this
      generalize scanFinish { it with position := some q, lastMove := it.move, move := zeroMove } = r at hsf hb hq ⊢
      obtain ⟨kt, b⟩ := r
      dsimp only at hsf hb hq ⊢
      subst hb
      dsimp only
      rw [hq]
      dsimp only
      cases hc : collect env f kt with
      | error e => rw [hc] at hsf; cases hsf
      | ok r =>
        obtain ⟨fs, e⟩ := r
        rw [hc] at hsf
        dsimp only at hsf ⊢
        injection hsf with hsf
        rw [← hsf]
        rfl

include hflood in
theorem pendingSpec_all : ∀ n, PendingSpec env n := by
  intro n
  induction n with
  | zero => intro it p fuel _ _ _ _ h; omega
  | succ n ih => exact pending_of_scanSpec env hflood n (scanSpec_of_pending env n ih)

include hflood in
theorem scanSpec_all (n : Nat) : ScanSpec env n := scanSpec_of_pending env n (pendingSpec_all env hflood n)

end main

theorem scanFinish_true (jt : Iter) : (scanFinish jt).2 = true := by
  unfold scanFinish; split <;> rfl

theorem scanFinish_position (jt : Iter) : (scanFinish jt).1.position = jt.position := by
  unfold scanFinish
  have := (scan_props jt.rest jt).2.1
  split
  · rename_i kt heq; rw [heq] at this; exact this
  · rename_i kt heq; rw [heq] at this; exact this

/-- a `Next` that returns false leaves the position where it was -/
theorem next_false_position (env : Env) (it it' : Iter) (hinv : it.Inv) (h : it.next env = .ok (it', false)) :
    it'.position = it.position := by
  by_cases hlive : (it.err.isSome || it.over) = true
  · unfold Iter.next at h
    rw [if_pos hlive] at h
    injection h with h; injection h with h1 h2; rw [← h1]
  · have herr : it.err = none := by
      cases h' : it.err with
      | none => rfl
      | some e => simp [h'] at hlive
    have hover : it.over = false := by
      cases h' : it.over with
      | false => rfl
      | true => simp [h'] at hlive
    cases hp : it.position with
    | none => exact absurd hp (hinv.1 herr)
    | some p =>
      rw [next_eq env it p herr hover hp] at h
      split at h
      · split at h
        · split at h
          · injection h with h; injection h with _ h2; cases h2
          · injection h with h
            have := scanFinish_true { it with position := some _, lastMove := it.move, move := zeroMove }
            rw [h] at this; cases this
        · injection h with h; injection h with h1 _; rw [← h1]; exact hp
        · cases h
      · injection h with h
        have := scanFinish_true it
        rw [h] at this; cases this

/-- the frame a `PositionAtMove(move, color)` request is looking for -/
def matchFrame (move : Int) (color : Color) (fr : Frame) : Bool :=
  decide (move > 0) && move == fr.1 && fr.2.toMove == color

/-- what `PositionAtMove` answers, given what the iterator shows (`fs`, `e`) and the position `cur` the
cursor stands on if nothing is shown at all -/
def AtSpec (r : R Pos) (move : Int) (color : Color) (fs : List Frame) (e : Bool) (cur : Option Pos) : Prop :=
  match fs.find? (matchFrame move color) with
  | some fr => r = .ok fr.2
  | none =>
    if e then ∃ w, r = .error (.illegal w)
    else if move > 0 then ∃ w, r = .error (.illegal w)
    else ∃ p, (match fs.getLast? with | some fr => some fr.2 | none => cur) = some p ∧ r = .ok p

theorem loop_of_collect (env : Env) (move : Int) (color : Color) : ∀ fuel it fs e, it.Inv →
    collect env fuel it = .ok (fs, e) →
    AtSpec (positionAtMoveLoop env move color fuel it) move color fs e it.position := by
  intro fuel
  induction fuel with
  | zero => intro it fs e _ h; simp [collect] at h
  | succ n ih =>
    intro it fs e hinv hc
    unfold collect at hc
    unfold positionAtMoveLoop
    rcases next_cases env it hinv with ⟨a, ha, ainv, aerr, _⟩ | ⟨a, ha, ainv⟩ | ⟨s, _, _, hs, _⟩
    · rw [ha] at hc ⊢
      dsimp only at hc ⊢
      cases hp : a.position with
      | none => exact absurd hp (ainv.1 aerr)
      | some p =>
        rw [hp] at hc ⊢
        dsimp only at hc ⊢
        cases hc' : collect env n a with
        | error e' => rw [hc'] at hc; cases hc
        | ok r =>
          obtain ⟨fs', e'⟩ := r
          rw [hc'] at hc
          dsimp only at hc
          injection hc with hc; injection hc with hfs he
          subst hfs; subst he
          have hih := ih a fs' e' ainv hc'
          unfold AtSpec
          by_cases hmatch : (decide (move > 0) && move == a.ptnMove && p.toMove == color) = true
          · rw [if_pos hmatch]
            have : matchFrame move color (a.ptnMove, p) = true := hmatch
            simp only [List.find?_cons, this]
          · rw [if_neg hmatch]
            have : matchFrame move color (a.ptnMove, p) = false := by simpa [matchFrame] using hmatch
            simp only [List.find?_cons, this]
            unfold AtSpec at hih
            rw [hp] at hih
            cases hfind : fs'.find? (matchFrame move color) with
            | some fr => rw [hfind] at hih; exact hih
            | none =>
              rw [hfind] at hih
              dsimp only at hih ⊢
              by_cases he : e' = true
              · rw [if_pos he] at hih ⊢; exact hih
              · rw [if_neg he] at hih ⊢
                by_cases hmv : move > 0
                · rw [if_pos hmv] at hih ⊢; exact hih
                · rw [if_neg hmv] at hih ⊢
                  obtain ⟨p', hp', hr⟩ := hih
                  refine ⟨p', ?_, hr⟩
                  cases fs' with
                  | nil => simpa using hp'
                  | cons x xs => simpa [List.getLast?_cons_cons] using hp'
    · rw [ha] at hc ⊢
      dsimp only at hc ⊢
      injection hc with hc; injection hc with hfs he
      subst hfs; subst he
      have hpos := next_false_position env it a hinv ha
      unfold AtSpec
      simp only [List.find?_nil, List.getLast?_nil]
      cases hae : a.err with
      | some e' =>
        obtain ⟨w, hw⟩ := ainv.2 _ hae
        simp only [Option.isSome_some, if_true]
        exact ⟨w, by rw [hw]⟩
      | none =>
        simp only [Option.isSome_none, Bool.false_eq_true, if_false]
        by_cases hmv : move > 0
        · rw [if_pos hmv, if_pos hmv]; exact ⟨_, rfl⟩
        · rw [if_neg hmv, if_neg hmv]
          cases hp : a.position with
          | none => exact absurd hp (ainv.1 hae)
          | some p => exact ⟨p, by rw [← hpos, hp], rfl⟩
    · rw [hs] at hc; cases hc
