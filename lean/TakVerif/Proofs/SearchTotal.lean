import TakVerif.Proofs.PvHead

/-! # Totality of the alpha-beta model: vocabulary, the engine-state invariant, the generator loop

Every other search theorem of the framework is a partial-correctness statement (`Sat x Q`: IF the model returns `.ok a`
then `Q a`).  This file starts the proof that the model has **no reachable `.error` exit** (no modelled Go panic, no
fuel exhaustion) from the engine states the bot maintains:

* `Tot x Q` – total correctness: `x` returns `.ok a` for some `a`, and `Q a`.
* `TGame g Q N` – what the induction asks of the game on the set `N` of visited positions and the set `Q` of move values
  the engine ever handles: `N` is closed under applied moves, generated moves are `Q`-moves, `MovePreallocated` on a
  `Q`-move either succeeds or returns an error value (C01: never a panic), the slide-reduction test is total on them,
  the pass is a `Q`-move, the sort oracle keeps `Q`.
* `EngT g Q s` – **the engine-state invariant**: every move value the engine holds (table entries, response map, PV
  buffers, `stack[i].m`) is a `Q`-move; the two per-ply arrays have exactly `maxDepth` elements; table entries are at most
  `maxDepth` deep; a table that exists is not empty; the depth noted in the statistics is at most `maxDepth`.
* `iterate_t` – the generator loop is total when the body is, and hands the body accepted `Q`-moves only. -/
namespace Search
open Tak (Err)

variable {P M : Type}

/-- total correctness: the computation returns a value (no Go panic, no exhausted fuel), and the value satisfies `Q` -/
def Tot {α : Type} (x : Except Err α) (Q : α → Prop) : Prop := ∃ a, x = .ok a ∧ Q a

theorem Tot.ok {α : Type} {a : α} {Q : α → Prop} (h : Q a) : Tot (.ok a : Except Err α) Q := ⟨a, rfl, h⟩

theorem Tot.pure {α : Type} {a : α} {Q : α → Prop} (h : Q a) : Tot (pure a : Except Err α) Q := ⟨a, rfl, h⟩

theorem Tot.mono {α : Type} {x : Except Err α} {Q R : α → Prop} (h : Tot x Q) (hqr : ∀ a, Q a → R a) : Tot x R := by
  obtain ⟨a, ha, hq⟩ := h
  exact ⟨a, ha, hqr a hq⟩

theorem Tot.bind {α β : Type} {x : Except Err α} {f : α → Except Err β} {Q : β → Prop}
    (h : Tot x (fun a => Tot (f a) Q)) : Tot (x >>= f) Q := by
  obtain ⟨a, ha, b, hb, hq⟩ := h
  subst ha
  exact ⟨b, hb, hq⟩

theorem Tot.sat {α : Type} {x : Except Err α} {Q : α → Prop} (h : Tot x Q) : Sat x Q := by
  obtain ⟨a, ha, hq⟩ := h
  intro b hb
  rw [ha] at hb
  cases hb
  exact hq

theorem Tot.isOk {α : Type} {x : Except Err α} {Q : α → Prop} (h : Tot x Q) : ∃ a, x = .ok a := by
  obtain ⟨a, ha, _⟩ := h
  exact ⟨a, ha⟩

theorem Tot.and_sat {α : Type} {x : Except Err α} {Q R : α → Prop} (h : Tot x Q) (h2 : Sat x R) :
    Tot x (fun a => Q a ∧ R a) := by
  obtain ⟨a, ha, hq⟩ := h
  exact ⟨a, ha, hq, h2 a ha⟩

/-- what the totality induction asks of the game -/
structure TGame (g : Game P M) (o : Oracle M) (Q : M → Prop) (N : P → Prop) : Prop where
  /-- generated moves of visited positions are `Q`-moves -/
  gen : ∀ p, N p → ∀ m ∈ g.allMoves p, Q m
  /-- `sort.Sort` does not invent moves -/
  ord : ∀ k l x, (∀ y ∈ l, Q y) → x ∈ o.order k l → Q x
  /-- the visited positions are closed under applied moves (also the null move) -/
  closed : ∀ p m c, N p → g.apply p m = .ok c → N c
  /-- `MovePreallocated` on a `Q`-move returns: a child or an error value, never a panic -/
  applyT : ∀ p m, N p → Q m → (∃ c, g.apply p m = .ok c) ∨ (∃ w, g.apply p m = .error (.illegal w))
  /-- the slide-reduction test indexes inside `p.Height` for a `Q`-move -/
  red : ∀ p m, N p → Q m → ∃ b, g.reduceSlide m p = .ok b
  /-- the null move is a `Q`-move -/
  pass : Q g.passMove

/-- **the engine-state invariant of the totality proof** -/
structure EngT (Q : M → Prop) (s : Eng M) : Prop where
  table : ∀ (i : Nat) (e : TEntry M), s.table[i]? = some e → Q e.m ∧ e.depth ≤ Facts.maxDepth
  resp : ∀ k v, (k, v) ∈ s.response → Q v
  pv0 : ∀ (i : Nat) (x : M), s.pv0[i]? = some x → Q x
  stackM : ∀ (i : Nat) (x : M), s.stackM[i]? = some x → Q x
  pvSize : s.pv0.size = Facts.maxDepth
  smSize : s.stackM.size = Facts.maxDepth
  tbl : s.hasTable = true → 0 < s.table.size
  stDepth : s.st.depth ≤ Facts.maxDepth

section eng
variable {Q : M → Prop}

/-- `EngT` does not look at the counters -/
theorem EngT.of_eq {s s1 : Eng M} (h : EngT Q s) (ht : s1.table = s.table) (hr : s1.response = s.response)
    (hp : s1.pv0 = s.pv0) (hm : s1.stackM = s.stackM) (hh : s1.hasTable = s.hasTable)
    (hd : s1.st.depth = s.st.depth) : EngT Q s1 :=
  ⟨fun i e hi => h.table i e (by rw [← ht]; exact hi), fun k v hv => h.resp k v (by rw [← hr]; exact hv),
   fun i x hi => h.pv0 i x (by rw [← hp]; exact hi), fun i x hi => h.stackM i x (by rw [← hm]; exact hi),
   by rw [hp]; exact h.pvSize, by rw [hm]; exact h.smSize, by rw [hh, ht]; exact h.tbl, by rw [hd]; exact h.stDepth⟩

theorem EngT.setEntry {s : Eng M} (h : EngT Q s) (i : Nat) (e : TEntry M) (he : Q e.m) (hd : e.depth ≤ Facts.maxDepth) :
    EngT Q (s.setEntry i e) := by
  refine ⟨?_, h.resp, h.pv0, h.stackM, h.pvSize, h.smSize, ?_, h.stDepth⟩
  · intro j e' hj
    unfold Eng.setEntry at hj
    dsimp only at hj
    rw [Array.getElem?_setIfInBounds] at hj
    split at hj
    · split at hj
      · cases hj; exact ⟨he, hd⟩
      · cases hj
    · exact h.table j e' hj
  · intro hh
    unfold Eng.setEntry
    dsimp only
    rw [Array.size_setIfInBounds]
    exact h.tbl hh

theorem Eng.evict_size (s : Eng M) (k : H) : (s.evict k).table.size = s.table.size := by
  unfold Eng.evict
  split
  · rfl
  · split
    · dsimp only
      rw [Array.size_setIfInBounds]
    · rfl

theorem EngT.evict {s : Eng M} (h : EngT Q s) (k : H) : EngT Q (s.evict k) := by
  unfold Eng.evict
  split
  · exact h
  · rename_i e1 he1
    split
    · refine ⟨?_, h.resp, h.pv0, h.stackM, h.pvSize, h.smSize, ?_, h.stDepth⟩
      · intro j e' hj
        dsimp only at hj
        rw [Array.getElem?_setIfInBounds] at hj
        split at hj
        · split at hj
          · cases hj; exact h.table _ e1 he1
          · cases hj
        · exact h.table j e' hj
      · intro hh
        dsimp only
        rw [Array.size_setIfInBounds]
        exact h.tbl hh
    · exact h

/-- a write into `stack[ply].pv` inside the array -/
theorem EngT.setPv0 {s : Eng M} (h : EngT Q s) (ply : Nat) (hply : ply < Facts.maxDepth) (x : M) (hx : Q x)
    (site : String) : Tot (setA s.pv0 ply x site) (fun pv0 => EngT Q { s with pv0 := pv0 }) := by
  unfold setA
  rw [if_pos (by rw [h.pvSize]; exact hply)]
  refine Tot.ok ⟨h.table, h.resp, ?_, h.stackM, ?_, h.smSize, h.tbl, h.stDepth⟩
  · intro j y hj
    dsimp only at hj
    rw [Array.getElem?_setIfInBounds] at hj
    split at hj
    · split at hj
      · cases hj; exact hx
      · cases hj
    · exact h.pv0 j y hj
  · dsimp only
    rw [Array.size_setIfInBounds]
    exact h.pvSize

/-- a write into `stack[ply].m` inside the array -/
theorem EngT.setStackM {s : Eng M} (h : EngT Q s) (ply : Nat) (hply : ply < Facts.maxDepth) (x : M) (hx : Q x)
    (site : String) : Tot (setA s.stackM ply x site) (fun sm => EngT Q { s with stackM := sm }) := by
  unfold setA
  rw [if_pos (by rw [h.smSize]; exact hply)]
  refine Tot.ok ⟨h.table, h.resp, h.pv0, ?_, h.pvSize, ?_, h.tbl, h.stDepth⟩
  · intro j y hj
    dsimp only at hj
    rw [Array.getElem?_setIfInBounds] at hj
    split at hj
    · split at hj
      · cases hj; exact hx
      · cases hj
    · exact h.stackM j y hj
  · dsimp only
    rw [Array.size_setIfInBounds]
    exact h.smSize

theorem EngT.getPv0 {s : Eng M} (h : EngT Q s) (ply : Nat) (hply : ply < Facts.maxDepth) (site : String) :
    Tot (getA s.pv0 ply site) (fun x => Q x) := by
  unfold getA
  have hlt : ply < s.pv0.size := by rw [h.pvSize]; exact hply
  have hsome : s.pv0[ply]? = some s.pv0[ply] := Array.getElem?_eq_getElem hlt
  rw [hsome]
  exact Tot.ok (h.pv0 ply _ hsome)

theorem EngT.getStackM {s : Eng M} (h : EngT Q s) (i : Nat) (hi : i < Facts.maxDepth) (site : String) :
    Tot (getA s.stackM i site) (fun x => Q x) := by
  unfold getA
  have hlt : i < s.stackM.size := by rw [h.smSize]; exact hi
  have hsome : s.stackM[i]? = some s.stackM[i] := Array.getElem?_eq_getElem hlt
  rw [hsome]
  exact Tot.ok (h.stackM i _ hsome)

theorem EngT.recordCut [DecidableEq M] {s : Eng M} (h : EngT Q s) (m : M) (hm : Q m) (mv ply : Nat)
    (hply : ply < Facts.maxDepth) : Tot (recordCut s m mv ply) (fun s' => EngT Q s') := by
  unfold Search.recordCut
  dsimp only
  split
  · obtain ⟨prev, hprev, _⟩ := h.getStackM (ply - 1) (by omega) "stack[ply-1].m"
    rw [hprev]
    refine Tot.ok ⟨h.table, ?_, h.pv0, h.stackM, h.pvSize, h.smSize, h.tbl, ?_⟩
    · intro k v hkv
      rcases respPut_mem _ _ _ _ hkv with h1 | h1
      · exact h.resp k v h1
      · cases h1; exact hm
    · dsimp only
      split
      · exact h.stDepth
      · split
        · exact h.stDepth
        · exact h.stDepth
  · refine Tot.ok ⟨h.table, h.resp, h.pv0, h.stackM, h.pvSize, h.smSize, h.tbl, ?_⟩
    dsimp only
    split
    · exact h.stDepth
    · split
      · exact h.stDepth
      · exact h.stDepth

theorem EngT.load {s : Eng M} (h : EngT Q s) (o : Oracle M) : EngT Q (load o s).2 :=
  h.of_eq rfl rfl rfl rfl rfl rfl

/-- `ttGet` does not panic (a table that exists is not empty), and hands out an entry of the table -/
theorem ttGet_t {s : Eng M} (h : EngT Q s) (k : H) :
    Tot (ttGet s k) (fun te => ∀ e, te = some e → Q e.m ∧ e.depth ≤ Facts.maxDepth) := by
  unfold ttGet
  split
  · exact Tot.ok (fun e he => by cases he)
  · rename_i hht
    have hpos : 0 < s.table.size := h.tbl (by simpa using hht)
    rw [if_neg (by rw [beq_iff_eq]; omega)]
    have h1 : slot1 s k < s.table.size := Nat.mod_lt _ hpos
    have h2 : slot2 s k < s.table.size := Nat.mod_lt _ hpos
    have hs1 : s.table[slot1 s k]? = some s.table[slot1 s k] := Array.getElem?_eq_getElem h1
    have hs2 : s.table[slot2 s k]? = some s.table[slot2 s k] := Array.getElem?_eq_getElem h2
    rw [hs1, hs2]
    dsimp only
    split
    · exact Tot.ok (fun e he => by cases he; exact h.table _ _ hs1)
    · split
      · exact Tot.ok (fun e he => by cases he; exact h.table _ _ hs2)
      · exact Tot.ok (fun e he => by cases he)

/-- `ttPut` does not panic, and the slot it hands out is inside the table -/
theorem ttPut_t (o : Oracle M) {s : Eng M} (h : EngT Q s) (k : H) :
    Tot (ttPut o s k) (fun x => EngT Q x.2 ∧ ∀ i, x.1 = some i → i < x.2.table.size) := by
  unfold ttPut
  split
  · exact Tot.ok ⟨h, fun i hi => by cases hi⟩
  · rename_i hht
    dsimp only
    split
    · exact Tot.ok ⟨h.load o, fun i hi => by cases hi⟩
    · have hl := h.load o
      have hpos : 0 < (Search.load o s).2.table.size := hl.tbl (by simpa [Search.load] using hht)
      have h1 : slot1 (Search.load o s).2 k < (Search.load o s).2.table.size := Nat.mod_lt _ hpos
      unfold ttSlotIdx
      rw [if_neg (by rw [beq_iff_eq]; omega), if_pos h1]
      refine Tot.ok ⟨hl.evict k, fun i hi => ?_⟩
      cases hi
      rw [Eng.evict_size]
      exact h1

/-- a new engine, for a configuration whose table (if any) is not empty -/
theorem engT_new (g : Game P M) (hz : Q g.zeroMove) (cfg : Cfg) (ht : cfg.tableEntries ≠ some 0) :
    EngT Q (Eng.new g cfg) := by
  refine ⟨?_, ?_, ?_, ?_, ?_, ?_, ?_, ?_⟩
  · intro i e hi
    simp only [Eng.new] at hi
    rw [Array.getElem?_replicate] at hi
    split at hi
    · cases hi
      exact ⟨hz, by show (0 : Int) ≤ _; decide⟩
    · cases hi
  · intro k v hkv
    simp only [Eng.new] at hkv
    cases hkv
  · intro i x hi
    simp only [Eng.new] at hi
    rw [Array.getElem?_replicate] at hi
    split at hi
    · cases hi; exact hz
    · cases hi
  · intro i x hi
    simp only [Eng.new] at hi
    rw [Array.getElem?_replicate] at hi
    split at hi
    · cases hi; exact hz
    · cases hi
  · simp [Eng.new]
  · simp [Eng.new]
  · intro hh
    simp only [Eng.new] at hh ⊢
    rw [Array.size_replicate]
    cases hte : cfg.tableEntries with
    | none => rw [hte] at hh; cases hh
    | some n =>
      cases n with
      | zero => exact absurd hte ht
      | succ n => simp
  · simp only [Eng.new]
    decide

end eng

/-! ### the generator loop is total -/

section loop
variable {σ ρ : Type}
variable {g : Game P M} {o : Oracle M} {p : P} {body : M → P → σ → Eng M → Except Err (Ctl σ ρ × Eng M)} {Q : M → Prop}
  {N : P → Prop} {I : σ → Eng M → Prop} {Qb : σ → Eng M → Prop} {Qr : ρ → Eng M → Prop}

/-- contract of a loop body for `iterate_t` -/
def BodyT (g : Game P M) (p : P) (body : M → P → σ → Eng M → Except Err (Ctl σ ρ × Eng M)) (Q : M → Prop)
    (I : σ → Eng M → Prop) (Qb : σ → Eng M → Prop) (Qr : ρ → Eng M → Prop) : Prop :=
  ∀ m c a s, g.apply p m = .ok c → Q m → I a s → Tot (body m c a s) (LoopOut I Qb Qr)

theorem tryMove_t (hG : TGame g o Q N) (hN : N p) (hb : BodyT g p body Q I Qb Qr) (m : M) (hm : Q m) (a : σ) (s : Eng M)
    (hi : I a s) : Tot (tryMove g p body m a s) (LoopOut I Qb Qr) := by
  unfold tryMove
  rcases hG.applyT p m hN hm with ⟨c, hc⟩ | ⟨w, hw⟩
  · rw [hc]; exact hb m c a s hc hm hi
  · rw [hw]; exact Tot.ok hi

theorem andThen_t {r : Except Err (Ctl σ ρ × Eng M)} {k : σ → Eng M → Except Err (Ctl σ ρ × Eng M)}
    (h1 : Tot r (LoopOut I Qb Qr)) (h2 : ∀ a s, I a s → Tot (k a s) (LoopOut I Qb Qr)) :
    Tot (Ctl.andThen r k) (LoopOut I Qb Qr) := by
  obtain ⟨v, hv, h1'⟩ := h1
  subst hv
  rcases v with ⟨c, s⟩
  unfold Ctl.andThen
  cases c with
  | next a => exact h2 a s h1'
  | brk a => exact Tot.ok h1'
  | ret r => exact Tot.ok h1'

theorem runList_t (hG : TGame g o Q N) (hN : N p) (hb : BodyT g p body Q I Qb Qr) (skip : M → Bool) (ms : List M)
    (hms : ∀ m ∈ ms, Q m) :
    ∀ (a : σ) (s : Eng M), I a s → Tot (runList g p body skip ms a s) (LoopOut I Qb Qr) := by
  induction ms with
  | nil => intro a s hi; exact Tot.ok hi
  | cons m ms ih =>
    intro a s hi
    simp only [runList]
    have ih' := ih (fun x hx => hms x (List.mem_cons_of_mem _ hx))
    split
    · exact ih' a s hi
    · exact andThen_t (tryMove_t hG hN hb m (hms m List.mem_cons_self) a s hi) ih'

/-- **the loop rule, total**: the generator loop returns when its body does; the body only ever sees accepted
`Q`-moves.  `hsm`: the states the loop passes through keep `stack[·].m` long enough for the response lookup. -/
theorem iterate_t [DecidableEq M] (hG : TGame g o Q N) (hN : N p) (hb : BodyT g p body Q I Qb Qr) (cfg : SOpts)
    (mg : MG M) (hte : ∀ e, mg.te = some e → Q e.m) (hpv : ∀ x rest, mg.pv = x :: rest → Q x)
    (hresp : ∀ a s, I a s → ∀ k v, (k, v) ∈ s.response → Q v)
    (hsm : ∀ a s, I a s → mg.ply ≤ s.stackM.size)
    (hsorts : ∀ a s k, I a s → I a { s with sorts := k })
    (a : σ) (s : Eng M) (hi : I a s) :
    Tot (iterate g cfg o p mg body a s) (LoopOut I Qb Qr) := by
  unfold iterate
  have hgen := hG.gen p hN
  have h0 : Tot (stage0 g p mg body a s) (LoopOut I Qb Qr) := by
    unfold stage0
    cases hte' : mg.te with
    | none => exact Tot.ok hi
    | some e => exact tryMove_t hG hN hb e.m (hte e hte') a s hi
  have h1 : ∀ a s, I a s → Tot (stage1 g p mg body a s) (LoopOut I Qb Qr) := by
    intro a s hi
    unfold stage1
    cases hpv' : mg.pv with
    | nil => exact Tot.ok hi
    | cons m rest =>
      dsimp only
      split
      · exact Tot.ok hi
      · exact tryMove_t hG hN hb m (hpv m rest hpv') a s hi
  have h3 : ∀ r? a s, I a s → Tot (stage3 g cfg o p mg body r? a s) (LoopOut I Qb Qr) := by
    intro r? a s hi
    unfold stage3
    dsimp only
    split
    · exact runList_t hG hN hb _ _ (fun m hm => hG.ord _ _ m hgen hm) a _ (hsorts a s _ hi)
    · exact runList_t hG hN hb _ _ hgen a s hi
  have h23 : ∀ a s, I a s → Tot (stage23 g cfg o p mg body a s) (LoopOut I Qb Qr) := by
    intro a s hi
    unfold stage23
    have hlook : ∃ r?, respLookup mg.ply s = .ok r? ∧ ∀ r, r? = some r → Q r := by
      unfold respLookup
      split
      · exact ⟨none, rfl, fun r hr => by cases hr⟩
      · rename_i hp0
        have hlt : mg.ply - 1 < s.stackM.size := by
          have := hsm a s hi
          have : mg.ply ≠ 0 := by simpa using hp0
          omega
        have hsome : s.stackM[mg.ply - 1]? = some s.stackM[mg.ply - 1] := Array.getElem?_eq_getElem hlt
        unfold getA
        rw [hsome]
        exact ⟨_, rfl, fun r hr => hresp a s hi _ r (respGet_mem_pair _ _ _ hr)⟩
    obtain ⟨r?, hr, hrq⟩ := hlook
    rw [hr]
    dsimp only
    refine andThen_t ?_ (h3 r?)
    cases r? with
    | none => exact Tot.ok hi
    | some r => exact tryMove_t hG hN hb r (hrq r rfl) a s hi
  exact andThen_t (andThen_t h0 h1) h23

end loop
end Search
