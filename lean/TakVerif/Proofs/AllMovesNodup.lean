import TakVerif.Proofs.AllMovesOnBoard

/-! # No move is generated twice (C03, part 3c) -/
namespace Tak.Proofs
open Tak Spec

theorem placeMoves_nodup (p : Pos) (x y : Nat) : (placeMoves p x y).Nodup := by
  unfold placeMoves
  by_cases h2 : p.move ≥ 2 <;> by_cases hc : capFlag p = true <;> simp [h2, hc, types_cases]

theorem dirList_pairwise (sz x y : Nat) : (dirList sz x y).Pairwise (fun a b => a.1 ≠ b.1) := by
  simp [dirList, types_cases]

theorem slideMoves_nodup (p : Pos) (hs8 : p.cfg.size ≤ 8) (x y : Nat) : (slideMoves p x y).Nodup := by
  unfold slideMoves
  rw [List.Nodup, List.pairwise_flatMap]
  constructor
  · intro dc _
    rw [List.pairwise_map]
    have hn := slides_nodup (carryAt p (y * p.cfg.size + x)) (by have := carryAt_le p (y * p.cfg.size + x); omega)
    rw [List.Nodup] at hn
    refine (hn.filter _).imp ?_
    intro a b hne heq
    apply hne
    injection heq
  · refine (dirList_pairwise p.cfg.size x y).imp ?_
    intro a b hab m1 h1 m2 h2 heq
    rw [List.mem_map] at h1 h2
    obtain ⟨_, _, rfl⟩ := h1
    obtain ⟨_, _, h2⟩ := h2
    rw [← h2] at heq
    injection heq with _ _ ht _
    exact hab ht

theorem sqMoves_nodup (p : Pos) (hs8 : p.cfg.size ≤ 8) (x y : Nat) : (sqMoves p x y).Nodup := by
  unfold sqMoves
  simp only []
  split
  · exact placeMoves_nodup p x y
  split
  · exact List.nodup_nil
  split
  · exact List.nodup_nil
  split
  · exact List.nodup_nil
  exact slideMoves_nodup p hs8 x y

theorem sqMoves_xy (p : Pos) (x y : Nat) (m : Move) (hm : m ∈ sqMoves p x y) : m.x = x ∧ m.y = y := by
  rcases mem_sqMoves p x y m hm with ⟨_, h⟩ | ⟨_, _, h⟩
  · rw [mem_placeMoves] at h
    rcases h with rfl | ⟨_, rfl⟩ | ⟨_, _, rfl⟩ <;> simp
  · rw [mem_slideMoves] at h
    obtain ⟨_, _, _, _, _, rfl⟩ := h
    simp

/-- no move value is generated twice -/
theorem allMoves_nodup' (p : Pos) (hs8 : p.cfg.size ≤ 8) : p.allMoves.Nodup := by
  rw [allMoves_eq, List.Nodup, List.pairwise_flatMap]
  constructor
  · intro x _
    rw [List.pairwise_flatMap]
    constructor
    · intro y _
      exact sqMoves_nodup p hs8 x y
    · refine (@List.pairwise_lt_range p.cfg.size).imp ?_
      intro a b hab m1 h1 m2 h2 heq
      have e1 := (sqMoves_xy p x a m1 h1).2
      have e2 := (sqMoves_xy p x b m2 h2).2
      rw [heq] at e1
      omega
  · refine (@List.pairwise_lt_range p.cfg.size).imp ?_
    intro a b hab m1 h1 m2 h2 heq
    rw [List.mem_flatMap] at h1 h2
    obtain ⟨y1, _, h1⟩ := h1
    obtain ⟨y2, _, h2⟩ := h2
    have e1 := (sqMoves_xy p a y1 m1 h1).1
    have e2 := (sqMoves_xy p b y2 m2 h2).1
    rw [heq] at e1
    omega

/-- generated placements carry the zero slide word -/
theorem allMoves_place_slides (p : Pos) (m : Move) (hm : m ∈ p.allMoves) (hns : m.isSlide = false) : m.slides = 0#32 := by
  rw [mem_allMoves] at hm
  obtain ⟨x, _, y, _, hm⟩ := hm
  rcases mem_sqMoves p x y m hm with ⟨_, h⟩ | ⟨_, _, h⟩
  · rw [mem_placeMoves] at h
    rcases h with rfl | ⟨_, rfl⟩ | ⟨_, _, rfl⟩ <;> rfl
  · rw [mem_slideMoves, ] at h
    obtain ⟨dc, hdc, _, _, _, rfl⟩ := h
    rw [mem_dirList] at hdc
    rcases hdc with rfl | rfl | rfl | rfl <;> simp [Move.isSlide, types_cases] at hns

/-- on generated moves `Move.Equal` is equality -/
theorem allMoves_equal_eq (p : Pos) (m1 m2 : Move) (h1 : m1 ∈ p.allMoves) (h2 : m2 ∈ p.allMoves)
    (he : m1.equal m2 = true) : m1 = m2 := by
  unfold Move.equal at he
  by_cases hxy : m1.x ≠ m2.x ∨ m1.y ≠ m2.y
  · simp [hxy] at he
  simp only [hxy, if_false] at he
  by_cases ht : m1.type ≠ m2.type
  · simp [ht] at he
  simp only [ht, if_false] at he
  have hx : m1.x = m2.x := by omega
  have hy : m1.y = m2.y := by omega
  have ht' : m1.type = m2.type := by omega
  have hsl : m1.slides = m2.slides := by
    by_cases hs : m1.isSlide = true
    · simpa [hs] using he
    · have hs1 : m1.isSlide = false := by simpa using hs
      have hs2 : m2.isSlide = false := by unfold Move.isSlide at hs1 ⊢; rw [← ht']; exact hs1
      rw [allMoves_place_slides p m1 h1 hs1, allMoves_place_slides p m2 h2 hs2]
  cases m1; cases m2; simp_all

theorem allMoves_pairwise_not_equal (p : Pos) (hs8 : p.cfg.size ≤ 8) :
    p.allMoves.Pairwise (fun a b => a.equal b = false) := by
  have hn := allMoves_nodup' p hs8
  rw [List.Nodup] at hn
  refine hn.imp_of_mem ?_
  intro a b ha hb hne
  cases he : a.equal b
  · rfl
  · exact absurd (allMoves_equal_eq p a b ha hb he) hne

end Tak.Proofs
