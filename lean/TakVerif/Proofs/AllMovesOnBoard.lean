import TakVerif.Proofs.AllMoves

/-! # Generated moves start and end on the board (C03, part 3b) -/
namespace Tak.Proofs
open Tak Spec

theorem mem_allMoves (p : Pos) (m : Move) :
    m ∈ p.allMoves ↔ ∃ x, x < p.cfg.size ∧ ∃ y, y < p.cfg.size ∧ m ∈ sqMoves p x y := by
  rw [allMoves_eq]
  simp only [List.mem_flatMap, List.mem_range]

theorem mem_placeMoves (p : Pos) (x y : Nat) (m : Move) :
    m ∈ placeMoves p x y ↔
      (m = ⟨x, y, Facts.mtPlaceFlat, 0⟩ ∨ (p.move ≥ 2 ∧ m = ⟨x, y, Facts.mtPlaceStanding, 0⟩) ∨
       (p.move ≥ 2 ∧ capFlag p = true ∧ m = ⟨x, y, Facts.mtPlaceCapstone, 0⟩)) := by
  unfold placeMoves
  by_cases h2 : p.move ≥ 2 <;> by_cases hc : capFlag p = true <;> simp [h2, hc]

theorem mem_dirList (sz x y : Nat) (dc : Nat × Nat) :
    dc ∈ dirList sz x y ↔ (dc = (Facts.mtSlideLeft, x) ∨ dc = (Facts.mtSlideRight, sz - x - 1) ∨
      dc = (Facts.mtSlideDown, y) ∨ dc = (Facts.mtSlideUp, sz - y - 1)) := by
  simp [dirList]

theorem mem_slideMoves (p : Pos) (x y : Nat) (m : Move) :
    m ∈ slideMoves p x y ↔ ∃ dc ∈ dirList p.cfg.size x y, ∃ s ∈ slidesTable.getD (carryAt p (y * p.cfg.size + x)) [],
      s &&& maskOf dc.2 = 0#32 ∧ m = ⟨x, y, dc.1, s⟩ := by
  unfold slideMoves
  simp only [List.mem_flatMap, List.mem_map, List.mem_filter, beq_iff_eq]
  constructor
  · rintro ⟨dc, hdc, s, ⟨hs, hm⟩, rfl⟩; exact ⟨dc, hdc, s, hs, hm, rfl⟩
  · rintro ⟨dc, hdc, s, hs, hm, rfl⟩; exact ⟨dc, hdc, s, ⟨hs, hm⟩, rfl⟩

/-- a generated move is a placement on an empty square or a slide of the mover's stack -/
theorem mem_sqMoves (p : Pos) (x y : Nat) (m : Move) (hm : m ∈ sqMoves p x y) :
    (p.height.getD (y * p.cfg.size + x) 0 = 0#8 ∧ m ∈ placeMoves p x y) ∨
    (p.height.getD (y * p.cfg.size + x) 0 ≠ 0#8 ∧ p.move ≥ 2 ∧ m ∈ slideMoves p x y) := by
  unfold sqMoves at hm
  simp only [] at hm
  by_cases h0 : (p.height.getD (y * p.cfg.size + x) 0 == 0#8) = true
  · simp only [h0, if_true] at hm
    left; exact ⟨by simpa using h0, hm⟩
  · simp only [h0] at hm
    right
    refine ⟨by simpa using h0, ?_⟩
    by_cases h1 : p.move < 2
    · simp [h1] at hm
    · simp only [h1, if_false] at hm
      refine ⟨by omega, ?_⟩
      by_cases h2 : (p.toMove == Color.white) = true ∧ (!BitVec.getLsbD p.white (y * p.cfg.size + x)) = true
      · simp [h2] at hm
      simp only [h2, if_false] at hm
      by_cases h3 : (p.toMove == Color.black) = true ∧ (!BitVec.getLsbD p.black (y * p.cfg.size + x)) = true
      · simp [h3] at hm
      simp only [h3, if_false] at hm
      exact hm

theorem carryAt_le (p : Pos) (i : Nat) : carryAt p i ≤ p.cfg.size := by
  unfold carryAt; split <;> omega

theorem types_cases : Facts.mtPlaceFlat = 2 ∧ Facts.mtPlaceStanding = 3 ∧ Facts.mtPlaceCapstone = 4 ∧
  Facts.mtSlideLeft = 5 ∧ Facts.mtSlideRight = 6 ∧ Facts.mtSlideUp = 7 ∧ Facts.mtSlideDown = 8 ∧ Facts.mtPass = 1 := by decide

theorem wrap8_small (v : Int) (h0 : 0 ≤ v) (h1 : v < 128) : wrap8 v = v := by
  unfold wrap8; omega

theorem dest_left (m : Move) (h : m.type = Facts.mtSlideLeft) :
    m.dest = some (wrap8 (m.x - Slides.len m.slides), m.y) := by simp [Move.dest, h, types_cases]
theorem dest_right (m : Move) (h : m.type = Facts.mtSlideRight) :
    m.dest = some (wrap8 (m.x + Slides.len m.slides), m.y) := by simp [Move.dest, h, types_cases]
theorem dest_up (m : Move) (h : m.type = Facts.mtSlideUp) :
    m.dest = some (m.x, wrap8 (m.y + Slides.len m.slides)) := by simp [Move.dest, h, types_cases]
theorem dest_down (m : Move) (h : m.type = Facts.mtSlideDown) :
    m.dest = some (m.x, wrap8 (m.y - Slides.len m.slides)) := by simp [Move.dest, h, types_cases]

/-- what `allMoves_onboard` says about one move on a board of size `sz` -/
def OnBoard (sz : Nat) (m : Move) : Prop :=
  0 ≤ m.x ∧ m.x < sz ∧ 0 ≤ m.y ∧ m.y < sz ∧
  (m.type = Facts.mtPlaceFlat ∨ m.type = Facts.mtPlaceStanding ∨ m.type = Facts.mtPlaceCapstone ∨
   m.type = Facts.mtSlideLeft ∨ m.type = Facts.mtSlideRight ∨ m.type = Facts.mtSlideUp ∨ m.type = Facts.mtSlideDown) ∧
  ∃ dx dy : Int, m.dest = some (dx, dy) ∧ 0 ≤ dx ∧ dx < sz ∧ 0 ≤ dy ∧ dy < sz

theorem placeMoves_onboard (p : Pos) (x y : Nat) (hx : x < p.cfg.size) (hy : y < p.cfg.size)
    (m : Move) (hm : m ∈ placeMoves p x y) : OnBoard p.cfg.size m := by
  rw [mem_placeMoves] at hm
  unfold OnBoard
  rcases hm with rfl | ⟨_, rfl⟩ | ⟨_, _, rfl⟩ <;>
    (refine ⟨by simp, by simp; omega, by simp, by simp; omega, by simp, (x : Int), (y : Int), ?_, by omega, by omega, by omega, by omega⟩
     simp [Move.dest, types_cases])

theorem slideMoves_onboard (p : Pos) (hs8 : p.cfg.size ≤ 8) (x y : Nat) (hx : x < p.cfg.size) (hy : y < p.cfg.size)
    (m : Move) (hm : m ∈ slideMoves p x y) : OnBoard p.cfg.size m := by
  rw [mem_slideMoves] at hm
  obtain ⟨dc, hdc, s, hs, hmask, rfl⟩ := hm
  have hc := carryAt_le p (y * p.cfg.size + x)
  rw [mem_dirList] at hdc
  unfold OnBoard
  have hlen : ∀ c, c ≤ 8 → s &&& maskOf c = 0#32 → (Slides.len s) ≤ c := fun c hc8 h =>
    (mask_test _ (by omega) s hs c hc8).1 h
  rcases hdc with rfl | rfl | rfl | rfl
  · have := hlen x (by omega) hmask
    refine ⟨by simp, by simp; omega, by simp, by simp; omega, by simp, (x : Int) - Slides.len s, (y : Int), ?_, by omega, by omega, by omega, by omega⟩
    rw [dest_left _ rfl, wrap8_small _ (by simp; omega) (by simp; omega)]
  · have := hlen (p.cfg.size - x - 1) (by omega) hmask
    refine ⟨by simp, by simp; omega, by simp, by simp; omega, by simp, (x : Int) + Slides.len s, (y : Int), ?_, by omega, by omega, by omega, by omega⟩
    rw [dest_right _ rfl, wrap8_small _ (by simp; omega) (by simp; omega)]
  · have := hlen y (by omega) hmask
    refine ⟨by simp, by simp; omega, by simp, by simp; omega, by simp, (x : Int), (y : Int) - Slides.len s, ?_, by omega, by omega, by omega, by omega⟩
    rw [dest_down _ rfl, wrap8_small _ (by simp; omega) (by simp; omega)]
  · have := hlen (p.cfg.size - y - 1) (by omega) hmask
    refine ⟨by simp, by simp; omega, by simp, by simp; omega, by simp, (x : Int), (y : Int) + Slides.len s, ?_, by omega, by omega, by omega, by omega⟩
    rw [dest_up _ rfl, wrap8_small _ (by simp; omega) (by simp; omega)]

theorem allMoves_onboard' (p : Pos) (hs8 : p.cfg.size ≤ 8) (m : Move) (hm : m ∈ p.allMoves) : OnBoard p.cfg.size m := by
  rw [mem_allMoves] at hm
  obtain ⟨x, hx, y, hy, hm⟩ := hm
  rcases mem_sqMoves p x y m hm with ⟨_, h⟩ | ⟨_, _, h⟩
  · exact placeMoves_onboard p x y hx hy m h
  · exact slideMoves_onboard p hs8 x y hx hy m h

end Tak.Proofs
