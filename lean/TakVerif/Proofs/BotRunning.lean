import TakVerif.Impl.Bot

/-! # Which thinker is inside `GetMove`, and which thinkers are cancelled (helper for `Props/C07_compose2.lean`)

One walk through the handlers of `Impl/Bot.lean` (`Shape`): an event of the protocol goroutine either leaves the list
of thinkers alone (possibly cancelling the current one, and whenever it ends the loop it does cancel it), or it closes
the invocation: the current thinker, cancelled, goes to `old` and a fresh one that is not inside `GetMove` is started.
Consequences: `RunAt` (thinker `j` is inside `GetMove`) is changed by `grant` / `aiReturns` only, and the thinkers of
finished invocations are all cancelled (`CancInv`). -/
namespace Tak.Bot
open Tak

/-- thinker `j` is inside `GetMove` -/
def RunAt (s : St) (j : Nat) : Prop := ∃ t, (thinkers s)[j]? = some t ∧ t.st = .running

/-- the thinkers of finished invocations are cancelled, and so is the current one once the loop is gone -/
structure CancInv (s : St) : Prop where
  old : ∀ t ∈ s.old, t.cancelled = true
  cur : s.status ≠ .running → s.cur.cancelled = true

def tv (s : St) : List Thinker × Thinker × Status := (s.old, s.cur, s.status)

/-- what an event of the protocol goroutine does to the thinkers -/
def Shape (s s' : St) : Prop :=
  (s'.old = s.old ∧ (s'.cur = s.cur ∨ s'.cur = { s.cur with cancelled := true }) ∧
      (s'.status = s.status ∨ s'.cur.cancelled = true)) ∨
  (s'.old = s.old ++ [{ s.cur with cancelled := true }] ∧ s'.cur.st ≠ .running ∧ s'.status = s.status)

theorem Shape.of_tv {s t : St} (h : tv t = tv s) : Shape s t := by
  simp only [tv, Prod.mk.injEq] at h
  exact .inl ⟨h.1, .inl h.2.1, .inl h.2.2⟩

theorem Shape.crash {s t : St} (h : tv t = tv s) (e : Err) : Shape s (t.crash e) := by
  simp only [tv, Prod.mk.injEq] at h
  exact .inl ⟨h.1, .inr (by simp [St.crash, h.2.1]), .inr rfl⟩

theorem Shape.retTrue {s t : St} (h : tv t = tv s) : Shape s (retTrue t) := by
  simp only [tv, Prod.mk.injEq] at h
  exact .inl ⟨h.1, .inr (by simp [Bot.retTrue, h.2.1]), .inr rfl⟩

theorem Shape.retFalse (cfg : Conf) {s t : St} (h : tv t = tv s) : Shape s (retFalse cfg t) := by
  simp only [tv, Prod.mk.injEq] at h
  refine .inr ⟨by simp [Bot.retFalse, spawn, h.1, h.2.1], ?_, h.2.2⟩
  simp only [Bot.retFalse, spawn]
  split <;> decide

theorem tv_srvPush (cfg : Conf) (s : St) (m : Move) : tv (srvPush cfg s m) = tv s := by
  unfold srvPush
  split
  · rfl
  · split <;> rfl

theorem tv_srvAccept (cfg : Conf) (s : St) (m : Move) : tv (srvAccept cfg s m) = tv s := by
  unfold srvAccept
  split
  · rfl
  · split
    · exact tv_srvPush cfg s m
    · rfl

theorem tv_srvPop (s : St) : tv (srvPop s) = tv s := by
  unfold srvPop
  split <;> rfl

theorem shape_onServerMove (cfg : Conf) (s : St) (parsed : Option Move) : Shape s (onServerMove cfg s parsed) := by
  unfold onServerMove
  cases parsed with
  | none => exact .crash rfl _
  | some m =>
    dsimp only
    cases ha : (srvPush cfg s m).p.apply cfg.basis m with
    | error e => exact .crash (tv_srvPush cfg s m) _
    | ok q => exact .of_tv (tv_srvPush cfg s m)

theorem shape_onTime (cfg : Conf) (s : St) (args : List String) : Shape s (onTime cfg s args) := by
  unfold onTime
  split
  · dsimp only
    split
    · split
      · exact .retFalse cfg rfl
      · exact .of_tv rfl
    · split
      · exact .retFalse cfg rfl
      · exact .of_tv rfl
  · exact .crash rfl _

theorem shape_onRequestUndo (s : St) (accept : Bool) : Shape s (onRequestUndo s accept) := by
  unfold onRequestUndo
  split
  · exact .inl ⟨rfl, .inr rfl, .inl rfl⟩
  · exact .of_tv rfl

theorem shape_onUndo (cfg : Conf) (s : St) : Shape s (onUndo cfg s) := by
  unfold onUndo
  dsimp only
  split
  · exact .crash (tv_srvPop s) _
  · split
    · exact .crash (tv_srvPop s) _
    · split
      · exact .crash (tv_srvPop s) _
      · exact .retFalse cfg (tv_srvPop s)

theorem shape_onGameLine (cfg : Conf) (s : St) (rest : List String) (parsed : Option Move) (accept : Bool) :
    Shape s (onGameLine cfg s rest parsed accept) := by
  unfold onGameLine
  split
  · exact .crash rfl _
  · split
    · exact shape_onServerMove cfg s parsed
    · split
      · exact .retTrue rfl
      · split
        · split
          · exact .crash rfl _
          · exact .retTrue rfl
        · split
          · exact shape_onTime cfg s _
          · split
            · exact shape_onRequestUndo s accept
            · split
              · exact shape_onUndo cfg s
              · exact .of_tv rfl

theorem shape_onLine (cfg : Conf) (s : St) (bits : List String) (parsed : Option Move) (accept : Bool) :
    Shape s (onLine cfg s bits parsed accept) := by
  unfold onLine
  split
  · exact .of_tv rfl
  · split
    · exact shape_onGameLine cfg s _ parsed accept
    · split
      · exact shape_onGameLine cfg s _ parsed accept
      · exact .of_tv rfl

theorem shape_onAnswer (cfg : Conf) (s : St) (m : Move) : Shape s (onAnswer cfg s m) := by
  unfold onAnswer
  cases ha : s.p.apply cfg.basis m with
  | error e =>
    cases e with
    | illegal w => exact .retFalse cfg rfl
    | panic w => exact .crash rfl _
    | hang w => exact .crash rfl _
  | ok q =>
    dsimp only
    exact .retFalse cfg (tv_srvAccept cfg _ m)

/-- an event of the protocol goroutine -/
def Ev.isLoop : Ev → Bool
  | .deliver _ _ _ => true
  | .close => true
  | .timerFires => true
  | _ => false

/-- a loop event does nothing when the loop is gone, and otherwise has the `Shape` -/
theorem shape_step (cfg : Conf) (s : St) (e : Ev) (he : e.isLoop = true) :
    step cfg s e = s ∨ (s.status = .running ∧ Shape s (step cfg s e)) := by
  cases e with
  | deliver bits parsed accept =>
    simp only [step]
    split
    · rename_i hr; exact .inr ⟨hr, shape_onLine cfg s bits parsed accept⟩
    · exact .inl rfl
  | close =>
    simp only [step]
    split
    · rename_i hr; exact .inr ⟨hr, .retTrue rfl⟩
    · exact .inl rfl
  | timerFires =>
    simp only [step]
    split
    · rename_i hr; exact .inr ⟨hr.1, .retFalse cfg rfl⟩
    · exact .inl rfl
  | grant k => cases he
  | aiReturns k m => cases he

/-! ## `RunAt` -/

theorem getElem?_append_singleton_left {α : Type} (l : List α) (a x : α) (j : Nat) (h : l[j]? = some x) :
    (l ++ [a])[j]? = some x := by
  rw [List.getElem?_append_left (List.getElem?_eq_some_iff.mp h).1]; exact h

theorem runAt_iff_of_shape {s s' : St} (h : Shape s s') (j : Nat) : RunAt s' j ↔ RunAt s j := by
  unfold RunAt thinkers
  rcases h with ⟨ho, hc, _⟩ | ⟨ho, hc, _⟩
  · rw [ho]
    by_cases hj : j < s.old.length
    · rw [List.getElem?_append_left hj, List.getElem?_append_left hj]
    · rw [List.getElem?_append_right (Nat.le_of_not_lt hj), List.getElem?_append_right (Nat.le_of_not_lt hj)]
      rcases hc with hc | hc <;> rw [hc]
      cases hjj : j - s.old.length with
      | zero =>
        simp only [List.getElem?_cons_zero, Option.some.injEq]
        constructor
        · rintro ⟨t, rfl, h2⟩; exact ⟨_, rfl, h2⟩
        · rintro ⟨t, rfl, h2⟩; exact ⟨_, rfl, h2⟩
      | succ n => simp
  · rw [ho]
    by_cases hj : j < s.old.length
    · rw [List.getElem?_append_left (by simp; omega), List.getElem?_append_left (by omega),
        List.getElem?_append_left hj]
    · by_cases hj2 : j = s.old.length
      · subst hj2
        rw [List.getElem?_append_left (by simp)]
        simp only [List.getElem?_append_right (Nat.le_refl _), Nat.sub_self, List.getElem?_cons_zero, Option.some.injEq]
        constructor
        · rintro ⟨t, rfl, h2⟩; exact ⟨_, rfl, h2⟩
        · rintro ⟨t, rfl, h2⟩; exact ⟨_, rfl, h2⟩
      · have h1 : (s.old ++ [s.cur])[j]? = none := by
          rw [List.getElem?_eq_none_iff]; simp; omega
        rw [h1]
        constructor
        · rintro ⟨t, ht, h2⟩
          have hl : (s.old ++ [{ s.cur with cancelled := true }]).length = s.old.length + 1 := by
            rw [List.length_append]; rfl
          rw [List.getElem?_append_right (by rw [hl]; omega), hl] at ht
          cases hjj : j - (s.old.length + 1) with
          | zero =>
            rw [hjj] at ht
            simp only [List.getElem?_cons_zero, Option.some.injEq] at ht
            rw [← ht] at h2
            exact absurd h2 hc
          | succ n => rw [hjj] at ht; simp at ht
        · rintro ⟨t, ht, _⟩; cases ht

theorem runAt_step_loop (cfg : Conf) (s : St) (e : Ev) (he : e.isLoop = true) (j : Nat) :
    RunAt (step cfg s e) j ↔ RunAt s j := by
  rcases shape_step cfg s e he with h | ⟨_, h⟩
  · rw [h]
  · exact runAt_iff_of_shape h j

theorem modAt_getElem? (f : Thinker → Thinker) : ∀ (l : List Thinker) (k j : Nat),
    (modAt l k f)[j]? = if j = k then (l[j]?).map f else l[j]?
  | [], _, _ => by simp [modAt]
  | t :: ts, 0, 0 => by simp [modAt]
  | t :: ts, 0, j+1 => by simp [modAt]
  | t :: ts, k+1, 0 => by simp [modAt]
  | t :: ts, k+1, j+1 => by simp [modAt, modAt_getElem? f ts k j]

theorem modAt_append_singleton (f : Thinker → Thinker) (c : Thinker) : ∀ (a : List Thinker) (k : Nat),
    modAt (a ++ [c]) k f =
      if k < a.length then modAt a k f ++ [c] else if k = a.length then a ++ [f c] else a ++ [c]
  | [], 0 => by simp [modAt]
  | [], k+1 => by simp [modAt]
  | t :: ts, 0 => by simp [modAt]
  | t :: ts, k+1 => by
    simp only [List.cons_append, modAt, modAt_append_singleton f c ts k, List.length_cons, Nat.add_lt_add_iff_right,
      Nat.add_right_cancel_iff]
    split
    · rfl
    · split <;> rfl

theorem thinkers_grant (s : St) (k : Nat) :
    thinkers (grant s k) = if lockFree s then modAt (thinkers s) k Thinker.enter else thinkers s := by
  unfold grant thinkers
  by_cases hl : lockFree s = true
  · simp only [hl, Bool.not_true, Bool.false_eq_true, if_false, if_true]
    rw [modAt_append_singleton]
    split
    · rfl
    · split <;> rfl
  · simp [hl]

theorem lockFree_iff (s : St) : lockFree s = true ↔ ∀ j, ¬ RunAt s j := by
  unfold lockFree RunAt thinkers
  simp only [Bool.and_eq_true, bne_iff_ne, ne_eq, List.all_eq_true]
  constructor
  · rintro ⟨h1, h2⟩ j ⟨t, ht, hr⟩
    have hm : t ∈ s.old ++ [s.cur] := List.mem_of_getElem? ht
    simp only [List.mem_append, List.mem_singleton] at hm
    rcases hm with hm | rfl
    · exact h2 t hm hr
    · exact h1 hr
  · intro h
    refine ⟨?_, ?_⟩
    · intro hr
      exact h s.old.length ⟨s.cur, by simp, hr⟩
    · intro t ht hr
      obtain ⟨j, hj, hjt⟩ := List.getElem_of_mem ht
      exact h j ⟨t, by rw [List.getElem?_append_left hj, List.getElem?_eq_getElem hj, hjt], hr⟩

/-- with the lock free, `grant k` of a parked thinker puts exactly thinker `k` inside `GetMove` -/
theorem runAt_grant {s : St} {k : Nat} {t : Thinker} (hl : lockFree s = true) (ht : (thinkers s)[k]? = some t)
    (hw : t.st = .waiting) (j : Nat) : RunAt (grant s k) j ↔ j = k := by
  have hno := (lockFree_iff s).mp hl
  unfold RunAt
  rw [thinkers_grant, if_pos hl, modAt_getElem?]
  constructor
  · rintro ⟨u, hu, hr⟩
    by_cases hjk : j = k
    · exact hjk
    · rw [if_neg hjk] at hu
      exact absurd ⟨u, hu, hr⟩ (hno j)
  · rintro rfl
    rw [if_pos rfl, ht]
    exact ⟨t.enter, rfl, by simp [Thinker.enter, hw]⟩

theorem leave_not_running (t : Thinker) (m : Move) : (t.leave m).st ≠ .running := by
  unfold Thinker.leave
  split
  · simp
  · assumption

theorem runAt_of_modAt_leave (l : List Thinker) (k : Nat) (m : Move) (j : Nat) :
    (∃ t, (modAt l k (·.leave m))[j]? = some t ∧ t.st = .running) ↔ (∃ t, l[j]? = some t ∧ t.st = .running) ∧ j ≠ k := by
  rw [modAt_getElem?]
  by_cases hjk : j = k
  · rw [if_pos hjk]
    constructor
    · rintro ⟨t, ht, hr⟩
      cases hl : l[j]? with
      | none => rw [hl] at ht; cases ht
      | some u =>
        rw [hl] at ht
        simp only [Option.map_some, Option.some.injEq] at ht
        rw [← ht] at hr
        exact absurd hr (leave_not_running u m)
    · rintro ⟨_, hne⟩; exact absurd hjk hne
  · rw [if_neg hjk]
    exact ⟨fun h => ⟨h, hjk⟩, fun h => h.1⟩

/-- `aiReturns k m` takes exactly thinker `k` out of `GetMove` -/
theorem runAt_aiReturns (cfg : Conf) (s : St) (k : Nat) (m : Move) (j : Nat) :
    RunAt (aiReturns cfg s k m) j ↔ RunAt s j ∧ j ≠ k := by
  unfold aiReturns
  split
  · rename_i hk
    have : thinkers { s with old := modAt s.old k (·.leave m) } = modAt (thinkers s) k (·.leave m) := by
      unfold thinkers
      rw [modAt_append_singleton, if_pos hk]
    unfold RunAt
    rw [this]
    exact runAt_of_modAt_leave _ k m j
  · rename_i hk
    split
    · rename_i hk2
      have hmod : ∀ c : Thinker, c.st ≠ .running →
          ((∃ t, (s.old ++ [c])[j]? = some t ∧ t.st = .running) ↔ RunAt s j ∧ j ≠ k) := by
        intro c hc
        unfold RunAt thinkers
        by_cases hj : j < s.old.length
        · rw [List.getElem?_append_left hj, List.getElem?_append_left hj]
          exact ⟨fun h => ⟨h, by omega⟩, fun h => h.1⟩
        · rw [List.getElem?_append_right (Nat.le_of_not_lt hj), List.getElem?_append_right (Nat.le_of_not_lt hj)]
          cases hjj : j - s.old.length with
          | zero =>
            simp only [List.getElem?_cons_zero, Option.some.injEq]
            constructor
            · rintro ⟨t, rfl, h2⟩; exact absurd h2 hc
            · rintro ⟨_, hne⟩; omega
          | succ n => simp
      split
      · rename_i hrun
        split
        · -- the protocol goroutine takes the answer
          have hsh := shape_onAnswer cfg { s with cur := { s.cur with st := .done, cancelled := true } } m
          rw [runAt_iff_of_shape hsh j]
          exact hmod { s.cur with st := .done, cancelled := true } (by simp)
        · have hc : (s.cur.leave m).st ≠ .running := leave_not_running _ m
          exact hmod (s.cur.leave m) hc
      · rename_i hrun
        constructor
        · intro h
          refine ⟨h, ?_⟩
          rintro rfl
          obtain ⟨t, ht, hr⟩ := h
          unfold thinkers at ht
          rw [hk2, List.getElem?_append_right (Nat.le_refl _)] at ht
          simp only [Nat.sub_self, List.getElem?_cons_zero, Option.some.injEq] at ht
          rw [← ht] at hr
          exact hrun hr
        · exact fun h => h.1
    · constructor
      · intro h
        refine ⟨h, ?_⟩
        rintro rfl
        obtain ⟨t, ht, _⟩ := h
        have := (List.getElem?_eq_some_iff.mp ht).1
        unfold thinkers at this
        simp at this
        omega
      · exact fun h => h.1

/-! ## cancelled thinkers -/

theorem cancInv_of_shape {s s' : St} (h : Shape s s') (hr : s.status = .running) (hc : CancInv s) : CancInv s' := by
  rcases h with ⟨ho, hcur, hst⟩ | ⟨ho, _, hst⟩
  · refine ⟨by rw [ho]; exact hc.old, ?_⟩
    intro hn
    rcases hst with hst | hst
    · rw [hst] at hn; exact absurd hr hn
    · exact hst
  · refine ⟨?_, ?_⟩
    · rw [ho]
      intro t ht
      simp only [List.mem_append, List.mem_singleton] at ht
      rcases ht with ht | rfl
      · exact hc.old t ht
      · rfl
    · intro hn
      rw [hst] at hn
      exact absurd hr hn

theorem mem_modAt_of {f : Thinker → Thinker} : ∀ (l : List Thinker) (k : Nat) (t : Thinker),
    t ∈ modAt l k f → t ∈ l ∨ ∃ u ∈ l, t = f u
  | [], _, t, h => by simp [modAt] at h
  | u :: us, 0, t, h => by
    simp only [modAt, List.mem_cons] at h
    rcases h with rfl | h
    · exact .inr ⟨u, List.mem_cons_self, rfl⟩
    · exact .inl (List.mem_cons_of_mem _ h)
  | u :: us, k+1, t, h => by
    simp only [modAt, List.mem_cons] at h
    rcases h with rfl | h
    · exact .inl List.mem_cons_self
    · rcases mem_modAt_of us k t h with h | ⟨v, hv, rfl⟩
      · exact .inl (List.mem_cons_of_mem _ h)
      · exact .inr ⟨v, List.mem_cons_of_mem _ hv, rfl⟩

theorem enter_cancelled (t : Thinker) : t.enter.cancelled = t.cancelled := by
  unfold Thinker.enter; split <;> rfl

theorem leave_cancelled (t : Thinker) (m : Move) (h : t.cancelled = true) : (t.leave m).cancelled = true := by
  unfold Thinker.leave; split
  · rfl
  · exact h

theorem cancInv_step (cfg : Conf) (s : St) (e : Ev) (hc : CancInv s) : CancInv (step cfg s e) := by
  cases e with
  | deliver bits parsed accept =>
    rcases shape_step cfg s (.deliver bits parsed accept) rfl with h | ⟨hr, h⟩
    · rw [h]; exact hc
    · exact cancInv_of_shape h hr hc
  | close =>
    rcases shape_step cfg s .close rfl with h | ⟨hr, h⟩
    · rw [h]; exact hc
    · exact cancInv_of_shape h hr hc
  | timerFires =>
    rcases shape_step cfg s .timerFires rfl with h | ⟨hr, h⟩
    · rw [h]; exact hc
    · exact cancInv_of_shape h hr hc
  | grant k =>
    simp only [step, grant]
    split
    · exact hc
    · split
      · refine ⟨?_, hc.cur⟩
        intro t ht
        rcases mem_modAt_of _ _ _ ht with h | ⟨u, hu, rfl⟩
        · exact hc.old t h
        · rw [enter_cancelled]; exact hc.old u hu
      · split
        · exact ⟨hc.old, fun hn => by rw [enter_cancelled]; exact hc.cur hn⟩
        · exact hc
  | aiReturns k m =>
    simp only [step, aiReturns]
    split
    · refine ⟨?_, hc.cur⟩
      intro t ht
      rcases mem_modAt_of _ _ _ ht with h | ⟨u, hu, rfl⟩
      · exact hc.old t h
      · exact leave_cancelled u m (hc.old u hu)
    · split
      · split
        · split
          · rename_i hrl
            have hsh := shape_onAnswer cfg { s with cur := { s.cur with st := .done, cancelled := true } } m
            exact cancInv_of_shape hsh hrl.1 ⟨hc.old, fun _ => rfl⟩
          · rename_i hrun _
            refine ⟨hc.old, fun _ => ?_⟩
            simp [Thinker.leave, hrun]
        · exact hc
      · exact hc

theorem cancInv_run (cfg : Conf) (s : St) (evs : List Ev) (hc : CancInv s) : CancInv (run cfg s evs) := by
  induction evs generalizing s with
  | nil => exact hc
  | cons e es ih => exact ih _ (cancInv_step cfg s e hc)

/-- a thinker whose context is live is the thinker of the current invocation, and the loop is still running -/
theorem live_thinker_is_current {s : St} (hc : CancInv s) {k : Nat} {t : Thinker} (ht : (thinkers s)[k]? = some t)
    (hl : t.cancelled = false) : k = s.old.length ∧ t = s.cur ∧ s.status = .running := by
  unfold thinkers at ht
  by_cases hk : k < s.old.length
  · rw [List.getElem?_append_left hk] at ht
    have := hc.old t (List.mem_of_getElem? ht)
    rw [this] at hl; cases hl
  · rw [List.getElem?_append_right (Nat.le_of_not_lt hk)] at ht
    cases hkk : k - s.old.length with
    | zero =>
      rw [hkk] at ht
      simp only [List.getElem?_cons_zero, Option.some.injEq] at ht
      refine ⟨by omega, ht.symm, ?_⟩
      apply Classical.byContradiction
      intro hn
      have := hc.cur hn
      rw [ht, hl] at this; cases this
    | succ n => rw [hkk] at ht; simp at ht

end Tak.Bot
