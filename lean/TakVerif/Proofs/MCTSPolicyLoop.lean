import TakVerif.Impl.MCTSPolicy
import TakVerif.Proofs.ApplyTotal

/-! Helper lemmas for `Props/C04_policy.lean`: the retry loop of `UniformRandom.Select`, the generic shape of
`PlaceWins.Select` and of `rollout`, the buffer ping-pong.  No fact about Tak is used here beyond
"`MovePreallocated` returns a position or an error value" (`Tak.apply_ill`). -/
set_option linter.unusedVariables false
set_option linter.unusedSimpArgs false
namespace Proofs.MCTSPolicy
open Tak Tak.MCTS

/-- the panic of `Int31n(0)` -/
def noCandidate : Err := .panic "Int31n: invalid argument (no candidate move left)"

/-- `moves[0], moves[r] = moves[r], moves[0]; moves = moves[1:]` keeps every candidate but the tried one -/
theorem mem_drop {m0 : Move} {rest : List Move} {r : Nat} (hr : r < (m0 :: rest).length) {x : Move}
    (hx : x ∈ m0 :: rest) (hne : x ≠ (m0 :: rest).getD r m0) : x ∈ ((m0 :: rest).set r m0).tail := by
  cases r with
  | zero =>
    simp only [List.set_cons_zero, List.tail_cons]
    simp only [List.getD_cons_zero] at hne
    rcases List.mem_cons.mp hx with h | h
    · exact absurd h hne
    · exact h
  | succ r' =>
    simp only [List.set_cons_succ, List.tail_cons]
    simp only [List.getD_cons_succ] at hne
    have hr' : r' < rest.length := by simpa using hr
    rcases List.mem_cons.mp hx with h | h
    · subst h
      exact List.mem_iff_getElem.mpr ⟨r', by simpa using hr', by simp⟩
    · obtain ⟨j, hj, hjx⟩ := List.mem_iff_getElem.mp h
      have hjr : j ≠ r' := by
        intro e; subst e
        apply hne
        rw [← hjx, List.getD_eq_getElem?_getD, List.getElem?_eq_getElem hj]; rfl
      refine List.mem_iff_getElem.mpr ⟨j, by simpa using hj, ?_⟩
      rw [List.getElem_set]
      simp [Ne.symm hjr, hjx]

/-- … and introduces nothing new -/
theorem mem_of_mem_drop {m0 : Move} {rest : List Move} {r : Nat} {x : Move}
    (hx : x ∈ ((m0 :: rest).set r m0).tail) : x ∈ m0 :: rest := by
  have h1 : x ∈ (m0 :: rest).set r m0 := List.mem_of_mem_tail hx
  rcases List.mem_or_eq_of_mem_set h1 with h | h
  · exact h
  · subst h; exact List.mem_cons_self

theorem length_drop (m0 : Move) (rest : List Move) (r : Nat) :
    ((m0 :: rest).set r m0).tail.length = rest.length := by simp

theorem getD_mem {m0 : Move} {rest : List Move} {r : Nat} (hr : r < (m0 :: rest).length) :
    (m0 :: rest).getD r m0 ∈ m0 :: rest := by
  rw [List.getD_eq_getElem?_getD, List.getElem?_eq_getElem hr]
  exact List.getElem_mem hr

/-- **The retry loop.**  With fuel for every candidate: it answers with the successor by one of the candidates and
draws at least one and at most `len(moves)` numbers; it fails only when the rules refuse *every* candidate, and
then with the panic of `Int31n(0)` — never by running out of fuel, never with an error of `MovePreallocated`. -/
theorem uniformLoop_spec (basis : Array W) (p : Pos) (rnd : Nat → Nat) :
    ∀ (fuel : Nat) (moves : List Move) (k : Nat), moves.length ≤ fuel →
      (∀ q k', uniformLoop basis p rnd fuel moves k = .ok (q, k') →
        (∃ m ∈ moves, p.apply basis m = .ok q) ∧ k < k' ∧ k' ≤ k + moves.length) ∧
      (∀ e, uniformLoop basis p rnd fuel moves k = .error e →
        e = noCandidate ∧ ∀ m ∈ moves, ∃ w, p.apply basis m = .error (.illegal w)) := by
  intro fuel
  induction fuel with
  | zero =>
    intro moves k hlen
    cases moves with
    | nil =>
      refine ⟨fun q k' h => by simp [uniformLoop] at h, fun e h => ?_⟩
      simp only [uniformLoop] at h
      exact ⟨by cases h; rfl, fun m hm => by cases hm⟩
    | cons m0 rest => simp at hlen
  | succ fuel ih =>
    intro moves k hlen
    cases moves with
    | nil =>
      refine ⟨fun q k' h => by simp [uniformLoop] at h, fun e h => ?_⟩
      simp only [uniformLoop] at h
      exact ⟨by cases h; rfl, fun m hm => by cases hm⟩
    | cons m0 rest =>
      have hpos : 0 < (m0 :: rest).length := by simp
      have hr : rnd k % (m0 :: rest).length < (m0 :: rest).length := Nat.mod_lt _ hpos
      have hmem := getD_mem (m0 := m0) (rest := rest) hr
      have hlen' : ((m0 :: rest).set (rnd k % (m0 :: rest).length) m0).tail.length ≤ fuel := by
        rw [length_drop]; simpa using hlen
      obtain ⟨ih1, ih2⟩ := ih _ (k + 1) hlen'
      rw [uniformLoop]
      cases ha : p.apply basis ((m0 :: rest).getD (rnd k % (m0 :: rest).length) m0) with
      | ok next =>
        simp only [ha]
        refine ⟨fun q k' h => ?_, fun e h => by cases h⟩
        injection h with h
        injection h with h1 h2
        subst h1; subst h2
        exact ⟨⟨_, hmem, ha⟩, by omega, by simp⟩
      | error e0 =>
        obtain ⟨w, hw⟩ := apply_ill ha
        subst hw
        simp only [ha]
        refine ⟨fun q k' h => ?_, fun e h => ?_⟩
        · obtain ⟨⟨m, hm, hmq⟩, h1, h2⟩ := ih1 q k' h
          rw [length_drop] at h2
          exact ⟨⟨m, mem_of_mem_drop hm, hmq⟩, by omega, by simp; omega⟩
        · obtain ⟨he, hall⟩ := ih2 e h
          refine ⟨he, fun m hm => ?_⟩
          by_cases hne : m = (m0 :: rest).getD (rnd k % (m0 :: rest).length) m0
          · rw [hne]; exact ⟨w, ha⟩
          · exact hall m (mem_drop hr hm hne)

/-- `UniformRandom.Select` returns a legal successor whenever the generated list contains a legal move -/
theorem uniformSelect_ok (basis : Array W) (rnd : Nat → Nat) (p : Pos) (k : Nat)
    (hex : ∃ m ∈ p.allMoves, ∃ q, p.apply basis m = .ok q) :
    ∃ q k', uniformSelect basis rnd p k = .ok (q, k') ∧ (∃ m ∈ p.allMoves, p.apply basis m = .ok q) ∧
      k < k' ∧ k' ≤ k + p.allMoves.length := by
  obtain ⟨h1, h2⟩ := uniformLoop_spec basis p rnd p.allMoves.length p.allMoves k (Nat.le_refl _)
  unfold uniformSelect
  cases hr : uniformLoop basis p rnd p.allMoves.length p.allMoves k with
  | ok r =>
    obtain ⟨q, k'⟩ := r
    exact ⟨q, k', rfl, h1 q k' hr⟩
  | error e =>
    obtain ⟨m, hm, q, hq⟩ := hex
    obtain ⟨w, hw⟩ := (h2 e hr).2 m hm
    rw [hq] at hw; cases hw

/-- … and panics (`Int31n(0)`) exactly when it contains none -/
theorem uniformSelect_error (basis : Array W) (rnd : Nat → Nat) (p : Pos) (k : Nat) (e : Err)
    (h : uniformSelect basis rnd p k = .error e) :
    e = noCandidate ∧ ∀ m ∈ p.allMoves, ∃ w, p.apply basis m = .error (.illegal w) :=
  (uniformLoop_spec basis p rnd p.allMoves.length p.allMoves k (Nat.le_refl _)).2 e h

/-! ### `PlaceWins.Select` -/

/-- whatever `placeWinMove` proposes: if it does not panic and the uniform fallback works, the fixed `Select`
answers with the successor by some move (the proposed flat, the capstone on its square, or a generated move) -/
theorem placeWinsSelect_ok (basis : Array W) (c : Consts) (rnd : Nat → Nat) (p : Pos) (k : Nat) (mv : Move)
    (hmv : placeWinMove c p = .ok mv)
    (hex : ∃ m ∈ p.allMoves, ∃ q, p.apply basis m = .ok q) :
    ∃ q k', placeWinsSelect basis c rnd p k = .ok (q, k') ∧
      (∃ m, (m ∈ p.allMoves ∨ (mv.type ≠ 0 ∧ (m = mv ∨ m = { mv with type := Facts.mtPlaceCapstone }))) ∧
        p.apply basis m = .ok q) ∧
      k ≤ k' ∧ k' ≤ k + p.allMoves.length := by
  obtain ⟨q, k', hu, ⟨m, hmem, hm⟩, hk1, hk2⟩ := uniformSelect_ok basis rnd p k hex
  unfold placeWinsSelect
  simp only [hmv]
  by_cases ht : mv.type ≠ 0
  · rw [if_pos ht]
    cases h1 : p.apply basis mv with
    | ok out => exact ⟨out, k, rfl, ⟨mv, .inr ⟨ht, .inl rfl⟩, h1⟩, Nat.le_refl _, by omega⟩
    | error e1 =>
      obtain ⟨w1, hw1⟩ := apply_ill h1
      subst hw1
      simp only
      cases h2 : p.apply basis { mv with type := Facts.mtPlaceCapstone } with
      | ok out => exact ⟨out, k, rfl, ⟨_, .inr ⟨ht, .inr rfl⟩, h2⟩, Nat.le_refl _, by omega⟩
      | error e2 =>
        obtain ⟨w2, hw2⟩ := apply_ill h2
        subst hw2
        simp only
        exact ⟨q, k', hu, ⟨m, .inl hmem, hm⟩, by omega, hk2⟩
  · rw [if_neg ht]
    exact ⟨q, k', hu, ⟨m, .inl hmem, hm⟩, by omega, hk2⟩

/-! ### `rollout` -/

/-- **`rolloutLoop` is total** under an invariant that `Select` preserves on unfinished positions and on which the
evaluator is total: it returns -1, 0 or 1.  (By its recursion on the counter it calls `Select` at most
`MaxRollout` times.) -/
theorem rolloutLoop_total (select : Pos → Nat → R (Pos × Nat)) (eval : Pos → R Int) (thr : Int) (root : Color)
    (Inv : Pos → Prop)
    (hsel : ∀ p k, Inv p → p.gameOver.1 = false → ∃ q k', select p k = .ok (q, k') ∧ Inv q)
    (heval : ∀ p, Inv p → ∃ v, eval p = .ok v) :
    ∀ (n : Nat) (p : Pos) (k : Nat), Inv p →
      ∃ v k', rolloutLoop select eval thr root n p k = .ok (v, k') ∧ (v = -1 ∨ v = 0 ∨ v = 1) := by
  intro n
  induction n with
  | zero =>
    intro p k hi
    obtain ⟨v, hv⟩ := heval p hi
    simp only [rolloutLoop, hv]
    refine ⟨_, k, rfl, ?_⟩
    split
    · exact .inr (.inr rfl)
    · split
      · exact .inl rfl
      · exact .inr (.inl rfl)
  | succ n ih =>
    intro p k hi
    rw [rolloutLoop]
    rcases hg : p.gameOver with ⟨over, c⟩
    simp only
    cases over with
    | true =>
      simp only [if_true]
      refine ⟨_, k, rfl, ?_⟩
      unfold rolloutResult
      cases c <;> simp only <;> (try split) <;> simp
    | false =>
      simp only [Bool.false_eq_true, if_false]
      obtain ⟨q, k', hs, hq⟩ := hsel p k hi (by rw [hg])
      simp only [hs]
      exact ih q k' hq

/-- the number of draws of a rollout is bounded by (number of steps) × (bound on a step's draws) -/
theorem rolloutLoop_draws (select : Pos → Nat → R (Pos × Nat)) (eval : Pos → R Int) (thr : Int) (root : Color)
    (B : Nat) (hsel : ∀ p k q k', select p k = .ok (q, k') → k ≤ k' ∧ k' ≤ k + B) :
    ∀ (n : Nat) (p : Pos) (k : Nat) (v : Int) (k' : Nat),
      rolloutLoop select eval thr root n p k = .ok (v, k') → k ≤ k' ∧ k' ≤ k + n * B := by
  intro n
  induction n with
  | zero =>
    intro p k v k' h
    simp only [rolloutLoop] at h
    split at h
    · cases h
    · injection h with h; injection h with _ h2; subst h2; omega
  | succ n ih =>
    intro p k v k' h
    rw [rolloutLoop] at h
    rcases hg : p.gameOver with ⟨over, c⟩
    rw [hg] at h
    simp only at h
    cases over with
    | true =>
      simp only [if_true] at h
      injection h with h; injection h with _ h2; subst h2
      exact ⟨Nat.le_refl _, Nat.le_add_right _ _⟩
    | false =>
      simp only [Bool.false_eq_true, if_false] at h
      cases hs : select p k with
      | error e => rw [hs] at h; cases h
      | ok r =>
        obtain ⟨q, k1⟩ := r
        rw [hs] at h
        simp only at h
        obtain ⟨a1, a2⟩ := hsel p k q k1 hs
        obtain ⟨b1, b2⟩ := ih q k1 v k' h
        refine ⟨by omega, ?_⟩
        rw [Nat.succ_mul]; omega

/-! ### the buffer ping-pong -/

/-- **Storage discipline of `rollout`.**  Let `clone` be the buffer of `t.position.Clone()` and `alloc` the
policy's scratch, two different buffers.  Then at every `Select` call of the rollout the argument and the scratch
are exactly these two buffers, in alternating roles: the policy is never handed its own scratch (it would apply
the move onto the position it reads), and no third buffer — in particular none of the tree — is ever handed over
or written. -/
theorem rolloutBufs_pingpong (clone alloc : Nat) (h : clone ≠ alloc) :
    ∀ (n : Nat) (a s : Nat), (a = clone ∧ s = alloc) ∨ (a = alloc ∧ s = clone) →
      ∀ x ∈ rolloutBufs n a s, x.1 ≠ x.2 ∧ (x.1 = clone ∨ x.1 = alloc) ∧ (x.2 = clone ∨ x.2 = alloc) := by
  intro n
  induction n with
  | zero => intro a s _ x hx; simp [rolloutBufs] at hx
  | succ n ih =>
    intro a s hs x hx
    simp only [rolloutBufs, selectBufs, List.mem_cons] at hx
    rcases hx with hx | hx
    · subst hx
      rcases hs with ⟨h1, h2⟩ | ⟨h1, h2⟩ <;> subst h1 <;> subst h2
      · exact ⟨h, .inl rfl, .inr rfl⟩
      · exact ⟨Ne.symm h, .inr rfl, .inl rfl⟩
    · have hs' : (s = clone ∧ a = alloc) ∨ (s = alloc ∧ a = clone) := by
        rcases hs with h' | h'
        · exact .inr ⟨h'.2, h'.1⟩
        · exact .inl ⟨h'.2, h'.1⟩
      exact ih s a hs' x hx

end Proofs.MCTSPolicy
