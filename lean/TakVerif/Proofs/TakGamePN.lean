import TakVerif.Proofs.C06Top
import TakVerif.Proofs.C06Tak
import TakVerif.Proofs.AllMovesOnBoard
import TakVerif.Proofs.ApplyCfg

/-! The standing assumptions of the proof-number theorems (C06), discharged for the bit-level Tak game
`takGame basis` on the positions a search can reach from a root of size ≤ 8. -/
namespace C06
open Tak Tak.PN Spec.Game Tak.Proofs

theorem slidesTable_rows_short : (slidesTable.toList.all (fun r => decide (r.length ≤ 255))) = true := by
  decide +kernel

theorem slidesTable_getD_length (h : Nat) : (slidesTable.getD h []).length ≤ 255 := by
  by_cases hh : h < slidesTable.size
  · have := slidesTable_rows_short
    rw [List.all_eq_true] at this
    have hm : slidesTable.getD h [] ∈ slidesTable.toList := by
      rw [Array.getD_eq_getD_getElem?, Array.getElem?_eq_getElem hh]
      simp
    simpa using this _ hm
  · rw [Array.getD_eq_getD_getElem?, Array.getElem?_eq_none (by omega)]
    simp

theorem length_flatMap_le {α β : Type} (f : α → List β) (k : Nat) :
    ∀ (l : List α), (∀ a ∈ l, (f a).length ≤ k) → (l.flatMap f).length ≤ l.length * k := by
  intro l
  induction l with
  | nil => intro _; simp
  | cons a l ih =>
    intro h
    rw [List.flatMap_cons, List.length_append, List.length_cons, Nat.succ_mul]
    have h1 := h a List.mem_cons_self
    have h2 := ih (fun x hx => h x (List.mem_cons_of_mem _ hx))
    omega

theorem placeMoves_length (p : Pos) (x y : Nat) : (placeMoves p x y).length ≤ 3 := by
  unfold placeMoves
  split
  · split <;> simp
  · simp

theorem slideMoves_length (p : Pos) (x y : Nat) : (slideMoves p x y).length ≤ 1020 := by
  unfold slideMoves
  have := length_flatMap_le (fun dc : Nat × Nat =>
    ((slidesTable.getD (carryAt p (y * p.cfg.size + x)) []).filter (fun s => s &&& maskOf dc.2 == 0#32)).map
      (fun s => (⟨x, y, dc.1, s⟩ : Move))) 255 (dirList p.cfg.size x y) (by
      intro dc _
      rw [List.length_map]
      exact Nat.le_trans (List.length_filter_le _ _) (slidesTable_getD_length _))
  have hl : (dirList p.cfg.size x y).length = 4 := rfl
  rw [hl] at this
  exact this

theorem sqMoves_length (p : Pos) (x y : Nat) : (sqMoves p x y).length ≤ 1020 := by
  unfold sqMoves
  dsimp only
  have h1 := placeMoves_length p x y
  have h2 := slideMoves_length p x y
  repeat' split
  all_goals first | omega | simp

/-- `AllMoves` lists at most 1020 moves per square (3 placements, or 4 directions × 255 ways to drop
at most 8 carried pieces) -/
theorem allMoves_length (p : Pos) : p.allMoves.length ≤ p.cfg.size * (p.cfg.size * 1020) := by
  rw [allMoves_eq]
  have inner : ∀ x, ((List.range p.cfg.size).flatMap (fun y => sqMoves p x y)).length ≤ p.cfg.size * 1020 := by
    intro x
    have := length_flatMap_le (fun y => sqMoves p x y) 1020 (List.range p.cfg.size) (fun y _ => sqMoves_length p x y)
    rw [List.length_range] at this
    exact this
  have := length_flatMap_le (fun x => (List.range p.cfg.size).flatMap (fun y => sqMoves p x y)) (p.cfg.size * 1020)
    (List.range p.cfg.size) (fun x _ => inner x)
  rw [List.length_range] at this
  exact this

theorem allMoves_small (p : Pos) (h8 : p.cfg.size ≤ 8) : p.allMoves.length < 2 ^ 32 := by
  have h := allMoves_length p
  have : p.cfg.size * (p.cfg.size * 1020) ≤ 8 * (8 * 1020) :=
    Nat.mul_le_mul h8 (Nat.mul_le_mul_right _ h8)
  omega

/-- play never changes the configuration -/
theorem reach_cfg (basis : Array W) {root p : Pos} (h : Reach (takGame basis) root p) : p.cfg = root.cfg := by
  induction h with
  | refl => rfl
  | @step s s' _ hs ih =>
    obtain ⟨m, _, ha⟩ := hs
    simp only [takGame] at ha
    split at ha
    · rename_i q hq
      injection ha with ha; subst ha
      rw [apply_cfg hq, ih]
    · cases ha

/-- fewer than 2³² moves in every position a search from a root of size ≤ 8 can reach -/
theorem takGame_smallFrom (basis : Array W) (root : Pos) (h8 : root.cfg.size ≤ 8) :
    SmallFrom (takGame basis) root := by
  intro s hr
  have : s.cfg.size ≤ 8 := by rw [reach_cfg basis hr]; exact h8
  exact allMoves_small s this

/-- **the standing assumptions of the proof-number theorems hold for Tak**, for the attacker `takProve`
uses (the side to move at the root), on boards up to 8×8 — nothing else is asked of the root -/
theorem takGame_okFrom (basis : Array W) (root : Pos) (h8 : root.cfg.size ≤ 8) :
    GameOKFrom (takGame basis) root.toMove root where
  alt := takGame_alternating basis
  att := (takGame_alternating basis).binary root
  small := takGame_smallFrom basis root h8

end C06
