import TakVerif.Proofs.Bot

/-! `g.moveLock` in the model: at most one thinker is inside `GetMove` (C07 `lock_exclusive`). -/
namespace Tak.Bot

theorem nRunning_append (a b : List Thinker) : nRunning (a ++ b) = nRunning a + nRunning b := by
  simp [nRunning, List.filter_append]

theorem nRunning_zero_of_all {l : List Thinker} (h : l.all (fun t => t.st != .running) = true) : nRunning l = 0 := by
  induction l with
  | nil => rfl
  | cons t ts ih =>
    simp only [List.all_cons, Bool.and_eq_true] at h
    have ht : ¬ t.st = .running := by simpa using h.1
    have := ih h.2
    simp [nRunning, ht] at this ⊢
    exact this

theorem nRunning_modAt_enter (l : List Thinker) (k : Nat) : nRunning (modAt l k Thinker.enter) ≤ nRunning l + 1 := by
  induction l generalizing k with
  | nil => simp [modAt, nRunning]
  | cons t ts ih =>
    cases k with
    | zero =>
      simp only [modAt, nRunning, List.filter_cons]
      unfold Thinker.enter
      split <;> split <;> simp_all <;> omega
    | succ k =>
      have := ih k
      simp only [modAt, nRunning, List.filter_cons] at this ⊢
      split <;> simp_all <;> omega

theorem nRunning_modAt_leave (l : List Thinker) (k : Nat) (m : Move) : nRunning (modAt l k (·.leave m)) ≤ nRunning l := by
  induction l generalizing k with
  | nil => simp [modAt, nRunning]
  | cons t ts ih =>
    cases k with
    | zero =>
      simp only [modAt, nRunning, List.filter_cons]
      unfold Thinker.leave
      split <;> split <;> simp_all
    | succ k =>
      have := ih k
      simp only [modAt, nRunning, List.filter_cons] at this ⊢
      split <;> simp_all

theorem holders_congr {s t : St} (h1 : t.old = s.old) (h2 : t.cur.st = s.cur.st) : holders t = holders s := by
  simp [holders, h1, h2]

theorem holders_spawn (cfg : Conf) (s : St) : holders (spawn cfg s) = nRunning s.old := by
  simp only [holders, spawn]
  split <;> simp

theorem holders_retFalse (cfg : Conf) (s : St) : holders (retFalse cfg s) = holders s := by
  rw [retFalse, holders_spawn]
  simp only [holders, nRunning_append]
  by_cases h : s.cur.st = .running <;> simp [nRunning, h]

theorem holders_retTrue (s : St) : holders (retTrue s) = holders s := holders_congr rfl rfl
theorem holders_crash (s : St) (e : Err) : holders (s.crash e) = holders s := holders_congr rfl rfl

theorem holders_srvPush (cfg : Conf) (s : St) (m : Move) : holders (srvPush cfg s m) = holders s := by
  unfold srvPush; split
  · rfl
  · split <;> rfl

theorem holders_srvAccept (cfg : Conf) (s : St) (m : Move) : holders (srvAccept cfg s m) = holders s := by
  unfold srvAccept; split
  · rfl
  · split
    · exact holders_srvPush cfg s m
    · rfl

theorem holders_srvPop (s : St) : holders (srvPop s) = holders s := by
  unfold srvPop; split <;> rfl

theorem holders_onServerMove (cfg : Conf) (s : St) (p : Option Move) : holders (onServerMove cfg s p) = holders s := by
  unfold onServerMove
  split
  · exact holders_crash s _
  · simp only
    split
    · rw [holders_crash, holders_srvPush]
    · rw [← holders_srvPush cfg s]; exact holders_congr rfl rfl

theorem holders_onTime (cfg : Conf) (s : St) (args : List String) : holders (onTime cfg s args) = holders s := by
  unfold onTime
  split
  · simp only
    split <;> split <;> first | (rw [holders_retFalse]; exact holders_congr rfl rfl) | exact holders_congr rfl rfl
  · exact holders_crash s _

theorem holders_onRequestUndo (s : St) (a : Bool) : holders (onRequestUndo s a) = holders s := by
  unfold onRequestUndo; split
  · exact holders_congr rfl rfl
  · rfl

theorem holders_onUndo (cfg : Conf) (s : St) : holders (onUndo cfg s) = holders s := by
  unfold onUndo
  simp only
  split
  · rw [holders_crash, holders_srvPop]
  · split
    · rw [holders_crash]; exact (holders_congr rfl rfl).trans (holders_srvPop s)
    · split
      · rw [holders_crash]; exact (holders_congr rfl rfl).trans (holders_srvPop s)
      · rw [holders_retFalse]; exact (holders_congr rfl rfl).trans (holders_srvPop s)

theorem holders_onGameLine (cfg : Conf) (s : St) (rest : List String) (p : Option Move) (a : Bool) :
    holders (onGameLine cfg s rest p a) = holders s := by
  unfold onGameLine
  split
  · exact holders_crash s _
  · split
    · exact holders_onServerMove cfg s p
    · split
      · exact holders_retTrue s
      · split
        · split
          · exact holders_crash s _
          · exact holders_congr rfl rfl
        · split
          · exact holders_onTime cfg s _
          · split
            · exact holders_onRequestUndo s a
            · split
              · exact holders_onUndo cfg s
              · rfl

theorem holders_onLine (cfg : Conf) (s : St) (bits : List String) (p : Option Move) (a : Bool) :
    holders (onLine cfg s bits p a) = holders s := by
  unfold onLine
  split
  · rfl
  · split
    · exact holders_onGameLine cfg s _ p a
    · split
      · exact holders_onGameLine cfg s _ p a
      · rfl

theorem holders_onAnswer (cfg : Conf) (s : St) (m : Move) : holders (onAnswer cfg s m) = holders s := by
  unfold onAnswer
  split
  · exact holders_retFalse cfg s
  · exact holders_crash s _
  · simp only
    rw [holders_retFalse]
    refine (holders_congr rfl rfl).trans ((holders_srvAccept cfg _ m).trans (holders_congr rfl rfl))

theorem holders_zero_of_lockFree {s : St} (h : lockFree s = true) : holders s = 0 := by
  simp only [lockFree, Bool.and_eq_true] at h
  have h1 : ¬ s.cur.st = .running := by simpa using h.1
  simp [holders, nRunning_zero_of_all h.2, h1]

theorem holders_grant (s : St) (k : Nat) (h : holders s ≤ 1) : holders (grant s k) ≤ 1 := by
  unfold grant
  split
  · exact h
  · rename_i hl
    have h0 := holders_zero_of_lockFree (by simpa using hl)
    simp only [holders] at h0
    split
    · have := nRunning_modAt_enter s.old k
      simp only [holders]; omega
    · split
      · simp only [holders]; split <;> omega
      · exact h

theorem holders_aiReturns (cfg : Conf) (s : St) (k : Nat) (m : Move) (h : holders s ≤ 1) : holders (aiReturns cfg s k m) ≤ 1 := by
  unfold aiReturns
  split
  · have := nRunning_modAt_leave s.old k m
    simp only [holders] at h ⊢; omega
  · split
    · split
      · split
        · rw [holders_onAnswer]
          simp only [holders] at h ⊢
          simp; omega
        · rename_i hr _
          simp only [holders, Thinker.leave, hr] at h ⊢
          simp; omega
      · exact h
    · exact h

theorem holders_step (cfg : Conf) (s : St) (e : Ev) (h : holders s ≤ 1) : holders (step cfg s e) ≤ 1 := by
  cases e with
  | deliver bits p a => simp only [step]; split <;> simp [holders_onLine, h]
  | close => simp only [step]; split <;> simp [holders_retTrue, h]
  | timerFires => simp only [step]; split <;> simp [holders_retFalse, h]
  | grant k => exact holders_grant s k h
  | aiReturns k m => exact holders_aiReturns cfg s k m h

theorem holders_run (cfg : Conf) (s : St) (evs : List Ev) (h : holders s ≤ 1) : holders (run cfg s evs) ≤ 1 := by
  induction evs generalizing s with
  | nil => exact h
  | cons e es ih => exact ih _ (holders_step cfg s e h)

theorem holders_start (cfg : Conf) (size : Nat) (secs : Int) : holders (start cfg size secs) ≤ 1 := by
  unfold start
  split
  · exact Nat.le_trans (Nat.le_of_eq (holders_congr (s := default) rfl rfl)) (by decide)
  · rw [holders_spawn]; simp [nRunning]

end Tak.Bot
