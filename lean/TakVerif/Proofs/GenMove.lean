import TakVerif.Impl.Move
import TakVerif.Generated.FuncsMove

/-! Bridges between the hand-written `Move` helpers of `Impl/Move.lean` and the definitions regenerated from
`tak/slide.go` (`Slides.Len`: a `for s != 0` loop, whitelist fuel 8, proved sufficient) and `tak/move.go`
(`Move.IsSlide`, `Move.Equal`, `Move.Dest`; int8 arithmetic = `Int` with `wrap8` after every step).
Restated in `Props/C05_gen`, `C14_gen`, `C20_gen` (the properties whose models call these helpers). -/
namespace GenMove
open Tak


/-- the model's `Move` as the regenerated `tak.Move` struct (`Type` is a byte) -/
def genMove (m : Move) : Gen.Move := { X := m.x, Y := m.y, Type_ := BitVec.ofNat 8 m.type, Slides := m.slides }

/-- the model's `wrap8` is the one of the generated prelude -/
theorem wrap8_is_source (v : Int) : wrap8 v = Gen.wrap8 v := rfl

/-- the counter of the regenerated `Len` loop after `n` rounds is the number of nibbles the model's iteration yields -/
theorem slidesLen_loop_fst (n : Nat) (l : Int) (s : BitVec 32) :
    (Gen.slidesLen_loop0 n (l, s)).1 = l + (slideElems n s).length := by
  induction n generalizing l s with
  | zero => simp [Gen.slidesLen_loop0, slideElems]
  | succ n ih =>
    by_cases h : s = 0#32
    · subst h; simp [Gen.slidesLen_loop0, slideElems]
    · have hb : (s != 0#32) = true := by simpa using h
      have hb' : (s == 0#32) = false := by simpa using h
      simp only [Gen.slidesLen_loop0, hb, slideElems, hb', if_true]
      rw [ih]; simp; omega

/-- after `n` rounds the word of the regenerated `Len` loop is 0 or `s >>> 4n` -/
theorem slidesLen_loop_snd (n : Nat) (l : Int) (s : BitVec 32) :
    (Gen.slidesLen_loop0 n (l, s)).2 = 0#32 ∨ (Gen.slidesLen_loop0 n (l, s)).2 = s >>> (4 * n) := by
  induction n generalizing l s with
  | zero => right; simp [Gen.slidesLen_loop0]
  | succ n ih =>
    by_cases h : s = 0#32
    · subst h; left; simp [Gen.slidesLen_loop0]
    · have hb : (s != 0#32) = true := by simpa using h
      simp only [Gen.slidesLen_loop0, hb, if_true]
      rcases ih (l + 1) (s >>> 4) with h0 | h1
      · left; exact h0
      · right; rw [h1, ← BitVec.shiftRight_add]; congr 1; omega

/-- the whitelisted fuel 8 of the `for s != 0` loop of `Slides.Len` suffices for every 32-bit word -/
theorem slidesLen_fuel (l : Int) (s : BitVec 32) :
    Gen.slidesLen_loop0_more (Gen.slidesLen_loop0 8 (l, s)) = false := by
  have h := slidesLen_loop_snd 8 l s
  have hz : s >>> (4 * 8) = 0#32 := by
    apply BitVec.eq_of_toNat_eq
    simp [BitVec.toNat_ushiftRight, Nat.shiftRight_eq_div_pow]
    omega
  rw [hz] at h
  have h2 : (Gen.slidesLen_loop0 8 (l, s)).2 = 0#32 := by rcases h with h | h <;> exact h
  unfold Gen.slidesLen_loop0_more
  generalize Gen.slidesLen_loop0 8 (l, s) = r at h2
  obtain ⟨a, b⟩ := r
  simp at h2; simp [h2]

/-- `Slides.Len` -/
theorem slidesLen_is_source (s : BitVec 32) : (Slides.len s : Int) = Gen.slidesLen s := by
  unfold Gen.slidesLen Slides.len Slides.elems
  have h := slidesLen_loop_fst 8 0 s
  show _ = (Gen.slidesLen_loop0 8 (0, s)).1
  rw [h]; simp


/-- a slide word has at most 8 nibbles -/
theorem slidesLen_le (s : BitVec 32) : Slides.len s ≤ 8 := by
  have h : ∀ n s, (slideElems n s).length ≤ n := by
    intro n; induction n with
    | zero => intro s; simp [slideElems]
    | succ n ih => intro s; simp only [slideElems]; split <;> simp; exact ih _
  exact h 8 s

/-- comparing two bytes below 256 as `BitVec 8` or as numbers is the same -/
theorem ofNat8_eq (a b : Nat) (ha : a < 256) (hb : b < 256) : (BitVec.ofNat 8 a == BitVec.ofNat 8 b) = (a == b) := by
  by_cases h : a = b
  · subst h; simp
  · have : ¬ (BitVec.ofNat 8 a = BitVec.ofNat 8 b) := by
      intro hh; have := congrArg BitVec.toNat hh; simp at this; omega
    have h1 : (BitVec.ofNat 8 a == BitVec.ofNat 8 b) = false := by simpa using this
    have h2 : (a == b) = false := by simpa using h
    rw [h1, h2]

/-- `Move.IsSlide` (the model carries `Type` as a number; a Go `MoveType` is a byte) -/
theorem isSlide_is_source (m : Move) (h : m.type < 256) : m.isSlide = Gen.moveIsSlide (genMove m) := by
  unfold Move.isSlide Gen.moveIsSlide genMove Facts.mtSlideLeft
  simp [BitVec.le_def, Nat.mod_eq_of_lt h]

/-- `Move.Equal` -/
theorem equal_is_source (m r : Move) (hm : m.type < 256) (hr : r.type < 256) :
    m.equal r = Gen.moveEqual (genMove m) (genMove r) := by
  unfold Move.equal Gen.moveEqual
  rw [← isSlide_is_source m hm]
  have ht : ((genMove m).Type_ != (genMove r).Type_) = (m.type != r.type) := by
    simp only [genMove, bne, ofNat8_eq _ _ hm hr]
  rw [ht]
  simp only [genMove]
  by_cases hx : m.x = r.x <;> by_cases hy : m.y = r.y <;> by_cases hty : m.type = r.type <;>
    by_cases hs : m.slides = r.slides <;> cases m.isSlide <;> simp [hx, hy, hty, hs]

/-- `Move.Dest` (`none` = `panic("bad type")`) -/
theorem dest_is_source (m : Move) (h : m.type < 256) : m.dest = Gen.moveDest (genMove m) := by
  have hl := slidesLen_le m.slides
  have hw : Gen.wrap8 (Gen.slidesLen m.slides) = (Slides.len m.slides : Int) := by
    rw [← slidesLen_is_source]; unfold Gen.wrap8; omega
  unfold Move.dest Gen.moveDest
  simp only [genMove, hw, ← wrap8_is_source]
  have e : ∀ k : Nat, k < 256 → ((BitVec.ofNat 8 m.type == BitVec.ofNat 8 k) = (m.type == k)) := fun k hk => ofNat8_eq _ _ h hk
  have e2 := e 2 (by omega); have e3 := e 3 (by omega); have e4 := e 4 (by omega); have e5 := e 5 (by omega)
  have e6 := e 6 (by omega); have e7 := e 7 (by omega); have e8 := e 8 (by omega)
  simp only [e2, e3, e4, e5, e6, e7, e8, Facts.mtPlaceFlat, Facts.mtPlaceStanding, Facts.mtPlaceCapstone,
    Facts.mtSlideLeft, Facts.mtSlideRight, Facts.mtSlideUp, Facts.mtSlideDown]
  rfl

example : (⟨2, 3, 6, 0x121#32⟩ : Move).dest = some (5, 3) ∧ Gen.moveDest (genMove ⟨2, 3, 6, 0x121#32⟩) = some (5, 3) := by decide

end GenMove
