import TakVerif.Proofs.MCTS
import TakVerif.Impl.MCTSPolicy

/-! Helper lemmas for `Props/C04_policy.lean`: the main loop of `GetMove` with the rollouts run (`loopR`).
Every position stored in the search tree is the root or a successor by a legal generated move, so a property kept by
such moves holds of every node a rollout starts from; and `loop` under the replaying oracle rebuilds the tree of `loopR`. -/
set_option linter.unusedVariables false
set_option linter.unusedSimpArgs false
namespace Proofs.MCTSPolicy
open Tak Tak.MCTS Proofs.MCTS

/-! ### `update` never touches a node's position -/

/-- `a'` has the same positions as `a` -/
def SamePos (a a' : Arena) : Prop := a'.size = a.size ∧ ∀ i : Nat, (a'[i]?).map (·.pos) = (a[i]?).map (·.pos)

theorem SamePos.refl (a : Arena) : SamePos a a := ⟨rfl, fun _ => rfl⟩
theorem SamePos.trans {a b c : Arena} (h1 : SamePos a b) (h2 : SamePos b c) : SamePos a c :=
  ⟨h2.1.trans h1.1, fun i => (h2.2 i).trans (h1.2 i)⟩

theorem samePos_set (a : Arena) (t : Nat) (n x : Node) (hn : a[t]? = some n) (hk : x.pos = n.pos) :
    SamePos a (a.setIfInBounds t x) := by
  refine ⟨by simp, ?_⟩
  intro i
  rw [Array.getElem?_setIfInBounds]
  by_cases h : t = i
  · subst h
    have hlt : t < a.size := by
      rcases Nat.lt_or_ge t a.size with h | h
      · exact h
      · rw [Array.getElem?_eq_none h] at hn; cases hn
    have hget : a[t] = n := by
      have := Array.getElem?_eq_getElem hlt
      rw [this] at hn
      exact Option.some.inj hn
    simp [hlt, hn, hk, hget]
  · simp [h]

theorem samePos_setProven (a : Arena) (t : Nat) (v : Int) : SamePos a (setProven a t v) := by
  unfold setProven
  cases h : a[t]? with
  | none => exact SamePos.refl a
  | some n => exact samePos_set a t n _ h rfl

theorem samePos_ite {a x y : Arena} (c : Prop) [Decidable c] (h1 : SamePos a x) (h2 : SamePos a y) :
    SamePos a (if c then x else y) := by split <;> assumption

theorem update_samePos : ∀ (fuel : Nat) (a : Arena) (t : Option Nat) (v : Int), SamePos a (update fuel a t v) := by
  intro fuel
  induction fuel with
  | zero => intro a t v; simp only [update]; exact SamePos.refl a
  | succ fuel ih =>
    intro a t v
    cases t with
    | none => simp only [update]; exact SamePos.refl a
    | some t =>
      simp only [update]
      cases h0 : a[t]? with
      | none => exact SamePos.refl a
      | some n0 =>
        simp only
        have hkx : ({ n0 with sims := n0.sims + 1 } : Node).pos = n0.pos := rfl
        generalize ({ n0 with sims := n0.sims + 1 } : Node) = x at hkx ⊢
        have s1 : SamePos a (a.setIfInBounds t x) := samePos_set a t n0 x h0 hkx
        by_cases hp : n0.proven ≠ 0
        · rw [if_pos hp]
          cases hpar : n0.parent with
          | none => exact s1
          | some par =>
            simp only
            by_cases hneg : n0.proven < 0
            · rw [if_pos hneg]
              exact s1.trans ((samePos_setProven _ par 1).trans (ih _ _ _))
            · rw [if_neg hneg]
              exact s1.trans (SamePos.trans (samePos_ite _ (samePos_setProven _ par (-1)) (SamePos.refl _)) (ih _ _ _))
        · rw [if_neg hp]
          refine s1.trans (SamePos.trans ?_ (ih _ _ _))
          cases h1 : (a.setIfInBounds t x)[t]? with
          | none => exact SamePos.refl _
          | some n1 => exact samePos_set _ t n1 _ h1 rfl

/-! ### a property of every stored position -/

/-- every node of the tree holds a position with property `P` -/
def AllPos (P : Pos → Prop) (a : Arena) : Prop := ∀ (i : Nat) (n : Node), a[i]? = some n → P n.pos

theorem AllPos.of_samePos {P : Pos → Prop} {a a' : Arena} (h : AllPos P a) (hs : SamePos a a') : AllPos P a' := by
  intro i n hn
  have := hs.2 i
  rw [hn] at this
  cases ha : a[i]? with
  | none => rw [ha] at this; cases this
  | some n0 =>
    rw [ha] at this
    simp only [Option.map, Option.some.injEq] at this
    rw [this]; exact h i n0 ha

/-- `populate` stores the node's legal successors and nothing else -/
theorem AllPos.populate {P : Pos → Prop} (basis : Array W) {a : Arena} (t : Nat) (h : AllPos P a)
    (hstep : ∀ p m q, P p → (m, q) ∈ legalChildren basis p → P q) : AllPos P (populate basis a t) := by
  unfold Tak.MCTS.populate
  cases ht : a[t]? with
  | none => exact h
  | some node =>
    simp only
    intro i n hn
    rw [Array.getElem?_append] at hn
    split at hn
    · rename_i hi
      rw [Array.getElem?_setIfInBounds] at hn
      split at hn
      · split at hn
        · injection hn with hn; subst hn; exact h t node ht
        · cases hn
      · exact h i n hn
    · rw [List.getElem?_toArray, List.getElem?_map] at hn
      cases hk : (legalChildren basis node.pos)[i - (a.setIfInBounds t { node with children := _ }).size]? with
      | none => rw [hk] at hn; cases hn
      | some mq =>
        rw [hk] at hn
        simp only [Option.map, Option.some.injEq] at hn
        subst hn
        exact hstep node.pos mq.1 mq.2 (h t node ht) (List.mem_of_getElem? hk)

/-! ### the loop with the rollouts run -/

/-- **`loopR` is total** when every stored position has a property `P` that legal generated moves keep and on which
the rollout is total -/
theorem loopR_ok (basis : Array W) (o : Oracle) (roll : Pos → Nat → R (Int × Nat)) (P : Pos → Prop)
    (hstep : ∀ p m q, P p → (m, q) ∈ legalChildren basis p → P q)
    (hroll : ∀ p k, P p → ∃ v k', roll p k = .ok (v, k')) :
    ∀ (left j : Nat) (a : Arena) (k : Nat), AllPos P a →
      ∃ a' k' vals, loopR basis o roll left j a k = .ok (a', k', vals) := by
  intro left
  induction left with
  | zero => intro j a k _; exact ⟨a, k, [], rfl⟩
  | succ left ih =>
    intro j a k ha
    rw [loopR]
    have ha1 := ha.populate basis (descend (o.pick j) (a.size + 1) a 0) hstep
    generalize populate basis a (descend (o.pick j) (a.size + 1) a 0) = a1 at ha1 ⊢
    generalize descend (o.pick j) (a.size + 1) a 0 = node
    simp only
    split
    · exact ⟨_, _, _, rfl⟩
    · split
      · -- the rollout failed: impossible
        rename_i e heq
        exfalso
        split at heq
        · split at heq
          · rename_i nd hnd
            obtain ⟨v, k', hv⟩ := hroll nd.pos k (ha1 node nd hnd)
            rw [hv] at heq; cases heq
          · cases heq
        · cases heq
      · rename_i val k' heq
        obtain ⟨a', k'', vals, h⟩ := ih (j + 1) (update (a1.size + 1) a1 (some node) val) k'
          (ha1.of_samePos (update_samePos _ _ _ _))
        rw [h]
        exact ⟨_, _, _, rfl⟩

/-- `loop` consults the rollout oracle only at its own and later iterations -/
theorem loop_congr (basis : Array W) (o1 o2 : Oracle) (hp : o1.pick = o2.pick) :
    ∀ (left j : Nat) (a : Arena), (∀ j' nd, j ≤ j' → o1.rollout j' nd = o2.rollout j' nd) →
      loop basis o1 left j a = loop basis o2 left j a := by
  intro left
  induction left with
  | zero => intro j a _; rfl
  | succ left ih =>
    intro j a h
    simp only [loop]
    rw [hp, h j _ (Nat.le_refl _)]
    split
    · rfl
    · exact ih (j + 1) _ (fun j' nd hj => h j' nd (by omega))

/-- **The tree `loopR` builds is the tree `loop` builds under the oracle replaying the recorded rollout values.** -/
theorem loopR_replay (basis : Array W) (o : Oracle) (roll : Pos → Nat → R (Int × Nat)) :
    ∀ (left j : Nat) (a : Arena) (k : Nat) (a' : Arena) (k' : Nat) (vals : List Int),
      loopR basis o roll left j a k = .ok (a', k', vals) → a' = loop basis (o.replay j vals) left j a := by
  intro left
  induction left with
  | zero =>
    intro j a k a' k' vals h
    simp only [loopR] at h
    injection h with h; injection h with h1 _
    simp [loop, h1]
  | succ left ih =>
    intro j a k a' k' vals h
    rw [loopR] at h
    simp only [loop]
    have hpick : (o.replay j vals).pick = o.pick := rfl
    rw [hpick]
    generalize populate basis a (descend (o.pick j) (a.size + 1) a 0) = a1 at h ⊢
    generalize descend (o.pick j) (a.size + 1) a 0 = node at h ⊢
    simp only at h
    split at h
    · rename_i hpr
      injection h with h; injection h with h1 _
      rw [if_pos hpr]; exact h1.symm
    · rename_i hpr
      rw [if_neg hpr]
      split at h
      · cases h
      · rename_i val k1 hr
        split at h
        · cases h
        · rename_i a2 k2 vals2 hrest
          injection h with h; injection h with h1 h2; injection h2 with h2 h3
          subst h1; subst h3
          have hv : (if provenAt a1 node == 0 then (o.replay j (val :: vals2)).rollout j node else 0) = val := by
            split
            · simp [Oracle.replay]
            · rename_i hc
              rw [if_neg hc] at hr
              cases hr
              rfl
          rw [hv]
          rw [ih (j + 1) _ k1 a2 k2 vals2 hrest]
          refine loop_congr basis (o.replay (j + 1) vals2) (o.replay j (val :: vals2)) rfl left (j + 1) _ ?_
          intro j' nd hj
          simp only [Oracle.replay]
          have : j' - j = (j' - (j + 1)) + 1 := by omega
          rw [this, List.getD_cons_succ]

end Proofs.MCTSPolicy
