import TakVerif.Proofs.TEIClientMove

/-! Lemmas for C17/C13 (client side): `sendCommand` indexes `words[0]` of every line it reads; the engine of
`tei/server.go` never writes a line without a word, so against it that index never fails. -/
set_option linter.unusedVariables false
set_option linter.unusedSimpArgs false
namespace Proofs.TEIClient
open Tak Tak.TEI Tak.TEIClient Go Spec.TEIClient Proofs.TEI

/-- every line has at least one word -/
def LinesOK (ls : List String) : Prop := ∀ l ∈ ls, fields l.toList ≠ []

theorem fields_bestmove_ne (x : String) : fields ("bestmove " ++ x).toList ≠ [] := by
  have : ("bestmove " ++ x).toList = ['b', 'e', 's', 't', 'm', 'o', 'v', 'e'] ++ ' ' :: x.toList := by
    rw [String.toList_append]; rfl
  rw [this, fields_word_space _ _ (by simp) (by
    intro c hc
    simp only [List.mem_cons, List.mem_nil_iff, or_false] at hc
    rcases hc with rfl | rfl | rfl | rfl | rfl | rfl | rfl | rfl <;> decide)]
  simp

/-- what `analyze` writes: nothing, or the info line followed by the bestmove line -/
theorem analyze_out (env : Env) (k : Nat) (st : Engine) (words : List String) (r : GoResult)
    (h : analyze env k st words = .ok r) :
    r.out = [] ∨ ∃ sr m, r.out = [infoLine env sr, "bestmove " ++ env.fmtMove m] := by
  unfold analyze at h
  cases hp : st.pos with
  | none => simp only [hp] at h; cases h; exact .inl rfl
  | some pos =>
    simp only [hp] at h
    have tail : ∀ (mmSize : Int) (st' : Engine),
        (match parseGoArgs (words.drop 1) {} with
          | none => (.ok { st := st', out := [], err := true } : R GoResult)
          | some a =>
            let budget := goBudget pos a
            if mmSize ≠ (pos.cfg.size : Int) then .error (.panic "Analyze: wrong size") else
            let r := env.search k pos budget
            match r.pv with
            | [] => .ok { st := st', out := [], err := true, deadline := budget }
            | m :: _ => .ok { st := st', out := [infoLine env r, "bestmove " ++ env.fmtMove m], err := false, deadline := budget }) = .ok r →
        (r.out = [] ∨ ∃ sr m, r.out = [infoLine env sr, "bestmove " ++ env.fmtMove m]) := by
      intro mmSize st' h
      cases ha : parseGoArgs (words.drop 1) {} with
      | none => simp only [ha] at h; cases h; exact .inl rfl
      | some a =>
        simp only [ha] at h
        by_cases hs : mmSize ≠ (pos.cfg.size : Int)
        · rw [if_pos hs] at h; cases h
        · rw [if_neg hs] at h
          cases hpv : (env.search k pos (goBudget pos a)).pv with
          | nil => simp only [hpv] at h; cases h; exact .inl rfl
          | cons m rest => simp only [hpv] at h; cases h; exact .inr ⟨_, _, rfl⟩
    cases hm : st.mm with
    | some s => simp only [hm] at h; exact tail _ _ h
    | none =>
      simp only [hm] at h
      by_cases hsz : st.size < 3 ∨ st.size > 8
      · rw [if_pos hsz] at h; cases h
      · rw [if_neg hsz] at h; exact tail _ _ h

/-- **the engine never writes an empty line**: every line `Run` writes for one command has a first word
(`id`, `teiok`, `readyok`, `info` or `bestmove`) -/
theorem step_linesOK (env : Env) (k : Nat) (st : Engine) (words : List String) :
    LinesOK (recOf (step env k st words)).out := by
  unfold step
  split
  · intro l hl; cases hl
  · rename_i w0 rest
    by_cases h1 : w0 = "tei"
    · simp only [h1, if_true, recOf]
      intro l hl
      simp only [List.mem_cons, List.mem_nil_iff, or_false] at hl
      rcases hl with rfl | rfl | rfl <;> decide
    · simp only [h1, if_false]
      by_cases h2 : w0 = "quit"
      · simp only [h2, if_true, recOf]; intro l hl; cases hl
      · simp only [h2, if_false]
        by_cases h3 : w0 = "teinewgame"
        · simp only [h3, if_true]
          split
          · split <;> (simp only [recOf]; intro l hl; cases hl)
          · simp only [recOf]; intro l hl; cases hl
        · simp only [h3, if_false]
          by_cases h4 : w0 = "position"
          · simp only [h4, if_true]
            split <;> (simp only [recOf]; intro l hl; cases hl)
          · simp only [h4, if_false]
            by_cases h5 : w0 = "go"
            · simp only [h5, if_true]
              split
              · rename_i r hr
                simp only [recOf]
                rcases analyze_out env k st _ r hr with h | ⟨sr, m, h⟩
                · rw [h]; intro l hl; cases hl
                · rw [h]
                  intro l hl
                  simp only [List.mem_cons, List.mem_nil_iff, or_false] at hl
                  rcases hl with rfl | rfl
                  · obtain ⟨ws, hws⟩ := fields_infoLine env sr
                    rw [hws]; simp
                  · exact fields_bestmove_ne _
              all_goals (simp only [recOf]; intro l hl; cases hl)
            · simp only [h5, if_false]
              by_cases h6 : w0 = "stop"
              · simp only [h6, if_true, recOf]; intro l hl; cases hl
              · simp only [h6, if_false]
                by_cases h7 : w0 = "isready"
                · simp only [h7, if_true, recOf]
                  intro l hl
                  simp only [List.mem_singleton] at hl
                  subst hl; decide
                · simp only [h7, if_false, recOf]; intro l hl; cases hl

theorem readUntil_no_panic (expect : String) : ∀ (ls : List String), LinesOK ls →
    (∀ s, (readUntil expect ls).1 ≠ some (.error (.panic s))) ∧ LinesOK (readUntil expect ls).2 := by
  intro ls
  induction ls with
  | nil => intro _; exact ⟨fun s h => (by cases h), fun l hl => (by cases hl)⟩
  | cons l rest ih =>
    intro h
    have hl := h l (by simp)
    have hrest : LinesOK rest := fun x hx => h x (by simp [hx])
    unfold readUntil
    split
    · rename_i e; exact absurd e hl
    · split
      · exact ⟨fun s hs => (by cases hs), hrest⟩
      · exact ih hrest

/-- **against this engine `sendCommand` never panics**, and it leaves only well-formed lines unread -/
theorem sendCommand_no_panic (env : Env) (c : Conn EngSt) (cmd expect : String) (h : LinesOK c.unread) :
    (∀ s, (sendCommand (serverPeer env) c cmd expect).2 ≠ .error (.panic s)) ∧
    LinesOK (sendCommand (serverPeer env) c cmd expect).1.unread := by
  unfold sendCommand
  simp only []
  split
  · exact ⟨fun s hs => (by cases hs), h⟩
  · have hout : LinesOK ((serverPeer env).feed c.eng cmd).2.1 := by
      have := step_linesOK env c.eng.k c.eng.st (fields cmd.toList)
      unfold serverPeer
      simp only []
      split <;> (rename_i hst; rw [hst] at this; simpa [recOf] using this)
    have hall : LinesOK (c.unread ++ ((serverPeer env).feed c.eng cmd).2.1) := by
      intro l hl
      rcases List.mem_append.mp hl with e | e
      · exact h l e
      · exact hout l e
    split
    · exact ⟨fun s hs => (by cases hs), hall⟩
    · have := readUntil_no_panic expect _ hall
      split
      · rename_i r rest heq
        rw [heq] at this
        refine ⟨fun s hs => this.1 s (by simp only [] at hs; rw [hs]), this.2⟩
      · refine ⟨fun s hs => ?_, fun l hl => (by cases hl)⟩
        split at hs <;> cases hs

end Proofs.TEIClient
