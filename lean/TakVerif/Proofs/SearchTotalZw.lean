import TakVerif.Proofs.SearchTotalNodes

/-! # Totality of `zwSearch` (null move, slide reduction, multi-cut, the child loop, the table store) and the
induction over the free frames: `search_t`, `pvSearch_t`. -/
namespace Search
open Tak (Err)

variable {P M : Type}

section nodes
variable {g : Game P M} {o : Oracle M} {Q : M → Prop} {N : P → Prop}

theorem nullMoveOK_t (cfg : SOpts) (ply : Nat) (hply : ply < Facts.maxDepth) (depth : Int) (p : P) {s : Eng M}
    (hs : EngT Q s) : ∃ b, nullMoveOK g cfg ply depth p s = .ok b := by
  unfold nullMoveOK
  split
  · exact ⟨_, rfl⟩
  · split
    · exact ⟨_, rfl⟩
    · obtain ⟨prev, hprev, _⟩ := hs.getStackM (ply - 1) (by omega) "stack[ply-1].m"
      rw [hprev]
      show ∃ b, (if g.isPass prev = true then (pure false : Except Err Bool) else pure (g.nullOK p)) = .ok b
      split
      · exact ⟨_, rfl⟩
      · exact ⟨_, rfl⟩

theorem nullMove_t (hG : TGame g o Q N) (cfg : SOpts) {k : Nat} {czw : ZwFn P M} (hz : ZwSpecT Q N k czw)
    (p : P) (hN : N p) (ply : Nat) (depth α : Int) (hd : depth - 1 ≤ (k : Int)) (hply : ply + 1 + k ≤ Facts.maxDepth)
    (s : Eng M) (hs : EngT Q s) :
    Tot (nullMove g cfg czw p ply depth α s) (fun x => EngT Q x.2 ∧ ∀ r, x.1 = some r → r.1 = none) := by
  have hply' : ply < Facts.maxDepth := by omega
  unfold nullMove
  obtain ⟨ok, hok⟩ := nullMoveOK_t (g := g) cfg ply hply' depth p hs
  rw [hok]
  show Tot (if (!ok) = true then _ else _) _
  split
  · exact Tot.pure ⟨hs, fun r hr => by cases hr⟩
  · apply Tot.bind
    refine (hs.setStackM ply hply' g.passMove hG.pass _).mono ?_
    intro sm hs1
    dsimp only
    rcases hG.applyT p g.passMove hN hG.pass with ⟨child, hc⟩ | ⟨w, hw⟩
    · rw [hc]
      dsimp only
      apply Tot.bind
      refine (hz child (ply + 1) (depth - 3) [] (-α - 1) true _ (hG.closed p _ child hN hc)
        (fun x hx => by cases hx) ?_ (by omega) hply).mono ?_
      · exact hs1.of_eq rfl rfl rfl rfl rfl rfl
      rintro r ⟨hr1, _⟩
      split
      · exact Tot.pure ⟨hr1.of_eq rfl rfl rfl rfl rfl rfl, fun r' hr' => by cases hr'; rfl⟩
      · exact Tot.pure ⟨hr1, fun r' hr' => by cases hr'⟩
    · rw [hw]
      exact Tot.pure ⟨hs1, fun r hr => by cases hr⟩

/-- the slide-reduction test reads `stack[ply-1].m` (a `Q`-move) and indexes `p.Height` inside -/
theorem slideReduction_t (hG : TGame g o Q N) (cfg : SOpts) (p : P) (hN : N p) (ply : Nat) (hply : ply < Facts.maxDepth)
    (depth : Int) (s : Eng M) (hs : EngT Q s) :
    Tot (slideReduction g cfg p ply depth s) (fun x => EngT Q x.2 ∧ x.1 ≤ depth) := by
  unfold slideReduction
  split
  · apply Tot.bind
    refine (hs.getStackM (ply - 1) (by omega) _).mono ?_
    intro prev hprev
    obtain ⟨red, hred⟩ := hG.red p prev hN hprev
    rw [hred]
    show Tot (if red = true then _ else _) _
    split
    · exact Tot.pure ⟨hs.of_eq rfl rfl rfl rfl rfl rfl, by dsimp only; omega⟩
    · exact Tot.pure ⟨hs, Int.le_refl _⟩
  · exact Tot.pure ⟨hs, Int.le_refl _⟩

/-- invariant of the multi-cut loop: `first` (what it writes into `stack[ply].m`) is a `Q`-move -/
def McLIT (Q : M → Prop) (a : McAcc M) (s : Eng M) : Prop := EngT Q s ∧ ∀ x, a.first = some x → Q x

theorem mcBody_t (hG : TGame g o Q N) {k : Nat} {czw : ZwFn P M} (hz : ZwSpecT Q N k czw) (p : P) (hN : N p)
    (ply : Nat) (depth α : Int) (cut : Bool) (hd : depth - 1 ≤ (k : Int)) (hply : ply + 1 + k ≤ Facts.maxDepth) :
    BodyT g p (mcBody czw ply depth α cut) Q (McLIT Q) (McLIT Q) (fun (r : Res M) s' => EngT Q s' ∧ r.1 = none) := by
  intro m c a s hap hm hI
  have hply' : ply < Facts.maxDepth := by omega
  have hq : Q (a.first.getD m) := by
    cases hf : a.first with
    | none => exact hm
    | some x => exact hI.2 x hf
  unfold mcBody
  split
  · exact Tot.pure hI
  · apply Tot.bind
    refine (hI.1.setStackM ply hply' _ hq _).mono ?_
    intro sm hs1
    apply Tot.bind
    refine (hz c (ply + 1) (depth - 1 - 2) [] (-α - 1) (!cut) _ (hG.closed p m c hN hap)
      (fun x hx => by cases hx) hs1 (by omega) hply).mono ?_
    rintro r ⟨hr1, _⟩
    dsimp only
    have hf : ∀ x, some (a.first.getD m) = some x → Q x := fun x hx => by cases hx; exact hq
    split
    · split
      · exact Tot.pure ⟨hr1.of_eq rfl rfl rfl rfl rfl rfl, rfl⟩
      · exact Tot.pure ⟨hr1, hf⟩
    · exact Tot.pure ⟨hr1, hf⟩

theorem multiCut_t [DecidableEq M] (hG : TGame g o Q N) (cfg : SOpts) {k : Nat} {czw : ZwFn P M}
    (hz : ZwSpecT Q N k czw) (p : P) (hN : N p) (mg : MG M) (hte : ∀ e, mg.te = some e → Q e.m)
    (hpv : ∀ x rest, mg.pv = x :: rest → Q x) (hd : mg.depth - 1 ≤ (k : Int)) (hply : mg.ply + 1 + k ≤ Facts.maxDepth)
    (α : Int) (cut : Bool) (s : Eng M) (hs : EngT Q s) :
    Tot (multiCut g cfg o czw p mg α cut s) (fun x => EngT Q x.2 ∧ ∀ r, x.1 = some r → r.1 = none) := by
  unfold multiCut
  split
  · apply Tot.bind
    refine (iterate_t hG hN (mcBody_t hG hz p hN mg.ply mg.depth α cut hd hply) cfg mg hte hpv
      (fun _ s h => h.1.resp) (fun _ s h => by rw [h.1.smSize]; omega)
      (fun _ s k h => ⟨h.1.of_eq rfl rfl rfl rfl rfl rfl, h.2⟩)
      (⟨0, 0, none⟩ : McAcc M) _ ⟨?_, fun x hx => by cases hx⟩).mono ?_
    · exact hs.of_eq rfl rfl rfl rfl rfl rfl
    rintro ⟨c, s1⟩ hc
    dsimp only
    cases c with
    | ret r => exact Tot.pure ⟨hc.1, fun r' hr' => by cases hr'; exact hc.2⟩
    | next a => exact Tot.pure ⟨hc.1, fun r' hr' => by cases hr'⟩
    | brk a => exact Tot.pure ⟨hc.1, fun r' hr' => by cases hr'⟩
  · exact Tot.pure ⟨hs, fun r hr => by cases hr⟩

/-- the loop invariant of `zwSearch`'s child loop -/
def ZwLIT (Q : M → Prop) (a : ZwAcc M) (s : Eng M) : Prop := EngT Q s ∧ (∀ x ∈ a.best, Q x) ∧ a.best ≠ []

theorem zwBody_t [DecidableEq M] (hG : TGame g o Q N) {k : Nat} {czw : ZwFn P M} (hz : ZwSpecT Q N k czw) (p : P)
    (hN : N p) (ply : Nat) (depth α : Int) (cut : Bool) (hd : depth - 1 ≤ (k : Int))
    (hply : ply + 1 + k ≤ Facts.maxDepth) :
    BodyT g p (zwBody o czw ply depth α cut) Q (ZwLIT Q) (ZwLIT Q) (fun (r : Res M) s' => EngT Q s' ∧ r.1 = none) := by
  intro m c a s hap hm hI
  have hply' : ply < Facts.maxDepth := by omega
  unfold zwBody
  apply Tot.bind
  refine (hI.1.setStackM ply hply' m hm _).mono ?_
  intro sm hs1
  apply Tot.bind
  have htail : ∀ x ∈ a.best.drop 1, Q x := fun x hx => hI.2.1 x (List.mem_of_mem_drop hx)
  refine (hz c (ply + 1) (depth - 1) _ (-α - 1) (!cut) _ (hG.closed p m c hN hap) htail hs1 hd hply).mono ?_
  rintro r ⟨hr1, hr2⟩
  dsimp only
  split
  · apply Tot.bind
    refine (EngT.recordCut hr1 m hm _ ply hply').mono ?_
    intro s2 hs2
    apply Tot.bind
    refine (hs2.setPv0 ply hply' m hm _).mono ?_
    intro pv0 hpv0
    refine Tot.pure ⟨hpv0, ?_, by simp⟩
    intro x hx
    dsimp only at hx
    rcases List.mem_cons.mp hx with h | h
    · subst h; exact hm
    · exact getD_q _ hr2 x h
  · exact Tot.pure (afterChild_t (I := ZwLIT Q) _ _ ⟨hr1.load o, hI.2⟩ hr1)

theorem zwStore_t (k : H) (depth α : Int) (hd : depth ≤ Facts.maxDepth) (a : ZwAcc M) (s : Eng M) (hI : ZwLIT Q a s) :
    Tot (zwStore o k depth α a s) (fun r => EngT Q r.2 ∧ r.1.1 = some a.best) := by
  unfold zwStore
  dsimp only
  apply Tot.bind
  refine (ttPut_t o hI.1 k).mono ?_
  rintro ⟨slot?, s1⟩ ⟨hs1, _⟩
  dsimp only at hs1 ⊢
  cases slot? with
  | none => exact Tot.pure ⟨hs1, rfl⟩
  | some slot =>
    dsimp only
    split
    · rename_i b0 rest hbest
      refine Tot.pure ⟨?_, rfl⟩
      have hs1' : EngT Q (if a.didCut = true then s1 else
          { s1 with st := { s1.st with allNodes := s1.st.allNodes + 1 } }) := by
        split
        · exact hs1
        · exact hs1.of_eq rfl rfl rfl rfl rfl rfl
      exact hs1'.setEntry slot _ (hI.2.1 b0 (by rw [hbest]; exact List.mem_cons_self)) hd
    · rename_i hbest
      exact absurd hbest hI.2.2

theorem zwNode_t0 [DecidableEq M] (cfg : SOpts) (czw : ZwFn P M) : ZwSpecT Q N 0 (zwNode g cfg o false czw) := by
  intro p ply depth pv α cut s _ _ hs hd _
  unfold zwNode
  dsimp only
  split
  · exact Tot.pure ⟨leaf_t p _ hs, fun l hl => by cases hl⟩
  · rename_i hno
    exfalso
    apply hno
    simp only [Bool.or_eq_true, decide_eq_true_eq]
    exact Or.inl (by simpa using hd)

theorem zwNode_t [DecidableEq M] (hG : TGame g o Q N) (cfg : SOpts) {k : Nat} {czw : ZwFn P M}
    (hz : ZwSpecT Q N k czw) : ZwSpecT Q N (k + 1) (zwNode g cfg o true czw) := by
  intro p ply depth pv α cut s hN hpv hs hd hply
  have hmd : Facts.maxDepth = 15 := rfl
  have hply' : ply < Facts.maxDepth := by omega
  unfold zwNode
  dsimp only
  split
  · exact Tot.pure ⟨leaf_t p _ hs, fun l hl => by cases hl⟩
  · rw [if_neg (by simp)]
    apply Tot.bind
    refine (ttProbe_t hG p hN ply hply' depth α (α + 1) (Q := Q) ?_).mono ?_
    · exact hs.of_eq rfl rfl rfl rfl rfl rfl
    rintro ⟨probe, s1⟩ ⟨hs1, hprobe⟩
    dsimp only at hs1 hprobe ⊢
    cases probe with
    | inl r =>
      dsimp only [ProbeT] at hprobe ⊢
      obtain ⟨m, hr, hqm⟩ := hprobe
      refine Tot.pure ⟨hs1, fun l hl => ?_⟩
      rw [hr] at hl
      cases hl
      intro x hx
      simp only [List.mem_cons, List.not_mem_nil, or_false] at hx
      subst hx; exact hqm
    | inr te =>
      dsimp only [ProbeT] at hprobe ⊢
      apply Tot.bind
      refine (nullMove_t hG cfg hz p hN ply depth α (by omega) (by omega) s1 hs1).mono ?_
      rintro ⟨nm, s2⟩ ⟨hs2, hnm⟩
      dsimp only at hs2 hnm ⊢
      cases nm with
      | some r =>
        refine Tot.pure ⟨hs2, fun l hl => ?_⟩
        rw [hnm r rfl] at hl; cases hl
      | none =>
        dsimp only
        apply Tot.bind
        refine (slideReduction_t hG cfg p hN ply hply' depth s2 hs2).mono ?_
        rintro ⟨depth', s3⟩ ⟨hs3, hd'⟩
        dsimp only at hs3 hd' ⊢
        apply Tot.bind
        have hpvh : ∀ x rest, pv = x :: rest → Q x := fun x rest h => hpv x (by rw [h]; exact List.mem_cons_self)
        refine (multiCut_t hG cfg hz p hN ⟨ply, depth', te, pv⟩ hprobe hpvh (by dsimp only; omega)
          (by dsimp only; omega) α cut s3 hs3).mono ?_
        rintro ⟨mc, s4⟩ ⟨hs4, hmc⟩
        dsimp only at hs4 hmc ⊢
        cases mc with
        | some r =>
          refine Tot.pure ⟨hs4, fun l hl => ?_⟩
          rw [hmc r rfl] at hl; cases hl
        | none =>
          dsimp only
          apply Tot.bind
          refine (hs4.getPv0 ply hply' _).mono ?_
          intro x hx
          apply Tot.bind
          have hI0 : ZwLIT Q (⟨[x], 0, false⟩ : ZwAcc M) s4 := by
            refine ⟨hs4, ?_, by simp⟩
            intro y hy
            simp only [List.mem_cons, List.not_mem_nil, or_false] at hy
            subst hy; exact hx
          refine (iterate_t hG hN (zwBody_t hG hz p hN ply depth' α cut (by omega) (by omega)) cfg
            ⟨ply, depth', te, pv⟩ hprobe hpvh
            (fun a s h => h.1.resp) (fun a s h => by rw [h.1.smSize]; exact Nat.le_of_lt hply')
            (fun a s k h => ⟨h.1.of_eq rfl rfl rfl rfl rfl rfl, h.2⟩) _ s4 hI0).mono ?_
          rintro ⟨c, s5⟩ hc
          dsimp only
          have hfin : ∀ a : ZwAcc M, ZwLIT Q a s5 →
              Tot (zwStore o (g.hash p) depth' α a s5) (fun r => EngT Q r.2 ∧
                ∀ l, r.1.1 = some l → ∀ x ∈ l, Q x) := by
            intro a hI
            refine (zwStore_t (g.hash p) depth' α (by omega) a s5 hI).mono ?_
            rintro r ⟨hr1, hr2⟩
            refine ⟨hr1, fun l hl => ?_⟩
            rw [hr2] at hl
            cases hl
            exact hI.2.1
          cases c with
          | ret r =>
            refine Tot.pure ⟨hc.1, fun l hl => ?_⟩
            rw [hc.2] at hl; cases hl
          | next a => exact hfin a hc
          | brk a => exact hfin a hc

/-- **the totality induction**: with `n` frames of `ai.stack` left, both searches return for every depth `≤ n` -/
theorem search_t [DecidableEq M] (hG : TGame g o Q N) (cfg : SOpts) :
    ∀ n, PvSpecT Q N n (search g cfg o n).1 ∧ ZwSpecT Q N n (search g cfg o n).2 := by
  intro n
  induction n with
  | zero => exact ⟨pvNode_t0 cfg _ _, zwNode_t0 cfg _⟩
  | succ n ih => exact ⟨pvNode_t hG cfg ih.1 ih.2, zwNode_t hG cfg ih.2⟩

/-- `ai.pvSearch(p, ply, depth, …)` returns whenever `ply + depth ≤ maxDepth` -/
theorem pvSearch_t [DecidableEq M] (hG : TGame g o Q N) (cfg : SOpts) (ply : Nat) (p : P) (depth : Int) (pv : List M)
    (α β : Int) (s : Eng M) (hN : N p) (hpv : ∀ x ∈ pv, Q x) (hs : EngT Q s)
    (hd : ply + depth ≤ Facts.maxDepth) (hply : ply ≤ Facts.maxDepth) :
    Tot (pvSearch g cfg o ply p depth pv α β s) (fun r => EngT Q r.2 ∧ ∀ l, r.1.1 = some l → ∀ x ∈ l, Q x) :=
  (search_t hG cfg (Facts.maxDepth - ply)).1 p ply depth pv α β s hN hpv hs (by omega) (by omega)

end nodes
end Search
